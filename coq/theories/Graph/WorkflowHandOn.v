(* Graph/WorkflowHandOn.v -- property C12 for workflows in which a tool may simply
   hand one of its inputs on (tool expression `1`, `2 : T`, ...: [TIn k] at the top).

   Graph/WorkflowProofs.v proves C12_plugged for the class [wf_okb], where every tool
   expression is an operator application or a single anonymous source.  The model
   Graph/Workflow.v (frozen) also covers tools whose expression is just a numbered
   input: parse_expr then returns the input expression object itself, the tool's
   resource gets the node of that object and the returned resource -> node map is no
   longer injective.  This file extends the theorem to that class ([wf_okb2]).

   The model is the repaired one for pinned = false (graph.py commits 5e78fd2, 1f88f3e:
   every resource goes through wfnode2tfmnode right after the target, Workflow.v
   result_map_t), so that the inputs a hand-on tool declares but does not hand on get their
   nodes and trees in that pass, before the stand-in sources are connected.

   Spec    wf_okb2 (decidable),
           hand_on (the resource whose expression object a hand-on tool returns),
           hroot (chains of hand-on tools)
   Part 2  step 1 of add_workflow under wf_okb2 (copy of WorkflowProofs.v Part 2 with
           the weaker hypothesis; the definitions ExOK / IndOK / W2E are reused)
   Part 3  step 2: the invariant WS2 keeps trees only for the resources that own their
           expression object (the roots of hand-on chains); a hand-on resource is a
           memo hit on its root's key
   Part 1 of WorkflowProofs.v (add_expr on partly memoised expressions) is reused as is.
   Stdlib only, no axioms. *)
From Coq Require Import List Arith Bool Lia.
Import ListNotations.
From TF Require Import Graph.AddExpr Graph.AddExprSpec Graph.AddExprProofs
  Graph.Workflow Graph.WorkflowSpec Graph.WorkflowProofs.

(* ======================================================================== *)
(* Spec *)

Definition is_tin (t : tx) : bool := match t with TIn _ => true | _ => false end.

(* the top of a tool expression: an operator application, an anonymous source, or
   a numbered input *)
Definition ttop2 (t : tx) : bool := ttop t || is_tin t.

Definition app_okb2 (wf : wflow) (a : tapp) : bool :=
  forallb (fun i => (memb i (w_srcs wf) || memb i (outs wf))
                    && Nat.ltb (rank wf i) (rank wf (a_out a))) (a_ins a)
  && Nat.leb (rank wf (a_out a)) (length (w_apps wf))
  && twfb (length (a_ins a)) (a_tx a) && ttop2 (a_tx a)
  && Nat.eqb (length (a_ind a)) (length (a_ins a)).

(* as wf_okb, with ttop2 for ttop *)
Definition wf_okb2 (wf : wflow) : bool :=
  nodupb (w_srcs wf ++ outs wf)
  && nodupb (w_srcs wf ++ all_ids wf)
  && forallb (app_okb2 wf) (w_apps wf)
  && match target wf with Some _ => true | None => false end.

(* hand_on wf pt r = Some q: r is the output of a tool that hands its input q on AND
   parse_expr is given q's own expression object for it (passthrough on, or q is a
   workflow source), so that r and q have the same expression object *)
Definition hand_on (wf : wflow) (pt : bool) (r : nat) : option nat :=
  match find_app wf r with
  | Some a =>
      match a_tx a with
      | TIn k => match nth_error (a_ins a) k with
                 | Some q => if pt || memb q (w_srcs wf) then Some q else None
                 | None => None
                 end
      | _ => None
      end
  | None => None
  end.

(* r0 is the resource at the start of the chain of hand-on tools that ends in r *)
Inductive hroot (wf : wflow) (pt : bool) : nat -> nat -> Prop :=
| hr_self r : hand_on wf pt r = None -> hroot wf pt r r
| hr_step r q r0 : hand_on wf pt r = Some q -> hroot wf pt q r0 -> hroot wf pt r r0.

Lemma ttop_ttop2 t : ttop t = true -> ttop2 t = true.
Proof. unfold ttop2. intros ->. reflexivity. Qed.

Lemma app_okb_okb2 wf a : app_okb wf a = true -> app_okb2 wf a = true.
Proof.
  unfold app_okb, app_okb2. intros H.
  apply andb_true_iff in H. destruct H as [H H5]. apply andb_true_iff in H. destruct H as [H H4].
  rewrite H, (ttop_ttop2 _ H4), H5. reflexivity.
Qed.

Lemma wf_okb_okb2 wf : wf_okb wf = true -> wf_okb2 wf = true.
Proof.
  unfold wf_okb, wf_okb2. intros H.
  apply andb_true_iff in H. destruct H as [H Ht].
  apply andb_true_iff in H. destruct H as [H Ha].
  rewrite H, Ht. cbn [andb]. rewrite andb_true_r.
  rewrite forallb_forall in *. intros a Hin. apply app_okb_okb2, Ha, Hin.
Qed.

Lemma ttop_not_tin t : ttop t = true -> is_tin t = false.
Proof. destruct t; cbn; auto; discriminate. Qed.



(* ======================================================================== *)
(* Part 2: step 1 of add_workflow (as in WorkflowProofs.v, under wf_okb2) *)

Section WF2.
  Variable wf : wflow.
  Variable pt : bool.
  Hypothesis Hwf : wf_okb2 wf = true.

  Let srcs := w_srcs wf.
  Let apps := w_apps wf.
  Let rnk := rank wf.

  Lemma wf_parts2 :
    NoDup (srcs ++ outs wf) /\ NoDup (srcs ++ all_ids wf) /\
    (forall a, In a apps -> app_okb2 wf a = true) /\ exists tg, target wf = Some tg.
  Proof.
    unfold wf_okb2 in Hwf.
    apply andb_true_iff in Hwf. destruct Hwf as [H Ht].
    apply andb_true_iff in H. destruct H as [H Ha].
    apply andb_true_iff in H. destruct H as [H1 H2].
    split; [now apply nodupb_NoDup|]. split; [now apply nodupb_NoDup|]. split.
    - intros a Ha'. rewrite forallb_forall in Ha. now apply Ha.
    - destruct (target wf) as [tg|]; [eauto | discriminate].
  Qed.

  Lemma nd_res2 : NoDup (srcs ++ outs wf). Proof. apply wf_parts2. Qed.
  Lemma nd_ids2 : NoDup (srcs ++ all_ids wf). Proof. apply wf_parts2. Qed.
  Lemma nd_outs2 : NoDup (outs wf). Proof. apply (NoDup_app_r srcs), nd_res2. Qed.
  Lemma nd_srcs2 : NoDup srcs. Proof. apply (NoDup_app_l srcs (outs wf)), nd_res2. Qed.

  Lemma src_not_out2 r : In r srcs -> In r (outs wf) -> False.
  Proof. apply NoDup_app_disj, nd_res2. Qed.

  Lemma app_parts2 a : In a apps ->
    (forall i, In i (a_ins a) -> (In i srcs \/ In i (outs wf)) /\ rnk i < rnk (a_out a)) /\
    rnk (a_out a) <= length apps /\
    twfb (length (a_ins a)) (a_tx a) = true /\ ttop2 (a_tx a) = true /\
    length (a_ind a) = length (a_ins a).
  Proof.
    intros Ha. destruct wf_parts2 as [_ [_ [H _]]]. specialize (H a Ha). unfold app_okb2 in H.
    apply andb_true_iff in H. destruct H as [H H5]. apply andb_true_iff in H. destruct H as [H H4].
    apply andb_true_iff in H. destruct H as [H H3]. apply andb_true_iff in H. destruct H as [H1 H2].
    split; [|split; [|split; [|split]]].
    - intros i Hi. rewrite forallb_forall in H1. specialize (H1 i Hi).
      apply andb_true_iff in H1. destruct H1 as [A B]. split.
      + apply orb_true_iff in A. destruct A as [A | A]; apply memb_In in A; auto.
      + now apply Nat.ltb_lt in B.
    - now apply Nat.leb_le in H2.
    - exact H3.
    - exact H4.
    - now apply Nat.eqb_eq in H5.
  Qed.

  Lemma out_app2 r : In r (outs wf) -> exists a, In a apps /\ a_out a = r /\ find_app wf r = Some a.
  Proof.
    intros H. apply in_map_iff in H. destruct H as [a [E Ha]]. exists a. split; [exact Ha|].
    split; [exact E|]. rewrite <- E. apply find_app_unique; [apply nd_outs2 | exact Ha].
  Qed.


  Lemma w2e_ok2 : forall fuel, W2E wf pt fuel.
  Proof.
    induction fuel as [|fuel IH]; intros r E Hex Hind Hr Hrk; [unfold rnk in *; lia|].
    cbn [w2e].
    destruct (elookup r (e_tab E)) as [e|] eqn:El.
    { exists e, E. split; [reflexivity|]. split; [exact Hex|]. split; [exact Hind|].
      split; [apply tmono_refl|]. split; [exact El | auto]. }
    destruct Hex as [X0 [X1 [X2 X3]]].
    assert (Hns : ~ In r srcs).
    { intros Hs. rewrite (X1 r Hs) in El. discriminate. }
    destruct Hr as [Hr | Hr]; [contradiction|].
    destruct (out_app2 r Hr) as [a [Ha [Eo Efind]]]. rewrite Efind.
    destruct (app_parts2 a Ha) as [Hins [Hrka [Htwf [Htop Hlen]]]].
    rewrite Eo in Hins.
    destruct (mapM_ok wf pt fuel IH (a_ins a) E (conj X0 (conj X1 (conj X2 X3))) Hind)
      as [es [E1 [Em [Hex1 [Hind1 [Hm1 [Hf1 Hn1]]]]]]].
    { intros q Hq. destruct (Hins q Hq) as [A B]. split; [exact A|]. (unfold rnk in *; lia). }
    rewrite Em.
    assert (Hr1 : ~ In r (map fst (e_tab E1))).
    { intros H. destruct (Hn1 r H) as [H' | [q [Hq Hle]]].
      - apply elookup_None in El. contradiction.
      - destruct (Hins q Hq) as [_ B]. (unfold rnk in *; lia). }
    (* the expressions handed to the parser *)
    assert (Hfeed : exists es' E2,
      (if pt then (es, E1) else indirect wf (a_ins a) (a_ind a) es E1) = (es', E2) /\
      e_tab E2 = e_tab E1 /\ feeds wf pt (e_tab E1) (a_ins a) (a_ind a) = Some es' /\
      (forall id e, In (id, e) (e_ind E2) <->
         In (id, e) (e_ind E1) \/
         (pt = false /\ exists k q, nth_error (a_ins a) k = Some q /\ ~ In q srcs /\
            nth k (a_ind a) 0 = id /\ nth_error es k = Some e))).
    { destruct pt eqn:Ept.
      - exists es, E1. split; [reflexivity|]. split; [reflexivity|]. split; [now apply feeds_pass|].
        intros id e. split; [auto|]. intros [H | [H _]]; [exact H | discriminate H].
      - destruct E1 as [tab1 ind1]. cbn [e_tab e_ind] in *.
        destruct (indirect wf (a_ins a) (a_ind a) es (mkE tab1 ind1)) as [es' E2] eqn:Ei.
        destruct (indirect_spec wf tab1 (a_ins a) (a_ind a) es ind1 es' E2 Hf1 Ei) as [A [B D]].
        exists es', E2. split; [reflexivity|]. split; [exact A|]. split; [exact B|].
        intros id e. rewrite D. split.
        + intros [H | H]; [auto|]. right. split; [reflexivity | exact H].
        + intros [H | [_ H]]; auto. }
    destruct Hfeed as [es' [E2 [Efeed [Etab2 [Hfeeds Hind2]]]]].
    rewrite Efeed.
    assert (Hlen' : length es' = length (a_ins a)) by (eapply feeds_length; eauto).
    destruct (inst_some es' (a_tx a)) as [e Einst]; [now rewrite Hlen'|].
    rewrite Einst.
    set (tab3 := e_tab E2 ++ [(r, e)]).
    assert (Hm3 : tmono (e_tab E1) tab3).
    { unfold tab3. rewrite Etab2. apply tmono_snoc. }
    assert (Hl3 : elookup r tab3 = Some e).
    { unfold tab3. rewrite elookup_snoc, Etab2.
      destruct (elookup r (e_tab E1)) as [e1|] eqn:E1r.
      - exfalso. apply Hr1. eapply elookup_dom; eauto.
      - now rewrite Nat.eqb_refl. }
    destruct Hex1 as [Y0 [Y1 [Y2 Y3]]].
    assert (Hdom3 : forall r', In r' (map fst tab3) <-> In r' (map fst (e_tab E1)) \/ r' = r).
    { intros r'. unfold tab3. rewrite Etab2, map_app, in_app_iff. cbn. intuition auto. }
    exists e, (mkE tab3 (e_ind E2)). split; [reflexivity|]. cbn [e_tab e_ind].
    split; [|split; [|split; [|split]]].
    - (* ExOK *)
      split; [|split; [|split]].
      + unfold tab3. rewrite Etab2, map_app. cbn [map fst].
        apply NoDup_app_intro; [exact Y0 | repeat constructor; intros [] |].
        intros y Hy [<- | []]. contradiction.
      + intros s Hs. apply Hm3, Y1, Hs.
      + intros r' Hr'. apply Hdom3 in Hr'. destruct Hr' as [H | ->]; [apply Y2, H | auto].
      + intros r' e' Hl' Hns'. unfold tab3 in Hl'. rewrite elookup_snoc, Etab2 in Hl'.
        destruct (elookup r' (e_tab E1)) as [e1|] eqn:E1r.
        * injection Hl' as <-. destruct (Y3 r' e1 E1r Hns') as [a' [es1 [A [B D]]]].
          exists a', es1. split; [exact A|]. split; [|exact D].
          eapply feeds_mono; [exact Hm3 | exact B].
        * destruct (Nat.eqb r' r) eqn:Er; [|discriminate]. apply Nat.eqb_eq in Er. subst r'.
          injection Hl' as <-. exists a, es'. split; [exact Efind|]. split; [|exact Einst].
          eapply feeds_mono; [exact Hm3 | exact Hfeeds].
    - (* IndOK *)
      unfold IndOK. cbn [e_tab e_ind]. intros id e0. rewrite Hind2, (Hind1 id e0). split.
      + intros [[Hp [a' [k [q [Hd [Ha' [Hk [Hq [Hi He]]]]]]]]] | [Hp [k [q [Hk [Hq [Hi He]]]]]]].
        * split; [exact Hp|]. exists a', k, q. split; [apply Hdom3; auto|]. split; [exact Ha'|].
          split; [exact Hk|]. split; [exact Hq|]. split; [exact Hi|]. apply Hm3, He.
        * split; [exact Hp|]. exists a, k, q. split; [apply Hdom3; auto|]. split; [exact Ha|].
          split; [exact Hk|]. split; [exact Hq|]. split.
          -- rewrite <- Hi. apply nth_error_nth'. rewrite Hlen. apply nth_error_Some. congruence.
          -- destruct (Forall2_nth _ _ _ Hf1 k q Hk) as [e1 [He1 Hl1]].
             rewrite He in He1. injection He1 as <-. apply Hm3, Hl1.
      + intros [Hp [a' [k [q [Hd [Ha' [Hk [Hq [Hi He]]]]]]]]].
        apply Hdom3 in Hd. destruct Hd as [Hd | Hd].
        * left. split; [exact Hp|]. exists a', k, q. split; [exact Hd|]. split; [exact Ha'|].
          split; [exact Hk|]. split; [exact Hq|]. split; [exact Hi|].
          (* q was looked up when a' was built *)
          assert (Hns' : ~ In (a_out a') srcs).
          { intros F. apply (src_not_out2 _ F). unfold outs. now apply in_map. }
          destruct (elookup (a_out a') (e_tab E1)) as [ea|] eqn:Ela;
            [|apply elookup_None in Ela; contradiction].
          destruct (Y3 _ _ Ela Hns') as [a'' [es1 [A [B _]]]].
          rewrite (find_app_unique wf a' nd_outs2 Ha') in A. injection A as <-.
          destruct (feeds_nth wf pt _ _ _ _ k q B Hk) as [e1 [He1 _]].
          rewrite (Hm3 _ _ He1) in He. injection He as <-. exact He1.
        * right. split; [exact Hp|].
          assert (a' = a).
          { rewrite <- Eo in Hd. pose proof (find_app_unique wf a' nd_outs2 Ha') as F1.
            rewrite Hd in F1. rewrite Eo, Efind in F1. now injection F1. }
          subst a'. exists k, q. split; [exact Hk|]. split; [exact Hq|]. split.
          -- now apply nth_error_nth.
          -- destruct (Forall2_nth _ _ _ Hf1 k q Hk) as [e1 [He1 Hl1]].
             rewrite (Hm3 _ _ Hl1) in He. injection He as <-. exact He1.
    - eapply tmono_trans; eauto.
    - exact Hl3.
    - intros r' Hr'. apply Hdom3 in Hr'. destruct Hr' as [H | ->]; [|right; unfold rnk in *; lia].
      destruct (Hn1 r' H) as [H' | [q [Hq Hle]]]; [auto|].
      destruct (Hins q Hq) as [_ B]. right. (unfold rnk in *; lia).
  Qed.
End WF2.

(* ======================================================================== *)
(* Part 3: step 2 of add_workflow *)

(* the key under which the expression of a tool that owns its expression object is
   memoised; for a tool that hands input k on with passthrough off (input produced by a
   tool) that object is the stand-in Source made for input k (graph.py:450) *)
Definition rkey (a : tapp) : key :=
  match a_tx a with
  | TIn k => (0, nth k (a_ind a) 0)
  | t => troot t
  end.

Lemma add_expr_hit add_from pinned e st n :
  memo_find (key_of e) (g_memo st) = Some n -> add_expr add_from pinned e None st = Some (n, st).
Proof. intros H. destruct e; cbn [add_expr key_of] in *; rewrite H; reflexivity. Qed.

Section S3.
  Variable add_from add_from_r : node -> node -> list triple -> list triple.
  Hypothesis Hok : add_from_ok add_from.
  Hypothesis Hokr : add_from_ok add_from_r.
  Variable wf : wflow.
  Variable pt : bool.
  Hypothesis Hwf : wf_okb2 wf = true.
  Variable ex : etab.
  Hypothesis Hex : ExOK wf pt ex.

  Let srcs := w_srcs wf.
  Let apps := w_apps wf.

  Lemma own_all2 a i : In a apps -> In i (own_ids a) -> In i (all_ids wf).
  Proof. intros Ha Hi. unfold all_ids. apply in_flat_map. exists a. auto. Qed.

  Lemma own_unique2 a a' i : In a apps -> In a' apps -> In i (own_ids a) -> In i (own_ids a') -> a = a'.
  Proof.
    intros Ha Ha' Hi Hi'. apply (flat_map_owner own_ids apps a a' i); auto.
    apply (NoDup_app_r srcs). apply (nd_ids2 wf Hwf).
  Qed.

  Lemma own_not_src2 a i : In a apps -> In i (own_ids a) -> ~ In i srcs.
  Proof.
    intros Ha Hi Hs. apply (NoDup_app_disj _ _ i (nd_ids2 wf Hwf) Hs). eapply own_all2; eauto.
  Qed.

  Lemma src_expr2 s : In s srcs -> elookup s ex = Some (ESrc s).
  Proof. intros Hs. destruct Hex as [_ [X1 _]]. now apply X1. Qed.

  Lemma tool_expr2 r e : elookup r ex = Some e -> ~ In r srcs ->
    exists a es, In a apps /\ a_out a = r /\ find_app wf r = Some a /\
      feeds wf pt ex (a_ins a) (a_ind a) = Some es /\ inst es (a_tx a) = Some e.
  Proof.
    intros He Hns. destruct Hex as [_ [_ [_ X3]]].
    destruct (X3 r e He Hns) as [a [es [Hf [Hfe Hi]]]].
    destruct (find_app_some wf r a Hf) as [Ha Eo].
    exists a, es. auto.
  Qed.

  (* ---------------------------------------------------------------------- *)
  (* hand-on chains *)

  Lemma hand_on_some r q : hand_on wf pt r = Some q ->
    exists a k, find_app wf r = Some a /\ In a apps /\ a_out a = r /\ a_tx a = TIn k /\
      nth_error (a_ins a) k = Some q /\ pt || memb q (w_srcs wf) = true.
  Proof.
    unfold hand_on. destruct (find_app wf r) as [a|] eqn:Ef; [|discriminate].
    destruct (find_app_some wf r a Ef) as [Ha Eo].
    destruct (a_tx a) as [k| | |] eqn:Et; try discriminate.
    destruct (nth_error (a_ins a) k) as [q0|] eqn:Ek; [|discriminate].
    destruct (pt || memb q0 (w_srcs wf)) eqn:Ec; [|discriminate].
    intros [= <-]. exists a, k. auto 10.
  Qed.

  Lemma src_root s : In s srcs -> hand_on wf pt s = None.
  Proof.
    intros Hs. unfold hand_on. destruct (find_app wf s) as [a|] eqn:Ef; [|reflexivity]. exfalso.
    destruct (find_app_some wf s a Ef) as [Ha Eo]. apply (src_not_out2 wf Hwf s Hs).
    rewrite <- Eo. unfold outs. now apply in_map.
  Qed.

  Lemma hand_on_not_src r q : hand_on wf pt r = Some q -> ~ In r srcs.
  Proof. intros H Hs. rewrite (src_root r Hs) in H. discriminate. Qed.

  Lemma hand_on_rank r q : hand_on wf pt r = Some q -> rank wf q < rank wf r.
  Proof.
    intros H. destruct (hand_on_some r q H) as [a [k [_ [Ha [Eo [_ [Hk _]]]]]]].
    destruct (app_parts2 wf Hwf a Ha) as [Hins _]. rewrite <- Eo. apply Hins.
    eapply nth_error_In; eauto.
  Qed.

  Lemma hand_on_expr r q e :
    hand_on wf pt r = Some q -> elookup r ex = Some e -> elookup q ex = Some e.
  Proof.
    intros H He. destruct (hand_on_some r q H) as [a [k [Hf [Ha [Eo [Et [Hk Hc]]]]]]].
    destruct (tool_expr2 r e He (hand_on_not_src r q H)) as [a' [es [_ [_ [Hf' [Hfe Hi]]]]]].
    rewrite Hf in Hf'. injection Hf' as <-.
    rewrite Et in Hi. cbn [inst] in Hi.
    destruct (feeds_nth wf pt ex _ _ _ k q Hfe Hk) as [e0 [He0 Hn]].
    rewrite Hc in Hn. rewrite Hi in Hn. injection Hn as ->. exact He0.
  Qed.

  Lemma hroot_expr r r0 : hroot wf pt r r0 ->
    forall e, elookup r ex = Some e -> elookup r0 ex = Some e.
  Proof.
    induction 1 as [r Hr | r q r0 Hs _ IH]; intros e He; [exact He|].
    apply IH. eapply hand_on_expr; eauto.
  Qed.

  Lemma hroot_root r r0 : hroot wf pt r r0 -> hand_on wf pt r0 = None.
  Proof. induction 1; auto. Qed.

  Lemma hroot_fun r r0 : hroot wf pt r r0 -> forall r1, hroot wf pt r r1 -> r0 = r1.
  Proof.
    induction 1 as [r Hr | r q r0 Hs _ IH]; intros r1 H1; inversion H1; subst; try congruence.
    apply IH. congruence.
  Qed.

  Lemma hroot_self r r0 : hand_on wf pt r = None -> hroot wf pt r r0 -> r0 = r.
  Proof. intros Hr H. symmetry. eapply hroot_fun; [apply hr_self; exact Hr | exact H]. Qed.

  Lemma hroot_rank r r0 : hroot wf pt r r0 -> rank wf r0 <= rank wf r.
  Proof.
    induction 1 as [r Hr | r q r0 Hs _ IH]; [lia|]. apply hand_on_rank in Hs. lia.
  Qed.

  Lemma hroot_total : forall r, exists r0, hroot wf pt r r0.
  Proof.
    assert (H : forall n r, rank wf r < n -> exists r0, hroot wf pt r r0).
    { induction n as [|n IH]; intros r Hr; [lia|].
      destruct (hand_on wf pt r) as [q|] eqn:E.
      - destruct (IH q) as [r0 H0]; [apply hand_on_rank in E; lia|].
        exists r0. eapply hr_step; eauto.
      - exists r. now apply hr_self. }
    intros r. apply (H (S (rank wf r))). lia.
  Qed.

  (* the expression of a resource that owns its expression object *)
  Lemma root_expr r e : elookup r ex = Some e -> ~ In r srcs -> hand_on wf pt r = None ->
    exists a es, In a apps /\ a_out a = r /\ find_app wf r = Some a /\
      feeds wf pt ex (a_ins a) (a_ind a) = Some es /\ inst es (a_tx a) = Some e /\
      key_of e = rkey a /\ In (snd (rkey a)) (own_ids a) /\
      ((exists i, e = ESrc i) \/ tspine (a_tx a) = true).
  Proof.
    intros He Hns Hroot.
    destruct (tool_expr2 r e He Hns) as [a [es [Ha [Eo [Hf [Hfe Hi]]]]]].
    exists a, es. repeat (split; [assumption|]).
    destruct (app_parts2 wf Hwf a Ha) as [_ [_ [Htwf [Htop Hlen]]]].
    unfold rkey, own_ids. destruct (a_tx a) as [k | i | i o | i f x fn] eqn:Et.
    - cbn [twfb] in Htwf. apply Nat.ltb_lt in Htwf.
      destruct (nth_error (a_ins a) k) as [q|] eqn:Ek; [|apply nth_error_None in Ek; lia].
      unfold hand_on in Hroot. rewrite Hf, Et, Ek in Hroot.
      destruct (pt || memb q (w_srcs wf)) eqn:Ec; [discriminate|].
      destruct (feeds_nth wf pt ex _ _ _ k q Hfe Ek) as [e0 [He0 Hn]]. rewrite Ec in Hn.
      cbn [inst] in Hi. rewrite Hi in Hn. injection Hn as ->.
      split; [reflexivity|]. split; [|left; eauto].
      cbn [snd]. apply in_app_iff. right. apply nth_In. lia.
    - cbn [inst] in Hi. injection Hi as <-. split; [reflexivity|]. split; [|left; eauto]. cbn. auto.
    - cbn [inst] in Hi. injection Hi as <-. split; [reflexivity|]. split; [|right; reflexivity].
      cbn. auto.
    - split; [eapply (inst_key es (TApp i f x fn)); [exact Hi | exact I]|]. split.
      + apply in_app_iff. left. cbn. auto.
      + right. unfold ttop2, ttop in Htop. cbn in Htop. rewrite !orb_false_r in Htop. exact Htop.
  Qed.

  Lemma key_inj2 r r' e e' :
    hand_on wf pt r = None -> hand_on wf pt r' = None ->
    elookup r ex = Some e -> elookup r' ex = Some e' -> key_of e = key_of e' -> r = r'.
  Proof.
    intros Hr0 Hr0' He He' Hk.
    destruct (in_dec Nat.eq_dec r srcs) as [Hs | Hs]; destruct (in_dec Nat.eq_dec r' srcs) as [Hs' | Hs'].
    - rewrite (src_expr2 r Hs) in He. rewrite (src_expr2 r' Hs') in He'.
      injection He as <-. injection He' as <-. cbn in Hk. congruence.
    - rewrite (src_expr2 r Hs) in He. injection He as <-.
      destruct (root_expr r' e' He' Hs' Hr0') as [a [es [Ha [_ [_ [_ [_ [Kk [Ki _]]]]]]]]].
      rewrite Kk in Hk. rewrite <- Hk in Ki. cbn [key_of snd] in Ki.
      exfalso. apply (own_not_src2 a r Ha Ki Hs).
    - rewrite (src_expr2 r' Hs') in He'. injection He' as <-.
      destruct (root_expr r e He Hs Hr0) as [a [es [Ha [_ [_ [_ [_ [Kk [Ki _]]]]]]]]].
      rewrite Kk in Hk. rewrite Hk in Ki. cbn [key_of snd] in Ki.
      exfalso. apply (own_not_src2 a r' Ha Ki Hs').
    - destruct (root_expr r e He Hs Hr0) as [a [es [Ha [Eo [_ [_ [_ [Kk [Ki _]]]]]]]]].
      destruct (root_expr r' e' He' Hs' Hr0') as [a' [es' [Ha' [Eo' [_ [_ [_ [Kk' [Ki' _]]]]]]]]].
      rewrite Kk, Kk' in Hk. rewrite Hk in Ki.
      assert (a = a') by (apply (own_unique2 a a' (snd (rkey a'))); auto).
      subst a'. congruence.
  Qed.

  (* ---------------------------------------------------------------------- *)
  (* the invariant of step 2.  T has a tree for every processed resource that owns
     its expression object; a resource that is handed on has no entry of its own *)

  Definition rooted (T : list (nat * lx)) (r : nat) : Prop :=
    exists r0, hroot wf pt r r0 /\ In r0 (map fst T).

  Lemma rooted_incl T T' r : incl T T' -> rooted T r -> rooted T' r.
  Proof.
    intros Hi [r0 [A B]]. exists r0. split; [exact A|].
    apply in_map_iff in B. destruct B as [[r1 L] [E HT]]. apply in_map_iff. exists (r1, L). auto.
  Qed.

  Record WS2 (X : list triple) (st : gstate) (T : list (nat * lx)) : Prop := mkWS2 {
    s2_inv : WInv st;
    s2_memo : forall r L, In (r, L) T ->
      exists e, elookup r ex = Some e /\ memo_find (key_of e) (g_memo st) = Some (lnode L);
    s2_veq : veq (g_tr st) (flowT T ++ X);
    s2_nd : NoDup (namesT T);
    s2_lt : forall x, In x (namesT T) -> x < g_next st;
    s2_src : forall i n, In ((0, i), n) (g_memo st) -> ~ In n (namesT T);
    s2_shape : forall r L, In (r, L) T -> ~ In r srcs ->
      exists a es, find_app wf r = Some a /\ feeds wf pt ex (a_ins a) (a_ind a) = Some es /\
        tshape (lfm (g_memo st) es) (anm (g_memo st)) (a_tx a) L;
    s2_leaf : forall r L, In (r, L) T -> In r srcs -> exists n, L = LLeaf n;
    s2_closed : forall r L a, In (r, L) T -> find_app wf r = Some a ->
      forall q, In q (a_ins a) -> exists q0, hroot wf pt q q0 /\ In q0 (map fst T);
    s2_ndT : NoDup (map fst T);
    s2_keys : forall k n, In (k, n) (g_memo st) -> 2 <= fst k ->
      exists r L e, In (r, L) T /\ elookup r ex = Some e /\ k = key_of e;
    s2_own : forall i n, In ((0, i), n) (g_memo st) ->
      (In i srcs /\ In i (map fst T)) \/
      (exists a, In a apps /\ rooted T (a_out a) /\ In i (own_ids a));
    s2_root : forall r L, In (r, L) T -> hand_on wf pt r = None
  }.

  Lemma hit_in_T2 X st T r e n :
    WS2 X st T -> hand_on wf pt r = None -> elookup r ex = Some e ->
    memo_find (key_of e) (g_memo st) = Some n ->
    exists L, In (r, L) T /\ lnode L = n.
  Proof.
    intros W Hroot He Hm.
    assert (HrT : In r (map fst T)).
    { destruct (le_lt_dec 2 (fst (key_of e))) as [Hk | Hk].
      - destruct (s2_keys _ _ _ W _ _ (memo_find_In _ _ _ Hm) Hk) as [r' [L' [e' [HT [He' Ek]]]]].
        rewrite (key_inj2 r r' e e' Hroot (s2_root _ _ _ W _ _ HT) He He' Ek).
        apply in_map_iff. exists (r', L'). auto.
      - assert (Htag : fst (key_of e) <> 1).
        { destruct (in_dec Nat.eq_dec r srcs) as [Hr | Hr].
          - rewrite (src_expr2 r Hr) in He. injection He as <-. cbn. discriminate.
          - destruct (root_expr r _ He Hr Hroot) as [a [es [Ha [_ [Hf [_ [_ [Kk _]]]]]]]].
            rewrite Kk. unfold rkey. destruct (a_tx a); cbn; discriminate. }
        assert (exists i, e = ESrc i) as [i ->].
        { destruct e; cbn in Hk, Htag; try lia. eauto. }
        cbn [key_of] in Hm.
        destruct (s2_own _ _ _ W i n (memo_find_In _ _ _ Hm)) as [[Hs HT] | [a [Ha [HT Hi]]]].
        + destruct (in_dec Nat.eq_dec r srcs) as [Hr | Hr].
          * rewrite (src_expr2 r Hr) in He. now injection He as ->.
          * destruct (root_expr r _ He Hr Hroot) as [a [es [Ha [_ [_ [_ [_ [Kk [Ki _]]]]]]]]].
            cbn [key_of] in Kk. rewrite <- Kk in Ki. cbn [snd] in Ki. exfalso.
            apply (own_not_src2 a i Ha Ki Hs).
        + destruct (in_dec Nat.eq_dec r srcs) as [Hr | Hr].
          * rewrite (src_expr2 r Hr) in He. injection He as ->. exfalso.
            apply (own_not_src2 a i Ha Hi Hr).
          * destruct (root_expr r _ He Hr Hroot) as [a' [es [Ha' [Eo [_ [_ [_ [Kk [Ki _]]]]]]]]].
            cbn [key_of] in Kk. rewrite <- Kk in Ki. cbn [snd] in Ki.
            assert (a = a') by (apply (own_unique2 a a' i); auto).
            subst a'. destruct HT as [r0 [Hr0 HT]]. rewrite Eo in Hr0.
            rewrite (hroot_self _ _ Hroot Hr0) in HT. exact HT. }
    apply in_map_iff in HrT. destruct HrT as [[r0 L] [E HT]]. cbn in E. subst r0.
    exists L. split; [exact HT|].
    destruct (s2_memo _ _ _ W r L HT) as [e' [He' Hm']]. rewrite He in He'. injection He' as <-.
    rewrite Hm in Hm'. now injection Hm'.
  Qed.

  Lemma feeds_leaf2 es a k e' :
    In a apps -> feeds wf pt ex (a_ins a) (a_ind a) = Some es -> nth_error es k = Some e' ->
    exists q, nth_error (a_ins a) k = Some q /\
      ((exists i, e' = ESrc i /\ In i (a_ind a) /\ pt = false /\ ~ In q srcs) \/ elookup q ex = Some e').
  Proof.
    intros Ha Hf Hk.
    assert (Hlen : length es = length (a_ins a)) by (eapply feeds_length; eauto).
    assert (Hlt : k < length (a_ins a)).
    { rewrite <- Hlen. apply nth_error_Some. congruence. }
    destruct (nth_error (a_ins a) k) as [q|] eqn:Eq; [|apply nth_error_None in Eq; lia].
    exists q. split; [reflexivity|].
    destruct (feeds_nth wf pt ex _ _ _ k q Hf Eq) as [e0 [He0 Hn]].
    rewrite Hk in Hn. injection Hn as ->.
    destruct (pt || memb q (w_srcs wf)) eqn:Ec; [right; exact He0|].
    left. apply orb_false_iff in Ec. destruct Ec as [Ep Em]. apply memb_false in Em.
    exists (nth k (a_ind a) 0). split; [reflexivity|]. split; [|split; [exact Ep | exact Em]].
    apply nth_In. destruct (app_parts2 wf Hwf a Ha) as [_ [_ [_ [_ Hl]]]]. lia.
  Qed.

  Lemma ids_miss2 X st T a :
    WS2 X st T -> In a apps -> ~ In (a_out a) (map fst T) ->
    forall i tg, In i (tx_ids (a_tx a)) -> 2 <= tg -> memo_find (tg, i) (g_memo st) = None.
  Proof.
    intros W Ha HnT i tg Hi Htg.
    destruct (memo_find (tg, i) (g_memo st)) as [n|] eqn:Em; [|reflexivity]. exfalso.
    destruct (s2_keys _ _ _ W _ _ (memo_find_In _ _ _ Em) Htg) as [r' [L' [e' [HT [He' Ek]]]]].
    destruct (in_dec Nat.eq_dec r' srcs) as [Hr | Hr].
    - rewrite (src_expr2 r' Hr) in He'. injection He' as <-. cbn in Ek. injection Ek as -> _. lia.
    - destruct (root_expr r' e' He' Hr (s2_root _ _ _ W _ _ HT))
        as [a' [es [Ha' [Eo [_ [_ [_ [Kk [Ki _]]]]]]]]].
      rewrite Kk in Ek. rewrite <- Ek in Ki. cbn [snd] in Ki.
      assert (a = a').
      { apply (own_unique2 a a' i); auto; unfold own_ids; apply in_app_iff; auto. }
      subst a'. apply HnT. rewrite Eo. apply in_map_iff. exists (r', L'). auto.
  Qed.

  Lemma add_step2 X st T r e :
    WS2 X st T -> elookup r ex = Some e -> hand_on wf pt r = None -> ~ In r (map fst T) ->
    (In r srcs \/ exists a, find_app wf r = Some a /\
       forall q, In q (a_ins a) -> exists q0, hroot wf pt q q0 /\ In q0 (map fst T)) ->
    exists L st2, add_expr add_from false e None st = Some (lnode L, st2) /\
      WS2 X (set_memo (key_of e) (lnode L) st2) (T ++ [(r, L)]) /\
      g_next st <= g_next st2 /\
      mpres (g_memo st) (g_memo (set_memo (key_of e) (lnode L) st2)).
  Proof.
    intros W He Hroot HnT Hcase.
    assert (Hmiss : memo_find (key_of e) (g_memo st) = None).
    { destruct (memo_find (key_of e) (g_memo st)) as [n|] eqn:Em; [|reflexivity]. exfalso.
      destruct (hit_in_T2 X st T r e n W Hroot He Em) as [L [HT _]]. apply HnT.
      apply in_map_iff. exists (r, L). auto. }
    rewrite (add_expr_None_eq add_from false e st Hmiss).
    set (c := g_next st). set (st0 := snd (fresh st)).
    assert (Hinv := s2_inv _ _ _ W).
    assert (Hinv0 : WInv st0) by (apply WInv_fresh; exact Hinv).
    assert (Hcur0 : cur_ok c st0) by (apply cur_ok_freshW; exact Hinv).
    assert (Hm0 : g_memo st0 = g_memo st) by reflexivity.
    assert (Htr0 : g_tr st0 = g_tr st) by reflexivity.
    assert (Hn0 : g_next st0 = S c) by reflexivity.
    (* the shape of e *)
    assert (Hform :
      (In r srcs /\ e = ESrc r) \/
      (~ In r srcs /\ exists a es, In a apps /\ a_out a = r /\ find_app wf r = Some a /\
         feeds wf pt ex (a_ins a) (a_ind a) = Some es /\ inst es (a_tx a) = Some e /\
         ((exists i, e = ESrc i) \/ tspine (a_tx a) = true) /\
         (forall q, In q (a_ins a) -> exists q0, hroot wf pt q q0 /\ In q0 (map fst T)))).
    { destruct (in_dec Nat.eq_dec r srcs) as [Hr | Hr].
      - left. split; [exact Hr|]. rewrite (src_expr2 r Hr) in He. now injection He.
      - right. split; [exact Hr|]. destruct Hcase as [F | [a [Hf Hq]]]; [contradiction|].
        destruct (root_expr r e He Hr Hroot) as [a' [es [Ha' [Eo [Hf' [Hfe [Hi [_ [_ Hkd]]]]]]]]].
        rewrite Hf in Hf'. injection Hf' as <-. exists a, es. auto 10. }
    (* the leaves of a tool expression are memoised or are sources *)
    assert (Hleaves : forall a es, In a apps -> feeds wf pt ex (a_ins a) (a_ind a) = Some es ->
      (forall q, In q (a_ins a) -> exists q0, hroot wf pt q q0 /\ In q0 (map fst T)) ->
      forall k e', nth_error es k = Some e' -> stopf (g_memo st) e' = true).
    { intros a es Ha Hfe Hq k e' Hk.
      destruct (feeds_leaf2 es a k e' Ha Hfe Hk) as [q [Hqk [[i [-> _]] | Hl]]]; [reflexivity|].
      apply stop_of_hit. apply nth_error_In in Hqk. destruct (Hq q Hqk) as [q0 [Hq0 HqT]].
      apply in_map_iff in HqT. destruct HqT as [[q1 Lq] [E HT]]. cbn in E. subst q1.
      destruct (s2_memo _ _ _ W q0 Lq HT) as [e0 [He0 Hm]].
      rewrite (hroot_expr q q0 Hq0 _ Hl) in He0. injection He0 as <-.
      unfold hit. now rewrite Hm. }
    assert (Hdom : wdom (g_memo st0) e = true /\
                   ((exists i, e = ESrc i) \/ spine_miss (g_memo st0) e = true)).
    { rewrite Hm0. destruct Hform as [[_ ->] | [Hr [a [es [Ha [Eo [Hf [Hfe [Hi [Hkd Hq]]]]]]]]]].
      - split; [reflexivity | left; eauto].
      - destruct (app_parts2 wf Hwf a Ha) as [_ [_ [Htwf [Htop _]]]].
        assert (HaT : ~ In (a_out a) (map fst T)) by (rewrite Eo; exact HnT).
        destruct (wdom_inst (g_memo st) es (a_tx a)) as [e1 [Ei [Hd Hs]]].
        + erewrite feeds_length by eauto. exact Htwf.
        + apply (Hleaves a es Ha Hfe Hq).
        + intros i Hi0. split; apply (ids_miss2 X st T a W Ha HaT i); auto.
        + rewrite Hi in Ei. injection Ei as <-. split; [exact Hd|].
          destruct Hkd as [Hsrc | Hsp]; [left; exact Hsrc | right; now apply Hs]. }
    destruct Hdom as [Hdom Hkind].
    destruct (add_expr_w add_from Hok e c st0 Hdom Hinv0 Hcur0) as [L [st2 [Ea P]]].
    exists L, st2. split; [exact Ea|].
    destruct P as [Psh Pveq Pnames Pspine Pnd Pinv Pnext Pext Pnew Psrc].
    rewrite Hm0 in *. rewrite Htr0 in Pveq. rewrite Hn0 in *.
    assert (Hpres : mpres (g_memo st) (g_memo st2)) by (destruct Pext as [Pe _]; exact Pe).
    (* the two kinds of result *)
    assert (Hres : (exists i n, e = ESrc i /\ L = LLeaf n /\ memo_find (0, i) (g_memo st2) = Some n) \/
                   (exists o args, L = LSpine c o args /\ 2 <= fst (key_of e))).
    { destruct Hkind as [[i ->] | Hs].
      - left. inversion Psh; subst. exists i, n. auto.
      - right. destruct (Pspine Hs) as [o [args ->]]. exists o, args. split; [reflexivity|].
        destruct e; cbn in Hs; try discriminate; cbn; lia. }
    assert (HlnL : lnode L < g_next st2).
    { destruct Hres as [[i [n [_ [-> Hm]]]] | [o [args [-> _]]]]; cbn [lnode].
      - destruct Pinv as [_ [P2 _]]. apply (P2 _ _ (memo_find_In _ _ _ Hm)).
      - unfold c. lia. }
    assert (Hold_lt : forall k n, In (k, n) (g_memo st) -> n < c).
    { intros k n Hk. destruct Hinv as [_ [I2 _]]. apply (I2 k n Hk). }
    assert (HnamesL : forall x, In x (names L) -> c <= x < g_next st2).
    { intros x Hx. destruct (Pnames x Hx) as [-> | H]; unfold c in *; lia. }
    assert (Hpres' : mpres (g_memo st2) ((key_of e, lnode L) :: g_memo st2)).
    { apply mpres_set. destruct Hres as [[i [n [-> [-> Hm]]]] | [o [args [-> Htag]]]].
      - right. exact Hm.
      - left. destruct Pext as [_ Pe2]. rewrite Pe2 by lia. exact Hmiss. }
    split; [|split; [lia | unfold set_memo; cbn [g_memo]; eapply mpres_trans; eauto]].
    unfold set_memo.
    constructor; cbn [g_tr g_memo g_next].
    - (* WInv *)
      destruct Pinv as [P1 [P2 P3]]. split; [exact P1|]. split.
      + intros k n [[= <- <-] | Hk]; [exact HlnL | apply (P2 k n Hk)].
      + apply minj_set; [exact P3|].
        destruct Hres as [[i [n [-> [-> Hm]]]] | [o [args [-> Htag]]]]; cbn [lnode key_of].
        * left. exact Hm.
        * right. intros k' Hk'. apply memo_find_In in Hk'.
          destruct (Pnew _ _ Hk') as [H | [_ [_ H]]].
          -- apply Hold_lt in H. lia.
          -- apply H. cbn. auto.
    - (* s_memo *)
      intros r' L' HT'. apply in_app_iff in HT'. destruct HT' as [HT' | [[= <- <-] | []]].
      + destruct (s2_memo _ _ _ W r' L' HT') as [e' [He' Hm']]. exists e'. split; [exact He'|].
        apply Hpres', Hpres, Hm'.
      + exists e. split; [exact He|]. cbn [memo_find]. now rewrite key_eqb_refl.
    - (* s_veq *)
      intros t Hv. rewrite (Pveq t Hv), !in_app_iff, flowT_app, (s2_veq _ _ _ W t Hv), in_app_iff.
      rewrite flowT_single. tauto.
    - (* s_nd *)
      rewrite namesT_app, namesT_single.
      apply NoDup_app_intro; [apply (s2_nd _ _ _ W) | exact Pnd |].
      intros x Hx Hx'. apply (s2_lt _ _ _ W) in Hx. apply HnamesL in Hx'. unfold c in *. lia.
    - (* s_lt *)
      intros x Hx. rewrite namesT_app in Hx. apply in_app_iff in Hx. destruct Hx as [Hx | Hx].
      + apply (s2_lt _ _ _ W) in Hx. lia.
      + rewrite namesT_single in Hx. apply HnamesL in Hx. lia.
    - (* s_src *)
      intros i n Hk.
      assert (Hk2 : In ((0, i), n) (g_memo st2)).
      { destruct Hk as [E | Hk]; [|exact Hk]. injection E as E1 E2.
        destruct Hres as [[i0 [n0 [-> [-> Hm]]]] | [o [args [_ Htag]]]].
        - cbn in E1, E2. injection E1 as <-. subst n. now apply memo_find_In.
        - rewrite E1 in Htag. cbn in Htag. lia. }
      rewrite namesT_app, in_app_iff, namesT_single.
      destruct (Pnew _ _ Hk2) as [H | [_ [Hn Hnl]]].
      + intros [Hx | Hx].
        * apply (s2_src _ _ _ W i n H Hx).
        * apply HnamesL in Hx. apply Hold_lt in H. lia.
      + intros [Hx | Hx]; [|exact (Hnl Hx)].
        apply (s2_lt _ _ _ W) in Hx. unfold c in *. lia.
    - (* s_shape *)
      intros r' L' HT' Hr'. apply in_app_iff in HT'. destruct HT' as [HT' | [[= <- <-] | []]].
      + destruct (s2_shape _ _ _ W r' L' HT' Hr') as [a [es [Hf [Hfe Hts]]]].
        exists a, es. split; [exact Hf|]. split; [exact Hfe|].
        eapply tshape_mono; [| |exact Hts].
        * intros k n Hl. eapply lfm_mono; [|exact Hl]. eapply mpres_trans; eauto.
        * intros i n Hl. unfold anm in *. apply Hpres', Hpres, Hl.
      + destruct Hform as [[Hs _] | [_ [a [es [Ha [Eo [Hf [Hfe [Hi [_ Hq]]]]]]]]]]; [contradiction|].
        exists a, es. split; [exact Hf|]. split; [exact Hfe|].
        assert (HaT : ~ In (a_out a) (map fst T)) by (rewrite Eo; exact HnT).
        eapply tshape_mono; [| |apply (tshape_of_wshape (stopf (g_memo st)) (g_memo st2) es (a_tx a) e L Hi)].
        * intros k n Hl. eapply lfm_mono; [|exact Hl]. exact Hpres'.
        * intros i n Hl. unfold anm in *. apply Hpres', Hl.
        * apply (Hleaves a es Ha Hfe Hq).
        * intros i o Hi0. cbn [stopf]. unfold hit. cbn [key_of].
          now rewrite (ids_miss2 X st T a W Ha HaT i 2 Hi0).
        * intros i f x fn Hi0. cbn [stopf]. unfold hit. cbn [key_of].
          now rewrite (ids_miss2 X st T a W Ha HaT i 3 Hi0) by lia.
        * exact Psh.
    - (* s_leaf *)
      intros r' L' HT' Hr'. apply in_app_iff in HT'. destruct HT' as [HT' | [[= <- <-] | []]].
      + apply (s2_leaf _ _ _ W r' L' HT' Hr').
      + destruct Hform as [[_ ->] | [Hns _]]; [|contradiction].
        inversion Psh; subst. eauto.
    - (* s_closed *)
      intros r' L' a HT' Hf q Hq.
      assert (Hmono : (exists q0, hroot wf pt q q0 /\ In q0 (map fst T)) ->
                      exists q0, hroot wf pt q q0 /\ In q0 (map fst (T ++ [(r, L)]))).
      { intros [q0 [A B]]. exists q0. split; [exact A|]. rewrite map_app, in_app_iff. auto. }
      apply Hmono.
      apply in_app_iff in HT'. destruct HT' as [HT' | [[= <- <-] | []]].
      + apply (s2_closed _ _ _ W r' L' a HT' Hf q Hq).
      + destruct Hform as [[Hs _] | [_ [a' [es [Ha [Eo [Hf' [_ [_ [_ Hq']]]]]]]]]].
        * exfalso. destruct (find_app_some wf r a Hf) as [Ha Eo].
          apply (src_not_out2 wf Hwf r Hs). rewrite <- Eo. unfold outs. now apply in_map.
        * rewrite Hf in Hf'. injection Hf' as <-. now apply Hq'.
    - (* s_ndT *)
      rewrite map_app. cbn [map fst]. apply NoDup_app_intro; [apply (s2_ndT _ _ _ W) | |].
      + repeat constructor. intros [].
      + intros x Hx [<- | []]. contradiction.
    - (* s_keys *)
      intros k n Hk Htag. destruct Hk as [[= <- <-] | Hk].
      + exists r, L, e. split; [apply in_app_iff; cbn; auto | auto].
      + destruct (Pnew _ _ Hk) as [H | [H0 _]]; [|lia].
        destruct (s2_keys _ _ _ W k n H Htag) as [r' [L' [e' [HT' [He' Ek]]]]].
        exists r', L', e'. split; [apply in_app_iff; auto | auto].
    - (* s_own *)
      intros i n Hk. rewrite map_app. cbn [map fst].
      assert (HrT' : In r (map fst T ++ [r])) by (apply in_app_iff; cbn; auto).
      assert (HrR : rooted (T ++ [(r, L)]) r).
      { exists r. split; [now apply hr_self|]. rewrite map_app. exact HrT'. }
      assert (Hmine : forall i0, In i0 (srcs_of (stopf (g_memo st)) e) ->
        (In i0 srcs /\ In i0 (map fst T ++ [r])) \/
        (exists a, In a apps /\ rooted (T ++ [(r, L)]) (a_out a) /\ In i0 (own_ids a))).
      { intros i0 Hi0.
        destruct Hform as [[Hs ->] | [Hns [a [es [Ha [Eo [Hf [Hfe [Hi [_ Hq]]]]]]]]]].
        - cbn in Hi0. destruct Hi0 as [<- | []]. left. auto.
        - destruct (srcs_of_inst (stopf (g_memo st)) es (a_tx a) e Hi (Hleaves a es Ha Hfe Hq) i0 Hi0)
            as [Hin | [k Hk0]].
          + right. exists a. split; [exact Ha|]. split; [rewrite Eo; exact HrR|].
            unfold own_ids. apply in_app_iff. auto.
          + destruct (feeds_leaf2 es a k _ Ha Hfe Hk0) as [q [Hqk [[i1 [[= <-] [Hind _]]] | Hl]]].
            * right. exists a. split; [exact Ha|]. split; [rewrite Eo; exact HrR|].
              unfold own_ids. apply in_app_iff. auto.
            * apply nth_error_In in Hqk. destruct (Hq q Hqk) as [q0 [Hq0 HqT]].
              pose proof (hroot_expr q q0 Hq0 _ Hl) as Hl0.
              destruct (in_dec Nat.eq_dec q0 srcs) as [Hqs | Hqs].
              -- rewrite (src_expr2 q0 Hqs) in Hl0. injection Hl0 as <-. left. split; [exact Hqs|].
                 apply in_app_iff. auto.
              -- destruct (root_expr q0 _ Hl0 Hqs (hroot_root _ _ Hq0))
                   as [aq [esq [Haq [Eoq [_ [_ [_ [Kk [Ki _]]]]]]]]].
                 cbn [key_of] in Kk. rewrite <- Kk in Ki. cbn [snd] in Ki.
                 right. exists aq. split; [exact Haq|]. split; [|exact Ki].
                 rewrite Eoq. exists q0. split; [apply hr_self; eapply hroot_root; eauto|].
                 rewrite map_app. apply in_app_iff. auto. }
      assert (Hk2 : In ((0, i), n) (g_memo st2) \/ e = ESrc i).
      { destruct Hk as [E | Hk]; [|left; exact Hk]. injection E as E1 E2.
        destruct Hres as [[i0 [n0 [-> [-> Hm]]]] | [o [args [_ Htag]]]].
        - cbn in E1. injection E1 as <-. auto.
        - rewrite E1 in Htag. cbn in Htag. lia. }
      destruct Hk2 as [Hk2 | ->].
      + destruct (Psrc _ _ Hk2) as [H | [i0 [[= <-] Hi0]]].
        * destruct (s2_own _ _ _ W i n H) as [[Hs HT] | [a [Ha [HT Hi]]]].
          -- left. split; [exact Hs | apply in_app_iff; auto].
          -- right. exists a. split; [exact Ha|]. split; [|exact Hi].
             eapply rooted_incl; [|exact HT]. apply incl_appl, incl_refl.
        * apply Hmine, Hi0.
      + apply Hmine. cbn. auto.
    - (* s_root *)
      intros r' L' HT'. apply in_app_iff in HT'. destruct HT' as [HT' | [[= <- <-] | []]].
      + apply (s2_root _ _ _ W r' L' HT').
      + exact Hroot.
  Qed.

  (* graph.py:478-479 for a handed-on resource: add_expr finds the object in expr_nodes
     and the memo entry is written a second time *)
  Lemma WS2_dup X st T k n :
    WS2 X st T -> memo_find k (g_memo st) = Some n -> WS2 X (set_memo k n st) T.
  Proof.
    intros W Hm.
    assert (Hin : In (k, n) (g_memo st)) by (now apply memo_find_In).
    assert (Hp : mpres (g_memo st) ((k, n) :: g_memo st)) by (apply mpres_set; auto).
    destruct (s2_inv _ _ _ W) as [I1 [I2 I3]].
    unfold set_memo. constructor; cbn [g_tr g_memo g_next].
    - unfold WInv. cbn [g_tr g_memo g_next]. split; [exact I1|]. split.
      + intros k0 n0 [E | Hk]; [|apply (I2 k0 n0 Hk)]. injection E as <- <-. apply (I2 k n Hin).
      + apply minj_set; [exact I3 | left; exact Hm].
    - intros r L HT. destruct (s2_memo _ _ _ W r L HT) as [e [He Hme]]. exists e. split; [exact He|].
      apply Hp, Hme.
    - apply (s2_veq _ _ _ W).
    - apply (s2_nd _ _ _ W).
    - apply (s2_lt _ _ _ W).
    - intros i n0 [E | Hk]; [|apply (s2_src _ _ _ W i n0 Hk)].
      injection E as E1 E2. subst k n0. apply (s2_src _ _ _ W i n Hin).
    - intros r L HT Hr. destruct (s2_shape _ _ _ W r L HT Hr) as [a' [es [Hf [Hfe Hts]]]].
      exists a', es. split; [exact Hf|]. split; [exact Hfe|].
      eapply tshape_mono; [| |exact Hts].
      + intros k0 n0 Hl. eapply lfm_mono; eauto.
      + intros i n0 Hl. unfold anm in *. apply Hp, Hl.
    - apply (s2_leaf _ _ _ W).
    - apply (s2_closed _ _ _ W).
    - apply (s2_ndT _ _ _ W).
    - intros k0 n0 [E | Hk] Htag; [|apply (s2_keys _ _ _ W k0 n0 Hk Htag)].
      injection E as <- <-. apply (s2_keys _ _ _ W k n Hin Htag).
    - intros i n0 [E | Hk]; [|apply (s2_own _ _ _ W i n0 Hk)].
      injection E as E1 E2. subst k n0. apply (s2_own _ _ _ W i n Hin).
    - apply (s2_root _ _ _ W).
  Qed.

  Lemma tool_inputs2 r e a : elookup r ex = Some e -> ~ In r srcs -> find_app wf r = Some a ->
    forall q, In q (a_ins a) -> In q (map fst ex) /\ rank wf q < rank wf r.
  Proof.
    intros He Hr Hf q Hq.
    destruct (tool_expr2 r e He Hr) as [a' [es [Ha [Eo [Hf' [Hfe _]]]]]].
    rewrite Hf in Hf'. injection Hf' as <-.
    destruct (In_nth_error _ _ Hq) as [k Hk].
    destruct (feeds_nth wf pt ex _ _ _ k q Hfe Hk) as [e0 [He0 _]]. split.
    - eapply elookup_dom; eauto.
    - destruct (app_parts2 wf Hwf a Ha) as [Hins _]. rewrite <- Eo. apply Hins, Hq.
  Qed.

  Definition W2T2 (fuel : nat) : Prop := forall X r st T,
    WS2 X st T -> In r (map fst ex) -> rank wf r < fuel ->
    exists n st' T', w2t add_from false wf ex fuel r st = Some (n, st') /\
      WS2 X st' T' /\ (exists r0 L, hroot wf pt r r0 /\ In (r0, L) T' /\ lnode L = n) /\
      incl T T' /\ g_next st <= g_next st' /\ mpres (g_memo st) (g_memo st') /\
      (forall x, In x (map fst T') -> In x (map fst T) \/ rank wf x <= rank wf r).

  Lemma foldM_ok2 fuel (IH : W2T2 fuel) : forall rs X st T,
    WS2 X st T -> (forall q, In q rs -> In q (map fst ex) /\ rank wf q < fuel) ->
    exists st' T', foldM_t (w2t add_from false wf ex fuel) rs st = Some st' /\
      WS2 X st' T' /\ incl T T' /\ (forall q, In q rs -> rooted T' q) /\
      g_next st <= g_next st' /\ mpres (g_memo st) (g_memo st') /\
      (forall x, In x (map fst T') -> In x (map fst T) \/ exists q, In q rs /\ rank wf x <= rank wf q).
  Proof.
    induction rs as [|q rs IHrs]; intros X st T W Hrs; cbn [foldM_t].
    - exists st, T. split; [reflexivity|]. split; [exact W|]. split; [apply incl_refl|].
      split; [intros q []|]. split; [lia|]. split; [apply mpres_refl | auto].
    - destruct (Hrs q (or_introl eq_refl)) as [Hq1 Hq2].
      destruct (IH X q st T W Hq1 Hq2)
        as [n [st1 [T1 [Ew [W1 [[q0 [L [Hq0 [HL _]]]] [Hi1 [Hn1 [Hp1 Hr1]]]]]]]]].
      rewrite Ew.
      destruct (IHrs X st1 T1 W1) as [st2 [T2 [Ef [W2 [Hi2 [Hq2' [Hn2 [Hp2 Hr2]]]]]]]].
      { intros q' Hq'. apply Hrs. cbn. auto. }
      exists st2, T2. split; [exact Ef|]. split; [exact W2|].
      split; [eapply incl_tran; eauto|]. split; [|split; [lia|split; [eapply mpres_trans; eauto|]]].
      + intros q' [<- | Hq']; [|now apply Hq2'].
        exists q0. split; [exact Hq0|]. apply in_map_iff. exists (q0, L). split; [reflexivity | apply Hi2, HL].
      + intros x Hx. destruct (Hr2 x Hx) as [H | [q' [Hq' Hle]]].
        * destruct (Hr1 x H) as [H' | H']; [auto|]. right. exists q. cbn. auto.
        * right. exists q'. cbn. auto.
  Qed.

  Lemma w2t_ok2 : forall fuel, W2T2 fuel.
  Proof.
    induction fuel as [|fuel IH]; intros X r st T W Hr Hrk; [lia|].
    destruct (in_dom_lookup ex r Hr) as [e He].
    destruct (hroot_total r) as [r0 Hr0].
    pose proof (hroot_expr r r0 Hr0 e He) as He0.
    pose proof (hroot_root r r0 Hr0) as Hroot0.
    cbn [w2t]. rewrite He.
    destruct (memo_find (key_of e) (g_memo st)) as [n|] eqn:Em.
    { destruct (hit_in_T2 X st T r0 e n W Hroot0 He0 Em) as [L [HT HL]].
      exists n, st, T. split; [reflexivity|]. split; [exact W|]. split; [eauto|].
      split; [apply incl_refl|]. split; [lia|]. split; [apply mpres_refl | auto]. }
    destruct (memb r (w_srcs wf)) eqn:Es.
    - (* a workflow source *)
      apply memb_In in Es. pose proof (src_root r Es) as Hroot.
      assert (HnT : ~ In r (map fst T)).
      { intros H. apply in_map_iff in H. destruct H as [[r1 L] [E HT]]. cbn in E. subst r1.
        destruct (s2_memo _ _ _ W r L HT) as [e' [He' Hm']]. rewrite He in He'. injection He' as <-.
        rewrite Em in Hm'. discriminate. }
      destruct (add_step2 X st T r e W He Hroot HnT (or_introl Es)) as [L [st2 [Ea [W2 [Hn2 Hp2]]]]].
      rewrite Ea. exists (lnode L), (set_memo (key_of e) (lnode L) st2), (T ++ [(r, L)]).
      split; [reflexivity|]. split; [exact W2|]. split.
      { exists r, L. split; [now apply hr_self|]. split; [apply in_app_iff; cbn; auto | reflexivity]. }
      split; [apply incl_appl, incl_refl|]. split; [cbn [set_memo g_next]; exact Hn2|]. split; [exact Hp2|].
      intros x Hx. rewrite map_app in Hx. apply in_app_iff in Hx. destruct Hx as [Hx | [<- | []]]; auto.
    - (* the output of a tool application *)
      apply memb_false in Es.
      destruct (tool_expr2 r e He Es) as [a [es [Ha [Eo [Hf _]]]]].
      rewrite Hf.
      destruct (foldM_ok2 fuel IH (a_ins a) X st T W) as [st1 [T1 [Ef [W1 [Hi1 [Hq1 [Hn1 [Hp1 Hr1]]]]]]]].
      { intros q Hq. destruct (tool_inputs2 r e a He Es Hf q Hq) as [A B]. split; [exact A|]. lia. }
      rewrite Ef.
      destruct (hand_on wf pt r) as [q|] eqn:Eh.
      + (* r's expression object is that of its input q, which has a node by now *)
        destruct (hand_on_some r q Eh) as [a' [k [Hf' [_ [_ [_ [Hk _]]]]]]].
        rewrite Hf in Hf'. injection Hf' as <-.
        destruct (Hq1 q (nth_error_In _ _ Hk)) as [q0 [Hq0 HqT]].
        assert (q0 = r0).
        { eapply hroot_fun; [exact Hq0|]. inversion Hr0; subst; congruence. }
        subst q0. apply in_map_iff in HqT. destruct HqT as [[r1 L] [E HT]]. cbn in E. subst r1.
        destruct (s2_memo _ _ _ W1 r0 L HT) as [e' [He' Hm']]. rewrite He0 in He'. injection He' as <-.
        rewrite (add_expr_hit add_from false e st1 (lnode L) Hm').
        exists (lnode L), (set_memo (key_of e) (lnode L) st1), T1.
        split; [reflexivity|]. split; [now apply WS2_dup|]. split; [eauto|].
        split; [exact Hi1|]. split; [cbn [set_memo g_next]; exact Hn1|]. split.
        * eapply mpres_trans; [exact Hp1|]. unfold set_memo. cbn [g_memo]. apply mpres_set. auto.
        * intros x Hx. destruct (Hr1 x Hx) as [H | [q' [Hq' Hle]]]; [auto|]. right.
          destruct (tool_inputs2 r e a He Es Hf q' Hq') as [_ B]. lia.
      + (* r owns its expression *)
        assert (HnT1 : ~ In r (map fst T1)).
        { intros H. destruct (Hr1 r H) as [H' | [q [Hq Hle]]].
          - apply in_map_iff in H'. destruct H' as [[r1 L] [E HT]]. cbn in E. subst r1.
            destruct (s2_memo _ _ _ W r L HT) as [e' [He' Hm']]. rewrite He in He'. injection He' as <-.
            rewrite Em in Hm'. discriminate.
          - destruct (tool_inputs2 r e a He Es Hf q Hq) as [_ B]. lia. }
        destruct (add_step2 X st1 T1 r e W1 He Eh HnT1) as [L [st2 [Ea [W2 [Hn2 Hp2]]]]].
        { right. exists a. split; [exact Hf|]. exact Hq1. }
        rewrite Ea. exists (lnode L), (set_memo (key_of e) (lnode L) st2), (T1 ++ [(r, L)]).
        split; [reflexivity|]. split; [exact W2|]. split.
        { exists r, L. split; [now apply hr_self|]. split; [apply in_app_iff; cbn; auto | reflexivity]. }
        split; [apply incl_appl; exact Hi1|]. split; [cbn [set_memo g_next]; lia|]. split.
        * eapply mpres_trans; eauto.
        * intros x Hx. rewrite map_app in Hx. apply in_app_iff in Hx. destruct Hx as [Hx | [<- | []]]; auto.
          destruct (Hr1 x Hx) as [H | [q [Hq Hle]]]; [auto|]. right.
          destruct (tool_inputs2 r e a He Es Hf q Hq) as [_ B]. lia.
  Qed.

  (* a new source node (graph.py:488 when the input is not used by the tool's expression) *)
  Lemma WS2_add_src X st T id a :
    WS2 X st T -> memo_find (0, id) (g_memo st) = None ->
    In a apps -> rooted T (a_out a) -> In id (own_ids a) ->
    WS2 X (set_memo (0, id) (g_next st) (snd (fresh st))) T.
  Proof.
    intros W Hmiss Ha HaT Hid.
    assert (Hinv := s2_inv _ _ _ W). destruct Hinv as [I1 [I2 I3]].
    assert (Hp : mpres (g_memo st) (((0, id), g_next st) :: g_memo st)) by (apply mpres_set; auto).
    unfold set_memo, fresh. cbn [snd g_tr g_memo g_next].
    constructor; cbn [g_tr g_memo g_next].
    - unfold WInv. cbn [g_tr g_memo g_next]. split; [|split].
      + intros t Ht Hv. specialize (I1 t Ht Hv). lia.
      + intros k n [[= <- <-] | Hk]; [lia | specialize (I2 k n Hk); lia].
      + apply minj_set; [exact I3|]. right. intros k' Hk'. apply memo_find_In in Hk'.
        specialize (I2 _ _ Hk'). lia.
    - intros r L HT. destruct (s2_memo _ _ _ W r L HT) as [e [He Hm]]. exists e. split; [exact He|].
      apply Hp, Hm.
    - apply (s2_veq _ _ _ W).
    - apply (s2_nd _ _ _ W).
    - intros x Hx. apply (s2_lt _ _ _ W) in Hx. lia.
    - intros i n [[= <- <-] | Hk].
      + intros Hx. apply (s2_lt _ _ _ W) in Hx. lia.
      + apply (s2_src _ _ _ W i n Hk).
    - intros r L HT Hr. destruct (s2_shape _ _ _ W r L HT Hr) as [a' [es [Hf [Hfe Hts]]]].
      exists a', es. split; [exact Hf|]. split; [exact Hfe|].
      eapply tshape_mono; [| |exact Hts].
      + intros k n Hl. eapply lfm_mono; eauto.
      + intros i n Hl. unfold anm in *. apply Hp, Hl.
    - apply (s2_leaf _ _ _ W).
    - apply (s2_closed _ _ _ W).
    - apply (s2_ndT _ _ _ W).
    - intros k n [[= <- <-] | Hk] Htag; [cbn in Htag; lia|]. apply (s2_keys _ _ _ W k n Hk Htag).
    - intros i n [[= <- <-] | Hk]; [|apply (s2_own _ _ _ W i n Hk)].
      right. exists a. auto.
    - apply (s2_root _ _ _ W).
  Qed.

  Lemma WS2_add_edge X st T sn rn :
    WS2 X st T -> sn < g_next st ->
    WS2 ((sn, p_from, rn) :: X) (upd_tr (add_from_r sn rn) st) T.
  Proof.
    intros W Hsn. unfold upd_tr.
    assert (Hin : forall t, vis t -> (In t (add_from_r sn rn (g_tr st)) <-> t = (sn, p_from, rn) \/ In t (g_tr st))).
    { intros t Hv. apply Hokr. exact Hv. }
    constructor; cbn [g_tr g_memo g_next]; try apply W.
    - destruct (s2_inv _ _ _ W) as [I1 [I2 I3]]. unfold WInv. cbn [g_tr g_memo g_next].
      split; [|split; [exact I2 | exact I3]].
      intros t Ht Hv. apply (Hin t Hv) in Ht. destruct Ht as [-> | Ht].
      + exact Hsn.
      + apply (I1 t Ht Hv).
    - intros t Hv. rewrite (Hin t Hv), in_app_iff. cbn [In]. rewrite (s2_veq _ _ _ W t Hv), in_app_iff.
      split; [intros [E | [H | H]] | intros [H | [E | H]]]; auto.
  Qed.

  Lemma indir_ok2 : forall ind X st T,
    WS2 X st T ->
    (forall id e, In (id, e) ind -> exists a q, In a apps /\ rooted T (a_out a) /\
       In id (own_ids a) /\ elookup q ex = Some e /\ In q (map fst T)) ->
    exists st' X', indir_loop add_from add_from_r false ind st = Some st' /\ WS2 X' st' T /\
      mpres (g_memo st) (g_memo st') /\
      (forall t, In t X' <-> In t X \/ exists id e, In (id, e) ind /\ ind_edge (g_memo st') id e t) /\
      (forall id e, In (id, e) ind -> exists sn rn, memo_find (0, id) (g_memo st') = Some sn /\
                                                 memo_find (key_of e) (g_memo st') = Some rn).
  Proof.
    induction ind as [|[id ref] ind IH]; intros X st T W Hind; cbn [indir_loop].
    - exists st, X. split; [reflexivity|]. split; [exact W|]. split; [apply mpres_refl|].
      split; [|intros id e []].
      intros t. split; [auto|]. intros [H | [id [e [[] _]]]]. exact H.
    - destruct (Hind id ref (or_introl eq_refl)) as [a [q [Ha [HaT [Hid [Hq HqT]]]]]].
      (* 488 *)
      assert (Hsrc : exists sn st1, add_expr add_from false (ESrc id) None st = Some (sn, st1) /\
                WS2 X st1 T /\ mpres (g_memo st) (g_memo st1) /\
                memo_find (0, id) (g_memo st1) = Some sn /\ sn < g_next st1 /\ g_tr st1 = g_tr st).
      { cbn [add_expr key_of]. destruct (memo_find (0, id) (g_memo st)) as [sn|] eqn:Em.
        - exists sn, st. split; [reflexivity|]. split; [exact W|]. split; [apply mpres_refl|].
          split; [exact Em|]. split; [|reflexivity].
          destruct (s2_inv _ _ _ W) as [_ [I2 _]]. apply (I2 _ _ (memo_find_In _ _ _ Em)).
        - cbn [fresh fst snd].
          exists (g_next st), (set_memo (0, id) (g_next st) (snd (fresh st))).
          split; [reflexivity|]. split; [eapply WS2_add_src; eauto|].
          split; [unfold set_memo; cbn [g_memo snd fresh]; apply mpres_set; auto|].
          split; [unfold set_memo; cbn [g_memo memo_find]; now rewrite key_eqb_refl|].
          split; [cbn; lia | reflexivity]. }
      destruct Hsrc as [sn [st1 [Ea [W1 [Hp1 [Hsn [Hlt Htr]]]]]]].
      rewrite Ea.
      (* 489 *)
      apply in_map_iff in HqT. destruct HqT as [[q0 Lq] [E HT]]. cbn in E. subst q0.
      destruct (s2_memo _ _ _ W1 q Lq HT) as [e' [He' Hrn]]. rewrite Hq in He'. injection He' as <-.
      rewrite Hrn.
      (* 490 *)
      destruct (IH ((sn, p_from, lnode Lq) :: X) (upd_tr (add_from_r sn (lnode Lq)) st1) T)
        as [st' [X' [El [W' [Hp' [HX' Hall']]]]]].
      { now apply WS2_add_edge. }
      { intros id' e' Hin. apply Hind. cbn. auto. }
      exists st', X'. split; [exact El|]. split; [exact W'|].
      split; [eapply mpres_trans; [exact Hp1 | exact Hp']|].
      split; [|intros id' e' [[= <- <-] | Hin];
               [exists sn, (lnode Lq); split; [apply Hp', Hsn | apply Hp', Hrn] | now apply Hall']].
      intros t. rewrite HX'. cbn [In]. split.
      + intros [[<- | H] | [id' [e' [Hin He']]]].
        * right. exists id, ref. split; [auto|]. exists sn, (lnode Lq).
          split; [apply Hp', Hsn|]. split; [apply Hp', Hrn | reflexivity].
        * auto.
        * right. exists id', e'. auto.
      + intros [H | [id' [e' [[[= <- <-] | Hin] He']]]].
        * auto.
        * left. left. destruct He' as [sn' [rn' [A [B ->]]]].
          rewrite (Hp' _ _ Hsn) in A. rewrite (Hp' _ _ Hrn) in B. congruence.
        * right. exists id', e'. auto.
  Qed.

  Lemma rank_src2 s : In s srcs -> rank wf s = 0.
  Proof.
    intros Hs. unfold rank, wf_fuel. cbn [rk].
    destruct (find_app wf s) as [a|] eqn:Ef; [|reflexivity]. exfalso.
    destruct (find_app_some wf s a Ef) as [Ha Eo]. apply (src_not_out2 wf Hwf s Hs).
    rewrite <- Eo. unfold outs. now apply in_map.
  Qed.

  Lemma inputs_ok2 : forall ss X st T,
    WS2 X st T -> (forall s, In s ss -> In s srcs) ->
    exists ns st' T', inputs_loop add_from false wf ex (wf_fuel wf) ss st = Some (ns, st') /\
      WS2 X st' T' /\ incl T T' /\ mpres (g_memo st) (g_memo st') /\
      (forall s, In s ss -> In s (map fst T')) /\
      Forall2 (fun s n => memo_find (0, s) (g_memo st') = Some n) ss ns.
  Proof.
    induction ss as [|s ss IH]; intros X st T W Hss; cbn [inputs_loop].
    - exists [], st, T. split; [reflexivity|]. split; [exact W|]. split; [apply incl_refl|].
      split; [apply mpres_refl|]. split; [intros s []|constructor].
    - assert (Hs : In s srcs) by (apply Hss; cbn; auto).
      assert (Hdom : In s (map fst ex)).
      { eapply elookup_dom. apply (src_expr2 s Hs). }
      destruct (w2t_ok2 (wf_fuel wf) X s st T W Hdom)
        as [n [st1 [T1 [Ew [W1 [[s0 [L [Hs0 [HL Hn]]]] [Hi1 [_ [Hp1 _]]]]]]]]].
      { rewrite (rank_src2 s Hs). unfold wf_fuel. lia. }
      pose proof (hroot_self _ _ (src_root s Hs) Hs0) as ->.
      rewrite Ew.
      destruct (IH X st1 T1 W1) as [ns [st2 [T2 [El [W2 [Hi2 [Hp2 [Hin2 Hf2]]]]]]]].
      { intros s' Hs'. apply Hss. cbn. auto. }
      rewrite El. exists (n :: ns), st2, T2. split; [reflexivity|]. split; [exact W2|].
      split; [eapply incl_tran; eauto|]. split; [eapply mpres_trans; eauto|]. split.
      + intros s' [<- | Hs']; [|now apply Hin2]. apply in_map_iff. exists (s, L). split; [reflexivity|].
        apply Hi2, HL.
      + constructor; [|exact Hf2]. apply Hp2.
        destruct (s2_memo _ _ _ W1 s L HL) as [e [He Hm]]. rewrite (src_expr2 s Hs) in He.
        injection He as <-. cbn [key_of] in Hm. now rewrite Hn in Hm.
  Qed.

  Lemma hroot_dom r r0 : hroot wf pt r r0 ->
    In r srcs \/ In r (outs wf) -> In r0 srcs \/ In r0 (outs wf).
  Proof.
    induction 1 as [r Hr | r q r0 Hs _ IH]; intros Hd; [exact Hd|]. apply IH.
    destruct (hand_on_some r q Hs) as [a [k [_ [Ha [_ [_ [Hk _]]]]]]].
    destruct (app_parts2 wf Hwf a Ha) as [Hins _]. apply (Hins q). eapply nth_error_In; eauto.
  Qed.

  (* step 1 has built an expression for every tool output *)
  Lemma all_outs_in_ex tg :
    target wf = Some tg -> In tg (map fst ex) -> forall a, In a apps -> In (a_out a) (map fst ex).
  Proof.
    intros Htg HtT.
    destruct (target_spec wf tg Htg) as [_ Hcons].
    assert (H : forall d a, In a apps -> length apps - rank wf (a_out a) <= d -> In (a_out a) (map fst ex)).
    { induction d as [|d IHd]; intros a Ha Hd;
        (destruct (Nat.eq_dec (a_out a) tg) as [-> | Hne]; [exact HtT|]);
        assert (Ho : In (a_out a) (outs wf)) by (unfold outs; now apply in_map);
        specialize (Hcons _ Ho Hne); unfold consumed in Hcons; apply existsb_exists in Hcons;
        destruct Hcons as [b [Hb Hm]]; apply memb_In in Hm;
        destruct (app_parts2 wf Hwf b Hb) as [Hins [Hle _]]; destruct (Hins _ Hm) as [_ Hlt].
      - exfalso. unfold apps in *. lia.
      - assert (HbT : In (a_out b) (map fst ex)).
        { apply IHd; [exact Hb|]. unfold apps in *. lia. }
        destruct (in_dom_lookup ex _ HbT) as [eb Heb].
        assert (Hfb : find_app wf (a_out b) = Some b).
        { apply find_app_unique; [apply (nd_outs2 wf Hwf) | exact Hb]. }
        assert (Hns : ~ In (a_out b) srcs).
        { intros F. apply (src_not_out2 wf Hwf _ F). unfold outs. now apply in_map. }
        apply (tool_inputs2 (a_out b) eb b Heb Hns Hfb _ Hm). }
    intros a Ha. apply (H (length apps) a Ha). lia.
  Qed.

  Lemma rank_bound r : In r srcs \/ In r (outs wf) -> rank wf r < wf_fuel wf.
  Proof.
    intros [Hs | Ho]; [rewrite (rank_src2 r Hs); unfold wf_fuel; lia|].
    destruct (out_app2 wf Hwf r Ho) as [a [Ha [Eo _]]].
    destruct (app_parts2 wf Hwf a Ha) as [_ [Hle _]]. rewrite Eo in Hle. unfold wf_fuel. lia.
  Qed.

  (* graph.py:512-514 as repaired: every resource of the table goes through
     wfnode2tfmnode; the ones not visited so far get their nodes and trees now *)
  Lemma result_map_t_ok : forall tab X st T,
    WS2 X st T -> (forall r, In r (map fst tab) -> In r (map fst ex)) ->
    exists l st' T', result_map_t add_from false wf ex (wf_fuel wf) tab st = Some (l, st') /\
      WS2 X st' T' /\ incl T T' /\ mpres (g_memo st) (g_memo st') /\ map fst l = map fst tab /\
      (forall r n, In (r, n) l -> exists r0 L, hroot wf pt r r0 /\ In (r0, L) T' /\ lnode L = n).
  Proof.
    induction tab as [|[r e] tab IH]; intros X st T W Hd; cbn [result_map_t].
    - exists [], st, T. split; [reflexivity|]. split; [exact W|]. split; [apply incl_refl|].
      split; [apply mpres_refl|]. split; [reflexivity | intros r n []].
    - assert (Hr : In r (map fst ex)) by (apply Hd; cbn; auto).
      destruct (w2t_ok2 (wf_fuel wf) X r st T W Hr)
        as [n [st1 [T1 [Ew [W1 [[r0 [L [Hr0 [HL Hn]]]] [Hi1 [_ [Hp1 _]]]]]]]]].
      { apply rank_bound. destruct Hex as [_ [_ [X2 _]]]. now apply X2. }
      rewrite Ew.
      destruct (IH X st1 T1 W1) as [l [st2 [T2 [El [W2 [Hi2 [Hp2 [Hf2 Hl2]]]]]]]].
      { intros r' Hr'. apply Hd. cbn. auto. }
      rewrite El. exists ((r, n) :: l), st2, T2. split; [reflexivity|]. split; [exact W2|].
      split; [eapply incl_tran; eauto|]. split; [eapply mpres_trans; eauto|].
      split; [cbn; now rewrite Hf2|].
      intros r' n' [[= <- <-] | Hin]; [|now apply Hl2].
      exists r0, L. split; [exact Hr0|]. split; [apply Hi2, HL | exact Hn].
  Qed.
End S3.

(* ======================================================================== *)
(* The theorem *)

Lemma NoDup_map_filter {A B} (g : A -> B) (f : A -> bool) (l : list A) :
  NoDup (map g l) -> NoDup (map g (filter f l)).
Proof.
  induction l as [|x l IH]; cbn [map filter]; [auto|].
  intros H. apply NoDup_cons_iff in H. destruct H as [Hx H].
  destruct (f x); cbn [map]; [|auto]. constructor; [|auto].
  intros F. apply Hx. apply in_map_iff in F. destruct F as [y [E Hy]].
  apply filter_In in Hy. apply in_map_iff. exists y. tauto.
Qed.

Lemma leaves_flowT T : (forall p, In p T -> exists n, snd p = LLeaf n) -> flowT T = [] /\ namesT T = [].
Proof.
  induction T as [|p T IH]; intros H; [split; reflexivity|].
  destruct IH as [A B]; [intros q Hq; apply H; cbn; auto|].
  destruct (H p (or_introl eq_refl)) as [n E].
  unfold flowT, namesT in *. cbn [flat_map]. rewrite A, B, E. split; reflexivity.
Qed.

Definition is_some {A} (o : option A) : bool := match o with Some _ => true | None => false end.

Theorem add_workflow_handon add_from add_from_r :
  add_from_ok add_from -> add_from_ok add_from_r ->
  forall pt wf, wf_okb2 wf = true ->
  exists res T sg tg,
    add_workflow add_from add_from_r false pt wf = Some res /\
    target wf = Some tg /\
    (forall r, In r (map fst (r_map res)) <-> In r (w_srcs wf) \/ In r (outs wf)) /\
    NoDup (map fst (r_map res)) /\
    (* which resources share a node *)
    (forall r r', In r (w_srcs wf) \/ In r (outs wf) -> In r' (w_srcs wf) \/ In r' (outs wf) ->
       (rho res r = rho res r' <-> exists r0, hroot wf pt r r0 /\ hroot wf pt r' r0)) /\
    (forall a k q, In a (w_apps wf) -> a_tx a = TIn k -> nth_error (a_ins a) k = Some q ->
       if pt || memb q (w_srcs wf)
       then rho res (a_out a) = rho res q /\ (exists n, rho res q = Some n)
       else exists sn rn, rho res (a_out a) = Some sn /\ sg (nth k (a_ind a) 0) = Some sn /\
                          rho res q = Some rn /\ In (sn, p_from, rn) (r_tr res)) /\
    (forall r, In r (map fst T) <-> In r (w_srcs wf) \/ In r (outs wf)) /\
    NoDup (map fst T) /\
    (forall r L, In (r, L) T -> rho res r = Some (lnode L)) /\
    (forall s L, In (s, L) T -> In s (w_srcs wf) -> exists n, L = LLeaf n) /\
    (forall a L, In a (w_apps wf) -> In (a_out a, L) T ->
       tshape (feed wf pt res sg a) sg (a_tx a) L) /\
    NoDup (namesT T) /\
    (forall i n, sg i = Some n -> ~ In n (namesT T)) /\
    (forall s, In s (w_srcs wf) -> sg s = rho res s) /\
    (forall t, vis t ->
       (In t (r_tr res) <-> In t (flowT T) \/
          (pt = false /\ exists a k q sn rn, In a (w_apps wf) /\ nth_error (a_ins a) k = Some q /\
             ~ In q (w_srcs wf) /\ sg (nth k (a_ind a) 0) = Some sn /\ rho res q = Some rn /\
             t = (sn, p_from, rn)))) /\
    Forall2 (fun s n => rho res s = Some n) (w_srcs wf) (r_inputs res) /\
    rho res tg = Some (r_output res).
Proof.
  intros Hok Hokr pt wf Hwf.
  destruct (wf_parts2 wf Hwf) as [_ [_ [_ [tg Htg]]]].
  destruct (target_spec wf tg Htg) as [Htgo _].
  set (srcs := w_srcs wf). set (apps := w_apps wf).
  set (E0 := mkE (map (fun s => (s, ESrc s)) srcs) []).
  assert (Hdom0 : map fst (e_tab E0) = srcs).
  { cbn. rewrite map_map. cbn. apply map_id. }
  assert (Hex0 : ExOK wf pt (e_tab E0)).
  { split; [rewrite Hdom0; apply (nd_srcs2 wf Hwf)|]. split; [|split].
    - intros s Hs. apply In_elookup; [rewrite Hdom0; apply (nd_srcs2 wf Hwf)|].
      cbn. apply in_map_iff. exists s. auto.
    - intros r Hr. rewrite Hdom0 in Hr. auto.
    - intros r e He Hns. exfalso. apply Hns. apply elookup_dom in He. now rewrite Hdom0 in He. }
  assert (Hind0 : IndOK wf pt E0).
  { intros id e. cbn [e_ind E0]. split; [intros []|].
    intros [_ [a [k [q [Hd [Ha _]]]]]]. rewrite Hdom0 in Hd. exfalso.
    apply (src_not_out2 wf Hwf _ Hd). unfold outs. now apply in_map. }
  assert (Hrk : rank wf tg < wf_fuel wf).
  { destruct (out_app2 wf Hwf tg Htgo) as [a [Ha [Eo _]]].
    destruct (app_parts2 wf Hwf a Ha) as [_ [Hle _]]. rewrite Eo in Hle. unfold wf_fuel. lia. }
  destruct (w2e_ok2 wf pt Hwf (wf_fuel wf) tg E0 Hex0 Hind0 (or_intror Htgo) Hrk)
    as [e1 [E1 [Ew [Hex [Hind [_ [Hltg _]]]]]]].
  set (ex := e_tab E1) in *.
  assert (W0 : WS2 wf pt ex [] g_empty []).
  { constructor; cbn.
    - split; [intros t0 []|]. split; [intros k n []|]. intros k k' n H. discriminate H.
    - intros r L [].
    - intros t0 _. tauto.
    - constructor.
    - intros x [].
    - intros i n [].
    - intros r L [].
    - intros r L [].
    - intros r L a [].
    - constructor.
    - intros k n [].
    - intros i n [].
    - intros r L []. }
  destruct (w2t_ok2 add_from Hok wf pt Hwf ex Hex (wf_fuel wf) [] tg g_empty [] W0
              (elookup_dom _ _ _ Hltg) Hrk)
    as [res0 [st1 [T1 [Et [W1 [[tg0 [Ltg [Htg0 [HLtg Hres0]]]] _]]]]]].
  assert (Hlook : forall X st T r, WS2 wf pt ex X st T -> In r (map fst T) ->
            exists e n, elookup r ex = Some e /\ memo_find (key_of e) (g_memo st) = Some n).
  { intros X st T r W HT. apply in_map_iff in HT. destruct HT as [[r0 L] [E HT]]. cbn in E. subst r0.
    destruct (s2_memo _ _ _ _ _ _ W r L HT) as [e [He Hm]]. eauto. }
  (* the all-resources pass: every resource is visited *)
  destruct (result_map_t_ok add_from Hok wf pt Hwf ex Hex ex [] st1 T1 W1 (fun r H => H))
    as [l1 [st1p [T1p [Epass [W1p [Hi1p [_ [Hl1f Hl1]]]]]]]].
  assert (Hroot1 : forall r, In r (map fst ex) -> rooted wf pt T1p r).
  { intros r Hr. rewrite <- Hl1f in Hr. apply in_map_iff in Hr. destruct Hr as [[r1 n] [E Hin]].
    cbn in E. subst r1. destruct (Hl1 r n Hin) as [r0 [L [Hr0 [HT _]]]].
    exists r0. split; [exact Hr0|]. apply in_map_iff. exists (r0, L). auto. }
  pose proof Hex as Hex'. destruct Hex' as [X0 [X1 [X2' X3]]].
  assert (Hdomex : forall r, In r (map fst ex) <-> In r srcs \/ In r (outs wf)).
  { intros r. split; [apply X2'|]. intros [Hs | Ho].
    - eapply elookup_dom. apply X1, Hs.
    - destruct (out_app2 wf Hwf r Ho) as [a [Ha [Eo _]]]. rewrite <- Eo.
      apply (all_outs_in_ex wf pt Hwf ex Hex tg Htg (elookup_dom _ _ _ Hltg) a Ha). }
  destruct (indir_ok2 add_from add_from_r Hokr wf pt ex (e_ind E1) [] st1p T1p W1p)
    as [st2 [X2 [Ei [W2 [Hp2 [HX2 Hall2]]]]]].
  { intros id e Hin. apply Hind in Hin. destruct Hin as [Hp [a [k [q [Hd [Ha [Hk [Hq [Hi He]]]]]]]]].
    assert (Hqd : In q (map fst ex)) by (eapply elookup_dom; eauto).
    destruct (Hroot1 q Hqd) as [q0 [Hq0 Hq0T]].
    exists a, q0. split; [exact Ha|]. split; [apply Hroot1; exact Hd|]. split.
    - unfold own_ids. apply in_app_iff. right. eapply nth_error_In; eauto.
    - split; [|exact Hq0T]. apply (hroot_expr wf pt Hwf ex Hex q q0 Hq0 e He). }
  destruct (inputs_ok2 add_from Hok wf pt Hwf ex Hex srcs X2 st2 T1p W2 (fun s H => H))
    as [ins [st3 [T3 [El [W3 [Hi3 [Hp3 [Hs3 Hf3]]]]]]]].
  assert (HdomT3 : forall r, In r (map fst T3) <->
                     (In r srcs \/ In r (outs wf)) /\ hand_on wf pt r = None).
  { intros r. split.
    - intros HT. split.
      + destruct (Hlook _ _ _ r W3 HT) as [e [n [He _]]]. apply X2'. eapply elookup_dom; eauto.
      + apply in_map_iff in HT. destruct HT as [[r1 L] [E HT]]. cbn in E. subst r1.
        apply (s2_root _ _ _ _ _ _ W3 r L HT).
    - intros [Hd Hroot]. apply Hdomex in Hd. destruct (Hroot1 r Hd) as [r0 [Hr0 Hr0T]].
      rewrite (hroot_self wf pt _ _ Hroot Hr0) in Hr0T.
      apply in_map_iff in Hr0T. destruct Hr0T as [[r1 L] [E HT]].
      apply in_map_iff. exists (r1, L). split; [exact E | apply Hi3, HT]. }
  assert (Hlook2 : forall r, In r (map fst ex) ->
            exists e n, elookup r ex = Some e /\ memo_find (key_of e) (g_memo st3) = Some n).
  { intros r Hr. destruct (in_dom_lookup ex r Hr) as [e He].
    destruct (hroot_total wf pt Hwf r) as [r0 Hr0].
    assert (HT : In r0 (map fst T3)).
    { apply HdomT3. split; [|eapply hroot_root; eauto].
      apply (hroot_dom wf pt Hwf r r0 Hr0). now apply Hdomex. }
    destruct (Hlook _ _ _ r0 W3 HT) as [e0 [n [He0 Hn]]].
    rewrite (hroot_expr wf pt Hwf ex Hex r r0 Hr0 e He) in He0. injection He0 as <-. eauto. }
  destruct (result_map_ok (g_memo st3) ex) as [m [Em [Hmf Hm]]].
  { intros r e Hin. assert (Hr : In r (map fst ex)) by (apply in_map_iff; exists (r, e); auto).
    destruct (Hlook2 r Hr) as [e' [n [He' Hn]]].
    rewrite (In_elookup r e ex X0 Hin) in He'. injection He' as <-. eauto. }
  unfold add_workflow. fold srcs. fold E0. rewrite Htg, Ew. fold ex. rewrite Et, Epass.
  cbn [option_map snd]. rewrite Ei. fold srcs. rewrite El, Em.
  set (res := mkRes (g_tr st3) ins res0 m).
  assert (Hndm : NoDup (map fst m)) by (rewrite Hmf; exact X0).
  assert (Hrho : forall r e n, elookup r ex = Some e -> memo_find (key_of e) (g_memo st3) = Some n ->
            rho res r = Some n).
  { intros r e n He Hn. unfold rho. cbn [r_map res]. apply In_assoc_n; [exact Hndm|].
    assert (Hr : In r (map fst m)) by (rewrite Hmf; eapply elookup_dom; eauto).
    apply in_map_iff in Hr. destruct Hr as [[r0 n0] [E Hin]]. cbn in E. subst r0.
    destruct (Hm r n0 Hin) as [e' [Hin' Hn']].
    rewrite (In_elookup r e' ex X0 Hin') in He. injection He as <-. congruence. }
  assert (HrhoT : forall r L, In (r, L) T3 -> rho res r = Some (lnode L)).
  { intros r L HT. destruct (s2_memo _ _ _ _ _ _ W3 r L HT) as [e [He Hn]]. eapply Hrho; eauto. }
  (* the handed-on resources: leaves *)
  set (nd := fun p : nat * expr =>
               match memo_find (key_of (snd p)) (g_memo st3) with Some n => n | None => 0 end).
  set (Tal := map (fun p => (fst p, LLeaf (nd p)))
                (filter (fun p => is_some (hand_on wf pt (fst p))) ex)).
  assert (HTal : forall r L, In (r, L) Tal <->
            exists e, In (r, e) ex /\ hand_on wf pt r <> None /\ L = LLeaf (nd (r, e))).
  { intros r L. unfold Tal. rewrite in_map_iff. split.
    - intros [[r1 e] [E Hin]]. cbn [fst] in E. injection E as <- <-.
      apply filter_In in Hin. destruct Hin as [Hin Hs]. cbn [fst] in Hs.
      exists e. split; [exact Hin|]. split; [|reflexivity].
      destruct (hand_on wf pt r1); [discriminate | discriminate Hs].
    - intros [e [Hin [Hs ->]]]. exists (r, e). split; [reflexivity|]. apply filter_In.
      split; [exact Hin|]. cbn [fst]. destruct (hand_on wf pt r); [reflexivity | contradiction]. }
  assert (HTalleaf : forall p, In p Tal -> exists n, snd p = LLeaf n).
  { intros [r L] Hin. apply HTal in Hin. destruct Hin as [e [_ [_ ->]]]. cbn. eauto. }
  destruct (leaves_flowT Tal HTalleaf) as [HfT HnT].
  assert (Hnames : namesT (T3 ++ Tal) = namesT T3).
  { rewrite namesT_app, HnT. apply app_nil_r. }
  assert (Hflow : forall t, In t (flowT (T3 ++ Tal)) <-> In t (flowT T3)).
  { intros t. rewrite flowT_app, HfT. cbn. tauto. }
  assert (HrhoTal : forall r L, In (r, L) Tal -> rho res r = Some (lnode L)).
  { intros r L Hin. apply HTal in Hin. destruct Hin as [e [Hin [_ ->]]]. cbn [lnode].
    assert (Hr : In r (map fst ex)) by (apply in_map_iff; exists (r, e); auto).
    destruct (Hlook2 r Hr) as [e' [n [He' Hn]]].
    rewrite (In_elookup r e ex X0 Hin) in He'. injection He' as <-.
    unfold nd. cbn [snd]. rewrite Hn. eapply Hrho; [|exact Hn]. apply In_elookup; auto. }
  (* the graph *)
  assert (Hgraph : forall t, vis t ->
       (In t (r_tr res) <-> In t (flowT T3) \/
          (pt = false /\ exists a k q sn rn, In a (w_apps wf) /\ nth_error (a_ins a) k = Some q /\
             ~ In q (w_srcs wf) /\ anm (g_memo st3) (nth k (a_ind a) 0) = Some sn /\
             rho res q = Some rn /\ t = (sn, p_from, rn)))).
  { intros t Hv. cbn [r_tr res]. rewrite (s2_veq _ _ _ _ _ _ W3 t Hv), in_app_iff, HX2. cbn [In].
    split.
    - intros [H | [[] | [id [e [Hin [sn [rn [Hsn [Hrn ->]]]]]]]]]; [auto|]. right.
      apply Hind in Hin. destruct Hin as [Hp [a [k [q [Hd [Ha [Hk [Hq [Hi He]]]]]]]]].
      split; [exact Hp|]. exists a, k, q, sn, rn. split; [exact Ha|]. split; [exact Hk|].
      split; [exact Hq|]. split.
      + rewrite (nth_error_nth _ _ 0 Hi). unfold anm. apply Hp3, Hsn.
      + split; [|reflexivity]. eapply Hrho; [exact He | apply Hp3, Hrn].
    - intros [H | [Hp [a [k [q [sn [rn [Ha [Hk [Hq [Hsn [Hrn ->]]]]]]]]]]]]; [auto|]. right. right.
      destruct (app_parts2 wf Hwf a Ha) as [Hins [_ [_ [_ Hlen]]]].
      assert (Hqd : In q (map fst ex)) by (apply Hdomex; apply (Hins q (nth_error_In _ _ Hk))).
      destruct (Hlook2 q Hqd) as [e [n [He Hn]]].
      assert (Hkl : k < length (a_ind a)).
      { rewrite Hlen. apply nth_error_Some. congruence. }
      assert (Hin : In (nth k (a_ind a) 0, e) (e_ind E1)).
      { apply Hind. split; [exact Hp|]. exists a, k, q. split.
        - apply Hdomex. right. unfold outs. now apply in_map.
        - split; [exact Ha|]. split; [exact Hk|]. split; [exact Hq|]. split; [|exact He].
          now apply nth_error_nth'. }
      exists (nth k (a_ind a) 0), e. split; [exact Hin|].
      destruct (Hall2 _ _ Hin) as [sn' [rn' [A B]]].
      exists sn', rn'. split; [exact A|]. split; [exact B|].
      unfold anm in Hsn. rewrite (Hp3 _ _ A) in Hsn. injection Hsn as <-.
      rewrite (Hrho q e rn' He (Hp3 _ _ B)) in Hrn. now injection Hrn as <-. }
  (* which resources share a node *)
  assert (Hshare : forall r r', In r (map fst ex) -> In r' (map fst ex) ->
     (rho res r = rho res r' <-> exists r0, hroot wf pt r r0 /\ hroot wf pt r' r0)).
  { intros r r' Hr Hr'.
    destruct (Hlook2 r Hr) as [e [n [He Hn]]]. destruct (Hlook2 r' Hr') as [e' [n' [He' Hn']]].
    rewrite (Hrho r e n He Hn), (Hrho r' e' n' He' Hn').
    destruct (hroot_total wf pt Hwf r) as [r0 Hr0]. destruct (hroot_total wf pt Hwf r') as [r0' Hr0'].
    pose proof (hroot_expr wf pt Hwf ex Hex r r0 Hr0 e He) as He0.
    pose proof (hroot_expr wf pt Hwf ex Hex r' r0' Hr0' e' He') as He0'.
    split.
    - intros [= <-]. exists r0. split; [exact Hr0|].
      destruct (s2_inv _ _ _ _ _ _ W3) as [_ [_ I3]]. pose proof (I3 _ _ n Hn Hn') as Hk.
      rewrite (key_inj2 wf pt Hwf ex Hex r0 r0' e e' (hroot_root _ _ _ _ Hr0)
                 (hroot_root _ _ _ _ Hr0') He0 He0' Hk). exact Hr0'.
    - intros [x [Hx Hx']].
      pose proof (hroot_fun _ _ _ _ Hr0 _ Hx) as ->. pose proof (hroot_fun _ _ _ _ Hr0' _ Hx') as ->.
      rewrite He0 in He0'. injection He0' as <-. congruence. }
  assert (Hhand : forall a k q, In a apps -> a_tx a = TIn k -> nth_error (a_ins a) k = Some q ->
     if pt || memb q (w_srcs wf)
     then rho res (a_out a) = rho res q /\ (exists n, rho res q = Some n)
     else exists sn rn, rho res (a_out a) = Some sn /\
            anm (g_memo st3) (nth k (a_ind a) 0) = Some sn /\
            rho res q = Some rn /\ In (sn, p_from, rn) (r_tr res)).
  { intros a k q Ha Eta Hk.
    assert (Hfa : find_app wf (a_out a) = Some a)
      by (apply find_app_unique; [apply (nd_outs2 wf Hwf) | exact Ha]).
    assert (Hrd : In (a_out a) (map fst ex)) by (apply Hdomex; right; unfold outs; now apply in_map).
    destruct (app_parts2 wf Hwf a Ha) as [Hins _].
    assert (Hqd : In q (map fst ex)) by (apply Hdomex; apply (Hins q (nth_error_In _ _ Hk))).
    destruct (Hlook2 _ Hrd) as [e [n [He Hn]]]. destruct (Hlook2 _ Hqd) as [eq [nq [Heq Hnq]]].
    destruct (pt || memb q (w_srcs wf)) eqn:Ec.
    - assert (Hh : hand_on wf pt (a_out a) = Some q).
      { unfold hand_on. rewrite Hfa, Eta, Hk, Ec. reflexivity. }
      pose proof (hand_on_expr wf pt Hwf ex Hex _ q e Hh He) as He2.
      rewrite Heq in He2. injection He2 as ->.
      rewrite Hn in Hnq. injection Hnq as <-.
      rewrite (Hrho _ _ _ He Hn), (Hrho _ _ _ Heq Hn). split; [reflexivity | eauto].
    - assert (Hh : hand_on wf pt (a_out a) = None).
      { unfold hand_on. rewrite Hfa, Eta, Hk, Ec. reflexivity. }
      apply orb_false_iff in Ec. destruct Ec as [Ep Emq]. apply memb_false in Emq.
      assert (Hns : ~ In (a_out a) srcs).
      { intros F. apply (src_not_out2 wf Hwf _ F). unfold outs. now apply in_map. }
      destruct (root_expr wf pt Hwf ex Hex _ e He Hns Hh) as [a' [es [_ [_ [Hf' [_ [_ [Kk _]]]]]]]].
      rewrite Hfa in Hf'. injection Hf' as <-. unfold rkey in Kk. rewrite Eta in Kk.
      assert (Hsg : anm (g_memo st3) (nth k (a_ind a) 0) = Some n).
      { unfold anm. rewrite <- Kk. exact Hn. }
      exists n, nq. split; [eapply Hrho; eauto|]. split; [exact Hsg|].
      split; [eapply Hrho; eauto|].
      apply (Hgraph (n, p_from, nq)); [unfold vis; cbn; discriminate|]. right. split; [exact Ep|].
      exists a, k, q, n, nq. split; [exact Ha|]. split; [exact Hk|]. split; [exact Emq|].
      split; [exact Hsg|]. split; [eapply Hrho; eauto | reflexivity]. }
  exists res, (T3 ++ Tal), (anm (g_memo st3)), tg.
  split; [reflexivity|]. split; [reflexivity|].
  split; [intros r; cbn [r_map res]; rewrite Hmf; apply Hdomex|].
  split; [exact Hndm|].
  split; [intros r r' Hr Hr'; apply Hshare; now apply Hdomex|].
  split; [exact Hhand|].
  split.
  { (* every resource has a tree *)
    intros r. rewrite map_app, in_app_iff. split.
    - intros [HT | HT]; [apply HdomT3 in HT; tauto|].
      apply in_map_iff in HT. destruct HT as [[r1 L] [E HT]]. cbn in E. subst r1.
      apply HTal in HT. destruct HT as [e [Hin _]]. apply Hdomex. apply in_map_iff. exists (r, e). auto.
    - intros Hr. destruct (hand_on wf pt r) as [q|] eqn:Eh.
      + right. apply Hdomex in Hr. destruct (in_dom_lookup ex r Hr) as [e He].
        apply in_map_iff. exists (r, LLeaf (nd (r, e))). split; [reflexivity|]. apply HTal.
        exists e. split; [now apply elookup_In|]. split; [congruence | reflexivity].
      + left. apply HdomT3. auto. }
  split.
  { rewrite map_app. apply NoDup_app_intro; [apply (s2_ndT _ _ _ _ _ _ W3) | |].
    - unfold Tal. rewrite map_map. cbn [fst]. apply NoDup_map_filter. exact X0.
    - intros x Hx Hx'. apply HdomT3 in Hx. destruct Hx as [_ Hx].
      apply in_map_iff in Hx'. destruct Hx' as [[r1 L] [E HT]]. cbn in E. subst r1.
      apply HTal in HT. destruct HT as [e [_ [Hs _]]]. contradiction. }
  split.
  { intros r L HT. apply in_app_iff in HT. destruct HT as [HT | HT]; [now apply HrhoT | now apply HrhoTal]. }
  split.
  { intros s L HT Hs. apply in_app_iff in HT. destruct HT as [HT | HT].
    - apply (s2_leaf _ _ _ _ _ _ W3 s L HT Hs).
    - apply HTal in HT. destruct HT as [e [_ [_ ->]]]. eauto. }
  split.
  { (* the tree of a tool application *)
    intros a L Ha HT. apply in_app_iff in HT. destruct HT as [HT | HT].
    - assert (Hns : ~ In (a_out a) srcs).
      { intros F. apply (src_not_out2 wf Hwf _ F). unfold outs. now apply in_map. }
      destruct (s2_shape _ _ _ _ _ _ W3 (a_out a) L HT Hns) as [a' [es [Hf [Hfe Hts]]]].
      rewrite (find_app_unique wf a (nd_outs2 wf Hwf) Ha) in Hf. injection Hf as <-.
      eapply tshape_mono; [| |exact Hts]; [|auto].
      intros k n Hl. unfold lfm in Hl. destruct (nth_error es k) as [e0|] eqn:Ek; [|discriminate].
      assert (Hlen : length es = length (a_ins a)) by (eapply feeds_length; eauto).
      destruct (nth_error (a_ins a) k) as [q|] eqn:Eq.
      2:{ apply nth_error_None in Eq. assert (k < length es) by (apply nth_error_Some; congruence). lia. }
      destruct (feeds_nth wf pt ex _ _ _ k q Hfe Eq) as [eq [Heq Hn]].
      rewrite Ek in Hn. injection Hn as ->. unfold feed. rewrite Eq.
      destruct (pt || memb q (w_srcs wf)).
      + eapply Hrho; eauto.
      + exact Hl.
    - (* a hand-on tool: the leaf that feeds it *)
      apply HTal in HT. destruct HT as [e [Hin [Hs ->]]].
      destruct (hand_on wf pt (a_out a)) as [q|] eqn:Eh; [|contradiction].
      destruct (hand_on_some wf pt _ q Eh) as [a' [k [Hf' [_ [_ [Eta [Hk Hc]]]]]]].
      rewrite (find_app_unique wf a (nd_outs2 wf Hwf) Ha) in Hf'. injection Hf' as <-.
      rewrite Eta. apply ts_in. unfold feed. rewrite Hk, Hc.
      pose proof (In_elookup _ _ ex X0 Hin) as He.
      pose proof (hand_on_expr wf pt Hwf ex Hex _ q e Eh He) as Heq.
      assert (Hr : In (a_out a) (map fst ex)) by (eapply elookup_dom; eauto).
      destruct (Hlook2 _ Hr) as [e' [n [He' Hn]]]. rewrite He in He'. injection He' as <-.
      unfold nd. cbn [snd]. rewrite Hn. eapply Hrho; eauto. }
  split; [rewrite Hnames; apply (s2_nd _ _ _ _ _ _ W3)|]. split.
  { intros i n Hi. rewrite Hnames. apply (s2_src _ _ _ _ _ _ W3 i n). now apply memo_find_In. }
  split.
  { intros s Hs. specialize (Hs3 s Hs). apply in_map_iff in Hs3. destruct Hs3 as [[s0 L] [E HT]].
    cbn in E. subst s0. rewrite (HrhoT s L HT).
    destruct (s2_memo _ _ _ _ _ _ W3 s L HT) as [e [He Hn]]. rewrite (X1 s Hs) in He. injection He as <-.
    exact Hn. }
  split.
  { intros t Hv. rewrite Hflow. apply Hgraph, Hv. }
  split.
  { cbn [r_inputs res]. eapply Forall2_mono_in; [|exact Hf3]. intros s n Hs Hn. cbn beta in Hn.
    apply (Hrho s (ESrc s) n (X1 s Hs)). exact Hn. }
  cbn [r_output res]. rewrite <- Hres0.
  destruct (hroot_total wf pt Hwf tg) as [t0 Ht0].
  pose proof (hroot_fun _ _ _ _ Htg0 _ Ht0) as ->.
  destruct (in_dom_lookup ex tg (elookup_dom _ _ _ Hltg)) as [etg Hetg].
  destruct (s2_memo _ _ _ _ _ _ W3 t0 Ltg (Hi3 _ (Hi1p _ HLtg))) as [e [He Hn]].
  rewrite (hroot_expr wf pt Hwf ex Hex tg t0 Ht0 _ Hetg) in He. injection He as <-.
  eapply Hrho; eauto.
Qed.

(* ======================================================================== *)
(* The code as pinned (pinned = true) fails in this class: hand-on tools with a second
   input that is another tool's output.
     sources 0;  1 := f 1 on [0];  2 := g 1 on [0];  3 := `1` on [1; 2];  4 := h 1 2 on [1; 3]
   With passthrough on, resource 3 has the expression object of resource 1, which has a
   node by the time 3 is visited (graph.py:469-470), so the inputs of 3 are not visited
   (473-476) and resource 2 has no node when the dict is built: KeyError in the dict
   comprehension (graph.py:506-507).  As repaired every resource is visited right after
   the target. *)
Definition unused_wf : wflow :=
  mkWf [0] [mkApp 1 (TApp 11 (TOp 10 0) (TIn 0) false) [0] [12];
            mkApp 2 (TApp 21 (TOp 20 1) (TIn 0) false) [0] [22];
            mkApp 3 (TIn 0) [1; 2] [32; 33];
            mkApp 4 (TApp 42 (TApp 41 (TOp 40 2) (TIn 0) false) (TIn 1) false) [1; 3] [43; 44]].

Lemma handon_unused_pinned_fails :
  exists wf, wf_okb2 wf = true /\
    add_workflow add_from_plain add_from_plain true true wf = None /\
    (forall pt, exists res, add_workflow add_from_plain add_from_plain false pt wf = Some res).
Proof.
  exists unused_wf. split; [reflexivity|]. split; [vm_compute; reflexivity|].
  intros []; eexists; vm_compute; reflexivity.
Qed.

(* Passthrough off, the hand-on tool hands a workflow SOURCE on and declares another tool's
   output:
     sources 0;  1 := f 1 on [0];  2 := g 1 on [0];  3 := `1` on [0; 2];  4 := h 1 2 on [1; 3]
   Step 1 records the indirection (stand-in Source for input 2 of tool 3 -> expression of
   resource 2), but resource 3 has the Source object of source 0, which has a node when 3 is
   visited, so resource 2 is not visited before the indirection loop looks its node up:
   KeyError at `self.expr_nodes[ref_expr]` (graph.py:489). *)
Definition src_unused_wf : wflow :=
  mkWf [0] [mkApp 1 (TApp 11 (TOp 10 0) (TIn 0) false) [0] [12];
            mkApp 2 (TApp 21 (TOp 20 1) (TIn 0) false) [0] [22];
            mkApp 3 (TIn 0) [0; 2] [32; 33];
            mkApp 4 (TApp 42 (TApp 41 (TOp 40 2) (TIn 0) false) (TIn 1) false) [1; 3] [43; 44]].

Lemma handon_src_unused_pinned_fails :
  exists wf, wf_okb2 wf = true /\
    add_workflow add_from_plain add_from_plain true false wf = None /\
    (forall pt, exists res, add_workflow add_from_plain add_from_plain false pt wf = Some res).
Proof.
  exists src_unused_wf. split; [reflexivity|]. split; [vm_compute; reflexivity|].
  intros []; eexists; vm_compute; reflexivity.
Qed.

(* ======================================================================== *)
(* Corollaries that relate the sharing clause to C12_plugged's injectivity clause *)

Lemma hroot_roots_eq wf pt r r' :
  hand_on wf pt r = None -> hand_on wf pt r' = None ->
  (exists r0, hroot wf pt r r0 /\ hroot wf pt r' r0) -> r = r'.
Proof.
  intros Hr Hr' [r0 [H H']].
  rewrite (hroot_self wf pt r r0 Hr H) in H'. apply (hroot_self wf pt r' r Hr' H').
Qed.

(* in the class of C12_plugged nothing is handed on: every resource is its own root *)
Lemma wf_okb_no_hand_on wf pt : wf_okb wf = true -> forall r, hand_on wf pt r = None.
Proof.
  intros Hwf r. unfold hand_on. destruct (find_app wf r) as [a|] eqn:Ef; [|reflexivity].
  destruct (find_app_some wf r a Ef) as [Ha _].
  destruct (app_parts wf Hwf a Ha) as [_ [_ [_ [Htop _]]]].
  apply ttop_not_tin in Htop. destruct (a_tx a); try reflexivity. discriminate Htop.
Qed.
