(* Graph/WorkflowInline.v -- the tool trees plugged together ARE the tree of
   the inlined expression: [flow] of the tree [utree] obtained by plugging the
   producers' trees into the input leaves is the union of the flows of the tool
   trees, and [utree] is an application tree (C08's [shape]) of the expression
   [inline] in which every tool input is replaced by its producer's expression.
   Pure facts about trees plus the conclusions of add_workflow_plugged. *)
From Coq Require Import List Arith Bool Lia.
Import ListNotations.
From TF Require Import Graph.AddExpr Graph.AddExprSpec Graph.AddExprProofs
  Graph.Workflow Graph.WorkflowSpec Graph.WorkflowProofs.

(* ------------------------------------------------------------------------ *)
(* plugging and flow *)

(* trees as tshape builds them: arguments are data or passed operations *)
Fixpoint dlb (l : lx) : bool :=
  match l with
  | LLeaf _ => true
  | LSpine _ _ args =>
      forallb (fun a => match fst a with
                        | AData => dlb (snd a)
                        | AFun _ => match snd a with LSpine _ _ _ => dlb (snd a) | LLeaf _ => false end
                        | AAbs _ => false
                        end) args
  end.

Lemma tshape_dlb lf an t L : tshape lf an t L -> dlb L = true.
Proof.
  intros H. induction H; try reflexivity.
  - cbn [dlb] in *. rewrite forallb_app, IHtshape1. cbn. now rewrite IHtshape2.
  - cbn [dlb] in IHtshape1 |- *. rewrite forallb_app, IHtshape1. cbn [forallb fst snd].
    now rewrite IHtshape2.
Qed.

Definition eta_ok (eta : node -> option lx) : Prop := forall n U, eta n = Some U -> lnode U = n.

Lemma lsubst_lnode eta L : eta_ok eta -> lnode (lsubst eta L) = lnode L.
Proof.
  intros Hok. destruct L as [n | c o args]; cbn [lsubst lnode]; [|reflexivity].
  destruct (eta n) as [U|] eqn:E; [now apply Hok | reflexivity].
Qed.

Lemma lsubst_ext eta eta' L : (forall n, eta n = eta' n) -> lsubst eta L = lsubst eta' L.
Proof.
  intros H. induction L as [n | c o args IH] using lx_ind'; cbn [lsubst].
  - now rewrite H.
  - f_equal. apply map_ext_in. intros a Ha. rewrite Forall_forall in IH. now rewrite (IH a Ha).
Qed.

Definition gsub (eta : node -> option lx) (a : akind * lx) : akind * lx := (fst a, lsubst eta (snd a)).

Lemma aint_gsub eta a : aint (gsub eta a) = aint a.
Proof. reflexivity. Qed.

Lemma anode_gsub eta a : eta_ok eta -> anode (gsub eta a) = anode a.
Proof. intros H. unfold anode, gsub. cbn [snd]. now apply lsubst_lnode. Qed.

Lemma flat_map_aint_gsub eta args : flat_map aint (map (gsub eta) args) = flat_map aint args.
Proof. induction args as [|a l IH]; cbn; [reflexivity|]. now rewrite IH. Qed.

Lemma cross_gsub eta args : eta_ok eta -> cross (map (gsub eta) args) = cross args.
Proof.
  intros Hok. induction args as [|a l IH]; cbn [map cross]; [reflexivity|].
  rewrite IH, aint_gsub. f_equal; [|f_equal].
  - apply flat_map_ext. intros i. rewrite map_map. apply map_ext. intros b.
    now rewrite anode_gsub.
  - rewrite flat_map_concat_map, map_map, <- flat_map_concat_map.
    apply flat_map_ext. intros b. rewrite aint_gsub, anode_gsub by exact Hok. reflexivity.
Qed.

Lemma arg_edges_gsub eta c a : eta_ok eta ->
  match fst a with
  | AData => True
  | AFun _ => match snd a with LSpine _ _ _ => True | LLeaf _ => False end
  | AAbs _ => False
  end ->
  arg_edges c (gsub eta a) = arg_edges c a.
Proof.
  intros Hok Hk. unfold arg_edges. rewrite anode_gsub by exact Hok. unfold gsub. cbn [fst snd].
  destruct (fst a) as [|i|i]; [reflexivity | | destruct Hk].
  destruct (snd a) as [n | cx ox argsx]; [destruct Hk|].
  cbn [lsubst linternals]. fold (gsub eta). now rewrite flat_map_aint_gsub.
Qed.

Lemma dlb_arg c o args a : dlb (LSpine c o args) = true -> In a args ->
  dlb (snd a) = true /\
  match fst a with
  | AData => True
  | AFun _ => match snd a with LSpine _ _ _ => True | LLeaf _ => False end
  | AAbs _ => False
  end.
Proof.
  cbn [dlb]. intros H Ha. rewrite forallb_forall in H. specialize (H a Ha).
  destruct (fst a); [auto | | discriminate]. destruct (snd a); [discriminate | auto].
Qed.

Lemma flow_lsubst eta : eta_ok eta -> forall L, dlb L = true -> forall t,
  In t (flow (lsubst eta L)) <->
  In t (flow L) \/ exists n U, In n (leaves L) /\ eta n = Some U /\ In t (flow U).
Proof.
  intros Hok. induction L as [n | c o args IH] using lx_ind'; intros Hd t.
  - cbn [lsubst flow leaves In]. destruct (eta n) as [U|] eqn:E.
    + split.
      * intros H. right. exists n, U. auto.
      * intros [[] | [n' [U' [[<- | []] [E' H]]]]]. rewrite E in E'. now injection E' as <-.
    + cbn [flow]. split; [intros [] | intros [[] | [n' [U' [[<- | []] [E' _]]]]]]. congruence.
  - rewrite Forall_forall in IH.
    cbn [lsubst]. fold (gsub eta). rewrite !In_flow_spine.
    assert (Hedges : forall t0, (exists a, In a (map (gsub eta) args) /\ In t0 (arg_edges c a)) <->
                                (exists a, In a args /\ In t0 (arg_edges c a))).
    { intros t0. split.
      - intros [a' [Ha' Ht]]. apply in_map_iff in Ha'. destruct Ha' as [a [<- Ha]].
        exists a. split; [exact Ha|]. destruct (dlb_arg _ _ _ _ Hd Ha) as [_ Hk].
        now rewrite arg_edges_gsub in Ht.
      - intros [a [Ha Ht]]. exists (gsub eta a). split; [now apply in_map|].
        destruct (dlb_arg _ _ _ _ Hd Ha) as [_ Hk]. now rewrite arg_edges_gsub. }
    rewrite Hedges, cross_gsub by exact Hok.
    assert (Hrec : (exists a, In a (map (gsub eta) args) /\ In t (flow (snd a))) <->
                   (exists a, In a args /\ In t (flow (snd a))) \/
                   (exists n U, In n (leaves (LSpine c o args)) /\ eta n = Some U /\ In t (flow U))).
    { cbn [leaves]. split.
      - intros [a' [Ha' Ht]]. apply in_map_iff in Ha'. destruct Ha' as [a [<- Ha]].
        destruct (dlb_arg _ _ _ _ Hd Ha) as [Hda _].
        unfold gsub in Ht. cbn [snd] in Ht. apply (IH a Ha Hda) in Ht.
        destruct Ht as [Ht | [n [U [Hn [E Hu]]]]]; [left; eauto|].
        right. exists n, U. split; [|auto]. apply in_flat_map. eauto.
      - intros [[a [Ha Ht]] | [n [U [Hn [E Hu]]]]].
        + exists (gsub eta a). split; [now apply in_map|]. unfold gsub. cbn [snd].
          destruct (dlb_arg _ _ _ _ Hd Ha) as [Hda _]. apply (IH a Ha Hda). auto.
        + apply in_flat_map in Hn. destruct Hn as [a [Ha Hn]].
          exists (gsub eta a). split; [now apply in_map|]. unfold gsub. cbn [snd].
          destruct (dlb_arg _ _ _ _ Hd Ha) as [Hda _]. apply (IH a Ha Hda). right. eauto. }
    rewrite Hrec. tauto.
Qed.

(* an input that the expression uses is a leaf of its tree *)
Lemma leaves_snoc c o args a :
  leaves (LSpine c o (args ++ [a])) = leaves (LSpine c o args) ++ leaves (snd a).
Proof. cbn [leaves]. rewrite flat_map_app. cbn. now rewrite app_nil_r. Qed.

Lemma tshape_leaf lf an t L k :
  tshape lf an t L -> tx_uses k t = true -> exists n, lf k = Some n /\ In n (leaves L).
Proof.
  intros H. induction H; cbn [tx_uses]; try discriminate.
  - intros E. apply Nat.eqb_eq in E. subst k0. exists n. cbn. auto.
  - intros E. apply orb_true_iff in E. rewrite leaves_snoc. cbn [snd]. destruct E as [E | E].
    + destruct (IHtshape1 E) as [n [A B]]. exists n. split; [exact A|]. apply in_app_iff. auto.
    + destruct (IHtshape2 E) as [n [A B]]. exists n. split; [exact A|]. apply in_app_iff. auto.
  - intros E. apply orb_true_iff in E. rewrite leaves_snoc. cbn [snd]. destruct E as [E | E].
    + destruct (IHtshape1 E) as [n [A B]]. exists n. split; [exact A|]. apply in_app_iff. auto.
    + destruct (IHtshape2 E) as [n [A B]]. exists n. split; [exact A|]. apply in_app_iff. auto.
Qed.

(* plugging turns the tree of a tool expression into a tree of the expression
   with the producers' expressions plugged in *)
Lemma shape_lsubst sm eta lf an es : forall t L,
  tshape lf an t L -> forall e, inst es t = Some e ->
  (forall k n, lf k = Some n -> forall ek, nth_error es k = Some ek ->
     shape sm [] ek (lsubst eta (LLeaf n))) ->
  (forall i n, an i = Some n -> sm i = Some n /\ eta n = None) ->
  shape sm [] e (lsubst eta L).
Proof.
  intros t L H. induction H; intros e He Hlf Han; cbn [inst] in He.
  - eapply Hlf; eauto.
  - injection He as <-. destruct (Han i n H) as [A B]. cbn [lsubst]. rewrite B. now apply sh_src.
  - injection He as <-. cbn [lsubst map]. apply sh_op.
  - destruct (inst es f) as [f'|] eqn:Ef; [|discriminate].
    destruct (inst es x) as [x'|] eqn:Ex; [|discriminate]. injection He as <-.
    cbn [lsubst]. rewrite map_app. cbn [map fst snd].
    apply sh_data.
    + apply (IHtshape1 f' eq_refl Hlf Han).
    + apply (IHtshape2 x' eq_refl Hlf Han).
  - destruct (inst es f) as [f'|] eqn:Ef; [|discriminate].
    destruct (inst es x) as [x'|] eqn:Ex; [|discriminate]. injection He as <-.
    cbn [lsubst]. rewrite map_app. cbn [map fst snd lsubst].
    apply sh_fun.
    + apply (IHtshape1 f' eq_refl Hlf Han).
    + apply (IHtshape2 x' eq_refl Hlf Han).
Qed.

Lemma mapM_o_nth {A B} (f : A -> option B) : forall l ys k x,
  mapM_o f l = Some ys -> nth_error l k = Some x ->
  exists y, nth_error ys k = Some y /\ f x = Some y.
Proof.
  induction l as [|x0 l IH]; intros ys k x; cbn [mapM_o].
  - intros _ H. destruct k; discriminate H.
  - destruct (f x0) as [y0|] eqn:E0; [|discriminate].
    destruct (mapM_o f l) as [ys0|] eqn:El; [|discriminate]. intros [= <-].
    destruct k as [|k]; cbn [nth_error].
    + intros [= <-]. eauto.
    + intros Hk. apply (IH ys0 k x eq_refl Hk).
Qed.

Lemma mapM_o_some {A B} (f : A -> option B) : forall l,
  (forall x, In x l -> exists y, f x = Some y) -> exists ys, mapM_o f l = Some ys.
Proof.
  induction l as [|x l IH]; intros H; cbn [mapM_o]; [eauto|].
  destruct (H x (or_introl eq_refl)) as [y ->].
  destruct IH as [ys ->]; [intros x' Hx'; apply H; cbn; auto|]. eauto.
Qed.

Lemma mapM_o_length {A B} (f : A -> option B) : forall l ys, mapM_o f l = Some ys -> length ys = length l.
Proof.
  induction l as [|x l IH]; intros ys; cbn [mapM_o].
  - intros [= <-]. reflexivity.
  - destruct (f x); [|discriminate]. destruct (mapM_o f l) as [ys0|] eqn:E; [|discriminate].
    intros [= <-]. cbn. now rewrite (IH ys0).
Qed.

Lemma assoc_n_In' {A} r (l : list (nat * A)) v : assoc_n r l = Some v -> In (r, v) l.
Proof. apply assoc_n_In. Qed.

(* ------------------------------------------------------------------------ *)
(* from the conclusions of add_workflow_plugged *)

Definition inl_okb (wf : wflow) : bool :=
  uses_all wf && forallb (fun a => tspine (a_tx a)) (w_apps wf).

Section Inline.
  Variable wf : wflow.
  Hypothesis Hwf : wf_okb wf = true.
  Hypothesis Hinl : inl_okb wf = true.
  Variable res : wres.
  Variable T : list (nat * lx).
  Variable sg : nat -> option node.
  Variable tg : nat.
  Hypothesis Htg : target wf = Some tg.
  Hypothesis HdomT : forall r, In r (map fst T) <-> In r (w_srcs wf) \/ In r (outs wf).
  Hypothesis HndT : NoDup (map fst T).
  Hypothesis Hrho : forall r L, In (r, L) T -> rho res r = Some (lnode L).
  Hypothesis Hleaf : forall s L, In (s, L) T -> In s (w_srcs wf) -> exists n, L = LLeaf n.
  Hypothesis Hshape : forall a L, In a (w_apps wf) -> In (a_out a, L) T ->
    tshape (feed wf true res sg a) sg (a_tx a) L.
  Hypothesis Hnd : NoDup (namesT T).
  Hypothesis Hsg : forall i n, sg i = Some n -> ~ In n (namesT T).
  Hypothesis Hsgs : forall s, In s (w_srcs wf) -> sg s = rho res s.

  Let srcs := w_srcs wf.
  Let apps := w_apps wf.
  Let rnk := rank wf.
  Let F := wf_fuel wf.

  Lemma T_lookup r L : In (r, L) T -> assoc_n r T = Some L.
  Proof. intros H. now apply In_assoc_n. Qed.

  Lemma spine_tree a L : In a apps -> In (a_out a, L) T -> exists c o args, L = LSpine c o args.
  Proof.
    intros Ha HT. pose proof (Hshape a L Ha HT) as Hs.
    unfold inl_okb in Hinl. apply andb_true_iff in Hinl. destruct Hinl as [_ Hsp].
    rewrite forallb_forall in Hsp. specialize (Hsp a Ha).
    destruct (a_tx a); cbn in Hsp; try discriminate; inversion Hs; subst; eauto.
  Qed.

  Lemma root_in_names r L c o args : In (r, L) T -> L = LSpine c o args -> In c (namesT T).
  Proof.
    intros HT ->. unfold namesT. apply in_flat_map. exists (r, LSpine c o args).
    split; [exact HT | cbn; auto].
  Qed.

  (* different tool outputs have different nodes *)
  Lemma tool_node_inj a a' L L' :
    In a apps -> In a' apps -> In (a_out a, L) T -> In (a_out a', L') T ->
    lnode L = lnode L' -> a_out a = a_out a'.
  Proof.
    intros Ha Ha' HT HT' E.
    destruct (spine_tree a L Ha HT) as [c [o [args ->]]].
    destruct (spine_tree a' L' Ha' HT') as [c' [o' [args' ->]]]. cbn [lnode] in E. subst c'.
    assert (Heq : (a_out a, LSpine c o args) = (a_out a', LSpine c o' args')).
    { apply (flat_map_owner (fun p : nat * lx => names (snd p)) T _ _ c Hnd HT HT'); cbn; auto. }
    now injection Heq.
  Qed.

  (* the plugging function of application a with producers' trees from [sub] *)
  Definition eta_of (sub : nat -> option lx) (a : tapp) (n : node) : option lx :=
    match find (fun q => negb (memb q srcs) &&
                         match assoc_n q T with
                         | Some Lq => Nat.eqb (lnode Lq) n
                         | None => false
                         end) (a_ins a) with
    | Some q => sub q
    | None => None
    end.

  Lemma utree_unfold f r :
    utree wf T (S f) r =
    match assoc_n r T with
    | None => None
    | Some L => if memb r srcs then Some L
                else match find_app wf r with
                     | None => None
                     | Some a => Some (lsubst (eta_of (utree wf T f) a) L)
                     end
    end.
  Proof. reflexivity. Qed.

  Lemma eta_of_tool sub a q Lq :
    In a apps -> In q (a_ins a) -> ~ In q srcs -> In (q, Lq) T ->
    eta_of sub a (lnode Lq) = sub q.
  Proof.
    intros Ha Hq Hns HT. unfold eta_of.
    destruct (find _ (a_ins a)) as [q'|] eqn:Ef.
    - apply find_some in Ef. destruct Ef as [Hq' Hc]. apply andb_true_iff in Hc.
      destruct Hc as [Hs' Hn']. apply negb_true_iff, memb_false in Hs'.
      destruct (assoc_n q' T) as [Lq'|] eqn:El; [|discriminate]. apply Nat.eqb_eq in Hn'.
      apply assoc_n_In in El.
      destruct (app_parts wf Hwf a Ha) as [Hins _].
      destruct (Hins q Hq) as [[F1 | Ho] _]; [contradiction|].
      destruct (Hins q' Hq') as [[F1 | Ho'] _]; [contradiction|].
      destruct (out_app wf Hwf q Ho) as [aq [Haq [Eq _]]].
      destruct (out_app wf Hwf q' Ho') as [aq' [Haq' [Eq' _]]].
      subst q q'. f_equal. symmetry. eapply tool_node_inj; eauto.
    - exfalso. pose proof (find_none _ _ Ef q Hq) as Hf. cbn beta in Hf.
      rewrite (T_lookup q Lq HT), Nat.eqb_refl, (proj2 (memb_false q srcs) Hns) in Hf.
      discriminate Hf.
  Qed.

  Lemma eta_of_other sub a n :
    (forall q Lq, In q (a_ins a) -> ~ In q srcs -> In (q, Lq) T -> lnode Lq <> n) ->
    eta_of sub a n = None.
  Proof.
    intros H. unfold eta_of. destruct (find _ (a_ins a)) as [q|] eqn:Ef; [|reflexivity]. exfalso.
    apply find_some in Ef. destruct Ef as [Hq Hc]. apply andb_true_iff in Hc.
    destruct Hc as [Hs Hn]. apply negb_true_iff, memb_false in Hs.
    destruct (assoc_n q T) as [Lq|] eqn:El; [|discriminate]. apply Nat.eqb_eq in Hn.
    apply assoc_n_In in El. apply (H q Lq Hq Hs El Hn).
  Qed.

  Lemma tool_root_named q Lq : In q (outs wf) -> In (q, Lq) T -> In (lnode Lq) (namesT T).
  Proof.
    intros Ho HT. destruct (out_app wf Hwf q Ho) as [a [Ha [Eo _]]]. subst q.
    destruct (spine_tree a Lq Ha HT) as [c [o [args ->]]]. cbn [lnode].
    eapply root_in_names; eauto.
  Qed.

  (* the trees do not depend on the fuel once there is enough of it *)
  Lemma utree_stable : forall f f' r, rnk r < f -> rnk r < f' -> utree wf T f r = utree wf T f' r.
  Proof.
    induction f as [|f IH]; intros f' r H1 H2; [lia|]. destruct f' as [|f']; [lia|].
    rewrite !utree_unfold. destruct (assoc_n r T) as [L|]; [|reflexivity].
    destruct (memb r srcs); [reflexivity|].
    destruct (find_app wf r) as [a|] eqn:Ef; [|reflexivity].
    destruct (find_app_some wf r a Ef) as [Ha Eo]. f_equal. apply lsubst_ext. intros n.
    unfold eta_of. destruct (find _ (a_ins a)) as [q|] eqn:Eq; [|reflexivity].
    apply find_some in Eq. destruct Eq as [Hq _].
    destruct (app_parts wf Hwf a Ha) as [Hins _]. destruct (Hins q Hq) as [_ Hlt].
    rewrite Eo in Hlt. unfold rnk in *. apply IH; lia.
  Qed.

  Definition sm : nat -> option node := sg.

  (* fuel by fuel: the inlined expression, its tree, and what its flow contains *)
  Definition InlStmt (f : nat) : Prop := forall r L,
    In (r, L) T -> rnk r < f ->
    exists e U, inline wf f r = Some e /\ utree wf T f r = Some U /\
      shape sm [] e U /\ lnode U = lnode L /\
      (forall t, In t (flow U) -> In t (flowT T)) /\
      (forall t, In t (flow L) -> In t (flow U)).

  Lemma inl_step : forall f, InlStmt f.
  Proof.
    induction f as [|f IH]; intros r L HT Hlt; [lia|].
    assert (Hr : In r srcs \/ In r (outs wf)).
    { apply HdomT. apply in_map_iff. exists (r, L). auto. }
    rewrite utree_unfold. cbn [inline]. rewrite (T_lookup r L HT). fold srcs.
    destruct (memb r srcs) eqn:Es.
    - (* a source *)
      apply memb_In in Es. destruct (Hleaf r L HT Es) as [n ->].
      exists (ESrc r), (LLeaf n). split; [reflexivity|]. split; [reflexivity|]. split.
      + apply sh_src. unfold sm. rewrite (Hsgs r Es). apply (Hrho r _ HT).
      + split; [reflexivity|]. split; intros t [].
    - apply memb_false in Es. destruct Hr as [Hr | Hr]; [contradiction|].
      destruct (out_app wf Hwf r Hr) as [a [Ha [Eo Efind]]]. rewrite Efind. subst r.
      destruct (app_parts wf Hwf a Ha) as [Hins [_ [Htwf _]]].
      pose proof (Hshape a L Ha HT) as Hts.
      (* the inputs *)
      assert (Hinp : forall q, In q (a_ins a) -> exists Lq eq Uq, In (q, Lq) T /\
                inline wf f q = Some eq /\ utree wf T f q = Some Uq /\ shape sm [] eq Uq /\
                lnode Uq = lnode Lq /\ (forall t, In t (flow Uq) -> In t (flowT T))).
      { intros q Hq. destruct (Hins q Hq) as [Hqr Hqlt].
        assert (HqT : In q (map fst T)) by (apply HdomT; exact Hqr).
        apply in_map_iff in HqT. destruct HqT as [[q0 Lq] [E HqT]]. cbn in E. subst q0.
        destruct (IH q Lq HqT) as [eq [Uq [A [B [C [D [E1 _]]]]]]]; [unfold rnk in *; lia|].
        exists Lq, eq, Uq. auto 10. }
      destruct (mapM_o_some (inline wf f) (a_ins a)) as [es Ees].
      { intros q Hq. destruct (Hinp q Hq) as [_ [eq [_ [_ [A _]]]]]. eauto. }
      rewrite Ees.
      assert (Hlen : length es = length (a_ins a)) by (eapply mapM_o_length; eauto).
      destruct (inst_some es (a_tx a)) as [e Einst]; [now rewrite Hlen|].
      set (eta := eta_of (utree wf T f) a).
      assert (Heta_ok : eta_ok eta).
      { intros n U Hn. unfold eta, eta_of in Hn.
        destruct (find _ (a_ins a)) as [q|] eqn:Ef; [|discriminate].
        apply find_some in Ef. destruct Ef as [Hq Hc]. apply andb_true_iff in Hc. destruct Hc as [_ Hc].
        destruct (assoc_n q T) as [Lq|] eqn:El; [|discriminate]. apply Nat.eqb_eq in Hc.
        apply assoc_n_In in El.
        destruct (Hinp q Hq) as [Lq' [eq [Uq [HqT [_ [B [_ [D _]]]]]]]].
        assert (Lq' = Lq).
        { pose proof (T_lookup q Lq El) as E1. pose proof (T_lookup q Lq' HqT) as E2. congruence. }
        subst Lq'. rewrite B in Hn. injection Hn as <-. congruence. }
      exists e, (lsubst eta L). split; [exact Einst|]. split; [reflexivity|].
      assert (Hdl : dlb L = true) by (eapply tshape_dlb; eauto).
      split; [|split; [now apply lsubst_lnode|split]].
      + (* shape *)
        apply (shape_lsubst sm eta (feed wf true res sg a) sg es (a_tx a) L Hts e Einst).
        * intros k n Hfeed ek Hek. unfold feed in Hfeed.
          destruct (nth_error (a_ins a) k) as [q|] eqn:Ek; [|discriminate]. cbn [orb] in Hfeed.
          destruct (mapM_o_nth _ _ _ k q Ees Ek) as [ek' [Hek' Hinl']]. rewrite Hek in Hek'.
          injection Hek' as <-.
          destruct (Hinp q (nth_error_In _ _ Ek)) as [Lq [eq [Uq [HqT [A [B [C [D _]]]]]]]].
          rewrite Hinl' in A. injection A as <-.
          rewrite (Hrho q Lq HqT) in Hfeed. injection Hfeed as <-.
          cbn [lsubst]. destruct (in_dec Nat.eq_dec q srcs) as [Hqs | Hqs].
          -- (* a source feeds the input *)
             unfold eta. rewrite (eta_of_other (utree wf T f) a (lnode Lq)).
             ++ destruct (Hleaf q Lq HqT Hqs) as [m ->]. cbn [lnode].
                assert (Ef : utree wf T f q = Some (LLeaf m)).
                { destruct f as [|f0]; cbn [utree]; rewrite (T_lookup q _ HqT);
                    fold srcs; rewrite (proj2 (memb_In q srcs) Hqs); reflexivity. }
                rewrite Ef in B. injection B as <-. exact C.
             ++ intros q' Lq' Hq' Hns' HT' Heq.
                destruct (Hins q' Hq') as [[F1 | Ho'] _]; [contradiction|].
                apply (Hsg q (lnode Lq)); [rewrite (Hsgs q Hqs); apply (Hrho q Lq HqT)|].
                rewrite <- Heq. now apply (tool_root_named q' Lq').
          -- unfold eta. rewrite (eta_of_tool (utree wf T f) a q Lq Ha (nth_error_In _ _ Ek) Hqs HqT).
             rewrite B. exact C.
        * intros i n Hi. split; [exact Hi|]. apply eta_of_other.
          intros q Lq Hq Hns HqT Heq.
          destruct (Hins q Hq) as [[F1 | Ho] _]; [contradiction|].
          apply (Hsg i n Hi). rewrite <- Heq. now apply (tool_root_named q Lq).
      + (* nothing but the flows of the tool trees *)
        intros t Ht. apply (flow_lsubst eta Heta_ok L Hdl) in Ht.
        destruct Ht as [Ht | [n [U [Hn [He Hu]]]]].
        * unfold flowT. apply in_flat_map. exists (a_out a, L). auto.
        * unfold eta, eta_of in He. destruct (find _ (a_ins a)) as [q|] eqn:Ef; [|discriminate].
          apply find_some in Ef. destruct Ef as [Hq _].
          destruct (Hinp q Hq) as [Lq [eq [Uq [_ [_ [B [_ [_ Hsub]]]]]]]].
          rewrite B in He. injection He as <-. now apply Hsub.
      + intros t Ht. apply (flow_lsubst eta Heta_ok L Hdl). auto.
  Qed.

  (* the tree of the whole inlined expression *)
  Definition Uof (r : nat) : option lx := utree wf T F r.

  Lemma rank_lt_F r : In r srcs \/ In r (outs wf) -> rnk r < F.
  Proof.
    intros [Hs | Ho].
    - unfold rnk. rewrite (rank_src wf Hwf r Hs). unfold F, wf_fuel. lia.
    - destruct (out_app wf Hwf r Ho) as [a [Ha [Eo _]]]. destruct (app_parts wf Hwf a Ha) as [_ [Hle _]].
      rewrite Eo in Hle. unfold rnk, F, wf_fuel, apps in *. lia.
  Qed.

  (* the tree of a producer sits inside the tree of its consumer *)
  Lemma producer_inside a b La Lb Ua Ub :
    In a apps -> In b apps -> In (a_out a) (a_ins b) ->
    In (a_out a, La) T -> In (a_out b, Lb) T ->
    Uof (a_out a) = Some Ua -> Uof (a_out b) = Some Ub ->
    forall t, In t (flow Ua) -> In t (flow Ub).
  Proof.
    intros Ha Hb Hin HTa HTb EUa EUb t Ht.
    unfold Uof, F, wf_fuel in *. rewrite utree_unfold in EUb.
    rewrite (T_lookup _ _ HTb) in EUb.
    assert (Hnsb : ~ In (a_out b) srcs).
    { intros Fs. apply (src_not_out wf Hwf _ Fs). unfold outs. now apply in_map. }
    assert (Hnsa : ~ In (a_out a) srcs).
    { intros Fs. apply (src_not_out wf Hwf _ Fs). unfold outs. now apply in_map. }
    fold srcs in EUb. rewrite (proj2 (memb_false (a_out b) srcs) Hnsb) in EUb.
    rewrite (find_app_unique wf b (nd_outs wf Hwf) Hb) in EUb. injection EUb as <-.
    pose proof (Hshape b Lb Hb HTb) as Hts.
    assert (Hdl : dlb Lb = true) by (eapply tshape_dlb; eauto).
    (* the position *)
    destruct (In_nth_error _ _ Hin) as [k Hk].
    assert (Huse : tx_uses k (a_tx b) = true).
    { unfold inl_okb in Hinl. apply andb_true_iff in Hinl. destruct Hinl as [Hu _].
      unfold uses_all in Hu. rewrite forallb_forall in Hu. specialize (Hu b Hb).
      rewrite forallb_forall in Hu. apply Hu. apply in_seq. split; [lia|].
      cbn. apply nth_error_Some. congruence. }
    destruct (tshape_leaf _ _ _ _ k Hts Huse) as [n [Hfeed Hleafn]].
    unfold feed in Hfeed. rewrite Hk in Hfeed. cbn [orb] in Hfeed.
    rewrite (Hrho _ _ HTa) in Hfeed. injection Hfeed as <-.
    set (eta := eta_of (utree wf T (length (w_apps wf))) b).
    assert (Heta_ok : eta_ok eta).
    { intros n U Hn. unfold eta, eta_of in Hn.
      destruct (find _ (a_ins b)) as [q|] eqn:Ef; [|discriminate].
      apply find_some in Ef. destruct Ef as [Hq Hc]. apply andb_true_iff in Hc. destruct Hc as [_ Hc].
      destruct (assoc_n q T) as [Lq|] eqn:El; [|discriminate]. apply Nat.eqb_eq in Hc.
      apply assoc_n_In in El.
      destruct (app_parts wf Hwf b Hb) as [Hins [Hle _]]. destruct (Hins q Hq) as [_ Hqlt].
      destruct (inl_step (length (w_apps wf)) q Lq El) as [eq [Uq [_ [B [_ [D _]]]]]];
        [unfold rnk, apps in *; lia|].
      rewrite B in Hn. injection Hn as <-. congruence. }
    apply (flow_lsubst eta Heta_ok Lb Hdl). right. exists (lnode La), Ua.
    split; [exact Hleafn|]. split; [|exact Ht].
    unfold eta. rewrite (eta_of_tool _ b (a_out a) La Hb Hin Hnsa HTa).
    rewrite <- EUa. apply utree_stable.
    - destruct (app_parts wf Hwf b Hb) as [Hins [Hle _]]. destruct (Hins _ Hin) as [_ Hlt].
      unfold rnk, apps in *. lia.
    - apply rank_lt_F. right. unfold outs. now apply in_map.
  Qed.

  Theorem inline_tree :
    exists e U, inline wf F tg = Some e /\ shape sm [] e U /\ rho res tg = Some (lnode U) /\
      forall t, In t (flow U) <-> In t (flowT T).
  Proof.
    destruct (target_spec wf tg Htg) as [Htgo Hcons].
    assert (HtgT : In tg (map fst T)) by (apply HdomT; auto).
    apply in_map_iff in HtgT. destruct HtgT as [[r0 Ltg] [E HtgT]]. cbn in E. subst r0.
    destruct (inl_step F tg Ltg HtgT (rank_lt_F tg (or_intror Htgo)))
      as [e [U [Ei [Eu [Hsh [Hln [Hsub Hown]]]]]]].
    exists e, U. split; [exact Ei|]. split; [exact Hsh|]. split.
    { rewrite Hln. apply (Hrho tg Ltg HtgT). }
    intros t. split; [apply Hsub|].
    (* every tool tree is inside *)
    assert (Hall : forall d a La Ua, In a apps -> length apps - rnk (a_out a) <= d ->
              In (a_out a, La) T -> Uof (a_out a) = Some Ua ->
              forall t0, In t0 (flow Ua) -> In t0 (flow U)).
    { induction d as [|d IHd]; intros a La Ua Ha Hd HTa EUa t0 Ht0.
      - destruct (Nat.eq_dec (a_out a) tg) as [Eq | Hne].
        { unfold Uof in EUa. rewrite Eq, Eu in EUa. now injection EUa as <-. }
        exfalso.
        assert (Ho : In (a_out a) (outs wf)) by (unfold outs; now apply in_map).
        specialize (Hcons _ Ho Hne). unfold consumed in Hcons. apply existsb_exists in Hcons.
        destruct Hcons as [b [Hb Hm]]. apply memb_In in Hm.
        destruct (app_parts wf Hwf b Hb) as [Hins [Hle _]]. destruct (Hins _ Hm) as [_ Hlt].
        unfold rnk, apps in *. lia.
      - destruct (Nat.eq_dec (a_out a) tg) as [Eq | Hne].
        { unfold Uof in EUa. rewrite Eq, Eu in EUa. now injection EUa as <-. }
        assert (Ho : In (a_out a) (outs wf)) by (unfold outs; now apply in_map).
        specialize (Hcons _ Ho Hne). unfold consumed in Hcons. apply existsb_exists in Hcons.
        destruct Hcons as [b [Hb Hm]]. apply memb_In in Hm.
        destruct (app_parts wf Hwf b Hb) as [Hins [Hle _]]. destruct (Hins _ Hm) as [_ Hlt].
        assert (HbT : In (a_out b) (map fst T)).
        { apply HdomT. right. unfold outs. now apply in_map. }
        apply in_map_iff in HbT. destruct HbT as [[r0 Lb] [E HbT]]. cbn in E. subst r0.
        destruct (inl_step F (a_out b) Lb HbT) as [eb [Ub [_ [EUb _]]]].
        { apply rank_lt_F. right. unfold outs. now apply in_map. }
        apply (IHd b Lb Ub Hb); [unfold rnk, apps in *; lia | exact HbT | exact EUb |].
        eapply (producer_inside a b La Lb Ua Ub); eauto. }
    intros Ht. unfold flowT in Ht. apply in_flat_map in Ht. destruct Ht as [[r L] [HT Ht]].
    cbn [snd] in Ht.
    assert (Hr : In r srcs \/ In r (outs wf)).
    { apply HdomT. apply in_map_iff. exists (r, L). auto. }
    destruct Hr as [Hs | Ho].
    - destruct (Hleaf r L HT Hs) as [n ->]. destruct Ht.
    - destruct (out_app wf Hwf r Ho) as [a [Ha [Eo _]]]. subst r.
      destruct (inl_step F (a_out a) L HT (rank_lt_F _ (or_intror Ho)))
        as [ea [Ua [_ [EUa [_ [_ [_ Hown_a]]]]]]].
      apply (Hall (length apps) a L Ua Ha); [lia | exact HT | exact EUa |].
      now apply Hown_a.
  Qed.
End Inline.

(* ------------------------------------------------------------------------ *)
(* the theorem: passthrough on, the workflow graph is the flow of a tree of the
   inlined expression *)

Theorem add_workflow_inline add_from add_from_r :
  add_from_ok add_from -> add_from_ok add_from_r ->
  forall wf, wf_okb wf = true -> inl_okb wf = true ->
  exists res tg e U sm0,
    add_workflow add_from add_from_r false true wf = Some res /\
    target wf = Some tg /\
    inline wf (wf_fuel wf) tg = Some e /\
    shape sm0 [] e U /\ lnode U = r_output res /\
    (forall t, vis t -> (In t (r_tr res) <-> In t (flow U))).
Proof.
  intros Hok Hokr wf Hwf Hinl.
  destruct (add_workflow_plugged add_from add_from_r Hok Hokr true wf Hwf)
    as (res & T & sg & tg & Hrun & Htg & _ & _ & _ & HdomT & HndT & Hrho & Hleaf & Hshape & Hnd &
        Hsg & Hsgs & Hgraph & _ & Hout).
  destruct (inline_tree wf Hwf Hinl res T sg tg Htg HdomT HndT Hrho Hleaf Hshape Hnd Hsg Hsgs)
    as [e [U [Ei [Hsh [Hn Hflow]]]]].
  exists res, tg, e, U, (sm sg). split; [exact Hrun|]. split; [exact Htg|]. split; [exact Ei|].
  split; [exact Hsh|]. split; [congruence|].
  intros t Hv. rewrite (Hgraph t Hv), Hflow. split; [|auto].
  intros [H | [F _]]; [exact H | discriminate F].
Qed.

(* the inlined expression is one of the expressions C08 is about *)
Lemma inst_spine es t e : inst es t = Some e -> tspine t = true -> is_spine e = true.
Proof.
  revert e. induction t as [k | i | i o | i f IHf x IHx fn]; intros e; cbn [inst tspine]; try discriminate.
  - intros [= <-] _. reflexivity.
  - destruct (inst es f) as [f'|] eqn:Ef; [|discriminate]. destruct (inst es x); [|discriminate].
    intros [= <-] Hs. cbn [is_spine]. now apply IHf.
Qed.

Lemma inst_wfb es : forall t e, inst es t = Some e -> twfb (length es) t = true ->
  (forall k ek, nth_error es k = Some ek -> wfb [] ek = true /\ is_abs ek = false) ->
  wfb [] e = true /\ is_abs e = false.
Proof.
  induction t as [k | i | i o | i f IHf x IHx fn]; intros e; cbn [inst twfb].
  - intros He _ Hes. apply (Hes k e He).
  - intros [= <-] _ _. auto.
  - intros [= <-] _ _. auto.
  - destruct (inst es f) as [f'|] eqn:Ef; [|discriminate].
    destruct (inst es x) as [x'|] eqn:Ex; [|discriminate].
    intros [= <-] Hw Hes. apply andb_true_iff in Hw. destruct Hw as [Hw Hx].
    apply andb_true_iff in Hw. destruct Hw as [Hsf Hwf].
    destruct (IHf f' eq_refl Hwf Hes) as [Wf _].
    split; [|reflexivity]. cbn [wfb]. rewrite (inst_spine es f f' Ef Hsf), Wf. cbn [andb].
    destruct fn.
    + apply andb_true_iff in Hx. destruct Hx as [Hsx Hwx].
      destruct (IHx x' eq_refl Hwx Hes) as [Wx Ax].
      destruct x'; try discriminate Ax; now rewrite (inst_spine es x _ Ex Hsx), Wx.
    + destruct (IHx x' eq_refl Hx Hes) as [Wx _]. exact Wx.
Qed.

Lemma inline_wfb wf : wf_okb wf = true -> forall f r e, inline wf f r = Some e ->
  wfb [] e = true /\ is_abs e = false.
Proof.
  intros Hwf. induction f as [|f IH]; intros r e; cbn [inline].
  - destruct (memb r (w_srcs wf)); [|discriminate]. intros [= <-]. auto.
  - destruct (memb r (w_srcs wf)); [intros [= <-]; auto|].
    destruct (find_app wf r) as [a|] eqn:Ef; [|discriminate].
    destruct (mapM_o (inline wf f) (a_ins a)) as [es|] eqn:Ees; [|discriminate].
    intros Hi. destruct (find_app_some wf r a Ef) as [Ha _].
    destruct (app_parts wf Hwf a Ha) as [_ [_ [Htwf _]]].
    apply (inst_wfb es (a_tx a) e Hi).
    + now rewrite (mapM_o_length _ _ _ Ees).
    + intros k ek Hk.
      assert (Hlt : k < length (a_ins a)).
      { rewrite <- (mapM_o_length _ _ _ Ees). apply nth_error_Some. congruence. }
      destruct (nth_error (a_ins a) k) as [q|] eqn:Eq; [|apply nth_error_None in Eq; lia].
      destruct (mapM_o_nth _ _ _ k q Ees Eq) as [y [Hy Hq]]. rewrite Hk in Hy. injection Hy as <-.
      apply (IH q ek Hq).
Qed.

(* side by side with C08: add_expr on the inlined expression and add_workflow on
   the workflow both produce the flow of an application tree of that expression *)
Theorem add_workflow_vs_add_expr add_from add_from_r :
  add_from_ok add_from -> add_from_ok add_from_r ->
  forall wf, wf_okb wf = true -> inl_okb wf = true ->
  exists res tg e U sm0 L st',
    add_workflow add_from add_from_r false true wf = Some res /\
    target wf = Some tg /\ inline wf (wf_fuel wf) tg = Some e /\
    (* the workflow *)
    shape sm0 [] e U /\ lnode U = r_output res /\
    (forall t, vis t -> (In t (r_tr res) <-> In t (flow U))) /\
    (* the expression *)
    add_expr add_from false e None g_empty = Some (lnode L, st') /\
    shape (srcmap (g_memo st')) [] e L /\
    (forall t, vis t -> (In t (g_tr st') <-> In t (flow L))).
Proof.
  intros Hok Hokr wf Hwf Hinl.
  destruct (add_workflow_inline add_from add_from_r Hok Hokr wf Hwf Hinl)
    as [res [tg [e [U [sm0 [Hrun [Htg [Ei [Hsh [Hn Hg]]]]]]]]]].
  destruct (inline_wfb wf Hwf _ _ _ Ei) as [Hw _].
  destruct (add_expr_flow add_from Hok e Hw) as [L [st' [Ea [Hs [_ [_ [_ Hf]]]]]]].
  exists res, tg, e, U, sm0, L, st'. auto 12.
Qed.
