(* Graph/Annot.v -- the ANNOTATION half of TransformationGraph.add_expr
   (transforge/graph.py:240-316) and TransformationGraph.add_type
   (graph.py:174-213) with the type_nodes memo, under the with_* switches.
   This is what property C07 observes: tf:type, tf:subtypeOf, tf:via,
   tf:containsType, tf:containsOperation on concept nodes and on the
   transformation root, and rdfs:subClassOf / rdf:_i on type nodes.

   The code is described WITH the repairs
     proposed_fixes/C11_containsOperation.diff  (membership predicate name)
     proposed_fixes/C07.diff                    (a source's type is followed
                                                 to its binding before it is
                                                 looked up in the canon)
   The pinned behaviour is kept under the names [annot_src_pinned],
   [pred_name_pinned].

   Decomposition.  add_expr interleaves two independent pieces of state:
   (1) expression nodes: the expr_nodes memo and BNode() allocation -- that is
       Graph/AddExpr.v (property C08); [concepts] below repeats that traversal
       on expressions that carry their inferred types and returns, in visiting
       order, one EVENT per Source / Operation that add_expr annotates;
       [concepts_sim] (AnnotProofs.v) shows it allocates exactly the nodes of
       AddExpr.add_expr;
   (2) type nodes and annotation triples: [run] processes the events.
   The theorems about (2) hold for EVERY list of events (all insertion
   histories into one graph), not only for those of one expression.

   Language.supertypes(t, transitive=True) is the parameter [sup]; its
   instance [lang_succ H canon UP t true] (Canon/Canon.v, property C10) is
   supplied in Graph/AnnotCanon.v.
   Not modelled: rdfs:label, rdf:type (with_labels, with_classes) and
   with_supertype_classes (off by default); types are concrete (no variables).
   Stdlib only, structural recursion, no axioms. *)
From Coq Require Import List Arith Bool Lia.
Import ListNotations.
From TF Require Import Base.Hier Base.Ty Parse.Lang Uri.Uri Graph.AddExpr.

(* ------------------------------------------------------------------------ *)
(* RDF terms and predicates *)

Inductive term : Type :=
| TUri (u : list nat)     (* URIRef, as code points *)
| TBn (k : nat)           (* BNode() made by add_type *)
| TEn (n : node)          (* expression node: the nodes of Graph/AddExpr.v *)
| TRoot.                  (* the transformation root handed to add_expr *)

Inductive apred : Type :=
| PType | PSubtypeOf | PVia | PContainsType | PContainsOperation
| PSubClassOf             (* rdfs:subClassOf *)
| PParam (i : nat).       (* rdf:_i *)

Definition atriple := (term * apred * term)%type.

(* decidable equality, for executable membership tests *)
Definition term_eqb (a b : term) : bool :=
  match a, b with
  | TUri u, TUri v => name_eqb u v
  | TBn j, TBn k => Nat.eqb j k
  | TEn j, TEn k => Nat.eqb j k
  | TRoot, TRoot => true
  | _, _ => false
  end.
Definition apred_eqb (p q : apred) : bool :=
  match p, q with
  | PType, PType | PSubtypeOf, PSubtypeOf | PVia, PVia | PContainsType, PContainsType
  | PContainsOperation, PContainsOperation | PSubClassOf, PSubClassOf => true
  | PParam i, PParam j => Nat.eqb i j
  | _, _ => false
  end.
Definition atriple_eqb (x y : atriple) : bool :=
  term_eqb (fst (fst x)) (fst (fst y)) && apred_eqb (snd (fst x)) (snd (fst y)) &&
  term_eqb (snd x) (snd y).
Definition tr_has (tr : list atriple) (x : atriple) : bool := existsb (atriple_eqb x) tr.

(* local names in the TF namespace (ASCII); graph.py:252-312 with the repair *)
Definition pred_name (p : apred) : list nat :=
  match p with
  | PType => [116; 121; 112; 101]
  | PSubtypeOf => [115; 117; 98; 116; 121; 112; 101; 79; 102]
  | PVia => [118; 105; 97]
  | PContainsType => [99; 111; 110; 116; 97; 105; 110; 115; 84; 121; 112; 101]
  | PContainsOperation =>
      [99; 111; 110; 116; 97; 105; 110; 115; 79; 112; 101; 114; 97; 116; 105; 111; 110]
  | PSubClassOf => [115; 117; 98; 67; 108; 97; 115; 115; 79; 102]
  | PParam _ => [95]
  end.

(* graph.py:290 as pinned: TF.containsOperator *)
Definition pred_name_pinned (p : apred) : list nat :=
  match p with
  | PContainsOperation =>
      [99; 111; 110; 116; 97; 105; 110; 115; 79; 112; 101; 114; 97; 116; 111; 114]
  | _ => pred_name p
  end.

(* the predicates of the TF namespace that annotate a transformation *)
Definition tf_preds : list apred :=
  [PType; PSubtypeOf; PVia; PContainsType; PContainsOperation].
(* the membership predicates: what the query pre-filter asks for *)
Definition membership_preds : list apred := [PContainsType; PContainsOperation].

(* Vocabulary agreement as a decidable statement over name tables that the
   harness reads from the running implementation and from
   vocab/transforge.ttl: every predicate the query generator tests is one the
   graph can emit, and every predicate the graph emits is declared. *)
Definition name_mem (n : name) (l : list name) : bool := existsb (name_eqb n) l.
Definition vocab_agree (emitted queried declared : list name) : bool :=
  forallb (fun q => name_mem q emitted) queried &&
  forallb (fun e => name_mem e declared) emitted.

(* ------------------------------------------------------------------------ *)
(* switches of TransformationGraph.__init__ that steer the annotation *)

Record switches : Type := mkSw {
  w_operators : bool;
  w_types : bool;
  w_supertypes : bool;
  w_intermediate : bool;        (* with_intermediate_types *)
  w_membership : bool;
  w_membership_super : bool;    (* with_membership_supertypes *)
  w_type_params : bool;         (* with_type_parameters *)
  w_noncanon : bool;            (* with_noncanonical_types *)
  w_canonical_types : bool      (* with_canonical_types: describe canonical types too *)
}.

(* ------------------------------------------------------------------------ *)
(* graph state seen by the annotation: triples, type_nodes, blank counter *)

Definition tmemo := list (ty * term).
Fixpoint tfind (t : ty) (m : tmemo) : option term :=
  match m with
  | [] => None
  | (t', n) :: r => if ty_eqb t t' then Some n else tfind t r
  end.

Record tstate : Type := mkT { t_tr : list atriple; t_memo : tmemo; t_next : nat }.

Definition tadd (x : atriple) (st : tstate) : tstate :=
  mkT (x :: t_tr st) (t_memo st) (t_next st).
Definition tset (t : ty) (n : term) (st : tstate) : tstate :=
  mkT (t_tr st) ((t, n) :: t_memo st) (t_next st).
Definition tfresh (st : tstate) : term * tstate :=
  (TBn (t_next st), mkT (t_tr st) (t_memo st) (S (t_next st))).

(* one concept that add_expr annotates *)
Inductive ev : Type :=
| EvSrc (cur : term) (t : ty)                          (* Source of type t *)
| EvOp (cur : term) (j : nat) (out : ty) (im : bool).  (* Operation of operator j, output type,
                                                          the [intermediate] argument *)
Definition ev_cur (e : ev) : term := match e with EvSrc c _ => c | EvOp c _ _ _ => c end.
Definition ev_ty (e : ev) : ty := match e with EvSrc _ t => t | EvOp _ _ t _ => t end.

Section ArgLoop.
  (* graph.py:203-205  for i, param in enumerate(t.params, start=1):
                           self.add((node, RDF[f"_{i}"], self.add_type(param))) *)
  Variable rec : ty -> tstate -> option (term * tstate).
  Variable nd : term.
  Fixpoint add_params (l : list ty) (i : nat) (s : tstate) {struct l} : option tstate :=
    match l with
    | [] => Some s
    | a :: r =>
        match rec a s with
        | None => None
        | Some (pn, s') => add_params r (S i) (tadd (nd, PParam i, pn) s')
        end
    end.
End ArgLoop.

Section Model.
  Variable sw : switches.
  Variable L : lang.                  (* names and arities *)
  Variable ns : list nat.             (* the language namespace *)
  Variable canon : list ty.           (* Language.canon after expand_canon *)
  Variable sup : ty -> list ty.       (* Language.supertypes(t, transitive=True) *)

  (* graph.py:102-105: unless with_canonical_types, the canonical types are
     known beforehand by their URIs (Language.uri cannot fail on them) *)
  Definition init_memo : tmemo :=
    if w_canonical_types sw then []
    else flat_map (fun t => match uri L ns canon t with
                            | Some u => [(t, TUri u)]
                            | None => []
                            end) canon.
  Definition tinit : tstate := mkT [] init_memo 0.

  (* add_type, graph.py:174-213.  None = NonCanonicalTypeError propagates. *)
  Fixpoint add_type (t : ty) (st : tstate) {struct t} : option (term * tstate) :=
    match tfind t (t_memo st) with                                      (* 181-182 *)
    | Some n => Some (n, st)
    | None =>
        match (match uri L ns canon t with                              (* 185-191 *)
               | Some u => Some (TUri u, st)
               | None => if w_noncanon sw then Some (tfresh st) else None
               end) with
        | None => None
        | Some (nd, st1) =>
            match t with
            | TOp o args =>
                match (if (0 <? op_arity L o) && w_type_params sw then       (* 199-200 *)
                         add_params add_type nd args 1                       (* 203-205 *)
                           (tadd (nd, PSubClassOf, TUri (uri_op L ns (OTy o))) st1)  (* 201-202 *)
                       else Some st1) with
                | None => None
                | Some st2 => Some (nd, tset t nd st2)                       (* 211 *)
                end
            end
        end
    end.

  (* graph.py:261-267 / 306-312: every canonical supertype gets its node; it
     is recorded as membership and/or as supertype of the concept *)
  Fixpoint add_supers (root cur : term) (ss : list ty) (st : tstate) : option tstate :=
    match ss with
    | [] => Some st
    | s :: r =>
        match add_type s st with
        | None => None
        | Some (sn, st1) =>
            let st2 := if w_membership_super sw then tadd (root, PContainsType, sn) st1 else st1 in
            let st3 := if w_supertypes sw then tadd (cur, PSubtypeOf, sn) st2 else st2 in
            add_supers root cur r st3
        end
    end.

  (* the Source branch, graph.py:240-271; [t] is the source's type followed to
     its binding (repair C07.diff) *)
  Definition annot_src (root cur : term) (t : ty) (st : tstate) : option tstate :=
    let canonical := canon_mem t canon in                                   (* 247 *)
    if w_types sw && (canonical || w_noncanon sw) then                      (* 249 *)
      match add_type t st with                                              (* 251 *)
      | None => None
      | Some (tn, st1) =>
          let st2 := tadd (cur, PType, tn) st1 in                           (* 252 *)
          let st3 := if w_supertypes sw && canonical
                     then tadd (cur, PSubtypeOf, tn) st2 else st2 in        (* 254-255 *)
          let st4 := if w_membership sw
                     then tadd (root, PContainsType, tn) st3 else st3 in    (* 257-258 *)
          if canonical then add_supers root cur (sup t) st4 else Some st4   (* 260-267 *)
      end
    else Some st.

  (* the Operation branch, graph.py:273-316 *)
  Definition annot_op (root cur : term) (j : nat) (out : ty) (im : bool) (st : tstate)
      : option tstate :=
    let canonical0 := w_noncanon sw || canon_mem out canon in               (* 279-280 *)
    let essential := w_intermediate sw || negb im in                        (* 282-283 *)
    let st1 :=
      if w_operators sw then                                                (* 285 *)
        let opn := TUri (uri_op L ns (OOp j)) in                            (* 286 *)
        let s := tadd (cur, PVia, opn) st in                                (* 287 *)
        if w_membership sw then tadd (root, PContainsOperation, opn) s else s   (* 289-290 *)
      else st in
    if w_types sw && canonical0 && essential then                           (* 292 *)
      match add_type out st1 with                                           (* 294 *)
      | None => None
      | Some (tn, st2) =>
          let st3 := tadd (cur, PType, tn) st2 in                           (* 295 *)
          let canonical := canon_mem out canon in                           (* 297 *)
          let st4 := if w_membership sw
                     then tadd (root, PContainsType, tn) st3 else st3 in    (* 299-300 *)
          let st5 := if w_supertypes sw && canonical
                     then tadd (cur, PSubtypeOf, tn) st4 else st4 in        (* 302-303 *)
          if canonical then add_supers root cur (sup out) st5 else Some st5 (* 305-312 *)
      end
    else Some st1.

  Definition step (root : term) (e : ev) (st : tstate) : option tstate :=
    match e with
    | EvSrc cur t => annot_src root cur t st
    | EvOp cur j out im => annot_op root cur j out im st
    end.

  Fixpoint run (root : term) (es : list ev) (st : tstate) : option tstate :=
    match es with
    | [] => Some st
    | e :: r => match step root e st with
                | None => None
                | Some st' => run root r st'
                end
    end.

  (* several transformations in one graph: every event comes with the root
     that was handed to its add_expr call; type_nodes, the blank counter and
     the triples are shared *)
  Fixpoint runr (res : list (term * ev)) (st : tstate) : option tstate :=
    match res with
    | [] => Some st
    | (r, e) :: rest => match step r e st with
                        | None => None
                        | Some st' => runr rest st'
                        end
    end.

  (* The pinned Source branch (graph.py:247 before the repair): a type that is
     held through a bound type variable is never found in the canon, because
     variables hash by identity.  [via_var] = "expr.type is a bound variable". *)
  Definition annot_src_pinned (root cur : term) (t : ty) (via_var : bool) (st : tstate)
      : option tstate :=
    let canonical := negb via_var && canon_mem t canon in
    if w_types sw && (canonical || w_noncanon sw) then
      match add_type t st with
      | None => None
      | Some (tn, st1) =>
          let st2 := tadd (cur, PType, tn) st1 in
          let st3 := if w_supertypes sw && canonical
                     then tadd (cur, PSubtypeOf, tn) st2 else st2 in
          let st4 := if w_membership sw
                     then tadd (root, PContainsType, tn) st3 else st3 in
          if canonical then add_supers root cur (sup t) st4 else Some st4
      end
    else Some st.
End Model.

(* ------------------------------------------------------------------------ *)
(* Expressions that carry what inference assigned (transforge/expr.py) *)

Inductive cexpr : Type :=
| CSrc (i : nat) (t : ty)                     (* Source; its type *)
| CVar (i : nat)
| COp (i : nat) (j : nat) (out : ty)          (* Operation of operator j; expr.type.output() *)
| CApp (i : nat) (f x : cexpr) (fn : bool)
| CAbs (i : nat) (ps : list nat) (b : cexpr).

Fixpoint erase (e : cexpr) : expr :=
  match e with
  | CSrc i _ => ESrc i
  | CVar i => EVar i
  | COp i j _ => EOp i j
  | CApp i f x fn => EApp i (erase f) (erase x) fn
  | CAbs i ps b => EAbs i ps (erase b)
  end.

Definition ckey (e : cexpr) : key := key_of (erase e).
Definition cis_abs (e : cexpr) : bool := match e with CAbs _ _ _ => true | _ => false end.

(* The traversal of add_expr (graph.py:235-402) as far as nodes and the
   [intermediate] flag are concerned: same memo, same BNode() allocation as
   AddExpr.add_expr; result = node, state, events in visiting order.  Only
   g_memo and g_next of the state are used. *)
Fixpoint concepts (e : cexpr) (cur : option node) (im : bool) (g : gstate) {struct e}
    : option (node * gstate * list ev) :=
  match memo_find (ckey e) (g_memo g) with                                  (* 235-236 *)
  | Some n => Some (n, g, [])
  | None =>
    let cg := match cur with Some c => (c, g) | None => fresh g end in      (* 238 *)
    let c := fst cg in
    let g0 := snd cg in
    match e with
    | CSrc _ t => Some (c, set_memo (ckey e) c g0, [EvSrc (TEn c) t])       (* 240-271 *)
    | COp _ j out => Some (c, g0, [EvOp (TEn c) j out im])                  (* 273-316 *)
    | CVar _ => None
    | CAbs _ _ _ => None
    | CApp _ f x fn =>
        if cis_abs f then None else
        match concepts f (Some c) im g0 with                                (* 329 *)
        | None => None
        | Some (fnode, g1, ev1) =>
            let r :=
              if fn then                                                    (* 351-352 *)
                let ig := fresh g1 in                                       (* 353 *)
                match x with
                | CAbs _ ps b =>                                            (* 361-366 *)
                    let xg := fresh (bind_params ps (fst ig) (snd ig)) in
                    concepts b (Some (fst xg)) true (snd xg)
                | _ =>                                                      (* 367-370 *)
                    let xg := fresh (snd ig) in
                    concepts x (Some (fst xg)) true (snd xg)
                end
              else                                                          (* 371-373 *)
                let xg := fresh g1 in
                concepts x (Some (fst xg)) true (snd xg) in
            match r with
            | None => None
            | Some (xn, g7, ev2) => Some (c, g7, ev1 ++ ev2)
            end
        end
    end
  end.

(* add_workflow, graph.py:469-485, 494-497: the tool and source expressions are
   added one after the other into the same graph; each result is remembered
   in expr_nodes under the expression itself *)
Fixpoint concepts_seq (es : list cexpr) (g : gstate) : option (gstate * list ev) :=
  match es with
  | [] => Some (g, [])
  | e :: r =>
      match memo_find (ckey e) (g_memo g) with                              (* 471-472 *)
      | Some _ => concepts_seq r g
      | None =>
          match concepts e None false g with                                (* 480-481 *)
          | None => None
          | Some (n, g1, ev1) =>
              match concepts_seq r (set_memo (ckey e) n g1) with
              | None => None
              | Some (g2, ev2) => Some (g2, ev1 ++ ev2)
              end
          end
      end
  end.

(* the whole of add_expr's annotation on a fresh graph *)
Definition annot_exprs sw L ns canon sup (es : list cexpr) : option (gstate * tstate) :=
  match concepts_seq es g_empty with
  | None => None
  | Some (g, evs) =>
      match run sw L ns canon sup TRoot evs (tinit sw L ns canon) with
      | None => None
      | Some st => Some (g, st)
      end
  end.

(* add_expr called once per transformation, each with its own root, on one
   graph (no entry in expr_nodes for the top-level expressions: that is
   add_workflow's doing) *)
Fixpoint concepts_roots (res : list (term * cexpr)) (g : gstate)
    : option (gstate * list (term * ev)) :=
  match res with
  | [] => Some (g, [])
  | (r, e) :: rest =>
      match concepts e None false g with
      | None => None
      | Some (n, g1, ev1) =>
          match concepts_roots rest g1 with
          | None => None
          | Some (g2, ev2) => Some (g2, map (pair r) ev1 ++ ev2)
          end
      end
  end.

Definition annot_roots sw L ns canon sup (res : list (term * cexpr)) : option (gstate * tstate) :=
  match concepts_roots res g_empty with
  | None => None
  | Some (g, evs) =>
      match runr sw L ns canon sup evs (tinit sw L ns canon) with
      | None => None
      | Some st => Some (g, st)
      end
  end.
