(* Graph/AnnotPinned.v -- vocabulary agreement as a decidable statement, and
   the two places where the pinned graph.py departs from property C07:
     graph.py:290  TF.containsOperator (vocabulary and query: containsOperation)
     graph.py:247  a source whose type is held through a bound type variable
                   is treated as non-canonical *)
From Coq Require Import List Arith Bool Lia.
Import ListNotations.
From TF Require Import Base.Hier Base.Ty Parse.Lang Uri.Uri Canon.Succ Canon.Canon.
From TF Require Import Graph.AddExpr Graph.Annot Graph.AnnotProofs Graph.AnnotCanon.

Lemma name_mem_In n l : name_mem n l = true <-> In n l.
Proof. unfold name_mem. apply existsb_name_In. Qed.

Theorem vocab_agree_spec emitted queried declared :
  vocab_agree emitted queried declared = true <->
  (forall n, In n queried -> In n emitted) /\ (forall n, In n emitted -> In n declared).
Proof.
  unfold vocab_agree. rewrite andb_true_iff, !forallb_forall. split.
  - intros [A B]. split; intros n Hn; apply name_mem_In; auto.
  - intros [A B]. split; intros n Hn; apply name_mem_In; auto.
Qed.

(* the names the (repaired) graph emits agree with every vocabulary that
   declares them, and cover what a query generator asking for the membership
   predicates tests *)
Theorem model_vocab_ok declared :
  (forall p, In p tf_preds -> In (pred_name p) declared) ->
  vocab_agree (map pred_name tf_preds) (map pred_name membership_preds) declared = true.
Proof.
  intros D. apply vocab_agree_spec. split.
  - intros n Hn. apply in_map_iff in Hn as (p & <- & Hp). apply in_map.
    unfold membership_preds, tf_preds in *. cbn [In] in *. intuition (subst; auto).
  - intros n Hn. apply in_map_iff in Hn as (p & <- & Hp). auto.
Qed.

(* the pinned names do not: whatever is declared, a query that tests
   containsOperation tests a predicate the pinned graph never emits *)
Theorem vocab_pinned_refuted declared queried :
  In (pred_name PContainsOperation) queried ->
  vocab_agree (map pred_name_pinned tf_preds) queried declared = false.
Proof.
  intros Hq. destruct (vocab_agree _ _ _) eqn:E; [|reflexivity].
  apply vocab_agree_spec in E as [A _]. specialize (A _ Hq).
  cbn in A. repeat (destruct A as [A|A]; [discriminate A|]). destruct A.
Qed.

(* one base type A (operator 5), canon {A}; every switch on *)
Definition pL : lang := mkLang [([65], 0)] [] [].
Definition pNs : list nat := [101; 58].
Definition pH : hier := mk_hier [] [].
Definition pCanon : list ty := [TOp 5 []].
Definition pSw : switches := mkSw true true true true true true true true false.
Definition pA : ty := TOp 5 [].

(* Source of type A, held through a bound variable: the pinned branch gives it
   tf:type A but no tf:subtypeOf at all; the repaired one gives subtypeOf A *)
Theorem source_pinned_refuted :
  exists st st',
    annot_src_pinned pSw pL pNs pCanon (csup pH pCanon) TRoot (TEn 0) pA true
      (tinit pSw pL pNs pCanon) = Some st /\
    annot_src pSw pL pNs pCanon (csup pH pCanon) TRoot (TEn 0) pA
      (tinit pSw pL pNs pCanon) = Some st' /\
    In pA pCanon /\
    In (TEn 0, PType, TUri [101; 58; 65]) (t_tr st) /\
    (forall o, ~ In (TEn 0, PSubtypeOf, o) (t_tr st)) /\
    In (TEn 0, PSubtypeOf, TUri [101; 58; 65]) (t_tr st').
Proof.
  eexists. eexists. split; [vm_compute; reflexivity|]. split; [vm_compute; reflexivity|].
  split; [now left|]. split; [cbn; auto|]. split.
  - intros o Hx. cbn in Hx. repeat (destruct Hx as [Hx|Hx]; [discriminate Hx|]). destruct Hx.
  - cbn. auto.
Qed.
