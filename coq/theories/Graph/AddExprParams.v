(* Graph/AddExprParams.v -- C08 on the larger domain in which a function-typed
   PARAMETER of an enclosing abstraction may be handed on as an argument
   (graph.py at a4e52c5 decides "is a function" on the followed type, so such a
   parameter gets an internal node like any passed operation; add_expr on the
   parameter returns the memoised internal node of the enclosing abstraction,
   which is then fed by the new internal node).

   Purely additive: [shape], [wfb], [Post] and every lemma of AddExprProofs.v
   keep their statements (C12, C07, C19 build on them).  Here:
     wfp     = wfb + "a function-typed argument may also be a parameter in scope"
     shapep  = shape with the passed-function constructor for any non-abstraction
     the same theorem (add_expr = flow of the application tree) for wfp.       *)
From Coq Require Import List Arith Bool Lia.
Import ListNotations.
From TF Require Import Graph.AddExpr Graph.AddExprSpec Graph.AddExprProofs.

Definition is_var (e : expr) : bool := match e with EVar _ => true | _ => false end.

Fixpoint wfp (vs : list nat) (e : expr) : bool :=
  match e with
  | ESrc _ => true
  | EVar v => memb v vs
  | EOp _ _ => true
  | EApp _ f x fn =>
      is_spine f && wfp vs f &&
      (if fn then
         match x with
         | EAbs _ ps b => forallb (fun p => negb (memb p vs)) ps && wfp (ps ++ vs) b
         | _ => (is_spine x || is_var x) && wfp vs x
         end
       else wfp vs x)
  | EAbs _ _ _ => false
  end.

Inductive shapep (sm : nat -> option node) : env -> expr -> lx -> Prop :=
| shp_src en i n : sm i = Some n -> shapep sm en (ESrc i) (LLeaf n)
| shp_var en i n : env_find i en = Some n -> shapep sm en (EVar i) (LLeaf n)
| shp_op en i o c : shapep sm en (EOp i o) (LSpine c o [])
| shp_data en i f x c o args Lx :
    shapep sm en f (LSpine c o args) -> shapep sm en x Lx ->
    shapep sm en (EApp i f x false) (LSpine c o (args ++ [(AData, Lx)]))
| shp_fun en i f x c o args iN Lx :
    shapep sm en f (LSpine c o args) -> is_abs x = false -> shapep sm en x Lx ->
    shapep sm en (EApp i f x true) (LSpine c o (args ++ [(AFun iN, Lx)]))
| shp_abs en i f j ps b c o args iN Lb :
    shapep sm en f (LSpine c o args) -> shapep sm (env_bind ps iN en) b Lb ->
    shapep sm en (EApp i f (EAbs j ps b) true) (LSpine c o (args ++ [(AAbs iN, Lb)])).

(* the old domain and trees are special cases *)
Lemma wfb_wfp_rec e :
  (forall vs, wfb vs e = true -> wfp vs e = true) /\
  (forall j ps b, e = EAbs j ps b -> forall vs, wfb vs b = true -> wfp vs b = true).
Proof.
  induction e as [i | v | i o | i f IHf x IHx fn | j ps b IHb].
  - split; [auto | intros ? ? ? E; discriminate E].
  - split; [auto | intros ? ? ? E; discriminate E].
  - split; [auto | intros ? ? ? E; discriminate E].
  - split; [|intros ? ? ? E; discriminate E].
    destruct IHf as [IHf _]. intros vs; cbn [wfb wfp]. intros H.
    apply andb_true_iff in H. destruct H as [H Hx].
    apply andb_true_iff in H. destruct H as [Hs Hf].
    rewrite Hs, (IHf vs Hf). cbn [andb]. destruct fn; [|now apply (proj1 IHx)].
    destruct x as [xi | xv | xi xo | xi xf xx xfn | xj xps xb].
    + cbn in Hx. discriminate.
    + cbn in Hx. discriminate.
    + apply andb_true_iff in Hx. destruct Hx as [Hsx Hwx]. rewrite Hsx. cbn [orb andb].
      now apply (proj1 IHx).
    + apply andb_true_iff in Hx. destruct Hx as [Hsx Hwx]. rewrite Hsx. cbn [orb andb].
      now apply (proj1 IHx).
    + apply andb_true_iff in Hx. destruct Hx as [Hd Hwb]. rewrite Hd. cbn [andb].
      apply (proj2 IHx xj xps xb eq_refl). exact Hwb.
  - split; [intros vs H; discriminate H|].
    intros j' ps' b' E. injection E as E1 E2 E3. subst. apply IHb.
Qed.

Lemma wfb_wfp vs e : wfb vs e = true -> wfp vs e = true.
Proof. apply (proj1 (wfb_wfp_rec e)). Qed.

Lemma shape_shapep sm en e L : shape sm en e L -> shapep sm en e L.
Proof.
  intros H. induction H.
  - now apply shp_src.
  - now apply shp_var.
  - apply shp_op.
  - now apply shp_data.
  - apply shp_fun; auto.
    match goal with H : shape _ _ ?x (LSpine _ _ _) |- is_abs ?x = false =>
      inversion H; reflexivity end.
  - now apply shp_abs.
Qed.

Lemma shapep_mono sm sm' en e L :
  (forall i n, sm i = Some n -> sm' i = Some n) -> shapep sm en e L -> shapep sm' en e L.
Proof.
  intros Hm H. induction H.
  - apply shp_src. auto.
  - apply shp_var. auto.
  - apply shp_op.
  - apply shp_data; auto.
  - apply shp_fun; auto.
  - apply shp_abs; auto.
Qed.

(* ------------------------------------------------------------------------ *)
(* labelled trees without the "a passed function has a node of its own" condition *)

Lemma In_leaves_spine x c o args :
  In x (leaves (LSpine c o args)) <-> exists a, In a args /\ In x (leaves (snd a)).
Proof. cbn [leaves]. apply in_flat_map. Qed.

Lemma leaves_snoc c o args a :
  leaves (LSpine c o (args ++ [a])) = leaves (LSpine c o args) ++ leaves (snd a).
Proof. cbn [leaves]. rewrite flat_map_app. cbn [flat_map]. now rewrite app_nil_r. Qed.

Lemma anode_names_or_leaves a :
  In (anode a) (names (snd a)) \/ In (anode a) (leaves (snd a)).
Proof. unfold anode. destruct (snd a); cbn; auto. Qed.

(* tf:internal triples start at step nodes only *)
Lemma flow_internal_subj l s j : In (s, p_internal, j) (flow l) -> In s (names l).
Proof.
  induction l as [n | c o args IH] using lx_ind'; intros Ht; [destruct Ht|].
  rewrite Forall_forall in IH.
  apply In_flow_spine in Ht. destruct Ht as [E | [[a [Ha Ht]] | [Ht | [a [Ha Ht]]]]].
  - discriminate E.
  - apply In_arg_edges in Ht.
    destruct Ht as [E | [[i [Hi E]] | [[i [Hi E]] | [i [k [Hi [Hk E]]]]]]]; try discriminate E.
    injection E as -> _. cbn. auto.
  - apply In_cross in Ht. destruct Ht as [a [b [i [_ [_ [_ E]]]]]]. discriminate E.
  - apply In_names_spine. right. exists a. split; [auto|]. right. apply (IH a Ha Ht).
Qed.

Lemma flow_subj_g l t : In t (flow l) -> In (t_subj t) (names l) \/ In (t_subj t) (leaves l).
Proof.
  induction l as [n | c o args IH] using lx_ind'; intros Ht; [destruct Ht|].
  rewrite Forall_forall in IH.
  apply In_flow_spine in Ht. destruct Ht as [-> | [[a [Ha Ht]] | [Ht | [a [Ha Ht]]]]].
  - left. cbn. auto.
  - apply In_arg_edges in Ht.
    destruct Ht as [-> | [[i [Hi ->]] | [[i [Hi ->]] | [i [j [Hi [Hj ->]]]]]]];
      unfold t_subj; cbn [fst snd].
    + left. cbn. auto.
    + left. cbn. auto.
    + destruct (anode_names_or_leaves a) as [H | H].
      * left. apply In_names_spine. right. exists a. auto.
      * right. apply In_leaves_spine. exists a. auto.
    + left. apply In_names_spine. right. exists a. split; [auto|]. right.
      now apply linternals_names.
  - apply In_cross in Ht. destruct Ht as [a [b [i [Ha [Hb [Hi ->]]]]]].
    unfold t_subj; cbn [fst snd]. left. apply In_names_spine. right. exists a. auto.
  - destruct (IH a Ha Ht) as [H | H].
    + left. apply In_names_spine. right. exists a. auto.
    + right. apply In_leaves_spine. exists a. auto.
Qed.

Lemma flow_own_g c o args t :
  NoDup (names (LSpine c o args)) -> ~ In c (leaves (LSpine c o args)) ->
  In t (flow (LSpine c o args)) -> t_subj t = c ->
  t = (c, p_via, o) \/ (exists a, In a args /\ t = (c, p_from, anode a)) \/
  (exists a i, In a args /\ In i (aint a) /\ t = (c, p_internal, i)).
Proof.
  intros Hnd Hnl Ht Hs.
  assert (Hc : forall a x, In a args -> In x (kint (fst a)) \/ In x (names (snd a)) -> x <> c).
  { intros a x Ha Hx ->. cbn [names] in Hnd. apply NoDup_cons_iff in Hnd.
    destruct Hnd as [Hn _]. apply Hn. apply in_flat_map. exists a. split; [auto|].
    apply in_app_iff. exact Hx. }
  assert (Hl : forall a x, In a args -> In x (leaves (snd a)) -> x <> c).
  { intros a x Ha Hx ->. apply Hnl. apply In_leaves_spine. exists a. auto. }
  apply In_flow_spine in Ht. destruct Ht as [-> | [[a [Ha Ht]] | [Ht | [a [Ha Ht]]]]].
  - auto.
  - apply In_arg_edges in Ht.
    destruct Ht as [-> | [[i [Hi ->]] | [[i [Hi ->]] | [i [j [Hi [Hj ->]]]]]]];
      unfold t_subj in Hs; cbn [fst snd] in Hs.
    + right. left. exists a. auto.
    + right. right. exists a, i. auto.
    + exfalso. destruct (anode_names_or_leaves a) as [H | H].
      * apply (Hc a (anode a) Ha); auto.
      * apply (Hl a (anode a) Ha); auto.
    + exfalso. apply (Hc a j Ha); [|exact Hs]. right. now apply linternals_names.
  - apply In_cross in Ht. destruct Ht as [a [b [i [Ha [Hb [Hi ->]]]]]].
    unfold t_subj in Hs; cbn [fst snd] in Hs. exfalso. apply (Hc a i Ha); auto.
  - exfalso. destruct (flow_subj_g _ _ Ht) as [H | H].
    + apply (Hc a (t_subj t) Ha); auto.
    + apply (Hl a (t_subj t) Ha); auto.
Qed.

Lemma flow_own_internal_n c o args j :
  NoDup (names (LSpine c o args)) ->
  (In (c, p_internal, j) (flow (LSpine c o args)) <-> In j (flat_map aint args)).
Proof.
  intros Hnd. split.
  - intros Ht. apply In_flow_spine in Ht.
    destruct Ht as [E | [[a [Ha Ht]] | [Ht | [a [Ha Ht]]]]].
    + discriminate E.
    + apply In_arg_edges in Ht.
      destruct Ht as [E | [[i [Hi E]] | [[i [Hi E]] | [i [k [Hi [Hk E]]]]]]]; try discriminate E.
      injection E as ->. apply in_flat_map. exists a. auto.
    + apply In_cross in Ht. destruct Ht as [a [b [i [_ [_ [_ E]]]]]]. discriminate E.
    + exfalso. apply flow_internal_subj in Ht. cbn [names] in Hnd.
      apply NoDup_cons_iff in Hnd. destruct Hnd as [Hn _]. apply Hn.
      apply in_flat_map. exists a. split; [auto|]. apply in_app_iff. auto.
  - intros H. apply in_flat_map in H. destruct H as [a [Ha Hj]].
    apply In_flow_spine. right. left. exists a. split; [auto|].
    unfold arg_edges. unfold aint in Hj. destruct (fst a) as [|i|i]; cbn [kint In] in *.
    + destruct Hj.
    + destruct Hj as [<- | []]. auto.
    + destruct Hj as [<- | []]. auto.
Qed.

Lemma flow_own_from_g c o args y :
  NoDup (names (LSpine c o args)) -> ~ In c (leaves (LSpine c o args)) ->
  (In (c, p_from, y) (flow (LSpine c o args)) <-> exists b, In b args /\ y = anode b).
Proof.
  intros Hnd Hnl. split.
  - intros H. destruct (flow_own_g _ _ _ _ Hnd Hnl H eq_refl) as [E | [[a [Ha E]] | [a [i [Ha [Hi E]]]]]].
    + discriminate E.
    + injection E as ->. exists a. auto.
    + discriminate E.
  - intros [b [Hb ->]]. apply In_flow_spine. right. left. exists b. split; [auto|].
    unfold arg_edges. cbn [In]. auto.
Qed.

(* ------------------------------------------------------------------------ *)
(* the recursion again, on the larger domain *)

Record PostG (vs : list nat) (en : env) (e : expr) (c : node) (st : gstate) (L : lx) (st' : gstate)
    : Prop := mkPostG {
  q_shape : shapep (srcmap (g_memo st')) en e L;
  q_veq : veq (g_tr st') (flow L ++ g_tr st);
  q_names : forall x, In x (names L) -> x = c \/ (g_next st <= x < g_next st');
  q_spine : is_spine e = true -> exists o args, L = LSpine c o args;
  q_leaf : forall n, L = LLeaf n -> exists k, In (k, n) (g_memo st');
  q_nodup : NoDup (names L);
  q_inv : Inv st';
  q_next : g_next st <= g_next st';
  q_vars : forall v, memb v vs = true ->
             memo_find (1, v) (g_memo st') = memo_find (1, v) (g_memo st);
  q_srcs : forall i n, memo_find (0, i) (g_memo st) = Some n ->
             memo_find (0, i) (g_memo st') = Some n;
  q_new : forall k n, In (k, n) (g_memo st') ->
             In (k, n) (g_memo st) \/ g_next st <= n \/ (n = c /\ L = LLeaf c);
  q_srcnames : forall k n, In (k, n) (g_memo st') -> fst k = 0 -> ~ In n (names L);
  (* every leaf of the tree is a memoised node (source, or internal node bound to a parameter) *)
  q_leaves : forall n, In n (leaves L) -> exists k, In (k, n) (g_memo st');
  q_mono : forall k n, In (k, n) (g_memo st) -> In (k, n) (g_memo st')
}.

Section MainG.
  Variable add_from : node -> node -> list triple -> list triple.
  Hypothesis Hok : add_from_ok add_from.

  Lemma tail_step_g c o args a tr0 tr1 tr5 G n1 :
    veq tr1 (flow (LSpine c o args) ++ tr0) ->
    NoDup (names (LSpine c o args)) ->
    ~ In c (leaves (LSpine c o args)) -> ~ In c (leaves (snd a)) ->
    (forall x, In x (names (LSpine c o args)) -> x < n1) ->
    (forall t, In t tr0 -> vis t -> t_subj t <> c /\ t_subj t < n1) ->
    veq tr5 (flow (snd a) ++ map (fun i => (c, p_internal, i)) (aint a) ++ tr1) ->
    NoDup (names (snd a)) ->
    (forall x, In x (names (snd a)) -> n1 <= x) ->
    (forall i, In i (aint a) -> i = n1) ->
    (forall n, snd a = LLeaf n -> forall j, ~ In (n, p_internal, j) tr5) ->
    veq G (pre_from a ++ tr5) ->
    veq (wire add_from false c (anode a) (ci_of a) G) (flow (LSpine c o (args ++ [a])) ++ tr0).
  Proof.
    intros H1 Hnd HlF HlX Hnf H0 H5 Hndx Hnx Hai Hleaf HG.
    assert (HsX : forall t, In t (flow (snd a)) -> t_subj t <> c).
    { intros t Ht E. destruct (flow_subj_g _ _ Ht) as [F | F]; rewrite E in F.
      - apply Hnx in F. assert (c < n1) by (apply Hnf; cbn; auto). lia.
      - exact (HlX F). }
    assert (Hc : c < n1) by (apply Hnf; cbn; auto).
    assert (HcX : ~ In c (names (snd a))) by (intros F; apply Hnx in F; lia).
    (* membership in G of a visible triple *)
    assert (HGin : forall t, vis t ->
      (In t G <-> In t (pre_from a) \/ In t (flow (snd a)) \/
                  In t (map (fun i => (c, p_internal, i)) (aint a)) \/
                  In t (flow (LSpine c o args)) \/ In t tr0)).
    { intros t Hv. rewrite (HG t Hv), in_app_iff, (H5 t Hv), !in_app_iff, (H1 t Hv), in_app_iff.
      tauto. }
    apply (wire_snoc add_from Hok); auto.
    - (* internal nodes attached to c *)
      intros j. rewrite (HGin _ (vis_internal c j)). split.
      + intros [H | [H | [H | [H | H]]]].
        * unfold pre_from in H. destruct (fst a); cbn [In] in H; try tauto.
          destruct H as [E | []]. discriminate E.
        * exfalso. apply (HsX _ H). reflexivity.
        * apply in_map_iff in H. destruct H as [i [[= ->] Hi]]. auto.
        * right. now apply (flow_own_internal_n c o args j Hnd).
        * exfalso. apply (H0 _ H (vis_internal c j)). reflexivity.
      + intros [H | H].
        * right. right. left. apply in_map_iff. exists j. auto.
        * right. right. right. left. now apply (flow_own_internal_n c o args j Hnd).
    - (* inputs of c *)
      intros y. rewrite (HGin _ (vis_from c y)). split.
      + intros [H | [H | [H | [H | H]]]].
        * exfalso. unfold pre_from in H. destruct (fst a) as [|i|i] eqn:Ek; cbn [In] in H; try tauto.
          destruct H as [E | []]. injection E as E1 E2.
          destruct (anode_names_or_leaves a) as [F | F]; rewrite E1 in F; [exact (HcX F) | exact (HlX F)].
        * exfalso. apply (HsX _ H). reflexivity.
        * apply in_map_iff in H. destruct H as [i [E _]]. discriminate E.
        * now apply (flow_own_from_g c o args y Hnd HlF).
        * exfalso. apply (H0 _ H (vis_from c y)). reflexivity.
      + intros H. right. right. right. left. now apply (flow_own_from_g c o args y Hnd HlF).
    - (* internal nodes attached to the argument's node *)
      intros j. unfold anode. destruct (snd a) as [n | cx ox argsx] eqn:Ex; cbn [lnode linternals].
      + split; [|intros []]. intros H. exfalso.
        assert (Hv := vis_internal n j).
        apply (HG _ Hv) in H. apply in_app_iff in H. destruct H as [H | H].
        * unfold pre_from in H. destruct (fst a); cbn [In] in H; try tauto.
          destruct H as [E | []]. discriminate E.
        * apply (Hleaf n eq_refl j H).
      + assert (Hcx : n1 <= cx) by (apply Hnx; cbn; auto).
        rewrite (HGin _ (vis_internal cx j)). split.
        * intros [H | [H | [H | [H | H]]]].
          -- unfold pre_from in H. destruct (fst a); cbn [In] in H; try tauto.
             destruct H as [E | []]. discriminate E.
          -- now apply (flow_own_internal_n cx ox argsx j Hndx).
          -- apply in_map_iff in H. destruct H as [i [[= -> ->] _]]. lia.
          -- apply flow_internal_subj in H. apply Hnf in H. lia.
          -- apply H0 in H; [|apply vis_internal]. unfold t_subj in H. cbn [fst snd] in H. lia.
        * intros H. right. left. now apply (flow_own_internal_n cx ox argsx j Hndx).
    - intros i Hi Hi'. apply Hai in Hi. subst i.
      assert (In n1 (names (LSpine c o args))).
      { apply in_flat_map in Hi'. destruct Hi' as [b [Hb Hi']].
        apply In_names_spine. right. exists b. auto. }
      apply Hnf in H. lia.
    - intros t Hv. rewrite (HGin t Hv), !in_app_iff.
      assert (E : In t (pre_edges c a) <->
                  In t (pre_from a) \/ In t (map (fun i => (c, p_internal, i)) (aint a))).
      { unfold pre_edges, pre_from, aint. destruct (fst a); cbn [kint map In]; tauto. }
      rewrite E. tauto.
  Qed.


  Lemma app_tail_g vs en f c st o args st1 (a : akind * lx) vsx enx ex xc ss se G :
    cur_ok c st -> Inv st ->
    PostG vs en f c st (LSpine c o args) st1 ->
    PostG vsx enx ex xc ss (snd a) se ->
    (forall v, memb v vs = true -> memb v vsx = true) ->
    g_tr ss = map (fun i => (c, p_internal, i)) (aint a) ++ g_tr st1 ->
    g_next st1 <= xc -> xc < g_next ss ->
    (forall i, In i (aint a) -> i = g_next st1 /\ i < xc) ->
    (forall k n, In (k, n) (g_memo ss) ->
       In (k, n) (g_memo st1) \/ (fst k = 1 /\ g_next st1 <= n)) ->
    (forall v, memb v vs = true ->
       memo_find (1, v) (g_memo ss) = memo_find (1, v) (g_memo st1)) ->
    (forall i, memo_find (0, i) (g_memo ss) = memo_find (0, i) (g_memo st1)) ->
    (forall k n, In (k, n) (g_memo st1) -> In (k, n) (g_memo ss)) ->
    veq G (pre_from a ++ g_tr se) ->
    (forall s j, In (s, p_internal, j) G <-> In (s, p_internal, j) (g_tr se)) ->
    forall e', shapep (srcmap (g_memo se)) en e' (LSpine c o (args ++ [a])) ->
    PostG vs en e' c st (LSpine c o (args ++ [a]))
      (mkG (wire add_from false c (anode a) (ci_of a) G) (g_memo se) (g_next se)).
  Proof.
    intros Hcur Hinv Pf Px Hvs Htr Hxc1 Hxc2 Hai Hmemo Hmv Hms Hmono HG HGi e' Hsh'.
    destruct Pf as [Fsh Fveq Fnames Fspine Fleaf Fnd Finv Fnext Fvars Fsrcs Fnew Fsn Flv Fmono].
    destruct Px as [Xsh Xveq Xnames Xspine Xleaf Xnd Xinv Xnext Xvars Xsrcs Xnew Xsn Xlv Xmono].
    destruct Hcur as [Hc1 [Hc2 Hc3]].
    destruct Hinv as [I1 [I2 I3]].
    assert (Hcse : forall k, ~ In (k, c) (g_memo se)).
    { intros k Hk. destruct (Xnew k c Hk) as [H | [H | [H _]]]; [|lia|lia].
      destruct (Hmemo k c H) as [H' | [_ H']]; [|lia].
      destruct (Fnew k c H') as [H'' | [H'' | [_ H'']]]; [apply (Hc3 _ H'') | lia | discriminate H'']. }
    assert (Hc1m : forall k, ~ In (k, c) (g_memo st1)).
    { intros k Hk. apply (Hcse k). apply Xmono. apply Hmono. exact Hk. }
    assert (HlF : ~ In c (leaves (LSpine c o args))).
    { intros F. destruct (Flv c F) as [k Hk]. apply (Hc1m k Hk). }
    assert (HlX : ~ In c (leaves (snd a))).
    { intros F. destruct (Xlv c F) as [k Hk]. apply (Hcse k Hk). }
    assert (HnF : forall x, In x (names (LSpine c o args)) -> x < g_next st1).
    { intros x Hx. destruct (Fnames x Hx); lia. }
    assert (HnX : forall x, In x (names (snd a)) -> xc <= x /\ x < g_next se).
    { intros x Hx. destruct (Xnames x Hx); lia. }
    assert (Hkint : forall x, In x (kint (fst a)) -> x = g_next st1 /\ x < xc).
    { intros x Hx. apply Hai. exact Hx. }
    set (L' := LSpine c o (args ++ [a])).
    set (st' := mkG (wire add_from false c (anode a) (ci_of a) G) (g_memo se) (g_next se)).
    assert (Hveq' : veq (g_tr st') (flow L' ++ g_tr st)).
    { unfold st', L'. cbn [g_tr].
      apply (tail_step_g c o args a (g_tr st) (g_tr st1) (g_tr se) G (g_next st1)); auto.
      - intros t Ht Hv. split; [apply Hc2; auto|]. specialize (I1 t Ht Hv). lia.
      - rewrite <- Htr. exact Xveq.
      - intros x Hx. apply HnX in Hx. lia.
      - intros i Hi. apply Hai in Hi. tauto.
      - intros n Hn j. destruct (Xleaf n Hn) as [k Hk].
        destruct Xinv as [_ [X2 _]]. apply (X2 k n Hk). }
    assert (HlL : forall n, In n (leaves L') -> exists k, In (k, n) (g_memo se)).
    { intros n Hn. unfold L' in Hn. rewrite leaves_snoc in Hn. apply in_app_iff in Hn.
      destruct Hn as [Hn | Hn]; [|apply (Xlv n Hn)].
      destruct (Flv n Hn) as [k Hk]. exists k. apply Xmono. apply Hmono. exact Hk. }
    assert (HnL : forall x, In x (names L') -> x = c \/ (g_next st <= x < g_next se)).
    { intros x Hx. unfold L' in Hx. rewrite names_snoc in Hx.
      apply in_app_iff in Hx. destruct Hx as [Hx | Hx].
      - destruct (Fnames x Hx); [auto | right; lia].
      - apply in_app_iff in Hx. destruct Hx as [Hx | Hx].
        + apply Hkint in Hx. right. lia.
        + apply HnX in Hx. right. lia. }
    constructor.
    - exact Hsh'.
    - exact Hveq'.
    - exact HnL.
    - intros _. exists o, (args ++ [a]). reflexivity.
    - intros n E. discriminate E.
    - fold L'. unfold L'. rewrite names_snoc. apply NoDup_app_intro; [exact Fnd | |].
      + apply NoDup_app_intro; [| exact Xnd |].
        * destruct (fst a); cbn [kint]; repeat constructor; intros [].
        * intros x Hx Hx'. apply Hkint in Hx. apply HnX in Hx'. lia.
      + intros x Hx Hx'. apply HnF in Hx. apply in_app_iff in Hx'. destruct Hx' as [Hx' | Hx'].
        * apply Hkint in Hx'. lia.
        * apply HnX in Hx'. lia.
    - (* Inv *)
      fold st'. split; [|split].
      + intros t Ht Hv. apply (Hveq' t Hv) in Ht. apply in_app_iff in Ht.
        unfold st'. cbn [g_next]. destruct Ht as [Ht | Ht].
        * destruct (flow_subj_g _ _ Ht) as [Hs | Hs].
          -- destruct (HnL _ Hs); lia.
          -- destruct (HlL _ Hs) as [k Hk]. destruct Xinv as [_ [X2 _]].
             destruct (X2 k _ Hk) as [Hlt _]. exact Hlt.
        * specialize (I1 t Ht Hv). lia.
      + intros k n Hk. unfold st' in *. cbn [g_memo g_next g_tr] in *.
        destruct Xinv as [_ [X2 _]]. destruct (X2 k n Hk) as [Hn [Htag Hni]].
        split; [exact Hn|]. split; [exact Htag|].
        intros j Hj. apply (wire_internal add_from Hok) in Hj. apply HGi in Hj. apply (Hni j Hj).
      + unfold st'. cbn [g_memo]. destruct Xinv as [_ [_ X3]]. exact X3.
    - unfold st'. cbn [g_next]. lia.
    - intros v Hv. unfold st'. cbn [g_memo]. rewrite (Xvars v (Hvs v Hv)), (Hmv v Hv). apply Fvars. exact Hv.
    - intros i n Hn. unfold st'. cbn [g_memo]. apply Xsrcs. rewrite Hms. apply Fsrcs. exact Hn.
    - intros k n Hk. unfold st' in Hk. cbn [g_memo] in Hk. destruct (Xnew k n Hk) as [H | [H | [H _]]].
      + destruct (Hmemo k n H) as [H' | [_ H']].
        * destruct (Fnew k n H') as [H'' | [H'' | [_ H'']]]; [auto | auto | discriminate H''].
        * right. left. lia.
      + right. left. lia.
      + right. left. lia.
    - intros k n Hk Htag. unfold st' in Hk. cbn [g_memo] in Hk. unfold L'. rewrite names_snoc.
      rewrite !in_app_iff.
      destruct (Xnew k n Hk) as [H | H].
      + destruct (Hmemo k n H) as [H' | [H' _]]; [|lia].
        destruct Finv as [_ [F2 _]]. destruct (F2 k n H') as [Hn _].
        intros [Hx | [Hx | Hx]].
        * apply (Fsn k n H' Htag Hx).
        * apply Hkint in Hx. lia.
        * apply HnX in Hx. lia.
      + assert (Hn : xc <= n) by (destruct H as [H | [H _]]; lia).
        intros [Hx | [Hx | Hx]].
        * apply HnF in Hx. lia.
        * apply Hkint in Hx. lia.
        * apply (Xsn k n Hk Htag Hx).
    - exact HlL.
    - intros k n Hk. unfold st'. cbn [g_memo]. apply Xmono. apply Hmono. apply Fmono. exact Hk.
  Qed.
End MainG.

Lemma post_hit_g vs en e c st n :
  Inv st -> shapep (srcmap (g_memo st)) en e (LLeaf n) -> (exists k, In (k, n) (g_memo st)) ->
  is_spine e = false -> PostG vs en e c st (LLeaf n) st.
Proof.
  intros Hinv Hsh Hk Hsp. constructor; auto.
  - cbn [flow app]. apply veq_refl.
  - intros x [].
  - rewrite Hsp. discriminate.
  - intros n' [= <-]. exact Hk.
  - constructor.
  - intros n' [<- | []]. exact Hk.
Qed.


Section RecG.
  Variable add_from : node -> node -> list triple -> list triple.
  Hypothesis Hok : add_from_ok add_from.

  Definition MainStmtG (e : expr) : Prop :=
    forall vs en c st, wfp vs e = true -> Inv st -> cur_ok c st -> env_ok vs en (g_memo st) ->
    exists L st', add_expr add_from false e (Some c) st = Some (lnode L, st') /\
                  PostG vs en e c st L st'.

  Lemma main_rec_g e : MainStmtG e /\ (forall j ps b, e = EAbs j ps b -> MainStmtG b).
  Proof.
    induction e as [i | v | i o | i f IHf x IHx fn | j ps b IHb].
    - (* ESrc *)
      split; [|intros ? ? ? E; discriminate E].
      intros vs en c st _ Hinv Hcur Henv. cbn [add_expr key_of].
      destruct (memo_find (0, i) (g_memo st)) as [n|] eqn:Em.
      + exists (LLeaf n), st. split; [reflexivity|]. apply post_hit_g; auto.
        * apply shp_src. exact Em.
        * exists (0, i). now apply memo_find_In.
      + exists (LLeaf c), (set_memo (0, i) c st). split; [reflexivity|].
        destruct Hinv as [I1 [I2 I3]]. destruct Hcur as [Hc1 [Hc2 Hc3]].
        constructor; unfold set_memo; cbn [g_tr g_memo g_next].
        * apply shp_src. unfold srcmap. cbn [memo_find]. now rewrite key_eqb_refl.
        * cbn [flow app]. apply veq_refl.
        * intros x [].
        * cbn. discriminate.
        * intros n [= <-]. exists (0, i). cbn. auto.
        * constructor.
        * unfold Inv. cbn [g_tr g_memo g_next]. split; [exact I1|]. split.
          -- intros k n [[= <- <-] | Hk].
             ++ split; [exact Hc1|]. split; [cbn; auto|].
                intros j Hj. apply (Hc2 _ Hj (vis_internal c j)). reflexivity.
             ++ apply I2. exact Hk.
          -- intros i1 i2 n. cbn [memo_find].
             destruct (key_eqb (0, i1) (0, i)) eqn:E1; destruct (key_eqb (0, i2) (0, i)) eqn:E2.
             ++ apply key_eqb_eq in E1. apply key_eqb_eq in E2. congruence.
             ++ intros [= <-] H2. apply memo_find_In in H2. exfalso. apply (Hc3 _ H2).
             ++ intros H1 [= <-]. apply memo_find_In in H1. exfalso. apply (Hc3 _ H1).
             ++ apply I3.
        * lia.
        * intros v _. cbn [memo_find]. unfold key_eqb. cbn. reflexivity.
        * intros i' n Hn. cbn [memo_find]. destruct (key_eqb (0, i') (0, i)) eqn:E; [|exact Hn].
          apply key_eqb_eq in E. injection E as ->. rewrite Em in Hn. discriminate.
        * intros k n [[= <- <-] | Hk]; auto.
        * intros k n _ _ [].
        * intros n [<- | []]. exists (0, i). cbn. auto.
        * intros k n Hk. cbn. auto.
    - (* EVar *)
      split; [|intros ? ? ? E; discriminate E].
      intros vs en c st Hwf Hinv Hcur Henv. cbn [wfp] in Hwf.
      destruct (Henv v Hwf) as [n [He Hm]]. cbn [add_expr key_of]. rewrite Hm.
      exists (LLeaf n), st. split; [reflexivity|]. apply post_hit_g; auto.
      + apply shp_var. exact He.
      + exists (1, v). now apply memo_find_In.
    - (* EOp *)
      split; [|intros ? ? ? E; discriminate E].
      intros vs en c st _ Hinv Hcur Henv. cbn [add_expr key_of].
      destruct Hinv as [I1 [I2 I3]]. destruct Hcur as [Hc1 [Hc2 Hc3]].
      rewrite (memo_find_tag (2, i) (g_memo st)); [|intros k n Hk; apply (I2 k n Hk)|cbn; lia].
      exists (LSpine c o []), (add_tr (c, p_via, o) st). split; [reflexivity|].
      constructor; unfold add_tr; cbn [g_tr g_memo g_next].
      + apply shp_op.
      + cbn. apply veq_refl.
      + intros x [<- | []]. auto.
      + intros _. exists o, []. reflexivity.
      + intros n E. discriminate E.
      + cbn. repeat constructor. intros [].
      + unfold Inv. cbn [g_tr g_memo g_next]. split; [|split].
        * intros t [<- | Ht] Hv; [exact Hc1 | apply I1; auto].
        * intros k n Hk. destruct (I2 k n Hk) as [A [B C]]. split; [exact A|]. split; [exact B|].
          intros j [E | Hj]; [discriminate E | apply (C j Hj)].
        * exact I3.
      + lia.
      + reflexivity.
      + auto.
      + auto.
      + intros k n Hk _ [<- | []]. apply (Hc3 _ Hk).
      + intros n [].
      + auto.
    - (* EApp *)
      split; [|intros ? ? ? E; discriminate E].
      destruct IHf as [IHf _].
      intros vs en c st Hwf Hinv Hcur Henv. cbn [wfp] in Hwf.
      apply andb_true_iff in Hwf. destruct Hwf as [Hwf Hwx].
      apply andb_true_iff in Hwf. destruct Hwf as [Hspf Hwf].
      cbn [add_expr key_of].
      assert (Htag : forall k n, In (k, n) (g_memo st) -> fst k = 0 \/ fst k = 1).
      { intros k n Hk. destruct Hinv as [_ [I2 _]]. apply (I2 k n Hk). }
      rewrite (memo_find_tag (3, i) (g_memo st) Htag); [|cbn; lia].
      rewrite (is_spine_not_abs f Hspf).
      destruct (IHf vs en c st Hwf Hinv Hcur Henv) as [Lf [st1 [Ef Pf]]].
      destruct (q_spine _ _ _ _ _ _ _ Pf Hspf) as [o [args ->]].
      cbn [lnode] in Ef. rewrite Ef.
      assert (Hinv1 := q_inv _ _ _ _ _ _ _ Pf).
      assert (Hnext1 := q_next _ _ _ _ _ _ _ Pf).
      assert (Hc1 : c < g_next st) by apply Hcur.
      assert (Hcm1 : forall k, ~ In (k, c) (g_memo st1)).
      { intros k Hk. destruct (q_new _ _ _ _ _ _ _ Pf k c Hk) as [H | [H | [_ H]]].
        - destruct Hcur as [_ [_ Hc3]]. apply (Hc3 _ H).
        - lia.
        - discriminate H. }
      assert (Henv1 : env_ok vs en (g_memo st1)).
      { intros v Hv. destruct (Henv v Hv) as [n [A B]]. exists n. split; [exact A|].
        rewrite (q_vars _ _ _ _ _ _ _ Pf v Hv). exact B. }
      destruct fn.
      + (* a function is passed *)
        cbn [fresh fst snd].
        set (iN := g_next st1).
        set (st3 := add_tr (c, p_internal, iN) (mkG (g_tr st1) (g_memo st1) (S (g_next st1)))).
        assert (Hinv3 : Inv st3).
        { destruct Hinv1 as [I1 [I2 I3]]. unfold st3, add_tr, Inv. cbn [g_tr g_memo g_next].
          split; [|split].
          - intros t [<- | Ht] Hv; [unfold t_subj; cbn; lia | specialize (I1 t Ht Hv); lia].
          - intros k n Hk. destruct (I2 k n Hk) as [A [B C]]. split; [lia|]. split; [exact B|].
            intros j [E | Hj]; [|apply (C j Hj)]. injection E as -> _. apply (Hcm1 _ Hk).
          - exact I3. }
        destruct (is_abs x) eqn:Eabs.
        * (* an abstraction *)
          destruct x as [| | | |jx psx bx]; try discriminate Eabs.
          destruct IHx as [_ IHb]. specialize (IHb jx psx bx eq_refl).
          apply andb_true_iff in Hwx. destruct Hwx as [Hdisj Hwb].
          assert (Hnotin : forall v, memb v vs = true -> memb v psx = false).
          { intros v Hv. destruct (memb v psx) eqn:E; [|reflexivity]. exfalso.
            unfold memb in E. apply existsb_exists in E. destruct E as [p [Hp Hvp]].
            apply Nat.eqb_eq in Hvp. subst p. rewrite forallb_forall in Hdisj.
            specialize (Hdisj v Hp). rewrite Hv in Hdisj. discriminate. }
          cbn [bind_params fresh fst snd].
          set (st5 := mkG (g_tr st3) (map (fun p => ((1, p), iN)) psx ++ g_memo st3) (S (g_next st3))).
          assert (Hg3 : g_next st3 = S (g_next st1)) by reflexivity.
          assert (Hinv5 : Inv st5).
          { destruct Hinv3 as [I1 [I2 I3]]. unfold st5, Inv. cbn [g_tr g_memo g_next].
            split; [|split].
            - intros t Ht Hv. specialize (I1 t Ht Hv). lia.
            - intros k n Hk. apply in_app_iff in Hk. destruct Hk as [Hk | Hk].
              + apply in_map_iff in Hk. destruct Hk as [p [[= <- <-] _]].
                split; [unfold iN; lia|]. split; [cbn; auto|].
                intros j [E | Hj].
                * injection E as E1 _. unfold iN in E1. lia.
                * destruct Hinv1 as [J1 _]. specialize (J1 _ Hj (vis_internal iN j)).
                  unfold t_subj, iN in J1. cbn [fst snd] in J1. lia.
              + destruct (I2 k n Hk) as [A [B C]]. split; [lia|]. split; [exact B | exact C].
            - intros i1 i2 n. rewrite !memo_find_bind. cbn [fst snd Nat.eqb andb]. apply I3. }
          assert (Hcur5 : cur_ok (g_next st3) st5).
          { destruct Hinv3 as [I1 [I2 I3]]. unfold st5, cur_ok. cbn [g_tr g_memo g_next].
            split; [lia|]. split.
            - intros t Ht Hv. specialize (I1 t Ht Hv). lia.
            - intros k Hk. apply in_app_iff in Hk. destruct Hk as [Hk | Hk].
              + apply in_map_iff in Hk. destruct Hk as [p [[= _ E] _]]. unfold iN in E. lia.
              + destruct (I2 k _ Hk) as [A _]. lia. }
          assert (Henv5 : env_ok (psx ++ vs) (env_bind psx iN en) (g_memo st5)).
          { intros v Hv. unfold st5. cbn [g_memo]. rewrite env_find_bind, memo_find_bind.
            cbn [fst snd Nat.eqb andb]. rewrite memb_app in Hv.
            destruct (memb v psx) eqn:E.
            - exists iN. auto.
            - cbn [orb] in Hv. apply (Henv1 v Hv). }
          destruct (IHb (psx ++ vs) (env_bind psx iN en) (g_next st3) st5 Hwb Hinv5 Hcur5 Henv5)
            as [Lb [se [Eb Pb]]].
          match goal with |- context [add_expr add_from false bx ?u ?w] =>
            change (add_expr add_from false bx u w)
              with (add_expr add_from false bx (@Some node (g_next st3)) st5) end.
          rewrite Eb.
          exists (LSpine c o (args ++ [(AAbs iN, Lb)])),
                 (mkG (wire add_from false c (lnode Lb) (Some iN) (g_tr se)) (g_memo se) (g_next se)).
          split; [reflexivity|].
          apply (app_tail_g add_from Hok vs en f c st o args st1 (AAbs iN, Lb) (psx ++ vs)
                   (env_bind psx iN en) bx (g_next st3) st5 se (g_tr se));
            [exact Hcur | exact Hinv | exact Pf | exact Pb | | reflexivity
            | | | | | | | | | |].
          -- intros v Hv. rewrite memb_app, Hv. apply orb_true_r.
          -- rewrite Hg3. lia.
          -- unfold st5. cbn [g_next]. lia.
          -- intros i0 [<- | []]. rewrite Hg3. unfold iN. lia.
          -- intros k n Hk. unfold st5 in Hk. cbn [g_memo] in Hk. apply in_app_iff in Hk.
             destruct Hk as [Hk | Hk]; [|left; exact Hk].
             apply in_map_iff in Hk. destruct Hk as [p [[= <- <-] _]]. right. cbn. unfold iN. lia.
          -- intros v Hv. unfold st5. cbn [g_memo]. rewrite memo_find_bind.
             cbn [fst snd Nat.eqb andb]. rewrite (Hnotin v Hv). reflexivity.
          -- intros i0. unfold st5. cbn [g_memo]. rewrite memo_find_bind. reflexivity.
          -- intros k n Hk. unfold st5. cbn [g_memo]. apply in_app_iff. right. exact Hk.
          -- cbn. apply veq_refl.
          -- intros s j0. tauto.
          -- apply shp_abs.
             ++ apply (shapep_mono (srcmap (g_memo st1))); [|exact (q_shape _ _ _ _ _ _ _ Pf)].
                intros i0 n Hn. unfold srcmap in *. apply (q_srcs _ _ _ _ _ _ _ Pb).
                unfold st5. cbn [g_memo]. rewrite memo_find_bind. exact Hn.
             ++ exact (q_shape _ _ _ _ _ _ _ Pb).
        * (* an operation or a partial application *)
          destruct IHx as [IHx _].
          assert (Hmatch : forall (T : Type) (A : nat -> list nat -> expr -> T) (B : T),
                    match x with
                    | ESrc _ => B | EVar _ => B | EOp _ _ => B | EApp _ _ _ _ => B
                    | EAbs j ps b => A j ps b end = B).
          { intros T A B. destruct x; try reflexivity. discriminate Eabs. }
          rewrite Hmatch in Hwx. rewrite Hmatch.
          apply andb_true_iff in Hwx. destruct Hwx as [Hspx Hwx].
          cbn [fresh fst snd].
          destruct (IHx vs en (g_next st3) (snd (fresh st3)) Hwx (Inv_fresh _ Hinv3)
                      (cur_ok_fresh _ Hinv3) Henv1) as [Lx [se [Ex Px]]].
          match goal with |- context [add_expr add_from false x ?u ?w] =>
            change (add_expr add_from false x u w)
              with (add_expr add_from false x (@Some node (g_next st3)) (snd (fresh st3))) end.
          rewrite Ex.
          exists (LSpine c o (args ++ [(AFun iN, Lx)])),
                 (mkG (wire add_from false c (lnode Lx) (Some iN)
                         (add_from (lnode Lx) iN (g_tr se))) (g_memo se) (g_next se)).
          split; [reflexivity|].
          apply (app_tail_g add_from Hok vs en f c st o args st1
                   (AFun iN, Lx) vs en x (g_next st3)
                   (snd (fresh st3)) se (add_from (lnode Lx) iN (g_tr se)));
            [exact Hcur | exact Hinv | exact Pf | exact Px | auto | reflexivity
            | | | | | | | | | |].
          -- cbn. lia.
          -- cbn. lia.
          -- intros i0 [<- | []]. unfold iN. cbn. lia.
          -- intros k n Hk. left. exact Hk.
          -- reflexivity.
          -- reflexivity.
          -- intros k n Hk. exact Hk.
          -- intros t Hv. rewrite (add_from_in add_from Hok) by exact Hv. cbn.
             split; (intros [E | H]; [left; symmetry; exact E | right; exact H]).
          -- intros s j0. apply (add_from_internal add_from Hok).
          -- apply shp_fun.
             ++ apply (shapep_mono (srcmap (g_memo st1))); [|exact (q_shape _ _ _ _ _ _ _ Pf)].
                intros i0 n Hn. unfold srcmap in *. apply (q_srcs _ _ _ _ _ _ _ Px). exact Hn.
             ++ exact Eabs.
             ++ exact (q_shape _ _ _ _ _ _ _ Px).
      + (* data is passed *)
        destruct IHx as [IHx _].
        cbn [fresh fst snd].
        destruct (IHx vs en (g_next st1) (snd (fresh st1)) Hwx (Inv_fresh _ Hinv1)
                    (cur_ok_fresh _ Hinv1) Henv1) as [Lx [se [Ex Px]]].
        match goal with |- context [add_expr add_from false x ?u ?w] =>
          change (add_expr add_from false x u w)
            with (add_expr add_from false x (@Some node (g_next st1)) (snd (fresh st1))) end.
        rewrite Ex.
        exists (LSpine c o (args ++ [(AData, Lx)])),
               (mkG (wire add_from false c (lnode Lx) None (g_tr se)) (g_memo se) (g_next se)).
        split; [reflexivity|].
        apply (app_tail_g add_from Hok vs en f c st o args st1 (AData, Lx) vs en x (g_next st1)
                 (snd (fresh st1)) se (g_tr se));
          [exact Hcur | exact Hinv | exact Pf | exact Px | auto | reflexivity
          | | | | | | | | | |].
        * lia.
        * cbn. lia.
        * intros i0 [].
        * intros k n Hk. left. exact Hk.
        * reflexivity.
        * reflexivity.
        * intros k n Hk. exact Hk.
        * cbn. apply veq_refl.
        * intros s j0. tauto.
        * apply shp_data.
          -- apply (shapep_mono (srcmap (g_memo st1))); [|exact (q_shape _ _ _ _ _ _ _ Pf)].
             intros i0 n Hn. unfold srcmap in *. apply (q_srcs _ _ _ _ _ _ _ Px). exact Hn.
          -- exact (q_shape _ _ _ _ _ _ _ Px).
    - (* EAbs *)
      split.
      + intros vs en c st Hwf. discriminate Hwf.
      + intros j' ps' b' E. injection E as E1 E2 E3. subst. apply IHb.
  Qed.
End RecG.

(* ------------------------------------------------------------------------ *)
(* exported statements *)

Theorem add_expr_step_g add_from : add_from_ok add_from ->
  forall e vs en c st, wfp vs e = true -> Inv st -> cur_ok c st -> env_ok vs en (g_memo st) ->
  exists L st', add_expr add_from false e (Some c) st = Some (lnode L, st') /\
                PostG vs en e c st L st'.
Proof. intros Hok e. exact (proj1 (main_rec_g add_from Hok e)). Qed.

Theorem add_expr_flow_g add_from : add_from_ok add_from ->
  forall e, wfp [] e = true ->
  exists L st',
    add_expr add_from false e None g_empty = Some (lnode L, st') /\
    shapep (srcmap (g_memo st')) [] e L /\
    NoDup (names L) /\
    (forall i j n, srcmap (g_memo st') i = Some n -> srcmap (g_memo st') j = Some n -> i = j) /\
    (forall i n, srcmap (g_memo st') i = Some n -> ~ In n (names L)) /\
    (forall t, vis t -> (In t (g_tr st') <-> In t (flow L))).
Proof.
  intros Hok e Hwf.
  rewrite add_expr_None_eq by reflexivity.
  destruct (add_expr_step_g add_from Hok e [] [] (g_next g_empty) (snd (fresh g_empty)) Hwf
              (Inv_fresh _ Inv_empty) (cur_ok_fresh _ Inv_empty)) as [L [st' [E P]]].
  { intros v Hv. discriminate Hv. }
  exists L, st'. split; [exact E|].
  destruct P as [Psh Pveq Pnames Pspine Pleaf Pnd Pinv Pnext Pvars Psrcs Pnew Psn Plv Pmono].
  split; [exact Psh|]. split; [exact Pnd|]. split; [apply Pinv|]. split.
  - intros i n Hn. apply (Psn (0, i) n); [|reflexivity]. apply memo_find_In. exact Hn.
  - intros t Hv. rewrite (Pveq t Hv). cbn [fresh snd g_tr g_empty]. rewrite app_nil_r. tauto.
Qed.

(* h9 (\g. h1 g): the function-typed parameter g is handed on to h1.
   0 = h9, 1 = h9's internal node (stands for g), 2 = h1, 3 = h1's internal node:
   h1 takes g's node as input, g's node is fed by h1's internal node, which in
   turn is fed by the enclosing internal node. *)
Definition ex_param : expr :=
  EApp 6 (EOp 0 0) (EAbs 5 [1] (EApp 4 (EOp 2 1) (EVar 1) true)) true.

Example ex_param_domain : wfp [] ex_param = true /\ wfb [] ex_param = false.
Proof. split; reflexivity. Qed.

Example ex_param_graph :
  exists st, add_expr add_from_plain false ex_param None g_empty = Some (0, st) /\
    forall t, In t (g_tr st) <->
      In t [(0, p_via, 0); (2, p_via, 1); (0, p_internal, 1); (2, p_internal, 3);
            (0, p_from, 2); (2, p_from, 1); (1, p_from, 3); (3, p_from, 1)].
Proof.
  eexists. split; [vm_compute; reflexivity|]. intros t. cbn. tauto.
Qed.
