(* Graph/AddExprSpec.v -- the declarative side of property C08.

   [lx]     an application tree whose positions carry node names: one node per
            operator application (spine), per function-typed argument one
            internal node, leaves are the (shared) nodes of sources / bound
            parameters
   [shape]  "L is the application tree of expression e" (which positions exist,
            which leaves are shared); says nothing about how add_expr works
   [flow]   the triples the property prescribes for such a tree, symmetric in the
            order of arguments
   [names]  the node names introduced by a tree (for "one node per ..." =
            NoDup, and "nothing else")
   [wfb]    the expressions the property speaks about                         *)
From Coq Require Import List Arith Bool Lia.
Import ListNotations.
From TF Require Import Graph.AddExpr.

Inductive akind : Type :=
| AData                 (* the argument is data *)
| AFun (iN : node)      (* an operation / partial application is passed; iN = its internal node *)
| AAbs (iN : node).     (* an anonymous function is passed; iN stands for its parameters *)

Inductive lx : Type :=
| LLeaf (n : node)
| LSpine (c : node) (o : nat) (args : list (akind * lx)).

Section lx_ind'.
  Variable P : lx -> Prop.
  Hypothesis HLeaf : forall n, P (LLeaf n).
  Hypothesis HSpine : forall c o args, Forall (fun a => P (snd a)) args -> P (LSpine c o args).
  Fixpoint lx_ind' (l : lx) : P l :=
    match l with
    | LLeaf n => HLeaf n
    | LSpine c o args =>
        HSpine c o args ((fix go (l : list (akind * lx)) : Forall (fun a => P (snd a)) l :=
                            match l with
                            | [] => Forall_nil _
                            | a :: r => Forall_cons a (lx_ind' (snd a)) (go r)
                            end) args)
    end.
End lx_ind'.

Definition lnode (l : lx) : node := match l with LLeaf n => n | LSpine c _ _ => c end.
Definition anode (a : akind * lx) : node := lnode (snd a).
Definition kint (k : akind) : list node :=
  match k with AData => [] | AFun i => [i] | AAbs i => [i] end.
Definition aint (a : akind * lx) : list node := kint (fst a).
(* the internal nodes attached to the step that produces l *)
Definition linternals (l : lx) : list node :=
  match l with LLeaf _ => [] | LSpine _ _ args => flat_map aint args end.

(* edges between a step c and ONE of its arguments *)
Definition arg_edges (c : node) (a : akind * lx) : list triple :=
  (c, p_from, anode a) ::
  match fst a with
  | AData => []
  | AFun i => (c, p_internal, i) :: (anode a, p_from, i)
              :: map (fun j => (j, p_from, i)) (linternals (snd a))
  | AAbs i => (c, p_internal, i)
              :: map (fun j => (j, p_from, i)) (linternals (snd a))
  end.

(* every internal node receives every OTHER argument of the step *)
Fixpoint cross (args : list (akind * lx)) : list triple :=
  match args with
  | [] => []
  | a :: l =>
      flat_map (fun i => map (fun b => (i, p_from, anode b)) l) (aint a)
      ++ flat_map (fun b => map (fun i => (i, p_from, anode a)) (aint b)) l
      ++ cross l
  end.

Fixpoint flow (l : lx) : list triple :=
  match l with
  | LLeaf _ => []
  | LSpine c o args =>
      (c, p_via, o) :: flat_map (arg_edges c) args ++ cross args
      ++ flat_map (fun a => flow (snd a)) args
  end.

(* node names introduced by a tree: its spine nodes and internal nodes *)
Fixpoint names (l : lx) : list node :=
  match l with
  | LLeaf _ => []
  | LSpine c _ args => c :: flat_map (fun a => kint (fst a) ++ names (snd a)) args
  end.

(* leaves of a tree (source nodes and parameter nodes) *)
Fixpoint leaves (l : lx) : list node :=
  match l with
  | LLeaf n => [n]
  | LSpine _ _ args => flat_map (fun a => leaves (snd a)) args
  end.

(* ------------------------------------------------------------------------ *)
(* "L is the application tree of e".  sm: node of each source object;
   env: the internal node each bound parameter stands for *)

Definition env := list (nat * node).
Fixpoint env_find (v : nat) (en : env) : option node :=
  match en with
  | [] => None
  | (w, n) :: r => if Nat.eqb v w then Some n else env_find v r
  end.
Definition env_bind (ps : list nat) (iN : node) (en : env) : env :=
  map (fun p => (p, iN)) ps ++ en.

Inductive shape (sm : nat -> option node) : env -> expr -> lx -> Prop :=
| sh_src en i n : sm i = Some n -> shape sm en (ESrc i) (LLeaf n)
| sh_var en i n : env_find i en = Some n -> shape sm en (EVar i) (LLeaf n)
| sh_op en i o c : shape sm en (EOp i o) (LSpine c o [])
| sh_data en i f x c o args Lx :
    shape sm en f (LSpine c o args) -> shape sm en x Lx ->
    shape sm en (EApp i f x false) (LSpine c o (args ++ [(AData, Lx)]))
| sh_fun en i f x c o args iN cx ox argsx :
    shape sm en f (LSpine c o args) -> shape sm en x (LSpine cx ox argsx) ->
    shape sm en (EApp i f x true) (LSpine c o (args ++ [(AFun iN, LSpine cx ox argsx)]))
| sh_abs en i f j ps b c o args iN Lb :
    shape sm en f (LSpine c o args) -> shape sm (env_bind ps iN en) b Lb ->
    shape sm en (EApp i f (EAbs j ps b) true) (LSpine c o (args ++ [(AAbs iN, Lb)])).

(* ------------------------------------------------------------------------ *)
(* the expressions the property speaks about *)

Fixpoint is_spine (e : expr) : bool :=
  match e with EOp _ _ => true | EApp _ f _ _ => is_spine f | _ => false end.

Definition memb (v : nat) (vs : list nat) : bool := existsb (Nat.eqb v) vs.

(* vs: parameters in scope.
   - every application spine is headed by an operation;
   - a function-typed argument is an operation, a partial application, or an
     abstraction whose parameters are new;
   - a data argument is a source, a parameter in scope, or an application *)
Fixpoint wfb (vs : list nat) (e : expr) : bool :=
  match e with
  | ESrc _ => true
  | EVar v => memb v vs
  | EOp _ _ => true
  | EApp _ f x fn =>
      is_spine f && wfb vs f &&
      (if fn then
         match x with
         | EAbs _ ps b => forallb (fun p => negb (memb p vs)) ps && wfb (ps ++ vs) b
         | _ => is_spine x && wfb vs x
         end
       else wfb vs x)
  | EAbs _ _ _ => false
  end.

(* all arguments are data *)
Fixpoint first_order (e : expr) : bool :=
  match e with
  | EApp _ f x fn => negb fn && first_order f && first_order x
  | EAbs _ _ _ => false
  | _ => true
  end.

(* ------------------------------------------------------------------------ *)
(* executable naming (used by the harness to evaluate [flow] on concrete
   expressions; mirrors only the ORDER in which add_expr draws blank nodes) *)

Fixpoint label (e : expr) (cur : option node) (m : memo) (n : nat) {struct e}
    : lx * memo * nat :=
  match memo_find (key_of e) m with
  | Some k => (LLeaf k, m, n)
  | None =>
    let '(c, n) := match cur with Some c => (c, n) | None => (n, S n) end in
    match e with
    | ESrc _ => (LLeaf c, (key_of e, c) :: m, n)
    | EOp _ o => (LSpine c o [], m, n)
    | EVar _ => (LLeaf c, m, n)
    | EAbs _ _ _ => (LLeaf c, m, n)
    | EApp _ f x fn =>
        let '(Lf, m1, n1) := label f (Some c) m n in
        match Lf with
        | LLeaf _ => (Lf, m1, n1)
        | LSpine c' o args =>
            if fn then
              let iN := n1 in
              match x with
              | EAbs _ ps b =>
                  let '(Lb, m3, n3) :=
                    label b (Some (S n1)) (map (fun p => ((1, p), iN)) ps ++ m1) (S (S n1)) in
                  (LSpine c' o (args ++ [(AAbs iN, Lb)]), m3, n3)
              | _ =>
                  let '(Lx, m3, n3) := label x (Some (S n1)) m1 (S (S n1)) in
                  (LSpine c' o (args ++ [(AFun iN, Lx)]), m3, n3)
              end
            else
              let '(Lx, m3, n3) := label x (Some n1) m1 (S n1) in
              (LSpine c' o (args ++ [(AData, Lx)]), m3, n3)
        end
    end
  end.

Definition label0 (e : expr) : lx := fst (fst (label e None [] 0)).

(* ------------------------------------------------------------------------ *)
(* first-order: the plain application tree *)

Fixpoint tree (l : lx) : list triple :=
  match l with
  | LLeaf _ => []
  | LSpine c o args =>
      (c, p_via, o) :: map (fun a => (c, p_from, anode a)) args
      ++ flat_map (fun a => tree (snd a)) args
  end.

Definition is_data (k : akind) : bool := match k with AData => true | _ => false end.
Fixpoint fob (l : lx) : bool :=
  match l with
  | LLeaf _ => true
  | LSpine _ _ args => forallb (fun a => is_data (fst a) && fob (snd a)) args
  end.
