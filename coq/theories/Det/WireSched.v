(* Det/WireSched.v -- C19: the expression graph does not depend on the order
   in which rdflib's Graph.objects() yields the objects that add_expr's wiring
   loops iterate (graph.py:376, 384-385, 389-391, 396-397).

   [add_expr_s ob]  the model of add_expr of Graph/AddExpr.v (the code as
                    repaired by C08, which is what /repo contains) in which
                    every call of Graph.objects(s, p) is answered by the
                    schedule [ob]: any function that lists the objects of the
                    store in SOME order (it may inspect the whole store, i.e.
                    depend on the insertion history; different calls may use
                    different orders)
   [add_expr_s_indep]  for any two schedules, from set-equal stores with the
                    same memo and blank-node counter, the results are the same
                    node, the same memo and counter, and set-equal stores -
                    tf:depends triples included
   The proof needs of add_from only: compatible with set-equality,
   commutative, idempotent on stores satisfying an invariant it maintains.
   Instances: add_from_plain (with_dependencies off, no invariant needed) and
   add_from_tr (Det/AddFromTr.v, with_dependencies on, invariant: depends is
   the closure of from).  Stdlib only, no axioms. *)
From Coq Require Import List Arith Bool Lia Permutation.
Import ListNotations.
From TF Require Import Graph.AddExpr Det.Perm Det.AddFromTr.

Definition sched := list triple -> node -> pred -> list nat.
Definition sched_ok (ob : sched) : Prop := forall g s p, Permutation (objs g s p) (ob g s p).

Lemma objs_sched_ok : sched_ok objs.
Proof. intros g s p. apply Permutation_refl. Qed.

(* e.g. rdflib listing the objects in the opposite order *)
Definition objs_rev : sched := fun g s p => rev (objs g s p).
Lemma objs_rev_ok : sched_ok objs_rev.
Proof. intros g s p. apply Permutation_rev. Qed.

Section Sched.
  Variable add_from : node -> node -> list triple -> list triple.
  Variable ob : sched.

  (* graph.py:376-397, given f, x and the internal node (if any) *)
  Definition wire_s (fnode xn : node) (ci : option node) (g : list triple) : list triple :=
    let prior := ob g fnode p_from in                                                 (* 376 *)
    let g1 := add_from fnode xn g in                                                  (* 377 *)
    let g2 := match ci with
              | Some iN => add_from_all add_from (map (fun J => (J, iN)) (ob g1 xn p_internal)) g1   (* 383-385 *)
              | None => g1 end in
    let g3 := add_from_all add_from
                (map (fun J => (J, xn))
                   (filter (fun J => match ci with Some iN => negb (Nat.eqb J iN) | None => true end)
                      (ob g2 fnode p_internal))) g2 in                                (* 389-391 *)
    match ci with
    | Some iN => add_from_all add_from (map (fun y => (iN, y)) prior) g3              (* 395-397 *)
    | None => g3
    end.

  Fixpoint add_expr_s (e : expr) (cur : option node) (st : gstate) {struct e}
      : option (node * gstate) :=
    match memo_find (key_of e) (g_memo st) with
    | Some n => Some (n, st)
    | None =>
      let '(c, st) := match cur with Some c => (c, st) | None => fresh st end in
      match e with
      | ESrc _ => Some (c, set_memo (key_of e) c st)
      | EOp _ o => Some (c, add_tr (c, p_via, o) st)
      | EVar _ => None
      | EAbs _ _ _ => None
      | EApp _ f x fn =>
          if is_abs f then None else
          match add_expr_s f (Some c) st with
          | None => None
          | Some (fnode, st1) =>
              let r :=
                if fn then
                  let '(iN, st2) := fresh st1 in
                  let st3 := add_tr (fnode, p_internal, iN) st2 in
                  match x with
                  | EAbs _ ps b =>
                      let st4 := bind_params ps iN st3 in
                      let '(xc, st5) := fresh st4 in
                      match add_expr_s b (Some xc) st5 with
                      | None => None
                      | Some (xn, st6) => Some (xn, Some iN, st6)
                      end
                  | _ =>
                      let '(xc, st4) := fresh st3 in
                      match add_expr_s x (Some xc) st4 with
                      | None => None
                      | Some (xn, st5) => Some (xn, Some iN, upd_tr (add_from xn iN) st5)
                      end
                  end
                else
                  let '(xc, st2) := fresh st1 in
                  match add_expr_s x (Some xc) st2 with
                  | None => None
                  | Some (xn, st3) => Some (xn, None, st3)
                  end in
              match r with
              | None => None
              | Some (xn, ci, st7) => Some (c, upd_tr (wire_s fnode xn ci) st7)
              end
          end
      end
    end.
End Sched.

(* with the store's own listing order this IS the model of Graph/AddExpr.v *)
Lemma wire_s_objs add_from fnode xn ci g :
  wire_s add_from objs fnode xn ci g = wire add_from false fnode xn ci g.
Proof. unfold wire_s, wire. destruct ci; reflexivity. Qed.

Lemma add_expr_s_objs add_from e :
  (forall cur st, add_expr_s add_from objs e cur st = add_expr add_from false e cur st) /\
  (forall j ps b, e = EAbs j ps b ->
     forall cur st, add_expr_s add_from objs b cur st = add_expr add_from false b cur st).
Proof.
  induction e as [i | v | i o | i f IHf x IHx fn | j ps b IHb].
  - split; [reflexivity | intros ? ? ? E; discriminate E].
  - split; [reflexivity | intros ? ? ? E; discriminate E].
  - split; [reflexivity | intros ? ? ? E; discriminate E].
  - split; [|intros ? ? ? E; discriminate E].
    destruct IHf as [IHf _]. destruct IHx as [IHx IHb].
    intros cur st. cbn [add_expr_s add_expr].
    destruct (memo_find (key_of (EApp i f x fn)) (g_memo st)); [reflexivity|].
    destruct (match cur with Some c => (c, st) | None => fresh st end) as [c st0].
    destruct (is_abs f); [reflexivity|]. rewrite IHf.
    destruct (add_expr add_from false f (Some c) st0) as [[fnode st1]|]; [|reflexivity].
    unfold fresh. cbn beta iota.
    destruct fn.
    + destruct x as [? | ? | ? ? | ? ? ? ? | j ps b];
        try (rewrite IHx;
             match goal with |- context [add_expr add_from false ?e ?c ?s] =>
               destruct (add_expr add_from false e c s) as [[xn st5]|] end;
             [unfold upd_tr; rewrite wire_s_objs; reflexivity | reflexivity]).
      rewrite (IHb j ps b eq_refl).
      match goal with |- context [add_expr add_from false b ?c ?s] =>
        destruct (add_expr add_from false b c s) as [[xn st6]|] end; [|reflexivity].
      unfold upd_tr. rewrite wire_s_objs. reflexivity.
    + rewrite IHx.
      match goal with |- context [add_expr add_from false x ?c ?s] =>
        destruct (add_expr add_from false x c s) as [[xn st3]|] end; [|reflexivity].
      unfold upd_tr. rewrite wire_s_objs. reflexivity.
  - split; [reflexivity|]. intros j' ps' b' E. injection E as _ _ <-. apply IHb.
Qed.

Theorem add_expr_s_is_add_expr add_from e cur st :
  add_expr_s add_from objs e cur st = add_expr add_from false e cur st.
Proof. apply add_expr_s_objs. Qed.

(* ------------------------------------------------------------------------ *)

Lemma objs_teq g g' s p : teq g g' -> seteq (objs g s p) (objs g' s p).
Proof. intros H o. rewrite !In_objs. apply H. Qed.

Lemma sched_teq ob ob' g g' s p : sched_ok ob -> sched_ok ob' -> teq g g' ->
  seteq (ob g s p) (ob' g' s p).
Proof.
  intros H1 H2 H. eapply seteq_trans; [apply seteq_sym, perm_seteq, H1|].
  eapply seteq_trans; [apply objs_teq, H|]. apply perm_seteq, H2.
Qed.

Definition seq (st st' : gstate) : Prop :=
  g_memo st = g_memo st' /\ g_next st = g_next st' /\ teq (g_tr st) (g_tr st').

Section Indep.
  Variable add_from : node -> node -> list triple -> list triple.
  Variable Good : list triple -> Prop.
  Hypothesis G_add : forall a b g, Good g -> Good (add_from a b g).
  Hypothesis G_cons : forall s p o g, p <> p_from -> p <> p_depends -> Good g -> Good ((s, p, o) :: g).
  Hypothesis af_compat : forall a b g g', Good g -> teq g g' -> teq (add_from a b g) (add_from a b g').
  Hypothesis af_comm : forall a b c d g, Good g ->
    teq (add_from a b (add_from c d g)) (add_from c d (add_from a b g)).
  Hypothesis af_idem : forall a b g, Good g -> teq (add_from a b (add_from a b g)) (add_from a b g).

  (* one wiring loop: only the set of visited objects matters *)
  Lemma afa_seteq ps ps' g g' : Good g -> teq g g' -> seteq ps ps' ->
    teq (add_from_all add_from ps g) (add_from_all add_from ps' g').
  Proof.
    intros Hg H E. unfold add_from_all.
    apply (fold_seteq (list triple) (node * node) teq Good
             (fun p acc => add_from (fst p) (snd p) acc)); auto.
    - intros s. apply seteq_refl.
    - intros s s'. apply seteq_sym.
    - intros s1 s2 s3. apply seteq_trans.
  Qed.

  Lemma afa_good ps : forall g, Good g -> Good (add_from_all add_from ps g).
  Proof.
    induction ps as [|p ps IH]; intros g Hg; [exact Hg|]. unfold add_from_all. cbn [fold_left].
    apply IH, G_add, Hg.
  Qed.

  Variables ob ob' : sched.
  Hypothesis ob_ok : sched_ok ob.
  Hypothesis ob'_ok : sched_ok ob'.

  Lemma wire_s_good fnode xn ci g : Good g -> Good (wire_s add_from ob fnode xn ci g).
  Proof.
    intros Hg. unfold wire_s. destruct ci as [iN|].
    - apply afa_good, afa_good, afa_good, G_add, Hg.
    - apply afa_good, G_add, Hg.
  Qed.

  Lemma wire_s_indep fnode xn ci g g' : Good g -> teq g g' ->
    teq (wire_s add_from ob fnode xn ci g) (wire_s add_from ob' fnode xn ci g').
  Proof.
    intros Hg H. unfold wire_s.
    assert (H1 : teq (add_from fnode xn g) (add_from fnode xn g')) by (apply af_compat; assumption).
    assert (G1 : Good (add_from fnode xn g)) by (apply G_add, Hg).
    destruct ci as [iN|].
    - set (g2 := add_from_all add_from (map (fun J => (J, iN)) (ob (add_from fnode xn g) xn p_internal))
                   (add_from fnode xn g)).
      set (g2' := add_from_all add_from (map (fun J => (J, iN)) (ob' (add_from fnode xn g') xn p_internal))
                    (add_from fnode xn g')).
      assert (H2 : teq g2 g2').
      { apply afa_seteq; [exact G1 | exact H1|]. apply seteq_map, sched_teq; assumption. }
      assert (G2 : Good g2) by (apply afa_good, G1).
      apply afa_seteq.
      + apply afa_good, G2.
      + apply afa_seteq; [exact G2 | exact H2|]. apply seteq_map, seteq_filter, sched_teq; assumption.
      + apply seteq_map, sched_teq; assumption.
    - apply afa_seteq; [exact G1 | exact H1|]. apply seteq_map, seteq_filter, sched_teq; assumption.
  Qed.

  (* states *)
  Lemma seq_fresh st st' : seq st st' ->
    fst (fresh st) = fst (fresh st') /\ seq (snd (fresh st)) (snd (fresh st')).
  Proof. intros (Hm & Hn & Ht). unfold fresh, seq. cbn [fst snd g_memo g_next g_tr]. auto. Qed.

  Definition res_eq (r r' : option (node * gstate)) : Prop :=
    match r, r' with
    | Some (n, s), Some (n', s') => n = n' /\ seq s s' /\ Good (g_tr s)
    | None, None => True
    | _, _ => False
    end.

  Definition Stmt (e : expr) : Prop :=
    forall cur st st', seq st st' -> Good (g_tr st) ->
      res_eq (add_expr_s add_from ob e cur st) (add_expr_s add_from ob' e cur st').

  Lemma pick_eq (cur : option node) st st' : seq st st' -> Good (g_tr st) ->
    let p := match cur with Some c => (c, st) | None => fresh st end in
    let p' := match cur with Some c => (c, st') | None => fresh st' end in
    fst p = fst p' /\ seq (snd p) (snd p') /\ Good (g_tr (snd p)).
  Proof.
    intros Hq Hg. destruct cur as [c|]; cbn zeta.
    - cbn [fst snd]. auto.
    - destruct (seq_fresh st st' Hq) as [E Hq']. split; [exact E|]. split; [exact Hq'|].
      unfold fresh. cbn [snd g_tr]. exact Hg.
  Qed.

  Lemma add_expr_s_rec e : Stmt e /\ (forall j ps b, e = EAbs j ps b -> Stmt b).
  Proof.
    induction e as [i | v | i o | i f IHf x IHx fn | j ps b IHb].
    - (* ESrc *)
      split; [|intros ? ? ? E; discriminate E].
      intros cur st st' Hq Hg. cbn [add_expr_s]. destruct Hq as (Hm & Hn & Ht). rewrite <- Hm.
      destruct (memo_find (key_of (ESrc i)) (g_memo st)).
      + cbn. split; [reflexivity|]. split; [unfold seq; auto | assumption].
      + destruct (pick_eq cur st st' (conj Hm (conj Hn Ht)) Hg) as (E & (Hm2 & Hn2 & Ht2) & Hg2).
        destruct (match cur with Some c => (c, st) | None => fresh st end) as [c s0].
        destruct (match cur with Some c => (c, st') | None => fresh st' end) as [c' s0'].
        cbn [fst snd] in *. subst c'. cbn. unfold set_memo, seq. cbn [g_memo g_next g_tr].
        rewrite Hm2. split; [reflexivity|]. split; [|assumption]. split; [reflexivity|]. split; assumption.
    - (* EVar *)
      split; [|intros ? ? ? E; discriminate E].
      intros cur st st' Hq Hg. cbn [add_expr_s]. destruct Hq as (Hm & Hn & Ht). rewrite <- Hm.
      destruct (memo_find (key_of (EVar v)) (g_memo st)).
      + cbn. split; [reflexivity|]. split; [unfold seq; auto | assumption].
      + destruct (match cur with Some c => (c, st) | None => fresh st end).
        destruct (match cur with Some c => (c, st') | None => fresh st' end). exact I.
    - (* EOp *)
      split; [|intros ? ? ? E; discriminate E].
      intros cur st st' Hq Hg. cbn [add_expr_s]. destruct Hq as (Hm & Hn & Ht). rewrite <- Hm.
      destruct (memo_find (key_of (EOp i o)) (g_memo st)).
      + cbn. split; [reflexivity|]. split; [unfold seq; auto | assumption].
      + destruct (pick_eq cur st st' (conj Hm (conj Hn Ht)) Hg) as (E & (Hm2 & Hn2 & Ht2) & Hg2).
        destruct (match cur with Some c => (c, st) | None => fresh st end) as [c s0].
        destruct (match cur with Some c => (c, st') | None => fresh st' end) as [c' s0'].
        cbn [fst snd] in *. subst c'. cbn. unfold add_tr, seq. cbn [g_memo g_next g_tr].
        split; [reflexivity|]. split; [split; [assumption|]; split; [assumption|]|].
        * intros t. cbn [In]. rewrite (Ht2 t). tauto.
        * apply G_cons; [discriminate | discriminate | exact Hg2].
    - (* EApp *)
      split; [|intros ? ? ? E; discriminate E].
      destruct IHf as [IHf _]. destruct IHx as [IHx IHb].
      intros cur st st' Hq Hg. cbn [add_expr_s]. destruct Hq as (Hm & Hn & Ht). rewrite <- Hm.
      destruct (memo_find (key_of (EApp i f x fn)) (g_memo st)).
      { cbn. split; [reflexivity|]. split; [unfold seq; auto | assumption]. }
      destruct (pick_eq cur st st' (conj Hm (conj Hn Ht)) Hg) as (E & Hq0 & Hg0).
      destruct (match cur with Some c => (c, st) | None => fresh st end) as [c s0].
      destruct (match cur with Some c => (c, st') | None => fresh st' end) as [c' s0'].
      cbn [fst snd] in *. subst c'. clear Hm Hn Ht Hg st st'.
      destruct (is_abs f); [exact I|].
      pose proof (IHf (Some c) s0 s0' Hq0 Hg0) as Rf. unfold res_eq in Rf.
      destruct (add_expr_s add_from ob f (Some c) s0) as [[fnode st1]|];
        destruct (add_expr_s add_from ob' f (Some c) s0') as [[fnode' st1']|]; try contradiction; [|exact I].
      destruct Rf as (<- & Hq1 & Hg1).
      (* the common tail: wiring *)
      assert (Tail : forall xn ci s7 s7', seq s7 s7' -> Good (g_tr s7) ->
                res_eq (Some (c, upd_tr (wire_s add_from ob fnode xn ci) s7))
                       (Some (c, upd_tr (wire_s add_from ob' fnode xn ci) s7'))).
      { intros xn ci s7 s7' (Hm7 & Hn7 & Ht7) Hg7. cbn. unfold upd_tr, seq. cbn [g_memo g_next g_tr].
        split; [reflexivity|]. split; [split; [assumption|]; split; [assumption|]|].
        - apply wire_s_indep; assumption.
        - apply wire_s_good; assumption. }
      destruct Hq1 as (Hm1 & Hn1 & Ht1).
      unfold fresh. cbn beta iota. rewrite <- Hn1.
      (* the state in which the argument is translated, after drawing blank nodes and
         recording (f, internal, iN) / binding the parameters *)
      assert (Arg : forall y ci (k k' : node -> gstate -> gstate) s s',
                Stmt y -> seq s s' -> Good (g_tr s) ->
                (forall (xn : node) t t', seq t t' -> Good (g_tr t) -> seq (k xn t) (k' xn t') /\ Good (g_tr (k xn t))) ->
                res_eq
                  match match add_expr_s add_from ob y (Some (g_next s)) (AddExpr.mkG (g_tr s) (g_memo s) (S (g_next s))) with
                        | Some (xn, t) => Some (xn, ci, k xn t) | None => None end with
                  | Some (xn, ci, s7) => Some (c, upd_tr (wire_s add_from ob fnode xn ci) s7)
                  | None => None end
                  match match add_expr_s add_from ob' y (Some (g_next s')) (AddExpr.mkG (g_tr s') (g_memo s') (S (g_next s'))) with
                        | Some (xn, t) => Some (xn, ci, k' xn t) | None => None end with
                  | Some (xn, ci, s7) => Some (c, upd_tr (wire_s add_from ob' fnode xn ci) s7)
                  | None => None end).
      { intros y ci k k' s s' Hy (Hms & Hns & Hts) Hgs Hk. rewrite <- Hns.
        assert (Hq' : seq (AddExpr.mkG (g_tr s) (g_memo s) (S (g_next s)))
                          (AddExpr.mkG (g_tr s') (g_memo s') (S (g_next s)))).
        { unfold seq. cbn [g_memo g_next g_tr]. auto. }
        pose proof (Hy (Some (g_next s)) _ _ Hq' Hgs) as Ry. unfold res_eq in Ry.
        destruct (add_expr_s add_from ob y (Some (g_next s)) (AddExpr.mkG (g_tr s) (g_memo s) (S (g_next s))))
          as [[xn t]|];
        destruct (add_expr_s add_from ob' y (Some (g_next s)) (AddExpr.mkG (g_tr s') (g_memo s') (S (g_next s))))
          as [[xn' t']|]; try contradiction; [|exact I].
        destruct Ry as (<- & Hqt & Hgt). destruct (Hk xn t t' Hqt Hgt) as [Hqk Hgk].
        apply Tail; assumption. }
      destruct fn.
      + (* a function is passed: internal node iN, triple (f, internal, iN) *)
        set (s3 := add_tr (fnode, p_internal, g_next st1)
                     (AddExpr.mkG (g_tr st1) (g_memo st1) (S (g_next st1)))).
        set (s3' := add_tr (fnode, p_internal, g_next st1)
                      (AddExpr.mkG (g_tr st1') (g_memo st1') (S (g_next st1)))).
        assert (Hq3 : seq s3 s3').
        { unfold s3, s3', add_tr, seq. cbn [g_memo g_next g_tr]. split; [assumption|]. split; [reflexivity|].
          intros t. cbn [In]. rewrite (Ht1 t). tauto. }
        assert (Hg3 : Good (g_tr s3)).
        { unfold s3, add_tr. cbn [g_tr]. apply G_cons; [discriminate | discriminate | exact Hg1]. }
        destruct x as [? | ? | ? ? | ? ? ? ? | j ps b];
          try (apply (Arg _ (Some (g_next st1)) (fun xn => upd_tr (add_from xn (g_next st1)))
                        (fun xn => upd_tr (add_from xn (g_next st1))) s3 s3' IHx Hq3 Hg3);
               intros xn t t' (Hmt & Hnt & Htt) Hgt; unfold upd_tr, seq; cbn [g_memo g_next g_tr];
               split; [split; [assumption|]; split; [assumption|]; apply af_compat; assumption
                      | apply G_add; assumption]).
        (* an abstraction is passed: its parameters stand for iN, the body is translated *)
        set (s4 := bind_params ps (g_next st1) s3). set (s4' := bind_params ps (g_next st1) s3').
        assert (Hq4 : seq s4 s4').
        { destruct Hq3 as (Hm3 & Hn3 & Ht3). unfold s4, s4', bind_params, seq. cbn [g_memo g_next g_tr].
          rewrite Hm3. auto. }
        assert (Hg4 : Good (g_tr s4)) by exact Hg3.
        apply (Arg b (Some (g_next st1)) (fun _ t => t) (fun _ t => t) s4 s4' (IHb j ps b eq_refl) Hq4 Hg4).
        intros xn t t' Hqt Hgt. auto.
      + (* data is passed *)
        apply (Arg x None (fun _ t => t) (fun _ t => t) st1
                 (AddExpr.mkG (g_tr st1') (g_memo st1') (g_next st1)) IHx).
        * unfold seq. cbn [g_memo g_next g_tr]. auto.
        * exact Hg1.
        * intros xn t t' Hqt Hgt. auto.
    - split; [|intros j' ps' b' E; injection E as _ _ <-; apply IHb].
      intros cur st st' Hq Hg. cbn [add_expr_s]. destruct Hq as (Hm & Hn & Ht). rewrite <- Hm.
      destruct (memo_find (key_of (EAbs j ps b)) (g_memo st)).
      + cbn. split; [reflexivity|]. split; [unfold seq; auto | assumption].
      + destruct (match cur with Some c => (c, st) | None => fresh st end).
        destruct (match cur with Some c => (c, st') | None => fresh st' end). exact I.
  Qed.

  Theorem add_expr_s_indep e cur st st' : seq st st' -> Good (g_tr st) ->
    res_eq (add_expr_s add_from ob e cur st) (add_expr_s add_from ob' e cur st').
  Proof. apply add_expr_s_rec. Qed.
End Indep.

(* the observable outcome of two runs: both fail, or both return the same node,
   the same memo and blank-node counter, and the same SET of triples *)
Definition same_outcome (r r' : option (node * gstate)) : Prop :=
  match r, r' with
  | Some (n, s), Some (n', s') =>
      n = n' /\ g_memo s = g_memo s' /\ g_next s = g_next s' /\ seteq (g_tr s) (g_tr s')
  | None, None => True
  | _, _ => False
  end.

Lemma res_eq_same Good r r' : res_eq Good r r' -> same_outcome r r'.
Proof.
  unfold res_eq, same_outcome. destruct r as [[n s]|], r' as [[n' s']|]; auto.
  intros (E & (Hm & Hn & Ht) & _). auto.
Qed.

(* with_dependencies on: add_from maintains tf:depends (Det/AddFromTr.v) *)
Theorem add_expr_dep_any_schedule ob ob' : sched_ok ob -> sched_ok ob' ->
  forall e cur st st', seq st st' -> good (g_tr st) ->
    same_outcome (add_expr_s (add_from_tr false) ob e cur st)
                 (add_expr_s (add_from_tr false) ob' e cur st')
    /\ (forall n s, add_expr_s (add_from_tr false) ob e cur st = Some (n, s) -> good (g_tr s)).
Proof.
  intros H1 H2 e cur st st' Hq Hg.
  pose proof (add_expr_s_indep (add_from_tr false) good
                (fun a b g => good_add_from_tr false a b g) good_cons
                (fun a b g g' => aft_compat false false a b g g')
                (fun a b c d g => aft_comm false false false false a b c d g)
                (fun a b g => aft_idem false false false a b g)
                ob ob' H1 H2 e cur st st' Hq Hg) as R.
  split; [eapply res_eq_same; exact R|].
  intros n s E. rewrite E in R. unfold res_eq in R.
  destruct (add_expr_s (add_from_tr false) ob' e cur st') as [[n' s']|]; [|contradiction]. apply R.
Qed.

(* one wiring loop `for x in self.objects(..): self.add_from(.., ..)`: folding add_from
   over any permutation of the visited pairs gives the same store *)
Theorem wiring_loop_any_order ps ps' g : good g -> Permutation ps ps' ->
  teq (add_from_all (add_from_tr false) ps g) (add_from_all (add_from_tr false) ps' g)
  /\ good (add_from_all (add_from_tr false) ps g).
Proof.
  intros Hg Pm. split.
  - apply (afa_seteq (add_from_tr false) good).
    + intros a b h. apply good_add_from_tr.
    + intros a b h h'. apply aft_compat.
    + intros a b c d h. apply aft_comm.
    + intros a b h. apply aft_idem.
    + exact Hg.
    + apply seteq_refl.
    + apply perm_seteq, Pm.
  - apply (afa_good (add_from_tr false) good); [intros a b h; apply good_add_from_tr | exact Hg].
Qed.

(* with_dependencies off: add_from adds the from-triple only *)
Theorem add_expr_plain_any_schedule ob ob' : sched_ok ob -> sched_ok ob' ->
  forall e cur st st', seq st st' ->
    same_outcome (add_expr_s add_from_plain ob e cur st) (add_expr_s add_from_plain ob' e cur st').
Proof.
  intros H1 H2 e cur st st' Hq.
  apply (res_eq_same (fun _ => True)).
  apply (add_expr_s_indep add_from_plain (fun _ => True)); auto.
  - intros a b g g' _ H t. unfold add_from_plain. cbn [In]. rewrite (H t). tauto.
  - intros a b c d g _ t. unfold add_from_plain. cbn [In]. tauto.
  - intros a b g _ t. unfold add_from_plain. cbn [In]. tauto.
Qed.

(* several expressions into one graph (what add_workflow does, and what a user
   does who adds expression after expression): each under its own schedule *)
Fixpoint add_exprs_s (add_from : node -> node -> list triple -> list triple)
    (es : list (expr * sched)) (st : gstate) : option (list node * gstate) :=
  match es with
  | [] => Some ([], st)
  | (e, ob) :: r =>
      match add_expr_s add_from ob e None st with
      | None => None
      | Some (n, st1) =>
          match add_exprs_s add_from r st1 with
          | None => None
          | Some (ns, st2) => Some (n :: ns, st2)
          end
      end
  end.

Theorem add_exprs_dep_any_schedule es es' :
  map fst es = map fst es' ->
  Forall (fun p => sched_ok (snd p)) es -> Forall (fun p => sched_ok (snd p)) es' ->
  forall st st', seq st st' -> good (g_tr st) ->
  match add_exprs_s (add_from_tr false) es st, add_exprs_s (add_from_tr false) es' st' with
  | Some (ns, s), Some (ns', s') =>
      ns = ns' /\ g_memo s = g_memo s' /\ g_next s = g_next s' /\ seteq (g_tr s) (g_tr s')
  | None, None => True
  | _, _ => False
  end.
Proof.
  revert es'. induction es as [|[e ob] es IH]; intros [|[e' ob'] es'] E F F' st st' Hq Hg;
    try discriminate E.
  - cbn. destruct Hq as (Hm & Hn & Ht). auto.
  - cbn [map fst] in E. injection E as <- E. cbn [add_exprs_s].
    inversion F as [|? ? Fo Fr]; subst. inversion F' as [|? ? Fo' Fr']; subst. cbn [snd] in Fo, Fo'.
    destruct (add_expr_dep_any_schedule ob ob' Fo Fo' e None st st' Hq Hg) as [R Hg'].
    unfold same_outcome in R.
    destruct (add_expr_s (add_from_tr false) ob e None st) as [[n s1]|];
      destruct (add_expr_s (add_from_tr false) ob' e None st') as [[n' s1']|]; try contradiction; [|exact I].
    destruct R as (<- & Hm & Hn & Ht).
    specialize (IH es' E Fr Fr' s1 s1' (conj Hm (conj Hn Ht)) (Hg' n s1 eq_refl)).
    destruct (add_exprs_s (add_from_tr false) es s1) as [[ns s2]|];
      destruct (add_exprs_s (add_from_tr false) es' s1') as [[ns' s2']|]; try contradiction; [|exact I].
    destruct IH as (-> & IH). auto.
Qed.


Definition store_of (r : option (node * gstate)) : list triple :=
  match r with Some (_, s) => g_tr s | None => [] end.

Lemma same_outcome_store r r' : same_outcome r r' -> seteq (store_of r) (store_of r').
Proof.
  unfold same_outcome, store_of. destruct r as [[n s]|], r' as [[n' s']|]; try contradiction.
  - intros (_ & _ & _ & H). exact H.
  - intros _. apply seteq_refl.
Qed.
