(* Det/WorkflowSched.v -- C19: add_workflow (model: Graph/Workflow.v) does not
   depend on the order in which the set wf.tool_outputs is iterated.

   In the model the iteration order of tool_outputs is the order of the list
   [w_apps].  Workflow.target (workflow.py:79-92) builds two sets by iterating
   it; everything else reaches the applications through lookups by output
   resource (wf.inputs(r), wf.expression(r): dict / graph lookups).  The
   theorem: for every permutation of the applications (outputs named once, as
   in a dict), add_workflow returns THE SAME result - node numbering included.
   (The with_dependencies variant follows by instantiating add_from with
   Det/AddFromTr.add_from_tr; the statement is for any add_from.)
   Stdlib only, no axioms. *)
From Coq Require Import List Arith Bool Lia Permutation.
Import ListNotations.
From TF Require Import Graph.AddExpr Graph.AddExprSpec Graph.Workflow Det.Perm.

Lemma find_perm {A} (f : A -> bool) (l l' : list A) :
  Permutation l l' ->
  (forall a b, In a l -> In b l -> f a = true -> f b = true -> a = b) ->
  find f l = find f l'.
Proof.
  intros P U.
  destruct (find f l) as [a|] eqn:E.
  - apply find_some in E. destruct E as [Ha Fa].
    destruct (find f l') as [b|] eqn:E'.
    + apply find_some in E'. destruct E' as [Hb Fb]. f_equal. apply U; auto.
      eapply Permutation_in; [apply Permutation_sym, P | exact Hb].
    + exfalso. pose proof (find_none f l' E' a (Permutation_in a P Ha)) as N. congruence.
  - destruct (find f l') as [b|] eqn:E'; [|reflexivity].
    apply find_some in E'. destruct E' as [Hb Fb].
    pose proof (find_none f l E b (Permutation_in b (Permutation_sym P) Hb)) as N. congruence.
Qed.

Lemma existsb_perm {A} (f : A -> bool) l l' : Permutation l l' -> existsb f l = existsb f l'.
Proof.
  intros P. destruct (existsb f l) eqn:E; symmetry.
  - apply existsb_exists in E. destruct E as (x & Hx & Fx). apply existsb_exists. exists x.
    split; [eapply Permutation_in; eauto | exact Fx].
  - destruct (existsb f l') eqn:E'; [|reflexivity].
    apply existsb_exists in E'. destruct E' as (x & Hx & Fx).
    assert (X : existsb f l = true).
    { apply existsb_exists. exists x. split; [|exact Fx].
      eapply Permutation_in; [apply Permutation_sym, P | exact Hx]. }
    congruence.
Qed.

Section Apps.
  Variables wf wf' : wflow.
  Hypothesis Hsrc : w_srcs wf = w_srcs wf'.
  Hypothesis Happs : Permutation (w_apps wf) (w_apps wf').
  (* a dict has one entry per key *)
  Hypothesis Hnodup : NoDup (map a_out (w_apps wf)).

  Lemma out_inj a b : In a (w_apps wf) -> In b (w_apps wf) -> a_out a = a_out b -> a = b.
  Proof.
    intros Ha Hb E. revert Hnodup Ha Hb. generalize (w_apps wf) as l.
    induction l as [|c l IH]; intros N Ha Hb; [destruct Ha|].
    cbn [map] in N. inversion N as [|? ? Nc Nl]; subst.
    destruct Ha as [<- | Ha]; destruct Hb as [<- | Hb]; auto.
    - exfalso. apply Nc. rewrite E. apply in_map. exact Hb.
    - exfalso. apply Nc. rewrite <- E. apply in_map. exact Ha.
  Qed.

  Lemma find_app_perm r : find_app wf r = find_app wf' r.
  Proof.
    unfold find_app. apply find_perm; [exact Happs|].
    intros a b Ha Hb Fa Fb. apply Nat.eqb_eq in Fa. apply Nat.eqb_eq in Fb.
    apply out_inj; congruence.
  Qed.

  Lemma consumed_perm r : consumed wf r = consumed wf' r.
  Proof. unfold consumed. apply existsb_perm, Happs. Qed.

  (* Workflow.target: the set difference has the same single element *)
  Lemma target_perm : target wf = target wf'.
  Proof.
    unfold target.
    assert (P : Permutation (targets wf) (targets wf')).
    { unfold targets.
      rewrite (filter_ext (fun r => negb (consumed wf r)) (fun r => negb (consumed wf' r)))
        by (intros r; now rewrite consumed_perm).
      clear Hnodup. induction (Permutation_map a_out Happs) as [|x l l' _ IH|x y l|l1 l2 l3 _ IH1 _ IH2].
      - constructor.
      - cbn [filter]. destruct (negb (consumed wf' x)); [constructor|]; exact IH.
      - cbn [filter]. destruct (negb (consumed wf' x)), (negb (consumed wf' y));
          try apply Permutation_refl. apply perm_swap.
      - eapply Permutation_trans; eauto. }
    destruct (targets wf) as [|t [|t2 l]].
    - apply Permutation_nil in P. rewrite P. reflexivity.
    - apply Permutation_length_1_inv in P. rewrite P. reflexivity.
    - pose proof (Permutation_length P) as L. destruct (targets wf') as [|u [|u2 l']]; try discriminate L.
      reflexivity.
  Qed.

  Lemma wf_fuel_perm : wf_fuel wf = wf_fuel wf'.
  Proof. unfold wf_fuel. now rewrite (Permutation_length Happs). Qed.

  Lemma mapM_e_ext f g rs : (forall r E, f r E = g r E) -> forall E, mapM_e f rs E = mapM_e g rs E.
  Proof.
    intros X. induction rs as [|r rs IH]; intros E; cbn [mapM_e]; [reflexivity|].
    rewrite X. destruct (g r E) as [[e E1]|]; [|reflexivity]. rewrite IH. reflexivity.
  Qed.

  Lemma indirect_perm ins ids es E : indirect wf ins ids es E = indirect wf' ins ids es E.
  Proof.
    revert ids es E. induction ins as [|r ins IH]; intros ids es E; [reflexivity|].
    destruct es as [|e es]; [reflexivity|]. cbn [indirect]. rewrite <- Hsrc.
    destruct (memb r (w_srcs wf)); rewrite IH; reflexivity.
  Qed.

  Lemma w2e_perm pt fuel : forall r E, w2e wf pt fuel r E = w2e wf' pt fuel r E.
  Proof.
    induction fuel as [|f IH]; intros r E; cbn [w2e].
    - reflexivity.
    - destruct (elookup r (e_tab E)); [reflexivity|]. rewrite <- find_app_perm.
      destruct (find_app wf r) as [a|]; [|reflexivity].
      rewrite (mapM_e_ext _ _ (a_ins a) IH).
      destruct (mapM_e (w2e wf' pt f) (a_ins a) E) as [[es E1]|]; [|reflexivity].
      destruct pt; [reflexivity|]. rewrite indirect_perm. reflexivity.
  Qed.

  Lemma foldM_t_ext f g rs : (forall r st, f r st = g r st) -> forall st, foldM_t f rs st = foldM_t g rs st.
  Proof.
    intros X. induction rs as [|r rs IH]; intros st; cbn [foldM_t]; [reflexivity|].
    rewrite X. destruct (g r st) as [[n st1]|]; [apply IH | reflexivity].
  Qed.

  Variable add_from add_from_r : node -> node -> list triple -> list triple.
  Variable pinned : bool.

  Lemma w2t_perm ex fuel : forall r st,
    w2t add_from pinned wf ex fuel r st = w2t add_from pinned wf' ex fuel r st.
  Proof.
    induction fuel as [|f IH]; intros r st; cbn [w2t].
    - reflexivity.
    - destruct (elookup r ex) as [e|]; [|reflexivity].
      destruct (memo_find (key_of e) (g_memo st)); [reflexivity|].
      rewrite <- Hsrc, <- find_app_perm.
      destruct (memb r (w_srcs wf)); [reflexivity|].
      destruct (find_app wf r) as [a|]; [|reflexivity].
      rewrite (foldM_t_ext _ _ (a_ins a) IH). reflexivity.
  Qed.

  Lemma inputs_loop_perm ex fuel srcs : forall st,
    inputs_loop add_from pinned wf ex fuel srcs st = inputs_loop add_from pinned wf' ex fuel srcs st.
  Proof.
    induction srcs as [|s srcs IH]; intros st; cbn [inputs_loop]; [reflexivity|].
    rewrite w2t_perm. destruct (w2t add_from pinned wf' ex fuel s st) as [[n st1]|]; [|reflexivity].
    rewrite IH. reflexivity.
  Qed.

  Lemma result_map_t_perm ex fuel tab : forall st,
    result_map_t add_from pinned wf ex fuel tab st = result_map_t add_from pinned wf' ex fuel tab st.
  Proof.
    induction tab as [|[r e] tab IH]; intros st; cbn [result_map_t]; [reflexivity|].
    rewrite w2t_perm. destruct (w2t add_from pinned wf' ex fuel r st) as [[n st1]|]; [|reflexivity].
    rewrite IH. reflexivity.
  Qed.

  Theorem add_workflow_any_tool_order passthrough :
    add_workflow add_from add_from_r pinned passthrough wf =
    add_workflow add_from add_from_r pinned passthrough wf'.
  Proof.
    unfold add_workflow. rewrite <- target_perm, <- wf_fuel_perm, <- Hsrc.
    destruct (target wf) as [tg|]; [|reflexivity].
    rewrite w2e_perm.
    destruct (w2e wf' passthrough (wf_fuel wf) tg _) as [[e0 E1]|]; [|reflexivity].
    rewrite w2t_perm.
    destruct (w2t add_from pinned wf' (e_tab E1) (wf_fuel wf) tg g_empty) as [[res st1]|]; [|reflexivity].
    rewrite result_map_t_perm.
    destruct (if pinned then Some st1
              else option_map snd (result_map_t add_from pinned wf' (e_tab E1) (wf_fuel wf) (e_tab E1) st1))
      as [st1'|]; [|reflexivity].
    destruct (indir_loop add_from add_from_r pinned (e_ind E1) st1') as [st2|]; [|reflexivity].
    rewrite inputs_loop_perm. reflexivity.
  Qed.
End Apps.
