(* Det/CanonSched.v -- C19: the canonical type set and the taxonomy do not
   depend on the iteration order of the Python sets involved:

     TypeOperator.children (type.py:258, a set)   -> the order of [ops] in
         Canon/Succ.v ([children] filters [ops]); [succ_any_children_order]
     list(self.canon) and the push order in Language.expand_canon
         (lang.py:116-130: a set turned into a stack, successors appended as
         the generators yield them)               -> [wl_any_discipline],
         [expand_canon_any_schedule]: ANY stack discipline whose pushes cover
         the unseen successors computes the same set
     `for t in self.language.canon` in add_taxonomy / Language.successors
         (graph.py:148-158, lang.py as repaired by C10) -> [taxonomy_canon_set]
   Stdlib only, no axioms. *)
From Coq Require Import List Arith Bool Lia Permutation.
Import ListNotations.
From TF Require Import Base.Hier Base.Ty Sub.Match Canon.Worklist Canon.Succ Canon.Canon
  Canon.SuccProofs Canon.CanonProofs Det.Perm.

(* ------------------------------------------------------------------------ *)
(* the worklist: any discipline *)

Section WL.
  Context {A : Type}.
  Variable eqb : A -> A -> bool.
  Hypothesis eqb_ok : forall a b, eqb a b = true <-> a = b.

  Lemma Clo_ext (step step' : A -> list A) (init init' : list A) :
    (forall x, seteq (step x) (step' x)) -> seteq init init' ->
    forall x, Clo step init x <-> Clo step' init' x.
  Proof.
    intros Hs Hi x. split; intros C; induction C as [y Hy | y z _ IH Hz].
    - apply clo_init. apply Hi. exact Hy.
    - eapply clo_step; [exact IH|]. apply Hs. exact Hz.
    - apply clo_init. apply Hi. exact Hy.
    - eapply clo_step; [exact IH|]. apply Hs. exact Hz.
  Qed.

  (* Two runs of the loop `while stack: current = stack.pop(); seen.add(current);
     push the successors not seen yet`: the successor generators may yield in
     different orders (step / step'), the successors may be pushed in any order and
     with or without repetition (push / push'), the initial stack may list the
     initial set in any order.  If both runs complete they compute the same set. *)
  Theorem wl_any_discipline
      (step step' : A -> list A) (push push' : A -> list A -> list A)
      (fuel fuel' : nat) (stack0 stack0' seen0 seen0' r r' : list A) :
    (forall x, seteq (step x) (step' x)) ->
    (forall x seen y, In y (push x seen) -> In y (step x)) ->
    (forall x seen y, In y (step x) -> In y (push x seen) \/ In y seen) ->
    (forall x seen y, In y (push' x seen) -> In y (step' x)) ->
    (forall x seen y, In y (step' x) -> In y (push' x seen) \/ In y seen) ->
    seteq stack0 stack0' ->
    (forall x, In x seen0 -> In x stack0) -> (forall x, In x seen0' -> In x stack0') ->
    wl eqb push fuel stack0 seen0 = Some r -> wl eqb push' fuel' stack0' seen0' = Some r' ->
    seteq r r'.
  Proof.
    intros Hs S1 C1 S2 C2 Hi I1 I2 R1 R2 x.
    rewrite (wl_correct eqb eqb_ok step push S1 C1 fuel stack0 seen0 r I1 R1 x).
    rewrite (wl_correct eqb eqb_ok step' push' S2 C2 fuel' stack0' seen0' r' I2 R2 x).
    apply Clo_ext; assumption.
  Qed.
End WL.

(* ------------------------------------------------------------------------ *)
(* TypeOperation.successors / floor / ceiling under any order of the children sets *)

Section Children.
  Variable H : hier.
  Variables ops ops' : list nat.
  Hypothesis P : Permutation ops ops'.

  Lemma children_perm o : seteq (children H ops o) (children H ops' o).
  Proof. unfold children. apply seteq_filter, perm_seteq, P. Qed.

  Lemma children_nil o : children H ops o = [] <-> children H ops' o = [].
  Proof.
    split; intros E.
    - apply seteq_nil. rewrite <- E. apply seteq_sym, children_perm.
    - apply seteq_nil. rewrite <- E. apply children_perm.
  Qed.

  Lemma leaves_perm fuel : forall o, seteq (leaves H ops fuel o) (leaves H ops' fuel o).
  Proof.
    induction fuel as [|f IH]; intros o; cbn [leaves]; [apply seteq_refl|].
    pose proof (children_perm o) as Hc. pose proof (children_nil o) as Hn.
    destruct (children H ops o) as [|c cs] eqn:E1; destruct (children H ops' o) as [|c' cs'] eqn:E2.
    - apply seteq_refl.
    - destruct Hn as [Hn _]. specialize (Hn eq_refl). discriminate Hn.
    - destruct Hn as [_ Hn]. specialize (Hn eq_refl). discriminate Hn.
    - apply seteq_flat_map; [exact Hc | exact IH].
  Qed.

  Lemma floor_perm o : seteq (floor H ops o) (floor H ops' o).
  Proof.
    unfold floor. destruct (Nat.eqb (arity H o) 0); [|apply seteq_refl].
    rewrite (Permutation_length P). apply seteq_map, leaves_perm.
  Qed.

  Variables (custom top bot : bool) (univ univ' : list nat).
  Hypothesis PU : Permutation univ univ'.

  Lemma univ_nil : univ = [] <-> univ' = [].
  Proof.
    split; intros ->.
    - apply Permutation_nil in PU. exact PU.
    - apply Permutation_sym, Permutation_nil in PU. exact PU.
  Qed.

  Lemma succ_base_perm d o :
    seteq (succ_base H ops custom top bot univ d o) (succ_base H ops' custom top bot univ' d o).
  Proof.
    unfold succ_base. destruct d.
    - destruct (Nat.eqb o Top).
      + pose proof univ_nil as Hn.
        destruct univ as [|u us]; destruct univ' as [|u' us'].
        * apply seteq_refl.
        * destruct Hn as [Hn _]. discriminate (Hn eq_refl).
        * destruct Hn as [_ Hn]. discriminate (Hn eq_refl).
        * apply seteq_flat_map; [apply perm_seteq, PU | intros x; apply seteq_refl].
      + destruct custom; [|apply seteq_refl].
        pose proof (children_perm o) as Hc. pose proof (children_nil o) as Hn.
        destruct (children H ops o) as [|c cs]; destruct (children H ops' o) as [|c' cs'].
        * apply seteq_refl.
        * destruct Hn as [Hn _]. discriminate (Hn eq_refl).
        * destruct Hn as [_ Hn]. discriminate (Hn eq_refl).
        * apply seteq_map, Hc.
    - destruct (Nat.eqb o Bottom); [|apply seteq_refl].
      pose proof univ_nil as Hn.
      destruct univ as [|u us]; destruct univ' as [|u' us'].
      + apply seteq_refl.
      + destruct Hn as [Hn _]. discriminate (Hn eq_refl).
      + destruct Hn as [_ Hn]. discriminate (Hn eq_refl).
      + apply seteq_flat_map; [apply perm_seteq, PU | intros x; apply floor_perm].
  Qed.

  Lemma succ_args_seteq (f g : bool -> ty -> list ty) d : forall vs xs,
    Forall (fun x => forall d', seteq (f d' x) (g d' x)) xs ->
    seteq (succ_args f d vs xs) (succ_args g d vs xs).
  Proof.
    intros vs xs. revert vs. induction xs as [|x xs IH]; intros vs F; [destruct vs; apply seteq_refl|].
    destruct vs as [|v vs]; [apply seteq_refl|]. cbn [succ_args].
    inversion F as [|? ? Fx Fr]; subst.
    apply seteq_app; [apply seteq_map, Fx | apply seteq_map, IH, Fr].
  Qed.

  Lemma match_nil_seteq {B} (l l' fb : list B) : seteq l l' ->
    seteq (match l with [] => fb | _ => l end) (match l' with [] => fb | _ => l' end).
  Proof.
    intros E. destruct l as [|a l]; destruct l' as [|a' l'].
    - apply seteq_refl.
    - destruct (proj2 (E a')). now left.
    - destruct (proj1 (E a)). now left.
    - exact E.
  Qed.

  (* the successors of any type of any depth *)
  Theorem succ_any_children_order : forall t d,
    seteq (succ H ops custom top bot univ d t) (succ H ops' custom top bot univ' d t).
  Proof.
    induction t as [o args IH] using ty_ind'. intros d. cbn [succ].
    destruct (Nat.eqb (arity H o) 0); [apply succ_base_perm|].
    set (l := map (TOp o) (succ_args (fun d' x => succ H ops custom top bot univ d' x) d (variance H o) args)).
    set (l' := map (TOp o) (succ_args (fun d' x => succ H ops' custom top bot univ' d' x) d (variance H o) args)).
    assert (E : seteq l l').
    { apply seteq_map, succ_args_seteq. eapply Forall_impl; [|exact IH]. intros a Ha d'. apply Ha. }
    destruct l as [|a r]; destruct l' as [|a' r'].
    - apply seteq_refl.
    - destruct (proj2 (E a')). now left.
    - destruct (proj1 (E a)). now left.
    - exact E.
  Qed.
End Children.

(* ------------------------------------------------------------------------ *)
(* Language.expand_canon under any schedule *)

Section Expand.
  Variable H : hier.
  Variables (top bot : bool).

  (* a schedule decides in which order (and how often) the unseen successors of the
     popped type are pushed *)
  Definition push_ok (ops : list nat) (push : ty -> list ty -> list ty) : Prop :=
    forall x seen, seteq (push x seen)
                         (filter (fun s => negb (tmem s seen)) (can_step H ops top bot x)).

  Lemma can_push_ok ops : push_ok ops (can_push H ops top bot).
  Proof.
    intros x seen y. unfold can_push, can_step.
    rewrite in_app_iff, <- !in_rev, !filter_In, in_app_iff. tauto.
  Qed.

  Definition expand_canon_s (push : ty -> list ty -> list ty) (fuel : nat) (stack0 listed : list ty) :=
    wl ty_eqb push fuel stack0 listed.

  Lemma expand_canon_s_can_push ops fuel stack0 listed :
    expand_canon_s (can_push H ops top bot) fuel stack0 listed = expand_canon H ops top bot fuel stack0 listed.
  Proof. reflexivity. Qed.

  Theorem expand_canon_any_schedule ops ops' push push' fuel fuel' stack0 stack0' listed c c' :
    Permutation ops ops' -> push_ok ops push -> push_ok ops' push' ->
    Permutation stack0 listed -> Permutation stack0' listed ->
    expand_canon_s push fuel stack0 listed = Some c ->
    expand_canon_s push' fuel' stack0' listed = Some c' ->
    seteq c c'.
  Proof.
    intros Po K K' S S' R R'.
    apply (wl_any_discipline ty_eqb ty_eqb_eq (can_step H ops top bot) (can_step H ops' top bot)
             push push' fuel fuel' stack0 stack0' listed listed c c'); auto.
    - intros x. unfold can_step, gen_up, gen_down.
      apply seteq_app; apply succ_any_children_order; auto.
    - intros x seen y Hy. apply (K x seen) in Hy. apply filter_In in Hy. tauto.
    - intros x seen y Hy. destruct (tmem y seen) eqn:M; [right; apply tmem_In, M|].
      left. apply (K x seen). apply filter_In. rewrite M. auto.
    - intros x seen y Hy. apply (K' x seen) in Hy. apply filter_In in Hy. tauto.
    - intros x seen y Hy. destruct (tmem y seen) eqn:M; [right; apply tmem_In, M|].
      left. apply (K' x seen). apply filter_In. rewrite M. auto.
    - eapply seteq_trans; [apply perm_seteq, S | apply seteq_sym, perm_seteq, S'].
    - intros x Hx. eapply Permutation_in; [apply Permutation_sym, S | exact Hx].
    - intros x Hx. eapply Permutation_in; [apply Permutation_sym, S' | exact Hx].
  Qed.
End Expand.

(* ------------------------------------------------------------------------ *)
(* what is read off the canonical set depends on it as a set only *)

Section Taxonomy.
  Variable H : hier.
  Variables canon canon' : list ty.
  Hypothesis E : seteq canon canon'.

  Lemma lang_succ_canon_set d t tr : seteq (lang_succ H canon d t tr) (lang_succ H canon' d t tr).
  Proof.
    intros s. destruct tr.
    - rewrite !lang_succ_trans, (E s). tauto.
    - rewrite !lang_succ_direct, (E s). split; intros (Hs & B & N); repeat split; auto;
        intros u Hu; apply N; apply E; exact Hu.
  Qed.

  Theorem taxonomy_canon_set : seteq (taxonomy H canon) (taxonomy H canon').
  Proof.
    intros [s t]. rewrite !taxonomy_exact, (E s), (E t).
    unfold subtypes. rewrite (lang_succ_canon_set DOWN t false s). tauto.
  Qed.

  Lemma vocab_types_canon_set : seteq (vocab_types canon) (vocab_types canon').
  Proof. unfold vocab_types. apply seteq_flat_map; [exact E | intros x; apply seteq_refl]. Qed.
End Taxonomy.

Theorem expand_canon_code_discipline H top bot ops :
  push_ok H top bot ops (can_push H ops top bot) /\
  forall fuel stack0 listed,
    expand_canon_s (can_push H ops top bot) fuel stack0 listed = expand_canon H ops top bot fuel stack0 listed.
Proof. split; [apply can_push_ok | intros; apply expand_canon_s_can_push]. Qed.

Theorem canon_set_only H canon canon' : seteq canon canon' ->
  seteq (taxonomy H canon) (taxonomy H canon') /\
  seteq (vocab_types canon) (vocab_types canon') /\
  forall d t tr, seteq (lang_succ H canon d t tr) (lang_succ H canon' d t tr).
Proof.
  intros E. split; [apply taxonomy_canon_set, E|]. split; [apply vocab_types_canon_set, E|].
  intros d t tr. apply lang_succ_canon_set, E.
Qed.
