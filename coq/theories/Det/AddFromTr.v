(* Det/AddFromTr.v -- C19: TransformationGraph.add_from (graph.py:406-422) as
   an operation on a triple store (the triples of Graph/AddExpr.v), obtained by
   lifting C09's model Graph/Closure.v; and the laws that make the ORDER of
   add_from calls unobservable on a graph whose tf:depends is the closure of its
   tf:from (the invariant C09 proves the code maintains):

     add_from_tr r a b g   has exactly: the from-edges of g and (a,b); as
                           depends-edges the transitive closure of those; every
                           other triple of g                     [In_add_from_tr]
     hence it is compatible with set-equality of stores, commutative and
     idempotent, whatever the `recursive` flags                 [aft_*]
   Stdlib only, no axioms. *)
From Coq Require Import List Arith Bool Lia Permutation.
Import ListNotations.
From TF Require Graph.Closure.
From TF Require Import Graph.AddExpr Det.Perm.

Definition is_from (t : triple) : bool := Nat.eqb (t_pred t) p_from.
Definition is_dep (t : triple) : bool := Nat.eqb (t_pred t) p_depends.
Definition edge_of (t : triple) : Closure.edge := (t_subj t, t_obj t).
Definition frm_of (g : list triple) : list Closure.edge := map edge_of (filter is_from g).
Definition dep_of (g : list triple) : list Closure.edge := map edge_of (filter is_dep g).
Definition others (g : list triple) : list triple :=
  filter (fun t => negb (is_from t) && negb (is_dep t)) g.
Definition G_of (g : list triple) : Closure.graph := Closure.mkG (frm_of g) (dep_of g).
Definition tr_of (G : Closure.graph) (rest : list triple) : list triple :=
  map (fun e => (fst e, p_from, snd e)) (Closure.frm G)
  ++ map (fun e => (fst e, p_depends, snd e)) (Closure.dep G) ++ rest.

(* self.add((a, from, b)); if with_dependencies: ... self.add((adep, depends, bdep)) *)
Definition add_from_tr (recursive : bool) (a b : node) (g : list triple) : list triple :=
  tr_of (Closure.add_from recursive (G_of g) a b) (others g).

(* tf:depends is the transitive closure of tf:from *)
Definition good (g : list triple) : Prop := Closure.closed (G_of g).

Definition teq (g g' : list triple) : Prop := seteq g g'.

Lemma In_frm_of g x y : In (x, y) (frm_of g) <-> In (x, p_from, y) g.
Proof.
  unfold frm_of. rewrite in_map_iff. split.
  - intros ([[s p] o] & E & Hf). apply filter_In in Hf. destruct Hf as [Hin Hp].
    unfold is_from, edge_of, t_subj, t_pred, t_obj in *. cbn [fst snd] in *.
    apply Nat.eqb_eq in Hp. injection E as <- <-. subst p. exact Hin.
  - intros Hin. exists (x, p_from, y). split; [reflexivity|]. apply filter_In. split; [exact Hin|].
    reflexivity.
Qed.

Lemma In_dep_of g x y : In (x, y) (dep_of g) <-> In (x, p_depends, y) g.
Proof.
  unfold dep_of. rewrite in_map_iff. split.
  - intros ([[s p] o] & E & Hf). apply filter_In in Hf. destruct Hf as [Hin Hp].
    unfold is_dep, edge_of, t_subj, t_pred, t_obj in *. cbn [fst snd] in *.
    apply Nat.eqb_eq in Hp. injection E as <- <-. subst p. exact Hin.
  - intros Hin. exists (x, p_depends, y). split; [reflexivity|]. apply filter_In. split; [exact Hin|].
    reflexivity.
Qed.

Lemma In_others g s p o : In (s, p, o) (others g) <-> p <> p_from /\ p <> p_depends /\ In (s, p, o) g.
Proof.
  unfold others. rewrite filter_In. unfold is_from, is_dep, t_pred. cbn [fst snd].
  rewrite andb_true_iff, !negb_true_iff, !Nat.eqb_neq. tauto.
Qed.

Lemma In_tr_of G rest s p o :
  In (s, p, o) (tr_of G rest) <->
  (p = p_from /\ In (s, o) (Closure.frm G)) \/ (p = p_depends /\ In (s, o) (Closure.dep G)) \/
  In (s, p, o) rest.
Proof.
  unfold tr_of. rewrite !in_app_iff, !in_map_iff. split.
  - intros [([x y] & E & H) | [([x y] & E & H) | H]].
    + cbn [fst snd] in E. injection E as <- <- <-. auto.
    + cbn [fst snd] in E. injection E as <- <- <-. auto.
    + auto.
  - intros [[-> H] | [[-> H] | H]].
    + left. exists (s, o). auto.
    + right. left. exists (s, o). auto.
    + auto.
Qed.

Lemma teq_frm g g' : teq g g' -> seteq (frm_of g) (frm_of g').
Proof. intros H [x y]. rewrite !In_frm_of. apply H. Qed.
Lemma teq_dep g g' : teq g g' -> seteq (dep_of g) (dep_of g').
Proof. intros H [x y]. rewrite !In_dep_of. apply H. Qed.

Lemma good_teq g g' : teq g g' -> good g -> good g'.
Proof.
  intros H Hg x y. unfold G_of. cbn [Closure.dep Closure.frm].
  rewrite <- (teq_dep g g' H (x, y)).
  rewrite <- (Closure.clos_ext (frm_of g) (frm_of g') (teq_frm g g' H) x y). apply Hg.
Qed.

Lemma good_nil : good [].
Proof. exact Closure.closed_empty. Qed.

(* what add_from leaves in the store *)
Lemma In_add_from_tr r a b g : good g -> forall s p o,
  In (s, p, o) (add_from_tr r a b g) <->
  (p = p_from /\ ((s, o) = (a, b) \/ In (s, p_from, o) g)) \/
  (p = p_depends /\ Closure.clos ((a, b) :: frm_of g) s o) \/
  (p <> p_from /\ p <> p_depends /\ In (s, p, o) g).
Proof.
  intros Hg s p o. unfold add_from_tr. rewrite In_tr_of, In_others.
  rewrite Closure.frm_add_from. cbn [G_of Closure.frm].
  pose proof (Closure.add_from_closed r (G_of g) a b Hg s o) as Hc. rewrite Hc.
  rewrite (Closure.clos_ext (Closure.frm (Closure.add_from r (G_of g) a b)) ((a, b) :: frm_of g)).
  - rewrite In_frm_of. tauto.
  - intros e. rewrite Closure.frm_add_from. cbn [G_of Closure.frm In]. split; intros [H | H]; auto.
Qed.

(* the part C08 relies on holds without any invariant *)
Lemma add_from_tr_ok r : add_from_ok (add_from_tr r).
Proof.
  intros a b g [[s p] o] Hp. unfold t_pred in Hp. cbn [fst snd] in Hp.
  unfold add_from_tr. rewrite In_tr_of, In_others, Closure.frm_add_from. cbn [G_of Closure.frm].
  rewrite In_frm_of. split.
  - intros [[-> [E | H]] | [[-> _] | (_ & _ & H)]]; auto.
    + injection E as -> ->. auto.
    + contradiction.
  - intros [E | H].
    + injection E as -> -> ->. auto.
    + destruct (Nat.eq_dec p p_from) as [-> | Hf]; [auto|]. right. right. auto.
Qed.

Lemma frm_add_from_tr r a b g : seteq (frm_of (add_from_tr r a b g)) ((a, b) :: frm_of g).
Proof.
  intros [x y]. rewrite In_frm_of. cbn [In]. rewrite In_frm_of.
  rewrite (add_from_tr_ok r a b g (x, p_from, y)); [|discriminate].
  split; intros [H | H]; auto.
  - injection H as -> ->. auto.
  - injection H as <- <-. auto.
Qed.

Lemma good_add_from_tr r a b g : good g -> good (add_from_tr r a b g).
Proof.
  intros Hg x y. cbn [G_of Closure.dep Closure.frm]. rewrite In_dep_of.
  rewrite (In_add_from_tr r a b g Hg).
  rewrite (Closure.clos_ext _ _ (frm_add_from_tr r a b g) x y).
  split; [|auto].
  intros [[E _] | [[_ H] | (_ & E & _)]]; [discriminate E | exact H | congruence].
Qed.

(* a triple that is neither from nor depends does not disturb the invariant *)
Lemma good_cons s p o g : p <> p_from -> p <> p_depends -> good g -> good ((s, p, o) :: g).
Proof.
  intros H1 H2 Hg. unfold good, G_of, frm_of, dep_of. cbn [filter].
  unfold is_from at 1, is_dep at 1, t_pred. cbn [fst snd].
  apply Nat.eqb_neq in H1. apply Nat.eqb_neq in H2. rewrite H1, H2. exact Hg.
Qed.

(* the same, predicate by predicate *)
Lemma In_aft_from r a b g s o :
  In (s, p_from, o) (add_from_tr r a b g) <-> (s, o) = (a, b) \/ In (s, p_from, o) g.
Proof.
  rewrite (add_from_tr_ok r a b g (s, p_from, o)); [|discriminate].
  split; intros [H | H]; auto.
  - injection H as -> ->. auto.
  - injection H as -> ->. auto.
Qed.

Lemma In_aft_dep r a b g s o : good g ->
  (In (s, p_depends, o) (add_from_tr r a b g) <-> Closure.clos ((a, b) :: frm_of g) s o).
Proof.
  intros Hg. rewrite (In_add_from_tr r a b g Hg). split; [|auto].
  intros [[E _] | [[_ H] | (_ & E & _)]]; [discriminate E | exact H | congruence].
Qed.

Lemma In_aft_other r a b g s p o : p <> p_from -> p <> p_depends ->
  (In (s, p, o) (add_from_tr r a b g) <-> In (s, p, o) g).
Proof.
  intros H1 H2. rewrite (add_from_tr_ok r a b g (s, p, o)); [|exact H2].
  split; [|auto]. intros [E | H]; [|exact H]. injection E as _ E _. congruence.
Qed.

(* case analysis on the predicate of a triple *)
Lemma teq_by_pred (g g' : list triple) :
  (forall s o, In (s, p_from, o) g <-> In (s, p_from, o) g') ->
  (forall s o, In (s, p_depends, o) g <-> In (s, p_depends, o) g') ->
  (forall s p o, p <> p_from -> p <> p_depends -> (In (s, p, o) g <-> In (s, p, o) g')) ->
  teq g g'.
Proof.
  intros H1 H2 H3 [[s p] o].
  destruct (Nat.eq_dec p p_from) as [-> | Hf]; [apply H1|].
  destruct (Nat.eq_dec p p_depends) as [-> | Hd]; [apply H2|]. apply H3; assumption.
Qed.

(* ---- the laws ---- *)

Lemma aft_compat r r' a b g g' : good g -> teq g g' ->
  teq (add_from_tr r a b g) (add_from_tr r' a b g').
Proof.
  intros Hg H. pose proof (good_teq _ _ H Hg) as Hg'. apply teq_by_pred.
  - intros s o. rewrite !In_aft_from, (H (s, p_from, o)). tauto.
  - intros s o. rewrite (In_aft_dep r a b g s o Hg), (In_aft_dep r' a b g' s o Hg').
    apply Closure.clos_ext. intros e. cbn [In]. rewrite (teq_frm g g' H e). tauto.
  - intros s p o H1 H2. rewrite !In_aft_other by assumption. apply H.
Qed.

Lemma aft_comm r1 r2 r1' r2' a b c d g : good g ->
  teq (add_from_tr r1 a b (add_from_tr r2 c d g)) (add_from_tr r2' c d (add_from_tr r1' a b g)).
Proof.
  intros Hg. apply teq_by_pred.
  - intros s o. rewrite !In_aft_from. tauto.
  - intros s o.
    rewrite (In_aft_dep r1 a b _ s o (good_add_from_tr r2 c d g Hg)).
    rewrite (In_aft_dep r2' c d _ s o (good_add_from_tr r1' a b g Hg)).
    apply Closure.clos_ext. intros e. cbn [In].
    rewrite (frm_add_from_tr r2 c d g e), (frm_add_from_tr r1' a b g e). cbn [In]. tauto.
  - intros s p o H1 H2. rewrite !In_aft_other by assumption. tauto.
Qed.

Lemma aft_idem r r' r'' a b g : good g ->
  teq (add_from_tr r a b (add_from_tr r' a b g)) (add_from_tr r'' a b g).
Proof.
  intros Hg. apply teq_by_pred.
  - intros s o. rewrite !In_aft_from. tauto.
  - intros s o.
    rewrite (In_aft_dep r a b _ s o (good_add_from_tr r' a b g Hg)).
    rewrite (In_aft_dep r'' a b g s o Hg).
    apply Closure.clos_ext. intros e. cbn [In].
    rewrite (frm_add_from_tr r' a b g e). cbn [In]. tauto.
  - intros s p o H1 H2. rewrite !In_aft_other by assumption. tauto.
Qed.

(* ---- any sequence of add_from calls: only the SET of edges matters ---- *)

Definition call := (bool * (node * node))%type.     (* recursive flag, (a, b) *)
Definition do_call (c : call) (g : list triple) : list triple :=
  add_from_tr (fst c) (fst (snd c)) (snd (snd c)) g.
Definition run_calls (cs : list call) (g : list triple) : list triple :=
  fold_left (fun acc c => do_call c acc) cs g.

Lemma good_run_calls cs : forall g, good g -> good (run_calls cs g).
Proof.
  induction cs as [|c cs IH]; intros g Hg; [exact Hg|]. cbn [run_calls fold_left].
  apply IH. apply good_add_from_tr, Hg.
Qed.

Lemma frm_run_calls cs : forall g, seteq (frm_of (run_calls cs g)) (map snd cs ++ frm_of g).
Proof.
  induction cs as [|[r [a b]] cs IH]; intros g e; [cbn; tauto|].
  cbn [run_calls fold_left]. fold (run_calls cs (do_call (r, (a, b)) g)).
  rewrite (IH _ e). unfold do_call. cbn [fst snd map app In]. rewrite !in_app_iff.
  rewrite (frm_add_from_tr r a b g e). cbn [In]. tauto.
Qed.

(* the store after a sequence of calls, described without reference to order or flags *)
Lemma In_run_calls_from cs g s o :
  In (s, p_from, o) (run_calls cs g) <-> In (s, o) (map snd cs) \/ In (s, p_from, o) g.
Proof. rewrite <- !In_frm_of, (frm_run_calls cs g (s, o)), in_app_iff. tauto. Qed.

Lemma In_run_calls_dep cs g s o : good g ->
  (In (s, p_depends, o) (run_calls cs g) <-> Closure.clos (map snd cs ++ frm_of g) s o).
Proof.
  intros Hg. pose proof (good_run_calls cs g Hg s o) as H. cbn [G_of Closure.dep Closure.frm] in H.
  rewrite <- In_dep_of, H. apply Closure.clos_ext, frm_run_calls.
Qed.

Lemma In_run_calls_other cs : forall g s p o, p <> p_from -> p <> p_depends ->
  (In (s, p, o) (run_calls cs g) <-> In (s, p, o) g).
Proof.
  induction cs as [|[r [a b]] cs IH]; intros g s p o H1 H2; [tauto|].
  cbn [run_calls fold_left]. fold (run_calls cs (do_call (r, (a, b)) g)).
  rewrite (IH _ s p o H1 H2). unfold do_call. cbn [fst snd]. apply In_aft_other; assumption.
Qed.

(* C09_order_irrelevant, from ANY graph whose depends is closed, on whole
   stores: two call sequences that add the same set of edges -- in any order,
   with any repetitions, with any flags -- leave the same set of triples *)
Theorem run_calls_seteq cs cs' g g' : good g -> teq g g' ->
  seteq (map snd cs) (map snd cs') -> teq (run_calls cs g) (run_calls cs' g').
Proof.
  intros Hg H E. pose proof (good_teq _ _ H Hg) as Hg'. apply teq_by_pred.
  - intros s o. rewrite !In_run_calls_from, (E (s, o)), (H (s, p_from, o)). tauto.
  - intros s o. rewrite (In_run_calls_dep cs g s o Hg), (In_run_calls_dep cs' g' s o Hg').
    apply Closure.clos_ext. intros e. rewrite !in_app_iff, (E e), (teq_frm g g' H e). tauto.
  - intros s p o H1 H2. rewrite !In_run_calls_other by assumption. apply H.
Qed.

Corollary run_calls_perm cs cs' g : good g -> Permutation cs cs' ->
  teq (run_calls cs g) (run_calls cs' g).
Proof.
  intros Hg Pm. apply run_calls_seteq; [exact Hg | apply seteq_refl|].
  apply perm_seteq, Permutation_map, Pm.
Qed.

(* C09's model itself (graphs as two edge lists, histories from the empty graph):
   permuting the history changes neither edge set *)
Theorem closure_run_perm (ops ops' : list Closure.op) : Permutation ops ops' ->
  seteq (Closure.frm (Closure.run ops)) (Closure.frm (Closure.run ops')) /\
  seteq (Closure.dep (Closure.run ops)) (Closure.dep (Closure.run ops')).
Proof.
  intros Pm.
  assert (E : forall e, In e (map snd ops) <-> In e (map snd ops')).
  { apply perm_seteq, Permutation_map, Pm. }
  split.
  - intros e. rewrite !Closure.run_frm. apply E.
  - intros [a b]. apply Closure.run_order_irrelevant. exact E.
Qed.
