(* Det/Perm.v -- C19, the generic part: folding an insertion that is
   commutative and idempotent (up to an equivalence on states, possibly only
   on states satisfying an invariant) over a list gives a result that depends
   only on the SET of elements of the list -- not on their order, not on
   repetitions.  This is what makes iterating a Python set (children of a type
   operator, rdflib's objects(), the canonical-type stack, tool_outputs)
   unobservable when every iteration step is such an insertion.
   Stdlib only, no axioms. *)
From Coq Require Import List Permutation.
Import ListNotations.

Definition seteq {A} (l1 l2 : list A) : Prop := forall x, In x l1 <-> In x l2.

Lemma seteq_refl {A} (l : list A) : seteq l l.
Proof. intros x. tauto. Qed.
Lemma seteq_sym {A} (l1 l2 : list A) : seteq l1 l2 -> seteq l2 l1.
Proof. intros H x. symmetry. apply H. Qed.
Lemma seteq_trans {A} (l1 l2 l3 : list A) : seteq l1 l2 -> seteq l2 l3 -> seteq l1 l3.
Proof. intros H1 H2 x. rewrite (H1 x). apply H2. Qed.

Lemma perm_seteq {A} (l1 l2 : list A) : Permutation l1 l2 -> seteq l1 l2.
Proof.
  intros P x. split; intros Hx.
  - eapply Permutation_in; eauto.
  - eapply Permutation_in; [apply Permutation_sym|]; eauto.
Qed.

Lemma seteq_map {A B} (f : A -> B) l1 l2 : seteq l1 l2 -> seteq (map f l1) (map f l2).
Proof.
  intros H y. rewrite !in_map_iff. split; intros (x & E & Hx); exists x; split; auto; apply H; auto.
Qed.

Lemma seteq_filter {A} (f : A -> bool) l1 l2 : seteq l1 l2 -> seteq (filter f l1) (filter f l2).
Proof. intros H x. rewrite !filter_In, (H x). tauto. Qed.

Lemma seteq_app {A} (a1 a2 b1 b2 : list A) : seteq a1 a2 -> seteq b1 b2 -> seteq (a1 ++ b1) (a2 ++ b2).
Proof. intros H1 H2 x. rewrite !in_app_iff, (H1 x), (H2 x). tauto. Qed.

Lemma seteq_flat_map {A B} (f g : A -> list B) l1 l2 :
  seteq l1 l2 -> (forall x, seteq (f x) (g x)) -> seteq (flat_map f l1) (flat_map g l2).
Proof.
  intros H Hf y. rewrite !in_flat_map. split; intros (x & Hx & Hy); exists x; split;
    try (apply H; assumption); apply (Hf x); assumption.
Qed.

Lemma seteq_nil {A} (l : list A) : seteq l [] -> l = [].
Proof. destruct l as [|a l]; [reflexivity|]. intros H. destruct (proj1 (H a)). now left. Qed.

Section Fold.
  Variables (S A : Type).
  Variable R : S -> S -> Prop.         (* observational equality of states *)
  Variable P : S -> Prop.              (* invariant under which the laws hold *)
  Variable ins : A -> S -> S.

  Hypothesis R_refl : forall s, R s s.
  Hypothesis R_sym : forall s s', R s s' -> R s' s.
  Hypothesis R_trans : forall s1 s2 s3, R s1 s2 -> R s2 s3 -> R s1 s3.
  Hypothesis P_R : forall s s', R s s' -> P s -> P s'.
  Hypothesis P_ins : forall a s, P s -> P (ins a s).
  Hypothesis ins_compat : forall a s s', P s -> R s s' -> R (ins a s) (ins a s').
  Hypothesis ins_comm : forall a b s, P s -> R (ins a (ins b s)) (ins b (ins a s)).
  Hypothesis ins_idem : forall a s, P s -> R (ins a (ins a s)) (ins a s).

  Definition fold (l : list A) (s : S) : S := fold_left (fun acc a => ins a acc) l s.

  Lemma fold_cons a l s : fold (a :: l) s = fold l (ins a s).
  Proof. reflexivity. Qed.

  Lemma fold_app l1 l2 s : fold (l1 ++ l2) s = fold l2 (fold l1 s).
  Proof. unfold fold. apply fold_left_app. Qed.

  Lemma fold_P l : forall s, P s -> P (fold l s).
  Proof. induction l as [|a l IH]; intros s Hs; [exact Hs|]. rewrite fold_cons. apply IH, P_ins, Hs. Qed.

  Lemma fold_compat l : forall s s', P s -> R s s' -> R (fold l s) (fold l s').
  Proof.
    induction l as [|a l IH]; intros s s' Hs H; [exact H|].
    rewrite !fold_cons. apply IH; [apply P_ins, Hs | apply ins_compat; assumption].
  Qed.

  (* order is irrelevant *)
  Theorem fold_perm l l' : Permutation l l' ->
    forall s s', P s -> R s s' -> R (fold l s) (fold l' s').
  Proof.
    induction 1 as [|a l l' _ IH|a b l|l1 l2 l3 _ IH1 _ IH2]; intros s s' Hs H.
    - exact H.
    - rewrite !fold_cons. apply IH; [apply P_ins, Hs | apply ins_compat; assumption].
    - rewrite !fold_cons. apply fold_compat; [apply P_ins, P_ins, Hs|].
      eapply R_trans; [apply ins_comm, Hs|]. apply ins_compat; [apply P_ins, Hs|].
      apply ins_compat; assumption.
    - eapply R_trans; [apply IH1; [exact Hs | apply R_refl]|]. apply IH2; assumption.
  Qed.

  (* an insertion can be moved to the end *)
  Lemma fold_push a l : forall s, P s -> R (fold l (ins a s)) (ins a (fold l s)).
  Proof.
    induction l as [|b l IH]; intros s Hs; [apply R_refl|].
    rewrite !fold_cons. eapply R_trans; [|apply IH, P_ins, Hs].
    apply fold_compat; [apply P_ins, P_ins, Hs | apply ins_comm, Hs].
  Qed.

  (* inserting once more something that has been inserted changes nothing *)
  Lemma fold_absorb a l : In a l -> forall s, P s -> R (ins a (fold l s)) (fold l s).
  Proof.
    induction l as [|b l IH]; intros Hin s Hs; [destruct Hin|].
    rewrite !fold_cons. destruct Hin as [-> | Hin].
    - eapply R_trans; [apply R_sym, fold_push, P_ins, Hs|].
      apply fold_compat; [apply P_ins, P_ins, Hs | apply ins_idem, Hs].
    - apply IH; [exact Hin | apply P_ins, Hs].
  Qed.

  Lemma fold_incl l' : forall l, incl l' l -> forall s, P s -> R (fold l' (fold l s)) (fold l s).
  Proof.
    induction l' as [|a l' IH]; intros l Hi s Hs; [apply R_refl|].
    rewrite fold_cons.
    assert (Ha : In a l) by (apply Hi; now left).
    assert (Hi' : incl l' l) by (intros x Hx; apply Hi; now right).
    eapply R_trans; [|apply (IH l Hi' s Hs)].
    apply fold_compat; [apply P_ins, fold_P, Hs | apply fold_absorb; assumption].
  Qed.

  (* neither order nor repetition matters: only the set of inserted elements *)
  Theorem fold_seteq l l' : seteq l l' ->
    forall s s', P s -> R s s' -> R (fold l s) (fold l' s').
  Proof.
    intros E s s' Hs H.
    eapply R_trans; [|apply fold_compat; [exact Hs | exact H]].
    assert (I1 : incl l' l) by (intros x Hx; apply E; exact Hx).
    assert (I2 : incl l l') by (intros x Hx; apply E; exact Hx).
    eapply R_trans; [apply R_sym, (fold_incl l' l I1 s Hs)|].
    eapply R_trans; [|apply (fold_incl l l' I2 s Hs)].
    rewrite <- !fold_app. apply fold_perm; [apply Permutation_app_comm | exact Hs | apply R_refl].
  Qed.
End Fold.

(* The plainest instance: Graph.add on a triple store seen as a set. *)
Section SetInsert.
  Variable A : Type.
  Variable eqb : A -> A -> bool.
  Hypothesis eqb_ok : forall a b, eqb a b = true <-> a = b.

  Definition sadd (a : A) (l : list A) : list A := if existsb (eqb a) l then l else a :: l.

  Lemma In_sadd a l x : In x (sadd a l) <-> x = a \/ In x l.
  Proof.
    unfold sadd. destruct (existsb (eqb a) l) eqn:E.
    - apply existsb_exists in E. destruct E as (y & Hy & Ey). apply eqb_ok in Ey. subst y.
      split; [auto | intros [-> | H]; assumption].
    - cbn [In]. split; intros [H | H]; auto.
  Qed.

  Theorem sadd_any_order l l' : seteq l l' ->
    forall s s', seteq s s' -> seteq (fold _ _ sadd l s) (fold _ _ sadd l' s').
  Proof.
    intros E s s' H.
    apply (fold_seteq (list A) A seteq (fun _ => True) sadd); auto.
    - apply seteq_refl.
    - apply seteq_sym.
    - apply seteq_trans.
    - intros a t t' _ Ht x. rewrite !In_sadd, (Ht x). tauto.
    - intros a b t _ x. rewrite !In_sadd. tauto.
    - intros a t _ x. rewrite !In_sadd. tauto.
  Qed.

  Corollary sadd_perm l l' : Permutation l l' -> forall s, seteq (fold _ _ sadd l s) (fold _ _ sadd l' s).
  Proof. intros Pm s. apply sadd_any_order; [apply perm_seteq, Pm | apply seteq_refl]. Qed.
End SetInsert.
