(* Basic graph patterns with the property paths that TransformationQuery
   generates (transforge/query.py:224-408), and their meaning over one
   workflow graph.

   A transformation graph is a finite set of triples over constants; the
   query fragment is a conjunction of triple patterns and of UNIONs of single
   triple patterns, where a pattern's predicate position holds one of the
   paths  p | p? | p/q? | p/^q?  (the only shapes query.py emits).  The
   meaning is the standard SPARQL algebra for this fragment under set
   semantics: a solution is an assignment of graph terms to variables that
   makes every conjunct hold; the sub-SELECT used for the membership
   pre-filter is an ordinary conjunct (this is NOT what rdflib computes for
   an empty GROUP BY sub-select; the harness cross-checks rdflib component by
   component).

   [matchb] is an executable decision procedure, proved equivalent to the
   declarative [matches]. *)
From Coq Require Import List Arith Bool Lia.
Import ListNotations.
From TF Require Import Base.Hier Base.Ty.

(* ---------------------------------------------------------------- terms *)

Inductive pred : Type :=
| PRdfType | POutput | PInput | PFrom | PDepends | PVia | PSubtypeOf
| PContainsType | PContainsOperation | PContainsOperator | POther (k : nat).

Inductive const : Type :=
| CWf                     (* the workflow root, value of ?workflow *)
| CTransformation         (* tf:Transformation *)
| CNode (n : nat)         (* a concept node *)
| CTy (t : ty)            (* the URI of a canonical type *)
| COp (o : nat)           (* the URI of an operator *)
| COther (k : nat).

Inductive term : Type := V (v : nat) | K (c : const).

(* property paths:  p,  p?,  p/q?,  p/^q? *)
Inductive path : Type :=
| Lnk (p : pred) | Opt (p : pred) | SeqOpt (p q : pred) | SeqInvOpt (p q : pred).

Definition tpat : Type := (term * path * term)%type.

(* a conjunct: one triple pattern, or { tp } UNION { tp } UNION ... *)
Inductive pat : Type := Tp (t : tpat) | Alt (ts : list tpat).

Definition triple : Type := (const * pred * const)%type.
Definition graph : Type := list triple.

(* ------------------------------------------------------------- equality *)

Definition pred_eqb (a b : pred) : bool :=
  match a, b with
  | PRdfType, PRdfType | POutput, POutput | PInput, PInput | PFrom, PFrom
  | PDepends, PDepends | PVia, PVia | PSubtypeOf, PSubtypeOf
  | PContainsType, PContainsType | PContainsOperation, PContainsOperation
  | PContainsOperator, PContainsOperator => true
  | POther j, POther k => Nat.eqb j k
  | _, _ => false
  end.

Lemma pred_eqb_eq a b : pred_eqb a b = true <-> a = b.
Proof.
  destruct a, b; cbn; try (split; [discriminate | congruence]); try tauto.
  rewrite Nat.eqb_eq. split; congruence.
Qed.

Definition const_eqb (a b : const) : bool :=
  match a, b with
  | CWf, CWf | CTransformation, CTransformation => true
  | CNode m, CNode n => Nat.eqb m n
  | CTy s, CTy t => ty_eqb s t
  | COp m, COp n => Nat.eqb m n
  | COther m, COther n => Nat.eqb m n
  | _, _ => false
  end.

Lemma const_eqb_eq a b : const_eqb a b = true <-> a = b.
Proof.
  destruct a, b; cbn; try (split; [discriminate | congruence]); try tauto;
    try (rewrite Nat.eqb_eq; split; congruence).
  rewrite ty_eqb_eq. split; congruence.
Qed.

Lemma const_eqb_refl a : const_eqb a a = true.
Proof. now apply const_eqb_eq. Qed.

Definition triple_eqb (x y : triple) : bool :=
  let '(a, p, b) := x in let '(c, q, d) := y in
  const_eqb a c && pred_eqb p q && const_eqb b d.

Lemma triple_eqb_eq x y : triple_eqb x y = true <-> x = y.
Proof.
  destruct x as [[a p] b], y as [[c q] d]. cbn.
  rewrite !andb_true_iff, !const_eqb_eq, pred_eqb_eq. split.
  - intros [[-> ->] ->]. reflexivity.
  - intros [= -> -> ->]. auto.
Qed.

Definition has (G : graph) (a : const) (p : pred) (b : const) : bool :=
  existsb (triple_eqb (a, p, b)) G.

Lemma has_In G a p b : has G a p b = true <-> In (a, p, b) G.
Proof.
  unfold has. rewrite existsb_exists. split.
  - intros (x & Hx & E). apply triple_eqb_eq in E. now subst.
  - intros HI. exists (a, p, b). split; auto. now apply triple_eqb_eq.
Qed.

(* ------------------------------------------------------------- meaning *)

(* a term of the graph: occurs as subject or object *)
Definition gnode (G : graph) (a : const) : Prop :=
  exists p b, In (a, p, b) G \/ In (b, p, a) G.

(* (a, b) is in the evaluation of the path over G.  The zero-length
   alternative of `p?` ranges over the terms of the graph. *)
Definition holds (G : graph) (a : const) (pa : path) (b : const) : Prop :=
  match pa with
  | Lnk p => In (a, p, b) G
  | Opt p => (a = b /\ gnode G a) \/ In (a, p, b) G
  | SeqOpt p q => exists m, In (a, p, m) G /\ (m = b \/ In (m, q, b) G)
  | SeqInvOpt p q => exists m, In (a, p, m) G /\ (m = b \/ In (b, q, m) G)
  end.

Definition assignment : Type := nat -> const.

Definition val (s : assignment) (t : term) : const :=
  match t with V v => s v | K c => c end.

Definition sat_tp (G : graph) (s : assignment) (t : tpat) : Prop :=
  let '(x, pa, y) := t in holds G (val s x) pa (val s y).

Definition sat_pat (G : graph) (s : assignment) (p : pat) : Prop :=
  match p with
  | Tp t => sat_tp G s t
  | Alt ts => Exists (sat_tp G s) ts
  end.

Definition sat (G : graph) (s : assignment) (q : list pat) : Prop :=
  Forall (sat_pat G s) q.

(* the workflow is returned by the query *)
Definition matches (G : graph) (q : list pat) : Prop := exists s, sat G s q.

Lemma sat_app G s q1 q2 : sat G s (q1 ++ q2) <-> sat G s q1 /\ sat G s q2.
Proof. apply Forall_app. Qed.

Lemma sat_flat_map {A} G s (f : A -> list pat) (l : list A) :
  sat G s (flat_map f l) <-> forall x, In x l -> sat G s (f x).
Proof.
  induction l as [|x l IH]; cbn [flat_map].
  - split; [intros _ x [] | constructor].
  - rewrite sat_app, IH. split.
    + intros [A1 A2] y [<-|Hy]; auto.
    + intros A1. split; [apply A1; now left | intros y Hy; apply A1; now right].
Qed.

(* ---------------------------------------------------- decision procedure *)

(* duplicate-free lists of constants *)
Fixpoint dedup (l : list const) : list const :=
  match l with
  | [] => []
  | x :: r => if existsb (const_eqb x) r then dedup r else x :: dedup r
  end.

Lemma dedup_In l x : In x (dedup l) <-> In x l.
Proof.
  induction l as [|y r IH]; cbn [dedup]; [tauto|].
  destruct (existsb (const_eqb y) r) eqn:E.
  - rewrite IH. split; [intros HI; now right|]. intros [E1|HI]; auto. subst x.
    apply existsb_exists in E. destruct E as (z & Hz & E). apply const_eqb_eq in E. now subst.
  - cbn [In]. rewrite IH. tauto.
Qed.

(* all terms of the graph *)
Definition gnodes (G : graph) : list const :=
  dedup (flat_map (fun tr : triple => let '(a, _, b) := tr in [a; b]) G).

Lemma gnodes_spec G a : In a (gnodes G) <-> gnode G a.
Proof.
  unfold gnodes, gnode. rewrite dedup_In, in_flat_map. split.
  - intros ([[x p] y] & Hx & Ha). cbn in Ha. destruct Ha as [<-|[<-|[]]].
    + exists p, y. now left.
    + exists p, x. now right.
  - intros (p & b & [HI|HI]).
    + exists (a, p, b). split; auto. now left.
    + exists (b, p, a). split; auto. right. now left.
Qed.

(* objects / subjects of p-triples at a given term *)
Definition objs (G : graph) (a : const) (p : pred) : list const :=
  flat_map (fun tr : triple => let '(x, q, y) := tr in
    if const_eqb x a && pred_eqb q p then [y] else []) G.
Definition subjs (G : graph) (p : pred) (b : const) : list const :=
  flat_map (fun tr : triple => let '(x, q, y) := tr in
    if const_eqb y b && pred_eqb q p then [x] else []) G.

Lemma objs_spec G a p b : In b (objs G a p) <-> In (a, p, b) G.
Proof.
  unfold objs. rewrite in_flat_map. split.
  - intros ([[x q] y] & Hx & Hb).
    destruct (const_eqb x a && pred_eqb q p) eqn:E; [|destruct Hb].
    apply andb_true_iff in E. destruct E as [E1 E2].
    apply const_eqb_eq in E1. apply pred_eqb_eq in E2. subst.
    destruct Hb as [<-|[]]. auto.
  - intros HI. exists (a, p, b). split; auto.
    rewrite const_eqb_refl. replace (pred_eqb p p) with true; [now left|].
    symmetry. now apply pred_eqb_eq.
Qed.

Lemma subjs_spec G a p b : In a (subjs G p b) <-> In (a, p, b) G.
Proof.
  unfold subjs. rewrite in_flat_map. split.
  - intros ([[x q] y] & Hx & Hb).
    destruct (const_eqb y b && pred_eqb q p) eqn:E; [|destruct Hb].
    apply andb_true_iff in E. destruct E as [E1 E2].
    apply const_eqb_eq in E1. apply pred_eqb_eq in E2. subst.
    destruct Hb as [<-|[]]. auto.
  - intros HI. exists (a, p, b). split; auto.
    rewrite const_eqb_refl. replace (pred_eqb p p) with true; [now left|].
    symmetry. now apply pred_eqb_eq.
Qed.

(* the evaluation of a path: all pairs it relates *)
Definition pairs (G : graph) (pa : path) : list (const * const) :=
  match pa with
  | Lnk p => flat_map (fun tr : triple => let '(x, q, y) := tr in
               if pred_eqb q p then [(x, y)] else []) G
  | Opt p => map (fun a => (a, a)) (gnodes G) ++
             flat_map (fun tr : triple => let '(x, q, y) := tr in
               if pred_eqb q p then [(x, y)] else []) G
  | SeqOpt p q => flat_map (fun tr : triple => let '(x, r, m) := tr in
               if pred_eqb r p then (x, m) :: map (fun b => (x, b)) (objs G m q) else []) G
  | SeqInvOpt p q => flat_map (fun tr : triple => let '(x, r, m) := tr in
               if pred_eqb r p then (x, m) :: map (fun b => (x, b)) (subjs G q m) else []) G
  end.

Lemma pairs_lnk G p a b :
  In (a, b) (flat_map (fun tr : triple => let '(x, q, y) := tr in
               if pred_eqb q p then [(x, y)] else []) G) <-> In (a, p, b) G.
Proof.
  rewrite in_flat_map. split.
  - intros ([[x q] y] & Hx & Hb). destruct (pred_eqb q p) eqn:E; [|destruct Hb].
    apply pred_eqb_eq in E. subst. destruct Hb as [[= <- <-]|[]]. auto.
  - intros HI. exists (a, p, b). split; auto.
    replace (pred_eqb p p) with true; [now left|]. symmetry. now apply pred_eqb_eq.
Qed.

Lemma pairs_spec G pa a b : In (a, b) (pairs G pa) <-> holds G a pa b.
Proof.
  destruct pa as [p|p|p q|p q]; cbn [pairs holds].
  - apply pairs_lnk.
  - rewrite in_app_iff, pairs_lnk, in_map_iff. split.
    + intros [(x & [= <- <-] & Hx)|HI]; auto. left. split; auto. now apply gnodes_spec.
    + intros [[<- Hn]|HI]; auto. left. exists a. split; auto. now apply gnodes_spec.
  - rewrite in_flat_map. split.
    + intros ([[x r] m] & Hx & Hb). destruct (pred_eqb r p) eqn:E; [|destruct Hb].
      apply pred_eqb_eq in E. subst r. destruct Hb as [[= -> ->]|Hb].
      * exists b. auto.
      * apply in_map_iff in Hb. destruct Hb as (y & [= <- <-] & Hy).
        apply objs_spec in Hy. exists m. auto.
    + intros (m & H1 & H2). exists (a, p, m). split; auto.
      replace (pred_eqb p p) with true by (symmetry; now apply pred_eqb_eq).
      destruct H2 as [<-|H2]; [now left|right].
      apply in_map_iff. exists b. split; auto. now apply objs_spec.
  - rewrite in_flat_map. split.
    + intros ([[x r] m] & Hx & Hb). destruct (pred_eqb r p) eqn:E; [|destruct Hb].
      apply pred_eqb_eq in E. subst r. destruct Hb as [[= -> ->]|Hb].
      * exists b. auto.
      * apply in_map_iff in Hb. destruct Hb as (y & [= <- <-] & Hy).
        apply subjs_spec in Hy. exists m. auto.
    + intros (m & H1 & H2). exists (a, p, m). split; auto.
      replace (pred_eqb p p) with true by (symmetry; now apply pred_eqb_eq).
      destruct H2 as [<-|H2]; [now left|right].
      apply in_map_iff. exists b. split; auto. now apply subjs_spec.
Qed.

(* partial assignments *)
Definition env : Type := list (nat * const).

Fixpoint lookup (v : nat) (r : env) : option const :=
  match r with
  | [] => None
  | (w, c) :: r' => if Nat.eqb v w then Some c else lookup v r'
  end.

Definition agrees (s : assignment) (r : env) : Prop :=
  forall v c, lookup v r = Some c -> s v = c.

Definition bind (r : env) (t : term) (c : const) : option env :=
  match t with
  | K k => if const_eqb k c then Some r else None
  | V v => match lookup v r with
           | Some c' => if const_eqb c' c then Some r else None
           | None => Some ((v, c) :: r)
           end
  end.

Lemma bind_sound r t c r' : bind r t c = Some r' ->
  forall s, agrees s r' -> agrees s r /\ val s t = c.
Proof.
  destruct t as [v|k]; cbn [bind val].
  - destruct (lookup v r) as [c'|] eqn:L.
    + destruct (const_eqb c' c) eqn:E; [|discriminate]. intros [= <-] s A.
      apply const_eqb_eq in E. subst. split; auto.
    + intros [= <-] s A. split.
      * intros w d Hw. apply A. cbn [lookup].
        destruct (Nat.eqb w v) eqn:E; auto. apply Nat.eqb_eq in E. subst. congruence.
      * apply A. cbn [lookup]. now rewrite Nat.eqb_refl.
  - destruct (const_eqb k c) eqn:E; [|discriminate]. intros [= <-] s A.
    apply const_eqb_eq in E. auto.
Qed.

Lemma bind_complete r t s : agrees s r ->
  exists r', bind r t (val s t) = Some r' /\ agrees s r'.
Proof.
  intros A. destruct t as [v|k]; cbn [bind val].
  - destruct (lookup v r) as [c'|] eqn:L.
    + rewrite (A _ _ L), const_eqb_refl. eauto.
    + eexists. split; [reflexivity|]. intros w d. cbn [lookup].
      destruct (Nat.eqb w v) eqn:E; auto. apply Nat.eqb_eq in E. subst. congruence.
  - rewrite const_eqb_refl. eauto.
Qed.

Definition ext_tp (G : graph) (r : env) (t : tpat) : list env :=
  let '(x, pa, y) := t in
  flat_map (fun ab : const * const =>
    match bind r x (fst ab) with
    | Some r1 => match bind r1 y (snd ab) with Some r2 => [r2] | None => [] end
    | None => []
    end) (pairs G pa).

Definition ext_pat (G : graph) (r : env) (p : pat) : list env :=
  match p with
  | Tp t => ext_tp G r t
  | Alt ts => flat_map (ext_tp G r) ts
  end.

Fixpoint solveb (G : graph) (q : list pat) (r : env) : bool :=
  match q with
  | [] => true
  | p :: q' => existsb (solveb G q') (ext_pat G r p)
  end.

Definition matchb (G : graph) (q : list pat) : bool := solveb G q [].

Lemma ext_tp_sound G r t r' : In r' (ext_tp G r t) ->
  forall s, agrees s r' -> agrees s r /\ sat_tp G s t.
Proof.
  destruct t as [[x pa] y]. unfold ext_tp. rewrite in_flat_map.
  intros ([a b] & Hab & Hr) s A. cbn [fst snd] in Hr.
  destruct (bind r x a) as [r1|] eqn:B1; [|destruct Hr].
  destruct (bind r1 y b) as [r2|] eqn:B2; [|destruct Hr].
  destruct Hr as [<-|[]].
  destruct (bind_sound _ _ _ _ B2 s A) as [A1 Vy].
  destruct (bind_sound _ _ _ _ B1 s A1) as [A0 Vx].
  split; auto. cbn [sat_tp]. rewrite Vx, Vy. now apply pairs_spec.
Qed.

Lemma ext_tp_complete G r t s : agrees s r -> sat_tp G s t ->
  exists r', In r' (ext_tp G r t) /\ agrees s r'.
Proof.
  destruct t as [[x pa] y]. cbn [sat_tp]. intros A HS. apply pairs_spec in HS.
  destruct (bind_complete r x s A) as (r1 & B1 & A1).
  destruct (bind_complete r1 y s A1) as (r2 & B2 & A2).
  exists r2. split; auto. unfold ext_tp. rewrite in_flat_map.
  exists (val s x, val s y). split; auto. cbn [fst snd]. rewrite B1, B2. now left.
Qed.

Lemma ext_pat_sound G r p r' : In r' (ext_pat G r p) ->
  forall s, agrees s r' -> agrees s r /\ sat_pat G s p.
Proof.
  destruct p as [t|ts]; cbn [ext_pat sat_pat].
  - apply ext_tp_sound.
  - rewrite in_flat_map. intros (t & Ht & Hr) s A.
    destruct (ext_tp_sound _ _ _ _ Hr s A) as [A0 S]. split; auto.
    apply Exists_exists. eauto.
Qed.

Lemma ext_pat_complete G r p s : agrees s r -> sat_pat G s p ->
  exists r', In r' (ext_pat G r p) /\ agrees s r'.
Proof.
  destruct p as [t|ts]; cbn [ext_pat sat_pat]; intros A HS.
  - now apply ext_tp_complete.
  - apply Exists_exists in HS. destruct HS as (t & Ht & HS).
    destruct (ext_tp_complete G r t s A HS) as (r' & Hr & A').
    exists r'. split; auto. apply in_flat_map. eauto.
Qed.

Definition of_env (r : env) : assignment :=
  fun v => match lookup v r with Some c => c | None => CWf end.

Lemma of_env_agrees r : agrees (of_env r) r.
Proof. intros v c L. unfold of_env. now rewrite L. Qed.

Lemma solveb_sound G q : forall r, solveb G q r = true ->
  exists s, agrees s r /\ sat G s q.
Proof.
  induction q as [|p q IH]; intros r; cbn [solveb].
  - intros _. exists (of_env r). split; [apply of_env_agrees | constructor].
  - rewrite existsb_exists. intros (r' & Hr & HS).
    destruct (IH r' HS) as (s & A & S).
    destruct (ext_pat_sound _ _ _ _ Hr s A) as [A0 SP].
    exists s. split; auto. constructor; auto.
Qed.

Lemma solveb_complete G q : forall r s, agrees s r -> sat G s q -> solveb G q r = true.
Proof.
  induction q as [|p q IH]; intros r s A S; cbn [solveb]; auto.
  inversion S as [|p' q' SP SQ]; subst.
  destruct (ext_pat_complete G r p s A SP) as (r' & Hr & A').
  apply existsb_exists. exists r'. split; auto. eapply IH; eauto.
Qed.

Theorem matchb_spec G q : matchb G q = true <-> matches G q.
Proof.
  unfold matchb, matches. split.
  - intros HS. destruct (solveb_sound G q [] HS) as (s & _ & S). eauto.
  - intros (s & S). apply (solveb_complete G q [] s); auto. intros v c. discriminate.
Qed.

(* The same search with every path evaluated once, before the search starts
   (this is the version the harness runs). *)
Definition ctp : Type := (term * list (const * const) * term)%type.

Definition compile_tp (G : graph) (t : tpat) : ctp :=
  let '(x, pa, y) := t in (x, pairs G pa, y).

Definition compile (G : graph) (p : pat) : list ctp :=
  match p with
  | Tp t => [compile_tp G t]
  | Alt ts => map (compile_tp G) ts
  end.

Definition ext_ctp (r : env) (t : ctp) : list env :=
  let '(x, ps, y) := t in
  flat_map (fun ab : const * const =>
    match bind r x (fst ab) with
    | Some r1 => match bind r1 y (snd ab) with Some r2 => [r2] | None => [] end
    | None => []
    end) ps.

Fixpoint solvec (q : list (list ctp)) (r : env) : bool :=
  match q with
  | [] => true
  | c :: q' => existsb (solvec q') (flat_map (ext_ctp r) c)
  end.

Definition matchc (G : graph) (q : list pat) : bool := solvec (map (compile G) q) [].

Lemma ext_ctp_compile G r t : ext_ctp r (compile_tp G t) = ext_tp G r t.
Proof. destruct t as [[x pa] y]. reflexivity. Qed.

Lemma ext_compile G r p : flat_map (ext_ctp r) (compile G p) = ext_pat G r p.
Proof.
  destruct p as [t|ts]; cbn [compile ext_pat flat_map].
  - rewrite app_nil_r. apply ext_ctp_compile.
  - induction ts as [|t ts IH]; cbn [map flat_map]; auto.
    now rewrite IH, ext_ctp_compile.
Qed.

Lemma existsb_ext_in {A} (f g : A -> bool) l :
  (forall x, f x = g x) -> existsb f l = existsb g l.
Proof. intros E. induction l as [|x l IH]; cbn; auto. now rewrite E, IH. Qed.

Lemma solvec_solveb G q : forall r, solvec (map (compile G) q) r = solveb G q r.
Proof.
  induction q as [|p q IH]; intros r; cbn [map solvec solveb]; auto.
  rewrite ext_compile. now apply existsb_ext_in.
Qed.

Theorem matchc_spec G q : matchc G q = true <-> matches G q.
Proof. unfold matchc. rewrite solvec_solveb. apply matchb_spec. Qed.

(* predicates a query tests *)
Definition path_preds (pa : path) : list pred :=
  match pa with
  | Lnk p | Opt p => [p]
  | SeqOpt p q | SeqInvOpt p q => [p; q]
  end.
Definition tpat_preds (t : tpat) : list pred := let '(_, pa, _) := t in path_preds pa.
Definition pat_preds (p : pat) : list pred :=
  match p with Tp t => tpat_preds t | Alt ts => flat_map tpat_preds ts end.
Definition query_preds (q : list pat) : list pred := flat_map pat_preds q.

(* ------------------------------------------------------------------ *)
(* The order of the conjuncts does not matter for the meaning, but it does
   for the cost of the search: [reorder] greedily puts next the conjunct with
   the fewest unbound variables, preferring one that shares a variable with
   what is already bound.  [matcho] is what the harness evaluates. *)

Definition tp_vars (t : tpat) : list nat :=
  let '(x, _, y) := t in
  (match x with V v => [v] | K _ => [] end) ++ (match y with V v => [v] | K _ => [] end).

Definition pat_vars (p : pat) : list nat :=
  match p with Tp t => tp_vars t | Alt ts => flat_map tp_vars ts end.

Definition score (B : list nat) (p : pat) : nat :=
  let vs := pat_vars p in
  let unbound := length (filter (fun v => negb (existsb (Nat.eqb v) B)) vs) in
  match unbound with
  | 0 => 0
  | _ => 2 * unbound + (if existsb (fun v => existsb (Nat.eqb v) B) vs then 0 else 1)
  end.

Fixpoint pick (B : list nat) (l : list pat) : option (pat * list pat) :=
  match l with
  | [] => None
  | p :: r =>
      match pick B r with
      | None => Some (p, [])
      | Some (q, r') => if Nat.leb (score B p) (score B q) then Some (p, r) else Some (q, p :: r')
      end
  end.

Lemma pick_In B l q r' : pick B l = Some (q, r') -> forall x, In x l <-> x = q \/ In x r'.
Proof.
  revert q r'. induction l as [|p r IH]; intros q r'; cbn [pick]; [discriminate|].
  destruct (pick B r) as [[q0 r0]|] eqn:E.
  - specialize (IH q0 r0 eq_refl).
    destruct (Nat.leb (score B p) (score B q0)); intros [= <- <-]; intros x; cbn [In].
    + intuition.
    + rewrite IH. intuition.
  - intros [= <- <-] x. destruct r; [|cbn in E; destruct (pick B r); try destruct p1;
      try destruct (Nat.leb _ _); discriminate]. cbn. intuition.
Qed.

Fixpoint reorder (fuel : nat) (B : list nat) (l : list pat) : list pat :=
  match fuel with
  | 0 => l
  | S f => match pick B l with
           | None => []
           | Some (q, r) => q :: reorder f (pat_vars q ++ B) r
           end
  end.

Lemma reorder_In fuel : forall B l x, In x (reorder fuel B l) <-> In x l.
Proof.
  induction fuel as [|f IH]; intros B l x; cbn [reorder]; [tauto|].
  destruct (pick B l) as [[q r]|] eqn:E.
  - cbn [In]. rewrite IH, (pick_In B l q r E x). intuition.
  - destruct l; [tauto|]. cbn in E. destruct (pick B l); try destruct p0;
      try destruct (Nat.leb _ _); discriminate.
Qed.

Definition matcho (G : graph) (q : list pat) : bool := matchc G (reorder (length q) [] q).

Theorem matcho_spec G q : matcho G q = true <-> matches G q.
Proof.
  unfold matcho. rewrite matchc_spec. unfold matches, sat.
  split; intros (s & S); exists s; rewrite Forall_forall in *; intros p Hp; apply S.
  - now apply reorder_In.
  - now apply reorder_In in Hp.
Qed.
