(* C11: the generated query against the property's sentence.

   [assignable]: the task's steps (variables of the skeleton) can be assigned
   to terms of the workflow graph such that the task output is the workflow
   output (or a direct input of it), each step's operator is the node's, each
   step's type is one of the node's canonical supertypes, and each
   precedes-link follows the node's dependencies (with the documented
   same-step rule).

   Graph hypotheses [graph_ok] are the facts other properties establish about
   transformation graphs (C07: a node carries all canonical supertypes of its
   type; C12: membership triples cover what the nodes carry). *)
From Coq Require Import List Arith Bool Lia.
Import ListNotations.
From TF Require Import Base.Hier Base.Ty Sub.Match Sub.SubSpec Sub.SubProofs.
From TF Require Import Bag.Union Bag.Bag Bag.BagTy Query.Bgp Query.Gen Query.GenProofs.

Record graph_ok (H : hier) (canon : ty -> Prop) (G : graph) : Prop := {
  g_root : In (CWf, PRdfType, CTransformation) G;
  g_sub_up : forall n t t', In (n, PSubtypeOf, CTy t) G -> canon t' -> Sub H t t' ->
               In (n, PSubtypeOf, CTy t') G;
  g_mem_ty : forall n t, In (n, PSubtypeOf, CTy t) G -> In (CWf, PContainsType, CTy t) G;
  g_mem_up : forall t t', In (CWf, PContainsType, CTy t) G -> canon t' -> Sub H t t' ->
               In (CWf, PContainsType, CTy t') G;
  g_mem_wf : forall t, In (CWf, PContainsType, CTy t) G -> wf_ty H t;
  g_mem_op : forall n o, In (n, PVia, COp o) G -> In (CWf, PContainsOperation, COp o) G
}.

(* the task's types are canonical types of the language *)
Definition sk_canon (H : hier) (canon : ty -> Prop) (sk : skel) : Prop :=
  forall v t, In t (tyof sk v) -> canon t /\ wf_ty H t.

Definition typ_ok (G : graph) (sk : skel) (s : assignment) (v : nat) : Prop :=
  typ_ok_set G (tyof sk v) (s v).

(* ---------------------------------------------------------------- *)
(* per-step type disjunction: the most general alternatives suffice *)

Section Types.
  Variable H : hier.
  Hypothesis W : wf_hier H.
  Variable canon : ty -> Prop.
  Variable G : graph.
  Hypothesis GOK : graph_ok H canon G.

  Local Notation U := (union_of_cover ty (wf_ty H) (ty_leb H) ty_eqb ty_eqb_eq
                         (ty_le_refl H W) (ty_le_trans H W) (ty_le_antisym H W)).

  Lemma type_set_iff sk v c : sk_canon H canon sk ->
    (typ_ok_set G (type_set H sk v) c <-> typ_ok_set G (tyof sk v) c).
  Proof.
    intros CAN. unfold typ_ok_set, type_set, ty_union_of.
    assert (WF : Forall (wf_ty H) (tyof sk v)).
    { rewrite Forall_forall. intros t Ht. now apply (CAN v t). }
    pose proof (union_of_sub ty (wf_ty H) (ty_leb H) ty_eqb ty_eqb_eq
      (ty_le_refl H W) (ty_le_trans H W) (ty_le_antisym H W) false (tyof sk v) WF) as SUB.
    pose proof (union_of_nil_iff ty (wf_ty H) (ty_leb H) ty_eqb ty_eqb_eq
      (ty_le_refl H W) (ty_le_trans H W) (ty_le_antisym H W) false (tyof sk v) WF) as NIL.
    split.
    - intros [E|(t & Ht & HI)].
      + left. now apply NIL.
      + right. exists t. split; auto.
    - intros [E|(t & Ht & HI)].
      + left. now apply NIL.
      + right. destruct (U false (tyof sk v) WF t Ht) as (m & Hm & Em).
        exists m. split; auto. cbn [ext] in Em.
        pose proof (SUB m Hm) as Hm'.
        destruct (CAN v t Ht) as [_ Wt]. destruct (CAN v m Hm') as [Cm Wm].
        apply (g_sub_up H canon G GOK c t m); auto.
        now apply (ty_leb_spec H W t m).
  Qed.

  (* ---------------------------------------------------------------- *)
  (* the type pre-filter: Bag reduction does not change its meaning (C20) *)

  Definition cty (t : ty) : Prop := In (CWf, PContainsType, CTy t) G.
  Definition cty_up (t : ty) : Prop := exists t0, cty t0 /\ Sub H t0 t.

  Lemma cty_up_closed : up_closed H cty_up.
  Proof.
    intros a b Wa Wb (t0 & C0 & S0) Sab. exists t0. split; auto.
    eapply Sub_trans; eauto.
  Qed.

  Lemma cty_up_canon t : canon t -> (cty_up t <-> cty t).
  Proof.
    intros Ct. split.
    - intros (t0 & C0 & S0). apply (g_mem_up H canon G GOK t0 t); auto.
    - intros C0. exists t. split; auto. apply Sub_refl. apply (g_mem_wf H canon G GOK t C0).
  Qed.

  (* every alternative of a clause of the bag was inserted *)
  Lemma bag_add_sub content news c t :
    Forall (wf_ty H) news ->
    In c (ty_bag_add H content news) -> In t c ->
    (In c content) \/ In t news.
  Proof.
    intros Wn. unfold ty_bag_add, bag_add.
    destruct (existsb (covered ty (ty_leb H) content) news); [auto|].
    destruct (is_nil (union_of ty (ty_leb H) ty_eqb false news)); [auto|].
    intros Hc Ht. apply in_app_or in Hc. destruct Hc as [Hc|[<-|[]]].
    - left. apply filter_In in Hc. tauto.
    - right. apply (union_of_sub ty (wf_ty H) (ty_leb H) ty_eqb ty_eqb_eq
        (ty_le_refl H W) (ty_le_trans H W) (ty_le_antisym H W) false news Wn t Ht).
  Qed.

  Lemma bag_of_sub : forall h content c t, Forall (Forall (wf_ty H)) h ->
    In c (fold_left (ty_bag_add H) h content) -> In t c ->
    In c content \/ exists news, In news h /\ In t news.
  Proof.
    induction h as [|news h IH]; intros content c t Wh Hc Ht; cbn [fold_left] in Hc; auto.
    inversion Wh as [|n0 h0 Wn Wh']; subst.
    destruct (IH _ c t Wh' Hc Ht) as [A|(n & Hn & Hnt)].
    - destruct (bag_add_sub content news c t Wn A Ht) as [B|B]; auto.
      right. exists news. split; auto. now left.
    - right. exists n. split; auto. now right.
  Qed.

  Lemma prefilter_types sk : sk_canon H canon sk ->
    ((forall c, In c (ty_bag_of H (sk_ty sk)) -> clause_ok G c) <->
     (forall v, v < sk_n sk -> tyof sk v <> [] -> exists t, In t (tyof sk v) /\ cty t)).
  Proof.
    intros CAN.
    assert (Wh : Forall (Forall (wf_ty H)) (sk_ty sk)).
    { rewrite Forall_forall. intros news Hn. rewrite Forall_forall. intros t Ht.
      destruct (In_nth _ _ [] Hn) as (v & Hv & E). apply (CAN v t). unfold tyof. now rewrite E. }
    assert (CANh : forall news t, In news (sk_ty sk) -> In t news -> canon t).
    { intros news t Hn Ht. destruct (In_nth _ _ [] Hn) as (v & Hv & E).
      apply (CAN v t). unfold tyof. now rewrite E. }
    pose proof (ty_bag_sem H W (sk_ty sk) cty_up Wh cty_up_closed) as SEM.
    pose proof (ty_bag_ok H W (sk_ty sk) Wh) as OK. rewrite Forall_forall in OK.
    unfold Bag.sat, req in SEM. rewrite !Forall_forall in SEM.
    split.
    - intros A v Hv NE.
      assert (S1 : forall c, In c (ty_bag_of H (sk_ty sk)) -> Exists cty_up c).
      { intros c Hc. destruct (A c Hc) as [E|(t & Ht & HI)].
        - destruct (OK c Hc) as [NEc _]. congruence.
        - apply Exists_exists. exists t. split; auto. exists t. split; auto.
          apply Sub_refl. apply (g_mem_wf H canon G GOK t HI). }
      pose proof (proj1 SEM S1) as S1'. clear S1. rename S1' into S1.
      specialize (S1 (tyof sk v) (nth_In _ _ Hv) NE).
      apply Exists_exists in S1. destruct S1 as (t & Ht & Ct). exists t. split; auto.
      apply cty_up_canon; auto. apply (CAN v t Ht).
    - intros A c Hc. right.
      assert (S2 : forall news, In news (sk_ty sk) -> news <> [] -> Exists cty_up news).
      { intros news Hn NE. destruct (In_nth _ _ [] Hn) as (v & Hv & E).
        destruct (A v Hv) as (t & Ht & Ct); [unfold tyof; now rewrite E|].
        apply Exists_exists. exists t. unfold tyof in Ht. rewrite E in Ht. split; auto.
        apply cty_up_canon; auto. apply (CANh news t Hn Ht). }
      pose proof (proj2 SEM S2) as S2'. clear S2. rename S2' into S2.
      specialize (S2 c Hc). apply Exists_exists in S2.
      destruct S2 as (t & Ht & Ct). exists t. split; auto.
      apply cty_up_canon; auto.
      destruct (bag_of_sub (sk_ty sk) [] c t Wh Hc Ht) as [[]|(news & Hn & Hnt)].
      apply (CANh news t Hn Hnt).
  Qed.
End Types.

(* ---------------------------------------------------------------- *)

Lemma definite_ops_spec sk o : sk_valid sk ->
  (In o (definite_ops sk) <-> exists v, v < sk_n sk /\ opof sk v = [o]).
Proof.
  intros (_ & _ & _ & LEN). unfold definite_ops. rewrite nodupn_In, in_flat_map. split.
  - intros (ops & Hops & Ho). destruct ops as [|o1 [|o2 r]]; [destruct Ho| |destruct Ho].
    destruct Ho as [<-|[]]. destruct (In_nth _ _ [] Hops) as (v & Hv & E).
    exists v. split; [lia|]. exact E.
  - intros (v & Hv & E). exists [o]. split; [|now left].
    rewrite <- E. apply nth_In. lia.
Qed.

(* the meaning of the membership pre-filter *)
Definition prefilter_sem (sw : switches) (G : graph) (sk : skel) : Prop :=
  In (CWf, PRdfType, CTransformation) G /\
  (by_operators sw = true -> forall v o, v < sk_n sk -> opof sk v = [o] ->
     In (CWf, PContainsOperation, COp o) G) /\
  (by_types sw = true -> forall v, v < sk_n sk -> tyof sk v <> [] ->
     exists t, In t (tyof sk v) /\ In (CWf, PContainsType, CTy t) G).

(* the flow conditions, with every alternative type of a step allowed *)
Definition flow_sem (sw : switches) (G : graph) (sk : skel) (s : assignment) : Prop :=
  (forall v, In v (sk_outs sk) -> holds G CWf (out_path sw) (s v) /\ typ_ok G sk s v) /\
  (by_io sw = true -> forall v, In v (sk_ins sk) ->
     holds G CWf (in_path sw) (s v) /\ typ_ok G sk s v) /\
  (by_chronology sw = true -> forall v, v < sk_n sk ->
     via_ok G sk s v /\ (after sk v <> [] -> typ_ok G sk s v) /\
     forall c, In (c, v) (sk_edges sk) -> link_ok G sk s c v).

Theorem gen_sem H canon sw sk G : wf_hier H -> graph_ok H canon G -> sk_dag sk ->
  sk_canon H canon sk ->
  (matches G (gen H sw sk) <-> prefilter_sem sw G sk /\ exists s, flow_sem sw G sk s).
Proof.
  intros W GOK DAG CAN. rewrite gen_matches; auto.
  assert (PRE : pre_raw H sw G sk <-> prefilter_sem sw G sk).
  { unfold pre_raw, prefilter_sem.
    pose proof (prefilter_types H W canon G GOK sk CAN) as PT. unfold cty in PT.
    destruct DAG as (VAL & _). split.
    - intros (R & O & T). split; auto. split.
      + intros E v o Hv Eo. apply O; auto. apply definite_ops_spec; eauto.
      + intros E. apply PT. auto.
    - intros (R & O & T). split; auto. split.
      + intros E o Ho. apply definite_ops_spec in Ho; auto. destruct Ho as (v & Hv & Eo). eauto.
      + intros E. apply PT. auto. }
  rewrite PRE.
  assert (FLOW : forall s, flow_raw H sw G sk s <-> flow_sem sw G sk s).
  { intros s. unfold flow_raw, flow_sem, out_raw, in_raw, step_raw, typ_ok.
    assert (TS : forall v, typ_ok_set G (type_set H sk v) (s v) <-> typ_ok_set G (tyof sk v) (s v)).
    { intros v. apply (type_set_iff H W canon G GOK); auto. }
    split.
    - intros (O & I & C). split; [|split].
      + intros v Hv. destruct (O v Hv). split; auto. now apply TS.
      + intros E v Hv. destruct (I E v Hv). split; auto. now apply TS.
      + intros E v Hv. destruct (C E v Hv) as (L & V & T). split; auto. split; auto.
        intros NE. apply TS. auto.
    - intros (O & I & C). split; [|split].
      + intros v Hv. destruct (O v Hv). split; auto. now apply TS.
      + intros E v Hv. destruct (I E v Hv). split; auto. now apply TS.
      + intros E v Hv. destruct (C E v Hv) as (V & T & L). split; auto. split; auto.
        intros NE. apply TS. auto. }
  split.
  - intros (P & s & F). split; auto. exists s. now apply FLOW.
  - intros (P & s & F). split; auto. exists s. now apply FLOW.
Qed.

(* ---------------------------------------------------------------- *)
(* the property's sentence (by_chronology on) *)

Definition assignable (sw : switches) (G : graph) (sk : skel) : Prop :=
  exists s : assignment,
    (forall v, In v (sk_outs sk) -> holds G CWf (out_path sw) (s v)) /\
    (by_io sw = true -> forall v, In v (sk_ins sk) -> holds G CWf (in_path sw) (s v)) /\
    (forall v, v < sk_n sk -> via_ok G sk s v /\ typ_ok G sk s v) /\
    (forall c v, In (c, v) (sk_edges sk) -> link_ok G sk s c v).

Lemma assignable_prefilter H canon sw sk G s : graph_ok H canon G -> sk_valid sk ->
  (forall v, v < sk_n sk -> via_ok G sk s v /\ typ_ok G sk s v) ->
  prefilter_sem sw G sk.
Proof.
  intros GOK VAL A. split; [apply (g_root H canon G GOK)|]. split.
  - intros _ v o Hv Eo. destruct (A v Hv) as [[E|(o' & Ho & HI)] _]; [congruence|].
    rewrite Eo in Ho. destruct Ho as [<-|[]].
    apply (g_mem_op H canon G GOK _ _ HI).
  - intros _ v Hv NE. destruct (A v Hv) as [_ [E|(t & Ht & HI)]]; [congruence|].
    exists t. split; auto. apply (g_mem_ty H canon G GOK _ _ HI).
Qed.

Theorem gen_spec H canon sw sk G : wf_hier H -> graph_ok H canon G -> sk_dag sk ->
  sk_canon H canon sk -> by_chronology sw = true ->
  (matches G (gen H sw sk) <-> assignable sw G sk).
Proof.
  intros W GOK DAG CAN CH. rewrite (gen_sem H canon); auto. unfold assignable, flow_sem.
  destruct DAG as (VAL & RK & CONN). split.
  - intros (P & s & O & I & C). exists s. split; [|split; [|split]].
    + intros v Hv. apply (O v Hv).
    + intros E v Hv. apply (I E v Hv).
    + intros v Hv. destruct (C CH v Hv) as (V & T & L). split; auto.
      destruct (CONN v Hv) as [HO|HA]; auto. apply (O v HO).
    + intros c v Hcv. destruct VAL as (VE & _). destruct (VE c v Hcv) as [_ Hv].
      destruct (C CH v Hv) as (V & T & L). auto.
  - intros (s & O & I & A & L). split.
    + apply (assignable_prefilter H canon sw sk G s); auto.
    + exists s. split; [|split].
      * intros v Hv. split; auto. destruct VAL as (_ & VO & _). apply (A v (VO v Hv)).
      * intros E v Hv. split; auto. destruct VAL as (_ & _ & VI & _). apply (A v (VI v Hv)).
      * intros _ v Hv. destruct (A v Hv). split; auto.
Qed.

(* ---------------------------------------------------------------- *)
(* self-match: a task read off a workflow's own graph *)

Theorem self_match H canon sw sk G (emb : nat -> const) :
  wf_hier H -> graph_ok H canon G -> sk_dag sk -> sk_canon H canon sk ->
  (forall v, In v (sk_outs sk) -> holds G CWf (out_path sw) (emb v)) ->
  (forall v, In v (sk_ins sk) -> holds G CWf (in_path sw) (emb v)) ->
  (forall v o, v < sk_n sk -> In o (opof sk v) -> In (emb v, PVia, COp o) G) ->
  (forall v t, v < sk_n sk -> In t (tyof sk v) -> In (emb v, PSubtypeOf, CTy t) G) ->
  (forall c v, In (c, v) (sk_edges sk) -> In (emb c, PDepends, emb v) G) ->
  matches G (gen H sw sk).
Proof.
  intros W GOK DAG CAN O I V T L. apply (gen_sem H canon); auto.
  assert (A : forall v, v < sk_n sk -> via_ok G sk emb v /\ typ_ok G sk emb v).
  { intros v Hv. split.
    - unfold via_ok. destruct (opof sk v) as [|o r] eqn:E; auto.
      right. exists o. split; [now left|]. apply V; auto. rewrite E. now left.
    - unfold typ_ok, typ_ok_set. destruct (tyof sk v) as [|t r] eqn:E; auto.
      right. exists t. split; [now left|]. apply T; auto. rewrite E. now left. }
  destruct DAG as (VAL & _). split.
  - apply (assignable_prefilter H canon sw sk G emb); auto.
  - exists emb. split; [|split].
    + intros v Hv. split; auto. destruct VAL as (_ & VO & _). apply (A v (VO v Hv)).
    + intros _ v Hv. split; auto. destruct VAL as (_ & _ & VI & _). apply (A v (VI v Hv)).
    + intros _ v Hv. destruct (A v Hv). split; auto. split; auto.
      intros c Hc. unfold link_ok, link_path. specialize (L c v Hc).
      destruct (is_nil (opof sk c) && (is_nil (tyof sk c) || negb (is_nil (opof sk v)) && is_nil (tyof sk v)));
        cbn [holds]; auto.
Qed.

(* ---------------------------------------------------------------- *)
(* monotonicity: asking for less never loses a match *)

(* sk' asks for less than sk along h: some steps and links dropped, types
   generalised (or dropped), operators kept *)
Record task_le (H : hier) (sk' sk : skel) (h : nat -> nat) : Prop := {
  le_valid : forall v, v < sk_n sk' -> h v < sk_n sk;
  le_outs : forall v, In v (sk_outs sk') -> In (h v) (sk_outs sk);
  le_ins : forall v, In v (sk_ins sk') -> In (h v) (sk_ins sk);
  le_ops : forall v, v < sk_n sk' -> opof sk' v = opof sk (h v);
  le_tys : forall v, v < sk_n sk' -> tyof sk' v = [] \/
             (tyof sk (h v) <> [] /\
              forall t, In t (tyof sk (h v)) -> exists t', In t' (tyof sk' v) /\ Sub H t t');
  le_edges : forall c v, In (c, v) (sk_edges sk') -> In (h c, h v) (sk_edges sk)
}.

Lemma link_weaken G sk sk' h c v a b :
  opof sk' c = opof sk (h c) -> opof sk' v = opof sk (h v) ->
  (tyof sk (h c) = [] -> tyof sk' c = []) -> (tyof sk (h v) = [] -> tyof sk' v = []) ->
  holds G a (link_path sk (h c) (h v)) b -> holds G a (link_path sk' c v) b.
Proof.
  intros Oc Ov Tc Tv. unfold link_path. rewrite Oc, Ov.
  destruct (opof sk (h c)) as [|oc rc]; cbn [is_nil andb negb];
    [|intros HH; exact HH].
  destruct (tyof sk (h c)) as [|tc rtc].
  - rewrite (Tc eq_refl). cbn [is_nil orb]. auto.
  - cbn [is_nil orb].
    destruct (opof sk (h v)) as [|ov rv]; cbn [is_nil negb andb].
    + intros HH. destruct (is_nil (tyof sk' c)); cbn [orb holds] in *; auto.
    + destruct (tyof sk (h v)) as [|tv rtv].
      * rewrite (Tv eq_refl). cbn [is_nil]. rewrite orb_true_r. auto.
      * cbn [is_nil]. intros HH.
        destruct (is_nil (tyof sk' c) || is_nil (tyof sk' v)); cbn [holds] in *; auto.
Qed.

Theorem mono H canon sw sk sk' h G : wf_hier H -> graph_ok H canon G ->
  sk_dag sk -> sk_dag sk' -> sk_canon H canon sk -> sk_canon H canon sk' ->
  by_chronology sw = true -> task_le H sk' sk h ->
  matches G (gen H sw sk) -> matches G (gen H sw sk').
Proof.
  intros W GOK DAG DAG' CAN CAN' CH LE M.
  apply (gen_spec H canon) in M; auto. apply (gen_spec H canon); auto.
  destruct M as (s & O & I & A & L). exists (fun v => s (h v)).
  assert (NIL : forall v, v < sk_n sk' -> tyof sk (h v) = [] -> tyof sk' v = []).
  { intros v Hv E. destruct (le_tys H sk' sk h LE v Hv) as [E'|[NE _]]; auto. congruence. }
  split; [|split; [|split]].
  - intros v Hv. apply O. apply (le_outs H sk' sk h LE v Hv).
  - intros E v Hv. apply I; auto. apply (le_ins H sk' sk h LE v Hv).
  - intros v Hv. destruct (A (h v) (le_valid H sk' sk h LE v Hv)) as [VA TA]. split.
    + unfold via_ok in *. rewrite (le_ops H sk' sk h LE v Hv). exact VA.
    + unfold typ_ok, typ_ok_set in *.
      destruct (le_tys H sk' sk h LE v Hv) as [E|[NE GEN]]; auto.
      destruct TA as [E|(t & Ht & HI)]; [congruence|].
      destruct (GEN t Ht) as (t' & Ht' & S'). right. exists t'. split; auto.
      apply (g_sub_up H canon G GOK _ t t'); auto. apply (CAN' v t' Ht').
  - intros c v Hcv. unfold link_ok.
    destruct DAG' as ((VE & _) & _). destruct (VE c v Hcv) as [Hc Hv].
    apply (link_weaken G sk sk' h c v); auto.
    + apply (le_ops H sk' sk h LE c Hc).
    + apply (le_ops H sk' sk h LE v Hv).
    + apply (L (h c) (h v)). apply (le_edges H sk' sk h LE c v Hcv).
Qed.

(* ---------------------------------------------------------------- *)
(* absence *)

Theorem absent_operator H sw sk G v o : sk_valid sk ->
  by_operators sw = true -> v < sk_n sk -> opof sk v = [o] ->
  ~ In (CWf, PContainsOperation, COp o) G ->
  ~ matches G (gen H sw sk).
Proof.
  intros VAL BO Hv Eo NI (s & S). apply NI.
  unfold gen, gen_with in S. rewrite sat_cons, sat_app in S. destruct S as (_ & S & _).
  rewrite BO in S. apply sat_gen_operators with (o := o) in S; auto.
  apply definite_ops_spec; eauto.
Qed.

(* no node is produced by any of the operators a step allows *)
Theorem absent_operator_nodes H sw sk G v : sk_dag sk ->
  by_chronology sw = true -> v < sk_n sk -> opof sk v <> [] ->
  (forall o n, In o (opof sk v) -> ~ In (n, PVia, COp o) G) ->
  ~ matches G (gen H sw sk).
Proof.
  intros DAG CH Hv NE NI M. apply gen_matches in M; auto.
  destruct M as (_ & s & _ & _ & C). destruct (C CH v Hv) as (_ & [E|(o & Ho & HI)] & _).
  - congruence.
  - apply (NI o (s v) Ho HI).
Qed.

Theorem absent_type H canon sw sk G v : wf_hier H -> graph_ok H canon G -> sk_dag sk ->
  sk_canon H canon sk -> by_types sw = true -> v < sk_n sk -> tyof sk v <> [] ->
  (forall t, In t (tyof sk v) -> ~ In (CWf, PContainsType, CTy t) G) ->
  ~ matches G (gen H sw sk).
Proof.
  intros W GOK DAG CAN BT Hv NE NI M. apply (gen_sem H canon) in M; auto.
  destruct M as ((_ & _ & T) & _). destruct (T BT v Hv NE) as (t & Ht & HI).
  apply (NI t Ht HI).
Qed.

(* ---------------------------------------------------------------- *)
(* vocabulary: the predicates a transformation graph is built from
   (graph.py:240-417: rdf:type Transformation, output, input, from, depends,
   via, subtypeOf, containsType and - as repaired - containsOperation) *)

Definition graph_vocab : list pred :=
  [PRdfType; POutput; PInput; PFrom; PDepends; PVia; PSubtypeOf; PContainsType; PContainsOperation].

(* the pinned graph generator writes containsOperator instead *)
Definition graph_vocab_pinned : list pred :=
  [PRdfType; POutput; PInput; PFrom; PDepends; PVia; PSubtypeOf; PContainsType; PContainsOperator].

Definition in_vocab (q : list pat) : Prop := forall p, In p (query_preds q) -> In p graph_vocab.

Lemma in_vocab_app q1 q2 : in_vocab q1 -> in_vocab q2 -> in_vocab (q1 ++ q2).
Proof.
  unfold in_vocab, query_preds. intros A B p Hp. rewrite flat_map_app in Hp.
  apply in_app_or in Hp. destruct Hp; auto.
Qed.

Lemma in_vocab_nil : in_vocab [].
Proof. intros p []. Qed.

Lemma in_vocab_flat_map {A} (f : A -> list pat) l :
  (forall x, In x l -> in_vocab (f x)) -> in_vocab (flat_map f l).
Proof.
  induction l as [|x l IH]; intros A1; cbn [flat_map]; [apply in_vocab_nil|].
  apply in_vocab_app; [apply A1; now left | apply IH; intros y Hy; apply A1; now right].
Qed.

Lemma in_vocab_union x p cs : In p graph_vocab -> in_vocab (union_pats x p cs).
Proof.
  intros Hp. destruct cs as [|c1 [|c2 r]]; cbn [union_pats].
  - apply in_vocab_nil.
  - intros q Hq. cbn in Hq. destruct Hq as [<-|[]]. exact Hp.
  - intros q Hq. unfold query_preds in Hq. cbn [flat_map pat_preds] in Hq.
    rewrite app_nil_r in Hq. apply in_flat_map in Hq. destruct Hq as (t & Ht & Hq).
    apply in_map_iff in Ht. destruct Ht as (c & <- & _). cbn in Hq.
    destruct Hq as [<-|[]]. exact Hp.
Qed.

Lemma in_vocab_cons_tp x pa y q :
  (forall p, In p (path_preds pa) -> In p graph_vocab) -> in_vocab q -> in_vocab (Tp (x, pa, y) :: q).
Proof.
  intros A B p Hp. unfold query_preds in Hp. cbn [flat_map pat_preds tpat_preds] in Hp.
  apply in_app_or in Hp. destruct Hp; auto.
Qed.

Ltac vocab := cbn; intuition (subst; auto 20).

Theorem gen_vocab H sw sk : in_vocab (gen H sw sk).
Proof.
  unfold gen, gen_with, root_pat.
  apply in_vocab_cons_tp; [intros p Hp; cbn in Hp; destruct Hp as [<-|[]]; vocab|].
  repeat apply in_vocab_app.
  - destruct (by_operators sw); [|apply in_vocab_nil].
    unfold gen_operators. induction (definite_ops sk) as [|o l IH]; [apply in_vocab_nil|].
    cbn [map]. apply in_vocab_cons_tp; auto. intros p Hp; cbn in Hp; destruct Hp as [<-|[]]; vocab.
  - destruct (by_types sw); [|apply in_vocab_nil].
    unfold gen_types, gen_clauses. apply in_vocab_flat_map. intros c _.
    apply in_vocab_union. vocab.
  - unfold gen_outputs. apply in_vocab_flat_map. intros v _.
    apply in_vocab_cons_tp.
    + unfold out_path. destruct (by_penultimate_output sw); intros p Hp; cbn in Hp;
        intuition (subst; vocab).
    + apply in_vocab_union. vocab.
  - destruct (by_io sw); [|apply in_vocab_nil].
    unfold gen_inputs. apply in_vocab_flat_map. intros v _.
    apply in_vocab_cons_tp.
    + unfold in_path. destruct (by_second_input sw); intros p Hp; cbn in Hp;
        intuition (subst; vocab).
    + apply in_vocab_union. vocab.
  - destruct (by_chronology sw); [|apply in_vocab_nil].
    unfold gen_chronology. apply in_vocab_flat_map. intros v _.
    unfold emit_step.
    assert (VS : in_vocab (gen_via sk v)) by (apply in_vocab_union; vocab).
    assert (TS : in_vocab (gen_subtype H sk v)) by (apply in_vocab_union; vocab).
    destruct (after sk v) as [|c0 cs]; auto.
    repeat apply in_vocab_app; auto.
    induction (c0 :: cs) as [|c l IH]; [apply in_vocab_nil|].
    cbn [map]. apply in_vocab_cons_tp; auto.
    unfold link_path. intros p Hp.
    destruct (is_nil (opof sk c) && (is_nil (tyof sk c) || negb (is_nil (opof sk v)) && is_nil (tyof sk v)));
      cbn in Hp; destruct Hp as [<-|[]]; vocab.
Qed.

(* against the pinned graph generator the operator pre-filter tests a
   predicate no graph contains *)
Theorem vocab_pinned_refuted :
  exists H sw sk, sk_dag sk /\
    exists p, In p (query_preds (gen H sw sk)) /\ ~ In p graph_vocab_pinned.
Proof.
  exists (mk_hier [] []), default_sw, (mkSkel [[]] [[7]] [] [0] []).
  split.
  - split; [|split].
    + unfold sk_valid, sk_n. cbn. repeat split; intros; try tauto.
      destruct H as [<-|[]]. lia.
    + exists (fun _ => 0). intros a b [].
    + unfold sk_n. cbn. intros v Hv. left. left. lia.
  - exists PContainsOperation. split; [vm_compute; tauto|].
    cbn. intuition discriminate.
Qed.
