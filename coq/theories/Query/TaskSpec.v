(* The property's sentence stated on the task graph itself: the steps are the
   step nodes reachable from the task's outputs (not the variables the
   generator happens to introduce).  For every task graph on which
   assign_variables succeeds without unfold_tree (tree- and DAG-shaped tasks),
   assignability of the variables is assignability of the step nodes. *)
From Coq Require Import List Arith Bool Lia.
Import ListNotations.
From TF Require Import Base.Hier Base.Ty Bag.Bag.
From TF Require Import Query.Bgp Query.Gen Query.GenProofs Query.Spec Query.Assign.

Inductive reach (T : task) : nat -> Prop :=
| reach_out o : In o (t_outs T) -> reach T o
| reach_from n c : reach T n -> In c (tn_from (tnode_of T n)) -> reach T c.

(* query.py:377-383 on step nodes *)
Definition tlink (T : task) (n c : nat) : path :=
  let dn := tnode_of T n in let dc := tnode_of T c in
  if is_nil (tn_op dn) && (is_nil (tn_ty dn) || (negb (is_nil (tn_op dc)) && is_nil (tn_ty dc)))
  then Opt PDepends else Lnk PDepends.

Definition task_assignable (sw : switches) (G : graph) (T : task) : Prop :=
  exists a : nat -> const,
    (forall o, In o (t_outs T) -> holds G CWf (out_path sw) (a o)) /\
    (by_io sw = true -> forall n, reach T n -> tn_in (tnode_of T n) = true ->
       holds G CWf (in_path sw) (a n)) /\
    (forall n, reach T n ->
       (tn_op (tnode_of T n) = [] \/
        exists o, In o (tn_op (tnode_of T n)) /\ In (a n, PVia, COp o) G) /\
       typ_ok_set G (tn_ty (tnode_of T n)) (a n)) /\
    (forall n c, reach T n -> In c (tn_from (tnode_of T n)) ->
       holds G (a n) (tlink T n c) (a c)).

Lemma index_of_nth (l : list nat) : NoDup l -> forall v, v < length l ->
  index_of (nth v l 0) l = Some v.
Proof.
  induction l as [|y r IH]; intros ND v Hv; cbn in Hv; [lia|].
  inversion ND as [|y' r' NY NDr]; subst. destruct v as [|v]; cbn [nth index_of].
  - now rewrite Nat.eqb_refl.
  - destruct (Nat.eqb (nth v r 0) y) eqn:E.
    + apply Nat.eqb_eq in E. exfalso. apply NY. rewrite <- E. apply nth_In. lia.
    + rewrite IH by (auto; lia). reflexivity.
Qed.

Section TaskSpec.
  Variable T : task.
  Variable sk : skel.
  Variable nodes : list nat.
  Hypothesis DAG : sk_dag sk.
  Hypothesis FT : from_task T false sk nodes.

  Local Notation node v := (nth v nodes 0).

  Lemma var_reach : forall v, v < sk_n sk -> reach T (node v).
  Proof.
    destruct DAG as ((VE & _) & (rk & RK) & CONN).
    assert (A : forall k v, rk v < k -> v < sk_n sk -> reach T (node v)).
    { induction k as [|k IH]; intros v Hk Hv; [lia|].
      destruct (CONN v Hv) as [HO|HA].
      - apply reach_out. apply (ft_outs T false sk nodes FT v HO).
      - destruct (after sk v) as [|a l] eqn:EA; [congruence|].
        assert (Ha : In (a, v) (sk_edges sk)) by (apply after_In; rewrite EA; now left).
        apply (reach_from T (node a)).
        + apply IH; [specialize (RK _ _ Ha); lia | apply (VE _ _ Ha)].
        + apply (ft_edges T false sk nodes FT a v Ha). }
    intros v Hv. apply (A (S (rk v))); auto.
  Qed.

  Lemma reach_var : forall n, reach T n -> exists v, v < sk_n sk /\ node v = n.
  Proof.
    induction 1 as [o Ho|n c Hn (v & Hv & Nv) Hc].
    - apply (ft_outs_vars T false sk nodes FT o Ho).
    - subst n. destruct (ft_all_edges T false sk nodes FT v c Hv Hc) as (b & Hb & Nb).
      exists b. split; auto. destruct DAG as ((VE & _) & _). apply (VE _ _ Hb).
  Qed.

  Lemma var_unique v : v < sk_n sk -> index_of (node v) nodes = Some v.
  Proof.
    intros Hv. apply index_of_nth.
    - apply (ft_nodup T false sk nodes FT eq_refl).
    - rewrite (ft_len T false sk nodes FT). exact Hv.
  Qed.

  Lemma link_path_task c v : c < sk_n sk -> v < sk_n sk ->
    link_path sk c v = tlink T (node c) (node v).
  Proof.
    intros Hc Hv. unfold link_path, tlink.
    rewrite (ft_op T false sk nodes FT c Hc), (ft_ty T false sk nodes FT c Hc),
            (ft_op T false sk nodes FT v Hv), (ft_ty T false sk nodes FT v Hv). reflexivity.
  Qed.

  Theorem assignable_task sw G : assignable sw G sk <-> task_assignable sw G T.
  Proof.
    destruct DAG as (VAL & _). destruct VAL as (VE & VO & VI & _).
    split.
    - (* variables -> step nodes *)
      intros (s & O & I & A & L).
      exists (fun n => match index_of n nodes with Some v => s v | None => CWf end).
      split; [|split; [|split]].
      + intros o Ho. destruct (ft_outs_vars T false sk nodes FT o Ho) as (v & Hv & Nv).
        subst o. rewrite (var_unique v Hv). apply O.
        apply (ft_all_outs T false sk nodes FT v Hv Ho).
      + intros E n Hn Hi. destruct (reach_var n Hn) as (v & Hv & Nv). subst n.
        rewrite (var_unique v Hv). apply I; auto.
        apply (ft_all_ins T false sk nodes FT v Hv Hi).
      + intros n Hn. destruct (reach_var n Hn) as (v & Hv & Nv). subst n.
        rewrite (var_unique v Hv). destruct (A v Hv) as [VA TA].
        unfold via_ok, typ_ok in *.
        rewrite (ft_op T false sk nodes FT v Hv) in VA.
        rewrite (ft_ty T false sk nodes FT v Hv) in TA. split; auto.
      + intros n c Hn Hc. destruct (reach_var n Hn) as (v & Hv & Nv). subst n.
        destruct (ft_all_edges T false sk nodes FT v c Hv Hc) as (b & Hb & Nb). subst c.
        destruct (VE _ _ Hb) as [_ Hbn].
        rewrite (var_unique v Hv), (var_unique b Hbn).
        rewrite <- (link_path_task v b Hv Hbn). apply (L v b Hb).
    - (* step nodes -> variables *)
      intros (a & O & I & A & L). exists (fun v => a (node v)).
      split; [|split; [|split]].
      + intros v Hv. apply O. apply (ft_outs T false sk nodes FT v Hv).
      + intros E v Hv. apply I; auto.
        * apply var_reach. auto.
        * apply (ft_ins T false sk nodes FT v Hv).
      + intros v Hv. destruct (A (node v) (var_reach v Hv)) as [VA TA].
        unfold via_ok, typ_ok.
        rewrite (ft_op T false sk nodes FT v Hv), (ft_ty T false sk nodes FT v Hv). split; auto.
      + intros c v Hcv. destruct (VE _ _ Hcv) as [Hc Hv]. unfold link_ok.
        rewrite (link_path_task c v Hc Hv). apply L.
        * apply var_reach. auto.
        * apply (ft_edges T false sk nodes FT c v Hcv).
  Qed.
End TaskSpec.
