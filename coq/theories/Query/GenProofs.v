(* What the generated query means (Query/Gen.v read with Query/Bgp.v).

   Part 1  union_pats, the pieces of the generator, conjunct by conjunct.
   Part 2  the chronology worklist is Kahn's algorithm: on every acyclic
           skeleton whose variables are all reachable from the outputs it
           visits every variable (fuel shown sufficient), and only variables.
   Part 3  gen_sat: a solution of the generated query is exactly an assignment
           satisfying the explicit list of conditions (no graph hypotheses). *)
From Coq Require Import List Arith Bool Lia.
Import ListNotations.
From TF Require Import Base.Hier Base.Ty Sub.Match Sub.SubSpec Sub.SubProofs.
From TF Require Import Bag.Union Bag.Bag Bag.BagTy Query.Bgp Query.Gen.

(* ------------------------------------------------------------------ *)
(* Part 1 *)

Lemma sat_cons G s p q : sat G s (p :: q) <-> sat_pat G s p /\ sat G s q.
Proof.
  unfold sat. split.
  - intros F. inversion F; subst. auto.
  - intros [A B]. constructor; auto.
Qed.

Lemma sat_nil G s : sat G s [] <-> True.
Proof. split; auto. intros _. constructor. Qed.

Lemma sat_map_tp {A} G s (f : A -> tpat) (l : list A) :
  sat G s (map (fun x => Tp (f x)) l) <-> forall x, In x l -> sat_tp G s (f x).
Proof.
  induction l as [|x l IH]; cbn [map].
  - rewrite sat_nil. split; auto. intros _ x [].
  - rewrite sat_cons, IH. cbn [sat_pat]. split.
    + intros [A1 A2] y [<-|Hy]; auto.
    + intros A1. split; [apply A1; now left | intros y Hy; apply A1; now right].
Qed.

(* union(prefix, subjects): no condition when there are no subjects *)
Lemma sat_union_pats G s x p cs :
  sat G s (union_pats x p cs) <->
  (cs = [] \/ exists c, In c cs /\ In (val s x, p, c) G).
Proof.
  destruct cs as [|c1 [|c2 r]]; cbn [union_pats].
  - rewrite sat_nil. split; auto.
  - rewrite sat_cons, sat_nil. cbn [sat_pat sat_tp holds val]. split.
    + intros [HI _]. right. exists c1. split; auto. now left.
    + intros [E|(c & [<-|[]] & HI)]; [discriminate|]. auto.
  - rewrite sat_cons, sat_nil. cbn [sat_pat]. rewrite Exists_exists. split.
    + intros [(t & Ht & HS) _]. right. apply in_map_iff in Ht.
      destruct Ht as (c & <- & Hc). exists c. split; auto.
    + intros [E|(c & Hc & HI)]; [discriminate|]. split; auto.
      exists (x, Lnk p, K c). split; [|exact HI].
      apply in_map_iff. exists c. split; auto.
Qed.

Lemma before_In sk a b : In b (before sk a) <-> In (a, b) (sk_edges sk).
Proof.
  unfold before. rewrite in_map_iff. split.
  - intros ([a' b'] & E & HI). apply filter_In in HI. destruct HI as [HI E2].
    cbn in E, E2. apply Nat.eqb_eq in E2. now subst.
  - intros HI. exists (a, b). split; auto. apply filter_In. split; auto. apply Nat.eqb_refl.
Qed.

Lemma after_In sk a b : In a (after sk b) <-> In (a, b) (sk_edges sk).
Proof.
  unfold after. rewrite in_map_iff. split.
  - intros ([a' b'] & E & HI). apply filter_In in HI. destruct HI as [HI E2].
    cbn in E, E2. apply Nat.eqb_eq in E2. now subst.
  - intros HI. exists (a, b). split; auto. apply filter_In. split; auto. apply Nat.eqb_refl.
Qed.

Lemma nodupn_In x l : In x (nodupn l) <-> In x l.
Proof.
  induction l as [|y r IH]; cbn [nodupn]; [tauto|].
  destruct (memn y r) eqn:E.
  - rewrite IH. split; [intros HI; now right|]. intros [E1|HI]; auto. subst.
    now apply memn_In.
  - cbn [In]. rewrite IH. tauto.
Qed.

(* the conditions, one per kind of conjunct *)
Definition via_ok (G : graph) (sk : skel) (s : assignment) (v : nat) : Prop :=
  opof sk v = [] \/ exists o, In o (opof sk v) /\ In (s v, PVia, COp o) G.

Definition typ_ok_set (G : graph) (ts : list ty) (c : const) : Prop :=
  ts = [] \/ exists t, In t ts /\ In (c, PSubtypeOf, CTy t) G.

Definition link_ok (G : graph) (sk : skel) (s : assignment) (c v : nat) : Prop :=
  holds G (s c) (link_path sk c v) (s v).

Lemma in_map_inj {A B} (f : A -> B) (l : list A) x :
  (forall a b, f a = f b -> a = b) -> (In (f x) (map f l) <-> In x l).
Proof.
  intros INJ. rewrite in_map_iff. split.
  - intros (y & E & Hy). apply INJ in E. now subst.
  - intros HI. eauto.
Qed.

Lemma sat_gen_via G s sk v : sat G s (gen_via sk v) <-> via_ok G sk s v.
Proof.
  unfold gen_via, via_ok. rewrite sat_union_pats. cbn [val]. split.
  - intros [E|(c & Hc & HI)].
    + left. destruct (opof sk v); [auto | discriminate].
    + right. apply in_map_iff in Hc. destruct Hc as (o & <- & Ho). eauto.
  - intros [E|(o & Ho & HI)].
    + left. now rewrite E.
    + right. exists (COp o). split; auto. now apply in_map.
Qed.

Lemma sat_gen_subtype G s H sk v :
  sat G s (gen_subtype H sk v) <-> typ_ok_set G (type_set H sk v) (s v).
Proof.
  unfold gen_subtype, typ_ok_set. rewrite sat_union_pats. cbn [val]. split.
  - intros [E|(c & Hc & HI)].
    + left. destruct (type_set H sk v); [auto | discriminate].
    + right. apply in_map_iff in Hc. destruct Hc as (t & <- & Ht). eauto.
  - intros [E|(t & Ht & HI)].
    + left. now rewrite E.
    + right. exists (CTy t). split; auto. now apply in_map.
Qed.

Definition step_raw (H : hier) (G : graph) (sk : skel) (s : assignment) (v : nat) : Prop :=
  (forall c, In (c, v) (sk_edges sk) -> link_ok G sk s c v) /\
  via_ok G sk s v /\
  (after sk v <> [] -> typ_ok_set G (type_set H sk v) (s v)).

Lemma sat_emit_step G s H sk v : sat G s (emit_step H sk v) <-> step_raw H G sk s v.
Proof.
  unfold emit_step, step_raw. destruct (after sk v) as [|c0 cs] eqn:EA.
  - rewrite sat_gen_via. split.
    + intros HV. split; [|split; auto; congruence].
      intros c Hc. apply after_In in Hc. rewrite EA in Hc. destruct Hc.
    + intros (_ & HV & _). exact HV.
  - rewrite <- EA. rewrite !sat_app, sat_gen_via, sat_gen_subtype.
    rewrite (sat_map_tp G s (fun c => (V c, link_path sk c v, V v))). split.
    + intros (HL & HV & HT). split; [|split; auto].
      intros c Hc. apply after_In in Hc. apply (HL c Hc).
    + intros (HL & HV & HT). split; [|split; auto].
      * intros c Hc. apply after_In in Hc. apply (HL c Hc).
      * apply HT. rewrite EA. discriminate.
Qed.

Definition out_raw (H : hier) (sw : switches) (G : graph) (sk : skel) (s : assignment) (v : nat) : Prop :=
  holds G CWf (out_path sw) (s v) /\ typ_ok_set G (type_set H sk v) (s v).
Definition in_raw (H : hier) (sw : switches) (G : graph) (sk : skel) (s : assignment) (v : nat) : Prop :=
  holds G CWf (in_path sw) (s v) /\ typ_ok_set G (type_set H sk v) (s v).

Lemma sat_gen_outputs G s H sw sk :
  sat G s (gen_outputs H sw sk) <-> forall v, In v (sk_outs sk) -> out_raw H sw G sk s v.
Proof.
  unfold gen_outputs. rewrite sat_flat_map. split; intros A v Hv; specialize (A v Hv).
  - rewrite sat_cons, sat_gen_subtype in A. exact A.
  - rewrite sat_cons, sat_gen_subtype. exact A.
Qed.

Lemma sat_gen_inputs G s H sw sk :
  sat G s (gen_inputs H sw sk) <-> forall v, In v (sk_ins sk) -> in_raw H sw G sk s v.
Proof.
  unfold gen_inputs. rewrite sat_flat_map. split; intros A v Hv; specialize (A v Hv).
  - rewrite sat_cons, sat_gen_subtype in A. exact A.
  - rewrite sat_cons, sat_gen_subtype. exact A.
Qed.

Lemma sat_gen_operators G s sk :
  sat G s (gen_operators sk) <->
  forall o, In o (definite_ops sk) -> In (CWf, PContainsOperation, COp o) G.
Proof.
  unfold gen_operators.
  rewrite (sat_map_tp G s (fun o => (wf_term, Lnk PContainsOperation, K (COp o)))).
  reflexivity.
Qed.

Definition clause_ok (G : graph) (c : list ty) : Prop :=
  c = [] \/ exists t, In t c /\ In (CWf, PContainsType, CTy t) G.

Lemma sat_gen_clauses G s content :
  sat G s (gen_clauses content) <-> forall c, In c content -> clause_ok G c.
Proof.
  unfold gen_clauses. rewrite sat_flat_map. split; intros A c Hc; specialize (A c Hc).
  - rewrite sat_union_pats in A. cbn [val wf_term] in A. destruct A as [E|(k & Hk & HI)].
    + left. destruct c; [auto|discriminate].
    + right. apply in_map_iff in Hk. destruct Hk as (t & <- & Ht). eauto.
  - rewrite sat_union_pats. cbn [val wf_term]. destruct A as [E|(t & Ht & HI)].
    + left. now rewrite E.
    + right. exists (CTy t). split; auto. now apply in_map.
Qed.

(* ------------------------------------------------------------------ *)
(* Part 2: the worklist *)

Definition sk_valid (sk : skel) : Prop :=
  (forall a b, In (a, b) (sk_edges sk) -> a < sk_n sk /\ b < sk_n sk) /\
  (forall v, In v (sk_outs sk) -> v < sk_n sk) /\
  (forall v, In v (sk_ins sk) -> v < sk_n sk) /\
  length (sk_op sk) = sk_n sk.

(* acyclic, and every variable is an output or follows another one *)
Definition sk_dag (sk : skel) : Prop :=
  sk_valid sk /\
  (exists rk : nat -> nat, forall a b, In (a, b) (sk_edges sk) -> rk a < rk b) /\
  (forall v, v < sk_n sk -> In v (sk_outs sk) \/ after sk v <> []).

Definition pending (sk : skel) (visited : list nat) : nat :=
  length (filter (fun e => negb (memn (fst e) visited)) (sk_edges sk)).

Lemma filter_length_split {A} (f : A -> bool) (l : list A) :
  length (filter f l) + length (filter (fun x => negb (f x)) l) = length l.
Proof.
  induction l as [|x l IH]; cbn; auto. destruct (f x); cbn; lia.
Qed.

Lemma pending_visit sk cur visited : memn cur visited = false ->
  pending sk (cur :: visited) + length (before sk cur) = pending sk visited.
Proof.
  intros NV. unfold pending, before. rewrite map_length.
  induction (sk_edges sk) as [|[a b] l IH]; [reflexivity|]. cbn [filter fst].
  replace (memn a (cur :: visited)) with (Nat.eqb a cur || memn a visited) by reflexivity.
  destruct (Nat.eqb a cur) eqn:E; destruct (memn a visited) eqn:E2; cbn [negb orb length]; try lia.
  apply Nat.eqb_eq in E. subst. congruence.
Qed.

Lemma filter_le_length {A} (f : A -> bool) (l : list A) : length (filter f l) <= length l.
Proof. induction l as [|x l IH]; cbn; auto. destruct (f x); cbn; lia. Qed.

Section Worklist.
  Variable sk : skel.
  Hypothesis DAG : sk_dag sk.

  Lemma ready_spec visited w :
    ready sk visited w = true <-> forall a, In (a, w) (sk_edges sk) -> In a visited.
  Proof.
    unfold ready. rewrite forallb_forall. split.
    - intros A a Ha. apply memn_In. apply A. now apply after_In.
    - intros A a Ha. apply memn_In. apply A. now apply after_In.
  Qed.

  Lemma split_waiting visited waiting x : In x waiting ->
    In x (filter (ready sk visited) waiting) \/
    In x (filter (fun w => negb (ready sk visited w)) waiting).
  Proof.
    intros HI. destruct (ready sk visited x) eqn:E.
    - left. apply filter_In. auto.
    - right. apply filter_In. split; auto. now rewrite E.
  Qed.

  Lemma chron_run_valid : forall fuel visited waiting processing,
    Forall (fun v => v < sk_n sk) waiting -> Forall (fun v => v < sk_n sk) processing ->
    Forall (fun v => v < sk_n sk) (chron_run sk fuel visited waiting processing).
  Proof.
    destruct DAG as ((VE & _) & _).
    induction fuel as [|f IH]; intros visited waiting processing Fw Fp; cbn [chron_run]; auto.
    assert (Fp' : Forall (fun v => v < sk_n sk) (processing ++ filter (ready sk visited) waiting)).
    { apply Forall_app. split; auto. rewrite Forall_forall in *. intros x Hx.
      apply filter_In in Hx. apply Fw. tauto. }
    assert (Fw' : Forall (fun v => v < sk_n sk) (filter (fun w => negb (ready sk visited w)) waiting)).
    { rewrite Forall_forall in *. intros x Hx. apply filter_In in Hx. apply Fw. tauto. }
    destruct (processing ++ filter (ready sk visited) waiting) as [|cur rest]; auto.
    inversion Fp' as [|c r Hc Hr]; subst.
    destruct (memn cur visited).
    - apply IH; auto.
    - constructor; auto. apply IH; auto. apply Forall_app. split; auto.
      rewrite Forall_forall. intros b Hb. apply filter_In in Hb. destruct Hb as [Hb _].
      apply before_In in Hb. apply VE in Hb. tauto.
  Qed.

  Lemma chron_run_complete : forall fuel visited waiting processing,
    (forall o, In o (sk_outs sk) -> In o visited \/ In o waiting \/ In o processing) ->
    (forall p b, In p visited -> In (p, b) (sk_edges sk) ->
       In b visited \/ In b waiting \/ In b processing) ->
    length waiting + length processing + pending sk visited < fuel ->
    forall v, v < sk_n sk ->
      In v visited \/ In v (chron_run sk fuel visited waiting processing).
  Proof.
    destruct DAG as ((VE & VO & _) & (rk & RK) & CONN).
    induction fuel as [|f IH]; intros visited waiting processing I1 I2 M v Hv; [lia|].
    cbn [chron_run].
    pose proof (filter_length_split (ready sk visited) waiting) as LEN.
    set (rdy := filter (ready sk visited) waiting) in *.
    set (waiting' := filter (fun w => negb (ready sk visited w)) waiting) in *.
    assert (SPLIT : forall x, In x visited \/ In x waiting \/ In x processing ->
                      In x visited \/ In x waiting' \/ In x (processing ++ rdy)).
    { intros x [A|[A|A]]; auto.
      - destruct (split_waiting visited waiting x A) as [B|B]; auto.
        right. right. apply in_or_app. now right.
      - right. right. apply in_or_app. now left. }
    destruct (processing ++ rdy) as [|cur rest] eqn:EP.
    - (* nothing left to process: everything has been visited *)
      left. apply app_eq_nil in EP. destruct EP as [EP1 EP2].
      assert (ALL : forall k u, rk u < k -> u < sk_n sk -> In u visited).
      { induction k as [|k IHk]; intros u Hk Hu; [lia|].
        assert (PAR : forall a, In (a, u) (sk_edges sk) -> In a visited).
        { intros a Ha. apply IHk; [specialize (RK _ _ Ha); lia | apply (VE _ _ Ha)]. }
        assert (CAND : In u visited \/ In u waiting \/ In u processing).
        { destruct (CONN u Hu) as [HO|HA]; [now apply I1|].
          destruct (after sk u) as [|a l] eqn:EA; [congruence|].
          assert (Ha : In (a, u) (sk_edges sk)) by (apply after_In; rewrite EA; now left).
          apply (I2 a u); auto. }
        destruct CAND as [A|[A|A]]; auto.
        - exfalso. assert (R : In u rdy).
          { apply filter_In. split; auto. now apply ready_spec. }
          rewrite EP2 in R. destruct R.
        - rewrite EP1 in A. destruct A. }
      apply (ALL (S (rk v))); auto.
    - assert (LP : length processing + length rdy = S (length rest)).
      { rewrite <- app_length, EP. reflexivity. }
      destruct (memn cur visited) eqn:EV.
      + (* already visited *)
        apply IH; auto.
        * intros o Ho. destruct (SPLIT o (I1 o Ho)) as [A|[A|[A|A]]]; auto.
          subst. left. now apply memn_In.
        * intros p b Hp Hb. destruct (SPLIT b (I2 p b Hp Hb)) as [A|[A|[A|A]]]; auto.
          subst. left. now apply memn_In.
        * lia.
      + set (new := filter (fun b => negb (memn b (cur :: visited))) (before sk cur)).
        assert (STEP : In v (cur :: visited) \/
                       In v (chron_run sk f (cur :: visited) (waiting' ++ new) rest)).
        { apply IH; auto.
          - intros o Ho. destruct (SPLIT o (I1 o Ho)) as [A|[A|[A|A]]].
            + left. now right.
            + right. left. apply in_or_app. now left.
            + subst. left. now left.
            + auto.
          - intros p b [<-|Hp] Hb.
            + destruct (memn b (cur :: visited)) eqn:EB.
              * left. now apply memn_In.
              * right. left. apply in_or_app. right. apply filter_In. split.
                -- now apply before_In.
                -- now rewrite EB.
            + destruct (SPLIT b (I2 p b Hp Hb)) as [A|[A|[A|A]]].
              * left. now right.
              * right. left. apply in_or_app. now left.
              * subst. left. now left.
              * auto.
          - rewrite app_length.
            pose proof (pending_visit sk cur visited EV) as PV.
            pose proof (filter_le_length (fun b => negb (memn b (cur :: visited))) (before sk cur)) as LN.
            fold new in LN. lia. }
        destruct STEP as [[<-|A]|A]; auto.
        * right. now left.
        * right. now right.
  Qed.

  Theorem chron_order_spec : forall v, In v (chron_order sk) <-> v < sk_n sk.
  Proof.
    intros v. unfold chron_order. split.
    - intros HI.
      assert (F : Forall (fun v => v < sk_n sk) (chron_run sk (chron_fuel sk) [] (sk_outs sk) [])).
      { apply chron_run_valid; auto. destruct DAG as ((_ & VO & _) & _).
        rewrite Forall_forall. auto. }
      rewrite Forall_forall in F. auto.
    - intros Hv.
      destruct (chron_run_complete (chron_fuel sk) [] (sk_outs sk) []) with (v := v) as [[]|A]; auto.
      unfold chron_fuel, pending. cbn [length].
      pose proof (filter_le_length (fun e => negb (memn (fst e) [])) (sk_edges sk)). lia.
  Qed.
End Worklist.

(* ------------------------------------------------------------------ *)
(* Part 3 *)

Definition pre_raw (H : hier) (sw : switches) (G : graph) (sk : skel) : Prop :=
  In (CWf, PRdfType, CTransformation) G /\
  (by_operators sw = true ->
     forall o, In o (definite_ops sk) -> In (CWf, PContainsOperation, COp o) G) /\
  (by_types sw = true -> forall c, In c (ty_bag_of H (sk_ty sk)) -> clause_ok G c).

Definition flow_raw (H : hier) (sw : switches) (G : graph) (sk : skel) (s : assignment) : Prop :=
  (forall v, In v (sk_outs sk) -> out_raw H sw G sk s v) /\
  (by_io sw = true -> forall v, In v (sk_ins sk) -> in_raw H sw G sk s v) /\
  (by_chronology sw = true -> forall v, v < sk_n sk -> step_raw H G sk s v).

Theorem gen_sat H sw sk G s : sk_dag sk ->
  (sat G s (gen H sw sk) <-> pre_raw H sw G sk /\ flow_raw H sw G sk s).
Proof.
  intros DAG. unfold gen, gen_with, pre_raw, flow_raw.
  rewrite sat_cons. rewrite !sat_app. cbn [sat_pat root_pat sat_tp holds val wf_term].
  rewrite sat_gen_outputs.
  assert (EO : sat G s (if by_operators sw then gen_operators sk else []) <->
    (by_operators sw = true ->
       forall o, In o (definite_ops sk) -> In (CWf, PContainsOperation, COp o) G)).
  { destruct (by_operators sw).
    - rewrite sat_gen_operators. split; auto.
    - rewrite sat_nil. split; auto. intros _ E. discriminate. }
  assert (ET : sat G s (if by_types sw then gen_types H sk else []) <->
    (by_types sw = true -> forall c, In c (ty_bag_of H (sk_ty sk)) -> clause_ok G c)).
  { destruct (by_types sw).
    - unfold gen_types. rewrite sat_gen_clauses. split; auto.
    - rewrite sat_nil. split; auto. intros _ E. discriminate. }
  assert (EI : sat G s (if by_io sw then gen_inputs H sw sk else []) <->
    (by_io sw = true -> forall v, In v (sk_ins sk) -> in_raw H sw G sk s v)).
  { destruct (by_io sw).
    - rewrite sat_gen_inputs. split; auto.
    - rewrite sat_nil. split; auto. intros _ E. discriminate. }
  assert (EC : sat G s (if by_chronology sw then gen_chronology H sk else []) <->
    (by_chronology sw = true -> forall v, v < sk_n sk -> step_raw H G sk s v)).
  { destruct (by_chronology sw).
    - unfold gen_chronology. rewrite sat_flat_map. split.
      + intros A _ v Hv. apply sat_emit_step. apply A. now apply chron_order_spec.
      + intros A v Hv. apply sat_emit_step. apply A; auto. now apply (chron_order_spec sk DAG).
    - rewrite sat_nil. split; auto. intros _ E. discriminate. }
  rewrite EO, ET, EI, EC. tauto.
Qed.

(* the pre-filter mentions no variable *)
Theorem gen_matches H sw sk G : sk_dag sk ->
  (matches G (gen H sw sk) <-> pre_raw H sw G sk /\ exists s, flow_raw H sw G sk s).
Proof.
  intros DAG. unfold matches. split.
  - intros (s & S). apply gen_sat in S; auto. destruct S. eauto.
  - intros (P & s & F). exists s. apply gen_sat; auto.
Qed.
