(* Executable check of the graph hypotheses of Query/Spec.v (so that they can
   be discharged by computation on concrete graphs, in the Examples of
   props/C11.v and on every graph the harness generates), and the theorems of
   Spec.v stated for the query generated from a task graph. *)
From Coq Require Import List Arith Bool Lia.
Import ListNotations.
From TF Require Import Base.Hier Base.Ty Sub.Match Sub.SubSpec Sub.SubProofs.
From TF Require Import Bag.Union Bag.Bag Bag.BagTy.
From TF Require Import Query.Bgp Query.Gen Query.GenProofs Query.Spec Query.Assign Query.TaskSpec.

Definition mem_ty (t : ty) (l : list ty) : bool := existsb (ty_eqb t) l.

Lemma mem_ty_In t l : mem_ty t l = true <-> In t l.
Proof.
  unfold mem_ty. rewrite existsb_exists. split.
  - intros (x & Hx & E). apply ty_eqb_eq in E. now subst.
  - intros HI. exists t. split; auto. now apply ty_eqb_eq.
Qed.

Definition is_wf (c : const) : bool := match c with CWf => true | _ => false end.

Definition triple_okb (H : hier) (cl : list ty) (G : graph) (tr : triple) : bool :=
  let '(n, p, o) := tr in
  match p, o with
  | PSubtypeOf, CTy t =>
      wf_tyb H t && has G CWf PContainsType (CTy t) &&
      forallb (fun t' => negb (ty_leb H t t') || has G n PSubtypeOf (CTy t')) cl
  | PContainsType, CTy t =>
      negb (is_wf n) ||
      (wf_tyb H t &&
       forallb (fun t' => negb (ty_leb H t t') || has G CWf PContainsType (CTy t')) cl)
  | PVia, COp o => has G CWf PContainsOperation (COp o)
  | _, _ => true
  end.

Definition graph_okb (H : hier) (cl : list ty) (G : graph) : bool :=
  has G CWf PRdfType CTransformation && forallb (wf_tyb H) cl && forallb (triple_okb H cl G) G.

Theorem graph_okb_spec H cl G : wf_hier H -> graph_okb H cl G = true ->
  graph_ok H (fun t => In t cl) G.
Proof.
  intros W OK. unfold graph_okb in OK. rewrite !andb_true_iff, !forallb_forall in OK.
  destruct OK as [[R WC] A].
  assert (SUBT : forall n t, In (n, PSubtypeOf, CTy t) G ->
    wf_ty H t /\ In (CWf, PContainsType, CTy t) G /\
    forall t', In t' cl -> Sub H t t' -> In (n, PSubtypeOf, CTy t') G).
  { intros n t HI. specialize (A _ HI). cbn [triple_okb] in A.
    rewrite !andb_true_iff, forallb_forall in A. destruct A as [[Wt M] U].
    apply wf_tyb_spec in Wt. apply has_In in M. split; auto. split; auto.
    intros t' Ht' S. specialize (U t' Ht'). apply orb_true_iff in U.
    destruct U as [U|U]; [|now apply has_In].
    apply negb_true_iff in U. specialize (WC t' Ht'). apply wf_tyb_spec in WC.
    apply (ty_leb_spec H W t t' Wt WC) in S. congruence. }
  assert (MEMT : forall t, In (CWf, PContainsType, CTy t) G ->
    wf_ty H t /\ forall t', In t' cl -> Sub H t t' -> In (CWf, PContainsType, CTy t') G).
  { intros t HI. specialize (A _ HI). cbn [triple_okb is_wf negb orb] in A.
    rewrite !andb_true_iff, forallb_forall in A. destruct A as [Wt U].
    apply wf_tyb_spec in Wt. split; auto.
    intros t' Ht' S. specialize (U t' Ht'). apply orb_true_iff in U.
    destruct U as [U|U]; [|now apply has_In].
    apply negb_true_iff in U. specialize (WC t' Ht'). apply wf_tyb_spec in WC.
    apply (ty_leb_spec H W t t' Wt WC) in S. congruence. }
  split.
  - now apply has_In.
  - intros n t t' HI Ht' S. apply (SUBT n t HI); auto.
  - intros n t HI. apply (SUBT n t HI).
  - intros t t' HI Ht' S. apply (MEMT t HI); auto.
  - intros t HI. apply (MEMT t HI).
  - intros n o HI. specialize (A _ HI). cbn [triple_okb] in A. now apply has_In.
Qed.

Definition sk_canonb (H : hier) (cl : list ty) (sk : skel) : bool :=
  forallb (forallb (fun t => mem_ty t cl && wf_tyb H t)) (sk_ty sk).

Lemma sk_canonb_spec H cl sk : sk_canonb H cl sk = true -> sk_canon H (fun t => In t cl) sk.
Proof.
  unfold sk_canonb. rewrite forallb_forall. intros A v t Ht.
  unfold tyof in Ht. destruct (Nat.lt_ge_cases v (length (sk_ty sk))) as [L|L].
  - specialize (A _ (nth_In _ [] L)). rewrite forallb_forall in A. specialize (A t Ht).
    apply andb_true_iff in A. destruct A as [M Wt]. split; [now apply mem_ty_In | now apply wf_tyb_spec].
  - rewrite nth_overflow in Ht by lia. destruct Ht.
Qed.

(* ---------------------------------------------------------------- *)
(* from the task graph *)

Theorem query_spec H canon G fuel T unfold sw sk :
  wf_hier H -> graph_ok H canon G ->
  skeleton fuel T unfold = Ok sk -> sk_canon H canon sk -> by_chronology sw = true ->
  (matches G (gen H sw sk) <-> assignable sw G sk).
Proof.
  intros W GOK SK CAN CH. apply (gen_spec H canon); auto.
  apply (skeleton_dag fuel T unfold sk SK).
Qed.

Theorem query_sem H canon G fuel T unfold sw sk :
  wf_hier H -> graph_ok H canon G ->
  skeleton fuel T unfold = Ok sk -> sk_canon H canon sk ->
  (matches G (gen H sw sk) <-> prefilter_sem sw G sk /\ exists s, flow_sem sw G sk s).
Proof.
  intros W GOK SK CAN. apply (gen_sem H canon); auto.
  apply (skeleton_dag fuel T unfold sk SK).
Qed.

Theorem query_decide H canon G fuel T unfold sw sk :
  wf_hier H -> graph_ok H canon G ->
  skeleton fuel T unfold = Ok sk -> sk_canon H canon sk -> by_chronology sw = true ->
  (matchc G (gen H sw sk) = true <-> assignable sw G sk).
Proof.
  intros W GOK SK CAN CH. rewrite matchc_spec. now apply (query_spec H canon G fuel T unfold).
Qed.

(* on the task's own step nodes (assign_variables without unfold_tree; with
   unfold_tree the steps are the paths from the outputs, which for tree-shaped
   tasks are the step nodes again) *)
Theorem task_query_spec H canon G fuel T sw sk :
  wf_hier H -> graph_ok H canon G ->
  skeleton fuel T false = Ok sk -> sk_canon H canon sk -> by_chronology sw = true ->
  (matches G (gen H sw sk) <-> task_assignable sw G T).
Proof.
  intros W GOK SK CAN CH.
  destruct (skeleton_dag fuel T false sk SK) as (DAG & nodes & FT).
  rewrite (gen_spec H canon); auto. apply (assignable_task T sk nodes DAG FT).
Qed.
