(* Model of transforge/query.py: TransformationQuery.

   [assign] follows assign_variables (query.py:189-222): depth-first walk of
   the task graph from its outputs, one variable per step node (or one per
   visit with unfold_tree), cycle rejection, before/after edges.
   [gen] follows sparql() (224-252) and its parts operators() (273-286),
   types() (254-271), output_nodes() (288-307), input_nodes() (309-321) and
   chronology() (323-408), producing the list of conjuncts of the WHERE
   clause as [Bgp.pat]s.

   Not modelled: skip_same_branch_matches (default off; it adds FILTER NOT
   EXISTS, outside the BGP fragment).  The GROUP BY / SELECT DISTINCT wrappers
   do not change which workflows are returned under the standard algebra.

   The per-step type disjunction is TypeUnion(specific=False) and the type
   pre-filter is Bag (transforge/bag.py): both are the models of Bag/*.v
   (property C20); [ty_bag_of] is Bag.add as repaired by
   proposed_fixes/C20.diff, [gen_pinned_bag] uses the pinned Bag.add. *)
From Coq Require Import List Arith Bool Lia.
Import ListNotations.
From TF Require Import Base.Hier Base.Ty Bag.Union Bag.Bag Bag.BagTy Query.Bgp.

Definition memn (x : nat) (l : list nat) : bool := existsb (Nat.eqb x) l.

Lemma memn_In x l : memn x l = true <-> In x l.
Proof.
  unfold memn. rewrite existsb_exists. split.
  - intros (y & Hy & E). apply Nat.eqb_eq in E. now subst.
  - intros HI. exists x. split; auto. apply Nat.eqb_refl.
Qed.

Lemma memn_false x l : memn x l = false <-> ~ In x l.
Proof. rewrite <- memn_In. destruct (memn x l); split; congruence. Qed.

(* ------------------------------------------------------------ skeleton *)

(* What assign_variables leaves behind: variables ?_0 .. ?_(n-1) with the
   :type and :via objects of their step (self.type, self.operator), the
   before/after edges in the order they were appended, and the variables of
   the task's outputs and inputs (self.outputs, self.inputs: dicts, so in
   first-insertion order without repetition). *)
Record skel : Type := mkSkel {
  sk_ty : list (list ty);
  sk_op : list (list nat);
  sk_edges : list (nat * nat);   (* (var, next_var): before[var] += next_var; after[next_var] += var *)
  sk_outs : list nat;
  sk_ins : list nat
}.

Definition sk_n (sk : skel) : nat := length (sk_ty sk).
Definition tyof (sk : skel) (v : nat) : list ty := nth v (sk_ty sk) [].
Definition opof (sk : skel) (v : nat) : list nat := nth v (sk_op sk) [].
Definition before (sk : skel) (v : nat) : list nat :=
  map snd (filter (fun e => Nat.eqb (fst e) v) (sk_edges sk)).
Definition after (sk : skel) (v : nat) : list nat :=
  map fst (filter (fun e => Nat.eqb (snd e) v) (sk_edges sk)).

Record switches : Type := mkSw {
  by_io : bool; by_types : bool; by_operators : bool; by_chronology : bool;
  by_penultimate_output : bool; by_second_input : bool
}.

Definition default_sw : switches := mkSw true true true true true false.

(* ------------------------------------------------------------ generator *)

(* union(prefix, subjects), query.py:25-36 *)
Definition union_pats (s : term) (p : pred) (cs : list const) : list pat :=
  match cs with
  | [] => []
  | [c] => [Tp (s, Lnk p, K c)]
  | _ => [Alt (map (fun c => (s, Lnk p, K c)) cs)]
  end.

Definition wf_term : term := K CWf.

Fixpoint nodupn (l : list nat) : list nat :=
  match l with
  | [] => []
  | x :: r => if memn x r then nodupn r else x :: nodupn r
  end.

(* operators(): the operators that definitely occur (a Python set) *)
Definition definite_ops (sk : skel) : list nat :=
  nodupn (flat_map (fun ops => match ops with [o] => [o] | _ => [] end) (sk_op sk)).

Definition gen_operators (sk : skel) : list pat :=
  map (fun o => Tp (wf_term, Lnk PContainsOperation, K (COp o))) (definite_ops sk).

(* types(): one clause per TypeUnion of the bag, query.py:263-271 *)
Definition gen_clauses (content : list (list ty)) : list pat :=
  flat_map (fun c => union_pats wf_term PContainsType (map CTy c)) content.

Definition gen_types (H : hier) (sk : skel) : list pat :=
  gen_clauses (ty_bag_of H (sk_ty sk)).

(* the most general alternatives of a step's types: TypeUnion(.., specific=False) *)
Definition type_set (H : hier) (sk : skel) (v : nat) : list ty :=
  ty_union_of H false (tyof sk v).

Definition gen_subtype (H : hier) (sk : skel) (v : nat) : list pat :=
  union_pats (V v) PSubtypeOf (map CTy (type_set H sk v)).

Definition gen_via (sk : skel) (v : nat) : list pat :=
  union_pats (V v) PVia (map COp (opof sk v)).

Definition out_path (sw : switches) : path :=
  if by_penultimate_output sw then SeqOpt POutput PFrom else Lnk POutput.
Definition in_path (sw : switches) : path :=
  if by_second_input sw then SeqInvOpt PInput PFrom else Lnk PInput.

(* output_nodes(), input_nodes() *)
Definition gen_outputs (H : hier) (sw : switches) (sk : skel) : list pat :=
  flat_map (fun v => Tp (wf_term, out_path sw, V v) :: gen_subtype H sk v) (sk_outs sk).
Definition gen_inputs (H : hier) (sw : switches) (sk : skel) : list pat :=
  flat_map (fun v => Tp (wf_term, in_path sw, V v) :: gen_subtype H sk v) (sk_ins sk).

(* query.py:377-383: `c :depends? current` when c has no operator and either
   no type, or current is a bare operator *)
Definition link_path (sk : skel) (c cur : nat) : path :=
  if is_nil (opof sk c) && (is_nil (tyof sk c) || (negb (is_nil (opof sk cur)) && is_nil (tyof sk cur)))
  then Opt PDepends else Lnk PDepends.

(* what chronology() yields when it visits [cur] (query.py:362-395) *)
Definition emit_step (H : hier) (sk : skel) (cur : nat) : list pat :=
  match after sk cur with
  | [] => gen_via sk cur
  | cs => map (fun c => Tp (V c, link_path sk c cur, V cur)) cs
          ++ gen_via sk cur ++ gen_subtype H sk cur
  end.

(* The worklist of chronology() (query.py:329-360), returning the variables
   in the order they are visited.  What is yielded at a visit depends only
   on the visited variable, so the generated text is the concatenation of
   [emit_step] over this order. *)
Section Chron.
  Variable sk : skel.

  Definition ready (visited : list nat) (w : nat) : bool :=
    forallb (fun v => memn v visited) (after sk w).

  Fixpoint chron_run (fuel : nat) (visited waiting processing : list nat) : list nat :=
    match fuel with
    | 0 => []
    | S f =>
        let processing' := processing ++ filter (ready visited) waiting in
        let waiting' := filter (fun w => negb (ready visited w)) waiting in
        match processing' with
        | [] => []                                              (* 346-347 *)
        | cur :: rest =>
            if memn cur visited then chron_run f visited waiting' rest   (* 351-352 *)
            else
              let visited' := cur :: visited in
              cur :: chron_run f visited'
                       (waiting' ++ filter (fun b => negb (memn b visited')) (before sk cur))
                       rest
        end
    end.

  Definition chron_fuel : nat := S (length (sk_outs sk) + length (sk_edges sk)).
  Definition chron_order : list nat := chron_run chron_fuel [] (sk_outs sk) [].
End Chron.

Definition gen_chronology (H : hier) (sk : skel) : list pat :=
  flat_map (emit_step H sk) (chron_order sk).

Definition root_pat : pat := Tp (wf_term, Lnk PRdfType, K CTransformation).

(* sparql(), query.py:224-252: the conjuncts of the WHERE clause *)
Definition gen_with (types : list pat) (H : hier) (sw : switches) (sk : skel) : list pat :=
  root_pat
  :: (if by_operators sw then gen_operators sk else [])
  ++ (if by_types sw then types else [])
  ++ gen_outputs H sw sk
  ++ (if by_io sw then gen_inputs H sw sk else [])
  ++ (if by_chronology sw then gen_chronology H sk else []).

Definition gen (H : hier) (sw : switches) (sk : skel) : list pat :=
  gen_with (gen_types H sk) H sw sk.

(* the same with Bag.add of the pinned tree *)
Definition gen_pinned_bag (H : hier) (sw : switches) (sk : skel) : list pat :=
  gen_with (gen_clauses (ty_bag_of_pinned H (sk_ty sk))) H sw sk.

(* ----------------------------------------------------- assign_variables *)

(* a task graph: step nodes with their :type, :via and :from objects (in the
   order the store lists them) and whether the task root has :input to them;
   the objects of  root :output *)
Record tnode : Type := mkTnode {
  tn_ty : list ty; tn_op : list nat; tn_from : list nat; tn_in : bool
}.
Record task : Type := mkTask { t_nodes : list (nat * tnode); t_outs : list nat }.

Definition tnode_of (T : task) (n : nat) : tnode :=
  match assoc n (t_nodes T) with Some x => x | None => mkTnode [] [] [] false end.

Record dstate : Type := mkD {
  d_nodes : list nat;           (* step node of each variable, by variable number *)
  d_edges : list (nat * nat);
  d_outs : list nat;
  d_ins : list nat
}.

Inductive res (A : Type) : Type := Ok (a : A) | Cycle | OutOfFuel.
Arguments Ok {A} a. Arguments Cycle {A}. Arguments OutOfFuel {A}.

Fixpoint index_of (x : nat) (l : list nat) : option nat :=
  match l with
  | [] => None
  | y :: r => if Nat.eqb x y then Some 0 else option_map S (index_of x r)
  end.

Definition add_once (x : nat) (l : list nat) : list nat := if memn x l then l else l ++ [x].

Fixpoint assign (fuel : nat) (T : task) (unfold : bool) (node : nat) (path : list nat)
    (st : dstate) : res (nat * dstate) :=
  match fuel with
  | 0 => OutOfFuel
  | S f =>
      if memn node path then Cycle                                        (* 194-195 *)
      else
        let fresh := (length (d_nodes st),
                      mkD (d_nodes st ++ [node]) (d_edges st) (d_outs st) (d_ins st)) in
        let '(var, st1) :=
          if unfold then fresh                                            (* 197-198 *)
          else match index_of node (d_nodes st) with                      (* 200-204 *)
               | Some v => (v, st)
               | None => fresh
               end in
        let st2 := mkD (d_nodes st1) (d_edges st1)
                     (if memn node (t_outs T) then add_once var (d_outs st1) else d_outs st1)  (* 211-212 *)
                     (if tn_in (tnode_of T node) then add_once var (d_ins st1) else d_ins st1) (* 214-215 *)
        in
        (fix loop (nexts : list nat) (st : dstate) : res (nat * dstate) :=       (* 217-220 *)
           match nexts with
           | [] => Ok (var, st)
           | nx :: r =>
               match assign f T unfold nx (path ++ [node]) st with
               | Ok (nv, st') =>
                   loop r (mkD (d_nodes st') (d_edges st' ++ [(var, nv)]) (d_outs st') (d_ins st'))
               | Cycle => Cycle
               | OutOfFuel => OutOfFuel
               end
           end) (tn_from (tnode_of T node)) st2
  end.

(* __init__, query.py:121-123 *)
Fixpoint assign_all (fuel : nat) (T : task) (unfold : bool) (outs : list nat) (st : dstate)
    : res dstate :=
  match outs with
  | [] => Ok st
  | o :: r => match assign fuel T unfold o [] st with
              | Ok (_, st') => assign_all fuel T unfold r st'
              | Cycle => Cycle
              | OutOfFuel => OutOfFuel
              end
  end.

Definition skel_of (T : task) (st : dstate) : skel :=
  mkSkel (map (fun n => tn_ty (tnode_of T n)) (d_nodes st))
         (map (fun n => tn_op (tnode_of T n)) (d_nodes st))
         (d_edges st) (d_outs st) (d_ins st).

Definition skeleton (fuel : nat) (T : task) (unfold : bool) : res skel :=
  match assign_all fuel T unfold (t_outs T) (mkD [] [] [] []) with
  | Ok st => Ok (skel_of T st)
  | Cycle => Cycle
  | OutOfFuel => OutOfFuel
  end.

(* TransformationQuery(lang, graph, **switches).sparql() *)
Definition query (fuel : nat) (H : hier) (sw : switches) (unfold : bool) (T : task)
    : res (list pat) :=
  match skeleton fuel T unfold with
  | Ok sk => Ok (gen H sw sk)
  | Cycle => Cycle
  | OutOfFuel => OutOfFuel
  end.
