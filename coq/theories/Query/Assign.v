(* assign_variables (Query/Gen.v [assign]) on arbitrary task graphs, with and
   without unfold_tree: whenever it succeeds (no cycle reported, fuel
   sufficient) the skeleton it leaves is acyclic, every variable is an output
   or follows another variable, and every variable, edge, output and input
   mark comes from the task graph.  Hence the theorems of Query/Spec.v apply
   to the query generated from any tree- or DAG-shaped task. *)
From Coq Require Import List Arith Bool Lia.
Import ListNotations.
From TF Require Import Base.Hier Base.Ty Query.Bgp Query.Gen Query.GenProofs.

Section Assign.
  Variable T : task.

  Definition kids (n : nat) : list nat := tn_from (tnode_of T n).

  (* fuel-bounded height of a step node in the task graph *)
  Fixpoint ht (f : nat) (n : nat) : nat :=
    match f with
    | 0 => 0
    | S f' => S (fold_right (fun c acc => Nat.max (ht f' c) acc) 0 (kids n))
    end.

  Definition stable (f : nat) (n : nat) : Prop := forall f', f <= f' -> ht f' n = ht f n.

  Lemma stable_mono f g n : stable f n -> f <= g -> stable g n.
  Proof. intros S L f' L'. rewrite (S f') by lia. rewrite (S g) by lia. reflexivity. Qed.

  Lemma fold_max_ge (g : nat -> nat) l c : In c l ->
    g c <= fold_right (fun c acc => Nat.max (g c) acc) 0 l.
  Proof.
    induction l as [|x l IH]; intros []; cbn [fold_right].
    - subst. lia.
    - specialize (IH H). lia.
  Qed.

  Lemma fold_max_ext (g h : nat -> nat) l : (forall c, In c l -> g c = h c) ->
    fold_right (fun c acc => Nat.max (g c) acc) 0 l =
    fold_right (fun c acc => Nat.max (h c) acc) 0 l.
  Proof.
    induction l as [|x l IH]; intros E; cbn [fold_right]; auto.
    rewrite E by now left. rewrite IH; auto. intros c Hc. apply E. now right.
  Qed.

  Lemma ht_le f n : ht f n <= f.
  Proof.
    revert n. induction f as [|f IH]; intros n; cbn [ht]; [lia|].
    assert (B : fold_right (fun c acc => Nat.max (ht f c) acc) 0 (kids n) <= f).
    { induction (kids n) as [|c l IHl]; cbn [fold_right]; [lia|]. specialize (IH c). lia. }
    lia.
  Qed.

  Lemma stable_S f n : (forall c, In c (kids n) -> stable f c) -> stable (S f) n.
  Proof.
    intros A f' L. destruct f' as [|f'']; [lia|]. cbn [ht]. f_equal.
    apply fold_max_ext. intros c Hc. apply (A c Hc). lia.
  Qed.

  Lemma ht_edge F0 a b : In b (kids a) -> stable F0 b -> ht (S F0) b < ht (S F0) a.
  Proof.
    intros Hb Sb. rewrite (Sb (S F0)) by lia. cbn [ht].
    pose proof (fold_max_ge (ht F0) (kids a) b Hb). lia.
  Qed.

  Definition nodeof (st : dstate) (v : nat) : nat := nth v (d_nodes st) 0.
  Definition dlen (st : dstate) : nat := length (d_nodes st).

  Variable F0 : nat.
  Variable unfold : bool.

  (* every predecessor of v's step node has been traversed from v, and v
     carries the marks of its node *)
  Definition done (st : dstate) (v : nat) : Prop :=
    (forall c, In c (kids (nodeof st v)) -> exists b, In (v, b) (d_edges st) /\ nodeof st b = c) /\
    (tn_in (tnode_of T (nodeof st v)) = true -> In v (d_ins st)) /\
    (In (nodeof st v) (t_outs T) -> In v (d_outs st)).

  Record Inv (st : dstate) (pend cpend : list nat) : Prop := {
    iv_edges : forall a b, In (a, b) (d_edges st) ->
      a < dlen st /\ b < dlen st /\ In (nodeof st b) (kids (nodeof st a)) /\ stable F0 (nodeof st b);
    iv_outs : forall v, In v (d_outs st) -> v < dlen st /\ In (nodeof st v) (t_outs T);
    iv_ins : forall v, In v (d_ins st) -> v < dlen st /\ tn_in (tnode_of T (nodeof st v)) = true;
    iv_conn : forall v, v < dlen st ->
      In v (d_outs st) \/ (exists a, In (a, v) (d_edges st)) \/ In v pend;
    iv_done : forall v, v < dlen st -> In v cpend \/ done st v;
    iv_nodup : unfold = false -> NoDup (d_nodes st)
  }.

  Lemma index_of_spec x l v : index_of x l = Some v -> v < length l /\ nth v l 0 = x.
  Proof.
    revert v. induction l as [|y r IH]; intros v; cbn [index_of]; [discriminate|].
    destruct (Nat.eqb x y) eqn:E.
    - intros [= <-]. apply Nat.eqb_eq in E. subst. cbn. split; [lia|auto].
    - destruct (index_of x r) as [w|]; [|discriminate]. cbn [option_map].
      intros [= <-]. destruct (IH w eq_refl). cbn. split; [lia|auto].
  Qed.

  Lemma index_of_None x l : index_of x l = None -> ~ In x l.
  Proof.
    induction l as [|y r IH]; cbn [index_of]; [auto|].
    destruct (Nat.eqb x y) eqn:E; [discriminate|].
    destruct (index_of x r); [discriminate|]. intros _ [<-|HI].
    - rewrite Nat.eqb_refl in E. discriminate.
    - now apply IH.
  Qed.

  Lemma add_once_In x l y : In y (add_once x l) <-> y = x \/ In y l.
  Proof.
    unfold add_once. destruct (memn x l) eqn:E.
    - split; auto. intros [->|HI]; auto. now apply memn_In.
    - rewrite in_app_iff. cbn. intuition.
  Qed.

  (* states only grow *)
  Definition extends (st st' : dstate) : Prop :=
    (exists ext, d_nodes st' = d_nodes st ++ ext) /\
    (forall v, In v (d_outs st) -> In v (d_outs st')) /\
    (forall v, In v (d_ins st) -> In v (d_ins st')) /\
    (forall e, In e (d_edges st) -> In e (d_edges st')).

  Lemma extends_refl st : extends st st.
  Proof. split; [|auto]. exists []. now rewrite app_nil_r. Qed.

  Lemma extends_trans a b c : extends a b -> extends b c -> extends a c.
  Proof.
    intros ((e1 & E1) & O1 & I1 & D1) ((e2 & E2) & O2 & I2 & D2). split; [|auto].
    exists (e1 ++ e2). rewrite E2, E1. now rewrite app_assoc.
  Qed.

  Lemma extends_nodeof st st' v : extends st st' -> v < dlen st ->
    nodeof st' v = nodeof st v /\ v < dlen st'.
  Proof.
    intros ((e & E) & _) Hv. unfold nodeof, dlen in *. rewrite E, app_length.
    split; [now apply app_nth1 | lia].
  Qed.

  Lemma done_extends st st' v : extends st st' -> v < dlen st ->
    (forall a b, In (a, b) (d_edges st) -> b < dlen st) ->
    done st v -> done st' v.
  Proof.
    intros X Hv VE (K & I & O).
    destruct (extends_nodeof st st' v X Hv) as [N _]. unfold done. rewrite N.
    destruct X as (XN & XO & XI & XE). split; [|split; auto].
    intros c Hc. destruct (K c Hc) as (b & Hb & Nb). exists b. split; auto.
    rewrite <- Nb. apply extends_nodeof; [repeat split; auto | apply (VE v b Hb)].
  Qed.

  Lemma NoDup_snoc (l : list nat) x : NoDup l -> ~ In x l -> NoDup (l ++ [x]).
  Proof.
    induction l as [|y l IH]; intros ND NI; cbn [app].
    - constructor; [intros []|constructor].
    - inversion ND as [|y' l' NY NDl]; subst. constructor.
      + rewrite in_app_iff. intros [A|[<-|[]]]; [auto|]. apply NI. now left.
      + apply IH; auto. intros A. apply NI. now right.
  Qed.

  (* a new variable for [node] *)
  Lemma Inv_fresh st pend cpend node :
    Inv st pend cpend -> (unfold = false -> ~ In node (d_nodes st)) ->
    Inv (mkD (d_nodes st ++ [node]) (d_edges st) (d_outs st) (d_ins st))
        (dlen st :: pend) (dlen st :: cpend).
  Proof.
    intros I FRESH.
    set (st' := mkD (d_nodes st ++ [node]) (d_edges st) (d_outs st) (d_ins st)).
    assert (X : extends st st').
    { split; [exists [node]; reflexivity | cbn; auto]. }
    assert (L' : dlen st' = S (dlen st)).
    { unfold dlen, st'. cbn [d_nodes]. rewrite app_length. cbn. lia. }
    split.
    - intros a b Hab. destruct (iv_edges st pend cpend I a b Hab) as (A & B & C & D).
      destruct (extends_nodeof st st' a X A) as [Na _].
      destruct (extends_nodeof st st' b X B) as [Nb _].
      rewrite Na, Nb, L'. repeat split; auto; lia.
    - intros v Hv. destruct (iv_outs st pend cpend I v Hv) as (A & B).
      destruct (extends_nodeof st st' v X A) as [Nv _]. rewrite Nv, L'. split; auto; lia.
    - intros v Hv. destruct (iv_ins st pend cpend I v Hv) as (A & B).
      destruct (extends_nodeof st st' v X A) as [Nv _]. rewrite Nv, L'. split; auto; lia.
    - rewrite L'. intros v Hv. destruct (Nat.eq_dec v (dlen st)) as [->|NE].
      + right. right. now left.
      + destruct (iv_conn st pend cpend I v) as [A|[A|A]]; [lia| | |]; auto.
        right. right. now right.
    - rewrite L'. intros v Hv. destruct (Nat.eq_dec v (dlen st)) as [->|NE].
      + left. now left.
      + destruct (iv_done st pend cpend I v) as [A|A]; [lia| |].
        * left. now right.
        * right. apply (done_extends st st'); auto; [lia|].
          intros a b Hab. apply (iv_edges st pend cpend I a b Hab).
    - intros U. cbn [st' d_nodes]. apply NoDup_snoc; [apply (iv_nodup st pend cpend I U)|].
      now apply FRESH.
  Qed.

  Lemma Inv_weaken st pend pend' cpend cpend' : Inv st pend cpend ->
    (forall v, In v pend -> In v pend') -> (forall v, In v cpend -> In v cpend') ->
    Inv st pend' cpend'.
  Proof.
    intros I SUB SUB'. split; try apply I.
    - intros v Hv. destruct (iv_conn st pend cpend I v Hv) as [A|[A|A]]; auto.
    - intros v Hv. destruct (iv_done st pend cpend I v Hv) as [A|A]; auto.
  Qed.

  (* marking the variable as output / input *)
  Lemma Inv_mark st pend cpend var node :
    Inv st pend cpend -> var < dlen st -> nodeof st var = node ->
    Inv (mkD (d_nodes st) (d_edges st)
           (if memn node (t_outs T) then add_once var (d_outs st) else d_outs st)
           (if tn_in (tnode_of T node) then add_once var (d_ins st) else d_ins st)) pend cpend.
  Proof.
    intros I Hv E. split; cbn [d_nodes d_edges d_outs d_ins]; unfold dlen, nodeof; cbn [d_nodes].
    - apply (iv_edges st pend cpend I).
    - intros v Hvo. destruct (memn node (t_outs T)) eqn:EM.
      + apply add_once_In in Hvo. destruct Hvo as [->|Hvo]; [|apply (iv_outs st pend cpend I v Hvo)].
        split; auto. unfold nodeof in E. rewrite E. now apply memn_In.
      + apply (iv_outs st pend cpend I v Hvo).
    - intros v Hvi. destruct (tn_in (tnode_of T node)) eqn:EM.
      + apply add_once_In in Hvi. destruct Hvi as [->|Hvi]; [|apply (iv_ins st pend cpend I v Hvi)].
        split; auto. unfold nodeof in E. now rewrite E.
      + apply (iv_ins st pend cpend I v Hvi).
    - intros v Hvl. destruct (iv_conn st pend cpend I v Hvl) as [A|[A|A]]; auto.
      left. destruct (memn node (t_outs T)); auto. apply add_once_In. now right.
    - intros v Hvl. destruct (iv_done st pend cpend I v Hvl) as [A|(K & DI & DO)]; auto.
      right. split; [exact K|]. cbn [d_ins d_outs]. split.
      + intros A. specialize (DI A). destruct (tn_in (tnode_of T node)); auto.
        apply add_once_In. now right.
      + intros A. specialize (DO A). destruct (memn node (t_outs T)); auto.
        apply add_once_In. now right.
    - apply (iv_nodup st pend cpend I).
  Qed.

  (* recording  before[var] += nv; after[nv] += var *)
  Lemma Inv_edge st pend cpend var nv :
    Inv st (nv :: pend) cpend -> var < dlen st -> nv < dlen st ->
    In (nodeof st nv) (kids (nodeof st var)) -> stable F0 (nodeof st nv) ->
    Inv (mkD (d_nodes st) (d_edges st ++ [(var, nv)]) (d_outs st) (d_ins st)) pend cpend.
  Proof.
    intros I Hv Hn K S. split; cbn [d_nodes d_edges d_outs d_ins]; unfold dlen, nodeof; cbn [d_nodes].
    - intros a b Hab. apply in_app_or in Hab. destruct Hab as [Hab|[[= <- <-]|[]]].
      + apply (iv_edges st _ _ I a b Hab).
      + repeat split; auto.
    - apply (iv_outs st _ _ I).
    - apply (iv_ins st _ _ I).
    - intros v Hvl. destruct (iv_conn st _ _ I v Hvl) as [A|[(a & A)|[<-|A]]]; auto.
      + right. left. exists a. apply in_or_app. now left.
      + right. left. exists var. apply in_or_app. right. now left.
    - intros v Hvl. destruct (iv_done st _ _ I v Hvl) as [A|(KK & DI & DO)]; auto.
      right. split; [|split; auto]. intros c Hc. destruct (KK c Hc) as (b & Hb & Nb).
      exists b. split; auto. apply in_or_app. now left.
    - apply (iv_nodup st _ _ I).
  Qed.

  (* the variable's own traversal is finished *)
  Lemma Inv_finish st pend cpend var :
    Inv st pend (var :: cpend) -> done st var -> Inv st pend cpend.
  Proof.
    intros I D. split; try apply I.
    intros v Hv. destruct (iv_done st _ _ I v Hv) as [[<-|A]|A]; auto.
  Qed.

  Theorem assign_inv : forall f, f <= S F0 ->
    forall node path st pend cpend var st',
    Inv st pend cpend -> assign f T unfold node path st = Ok (var, st') ->
    Inv st' (var :: pend) cpend /\ var < dlen st' /\ nodeof st' var = node /\
    stable f node /\ extends st st' /\ (var < dlen st \/ done st' var) /\
    (memn node (t_outs T) = true -> In var (d_outs st')).
  Proof.
    induction f as [|f IH]; intros LF node path st pend cpend var st' I; cbn [assign]; [discriminate|].
    destruct (memn node path); [discriminate|].
    set (fresh := (length (d_nodes st), mkD (d_nodes st ++ [node]) (d_edges st) (d_outs st) (d_ins st))).
    set (choice := if unfold then fresh
                   else match index_of node (d_nodes st) with Some v => (v, st) | None => fresh end).
    (* the chosen variable and state *)
    assert (CH : let '(v1, st1) := choice in
              Inv st1 (v1 :: pend) (v1 :: cpend) /\ v1 < dlen st1 /\ nodeof st1 v1 = node /\
              extends st st1).
    { assert (FR : (unfold = false -> ~ In node (d_nodes st)) ->
                   Inv (snd fresh) (fst fresh :: pend) (fst fresh :: cpend) /\
                   fst fresh < dlen (snd fresh) /\
                   nodeof (snd fresh) (fst fresh) = node /\ extends st (snd fresh)).
      { intros FRESH. cbn [fresh fst snd]. split; [apply (Inv_fresh st pend cpend node I FRESH)|].
        unfold dlen, nodeof. cbn [d_nodes]. rewrite app_length. cbn [length].
        split; [lia|]. split.
        - rewrite app_nth2 by lia. now rewrite Nat.sub_diag.
        - split; [exists [node]; reflexivity | cbn; auto]. }
      unfold choice. destruct unfold eqn:EU; [apply FR; discriminate|].
      destruct (index_of node (d_nodes st)) as [v|] eqn:EI.
      - destruct (index_of_spec _ _ _ EI) as [Hv En].
        split; [|split; [|split]]; auto using extends_refl.
        apply (Inv_weaken st pend _ cpend); auto; intros x Hx; now right.
      - apply FR. intros _. now apply index_of_None. }
    destruct choice as [v1 st1]. destruct CH as (I1 & Hv1 & N1 & X1).
    set (st2 := mkD (d_nodes st1) (d_edges st1)
                  (if memn node (t_outs T) then add_once v1 (d_outs st1) else d_outs st1)
                  (if tn_in (tnode_of T node) then add_once v1 (d_ins st1) else d_ins st1)).
    assert (I2 : Inv st2 (v1 :: pend) (v1 :: cpend)) by (apply Inv_mark; auto).
    assert (X12 : extends st1 st2).
    { split; [exists []; cbn; now rewrite app_nil_r|]. cbn [st2 d_outs d_ins d_edges].
      split; [|split; auto].
      - intros v Hv. destruct (memn node (t_outs T)); auto. apply add_once_In. now right.
      - intros v Hv. destruct (tn_in (tnode_of T node)); auto. apply add_once_In. now right. }
    assert (X2 : extends st st2) by (apply (extends_trans st st1 st2); auto).
    assert (H2 : v1 < dlen st2 /\ nodeof st2 v1 = node) by (split; auto).
    assert (OUT2 : memn node (t_outs T) = true -> In v1 (d_outs st2)).
    { intros E. cbn [st2 d_outs]. rewrite E. apply add_once_In. now left. }
    assert (IN2 : tn_in (tnode_of T node) = true -> In v1 (d_ins st2)).
    { intros E. cbn [st2 d_ins]. rewrite E. apply add_once_In. now left. }
    clearbody st2. clear I1 Hv1 N1 X1 X12 st1.
    (* the loop over the node's predecessors *)
    assert (LOOP : forall nexts st3,
      (forall c, In c nexts -> In c (kids node)) ->
      Inv st3 (v1 :: pend) (v1 :: cpend) -> v1 < dlen st3 -> nodeof st3 v1 = node ->
      (fix loop (nexts : list nat) (st : dstate) {struct nexts} : res (nat * dstate) :=
         match nexts with
         | [] => Ok (v1, st)
         | nx :: r =>
             match assign f T unfold nx (path ++ [node]) st with
             | Ok (nv, st'0) =>
                 loop r (mkD (d_nodes st'0) (d_edges st'0 ++ [(v1, nv)]) (d_outs st'0) (d_ins st'0))
             | Cycle => Cycle
             | OutOfFuel => OutOfFuel
             end
         end) nexts st3 = Ok (var, st') ->
      var = v1 /\ Inv st' (v1 :: pend) (v1 :: cpend) /\ extends st3 st' /\
      (forall c, In c nexts -> stable f c) /\
      (forall c, In c nexts -> exists b, In (v1, b) (d_edges st') /\ nodeof st' b = c)).
    { induction nexts as [|nx r IHr]; intros st3 SUB I3 Hv3 N3.
      - intros [= <- <-]. split; [reflexivity|]. split; [exact I3|].
        split; [apply extends_refl|]. split; intros c [].
      - destruct (assign f T unfold nx (path ++ [node]) st3) as [[nv st4]| |] eqn:EA; try discriminate.
        destruct (IH ltac:(lia) nx (path ++ [node]) st3 (v1 :: pend) (v1 :: cpend) nv st4 I3 EA)
          as (I4 & Hnv & Nnv & Snx & X4 & _ & _).
        destruct (extends_nodeof st3 st4 v1 X4 Hv3) as [N4 Hv4].
        set (st5 := mkD (d_nodes st4) (d_edges st4 ++ [(v1, nv)]) (d_outs st4) (d_ins st4)).
        assert (I5 : Inv st5 (v1 :: pend) (v1 :: cpend)).
        { apply Inv_edge; auto.
          - rewrite Nnv, N4, N3. apply SUB. now left.
          - rewrite Nnv. apply (stable_mono f); auto. lia. }
        assert (X45 : extends st4 st5).
        { split; [exists []; cbn; now rewrite app_nil_r|]. cbn [st5 d_outs d_ins d_edges].
          split; auto. split; auto. intros e He. apply in_or_app. now left. }
        intros EL.
        destruct (IHr st5 ltac:(intros c Hc; apply SUB; now right) I5 Hv4 ltac:(rewrite <- N3; exact N4) EL)
          as (Ev & I6 & X6 & SR & ER).
        split; [exact Ev|]. split; [exact I6|]. split.
        + apply (extends_trans st3 st4 st'); auto. apply (extends_trans st4 st5 st'); auto.
        + split.
          * intros c [<-|Hc]; auto.
          * intros c [<-|Hc]; auto. exists nv. split.
            -- destruct X6 as (_ & _ & _ & XE). apply XE. cbn [st5 d_edges].
               apply in_or_app. right. now left.
            -- rewrite <- Nnv. apply (extends_nodeof st5 st' nv X6). exact Hnv. }
    intros EL. destruct H2 as [Hv2 N2].
    destruct (LOOP (kids node) st2 ltac:(auto) I2 Hv2 N2 EL) as (-> & I' & X' & SK & EK).
    destruct (extends_nodeof st2 st' v1 X' Hv2) as [N' Hv'].
    assert (D' : done st' v1).
    { unfold done. rewrite N', N2. split; [exact EK|]. destruct X' as (_ & XO & XI & _). split.
      - intros E. apply XI. auto.
      - intros E. apply XO. apply OUT2. now apply memn_In. }
    split; [apply (Inv_finish st' (v1 :: pend) cpend v1); auto|].
    split; [exact Hv'|]. split; [rewrite N'; exact N2|].
    split; [apply stable_S; exact SK|]. split; [apply (extends_trans st st2 st'); auto|].
    split; [now right|].
    intros E. destruct X' as (_ & O' & _). apply O'. auto.
  Qed.

  Lemma assign_all_inv : forall outs st st',
    (forall o, In o outs -> In o (t_outs T)) ->
    Inv st [] [] -> assign_all (S F0) T unfold outs st = Ok st' ->
    Inv st' [] [] /\ extends st st' /\
    (forall o, In o outs -> exists v, v < dlen st' /\ nodeof st' v = o).
  Proof.
    induction outs as [|o r IH]; intros st st' SUB I; cbn [assign_all].
    - intros [= <-]. split; [exact I|]. split; [apply extends_refl|]. intros o [].
    - destruct (assign (S F0) T unfold o [] st) as [[v st1]| |] eqn:EA; try discriminate.
      destruct (assign_inv (S F0) ltac:(lia) o [] st [] [] v st1 I EA)
        as (I1 & Hv & Nv & _ & X1 & _ & OUT).
      intros ER.
      assert (I1' : Inv st1 [] []).
      { split; try apply I1. intros x Hx.
        destruct (iv_conn st1 _ _ I1 x Hx) as [A|[A|[<-|[]]]]; auto.
        left. apply OUT. apply memn_In. apply SUB. now left. }
      destruct (IH st1 st' ltac:(intros x Hx; apply SUB; now right) I1' ER) as (I' & X' & V').
      split; [exact I'|]. split; [apply (extends_trans st st1 st'); auto|].
      intros x [<-|Hx]; auto. exists v.
      destruct (extends_nodeof st1 st' v X' Hv) as [N' L']. split; auto. now rewrite N'.
  Qed.
End Assign.

Lemma Inv_init T F0 unfold : Inv T F0 unfold (mkD [] [] [] []) [] [].
Proof.
  split; cbn; intros; try tauto; try (unfold dlen in *; cbn in *; lia). constructor.
Qed.

(* what a successful traversal leaves: sound and complete w.r.t. the task graph *)
Record from_task (T : task) (unfold : bool) (sk : skel) (nodes : list nat) : Prop := {
  ft_len : length nodes = sk_n sk;
  ft_ty : forall v, v < sk_n sk -> tyof sk v = tn_ty (tnode_of T (nth v nodes 0));
  ft_op : forall v, v < sk_n sk -> opof sk v = tn_op (tnode_of T (nth v nodes 0));
  ft_edges : forall a b, In (a, b) (sk_edges sk) ->
     In (nth b nodes 0) (tn_from (tnode_of T (nth a nodes 0)));
  ft_outs : forall v, In v (sk_outs sk) -> In (nth v nodes 0) (t_outs T);
  ft_ins : forall v, In v (sk_ins sk) -> tn_in (tnode_of T (nth v nodes 0)) = true;
  ft_all_edges : forall v c, v < sk_n sk -> In c (tn_from (tnode_of T (nth v nodes 0))) ->
     exists b, In (v, b) (sk_edges sk) /\ nth b nodes 0 = c;
  ft_all_ins : forall v, v < sk_n sk -> tn_in (tnode_of T (nth v nodes 0)) = true -> In v (sk_ins sk);
  ft_all_outs : forall v, v < sk_n sk -> In (nth v nodes 0) (t_outs T) -> In v (sk_outs sk);
  ft_outs_vars : forall o, In o (t_outs T) -> exists v, v < sk_n sk /\ nth v nodes 0 = o;
  ft_nodup : unfold = false -> NoDup nodes
}.

Theorem skeleton_dag fuel T unfold sk : skeleton fuel T unfold = Ok sk ->
  sk_dag sk /\ exists nodes, from_task T unfold sk nodes.
Proof.
  unfold skeleton.
  destruct (assign_all fuel T unfold (t_outs T) (mkD [] [] [] [])) as [st| |] eqn:EA; try discriminate.
  intros [= <-].
  destruct fuel as [|F0].
  { (* no fuel: only an empty list of outputs succeeds *)
    destruct (t_outs T) as [|o r] eqn:EO; cbn in EA; [|discriminate].
    injection EA as <-. split.
    - split; [|split].
      + unfold sk_valid, sk_n. cbn. repeat split; intros; tauto.
      + exists (fun _ => 0). intros a b [].
      + unfold sk_n. cbn. intros v Hv. lia.
    - exists []. split; unfold sk_n; cbn; intros; try tauto; try lia.
      + rewrite EO in H. destruct H.
      + constructor. }
  destruct (assign_all_inv T F0 unfold (t_outs T) _ st ltac:(auto) (Inv_init T F0 unfold) EA)
    as (I & _ & OV).
  assert (LEN : sk_n (skel_of T st) = dlen st).
  { unfold sk_n, skel_of, dlen. cbn. now rewrite map_length. }
  split.
  - split; [|split].
    + unfold sk_valid. rewrite LEN. cbn [skel_of sk_edges sk_outs sk_ins sk_op].
      split; [|split; [|split]].
      * intros a b Hab. destruct (iv_edges T F0 unfold st [] [] I a b Hab) as (A & B & _). auto.
      * intros v Hv. apply (iv_outs T F0 unfold st [] [] I v Hv).
      * intros v Hv. apply (iv_ins T F0 unfold st [] [] I v Hv).
      * unfold dlen. now rewrite map_length.
    + exists (fun v => S F0 - ht T (S F0) (nodeof st v)). intros a b Hab.
      cbn [skel_of sk_edges] in Hab.
      destruct (iv_edges T F0 unfold st [] [] I a b Hab) as (_ & _ & K & Sb).
      pose proof (ht_edge T F0 _ _ K Sb). pose proof (ht_le T (S F0) (nodeof st a)). lia.
    + rewrite LEN. intros v Hv. cbn [skel_of sk_outs].
      destruct (iv_conn T F0 unfold st [] [] I v Hv) as [A|[(a & A)|[]]]; auto.
      right. intros E. assert (HI : In a (after (skel_of T st) v)) by now apply after_In.
      rewrite E in HI. destruct HI.
  - exists (d_nodes st). split; try rewrite LEN.
    + reflexivity.
    + intros v Hv. unfold tyof, skel_of. cbn [sk_ty]. unfold dlen in Hv.
      rewrite (nth_indep _ [] (tn_ty (tnode_of T 0))) by now rewrite map_length.
      now rewrite (map_nth (fun n => tn_ty (tnode_of T n))).
    + intros v Hv. unfold opof, skel_of. cbn [sk_op]. unfold dlen in Hv.
      rewrite (nth_indep _ [] (tn_op (tnode_of T 0))) by now rewrite map_length.
      now rewrite (map_nth (fun n => tn_op (tnode_of T n))).
    + intros a b Hab. apply (iv_edges T F0 unfold st [] [] I a b Hab).
    + intros v Hv. apply (iv_outs T F0 unfold st [] [] I v Hv).
    + intros v Hv. apply (iv_ins T F0 unfold st [] [] I v Hv).
    + intros v c Hv Hc. destruct (iv_done T F0 unfold st [] [] I v Hv) as [[]|(K & _)].
      apply (K c Hc).
    + intros v Hv Hi. destruct (iv_done T F0 unfold st [] [] I v Hv) as [[]|(_ & DI & _)]. auto.
    + intros v Hv Ho. destruct (iv_done T F0 unfold st [] [] I v Hv) as [[]|(_ & _ & DO)]. auto.
    + intros o Ho. apply (OV o Ho).
    + apply (iv_nodup T F0 unfold st [] [] I).
Qed.
