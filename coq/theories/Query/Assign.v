(* assign_variables (Query/Gen.v [assign]) on arbitrary task graphs, with and
   without unfold_tree: whenever it succeeds (no cycle reported, fuel
   sufficient) the skeleton it leaves is acyclic, every variable is an output
   or follows another variable, and every variable, edge, output and input
   mark comes from the task graph.  Hence the theorems of Query/Spec.v apply
   to the query generated from any tree- or DAG-shaped task. *)
From Coq Require Import List Arith Bool Lia.
Import ListNotations.
From TF Require Import Base.Hier Base.Ty Query.Bgp Query.Gen Query.GenProofs.

Section Assign.
  Variable T : task.

  Definition kids (n : nat) : list nat := tn_from (tnode_of T n).

  (* fuel-bounded height of a step node in the task graph *)
  Fixpoint ht (f : nat) (n : nat) : nat :=
    match f with
    | 0 => 0
    | S f' => S (fold_right (fun c acc => Nat.max (ht f' c) acc) 0 (kids n))
    end.

  Definition stable (f : nat) (n : nat) : Prop := forall f', f <= f' -> ht f' n = ht f n.

  Lemma stable_mono f g n : stable f n -> f <= g -> stable g n.
  Proof. intros S L f' L'. rewrite (S f') by lia. rewrite (S g) by lia. reflexivity. Qed.

  Lemma fold_max_ge (g : nat -> nat) l c : In c l ->
    g c <= fold_right (fun c acc => Nat.max (g c) acc) 0 l.
  Proof.
    induction l as [|x l IH]; intros []; cbn [fold_right].
    - subst. lia.
    - specialize (IH H). lia.
  Qed.

  Lemma fold_max_ext (g h : nat -> nat) l : (forall c, In c l -> g c = h c) ->
    fold_right (fun c acc => Nat.max (g c) acc) 0 l =
    fold_right (fun c acc => Nat.max (h c) acc) 0 l.
  Proof.
    induction l as [|x l IH]; intros E; cbn [fold_right]; auto.
    rewrite E by now left. rewrite IH; auto. intros c Hc. apply E. now right.
  Qed.

  Lemma ht_le f n : ht f n <= f.
  Proof.
    revert n. induction f as [|f IH]; intros n; cbn [ht]; [lia|].
    assert (B : fold_right (fun c acc => Nat.max (ht f c) acc) 0 (kids n) <= f).
    { induction (kids n) as [|c l IHl]; cbn [fold_right]; [lia|]. specialize (IH c). lia. }
    lia.
  Qed.

  Lemma stable_S f n : (forall c, In c (kids n) -> stable f c) -> stable (S f) n.
  Proof.
    intros A f' L. destruct f' as [|f'']; [lia|]. cbn [ht]. f_equal.
    apply fold_max_ext. intros c Hc. apply (A c Hc). lia.
  Qed.

  Lemma ht_edge F0 a b : In b (kids a) -> stable F0 b -> ht (S F0) b < ht (S F0) a.
  Proof.
    intros Hb Sb. rewrite (Sb (S F0)) by lia. cbn [ht].
    pose proof (fold_max_ge (ht F0) (kids a) b Hb). lia.
  Qed.

  Definition nodeof (st : dstate) (v : nat) : nat := nth v (d_nodes st) 0.
  Definition dlen (st : dstate) : nat := length (d_nodes st).

  Variable F0 : nat.

  Record Inv (st : dstate) (pend : list nat) : Prop := {
    iv_edges : forall a b, In (a, b) (d_edges st) ->
      a < dlen st /\ b < dlen st /\ In (nodeof st b) (kids (nodeof st a)) /\ stable F0 (nodeof st b);
    iv_outs : forall v, In v (d_outs st) -> v < dlen st /\ In (nodeof st v) (t_outs T);
    iv_ins : forall v, In v (d_ins st) -> v < dlen st /\ tn_in (tnode_of T (nodeof st v)) = true;
    iv_conn : forall v, v < dlen st ->
      In v (d_outs st) \/ (exists a, In (a, v) (d_edges st)) \/ In v pend
  }.

  Lemma index_of_spec x l v : index_of x l = Some v -> v < length l /\ nth v l 0 = x.
  Proof.
    revert v. induction l as [|y r IH]; intros v; cbn [index_of]; [discriminate|].
    destruct (Nat.eqb x y) eqn:E.
    - intros [= <-]. apply Nat.eqb_eq in E. subst. cbn. split; [lia|auto].
    - destruct (index_of x r) as [w|]; [|discriminate]. cbn [option_map].
      intros [= <-]. destruct (IH w eq_refl). cbn. split; [lia|auto].
  Qed.

  Lemma add_once_In x l y : In y (add_once x l) <-> y = x \/ In y l.
  Proof.
    unfold add_once. destruct (memn x l) eqn:E.
    - split; auto. intros [->|HI]; auto. now apply memn_In.
    - rewrite in_app_iff. cbn. intuition.
  Qed.

  (* a new variable for [node] *)
  Lemma Inv_fresh st pend node :
    Inv st pend ->
    Inv (mkD (d_nodes st ++ [node]) (d_edges st) (d_outs st) (d_ins st)) (dlen st :: pend).
  Proof.
    intros I. unfold dlen, nodeof in *.
    assert (NTH : forall v, v < length (d_nodes st) -> nth v (d_nodes st ++ [node]) 0 = nth v (d_nodes st) 0).
    { intros v Hv. now apply app_nth1. }
    split; cbn [d_nodes d_edges d_outs d_ins]; unfold dlen, nodeof; cbn [d_nodes]; rewrite ?app_length; cbn [length].
    - intros a b Hab. destruct (iv_edges st pend I a b Hab) as (A & B & C & D).
      unfold dlen, nodeof in *. rewrite !NTH by auto. repeat split; auto; lia.
    - intros v Hv. destruct (iv_outs st pend I v Hv) as (A & B).
      unfold dlen, nodeof in *. rewrite NTH by auto. split; auto; lia.
    - intros v Hv. destruct (iv_ins st pend I v Hv) as (A & B).
      unfold dlen, nodeof in *. rewrite NTH by auto. split; auto; lia.
    - intros v Hv. destruct (Nat.eq_dec v (length (d_nodes st))) as [->|NE].
      + right. right. now left.
      + destruct (iv_conn st pend I v) as [A|[A|A]]; [unfold dlen; lia| | |]; auto.
        right. right. now right.
  Qed.

  Lemma Inv_weaken st pend pend' : Inv st pend -> (forall v, In v pend -> In v pend') -> Inv st pend'.
  Proof.
    intros I SUB. split; try apply I.
    intros v Hv. destruct (iv_conn st pend I v Hv) as [A|[A|A]]; auto.
  Qed.

  (* marking the variable as output / input *)
  Lemma Inv_mark st pend var node :
    Inv st pend -> var < dlen st -> nodeof st var = node ->
    Inv (mkD (d_nodes st) (d_edges st)
           (if memn node (t_outs T) then add_once var (d_outs st) else d_outs st)
           (if tn_in (tnode_of T node) then add_once var (d_ins st) else d_ins st)) pend.
  Proof.
    intros I Hv E. split; cbn [d_nodes d_edges d_outs d_ins]; unfold dlen, nodeof; cbn [d_nodes].
    - apply (iv_edges st pend I).
    - intros v Hvo. destruct (memn node (t_outs T)) eqn:EM.
      + apply add_once_In in Hvo. destruct Hvo as [->|Hvo]; [|apply (iv_outs st pend I v Hvo)].
        split; auto. unfold nodeof in E. rewrite E. now apply memn_In.
      + apply (iv_outs st pend I v Hvo).
    - intros v Hvi. destruct (tn_in (tnode_of T node)) eqn:EM.
      + apply add_once_In in Hvi. destruct Hvi as [->|Hvi]; [|apply (iv_ins st pend I v Hvi)].
        split; auto. unfold nodeof in E. now rewrite E.
      + apply (iv_ins st pend I v Hvi).
    - intros v Hvl. destruct (iv_conn st pend I v Hvl) as [A|[A|A]]; auto.
      left. destruct (memn node (t_outs T)); auto. apply add_once_In. now right.
  Qed.

  (* recording  before[var] += nv; after[nv] += var *)
  Lemma Inv_edge st pend var nv :
    Inv st (nv :: pend) -> var < dlen st -> nv < dlen st ->
    In (nodeof st nv) (kids (nodeof st var)) -> stable F0 (nodeof st nv) ->
    Inv (mkD (d_nodes st) (d_edges st ++ [(var, nv)]) (d_outs st) (d_ins st)) pend.
  Proof.
    intros I Hv Hn K S. split; cbn [d_nodes d_edges d_outs d_ins]; unfold dlen, nodeof; cbn [d_nodes].
    - intros a b Hab. apply in_app_or in Hab. destruct Hab as [Hab|[[= <- <-]|[]]].
      + apply (iv_edges st _ I a b Hab).
      + repeat split; auto.
    - apply (iv_outs st _ I).
    - apply (iv_ins st _ I).
    - intros v Hvl. destruct (iv_conn st _ I v Hvl) as [A|[(a & A)|[<-|A]]]; auto.
      + right. left. exists a. apply in_or_app. now left.
      + right. left. exists var. apply in_or_app. right. now left.
  Qed.

  Definition extends (st st' : dstate) : Prop :=
    (exists ext, d_nodes st' = d_nodes st ++ ext) /\
    (forall v, In v (d_outs st) -> In v (d_outs st')).

  Lemma extends_refl st : extends st st.
  Proof. split; auto. exists []. now rewrite app_nil_r. Qed.

  Lemma extends_trans a b c : extends a b -> extends b c -> extends a c.
  Proof.
    intros ((e1 & E1) & O1) ((e2 & E2) & O2). split; auto.
    exists (e1 ++ e2). rewrite E2, E1. now rewrite app_assoc.
  Qed.

  Lemma extends_nodeof st st' v : extends st st' -> v < dlen st ->
    nodeof st' v = nodeof st v /\ v < dlen st'.
  Proof.
    intros ((e & E) & _) Hv. unfold nodeof, dlen in *. rewrite E, app_length.
    split; [now apply app_nth1 | lia].
  Qed.

  Theorem assign_inv unfold : forall f, f <= S F0 ->
    forall node path st pend var st',
    Inv st pend -> assign f T unfold node path st = Ok (var, st') ->
    Inv st' (var :: pend) /\ var < dlen st' /\ nodeof st' var = node /\
    stable f node /\ extends st st' /\
    (memn node (t_outs T) = true -> In var (d_outs st')).
  Proof.
    induction f as [|f IH]; intros LF node path st pend var st' I; cbn [assign]; [discriminate|].
    destruct (memn node path); [discriminate|].
    set (fresh := (length (d_nodes st), mkD (d_nodes st ++ [node]) (d_edges st) (d_outs st) (d_ins st))).
    set (choice := if unfold then fresh
                   else match index_of node (d_nodes st) with Some v => (v, st) | None => fresh end).
    (* the chosen variable and state *)
    assert (CH : let '(v1, st1) := choice in
              Inv st1 (v1 :: pend) /\ v1 < dlen st1 /\ nodeof st1 v1 = node /\ extends st st1).
    { assert (FR : Inv (snd fresh) (fst fresh :: pend) /\ fst fresh < dlen (snd fresh) /\
                   nodeof (snd fresh) (fst fresh) = node /\ extends st (snd fresh)).
      { cbn [fresh fst snd]. split; [apply (Inv_fresh st pend node I)|].
        unfold dlen, nodeof. cbn [d_nodes]. rewrite app_length. cbn [length].
        split; [lia|]. split.
        - rewrite app_nth2 by lia. now rewrite Nat.sub_diag.
        - split; cbn [d_nodes d_outs]; auto. eauto. }
      unfold choice. destruct unfold; [exact FR|].
      destruct (index_of node (d_nodes st)) as [v|] eqn:EI; [|exact FR].
      destruct (index_of_spec _ _ _ EI) as [Hv En].
      split; [|split; [|split]]; auto using extends_refl.
      apply (Inv_weaken st pend); auto. intros x Hx. now right. }
    destruct choice as [v1 st1]. destruct CH as (I1 & Hv1 & N1 & X1).
    set (st2 := mkD (d_nodes st1) (d_edges st1)
                  (if memn node (t_outs T) then add_once v1 (d_outs st1) else d_outs st1)
                  (if tn_in (tnode_of T node) then add_once v1 (d_ins st1) else d_ins st1)).
    assert (I2 : Inv st2 (v1 :: pend)) by (apply Inv_mark; auto).
    assert (X2 : extends st st2).
    { destruct X1 as (E1 & O1). split; cbn [st2 d_nodes d_outs]; auto.
      intros v Hv. destruct (memn node (t_outs T)); auto. apply add_once_In. right. auto. }
    assert (H2 : v1 < dlen st2 /\ nodeof st2 v1 = node) by (split; auto).
    assert (OUT2 : memn node (t_outs T) = true -> In v1 (d_outs st2)).
    { intros E. cbn [st2 d_outs]. rewrite E. apply add_once_In. now left. }
    clearbody st2. clear I1 Hv1 N1 X1 st1.
    (* the loop over the node's predecessors *)
    assert (LOOP : forall nexts st3,
      (forall c, In c nexts -> In c (kids node)) ->
      Inv st3 (v1 :: pend) -> v1 < dlen st3 -> nodeof st3 v1 = node ->
      (fix loop (nexts : list nat) (st : dstate) {struct nexts} : res (nat * dstate) :=
         match nexts with
         | [] => Ok (v1, st)
         | nx :: r =>
             match assign f T unfold nx (path ++ [node]) st with
             | Ok (nv, st'0) =>
                 loop r (mkD (d_nodes st'0) (d_edges st'0 ++ [(v1, nv)]) (d_outs st'0) (d_ins st'0))
             | Cycle => Cycle
             | OutOfFuel => OutOfFuel
             end
         end) nexts st3 = Ok (var, st') ->
      var = v1 /\ Inv st' (v1 :: pend) /\ extends st3 st' /\
      (forall c, In c nexts -> stable f c)).
    { induction nexts as [|nx r IHr]; intros st3 SUB I3 Hv3 N3.
      - intros [= <- <-]. split; [reflexivity|]. split; [exact I3|].
        split; [apply extends_refl|]. intros c [].
      - destruct (assign f T unfold nx (path ++ [node]) st3) as [[nv st4]| |] eqn:EA; try discriminate.
        destruct (IH ltac:(lia) nx (path ++ [node]) st3 (v1 :: pend) nv st4 I3 EA)
          as (I4 & Hnv & Nnv & Snx & X4 & _).
        destruct (extends_nodeof st3 st4 v1 X4 Hv3) as [N4 Hv4].
        set (st5 := mkD (d_nodes st4) (d_edges st4 ++ [(v1, nv)]) (d_outs st4) (d_ins st4)).
        assert (I5 : Inv st5 (v1 :: pend)).
        { apply Inv_edge; auto.
          - rewrite Nnv, N4, N3. apply SUB. now left.
          - rewrite Nnv. apply (stable_mono f); auto. lia. }
        intros EL.
        destruct (IHr st5 ltac:(intros c Hc; apply SUB; now right) I5 Hv4 ltac:(rewrite <- N3; exact N4) EL)
          as (Ev & I6 & X6 & SR).
        split; [exact Ev|]. split; [exact I6|]. split.
        + apply (extends_trans st3 st4 st'); auto.
        + intros c [<-|Hc]; auto. }
    intros EL. destruct H2 as [Hv2 N2].
    destruct (LOOP (kids node) st2 ltac:(auto) I2 Hv2 N2 EL) as (-> & I' & X' & SK).
    destruct (extends_nodeof st2 st' v1 X' Hv2) as [N' Hv'].
    split; [exact I'|]. split; [exact Hv'|]. split; [rewrite N'; exact N2|].
    split; [apply stable_S; exact SK|]. split.
    - apply (extends_trans st st2 st'); auto.
    - intros E. destruct X' as (_ & O'). apply O'. auto.
  Qed.

  Lemma assign_all_inv unfold : forall outs st st',
    (forall o, In o outs -> In o (t_outs T)) ->
    Inv st [] -> assign_all (S F0) T unfold outs st = Ok st' -> Inv st' [].
  Proof.
    induction outs as [|o r IH]; intros st st' SUB I; cbn [assign_all].
    - intros [= <-]. exact I.
    - destruct (assign (S F0) T unfold o [] st) as [[v st1]| |] eqn:EA; try discriminate.
      destruct (assign_inv unfold (S F0) ltac:(lia) o [] st [] v st1 I EA) as (I1 & Hv & Nv & _ & _ & OUT).
      intros ER. apply (IH st1 st'); auto.
      + intros x Hx. apply SUB. now right.
      + split; try apply I1. intros x Hx.
        destruct (iv_conn st1 _ I1 x Hx) as [A|[A|[<-|[]]]]; auto.
        left. apply OUT. apply memn_In. apply SUB. now left.
  Qed.
End Assign.

Lemma Inv_init T F0 : Inv T F0 (mkD [] [] [] []) [].
Proof. split; cbn; intros; try tauto. unfold dlen in *. cbn in *. lia. Qed.

(* what a successful traversal leaves *)
Record from_task (T : task) (sk : skel) (nodes : list nat) : Prop := {
  ft_len : length nodes = sk_n sk;
  ft_ty : forall v, v < sk_n sk -> tyof sk v = tn_ty (tnode_of T (nth v nodes 0));
  ft_op : forall v, v < sk_n sk -> opof sk v = tn_op (tnode_of T (nth v nodes 0));
  ft_edges : forall a b, In (a, b) (sk_edges sk) ->
     In (nth b nodes 0) (tn_from (tnode_of T (nth a nodes 0)));
  ft_outs : forall v, In v (sk_outs sk) -> In (nth v nodes 0) (t_outs T);
  ft_ins : forall v, In v (sk_ins sk) -> tn_in (tnode_of T (nth v nodes 0)) = true
}.

Theorem skeleton_dag fuel T unfold sk : skeleton fuel T unfold = Ok sk ->
  sk_dag sk /\ exists nodes, from_task T sk nodes.
Proof.
  unfold skeleton.
  destruct (assign_all fuel T unfold (t_outs T) (mkD [] [] [] [])) as [st| |] eqn:EA; try discriminate.
  intros [= <-].
  destruct fuel as [|F0].
  { (* no fuel: only an empty list of outputs succeeds *)
    destruct (t_outs T) as [|o r] eqn:EO; cbn in EA; [|discriminate].
    injection EA as <-. split.
    - split; [|split].
      + unfold sk_valid, sk_n. cbn. repeat split; intros; tauto.
      + exists (fun _ => 0). intros a b [].
      + unfold sk_n. cbn. intros v Hv. lia.
    - exists []. split; unfold sk_n; cbn; intros; try tauto; lia. }
  pose proof (assign_all_inv T F0 unfold (t_outs T) _ st ltac:(auto) (Inv_init T F0) EA) as I.
  assert (LEN : sk_n (skel_of T st) = dlen st).
  { unfold sk_n, skel_of, dlen. cbn. now rewrite map_length. }
  split.
  - split; [|split].
    + unfold sk_valid. rewrite LEN. cbn [skel_of sk_edges sk_outs sk_ins sk_op].
      split; [|split; [|split]].
      * intros a b Hab. destruct (iv_edges T F0 st [] I a b Hab) as (A & B & _). auto.
      * intros v Hv. apply (iv_outs T F0 st [] I v Hv).
      * intros v Hv. apply (iv_ins T F0 st [] I v Hv).
      * unfold dlen. now rewrite map_length.
    + exists (fun v => S F0 - ht T (S F0) (nodeof st v)). intros a b Hab.
      cbn [skel_of sk_edges] in Hab.
      destruct (iv_edges T F0 st [] I a b Hab) as (_ & _ & K & Sb).
      pose proof (ht_edge T F0 _ _ K Sb). pose proof (ht_le T (S F0) (nodeof st a)). lia.
    + rewrite LEN. intros v Hv. cbn [skel_of sk_outs].
      destruct (iv_conn T F0 st [] I v Hv) as [A|[(a & A)|[]]]; auto.
      right. intros E. assert (HI : In a (after (skel_of T st) v)) by now apply after_In.
      rewrite E in HI. destruct HI.
  - exists (d_nodes st). split.
    + now rewrite LEN.
    + intros v Hv. unfold tyof, skel_of. cbn [sk_ty].
      rewrite LEN in Hv. unfold dlen in Hv.
      rewrite (nth_indep _ [] (tn_ty (tnode_of T 0))) by now rewrite map_length.
      now rewrite (map_nth (fun n => tn_ty (tnode_of T n))).
    + intros v Hv. unfold opof, skel_of. cbn [sk_op].
      rewrite LEN in Hv. unfold dlen in Hv.
      rewrite (nth_indep _ [] (tn_op (tnode_of T 0))) by now rewrite map_length.
      now rewrite (map_nth (fun n => tn_op (tnode_of T n))).
    + intros a b Hab. apply (iv_edges T F0 st [] I a b Hab).
    + intros v Hv. apply (iv_outs T F0 st [] I v Hv).
    + intros v Hv. apply (iv_ins T F0 st [] I v Hv).
Qed.
