(* C11, dropping an INNER step of a task: the link  a -> s -> b  is replaced
   by  a -> b.  On graphs whose depends relation is transitive (what C09
   proves of every graph add_from produces) this never loses a match, for
   every kind of step s and whatever the kinds of a and b: the :depends /
   :depends? rule (query.py:377-383) is such that whenever the new link
   a -> b is strict, one of the two old links was strict.

   Two forms: [mono_inner] on skeletons (any variable renaming h, with or
   without unfold_tree), and [drop_node_matches] on task graphs with the
   concrete operation [drop_node] (step nodes keep their identity). *)
From Coq Require Import List Arith Bool Lia.
Import ListNotations.
From TF Require Import Base.Hier Base.Ty Sub.Match Sub.SubSpec Sub.SubProofs.
From TF Require Import Bag.Union Bag.Bag Bag.BagTy.
From TF Require Import Query.Bgp Query.Gen Query.GenProofs Query.Spec Query.Assign
  Query.TaskSpec Query.Check.
From TF Require Graph.Closure.

Definition dep_transitive (G : graph) : Prop :=
  forall x y z, In (x, PDepends, y) G -> In (y, PDepends, z) G -> In (x, PDepends, z) G.

(* ---------------------------------------------------------------- *)
(* dep_transitive is what C09's invariant [closed] gives *)

Definition edges_graph (g : Closure.graph) (rest : graph) : graph :=
  map (fun e : nat * nat => (CNode (fst e), PFrom, CNode (snd e))) (Closure.frm g) ++
  map (fun e : nat * nat => (CNode (fst e), PDepends, CNode (snd e))) (Closure.dep g) ++ rest.

Lemma closed_dep_transitive g rest :
  Closure.closed g -> (forall x y, ~ In (x, PDepends, y) rest) ->
  dep_transitive (edges_graph g rest).
Proof.
  intros CL NR.
  assert (DEP : forall x y, In (x, PDepends, y) (edges_graph g rest) <->
            exists a b, x = CNode a /\ y = CNode b /\ In (a, b) (Closure.dep g)).
  { intros x y. unfold edges_graph. rewrite !in_app_iff, !in_map_iff. split.
    - intros [([a b] & E & _)|[([a b] & E & HI)|HI]].
      + discriminate.
      + cbn in E. injection E as <- <-. eauto.
      + destruct (NR x y HI).
    - intros (a & b & -> & -> & HI). right. left. exists (a, b). auto. }
  intros x y z H1 H2. apply DEP in H1, H2.
  destruct H1 as (a & b & -> & -> & H1). destruct H2 as (b' & c & [= <-] & -> & H2).
  apply DEP. exists a, c. split; auto. split; auto.
  apply CL. apply CL in H1, H2. eapply Closure.clos_trans; eauto.
Qed.

(* ---------------------------------------------------------------- *)
(* the link rule *)

(* the link condition as a function of the four emptiness facts *)
Definition link_kind (opa tya opb tyb : bool) : path :=
  if opa && (tya || (negb opb && tyb)) then Opt PDepends else Lnk PDepends.

Lemma link_path_kind sk c v :
  link_path sk c v = link_kind (is_nil (opof sk c)) (is_nil (tyof sk c))
                               (is_nil (opof sk v)) (is_nil (tyof sk v)).
Proof. reflexivity. Qed.

(* a -> s -> b composes to a -> b, whatever s is *)
Lemma link_compose G : dep_transitive G ->
  forall oa ta os ts ob tb x y z,
  holds G x (link_kind oa ta os ts) y -> holds G y (link_kind os ts ob tb) z ->
  holds G x (link_kind oa ta ob tb) z.
Proof.
  intros TR oa ta os ts ob tb x y z. unfold link_kind.
  destruct oa, ta, os, ts, ob, tb; cbn [andb orb negb holds];
    intros H1 H2;
    repeat match goal with
    | H : _ \/ _ |- _ => destruct H
    | H : _ /\ _ |- _ => destruct H
    end; subst; eauto.
Qed.

(* ---------------------------------------------------------------- *)
(* on skeletons *)

(* sk' asks for less than sk along h, where a link of sk' may also be a
   two-link path of sk through the dropped step s *)
Record task_le_inner (H : hier) (sk' sk : skel) (h : nat -> nat) (s : nat) : Prop := {
  li_valid : forall v, v < sk_n sk' -> h v < sk_n sk;
  li_outs : forall v, In v (sk_outs sk') -> In (h v) (sk_outs sk);
  li_ins : forall v, In v (sk_ins sk') -> In (h v) (sk_ins sk);
  li_ops : forall v, v < sk_n sk' -> opof sk' v = opof sk (h v);
  li_tys : forall v, v < sk_n sk' -> tyof sk' v = [] \/
             (tyof sk (h v) <> [] /\
              forall t, In t (tyof sk (h v)) -> exists t', In t' (tyof sk' v) /\ Sub H t t');
  li_edges : forall c v, In (c, v) (sk_edges sk') ->
     In (h c, h v) (sk_edges sk) \/ (In (h c, s) (sk_edges sk) /\ In (s, h v) (sk_edges sk))
}.

Theorem mono_inner H canon sw sk sk' h s G : wf_hier H -> graph_ok H canon G ->
  dep_transitive G ->
  sk_dag sk -> sk_dag sk' -> sk_canon H canon sk -> sk_canon H canon sk' ->
  by_chronology sw = true -> task_le_inner H sk' sk h s ->
  matches G (gen H sw sk) -> matches G (gen H sw sk').
Proof.
  intros W GOK TR DAG DAG' CAN CAN' CH LE M.
  apply (gen_spec H canon) in M; auto. apply (gen_spec H canon); auto.
  destruct M as (a & O & I & A & L). exists (fun v => a (h v)).
  assert (NIL : forall v, v < sk_n sk' -> tyof sk (h v) = [] -> tyof sk' v = []).
  { intros v Hv E. destruct (li_tys H sk' sk h s LE v Hv) as [E'|[NE _]]; auto. congruence. }
  split; [|split; [|split]].
  - intros v Hv. apply O. apply (li_outs H sk' sk h s LE v Hv).
  - intros E v Hv. apply I; auto. apply (li_ins H sk' sk h s LE v Hv).
  - intros v Hv. destruct (A (h v) (li_valid H sk' sk h s LE v Hv)) as [VA TA]. split.
    + unfold via_ok in *. rewrite (li_ops H sk' sk h s LE v Hv). exact VA.
    + unfold typ_ok, typ_ok_set in *.
      destruct (li_tys H sk' sk h s LE v Hv) as [E|[NE GEN]]; auto.
      destruct TA as [E|(t & Ht & HI)]; [congruence|].
      destruct (GEN t Ht) as (t' & Ht' & S'). right. exists t'. split; auto.
      apply (g_sub_up H canon G GOK _ t t'); auto. apply (CAN' v t' Ht').
  - intros c v Hcv. unfold link_ok.
    destruct DAG' as ((VE & _) & _). destruct (VE c v Hcv) as [Hc Hv].
    apply (link_weaken G sk sk' h c v); auto.
    + apply (li_ops H sk' sk h s LE c Hc).
    + apply (li_ops H sk' sk h s LE v Hv).
    + destruct (li_edges H sk' sk h s LE c v Hcv) as [E|[E1 E2]].
      * apply (L _ _ E).
      * pose proof (L _ _ E1) as L1. pose proof (L _ _ E2) as L2. unfold link_ok in L1, L2.
        rewrite link_path_kind in *. eapply link_compose; eauto.
Qed.

(* ---------------------------------------------------------------- *)
(* on task graphs: the concrete operation *)

(* every step that was preceded by s is now preceded by s's predecessors;
   s itself stays in the table but is no longer referred to *)
Definition splice (s : nat) (ks : list nat) (l : list nat) : list nat :=
  flat_map (fun c => if Nat.eqb c s then ks else [c]) l.

Definition drop_node (T : task) (s : nat) : task :=
  let ks := tn_from (tnode_of T s) in
  mkTask (map (fun kd : nat * tnode =>
                 (fst kd, mkTnode (tn_ty (snd kd)) (tn_op (snd kd))
                                  (splice s ks (tn_from (snd kd))) (tn_in (snd kd))))
              (t_nodes T))
         (t_outs T).

Lemma assoc_map {A B} (f : A -> B) k (l : list (nat * A)) :
  assoc k (map (fun kd => (fst kd, f (snd kd))) l) = option_map f (assoc k l).
Proof.
  induction l as [|[k' d] l IH]; cbn [map assoc fst snd]; auto.
  destruct (Nat.eqb k k'); auto.
Qed.

Lemma tnode_drop T s n :
  tn_ty (tnode_of (drop_node T s) n) = tn_ty (tnode_of T n) /\
  tn_op (tnode_of (drop_node T s) n) = tn_op (tnode_of T n) /\
  tn_in (tnode_of (drop_node T s) n) = tn_in (tnode_of T n) /\
  tn_from (tnode_of (drop_node T s) n) =
    splice s (tn_from (tnode_of T s)) (tn_from (tnode_of T n)).
Proof.
  unfold tnode_of at 1 3 5 7. unfold drop_node. cbn [t_nodes].
  rewrite (assoc_map (fun d => mkTnode (tn_ty d) (tn_op d)
             (splice s (tn_from (tnode_of T s)) (tn_from d)) (tn_in d))).
  unfold tnode_of at 2 4 6 9. destruct (assoc n (t_nodes T)); cbn; auto.
Qed.

Lemma splice_In s ks l c : In c (splice s ks l) <->
  (In c l /\ c <> s) \/ (In s l /\ In c ks).
Proof.
  unfold splice. rewrite in_flat_map. split.
  - intros (x & Hx & Hc). destruct (Nat.eqb x s) eqn:E.
    + apply Nat.eqb_eq in E. subst. auto.
    + apply Nat.eqb_neq in E. destruct Hc as [<-|[]]. auto.
  - intros [[Hc NE]|[Hs Hc]].
    + exists c. split; auto. apply Nat.eqb_neq in NE. rewrite NE. now left.
    + exists s. split; auto. now rewrite Nat.eqb_refl.
Qed.

Lemma tlink_kind T n c :
  tlink T n c = link_kind (is_nil (tn_op (tnode_of T n))) (is_nil (tn_ty (tnode_of T n)))
                          (is_nil (tn_op (tnode_of T c))) (is_nil (tn_ty (tnode_of T c))).
Proof. reflexivity. Qed.

Lemma reach_drop T s n : reach (drop_node T s) n -> reach T n.
Proof.
  induction 1 as [o Ho|n c Hn IH Hc].
  - now apply reach_out.
  - destruct (tnode_drop T s n) as (_ & _ & _ & EF). rewrite EF in Hc.
    apply splice_In in Hc. destruct Hc as [[Hc _]|[Hs Hc]].
    + eapply reach_from; eauto.
    + eapply reach_from; [eapply reach_from; eauto | exact Hc].
Qed.

Theorem drop_node_assignable sw G T s : dep_transitive G ->
  task_assignable sw G T -> task_assignable sw G (drop_node T s).
Proof.
  intros TR (a & O & I & A & L). exists a. split; [|split; [|split]].
  - exact O.
  - intros E n Hn Hi. destruct (tnode_drop T s n) as (_ & _ & EI & _). rewrite EI in Hi.
    apply I; auto. now apply (reach_drop T s).
  - intros n Hn. destruct (tnode_drop T s n) as (ET & EO & _ & _). rewrite ET, EO.
    apply A. now apply (reach_drop T s).
  - intros n c Hn Hc. apply (reach_drop T s) in Hn.
    destruct (tnode_drop T s n) as (ETn & EOn & _ & EF).
    destruct (tnode_drop T s c) as (ETc & EOc & _ & _).
    rewrite tlink_kind, ETn, EOn, ETc, EOc, <- tlink_kind.
    rewrite EF in Hc. apply splice_In in Hc. destruct Hc as [[Hc _]|[Hs Hc]].
    + apply L; auto.
    + pose proof (L n s Hn Hs) as L1.
      pose proof (L s c (reach_from T n s Hn Hs) Hc) as L2.
      rewrite tlink_kind in *. eapply link_compose; eauto.
Qed.

(* the query generated from the task without step s still returns every
   workflow the query generated from the task returned *)
Theorem drop_node_matches H canon G fuel fuel' T s sw sk sk' :
  wf_hier H -> graph_ok H canon G -> dep_transitive G ->
  skeleton fuel T false = Ok sk -> skeleton fuel' (drop_node T s) false = Ok sk' ->
  sk_canon H canon sk -> sk_canon H canon sk' -> by_chronology sw = true ->
  matches G (gen H sw sk) -> matches G (gen H sw sk').
Proof.
  intros W GOK TR SK SK' CAN CAN' CH M.
  apply (task_query_spec H canon G fuel T sw sk) in M; auto.
  apply (task_query_spec H canon G fuel' (drop_node T s) sw sk'); auto.
  now apply drop_node_assignable.
Qed.
