(* Proofs about the type-notation model: printing followed by tokenizing and
   parsing is the identity, and synonyms denote their definitions. *)
From Coq Require Import List Arith Bool Lia.
Import ListNotations.
From TF Require Import Base.Hier Base.Ty Parse.Lang Parse.Tok Parse.TypeText.

(* ------------------------------------------------------------------ *)
(* names *)

Lemma lang_text_ok_spec L : lang_text_okb L = true ->
  NoDup (tsnames L) /\ forall n, In n (tsnames L) -> text_nameb n = true.
Proof.
  unfold lang_text_okb. intros H. apply andb_true_iff in H as [H1 H2].
  split; [now apply nodupb_NoDup|]. now rewrite forallb_forall in H2.
Qed.

Lemma text_nameb_spec n : text_nameb n = true ->
  plainb n = true /\ name_eqb n n_us = false /\ name_eqb n n_Top = false /\ name_eqb n n_Bottom = false.
Proof.
  unfold text_nameb. intros H.
  apply andb_true_iff in H as [H H4]. apply andb_true_iff in H as [H H3].
  apply andb_true_iff in H as [H1 H2].
  repeat split; auto; now apply negb_true_iff.
Qed.

Lemma resolve_type L : lang_text_okb L = true -> forall i n a,
  nth_error (l_types L) i = Some (n, a) ->
  plainb n = true /\
  resolve_tok L n = Ok (if a =? 0 then IInst (TOp (5 + i) []) else IOp (5 + i)).
Proof.
  intros HL i n a Hi. apply lang_text_ok_spec in HL as [ND Hn].
  assert (In n (tsnames L)) as Hin.
  { unfold tsnames. apply in_or_app. left. eapply nth_error_fst_In; eauto. }
  apply Hn, text_nameb_spec in Hin as (P & E1 & E2 & E3). split; [exact P|].
  unfold resolve_tok. rewrite E1, E2, E3.
  rewrite (find_idx_nth (l_types L) (NoDup_app_l _ _ ND) i n a 5 Hi). reflexivity.
Qed.

Lemma resolve_syn L : lang_text_okb L = true -> forall k n a b,
  nth_error (l_syns L) k = Some (n, (a, b)) ->
  plainb n = true /\
  resolve_tok L n = Ok (if a =? 0 then IInst (subst [] b) else IAlias k).
Proof.
  intros HL k n a b Hk. apply lang_text_ok_spec in HL as [ND Hn].
  assert (In n (map fst (l_syns L))) as Hs by (eapply nth_error_fst_In; eauto).
  assert (In n (tsnames L)) as Hin by (unfold tsnames; apply in_or_app; now right).
  apply Hn, text_nameb_spec in Hin as (P & E1 & E2 & E3). split; [exact P|].
  unfold resolve_tok. rewrite E1, E2, E3.
  rewrite find_idx_none.
  - rewrite (find_idx_nth (l_syns L) (NoDup_app_r _ _ ND) k n (a, b) 0 Hk). reflexivity.
  - intros F. exact (NoDup_app_disj _ _ n ND F Hs).
Qed.

(* ------------------------------------------------------------------ *)
(* the stack left behind by the tokens of one complete type *)

Definition pend_app (hd : item) (base : ty) (es : list ty) : list item :=
  match es with
  | [] => [IInst base]
  | _ => rev (map IInst es) ++ [hd]
  end.

Definition pend (L : lang) (s : sty) : list item :=
  match s with
  | STy o args =>
      if o =? Product then [IInst (expand L s)]
      else pend_app (IOp o) (TOp o []) (map (expand L) args)
  | SAl k args => pend_app (IAlias k) (subst [] (syn_body L k)) (map (expand L) args)
  end.

Lemma bt_insts L es : forall X acc, bt L (rev (map IInst es) ++ X) acc = bt L X (es ++ acc).
Proof.
  induction es as [|e es IH]; intros X acc; [reflexivity|].
  cbn [map rev]. rewrite <- app_assoc. rewrite IH. reflexivity.
Qed.

Lemma take_insts_rev es : forall X acc,
  take_insts (rev (map IInst es) ++ X) acc = take_insts X (es ++ acc).
Proof.
  induction es as [|e es IH]; intros X acc; [reflexivity|].
  cbn [map rev]. rewrite <- app_assoc. rewrite IH. reflexivity.
Qed.

Lemma swfb_inv_ty L o args : swfb L (STy o args) = true ->
  ( ((o = Top \/ o = Bottom) /\ args = [])
    \/ (o = Product /\ length args = 2)
    \/ (exists i n, o = 5 + i /\ nth_error (l_types L) i = Some (n, length args)) )
  /\ forallb (swfb L) args = true.
Proof.
  cbn [swfb]. intros H. apply andb_true_iff in H as [H Hall]. split; [|exact Hall].
  apply orb_true_iff in H as [H|H]; [apply orb_true_iff in H as [H|H]|].
  - left. apply andb_true_iff in H as [H1 H2]. apply Nat.eqb_eq in H2.
    destruct args; [|discriminate]. split; [|reflexivity].
    apply orb_true_iff in H1 as [H1|H1]; apply Nat.eqb_eq in H1; auto.
  - right; left. apply andb_true_iff in H as [H1 H2].
    apply Nat.eqb_eq in H1, H2. auto.
  - right; right. apply andb_true_iff in H as [H1 H2]. apply Nat.leb_le in H1.
    destruct (nth_error (l_types L) (o - 5)) as [[n a]|] eqn:E; [|discriminate].
    apply Nat.eqb_eq in H2. subst a. exists (o - 5), n. split; [lia | exact E].
Qed.

Lemma swfb_inv_al L k args : swfb L (SAl k args) = true ->
  (exists n b, nth_error (l_syns L) k = Some (n, (length args, b)))
  /\ forallb (swfb L) args = true.
Proof.
  cbn [swfb]. intros H. apply andb_true_iff in H as [H Hall]. split; [|exact Hall].
  destruct (nth_error (l_syns L) k) as [[n [a b]]|] eqn:E; [|discriminate].
  apply Nat.eqb_eq in H. subst a. eauto.
Qed.

Lemma pend_shape L s : swfb L s = true ->
  pend L s = [IInst (expand L s)]
  \/ (exists o e es, (o =? Product) = false /\ pend L s = rev (map IInst (e :: es)) ++ [IOp o]
                     /\ apply_op L o (e :: es) = Ok (expand L s))
  \/ (exists k e es, pend L s = rev (map IInst (e :: es)) ++ [IAlias k]
                     /\ apply_alias L k (e :: es) = Ok (expand L s)).
Proof.
  destruct s as [o args|k args]; intros W.
  - apply swfb_inv_ty in W as [W _]. unfold pend.
    destruct (o =? Product) eqn:EP; [now left|].
    destruct args as [|a args]; [now left|]. right; left.
    cbn [map pend_app expand].
    exists o, (expand L a), (map (expand L) args). split; [exact EP|]. split; [reflexivity|].
    unfold apply_op. cbn [length]. rewrite map_length.
    destruct W as [[_ F]|[[-> _]|(i & n & -> & Hi)]]; [discriminate | discriminate |].
    cbn [length] in Hi. change (op_arity L (5 + i)) with
      (match nth_error (l_types L) i with Some (_, a) => a | None => 0 end).
    rewrite Hi. now rewrite Nat.eqb_refl.
  - apply swfb_inv_al in W as [(n & b & Hk) _]. unfold pend.
    destruct args as [|a args]; [now left|]. right; right.
    cbn [map pend_app expand].
    exists k, (expand L a), (map (expand L) args). split; [reflexivity|].
    unfold apply_alias, syn_body. rewrite Hk. cbn [length]. rewrite map_length.
    cbn [length]. now rewrite Nat.eqb_refl.
Qed.

Lemma bt_pend L s : swfb L s = true -> forall X,
  bt L (pend L s ++ X) [] = bt L X [expand L s].
Proof.
  intros W X. destruct (pend_shape L s W) as [->|[(o & e & es & _ & -> & A)|(k & e & es & -> & A)]].
  - reflexivity.
  - rewrite <- app_assoc, bt_insts, app_nil_r. cbn [app bt]. now rewrite A.
  - rewrite <- app_assoc, bt_insts, app_nil_r. cbn [app bt]. now rewrite A.
Qed.

Lemma star_pend L s : swfb L s = true -> forall X,
  star L (pend L s ++ INone :: X) = Ok (IInst (expand L s) :: IOp Product :: INone :: X).
Proof.
  intros W X. destruct (pend_shape L s W) as [->|[(o & e & es & EP & -> & A)|(k & e & es & -> & A)]].
  - reflexivity.
  - unfold star. rewrite <- app_assoc, take_insts_rev, app_nil_r. cbn [app take_insts].
    rewrite EP, A. reflexivity.
  - unfold star. rewrite <- app_assoc, take_insts_rev, app_nil_r. cbn [app take_insts].
    rewrite A. reflexivity.
Qed.

(* ------------------------------------------------------------------ *)
(* parsing the tokens of a well-formed surface type *)

Definition run_ok (L : lang) (x : sty) : Prop :=
  forall st rest, run L (star L) st (stoks L x ++ rest) = run L (star L) (pend L x ++ st) rest.

Lemma run_args L (args : list sty) : args <> [] ->
  Forall (run_ok L) args -> forallb (swfb L) args = true ->
  forall X rest,
    run L (star L) (INone :: X) (join [TkC] (map (stoks L) args) ++ TkR :: rest)
    = run L (star L) (rev (map IInst (map (expand L) args)) ++ X) rest.
Proof.
  induction args as [|a args IH]; intros Hne HR HW X rest; [congruence|].
  inversion HR as [|? ? Ra HR']; subst.
  cbn [forallb] in HW. apply andb_true_iff in HW as [Wa HW'].
  destruct args as [|b args].
  - cbn [map join]. rewrite Ra. cbn [run step]. rewrite (bt_pend L a Wa). reflexivity.
  - change (join [TkC] (map (stoks L) (a :: b :: args)))
      with (stoks L a ++ [TkC] ++ join [TkC] (map (stoks L) (b :: args))).
    rewrite <- !app_assoc. rewrite Ra. cbn [app run step].
    rewrite (bt_pend L a Wa). cbn [bt].
    rewrite (IH ltac:(discriminate) HR' HW').
    change (map IInst (map (expand L) (a :: b :: args)))
      with (IInst (expand L a) :: map IInst (map (expand L) (b :: args))).
    cbn [rev]. now rewrite <- app_assoc.
Qed.

Lemma run_app L nm hd base (a : nat) (args : list sty) :
  resolve_tok L nm = Ok (if a =? 0 then IInst base else hd) -> length args = a ->
  Forall (run_ok L) args -> forallb (swfb L) args = true ->
  forall st rest,
    run L (star L) st (app_toks nm (map (stoks L) args) ++ rest)
    = run L (star L) (pend_app hd base (map (expand L) args) ++ st) rest.
Proof.
  intros Hres Hlen HR HW st rest. destruct args as [|x args].
  - cbn [length] in Hlen. subst a. cbn [map app_toks app run step pend_app].
    rewrite Hres. reflexivity.
  - cbn [length] in Hlen. subst a.
    change (app_toks nm (map (stoks L) (x :: args)))
      with (TkId nm :: TkL :: join [TkC] (map (stoks L) (x :: args)) ++ [TkR]).
    cbn [app run step]. rewrite Hres. cbn [Nat.eqb].
    cbn [run step]. rewrite <- app_assoc. cbn [app].
    rewrite (run_args L (x :: args) ltac:(discriminate) HR HW).
    unfold pend_app. cbn [map]. now rewrite <- app_assoc.
Qed.

Lemma run_stoks L : lang_text_okb L = true -> forall s, swfb L s = true -> run_ok L s.
Proof.
  intros HL. induction s as [o args IH|k args IH] using sty_ind'; intros W.
  - pose proof (swfb_inv_ty L o args W) as [D HW].
    assert (HR : Forall (run_ok L) args).
    { rewrite forallb_forall in HW. rewrite Forall_forall in IH |- *.
      intros x Hx. apply IH; auto. }
    intros st rest. unfold pend. cbn [stoks].
    destruct (o =? Product) eqn:EP.
    + apply Nat.eqb_eq in EP. subst o.
      destruct D as [[[F|F] _]|[[_ Hlen]|(i & n & F & _)]]; try discriminate; try (exfalso; lia).
      destruct args as [|a [|b [|c args]]]; try discriminate.
      inversion HR as [|? ? Ra HR']; subst. inversion HR' as [|? ? Rb _]; subst.
      cbn [forallb] in HW. apply andb_true_iff in HW as [Wa HW].
      apply andb_true_iff in HW as [Wb _].
      cbn [app run step]. rewrite <- app_assoc. rewrite Ra. cbn [app run step].
      rewrite (star_pend L a Wa). rewrite <- app_assoc. rewrite Rb. cbn [app run step].
      rewrite (bt_pend L b Wb). cbn [bt]. unfold apply_op. cbn [length op_arity Product Nat.eqb].
      cbn [bt expand map]. reflexivity.
    + destruct D as [[HTB ->]|[[-> _]|(i & n & -> & Hi)]]; [| discriminate |].
      * cbn [map app_toks app run step pend_app].
        destruct HTB as [-> | ->]; reflexivity.
      * destruct (resolve_type L HL i n (length args) Hi) as [_ Hres].
        change (op_name L (5 + i)) with
          (match nth_error (l_types L) i with Some (n, _) => n | None => [] end).
        rewrite Hi. now apply (run_app L n (IOp (5 + i)) (TOp (5 + i) []) (length args)).
  - pose proof (swfb_inv_al L k args W) as [(n & b & Hk) HW].
    assert (HR : Forall (run_ok L) args).
    { rewrite forallb_forall in HW. rewrite Forall_forall in IH |- *.
      intros x Hx. apply IH; auto. }
    intros st rest. unfold pend. cbn [stoks].
    destruct (resolve_syn L HL k n (length args) b Hk) as [_ Hres].
    unfold syn_name, syn_body. rewrite Hk.
    now apply (run_app L n (IAlias k) (subst [] b) (length args)).
Qed.

Lemma parse_tokens_stoks L : lang_text_okb L = true -> forall s, swfb L s = true ->
  parse_tokens L (star L) (stoks L s) = Ok (expand L s).
Proof.
  intros HL s W. unfold parse_tokens.
  rewrite <- (app_nil_r (stoks L s)). rewrite (run_stoks L HL s W). cbn [run].
  rewrite (bt_pend L s W). reflexivity.
Qed.

(* ------------------------------------------------------------------ *)
(* tokenizing printed text *)

Lemma tokz_lp r : tokz [] (40 :: r) = TkL :: tokz [] r.
Proof. reflexivity. Qed.
Lemma tokz_rp r : tokz [] (41 :: r) = TkR :: tokz [] r.
Proof. reflexivity. Qed.
Lemma tokz_sep r : tokz [] (44 :: 32 :: r) = TkC :: tokz [] r.
Proof. reflexivity. Qed.
Lemma tokz_prod r : tokz [] (32 :: 42 :: 32 :: r) = TkStar :: tokz [] r.
Proof. reflexivity. Qed.

Definition tok_ok (L : lang) (x : sty) : Prop :=
  forall r, delim_start r -> tokz [] (stext L x ++ r) = stoks L x ++ tokz [] r.

Lemma tok_args L (args : list sty) : args <> [] -> Forall (tok_ok L) args ->
  forall r, delim_start r ->
    tokz [] (join [44; 32] (map (stext L) args) ++ r)
    = join [TkC] (map (stoks L) args) ++ tokz [] r.
Proof.
  induction args as [|a args IH]; intros Hne HT r Hr; [congruence|].
  inversion HT as [|? ? Ta HT']; subst.
  destruct args as [|b args].
  - cbn [map join]. now apply Ta.
  - change (join [44; 32] (map (stext L) (a :: b :: args)))
      with (stext L a ++ [44; 32] ++ join [44; 32] (map (stext L) (b :: args))).
    change (join [TkC] (map (stoks L) (a :: b :: args)))
      with (stoks L a ++ [TkC] ++ join [TkC] (map (stoks L) (b :: args))).
    rewrite <- !app_assoc. rewrite Ta by reflexivity. cbn [app].
    rewrite tokz_sep. rewrite (IH ltac:(discriminate) HT' r Hr). reflexivity.
Qed.

Lemma tok_app L nm (args : list sty) : plainb nm = true -> Forall (tok_ok L) args ->
  forall r, delim_start r ->
    tokz [] (app_text nm (map (stext L) args) ++ r)
    = app_toks nm (map (stoks L) args) ++ tokz [] r.
Proof.
  intros P HT r Hr. destruct args as [|x args].
  - cbn [map app_text app_toks app]. now apply tokz_name.
  - change (app_text nm (map (stext L) (x :: args)))
      with (nm ++ [40] ++ join [44; 32] (map (stext L) (x :: args)) ++ [41]).
    change (app_toks nm (map (stoks L) (x :: args)))
      with (TkId nm :: TkL :: join [TkC] (map (stoks L) (x :: args)) ++ [TkR]).
    rewrite <- !app_assoc. rewrite tokz_name by (auto; reflexivity).
    cbn [app]. rewrite tokz_lp.
    rewrite (tok_args L (x :: args) ltac:(discriminate) HT) by reflexivity.
    rewrite tokz_rp. rewrite <- app_assoc. reflexivity.
Qed.

Lemma tok_stext L : lang_text_okb L = true -> forall s, swfb L s = true -> tok_ok L s.
Proof.
  intros HL. induction s as [o args IH|k args IH] using sty_ind'; intros W.
  - pose proof (swfb_inv_ty L o args W) as [D HW].
    assert (HT : Forall (tok_ok L) args).
    { rewrite forallb_forall in HW. rewrite Forall_forall in IH |- *.
      intros x Hx. apply IH; auto. }
    intros r Hr. cbn [stext stoks].
    destruct (o =? Product) eqn:EP.
    + apply Nat.eqb_eq in EP. subst o.
      destruct D as [[[F|F] _]|[[_ Hlen]|(i & n & F & _)]]; try discriminate; try (exfalso; lia).
      destruct args as [|a [|b [|c args]]]; try discriminate.
      inversion HT as [|? ? Ta HT']; subst. inversion HT' as [|? ? Tb _]; subst.
      rewrite <- !app_assoc. cbn [app]. rewrite tokz_lp.
      rewrite Ta by reflexivity. rewrite tokz_prod. rewrite Tb by reflexivity.
      rewrite tokz_rp. cbn [app]. repeat (rewrite <- app_assoc; cbn [app]). reflexivity.
    + destruct D as [[HTB ->]|[[-> _]|(i & n & -> & Hi)]]; [| discriminate |].
      * apply (tok_app L (op_name L o) []); auto. destruct HTB as [-> | ->]; reflexivity.
      * destruct (resolve_type L HL i n (length args) Hi) as [P _].
        change (op_name L (5 + i)) with
          (match nth_error (l_types L) i with Some (n, _) => n | None => [] end).
        rewrite Hi. now apply tok_app.
  - pose proof (swfb_inv_al L k args W) as [(n & b & Hk) HW].
    assert (HT : Forall (tok_ok L) args).
    { rewrite forallb_forall in HW. rewrite Forall_forall in IH |- *.
      intros x Hx. apply IH; auto. }
    intros r Hr. cbn [stext stoks].
    destruct (resolve_syn L HL k n (length args) b Hk) as [P _].
    unfold syn_name. rewrite Hk. now apply tok_app.
Qed.

(* ------------------------------------------------------------------ *)
(* main statements *)

(* a synonym (plain or parameterised) written in type text denotes exactly its
   definition; more generally every well-formed type text parses to its expansion *)
Theorem parse_stext L : lang_text_okb L = true -> forall s, swfb L s = true ->
  parse_type L (stext L s) = Ok (expand L s).
Proof.
  intros HL s W. unfold parse_type, tokenize.
  rewrite <- (app_nil_r (stext L s)). rewrite (tok_stext L HL s W) by exact I.
  cbn [tokz flush]. rewrite app_nil_r. now apply parse_tokens_stoks.
Qed.

Lemma expand_embed L t : expand L (embed t) = t.
Proof.
  induction t as [o args IH] using ty_ind'. cbn [embed expand]. f_equal.
  rewrite map_map. rewrite <- (map_id args) at 2. apply map_ext_in.
  rewrite Forall_forall in IH. auto.
Qed.

Lemma text_embed L t : text_domb L t = true -> text_std L t = stext L (embed t).
Proof.
  unfold text_domb. induction t as [o args IH] using ty_ind'. intros W.
  cbn [embed] in W. pose proof (swfb_inv_ty L o _ W) as [D HW].
  assert (HM : map (text_std L) args = map (stext L) (map embed args)).
  { rewrite map_map. apply map_ext_in. intros x Hx.
    rewrite Forall_forall in IH. apply IH; [exact Hx|].
    rewrite forallb_forall in HW. apply HW. now apply in_map. }
  cbn [embed stext]. unfold text_std in *. cbn [text].
  rewrite map_length in D.
  destruct D as [[HTB E]|[[-> Hlen]|(i & n & -> & Hi)]].
  - destruct args; [|discriminate]. destruct HTB as [-> | ->]; reflexivity.
  - destruct args as [|a [|b [|c args]]]; try discriminate.
    cbn [map] in HM. injection HM as Ha Hb.
    cbn [Nat.eqb Function Product andb negb is_nil map]. rewrite Ha, Hb. reflexivity.
  - replace (5 + i =? Function) with false by reflexivity.
    replace (5 + i =? Product) with false by reflexivity. cbn [andb].
    rewrite <- HM. destruct args; reflexivity.
Qed.

(* parsing the printed form of a concrete non-function type yields that type *)
Theorem parse_text_roundtrip L : lang_text_okb L = true -> forall t, text_domb L t = true ->
  parse_type L (text_std L t) = Ok t.
Proof.
  intros HL t W. rewrite (text_embed L t W).
  rewrite (parse_stext L HL (embed t) W). now rewrite expand_embed.
Qed.

(* the conditions on names follow from Language.add for the part it enforces *)
Lemma built_nodup L : built L -> NoDup (tsnames L).
Proof. intros B. apply names_ok_tsnames. now apply built_names_ok. Qed.

(* ------------------------------------------------------------------ *)
(* the pinned `*` branch takes only the last parameter of a compound left
   operand: with A=5, F=6 (unary), "(F(A) * A)" parses to F((A * A)) *)
Definition refTL : lang := mkLang [([65], 0); ([70], 1)] [([83], (1, AOp 6 [AVar 0]))] [].
Definition refTT : ty := TOp Product [TOp 6 [TOp 5 []]; TOp 5 []].

Lemma text_pinned_refuted :
  exists L t t', lang_text_okb L = true /\ text_domb L t = true /\
    parse_type_pinned L (text_std L t) = Ok t' /\ t' <> t.
Proof.
  exists refTL, refTT, (TOp 6 [TOp Product [TOp 5 []; TOp 5 []]]).
  repeat split; try (vm_compute; reflexivity). discriminate.
Qed.

(* ... and the same for a parameterised synonym S(x) = F(x): "(S(A) * A)" *)
Lemma alias_pinned_refuted :
  exists L s t', lang_text_okb L = true /\ swfb L s = true /\
    parse_type_pinned L (stext L s) = Ok t' /\ t' <> expand L s.
Proof.
  exists refTL, (STy Product [SAl 0 [STy 5 []]; STy 5 []]), (TOp 6 [TOp Product [TOp 5 []; TOp 5 []]]).
  repeat split; try (vm_compute; reflexivity). discriminate.
Qed.
