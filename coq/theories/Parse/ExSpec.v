(* C13: what the notations are supposed to mean.
   - [ex]      expression trees as one writes them down
   - [build]   programmatic construction: the calls `f.instance()`, `Source()`,
               `Application(f, x)`, `Source(T)` / `e.type.unify(T, subtype=True)`
               in the order of the curried Python expression f(x)(y)
   - [Renders] every way of writing a tree as tokens: `f x y`, `f(x, y)`,
               `(f x) y`, `(x, y)`, redundant brackets, annotations `e : T`
               with the type written with any redundant brackets
   Layout into characters (blanks) and newlines/comments are the relations
   [Layout] and [Junked] of ExTok.v. *)
From Coq Require Import List Arith Bool Lia NArith ZArith.
Import ListNotations.
From TF Require Import Parse.ExTok Parse.ExParser.

Inductive ex :=
| XOp (o : nat)              (* an operator of the language *)
| XDash                      (* `-` *)
| XNum (n : nat)             (* a number *)
| XApp (f x : ex)
| XAnn (e : ex) (t : pty).   (* e : T *)

Definition is_dash (e : ex) : bool := match e with XDash => true | _ => false end.

Section Spec.
  Variable lookup_op : str -> option nat.
  Variable lookup_ty : str -> option (nat * nat).
  Variable decval : N -> option nat.
  Variable St : Type.
  Variable step : St -> event -> St + perr.
  Variable ninputs : nat.

  (* ---------- programmatic construction ---------- *)
  (* next object number, anonymous sources without a type, type checker state *)
  Record bst := mkB { bc : nat; bu : list nat; ba : St }.

  Definition b_emit (b : bst) (e : event) : outcome bst :=
    match step (ba b) e with
    | inl s => Ok (mkB (bc b) (bu b) s)
    | inr x => Err x
    end.

  Definition b_new (b : bst) : bst := mkB (S (bc b)) (bu b) (ba b).

  Definition b_app (b : bst) (f x : val) : outcome (val * bst) :=
    let v := VApp (bc b) f x in bind (b_emit (b_new b) (EvApp v)) (fun b' => Ok (v, b')).

  (* `- : T` is Source(T); any other `e : T` is e.type.unify(T, subtype=True) *)
  Definition b_annot (exact : bool) (b : bst) (v : val) (t : pty) : outcome bst :=
    if exact then b_emit (mkB (bc b) (drop v (bu b)) (ba b)) (EvExact v t)
    else b_emit b (EvSub v t).

  Fixpoint build (e : ex) (b : bst) : outcome (val * bst) :=
    match e with
    | XOp o => let v := VOp (bc b) o in bind (b_emit (b_new b) (EvOp v)) (fun b' => Ok (v, b'))
    | XDash =>
        let v := VSrc (bc b) in
        bind (b_emit (mkB (S (bc b)) (bu b ++ [bc b]) (ba b)) (EvSrc v)) (fun b' => Ok (v, b'))
    | XNum n => match input_ref ninputs n with Some k => Ok (VIn k, b) | None => Err EMissingInput end
    | XApp f x =>
        bind (build f b) (fun r1 =>
          bind (build x (snd r1)) (fun r2 => b_app (snd r2) (fst r1) (fst r2)))
    | XAnn e' t =>
        bind (build e' b) (fun r =>
          bind (b_annot (is_dash e') (snd r) (fst r) t) (fun b' => Ok (fst r, b')))
    end.

  (* the tree alone: what the expression looks like whatever the type checker
     does, annotations ignored *)
  Fixpoint strip_ann (e : ex) : ex :=
    match e with
    | XApp f x => XApp (strip_ann f) (strip_ann x)
    | XAnn e' _ => strip_ann e'
    | _ => e
    end.

  (* ---------- tokens of atoms ---------- *)
  (* a token that parse_expr treats in its else-branch *)
  Definition atom_tok (t : str) : Prop :=
    sub_of t s_lcr = false /\ str_eqb t s_colon = false /\ str_eqb t s_semi = false.

  Inductive Atom : ex -> str -> Prop :=
  | At_dash : Atom XDash s_dash
  | At_num t n : atom_tok t -> str_eqb t s_dash = false -> tok_num decval t = Some n ->
      Atom (XNum n) t
  | At_op t o : atom_tok t -> str_eqb t s_dash = false -> tok_num decval t = None ->
      lookup_op t = Some o -> Atom (XOp o) t.

  (* ---------- types in annotations ---------- *)
  (* a token that parse_type looks up as a name *)
  Definition ty_name (t : str) : Prop :=
    t <> [] /\ str_eqb t s_lp = false /\ sub_of t s_rc = false /\ str_eqb t s_us = false /\
    str_eqb t s_star = false /\ str_eqb t s_Top = false /\ str_eqb t s_Bottom = false.

  Inductive TyAtom : pty -> str -> Prop :=
  | TA_us : TyAtom PVar s_us
  | TA_top : TyAtom p_top s_Top
  | TA_bottom : TyAtom p_bottom s_Bottom
  | TA_name t c : ty_name t -> lookup_ty t = Some (c, 0) -> TyAtom (PApp c []) t.

  (* a type written between brackets *)
  Inductive TyI : pty -> list str -> Prop :=
  | TI_atom T t : TyAtom T t -> TyI T [t]
  | TI_con t c n args tas : ty_name t -> lookup_ty t = Some (c, n) -> n <> 0 ->
      TyArgs args tas -> length args = n ->
      TyI (PApp c args) (t :: s_lp :: tas ++ [s_rp])
  | TI_paren T tt : TyI T tt -> TyI T (s_lp :: tt ++ [s_rp])
  | TI_prod_atom A t B tb : TyAtom A t -> TyI B tb ->
      TyI (PApp 4 [A; B]) (t :: s_star :: tb)
  | TI_prod_paren A ta B tb : TyI A ta -> TyI B tb ->
      TyI (PApp 4 [A; B]) (s_lp :: ta ++ s_rp :: s_star :: tb)
  with TyArgs : list pty -> list str -> Prop :=
  | TAr_one T tt : TyI T tt -> TyArgs [T] tt
  | TAr_cons T tt Ts tts : TyI T tt -> TyArgs Ts tts -> TyArgs (T :: Ts) (tt ++ s_comma :: tts).

  (* a type written right after the colon *)
  Inductive TyR : pty -> list str -> Prop :=
  | TR_atom T t : TyAtom T t -> TyR T [t]
  | TR_con t c n args tas : ty_name t -> lookup_ty t = Some (c, n) -> n <> 0 ->
      TyArgs args tas -> length args = n ->
      TyR (PApp c args) (t :: s_lp :: tas ++ [s_rp])
  | TR_paren T tt : TyI T tt -> TyR T (s_lp :: tt ++ [s_rp]).

  (* ---------- expressions ---------- *)
  (* Reading left to right one meets arguments and annotations; both act on
     what has been read so far at this bracket level. *)
  Inductive sp := SArg (a : ex) | SAnn (t : pty).

  Definition app_opt (c : option ex) (a : ex) : ex :=
    match c with None => a | Some f => XApp f a end.

  Fixpoint plug (c : option ex) (l : list sp) : option ex :=
    match l with
    | [] => c
    | SArg a :: r => plug (Some (app_opt c a)) r
    | SAnn t :: r => match c with None => None | Some f => plug (Some (XAnn f t)) r end
    end.

  Inductive Seq : list sp -> list str -> Prop :=
  | Q_nil : Seq [] []
  | Q_atom a t l ts : Atom a t -> Seq l ts -> Seq (SArg a :: l) (t :: ts)
  | Q_group gs tg l ts : Groups gs tg -> Seq l ts ->
      Seq (map SArg gs ++ l) (s_lp :: tg ++ s_rp :: ts)       (* ( g1 , ... , gk ) *)
  | Q_ann T tt l ts : TyR T tt -> Seq l ts -> Seq (SAnn T :: l) (s_colon :: tt ++ ts)
  with Groups : list ex -> list str -> Prop :=
  | G_last l e t : Seq l t -> plug None l = Some e -> Groups [e] t
  | G_cons l e t gs ts : Seq l t -> plug None l = Some e -> Groups gs ts ->
      Groups (e :: gs) (t ++ s_comma :: ts).

  Definition Renders (e : ex) (toks : list str) : Prop :=
    exists l, Seq l toks /\ plug None l = Some e.
End Spec.

Scheme Seq_mind := Minimality for Seq Sort Prop
  with Groups_mind := Minimality for Groups Sort Prop.
Combined Scheme Seq_Groups_ind from Seq_mind, Groups_mind.

Scheme TyI_mind := Minimality for TyI Sort Prop
  with TyArgs_mind := Minimality for TyArgs Sort Prop.
Combined Scheme TyI_TyArgs_ind from TyI_mind, TyArgs_mind.
