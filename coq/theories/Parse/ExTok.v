(* C13/C17: tokens of the expression notation.
   Faithful model of transforge/lang.py
     tokenize          (lines 442-452)
     strip_comments    (proposed_fixes/C13.diff; on the pinned tree the same
                        three branches sit at the head of parse_expr's loop,
                        lines 262-267, where they do not reach the type parser)
   Code points are [N]; a token is the list of its code points. *)
From Coq Require Import List Arith Bool Lia NArith.
Import ListNotations.
Local Open Scope N_scope.

Definition str := list N.

Fixpoint str_eqb (a b : str) : bool :=
  match a, b with
  | [], [] => true
  | x :: a', y :: b' => N.eqb x y && str_eqb a' b'
  | _, _ => false
  end.

Lemma str_eqb_eq a : forall b, str_eqb a b = true <-> a = b.
Proof.
  induction a as [|x a IH]; intros [|y b]; cbn [str_eqb]; try (split; discriminate).
  - split; reflexivity.
  - rewrite andb_true_iff, N.eqb_eq, IH. split; [intros [-> ->]; reflexivity | intros [= -> ->]; auto].
Qed.

Lemma str_eqb_refl a : str_eqb a a = true.
Proof. now apply str_eqb_eq. Qed.

Lemma str_eqb_neq a b : a <> b -> str_eqb a b = false.
Proof. intros H. destruct (str_eqb a b) eqn:E; [apply str_eqb_eq in E; congruence | reflexivity]. Qed.

(* Python's `token in "(,)"` on strings is the substring test *)
Fixpoint prefix_of (a b : str) : bool :=
  match a, b with
  | [], _ => true
  | x :: a', y :: b' => N.eqb x y && prefix_of a' b'
  | _ :: _, [] => false
  end.

Fixpoint sub_of (a b : str) : bool :=
  prefix_of a b || match b with [] => false | _ :: b' => sub_of a b' end.

(* the characters the notation knows *)
Definition c_nl : N := 10.   Definition c_tab : N := 9.    Definition c_cr : N := 13.
Definition c_sp : N := 32.   Definition c_hash : N := 35.  Definition c_lp : N := 40.
Definition c_rp : N := 41.   Definition c_star : N := 42.  Definition c_comma : N := 44.
Definition c_dash : N := 45. Definition c_colon : N := 58. Definition c_semi : N := 59.
Definition c_us : N := 95.   Definition c_tilde : N := 126.

(* parse_expr tokenizes with "*(,):;~#\n", parse_type(str) with "*(,)" *)
Definition ex_specials : list N :=
  [c_star; c_lp; c_comma; c_rp; c_colon; c_semi; c_tilde; c_hash; c_nl].
Definition ty_specials : list N := [c_star; c_lp; c_comma; c_rp].

(* ------------------------------------------------------------------ *)
(* tokenize: groupby on the key  -2 (space, CR, TAB) / index in specials / -1.
   Runs of key -1 are joined into one token, every special character is a
   token of its own (a run of equal specials is yielded character by
   character), runs of blanks are dropped. *)

Definition is_blank (c : N) : bool := N.eqb c c_sp || N.eqb c c_cr || N.eqb c c_tab.
Definition is_special (sp : list N) (c : N) : bool := existsb (N.eqb c) sp.

Inductive cls := CBlank | CSpecial | CWord.
Definition classify (sp : list N) (c : N) : cls :=
  if is_blank c then CBlank else if is_special sp c then CSpecial else CWord.

Definition flush (cur : str) : list str := match cur with [] => [] | _ => [rev cur] end.

(* [cur] is the current run of word characters, reversed *)
Fixpoint tokenize_aux (sp : list N) (s : str) (cur : str) : list str :=
  match s with
  | [] => flush cur
  | c :: r =>
      match classify sp c with
      | CBlank => flush cur ++ tokenize_aux sp r []
      | CSpecial => flush cur ++ [c] :: tokenize_aux sp r []
      | CWord => tokenize_aux sp r (c :: cur)
      end
  end.

Definition tokenize (sp : list N) (s : str) : list str := tokenize_aux sp s [].

(* ------------------------------------------------------------------ *)
(* Layouts: every way of writing a token sequence as characters.  Blanks may
   be put anywhere between tokens; they are required only between two words. *)

Definition all_blank (ws : str) : Prop := Forall (fun c => is_blank c = true) ws.
Definition is_word (sp : list N) (w : str) : Prop :=
  w <> [] /\ Forall (fun c => classify sp c = CWord) w.
Definition no_word_start (sp : list N) (s : str) : Prop :=
  match s with [] => True | c :: _ => classify sp c <> CWord end.

Inductive Layout (sp : list N) : list str -> str -> Prop :=
| L_nil ws : all_blank ws -> Layout sp [] ws
| L_special ws c ts s : all_blank ws -> classify sp c = CSpecial -> Layout sp ts s ->
    Layout sp ([c] :: ts) (ws ++ c :: s)
| L_word ws w ts s : all_blank ws -> is_word sp w -> Layout sp ts s -> no_word_start sp s ->
    Layout sp (w :: ts) (ws ++ w ++ s).

Lemma tokenize_blanks sp ws s : all_blank ws ->
  tokenize_aux sp (ws ++ s) [] = tokenize_aux sp s [].
Proof.
  induction 1 as [|c ws Hc _ IH]; [reflexivity|].
  cbn [app tokenize_aux]. unfold classify. rewrite Hc. cbn [flush app]. exact IH.
Qed.

Lemma tokenize_word sp w : Forall (fun c => classify sp c = CWord) w -> forall s cur,
  tokenize_aux sp (w ++ s) cur = tokenize_aux sp s (rev w ++ cur).
Proof.
  induction 1 as [|c w Hc _ IH]; intros s cur; [reflexivity|].
  cbn [app tokenize_aux]. rewrite Hc, IH. cbn [rev]. now rewrite <- app_assoc.
Qed.

Lemma tokenize_after_word sp s cur : cur <> [] -> no_word_start sp s ->
  tokenize_aux sp s cur = rev cur :: tokenize_aux sp s [].
Proof.
  intros Hc Hs. destruct s as [|c r]; cbn [tokenize_aux].
  - destruct cur; [congruence | reflexivity].
  - cbn [no_word_start] in Hs. destruct (classify sp c); try congruence;
      destruct cur; try congruence; reflexivity.
Qed.

Theorem tokenize_layout sp ts s : Layout sp ts s -> tokenize sp s = ts.
Proof.
  unfold tokenize. induction 1 as [ws Hws | ws c ts s Hws Hc _ IH | ws w ts s Hws [Hne Hw] _ IH Hs].
  - rewrite <- (app_nil_r ws), tokenize_blanks by assumption. reflexivity.
  - rewrite tokenize_blanks by assumption. cbn [tokenize_aux]. rewrite Hc. cbn [flush app].
    now rewrite IH.
  - rewrite tokenize_blanks by assumption. rewrite tokenize_word by assumption.
    rewrite app_nil_r. rewrite tokenize_after_word; auto.
    + now rewrite rev_involutive, IH.
    + intros E. apply Hne. destruct w; [reflexivity|]. cbn [rev] in E.
      now destruct (rev w).
Qed.

(* tokens that come out of tokenize are never empty *)
Lemma tokenize_aux_nonempty sp s : forall cur, Forall (fun t => t <> []) (tokenize_aux sp s cur).
Proof.
  assert (F : forall cur, Forall (fun t : str => t <> []) (flush cur)).
  { intros [|c cur]; cbn [flush]; constructor; [|constructor].
    cbn [rev]. now destruct (rev cur). }
  induction s as [|c r IH]; intros cur; cbn [tokenize_aux]; [apply F|].
  destruct (classify sp c).
  - apply Forall_app. split; [apply F | apply IH].
  - apply Forall_app. split; [apply F | constructor; [discriminate | apply IH]].
  - apply IH.
Qed.

(* ------------------------------------------------------------------ *)
(* strip_comments *)

Definition s_hash : str := [c_hash].
Definition s_nl : str := [c_nl].

Fixpoint strip (comment : bool) (ts : list str) : list str :=
  match ts with
  | [] => []
  | t :: r =>
      if str_eqb t s_hash then strip true r
      else if str_eqb t s_nl then strip false r
      else if comment then strip true r
      else t :: strip false r
  end.

(* what may be put between two tokens: newlines and `# ... \n` comments *)
Definition plain (t : str) : Prop := t <> s_hash /\ t <> s_nl.
Definition no_nl (body : list str) : Prop := Forall (fun t => t <> s_nl) body.

Inductive Junk : list str -> Prop :=
| J_nil : Junk []
| J_nl j : Junk j -> Junk (s_nl :: j)
| J_comment body j : no_nl body -> Junk j -> Junk (s_hash :: body ++ s_nl :: j).

Inductive Junked : list str -> list str -> Prop :=
| JK_end j : Junk j -> Junked [] j
| JK_open j body : Junk j -> no_nl body -> Junked [] (j ++ s_hash :: body)   (* last line is a comment *)
| JK_cons j t core ts : Junk j -> plain t -> Junked core ts -> Junked (t :: core) (j ++ t :: ts).

Lemma strip_comment_body body : no_nl body -> forall rest,
  strip true (body ++ rest) = strip true rest.
Proof.
  induction 1 as [|t body Ht _ IH]; intros rest; [reflexivity|].
  cbn [app strip]. destruct (str_eqb t s_hash); [apply IH|].
  rewrite (str_eqb_neq _ _ Ht). apply IH.
Qed.

Lemma strip_junk j : Junk j -> forall rest, strip false (j ++ rest) = strip false rest.
Proof.
  induction 1 as [|j _ IH|body j Hb _ IH]; intros rest; [reflexivity| |].
  - cbn [app strip]. cbn. apply IH.
  - cbn [app]. rewrite <- app_assoc. cbn [app].
    change (strip false (s_hash :: body ++ s_nl :: j ++ rest)) with (strip true (body ++ s_nl :: j ++ rest)).
    rewrite strip_comment_body by assumption.
    change (strip true (s_nl :: j ++ rest)) with (strip false (j ++ rest)). apply IH.
Qed.

Theorem strip_junked core ts : Junked core ts -> strip false ts = core.
Proof.
  induction 1 as [j Hj | j body Hj Hb | j t core ts Hj [H1 H2] _ IH].
  - rewrite <- (app_nil_r j), strip_junk by assumption. reflexivity.
  - rewrite strip_junk by assumption.
    change (strip false (s_hash :: body)) with (strip true body).
    rewrite <- (app_nil_r body), strip_comment_body by assumption. reflexivity.
  - rewrite strip_junk by assumption. cbn [strip].
    rewrite (str_eqb_neq _ _ H1), (str_eqb_neq _ _ H2). now rewrite IH.
Qed.

(* stripping never invents tokens *)
Lemma strip_incl ts : forall c t, In t (strip c ts) -> In t ts.
Proof.
  induction ts as [|x r IH]; intros c t; cbn [strip]; [auto|].
  destruct (str_eqb x s_hash); [intros H; right; eapply IH; eauto|].
  destruct (str_eqb x s_nl); [intros H; right; eapply IH; eauto|].
  destruct c; [intros H; right; eapply IH; eauto|].
  intros [<-|H]; [now left | right; eapply IH; eauto].
Qed.
