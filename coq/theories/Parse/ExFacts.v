(* C13: facts about programmatic construction that the property lists one by
   one: an annotation leaves the tree alone, a number is the supplied object,
   every `-` (and every operator occurrence) is a new object. *)
From Coq Require Import List Arith Bool Lia NArith ZArith.
Import ListNotations.
From TF Require Import Parse.ExTok Parse.ExParser Parse.ExTotal Parse.ExSpec Parse.ExRender.

(* the shape of an expression object: operators, sources, inputs *)
Inductive sk := KOp (o : nat) | KSrc | KIn (k : nat) | KApp (f x : sk).

Fixpoint val_sk (v : val) : sk :=
  match v with
  | VOp _ o => KOp o | VSrc _ => KSrc | VIn k => KIn k
  | VApp _ f x => KApp (val_sk f) (val_sk x)
  end.

(* numbers of the objects created for a tree *)
Fixpoint ids (v : val) : list nat :=
  match v with
  | VOp id _ => [id] | VSrc id => [id] | VIn _ => []
  | VApp id f x => id :: ids f ++ ids x
  end.

Fixpoint src_ids (v : val) : list nat :=
  match v with
  | VSrc id => [id] | VApp _ f x => src_ids f ++ src_ids x | _ => []
  end.

Lemma NoDup_app_disjoint {A} (l1 l2 : list A) :
  NoDup l1 -> NoDup l2 -> (forall x, In x l1 -> ~ In x l2) -> NoDup (l1 ++ l2).
Proof.
  induction 1 as [|a l Ha _ IH]; intros H2 HD; [assumption|].
  cbn [app]. constructor.
  - rewrite in_app_iff. intros [F|F]; [auto | eapply HD; [now left | eassumption]].
  - apply IH; auto. intros x Hx. apply HD. now right.
Qed.

Lemma src_ids_incl v : incl (src_ids v) (ids v).
Proof.
  induction v as [id o|id|k|id f IHf x IHx]; cbn [src_ids ids]; intros i Hi;
    try (now inversion Hi); auto.
  right. apply in_app_iff. apply in_app_iff in Hi as [Hi|Hi]; [left; now apply IHf | right; now apply IHx].
Qed.

Lemma NoDup_app_parts {A} (l1 l2 : list A) : NoDup (l1 ++ l2) -> NoDup l1 /\ NoDup l2.
Proof.
  induction l1 as [|y l IH]; cbn [app]; intros N; [split; [constructor | assumption]|].
  inversion N as [|? ? Hn N']; subst. destruct (IH N') as [A1 A2]. split; [|assumption].
  constructor; [|assumption]. intros F. apply Hn, in_app_iff. now left.
Qed.

Lemma NoDup_app_not_both {A} (l1 l2 : list A) x :
  NoDup (l1 ++ l2) -> In x l1 -> In x l2 -> False.
Proof.
  induction l1 as [|y l IH]; intros N H1 H2; [inversion H1|].
  cbn [app] in N. inversion N as [|? ? Hn N']; subst.
  destruct H1 as [->|H1]; [apply Hn, in_app_iff; now right | now apply IH].
Qed.

Section Facts.
  Variable St : Type.
  Variable step : St -> event -> St + perr.
  Variable ninputs : nat.

  Notation bst := (bst St).
  Notation build := (build St step ninputs).

  Fixpoint ex_sk (e : ex) : option sk :=
    match e with
    | XOp o => Some (KOp o)
    | XDash => Some KSrc
    | XNum n => option_map KIn (input_ref ninputs n)
    | XApp f x => match ex_sk f, ex_sk x with Some a, Some b => Some (KApp a b) | _, _ => None end
    | XAnn e' _ => ex_sk e'
    end.

  Lemma ex_sk_strip e : ex_sk (strip_ann e) = ex_sk e.
  Proof. induction e; cbn [strip_ann ex_sk]; auto. now rewrite IHe1, IHe2. Qed.

  (* `e : T` yields the very object that `e` yields *)
  Theorem build_ann_same e T b v b' : build (XAnn e T) b = Ok (v, b') ->
    exists b1, build e b = Ok (v, b1).
  Proof.
    cbn [ExSpec.build]. destruct (build e b) as [[v1 b1]| |]; cbn [bind fst snd]; try discriminate.
    destruct (b_annot St step (is_dash e) b1 v1 T); cbn [bind]; try discriminate.
    intros [= <- <-]. eauto.
  Qed.

  (* the tree is that of the expression with all annotations removed *)
  Theorem build_skeleton e : forall b v b', build e b = Ok (v, b') ->
    ex_sk (strip_ann e) = Some (val_sk v).
  Proof.
    intros b v b' H. rewrite ex_sk_strip. revert b v b' H.
    induction e as [o| |n|f IHf x IHx|e IHe t]; intros b v b' H; cbn [ExSpec.build] in H.
    - destruct (b_emit St step _ _); cbn [bind] in H; try discriminate. now injection H as <- _.
    - destruct (b_emit St step _ _); cbn [bind] in H; try discriminate. now injection H as <- _.
    - cbn [ex_sk]. destruct (input_ref ninputs n); [|discriminate]. now injection H as <- _.
    - destruct (build f b) as [[vf b1]| |] eqn:Ef; cbn [bind fst snd] in H; try discriminate.
      destruct (build x b1) as [[vx b2]| |] eqn:Ex; cbn [bind fst snd] in H; try discriminate.
      unfold b_app in H. destruct (b_emit St step _ _); cbn [bind] in H; try discriminate.
      injection H as <- _. cbn [ex_sk val_sk]. now rewrite (IHf _ _ _ Ef), (IHx _ _ _ Ex).
    - destruct (build e b) as [[v1 b1]| |] eqn:E1; cbn [bind fst snd] in H; try discriminate.
      destruct (b_annot St step (is_dash e) b1 v1 t); cbn [bind] in H; try discriminate.
      injection H as <- _. cbn [ex_sk]. eauto.
  Qed.

  Lemma b_emit_bc b e b' : b_emit St step b e = Ok b' -> bc St b' = bc St b.
  Proof. unfold b_emit. destruct (step _ _); [now intros [= <-] | discriminate]. Qed.

  (* every object of the tree was created by this construction, once *)
  Theorem build_ids e : forall b v b', build e b = Ok (v, b') ->
    bc St b <= bc St b' /\ NoDup (ids v) /\ forall i, In i (ids v) -> bc St b <= i < bc St b'.
  Proof.
    induction e as [o| |n|f IHf x IHx|e IHe t]; intros b v b' H; cbn [ExSpec.build] in H.
    - destruct (b_emit St step _ _) as [b1| |] eqn:E; cbn [bind] in H; try discriminate.
      injection H as <- <-. apply b_emit_bc in E. cbn in E. cbn [ids]. rewrite E.
      split; [lia|]. split; [repeat constructor; auto|]. intros i [<-|[]]. lia.
    - destruct (b_emit St step _ _) as [b1| |] eqn:E; cbn [bind] in H; try discriminate.
      injection H as <- <-. apply b_emit_bc in E. cbn in E. cbn [ids]. rewrite E.
      split; [lia|]. split; [repeat constructor; auto|]. intros i [<-|[]]. lia.
    - destruct (input_ref ninputs n); [|discriminate]. injection H as <- <-. cbn [ids].
      split; [lia|]. split; [constructor|]. intros i [].
    - destruct (build f b) as [[vf b1]| |] eqn:Ef; cbn [bind fst snd] in H; try discriminate.
      destruct (build x b1) as [[vx b2]| |] eqn:Ex; cbn [bind fst snd] in H; try discriminate.
      unfold b_app in H. destruct (b_emit St step _ _) as [b3| |] eqn:E; cbn [bind] in H; try discriminate.
      injection H as <- <-. apply b_emit_bc in E. cbn in E.
      destruct (IHf _ _ _ Ef) as (L1 & N1 & R1). destruct (IHx _ _ _ Ex) as (L2 & N2 & R2).
      rewrite E. cbn [ids]. split; [lia|]. split.
      + constructor.
        * rewrite in_app_iff. intros [F|F]; [apply R1 in F | apply R2 in F]; lia.
        * apply NoDup_app_disjoint; auto. intros i Hi Hi'. apply R1 in Hi. apply R2 in Hi'. lia.
      + intros i [<-|Hi]; [lia|]. apply in_app_iff in Hi as [Hi|Hi]; [apply R1 in Hi | apply R2 in Hi]; lia.
    - destruct (build e b) as [[v1 b1]| |] eqn:E1; cbn [bind fst snd] in H; try discriminate.
      destruct (b_annot St step (is_dash e) b1 v1 t) as [b2| |] eqn:E2; cbn [bind] in H; try discriminate.
      injection H as <- <-. destruct (IHe _ _ _ E1) as (L1 & N1 & R1).
      assert (bc St b2 = bc St b1).
      { unfold b_annot in E2. destruct (is_dash e); apply b_emit_bc in E2; exact E2. }
      rewrite H. auto.
  Qed.

  (* `-` is a fresh anonymous source: the sources of a constructed tree are
     pairwise different objects, none of which existed before *)
  Corollary build_sources_fresh e b v b' : build e b = Ok (v, b') ->
    NoDup (src_ids v) /\ forall i, In i (src_ids v) -> bc St b <= i.
  Proof.
    intros H. destruct (build_ids e b v b' H) as (_ & N & R). split.
    - clear R H. induction v as [id o|id|k|id f IHf x IHx]; cbn [src_ids ids] in *;
        try constructor; auto; try constructor.
      inversion N as [|? ? Hn N']; subst.
      destruct (NoDup_app_parts _ _ N') as [Nf Nx].
      apply NoDup_app_disjoint; auto.
      intros i Hi Hi'. apply src_ids_incl in Hi. apply src_ids_incl in Hi'.
      exact (NoDup_app_not_both _ _ _ N' Hi Hi').
    - intros i Hi. apply src_ids_incl in Hi. apply R in Hi. lia.
  Qed.

  (* a number denotes the supplied object, whatever else has been built *)
  Theorem build_number n b :
    build (XNum n) b =
    match input_ref ninputs n with Some k => Ok (VIn k, b) | None => Err EMissingInput end.
  Proof. reflexivity. Qed.
End Facts.

(* ------------------------------------------------------------------ *)
(* parse_expr(..., defaults=True), lang.py lines 254-263 and 311:
   args_map is a defaultdict(Source) preloaded with the supplied inputs under
   the keys 0 .. len(args)-1; number n is looked up under key n-1 (number 0 is
   key -1, which no supplied input has) and a missing key is filled with a new
   Source() that stays in the dict.  [dmap] is the part of the dict that was
   made up: number -> id of the source. *)
Section Defaults.
  Variable ninputs : nat.

  Definition dmap := list (nat * nat).

  Fixpoint dfind (n : nat) (m : dmap) : option nat :=
    match m with
    | [] => None
    | (k, id) :: r => if Nat.eqb n k then Some id else dfind n r
    end.

  Definition supplied (n : nat) : option nat :=
    match n with 0 => None | S k => if Nat.ltb k ninputs then Some k else None end.

  (* args_map[input - 1]: the object, the dict and the object counter afterwards *)
  Definition dlookup (n : nat) (m : dmap) (ctr : nat) : val * dmap * nat :=
    match supplied n with
    | Some k => (VIn k, m, ctr)
    | None =>
        match dfind n m with
        | Some id => (VSrc id, m, ctr)
        | None => (VSrc ctr, (n, ctr) :: m, S ctr)       (* __missing__: Source() *)
        end
    end.

  (* what a parse does to the dict: numbers are looked up, and in between other
     objects (operator instances, `-`, applications) are created *)
  Inductive dop := DNum (n : nat) | DOther.

  Fixpoint drun (ops : list dop) (m : dmap) (ctr : nat) : list (nat * val) :=
    match ops with
    | [] => []
    | DOther :: r => drun r m (S ctr)
    | DNum n :: r =>
        match dlookup n m ctr with (v, m', c') => (n, v) :: drun r m' c' end
    end.

  Definition dval (m : dmap) (n : nat) : val :=
    match supplied n with
    | Some k => VIn k
    | None => match dfind n m with Some id => VSrc id | None => VSrc 0 end
    end.

  Definition DInv (m : dmap) (ctr : nat) : Prop :=
    (forall n id, dfind n m = Some id -> id < ctr) /\
    (forall n1 n2 id, dfind n1 m = Some id -> dfind n2 m = Some id -> n1 = n2).

  Lemma DInv_mono m c : DInv m c -> DInv m (S c).
  Proof. intros [H1 H2]. split; [intros n id H; apply H1 in H; lia | exact H2]. Qed.

  Lemma DInv_add m c n : DInv m c -> dfind n m = None -> DInv ((n, c) :: m) (S c).
  Proof.
    intros [H1 H2] Hn. split.
    - intros k id. cbn [dfind]. destruct (Nat.eqb k n); [intros [= <-]; lia|].
      intros H. apply H1 in H. lia.
    - intros k1 k2 id. cbn [dfind].
      destruct (Nat.eqb k1 n) eqn:E1, (Nat.eqb k2 n) eqn:E2.
      + apply Nat.eqb_eq in E1, E2. congruence.
      + intros [= <-] H. apply H1 in H. lia.
      + intros H [= <-]. apply H1 in H. lia.
      + apply H2.
  Qed.

  Lemma drun_spec ops : forall m ctr, DInv m ctr ->
    exists m' c', DInv m' c' /\
      (forall n id, dfind n m = Some id -> dfind n m' = Some id) /\
      (forall n v, In (n, v) (drun ops m ctr) ->
         v = dval m' n /\ (supplied n = None -> dfind n m' <> None)).
  Proof.
    induction ops as [|[n|] r IH]; intros m ctr HI; cbn [drun].
    - exists m, ctr. split; [assumption|]. split; [auto|]. intros n v [].
    - unfold dlookup. destruct (supplied n) as [k|] eqn:Es.
      + destruct (IH m ctr HI) as (m' & c' & HI' & Hx & Hr). exists m', c'.
        split; [assumption|]. split; [assumption|].
        intros n0 v [[= <- <-]|Hin]; [|now apply Hr].
        unfold dval. rewrite Es. split; [reflexivity | congruence].
      + destruct (dfind n m) as [id|] eqn:Ef.
        * destruct (IH m ctr HI) as (m' & c' & HI' & Hx & Hr). exists m', c'.
          split; [assumption|]. split; [assumption|].
          intros n0 v [[= <- <-]|Hin]; [|now apply Hr].
          unfold dval. rewrite Es, (Hx _ _ Ef). split; [reflexivity|]. intros _. congruence.
        * destruct (IH ((n, ctr) :: m) (S ctr) (DInv_add m ctr n HI Ef)) as (m' & c' & HI' & Hx & Hr).
          exists m', c'. split; [assumption|]. split.
          -- intros k id Hk. apply Hx. cbn [dfind]. destruct (Nat.eqb k n) eqn:E; [|assumption].
             apply Nat.eqb_eq in E. subst. congruence.
          -- assert (Hn : dfind n m' = Some ctr).
             { apply Hx. cbn [dfind]. now rewrite Nat.eqb_refl. }
             intros n0 v [[= <- <-]|Hin]; [|now apply Hr].
             unfold dval. rewrite Es, Hn. split; [reflexivity|]. intros _. congruence.
    - destruct (IH m (S ctr) (DInv_mono m ctr HI)) as (m' & c' & HI' & Hx & Hr).
      exists m', c'. auto.
  Qed.

  Lemma DInv_init c : DInv [] c.
  Proof. split; intros; discriminate. Qed.

  (* every occurrence of a number denotes the same object ... *)
  Theorem defaults_same_object ops c0 n v1 v2 :
    In (n, v1) (drun ops [] c0) -> In (n, v2) (drun ops [] c0) -> v1 = v2.
  Proof.
    intros H1 H2. destruct (drun_spec ops [] c0 (DInv_init c0)) as (m' & c' & _ & _ & Hr).
    destruct (Hr _ _ H1) as [-> _], (Hr _ _ H2) as [-> _]. reflexivity.
  Qed.

  (* ... and different numbers denote different objects *)
  Theorem defaults_distinct ops c0 n1 n2 v1 v2 :
    In (n1, v1) (drun ops [] c0) -> In (n2, v2) (drun ops [] c0) -> n1 <> n2 -> v1 <> v2.
  Proof.
    intros H1 H2 Hne. destruct (drun_spec ops [] c0 (DInv_init c0)) as (m' & c' & [_ Hinj] & _ & Hr).
    destruct (Hr _ _ H1) as [-> N1], (Hr _ _ H2) as [-> N2]. unfold dval.
    destruct (supplied n1) as [k1|] eqn:E1, (supplied n2) as [k2|] eqn:E2.
    2:{ destruct (dfind n2 m'); discriminate. }
    2:{ destruct (dfind n1 m'); discriminate. }
    - intros [= ->]. apply Hne. unfold supplied in E1, E2.
      destruct n1 as [|a]; [discriminate|]. destruct n2 as [|b]; [discriminate|].
      destruct (Nat.ltb a ninputs); [|discriminate]. destruct (Nat.ltb b ninputs); [|discriminate].
      congruence.
    - specialize (N1 eq_refl). specialize (N2 eq_refl).
      destruct (dfind n1 m') as [i1|] eqn:F1; [|congruence].
      destruct (dfind n2 m') as [i2|] eqn:F2; [|congruence].
      intros [= ->]. apply Hne. eapply Hinj; eauto.
  Qed.

  (* a supplied number is the supplied object; a made-up source is new *)
  Theorem defaults_supplied ops c0 n v k :
    In (n, v) (drun ops [] c0) -> supplied n = Some k -> v = VIn k.
  Proof.
    intros H Hs. destruct (drun_spec ops [] c0 (DInv_init c0)) as (m' & c' & _ & _ & Hr).
    destruct (Hr _ _ H) as [-> _]. unfold dval. now rewrite Hs.
  Qed.
End Defaults.
