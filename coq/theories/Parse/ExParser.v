(* C13/C17: the expression parser and the type parser it hands over to.
   Faithful model of transforge/lang.py WITH proposed_fixes/C13.diff and
   proposed_fixes/C13_C17_parser.diff applied:
     Language.parse_expr   (pinned lines 242-330)
     Language.parse_type   (pinned lines 365-439), incl. the nested backtrack()
   Every place where the Python code can leave through something that is not a
   declared error (unchecked list.pop(), list index, assert, int()) is a
   [Crash site] outcome here, so that "never crashes" is a statement one can
   prove (ExTotal.v).  The type checker is NOT modelled: constructing an
   operator instance, a source, an application and imposing an annotation are
   abstract events interpreted by a section variable [step], which may fail
   with a declared error only.

   Both Python loops are `while token := next(tokens, None)` over ONE shared
   iterator; here they are one structurally recursive function over the token
   list with a mode (expression / type-after-colon). *)
From Coq Require Import List Arith Bool Lia NArith ZArith.
Import ListNotations.
From TF Require Import Parse.ExTok.

(* ---------- results ---------- *)

(* the declared families: ParseError and its subclasses, TypingError (with
   TypeParameterError, TypeAnnotationError ...), ApplicationError *)
Inductive perr :=
| EBracket | EEmpty | EUndefined | EMissingInput | EParse   (* lang.py 488-511 *)
| ETyping | EApplication.                                  (* type.py 1134, expr.py 414 *)

(* places where an exception outside those families can be raised *)
Inductive site :=
| SExprTop    (* `previous = stack[-1]`            parse_expr, ':' branch   *)
| SExprPop    (* `previous = stack.pop()`          parse_expr, atom branch  *)
| STypePop    (* `t1 = stack.pop()`                parse_type, '*' branch   *)
| STypeIdx1.  (* `stack[1]`                        parse_type, break test   *)

Inductive outcome (A : Type) := Ok (a : A) | Err (e : perr) | Crash (s : site).
Arguments Ok {A} a. Arguments Err {A} e. Arguments Crash {A} s.

Definition bind {A B} (x : outcome A) (f : A -> outcome B) : outcome B :=
  match x with Ok a => f a | Err e => Err e | Crash s => Crash s end.

(* ---------- types as the type parser builds them ---------- *)

(* PVar = a fresh TypeVariable() for `_`;  PApp c args = c applied to args, for a type
   operator or a parameterised synonym c.  Built-ins: Top = 0, Bottom = 1,
   Product = 4 (numbering of Base/Hier.v); user operators/synonyms: the id that
   [lookup_ty] returns. *)
Inductive pty := PVar | PApp (c : nat) (args : list pty).

Definition p_top : pty := PApp 0 [].
Definition p_bottom : pty := PApp 1 [].
Definition c_product : nat * nat := (4, 2).    (* (id, arity) *)

(* TypeOperation.__init__ / TypeAlias.__call__: TypeParameterError (a
   TypingError) unless the number of parameters is the arity *)
Definition mk_tapp (c : nat * nat) (args : list pty) : outcome pty :=
  if Nat.eqb (snd c) (length args) then Ok (PApp (fst c) args) else Err ETyping.

(* parse_type's stack: None | TypeInstance | TypeOperator/TypeAlias *)
Inductive titem := TNone | TInst (t : pty) | TCon (c : nat * nat).

(* backtrack() (lines 375-390).  The stack's top is the head of the list.
   [args] is Python's `args` reversed (we cons where Python appends, so
   calling arg on reversed(args) is [mk_tapp c args]).  After applying an operator the
   code pushes the result and pops it again in the next iteration. *)
Fixpoint backtrack (stack : list titem) (args : list pty) : outcome (list titem) :=
  match stack with
  | [] => Err EBracket
  | TNone :: r => match args with [a] => Ok (TInst a :: r) | _ => Err EParse end
  | TCon c :: r => match mk_tapp c args with
                   | Ok t => backtrack r [t]
                   | Err e => Err e
                   | Crash s => Crash s
                   end
  | TInst t :: r => backtrack r (t :: args)
  end.

(* ---------- expressions as the parser builds them ---------- *)

(* Every object the parser creates gets the next number [id]; VIn k is the
   k-th supplied input (an opaque object the parser never looks into). *)
Inductive val :=
| VOp (id o : nat)            (* self.parse_operator(token).instance() *)
| VSrc (id : nat)             (* Source() for `-` *)
| VIn (k : nat)               (* args_map[k] *)
| VApp (id : nat) (f x : val) (* Application(f, x, fix, unify) *).

Inductive event :=
| EvOp (v : val) | EvSrc (v : val) | EvApp (v : val)
| EvExact (v : val) (t : pty)   (* previous.type = t ; previous.type.unify(t, subtype=True) *)
| EvSub (v : val) (t : pty).    (* previous.type.unify(t, subtype=True) *)

(* token constants *)
Definition s_lp : str := [c_lp].       Definition s_rp : str := [c_rp].
Definition s_colon : str := [c_colon]. Definition s_semi : str := [c_semi].
Definition s_dash : str := [c_dash].   Definition s_us : str := [c_us].
Definition s_star : str := [c_star].   Definition s_comma : str := [c_comma].
Definition s_lcr : str := [c_lp; c_comma; c_rp].   (* "(,)" *)
Definition s_rc : str := [c_rp; c_comma].          (* ")," *)
Definition s_lc : str := [c_lp; c_comma].          (* "(," *)
Definition s_Top : str := [84; 111; 112]%N.
Definition s_Bottom : str := [66; 111; 116; 116; 111; 109]%N.

Inductive mode := MExpr | MType (prev : val) (ts : list titem) (lvl : Z).

Section Parser.
  Variable lookup_op : str -> option nat.          (* self.operators[token] *)
  Variable lookup_ty : str -> option (nat * nat).  (* self.types / self.synonyms: (id, arity) *)
  Variable decval : N -> option nat.               (* decimal digit characters (category Nd) and their value *)
  Variable St : Type.                              (* the type checker's state *)
  Variable step : St -> event -> St + perr.        (* ... and what an event does to it *)
  Variable ninputs : nat.                          (* len(args) *)

  (* stk = the expression stack, head = top;  ctr = next object number;
     unt = `untyped`, the anonymous sources that have no type yet *)
  Record pst := mkP { stk : list (option val); ctr : nat; unt : list nat; abs : St; md : mode }.

  Definition set_stk (p : pst) s := mkP s (ctr p) (unt p) (abs p) (md p).
  Definition set_md (p : pst) m := mkP (stk p) (ctr p) (unt p) (abs p) m.
  Definition push (p : pst) (x : option val) := set_stk p (x :: stk p).

  (* the `*` branch first applies a pending operator to the parameters parsed so far
     (/repo d741af8: `F(A) * B` is a product whose left operand is F(A)):
       i = len(stack); while i > 0 and isinstance(stack[i-1], TypeInstance): i -= 1
       if 0 < i < len(stack) and stack[i-1] is not Product and it is an operator/alias:
           stack[i-1:] = [stack[i-1] applied to stack[i:]]                                *)
  (* The scan is bounded by the stack: when only instances are left ([rest] = [], the
     code's i = 0, e.g. after an unmatched `)` has consumed the bottom None) nothing is
     applied and stack[i-1] is not read -- `while i > 0 and ...`, `if 0 < i < len(stack)`. *)
  Fixpoint split_insts (s : list titem) (acc : list pty) : list pty * list titem :=
    match s with
    | TInst t :: r => split_insts r (t :: acc)      (* acc ends up in stack order, bottom first *)
    | _ => (acc, s)
    end.

  Definition star_collapse (stack : list titem) : outcome (list titem) :=
    match split_insts stack [] with
    | (args, TCon c :: r) =>
        match args with
        | [] => Ok stack
        | _ :: _ =>
            if Nat.eqb (fst c) (fst c_product) then Ok stack
            else bind (mk_tapp c args) (fun t => Ok (TInst t :: r))
        end
    | _ => Ok stack
    end.

  (* ----- parse_type, one token (lines 393-426) ----- *)
  Definition ty_push (st : list titem * Z) (x : titem) : outcome (list titem * Z) :=
    Ok (x :: fst st, snd st).

  Definition ty_tok (st : list titem * Z) (t : str) : outcome (list titem * Z) :=
    let (stack, level) := st in
    if str_eqb t s_lp then Ok (TNone :: stack, (level + 1)%Z)
    else if sub_of t s_rc then
      bind (backtrack stack []) (fun stack' =>
        if str_eqb t s_rp then Ok (stack', (level - 1)%Z) else Ok (TNone :: stack', level))
    else if str_eqb t s_us then ty_push st (TInst PVar)
    else if str_eqb t s_star then
      bind (star_collapse stack) (fun stack1 =>
        match stack1 with
        | [] => Crash STypePop
        | TInst t1 :: r => Ok (TInst t1 :: TCon c_product :: r, level)
        | _ :: _ => Err EParse          (* fixed; pinned: assert isinstance(t1, TypeInstance) *)
        end)
    else if str_eqb t s_Top then ty_push st (TInst p_top)
    else if str_eqb t s_Bottom then ty_push st (TInst p_bottom)
    else match lookup_ty t with
         | Some c => ty_push st (if Nat.eqb (snd c) 0 then TInst (PApp (fst c) []) else TCon c)
         | None => Err EUndefined
         end.

  (* lines 428-432 (only when the tokens are shared with parse_expr).
     stack[1] is the second element from the bottom. *)
  Definition brk (stack : list titem) (level : Z) : outcome bool :=
    match rev stack with
    | _ :: x :: _ =>
        Ok (match x with
            | TInst _ => true
            | TCon _ => Z.eqb level 0 && Nat.ltb 2 (length stack)
            | TNone => false
            end)
    | _ => Crash STypeIdx1
    end.

  (* lines 434-439 *)
  Definition ty_final (stack : list titem) : outcome pty :=
    bind (backtrack stack []) (fun s =>
      match s with [TInst t] => Ok t | _ => Err EParse end).

  (* parse_type(str): consume_all, no break test *)
  Fixpoint ty_run (toks : list str) (st : list titem * Z) : outcome (list titem * Z) :=
    match toks with
    | [] => Ok st
    | [] :: _ => Ok st                    (* a falsy token ends `while token := ...` *)
    | t :: r => bind (ty_tok st t) (ty_run r)
    end.

  Definition parse_type_toks (toks : list str) : outcome pty :=
    bind (ty_run toks ([TNone], 0%Z)) (fun st => ty_final (fst st)).

  Definition parse_type_str (s : str) : outcome pty := parse_type_toks (tokenize ty_specials s).

  (* ----- parse_expr ----- *)
  Definition emit (p : pst) (e : event) : outcome pst :=
    match step (abs p) e with
    | inl s => Ok (mkP (stk p) (ctr p) (unt p) s (md p))
    | inr x => Err x
    end.

  Definition fresh (p : pst) : pst := mkP (stk p) (S (ctr p)) (unt p) (abs p) (md p).

  (* Application(x, y, fix, unify) *)
  Definition mk_app (p : pst) (f x : val) : outcome (val * pst) :=
    let v := VApp (ctr p) f x in
    bind (emit (fresh p) (EvApp v)) (fun p' => Ok (v, p')).

  (* `token in "),"` (lines 269-277) *)
  Definition close_step (p : pst) : outcome pst :=
    match stk p with
    | [] => Err EBracket                          (* y = stack.pop(): IndexError -> BracketMismatch *)
    | Some y :: [] => Err EBracket                (* x = stack.pop(): IndexError -> BracketMismatch *)
    | Some y :: Some x :: r =>
        bind (mk_app (set_stk p r) x y) (fun vp => Ok (push (snd vp) (Some (fst vp))))
    | Some y :: None :: r => Ok (set_stk p (Some y :: r))
    | None :: r => Ok (set_stk p r)
    end.

  (* `token in "(,"` pushes; fixed: `elif not stack: raise BracketMismatch` *)
  Definition paren_step (p : pst) (t : str) : outcome pst :=
    bind (if sub_of t s_rc then close_step p else Ok p) (fun p1 =>
      if sub_of t s_lc then Ok (push p1 None)
      else match stk p1 with [] => Err EBracket | _ => Ok p1 end).

  (* token.isdecimal() and int(token) *)
  Fixpoint num_aux (t : str) (acc : nat) : option nat :=
    match t with
    | [] => Some acc
    | c :: r => match decval c with Some d => num_aux r (10 * acc + d) | None => None end
    end.
  Definition tok_num (t : str) : option nat := match t with [] => None | _ => num_aux t 0 end.

  (* args_map[input - 1] on a list (defaults=False; the defaultdict of defaults=True is
     not modelled): index -1 is the last element *)
  Definition input_ref (n : nat) : option nat :=
    match n with
    | 0 => match ninputs with 0 => None | S k => Some k end
    | S k => if Nat.ltb k ninputs then Some k else None
    end.

  (* the else-branch, lines 302-317 *)
  Definition atom_value (p : pst) (t : str) : outcome (val * pst) :=
    if str_eqb t s_dash then
      let v := VSrc (ctr p) in
      bind (emit (mkP (stk p) (S (ctr p)) (unt p ++ [ctr p]) (abs p) (md p)) (EvSrc v))
        (fun p' => Ok (v, p'))
    else match tok_num t with
    | Some n => match input_ref n with Some k => Ok (VIn k, p) | None => Err EMissingInput end
    | None =>
        match lookup_op t with
        | Some o => let v := VOp (ctr p) o in bind (emit (fresh p) (EvOp v)) (fun p' => Ok (v, p'))
        | None => Err EUndefined
        end
    end.

  Definition atom_step (p : pst) (t : str) : outcome pst :=
    bind (atom_value p t) (fun vp =>
      let (cur, p1) := vp in
      match stk p1 with
      | [] => Crash SExprPop
      | None :: r => Ok (set_stk p1 (Some cur :: r))
      | Some f :: r =>
          bind (mk_app (set_stk p1 r) f cur) (fun vp' => Ok (push (snd vp') (Some (fst vp'))))
      end).

  (* the ':' branch up to the call of parse_type (fixed lines 280-283) *)
  Definition colon_step (p : pst) : outcome pst :=
    match stk p with
    | [] => Crash SExprTop
    | None :: _ => Err EParse            (* fixed; pinned: assert isinstance(previous, Expr) *)
    | Some v :: _ => Ok (set_md p (MType v [TNone] 0%Z))
    end.

  Definition ex_tok (p : pst) (t : str) : outcome pst :=
    if sub_of t s_lcr then paren_step p t
    else if str_eqb t s_colon then colon_step p
    else if str_eqb t s_semi then Ok (set_stk p [None])
    else atom_step p t.

  (* `previous in untyped` is object identity: the anonymous source numbered id.
     list.remove drops the first occurrence; every source is appended once, so
     dropping all occurrences is the same. *)
  Definition is_untyped (v : val) (u : list nat) : bool :=
    match v with VSrc id => existsb (Nat.eqb id) u | _ => false end.
  Definition drop (v : val) (u : list nat) : list nat :=
    match v with VSrc id => filter (fun k => negb (Nat.eqb id k)) u | _ => u end.

  (* after parse_type returned (fixed lines 285-298) *)
  Definition annotate (p : pst) (prev : val) (t : pty) : outcome pst :=
    if is_untyped prev (unt p)
    then emit (mkP (stk p) (ctr p) (drop prev (unt p)) (abs p) (md p)) (EvExact prev t)
    else emit p (EvSub prev t).

  (* the type parser is done: final backtrack, then back in parse_expr *)
  Definition ty_done (p : pst) (prev : val) (ts : list titem) : outcome pst :=
    bind (ty_final ts) (fun t => annotate (set_md p MExpr) prev t).

  Definition step_tok (p : pst) (t : str) : outcome pst :=
    match md p with
    | MExpr => ex_tok p t
    | MType prev ts lvl =>
        bind (ty_tok (ts, lvl) t) (fun st =>
          bind (brk (fst st) (snd st)) (fun b =>
            if b then ty_done p prev (fst st)
            else Ok (set_md p (MType prev (fst st) (snd st)))))
    end.

  (* lines 321-328 *)
  Definition finish_expr (p : pst) : outcome (val * St) :=
    match stk p with
    | [Some v] => Ok (v, abs p)
    | [None] => Err EEmpty
    | _ => Err EBracket
    end.

  Definition finish (p : pst) : outcome (val * St) :=
    match md p with
    | MExpr => finish_expr p
    | MType prev ts _ => bind (ty_done p prev ts) finish_expr
    end.

  Fixpoint run (toks : list str) (p : pst) : outcome (val * St) :=
    match toks with
    | [] => finish p
    | t :: r =>
        match t with
        | [] =>   (* a falsy token ends the innermost loop *)
            match md p with
            | MExpr => finish_expr p
            | MType prev ts _ => bind (ty_done p prev ts) (run r)
            end
        | _ => bind (step_tok p t) (run r)
        end
    end.

  Definition init (n0 : nat) (s0 : St) : pst := mkP [None] n0 [] s0 MExpr.

  (* Language.parse_expr on an iterator of tokens, and on a string *)
  Definition parse_toks (toks : list str) (n0 : nat) (s0 : St) : outcome (val * St) :=
    run (strip false toks) (init n0 s0).
  Definition parse_str (s : str) (n0 : nat) (s0 : St) : outcome (val * St) :=
    parse_toks (tokenize ex_specials s) n0 s0.
End Parser.
