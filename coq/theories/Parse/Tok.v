(* Model of transforge/lang.py tokenize (lines 442-452) with the type parser's
   specials "*(,)": runs of other characters are identifiers, " \r\t" is
   skipped, every special character is a token of its own. *)
From Coq Require Import List Arith Bool Lia.
Import ListNotations.
From TF Require Import Parse.Lang.

Inductive tok := TkL | TkR | TkC | TkStar | TkId (n : name).

Definition is_space (c : nat) : bool := (c =? 32) || (c =? 13) || (c =? 9).

(* specials.find(x) >= 0 for specials = "*(,)" *)
Definition special (c : nat) : option tok :=
  if c =? 42 then Some TkStar
  else if c =? 40 then Some TkL
  else if c =? 44 then Some TkC
  else if c =? 41 then Some TkR
  else None.

Definition is_delim (c : nat) : bool :=
  is_space c || match special c with Some _ => true | None => false end.

(* the identifier being accumulated is kept reversed *)
Definition flush (acc : list nat) : list tok :=
  match acc with [] => [] | _ => [TkId (rev acc)] end.

Fixpoint tokz (acc s : list nat) : list tok :=
  match s with
  | [] => flush acc
  | c :: r =>
      if is_space c then flush acc ++ tokz [] r
      else match special c with
           | Some t => flush acc ++ t :: tokz [] r
           | None => tokz (c :: acc) r
           end
  end.

Definition tokenize (s : list nat) : list tok := tokz [] s.

(* what follows an identifier in printed text: nothing, or a delimiter *)
Definition delim_start (r : list nat) : Prop :=
  match r with [] => True | c :: _ => is_delim c = true end.

Definition plainb (n : name) : bool :=
  negb (match n with [] => true | _ => false end) && forallb (fun c => negb (is_delim c)) n.

Lemma tokz_run n : forallb (fun c => negb (is_delim c)) n = true ->
  forall acc r, tokz acc (n ++ r) = tokz (rev n ++ acc) r.
Proof.
  induction n as [|c n IH]; intros Hn acc r; [reflexivity|].
  cbn [forallb] in Hn. apply andb_true_iff in Hn as [Hc Hn].
  cbn [app tokz]. unfold is_delim in Hc. apply negb_true_iff, orb_false_iff in Hc as [Hs Hp].
  rewrite Hs. destruct (special c); [discriminate|].
  rewrite (IH Hn). cbn [rev]. now rewrite <- app_assoc.
Qed.

Lemma tokz_delim c r : is_delim c = true -> forall acc,
  tokz acc (c :: r) = flush acc ++ tokz [] (c :: r).
Proof.
  intros Hc acc. cbn [tokz]. unfold is_delim in Hc.
  destruct (is_space c); [reflexivity|]. cbn [orb] in Hc.
  destruct (special c); [reflexivity | discriminate].
Qed.

Lemma tokz_name n r : plainb n = true -> delim_start r ->
  tokz [] (n ++ r) = TkId n :: tokz [] r.
Proof.
  unfold plainb. intros Hp Hr. apply andb_true_iff in Hp as [Hne Hn].
  rewrite (tokz_run n Hn). rewrite app_nil_r.
  assert (F : flush (rev n) = [TkId n]).
  { unfold flush. destruct (rev n) eqn:E.
    - apply (f_equal (@rev nat)) in E. rewrite rev_involutive in E. cbn in E. subst n. discriminate.
    - now rewrite <- E, rev_involutive. }
  destruct r as [|c r].
  - cbn [tokz]. exact F.
  - rewrite (tokz_delim c r Hr). now rewrite F.
Qed.
