(* Language signatures for the notation/URI models (C14): names are lists of
   code points, type operators carry an arity, synonyms (TypeAlias) a body.
   Model of transforge/lang.py Language.add (lines 178-206): one symbol table
   split over three dicts, names unique across all three and never reserved. *)
From Coq Require Import List Arith Bool Lia Permutation.
Import ListNotations.
From TF Require Import Base.Hier Base.Ty.

Definition name := list nat.

Fixpoint name_eqb (a b : name) : bool :=
  match a, b with
  | [], [] => true
  | x :: a', y :: b' => Nat.eqb x y && name_eqb a' b'
  | _, _ => false
  end.

Lemma name_eqb_eq a : forall b, name_eqb a b = true <-> a = b.
Proof.
  induction a as [|x a IH]; intros [|y b]; cbn [name_eqb]; try (split; [discriminate|discriminate]).
  - split; reflexivity.
  - rewrite andb_true_iff, Nat.eqb_eq, IH. split; [intros [-> ->]; reflexivity | intros [= -> ->]; auto].
Qed.

Lemma name_eqb_refl a : name_eqb a a = true.
Proof. now apply name_eqb_eq. Qed.

Lemma name_eqb_neq a b : a <> b -> name_eqb a b = false.
Proof. intros N. destruct (name_eqb a b) eqn:E; [apply name_eqb_eq in E; congruence | reflexivity]. Qed.

Lemma existsb_name_In n l : existsb (name_eqb n) l = true <-> In n l.
Proof.
  rewrite existsb_exists. split.
  - intros (x & Hx & E). apply name_eqb_eq in E. now subst.
  - intros Hn. exists n. split; [auto | apply name_eqb_refl].
Qed.

Lemma existsb_name_notIn n l : existsb (name_eqb n) l = false <-> ~ In n l.
Proof.
  rewrite <- existsb_name_In. destruct (existsb (name_eqb n) l); split; congruence.
Qed.

(* names of the built-in type operators and the reserved words *)
Definition n_Top : name := [84; 111; 112].
Definition n_Bottom : name := [66; 111; 116; 116; 111; 109].
Definition n_Unit : name := [85; 110; 105; 116].
Definition n_Function : name := [70; 117; 110; 99; 116; 105; 111; 110].
Definition n_Product : name := [80; 114; 111; 100; 117; 99; 116].
Definition n_us : name := [95].                       (* "_" *)
(* lang.py:184-185 *)
Definition reserved : list name :=
  [ [118; 105; 97]; [116; 121; 112; 101];
    [115; 105; 103; 110; 97; 116; 117; 114; 101];
    [101; 120; 112; 114; 101; 115; 115; 105; 111; 110];
    n_Unit; n_Top; n_Bottom; n_Product;
    [73; 110; 116; 101; 114; 115; 101; 99; 116; 105; 111; 110];
    [85; 110; 105; 111; 110] ].
(* type.py:1107  builtins = (Unit, Top, Bottom, Product, Function) *)
Definition builtin_names : list name := [n_Unit; n_Top; n_Bottom; n_Product; n_Function].

(* Body of a type synonym: a type expression over the synonym's parameters
   (TypeAlias.alias is a Type, or a lambda building one from its arguments). *)
Inductive abody : Type := AVar (i : nat) | AOp (o : nat) (args : list abody).

Fixpoint subst (env : list ty) (b : abody) : ty :=
  match b with
  | AVar i => nth i env (TOp Top [])
  | AOp o args => TOp o (map (subst env) args)
  end.

Record lang := mkLang {
  l_types : list (name * nat);            (* Language.types, declaration order; operator id = 5 + index *)
  l_syns : list (name * (nat * abody));   (* Language.synonyms: name, arity, body *)
  l_ops : list name                       (* Language.operators (transformation operators): names only *)
}.

Definition op_name (L : lang) (o : nat) : name :=
  match o with
  | 0 => n_Top | 1 => n_Bottom | 2 => n_Unit | 3 => n_Function | 4 => n_Product
  | S (S (S (S (S i)))) => match nth_error (l_types L) i with Some (n, _) => n | None => [] end
  end.

Definition op_arity (L : lang) (o : nat) : nat :=
  match o with
  | 0 | 1 | 2 => 0
  | 3 | 4 => 2
  | S (S (S (S (S i)))) => match nth_error (l_types L) i with Some (_, a) => a | None => 0 end
  end.

Definition syn_name (L : lang) (k : nat) : name :=
  match nth_error (l_syns L) k with Some (n, _) => n | None => [] end.

(* dict lookup by name; the index is returned together with the value *)
Fixpoint find_idx {A} (n : name) (l : list (name * A)) (i : nat) : option (nat * A) :=
  match l with
  | [] => None
  | (m, a) :: r => if name_eqb n m then Some (i, a) else find_idx n r (S i)
  end.

Lemma find_idx_none {A} n (l : list (name * A)) : forall i,
  ~ In n (map fst l) -> find_idx n l i = None.
Proof.
  induction l as [|[m a] r IH]; intros i Hn; cbn [find_idx]; [reflexivity|].
  cbn [map fst] in Hn. rewrite name_eqb_neq.
  - apply IH. intros F. apply Hn. now right.
  - intros ->. apply Hn. now left.
Qed.

Lemma find_idx_nth {A} (l : list (name * A)) : NoDup (map fst l) -> forall k n a i,
  nth_error l k = Some (n, a) -> find_idx n l i = Some (i + k, a).
Proof.
  induction l as [|[m b] r IH]; intros ND k n a i Hk.
  - destruct k; discriminate.
  - cbn [map fst] in ND. inversion ND as [|x xs Hnot ND']; subst.
    destruct k as [|k]; cbn [nth_error] in Hk; cbn [find_idx].
    + injection Hk as -> ->. rewrite name_eqb_refl. f_equal. f_equal. lia.
    + rewrite name_eqb_neq.
      * rewrite (IH ND' k n a (S i) Hk). f_equal. f_equal. lia.
      * intros ->. apply Hnot. apply nth_error_In in Hk.
        change m with (fst (m, a)). now apply in_map.
Qed.

Lemma find_idx_some {A} n (l : list (name * A)) : forall i j a,
  find_idx n l i = Some (j, a) -> i <= j /\ nth_error l (j - i) = Some (n, a).
Proof.
  induction l as [|[m b] r IH]; intros i j a Hf; cbn [find_idx] in Hf; [discriminate|].
  destruct (name_eqb n m) eqn:E.
  - apply name_eqb_eq in E. subst m. injection Hf as <- <-. split; [lia|].
    now rewrite Nat.sub_diag.
  - apply IH in Hf as [Hle Hn]. split; [lia|].
    replace (j - i) with (S (j - S i)) by lia. exact Hn.
Qed.

(* ------------------------------------------------------------------ *)
(* Language.add *)

Inductive item_kind := KType (arity : nat) | KSyn (arity : nat) (body : abody) | KOp.

Definition all_names (L : lang) : list name :=
  map fst (l_types L) ++ map fst (l_syns L) ++ l_ops L.

Definition empty_lang : lang := mkLang [] [] [].

(* lang.py:190-206.  [n] is the name after `rstrip("_")`; an empty name is
   "Unnamed operator"; a known or reserved name is "already exists". *)
Definition add (L : lang) (n : name) (k : item_kind) : option lang :=
  match n with
  | [] => None
  | _ =>
    if existsb (name_eqb n) (all_names L) || existsb (name_eqb n) reserved then None
    else Some match k with
              | KType a => mkLang (l_types L ++ [(n, a)]) (l_syns L) (l_ops L)
              | KSyn a b => mkLang (l_types L) (l_syns L ++ [(n, (a, b))]) (l_ops L)
              | KOp => mkLang (l_types L) (l_syns L) (l_ops L ++ [n])
              end
  end.

Definition names_ok (L : lang) : Prop :=
  NoDup (all_names L) /\ forall n, In n (all_names L) -> n <> [] /\ ~ In n reserved.

Lemma add_names L n k L' : add L n k = Some L' ->
  Permutation (all_names L') (n :: all_names L) /\ n <> [] /\ ~ In n (all_names L) /\ ~ In n reserved.
Proof.
  unfold add. destruct n as [|c n]; [discriminate|].
  destruct (existsb (name_eqb (c :: n)) (all_names L)) eqn:E1; [discriminate|].
  destruct (existsb (name_eqb (c :: n)) reserved) eqn:E2; [discriminate|].
  cbn [orb]. intros [= <-].
  apply existsb_name_notIn in E1. apply existsb_name_notIn in E2.
  split; [|split; [discriminate | split; assumption]].
  unfold all_names. destruct k as [a|a b|]; cbn [l_types l_syns l_ops].
  - rewrite map_app. cbn [map fst]. rewrite <- app_assoc. cbn [app].
    symmetry. apply Permutation_middle.
  - rewrite map_app. cbn [map fst]. rewrite <- !app_assoc. cbn [app].
    symmetry. rewrite !app_assoc. apply Permutation_middle.
  - rewrite !app_assoc. symmetry. apply Permutation_cons_append.
Qed.

Lemma add_ok L n k L' : names_ok L -> add L n k = Some L' -> names_ok L'.
Proof.
  intros [ND Hall] Hadd. apply add_names in Hadd as (P & Hne & Hnew & Hres).
  split.
  - apply (Permutation_NoDup (Permutation_sym P)). now constructor.
  - intros m Hm. apply (Permutation_in _ P) in Hm. destruct Hm as [<-|Hm]; auto.
Qed.

(* every language reachable by a history of successful add calls *)
Inductive built : lang -> Prop :=
| built_empty : built empty_lang
| built_add L n k L' : built L -> add L n k = Some L' -> built L'.

Lemma built_names_ok L : built L -> names_ok L.
Proof.
  induction 1 as [|L n k L' _ IH Hadd].
  - split; [constructor | intros n []].
  - eapply add_ok; eauto.
Qed.

(* ------------------------------------------------------------------ *)
(* facts about names of a language with distinct names *)

Lemma NoDup_app_l {A} (l1 l2 : list A) : NoDup (l1 ++ l2) -> NoDup l1.
Proof.
  induction l1 as [|x l1 IH]; intros ND; [constructor|].
  cbn [app] in ND. inversion ND as [|z zs Hnot ND']; subst.
  constructor; [|auto]. intros F. apply Hnot. apply in_or_app. now left.
Qed.

Lemma NoDup_app_r {A} (l1 l2 : list A) : NoDup (l1 ++ l2) -> NoDup l2.
Proof.
  induction l1 as [|x l1 IH]; intros ND; [exact ND|].
  cbn [app] in ND. inversion ND; subst. auto.
Qed.

Definition tsnames (L : lang) : list name := map fst (l_types L) ++ map fst (l_syns L).

Lemma names_ok_tsnames L : names_ok L -> NoDup (tsnames L).
Proof.
  intros [ND _]. unfold all_names in ND. rewrite app_assoc in ND.
  now apply NoDup_app_l in ND.
Qed.

Lemma NoDup_app_disj {A} (l1 l2 : list A) x : NoDup (l1 ++ l2) -> In x l1 -> ~ In x l2.
Proof.
  induction l1 as [|y l1 IH]; intros ND H1 H2; [destruct H1|].
  cbn [app] in ND. inversion ND as [|z zs Hnot ND']; subst.
  destruct H1 as [->|H1].
  - apply Hnot. apply in_or_app. now right.
  - exact (IH ND' H1 H2).
Qed.

Lemma nth_error_fst_In {A B} (l : list (A * B)) k n a :
  nth_error l k = Some (n, a) -> In n (map fst l).
Proof. intros Hk. apply nth_error_In in Hk. change n with (fst (n, a)). now apply in_map. Qed.
