(* C13: every rendering of a tree parses to the programmatic construction of
   that tree (same objects created in the same order, same calls into the
   type checker, same outcome), for all trees and all renderings. *)
From Coq Require Import List Arith Bool Lia NArith ZArith.
Import ListNotations.
From TF Require Import Parse.ExTok Parse.ExParser Parse.ExTotal Parse.ExSpec.

Lemma bind_assoc {A B C} (x : outcome A) (f : A -> outcome B) (g : B -> outcome C) :
  bind (bind x f) g = bind x (fun a => bind (f a) g).
Proof. now destruct x. Qed.

Lemma bind_eta {A B} (x : outcome (A * B)) : bind x (fun r => Ok (fst r, snd r)) = x.
Proof. now destruct x as [[a b]| |]. Qed.

Lemma bind_ext {A B} (x : outcome A) (f g : A -> outcome B) :
  (forall a, x = Ok a -> f a = g a) -> bind x f = bind x g.
Proof. destruct x; cbn; auto. Qed.

(* a successful backtrack over instances collects them *)
Lemma backtrack_insts args : forall R acc,
  backtrack (rev (map TInst args) ++ R) acc = backtrack R (args ++ acc).
Proof.
  induction args as [|a l IH]; intros R acc; [reflexivity|].
  cbn [map rev]. rewrite <- app_assoc. rewrite IH. reflexivity.
Qed.

Definition Collapses (its : list titem) (T : pty) : Prop :=
  forall R, backtrack (its ++ R) [] = backtrack R [T].

Section Render.
  Variable lookup_op : str -> option nat.
  Variable lookup_ty : str -> option (nat * nat).
  Variable decval : N -> option nat.
  Variable St : Type.
  Variable step : St -> event -> St + perr.
  Variable ninputs : nat.

  Notation pst := (pst St).
  Notation bst := (bst St).
  Notation run := (run lookup_op lookup_ty decval St step ninputs).
  Notation step_tok := (step_tok lookup_op lookup_ty decval St step ninputs).
  Notation build := (build St step ninputs).
  Notation b_emit := (b_emit St step).
  Notation b_app := (b_app St step).
  Notation b_annot := (b_annot St step).
  Notation Atom := (Atom lookup_op decval).
  Notation TyAtom := (TyAtom lookup_ty).
  Notation TyI := (TyI lookup_ty).
  Notation TyArgs := (TyArgs lookup_ty).
  Notation TyR := (TyR lookup_ty).
  Notation Seq := (Seq lookup_op lookup_ty decval).
  Notation Groups := (Groups lookup_op lookup_ty decval).
  Notation Renders := (Renders lookup_op lookup_ty decval).

  (* the parser's state: stack, construction state, mode *)
  Definition P (K : list (option val)) (b : bst) (m : mode) : pst :=
    mkP St K (bc St b) (bu St b) (ba St b) m.
  Definition TS K b v ts lvl := P K b (MType v ts lvl).

  Lemma run_cons t r p : t <> [] -> run (t :: r) p = bind (step_tok p t) (run r).
  Proof. destruct t; [congruence | reflexivity]. Qed.

  Lemma emit_P K b m e :
    emit St step (P K b m) e = bind (b_emit b e) (fun b' => Ok (P K b' m)).
  Proof. unfold emit, ExSpec.b_emit, P. cbn. now destruct (step _ _). Qed.

  Lemma mk_app_P K b m f x :
    mk_app St step (P K b m) f x = bind (b_app b f x) (fun r => Ok (fst r, P K (snd r) m)).
  Proof. unfold mk_app, ExSpec.b_app, emit, ExSpec.b_emit, fresh, b_new, P. cbn. now destruct (step _ _). Qed.

  Lemma annotate_P K b m v t :
    annotate St step (P K b m) v t =
    bind (b_annot (is_untyped v (bu St b)) b v t) (fun b' => Ok (P K b' m)).
  Proof.
    unfold annotate, ExSpec.b_annot, emit, ExSpec.b_emit, P. cbn.
    destruct (is_untyped v (bu St b)); cbn; now destruct (step _ _).
  Qed.

  Lemma set_stk_P K' K b m : set_stk St (P K' b m) K = P K b m.
  Proof. reflexivity. Qed.

  (* ---------------------------------------------------------------- *)
  (* atoms *)

  Lemma atom_tok_dash : atom_tok s_dash.
  Proof. repeat split. Qed.

  Lemma Atom_tok a t : Atom a t -> atom_tok t.
  Proof. destruct 1; auto using atom_tok_dash. Qed.

  Lemma atom_tok_nonempty t : atom_tok t -> t <> [].
  Proof. intros [H _] ->. discriminate. Qed.

  Lemma ex_tok_atom p t : atom_tok t ->
    ex_tok lookup_op decval St step ninputs p t = atom_step lookup_op decval St step ninputs p t.
  Proof. intros (H1 & H2 & H3). unfold ex_tok. now rewrite H1, H2, H3. Qed.

  Lemma atom_value_P a t K b m : Atom a t ->
    atom_value lookup_op decval St step ninputs (P K b m) t =
    bind (build a b) (fun r => Ok (fst r, P K (snd r) m)).
  Proof.
    destruct 1 as [|t n _ Hd Hn|t o _ Hd Hn Ho]; unfold atom_value.
    - cbn [str_eqb s_dash N.eqb Pos.eqb c_dash andb]. cbn [ExSpec.build].
      unfold emit, ExSpec.b_emit, P. cbn. now destruct (step _ _).
    - rewrite Hd, Hn. cbn [ExSpec.build]. now destruct (input_ref ninputs n).
    - rewrite Hd, Hn, Ho. cbn [ExSpec.build].
      unfold emit, ExSpec.b_emit, fresh, b_new, P. cbn. now destruct (step _ _).
  Qed.

  (* applying what is on the stack below (if anything) to a finished argument *)
  Definition join (vc : option val) (b : bst) (y : val) : outcome (val * bst) :=
    match vc with None => Ok (y, b) | Some f => b_app b f y end.

  Lemma atom_step_P a t vc K b : Atom a t ->
    atom_step lookup_op decval St step ninputs (P (vc :: K) b MExpr) t =
    bind (bind (build a b) (fun r => join vc (snd r) (fst r)))
         (fun r' => Ok (P (Some (fst r') :: K) (snd r') MExpr)).
  Proof.
    intros HA. unfold atom_step. rewrite (atom_value_P a t _ _ _ HA).
    destruct (build a b) as [[va b1]| |]; cbn [bind fst snd]; try reflexivity.
    change (stk St (P (vc :: K) b1 MExpr)) with (vc :: K).
    destruct vc as [f|]; cbn [join]; [|reflexivity].
    rewrite set_stk_P, mk_app_P. destruct (b_app b1 f va) as [[v b2]| |]; reflexivity.
  Qed.

  Lemma close_P y vc K b :
    close_step St step (P (Some y :: vc :: K) b MExpr) =
    bind (join vc b y) (fun r => Ok (P (Some (fst r) :: K) (snd r) MExpr)).
  Proof.
    unfold close_step. change (stk St (P (Some y :: vc :: K) b MExpr)) with (Some y :: vc :: K).
    destruct vc as [f|]; cbn [join]; [|reflexivity].
    rewrite set_stk_P, mk_app_P. destruct (b_app b f y) as [[v b2]| |]; reflexivity.
  Qed.

  (* ---------------------------------------------------------------- *)
  (* construction *)

  Lemma b_emit_no_crash b e : no_crash (b_emit b e).
  Proof. unfold ExSpec.b_emit. now destruct (step _ _). Qed.

  Lemma b_app_no_crash b f x : no_crash (b_app b f x).
  Proof.
    unfold ExSpec.b_app. apply no_crash_bind; [apply b_emit_no_crash | intros; exact I].
  Qed.

  Lemma build_no_crash e : forall b, no_crash (build e b).
  Proof.
    induction e as [o| |n|f IHf x IHx|e IHe t]; intros b; cbn [ExSpec.build].
    - apply no_crash_bind; [apply b_emit_no_crash | intros; exact I].
    - apply no_crash_bind; [apply b_emit_no_crash | intros; exact I].
    - now destruct (input_ref ninputs n).
    - apply no_crash_bind; [apply IHf|]. intros r1 _.
      apply no_crash_bind; [apply IHx|]. intros r2 _. apply b_app_no_crash.
    - apply no_crash_bind; [apply IHe|]. intros r _.
      apply no_crash_bind; [|intros; exact I].
      unfold ExSpec.b_annot. destruct (is_dash e); apply b_emit_no_crash.
  Qed.

  (* what is on the stack was built from b0 *)
  Definition Ctx (c : option ex) (b0 : bst) (vc : option val) (b : bst) : Prop :=
    match c with
    | None => vc = None /\ b = b0
    | Some ec => exists v, vc = Some v /\ build ec b0 = Ok (v, b)
    end.

  Lemma build_app_opt c b0 vc b a : Ctx c b0 vc b ->
    build (app_opt c a) b0 = bind (build a b) (fun r => join vc (snd r) (fst r)).
  Proof.
    destruct c as [ec|]; cbn [Ctx app_opt].
    - intros (v & -> & Hb). cbn [ExSpec.build]. rewrite Hb. reflexivity.
    - intros [-> ->]. cbn [join]. now rewrite bind_eta.
  Qed.

  Lemma plug_fail l : forall e' b0 x e, build e' b0 = Err x -> plug (Some e') l = Some e ->
    build e b0 = Err x.
  Proof.
    induction l as [|[a|t] r IH]; intros e' b0 x e Hb Hp; cbn [plug] in Hp.
    - now injection Hp as <-.
    - eapply IH; [|exact Hp]. cbn [app_opt ExSpec.build]. now rewrite Hb.
    - eapply IH; [|exact Hp]. cbn [ExSpec.build]. now rewrite Hb.
  Qed.

  Lemma existsb_drop n u : existsb (Nat.eqb n) (filter (fun k => negb (Nat.eqb n k)) u) = false.
  Proof.
    induction u as [|a u IH]; [reflexivity|]. cbn [filter].
    destruct (Nat.eqb n a) eqn:E; cbn [negb]; [exact IH|]. cbn [existsb]. now rewrite E, IH.
  Qed.

  Lemma b_emit_ok b e b' : b_emit b e = Ok b' -> bc St b' = bc St b /\ bu St b' = bu St b.
  Proof. unfold ExSpec.b_emit. destruct (step _ _); [intros [= <-]; auto | discriminate]. Qed.

  (* `previous in untyped` holds exactly for a bare `-` *)
  Lemma is_untyped_build e : forall b0 v b, build e b0 = Ok (v, b) ->
    is_untyped v (bu St b) = is_dash e.
  Proof.
    induction e as [o| |n|f IHf x IHx|e IHe t]; intros b0 v b H; cbn [ExSpec.build] in H.
    - destruct (b_emit _ _) as [b'| |] eqn:E; cbn [bind] in H; try discriminate.
      now injection H as <- <-.
    - destruct (b_emit _ _) as [b'| |] eqn:E; cbn [bind] in H; try discriminate.
      injection H as <- <-. apply b_emit_ok in E as [_ E]. cbn [bu] in E.
      cbn [is_untyped is_dash]. rewrite E, existsb_app. cbn [existsb].
      now rewrite Nat.eqb_refl, orb_true_r.
    - destruct (input_ref ninputs n); [|discriminate]. now injection H as <- <-.
    - destruct (build f b0) as [r1| |]; cbn [bind] in H; try discriminate.
      destruct (build x (snd r1)) as [r2| |]; cbn [bind] in H; try discriminate.
      unfold ExSpec.b_app in H. destruct (b_emit _ _) as [b'| |]; cbn [bind] in H; try discriminate.
      now injection H as <- <-.
    - destruct (build e b0) as [[v1 b1]| |] eqn:E1; cbn [bind fst snd] in H; try discriminate.
      destruct (b_annot (is_dash e) b1 v1 t) as [b'| |] eqn:E2; cbn [bind] in H; try discriminate.
      injection H as <- <-. cbn [is_dash]. unfold ExSpec.b_annot in E2.
      destruct (is_dash e) eqn:D.
      + apply b_emit_ok in E2 as [_ E2]. cbn [bu] in E2. rewrite E2.
        destruct v1; cbn [is_untyped drop]; try reflexivity. apply existsb_drop.
      + apply b_emit_ok in E2 as [_ E2]. rewrite E2. now rewrite (IHe _ _ _ E1).
  Qed.

  (* ---------------------------------------------------------------- *)
  (* the type parser on well-written types *)

  Definition post (p : pst) (prev : val) (st : list titem * Z) : outcome pst :=
    bind (brk (fst st) (snd st)) (fun b =>
      if b then ty_done St step p prev (fst st)
      else Ok (set_md St p (MType prev (fst st) (snd st)))).

  Lemma step_tok_ty K b v ts lvl t :
    step_tok (TS K b v ts lvl) t = bind (ty_tok lookup_ty (ts, lvl) t) (post (P K b MExpr) v).
  Proof. reflexivity. Qed.

  Lemma post_continue K b v S x lvl : (1 <= lvl)%Z -> (forall t, x <> TInst t) ->
    post (P K b MExpr) v (S ++ [x; TNone], lvl) = Ok (TS K b v (S ++ [x; TNone]) lvl).
  Proof.
    intros Hl Hx. unfold post. cbn [fst snd]. rewrite brk_two.
    destruct x as [|t|c]; [reflexivity | now elim (Hx t) |].
    destruct (Z.eqb_spec lvl 0); [lia | reflexivity].
  Qed.

  Lemma ty_done_P K b m v ts T : ty_final ts = Ok T ->
    ty_done St step (P K b m) v ts =
    bind (b_annot (is_untyped v (bu St b)) b v T) (fun b' => Ok (P K b' MExpr)).
  Proof.
    intros H. unfold ty_done. rewrite H. cbn [bind].
    change (set_md St (P K b m) MExpr) with (P K b MExpr). apply annotate_P.
  Qed.

  Lemma ty_name_nonempty t : ty_name t -> t <> [].
  Proof. now intros [H _]. Qed.

  Lemma TyAtom_nonempty T t : TyAtom T t -> t <> [].
  Proof. destruct 1; try discriminate. now apply ty_name_nonempty. Qed.

  Lemma ty_tok_atom T t ts lvl : TyAtom T t ->
    ty_tok lookup_ty (ts, lvl) t = Ok (TInst T :: ts, lvl).
  Proof.
    destruct 1 as [| | |t c (_ & H1 & H2 & H3 & H4 & H5 & H6) Hl]; try reflexivity.
    unfold ty_tok. now rewrite H1, H2, H3, H4, H5, H6, Hl.
  Qed.

  Lemma ty_tok_con t c n ts lvl : ty_name t -> lookup_ty t = Some (c, n) -> n <> 0 ->
    ty_tok lookup_ty (ts, lvl) t = Ok (TCon (c, n) :: ts, lvl).
  Proof.
    intros (_ & H1 & H2 & H3 & H4 & H5 & H6) Hl Hn.
    unfold ty_tok. rewrite H1, H2, H3, H4, H5, H6, Hl. cbn [snd fst].
    apply Nat.eqb_neq in Hn. now rewrite Hn.
  Qed.

  Lemma ty_tok_lp ts lvl : ty_tok lookup_ty (ts, lvl) s_lp = Ok (TNone :: ts, (lvl + 1)%Z).
  Proof. reflexivity. Qed.
  Lemma ty_tok_rp ts lvl :
    ty_tok lookup_ty (ts, lvl) s_rp = bind (backtrack ts []) (fun s' => Ok (s', (lvl - 1)%Z)).
  Proof. reflexivity. Qed.
  Lemma ty_tok_comma ts lvl :
    ty_tok lookup_ty (ts, lvl) s_comma = bind (backtrack ts []) (fun s' => Ok (TNone :: s', lvl)).
  Proof. reflexivity. Qed.
  (* `*` finds no pending operator to apply: below the instances on top of the stack
     is a bracket or the Product of an enclosing `A * ...` *)
  Fixpoint after_insts (s : list titem) : list titem :=
    match s with TInst _ :: r => after_insts r | _ => s end.
  Definition sguard (s : list titem) : Prop :=
    match after_insts s with
    | TCon c :: _ => Nat.eqb (fst c) (fst c_product) = true
    | _ => True
    end.

  Lemma split_insts_after s : forall acc, snd (split_insts s acc) = after_insts s.
  Proof. induction s as [|[|t|c] s IH]; intros acc; cbn [split_insts after_insts snd]; auto. Qed.

  Lemma star_collapse_guard s : sguard s -> star_collapse s = Ok s.
  Proof.
    unfold sguard, star_collapse. rewrite <- (split_insts_after s []).
    destruct (split_insts s []) as [args rest]. cbn [snd].
    destruct rest as [|[|t|c] r]; auto. destruct args; auto. now intros ->.
  Qed.

  Lemma ty_tok_star a r lvl : sguard (TInst a :: r) ->
    ty_tok lookup_ty (TInst a :: r, lvl) s_star = Ok (TInst a :: TCon c_product :: r, lvl).
  Proof.
    intros Hg.
    change (ty_tok lookup_ty (TInst a :: r, lvl) s_star)
      with (bind (star_collapse (TInst a :: r)) (fun stack1 =>
              match stack1 with
              | [] => Crash STypePop
              | TInst t1 :: r0 => Ok (TInst t1 :: TCon c_product :: r0, lvl)
              | _ :: _ => Err EParse
              end)).
    now rewrite star_collapse_guard.
  Qed.

  (* one token inside brackets: the loop goes on *)
  Lemma run_ty_inner t r K b v ts lvl S' x lvl' :
    t <> [] -> ty_tok lookup_ty (ts, lvl) t = Ok (S' ++ [x; TNone], lvl') ->
    (1 <= lvl')%Z -> (forall t, x <> TInst t) ->
    run (t :: r) (TS K b v ts lvl) = run r (TS K b v (S' ++ [x; TNone]) lvl').
  Proof.
    intros Ht Hk Hl Hx. rewrite run_cons by assumption. rewrite step_tok_ty, Hk. cbn [bind].
    now rewrite post_continue.
  Qed.

  Definition PI (T : pty) (tt : list str) : Prop :=
    exists its, Collapses its T /\
      forall K b v S x lvl more, (1 <= lvl)%Z -> (forall t, x <> TInst t) ->
        sguard (S ++ [x; TNone]) ->
        run (tt ++ more) (TS K b v (S ++ [x; TNone]) lvl) =
        run more (TS K b v (its ++ S ++ [x; TNone]) lvl).

  Definition PA (args : list pty) (tas : list str) : Prop :=
    forall K b v S x lvl more, (0 <= lvl)%Z -> (forall t, x <> TInst t) ->
      run (tas ++ s_rp :: more) (TS K b v (TNone :: S ++ [x; TNone]) (lvl + 1)) =
      bind (post (P K b MExpr) v (rev (map TInst args) ++ S ++ [x; TNone], lvl)) (run more).

  Lemma s_rp_ne : s_rp <> []. Proof. discriminate. Qed.
  Lemma s_lp_ne : s_lp <> []. Proof. discriminate. Qed.
  Lemma s_comma_ne : s_comma <> []. Proof. discriminate. Qed.
  Lemma s_star_ne : s_star <> []. Proof. discriminate. Qed.
  Lemma s_colon_ne : s_colon <> []. Proof. discriminate. Qed.

  (* closing bracket after a collapsing item list, inside brackets *)
  Lemma close_inner its T K b v S x lvl more : Collapses its T ->
    (1 <= lvl)%Z -> (forall t, x <> TInst t) ->
    run (s_rp :: more) (TS K b v (its ++ TNone :: S ++ [x; TNone]) (lvl + 1)) =
    run more (TS K b v (TInst T :: S ++ [x; TNone]) lvl).
  Proof.
    intros HC Hl Hx.
    change (TInst T :: S ++ [x; TNone]) with ((TInst T :: S) ++ [x; TNone]).
    apply run_ty_inner; auto using s_rp_ne.
    rewrite ty_tok_rp, HC. cbn [backtrack bind app]. do 2 f_equal. lia.
  Qed.

  Lemma TyI_TyArgs_sound :
    (forall T tt, TyI T tt -> PI T tt) /\ (forall args tas, TyArgs args tas -> PA args tas).
  Proof.
    apply TyI_TyArgs_ind.
    - (* atom *)
      intros T t HA. exists [TInst T]. split; [intros R; reflexivity|].
      intros K b v S x lvl more Hl Hx _. cbn [app].
      change (TInst T :: S ++ [x; TNone]) with ((TInst T :: S) ++ [x; TNone]).
      apply run_ty_inner; auto.
      + eapply TyAtom_nonempty; eauto.
      + now apply ty_tok_atom.
    - (* F(a1, ..., an) *)
      intros t c n args tas Hn Hl Hn0 _ IH Hlen.
      exists (rev (map TInst args) ++ [TCon (c, n)]). split.
      + intros R. rewrite <- app_assoc, backtrack_insts. cbn [app backtrack].
        unfold mk_tapp. cbn [snd fst]. rewrite app_nil_r, <- Hlen, Nat.eqb_refl. reflexivity.
      + intros K b v S x lvl more Hlv Hx _.
        cbn [app]. rewrite <- app_assoc. cbn [app].
        rewrite (run_ty_inner t _ K b v _ lvl (TCon (c, n) :: S) x lvl); auto using ty_name_nonempty.
        2:{ now apply ty_tok_con. }
        rewrite (run_ty_inner s_lp _ K b v _ lvl (TNone :: TCon (c, n) :: S) x (lvl + 1)); auto using s_lp_ne; try lia.
        pose proof (IH K b v (TCon (c, n) :: S) x lvl more ltac:(lia) Hx) as IH'.
        cbn [app] in IH' |- *. rewrite IH'.
        replace (rev (map TInst args) ++ TCon (c, n) :: S ++ [x; TNone])
          with ((rev (map TInst args) ++ TCon (c, n) :: S) ++ [x; TNone]) by now rewrite <- app_assoc.
        rewrite post_continue by auto. cbn [bind]. f_equal. unfold TS. f_equal. f_equal.
        rewrite <- !app_assoc. reflexivity.
    - (* ( T ) *)
      intros T tt _ (its & HC & IH). exists [TInst T]. split; [intros R; reflexivity|].
      intros K b v S x lvl more Hlv Hx _.
      cbn [app]. rewrite <- app_assoc. cbn [app].
      rewrite (run_ty_inner s_lp _ K b v _ lvl (TNone :: S) x (lvl + 1)); auto using s_lp_ne; try lia.
      cbn [app]. rewrite (IH K b v (TNone :: S) x (lvl + 1)%Z) by (auto; try lia; exact I).
      cbn [app]. now apply close_inner.
    - (* A * B, A an atom *)
      intros A t B tb HA _ (itsB & HCB & IHB).
      exists (itsB ++ [TInst A; TCon c_product]). split.
      + intros R. rewrite <- app_assoc, HCB. reflexivity.
      + intros K b v S x lvl more Hlv Hx Hg. cbn [app].
        rewrite (run_ty_inner t _ K b v _ lvl (TInst A :: S) x lvl); auto.
        2:{ eapply TyAtom_nonempty; eauto. }
        2:{ now apply ty_tok_atom. }
        rewrite (run_ty_inner s_star _ K b v _ lvl (TInst A :: TCon c_product :: S) x lvl); auto using s_star_ne.
        2:{ apply (ty_tok_star A (S ++ [x; TNone]) lvl). exact Hg. }
        rewrite (IHB K b v (TInst A :: TCon c_product :: S) x lvl) by (auto; reflexivity).
        f_equal. unfold TS. f_equal. f_equal. cbn [app]. rewrite <- app_assoc. reflexivity.
    - (* (A) * B *)
      intros A ta B tb _ (itsA & HCA & IHA) _ (itsB & HCB & IHB).
      exists (itsB ++ [TInst A; TCon c_product]). split.
      + intros R. rewrite <- app_assoc, HCB. reflexivity.
      + intros K b v S x lvl more Hlv Hx Hg. cbn [app]. rewrite <- app_assoc. cbn [app].
        rewrite (run_ty_inner s_lp _ K b v _ lvl (TNone :: S) x (lvl + 1)); auto using s_lp_ne; try lia.
        cbn [app]. rewrite (IHA K b v (TNone :: S) x (lvl + 1)%Z) by (auto; try lia; exact I).
        cbn [app]. rewrite (close_inner itsA A) by auto.
        rewrite (run_ty_inner s_star _ K b v _ lvl (TInst A :: TCon c_product :: S) x lvl); auto using s_star_ne.
        2:{ apply (ty_tok_star A (S ++ [x; TNone]) lvl). exact Hg. }
        rewrite (IHB K b v (TInst A :: TCon c_product :: S) x lvl) by (auto; reflexivity).
        f_equal. unfold TS. f_equal. f_equal. cbn [app]. rewrite <- app_assoc. reflexivity.
    - (* last argument *)
      intros T tt _ (its & HC & IH) K b v S x lvl more Hlv Hx.
      change (TNone :: S ++ [x; TNone]) with ((TNone :: S) ++ [x; TNone]).
      rewrite (IH K b v (TNone :: S) x (lvl + 1)%Z) by (auto; try lia; exact I).
      rewrite run_cons by apply s_rp_ne. rewrite step_tok_ty, ty_tok_rp.
      cbn [app]. rewrite HC. cbn [backtrack bind map rev app].
      replace (lvl + 1 - 1)%Z with lvl by lia. reflexivity.
    - (* argument, more to come *)
      intros T tt Ts tts _ (its & HC & IH) _ IHs K b v S x lvl more Hlv Hx.
      rewrite <- app_assoc. cbn [app].
      change (TNone :: S ++ [x; TNone]) with ((TNone :: S) ++ [x; TNone]).
      rewrite (IH K b v (TNone :: S) x (lvl + 1)%Z) by (auto; try lia; exact I).
      rewrite (run_ty_inner s_comma _ K b v _ (lvl + 1) (TNone :: TInst T :: S) x (lvl + 1)); auto using s_comma_ne; try lia.
      2:{ rewrite ty_tok_comma. cbn [app]. rewrite HC. reflexivity. }
      pose proof (IHs K b v (TInst T :: S) x lvl more Hlv Hx) as IH'.
      cbn [app] in IH' |- *. rewrite IH'.
      cbn [map rev app]. rewrite <- !app_assoc. reflexivity.
  Qed.

  (* a type right after the colon: consumed exactly, then the annotation *)
  Lemma TyR_sound T tt : TyR T tt -> forall K b v more,
    run (tt ++ more) (TS K b v [TNone] 0) =
    bind (b_annot (is_untyped v (bu St b)) b v T) (fun b' => run more (P K b' MExpr)).
  Proof.
    assert (D : forall K b v ts more, ty_final ts = Ok T ->
      bind (ty_done St step (P K b MExpr) v ts) (run more) =
      bind (b_annot (is_untyped v (bu St b)) b v T) (fun b' => run more (P K b' MExpr))).
    { intros K b v ts more H. rewrite (ty_done_P _ _ _ _ _ _ H), bind_assoc. reflexivity. }
    destruct 1 as [T t HA | t c n args tas Hn Hl Hn0 HAr Hlen | T tt HI]; intros K b v more.
    - cbn [app]. rewrite run_cons by (eapply TyAtom_nonempty; eauto).
      rewrite step_tok_ty, (ty_tok_atom _ _ _ _ HA). cbn [bind]. apply D. reflexivity.
    - cbn [app]. rewrite <- app_assoc. cbn [app].
      rewrite run_cons by now apply ty_name_nonempty.
      rewrite step_tok_ty, (ty_tok_con _ _ _ _ _ Hn Hl Hn0). cbn [bind].
      change (post (P K b MExpr) v ([TCon (c, n); TNone], 0%Z)) with (Ok (TS K b v [TCon (c, n); TNone] 0)).
      cbn [bind]. rewrite run_cons by apply s_lp_ne. rewrite step_tok_ty, ty_tok_lp. cbn [bind].
      change (post (P K b MExpr) v ([TNone; TCon (c, n); TNone], (0 + 1)%Z))
        with (Ok (TS K b v (TNone :: [] ++ [TCon (c, n); TNone]) (0 + 1))).
      cbn [bind].
      destruct TyI_TyArgs_sound as [_ HA]. rewrite (HA args tas HAr K b v [] (TCon (c, n)) 0%Z more); [|lia|discriminate].
      cbn [app]. unfold post. cbn [fst snd]. rewrite brk_two.
      rewrite app_length, rev_length, map_length, Hlen. cbn [length Z.eqb andb].
      replace (Nat.ltb 2 (n + 2)) with true by (symmetry; apply Nat.ltb_lt; lia).
      cbn [bind]. apply D. unfold ty_final.
      rewrite backtrack_insts. cbn [backtrack]. unfold mk_tapp. cbn [snd fst].
      rewrite app_nil_r, <- Hlen, Nat.eqb_refl. reflexivity.
    - cbn [app]. rewrite <- app_assoc. cbn [app].
      rewrite run_cons by apply s_lp_ne. rewrite step_tok_ty, ty_tok_lp. cbn [bind].
      change (post (P K b MExpr) v ([TNone; TNone], (0 + 1)%Z))
        with (Ok (TS K b v ([] ++ [TNone; TNone]) 1)).
      cbn [bind].
      destruct TyI_TyArgs_sound as [HS _]. destruct (HS T tt HI) as (its & HC & IH).
      rewrite (IH K b v [] TNone 1%Z); [|lia|discriminate|exact I].
      rewrite run_cons by apply s_rp_ne. rewrite step_tok_ty, ty_tok_rp. cbn [app].
      rewrite HC. cbn [backtrack bind].
      change (post (P K b MExpr) v ([TInst T; TNone], (1 - 1)%Z))
        with (ty_done St step (P K b MExpr) v [TInst T; TNone]).
      apply D. reflexivity.
  Qed.

  (* ---------------------------------------------------------------- *)
  (* expressions *)

  Definition PS (l : list sp) (toks : list str) : Prop :=
    forall c e, plug c l = Some e -> forall K b0 vc b more, Ctx c b0 vc b ->
      run (toks ++ more) (P (vc :: K) b MExpr) =
      bind (build e b0) (fun r => run more (P (Some (fst r) :: K) (snd r) MExpr)).

  (* after `(`: groups separated by commas, then `)` *)
  Fixpoint apps (c : option ex) (gs : list ex) : option ex :=
    match gs with [] => c | g :: r => apps (Some (app_opt c g)) r end.

  Definition PG (gs : list ex) (tg : list str) : Prop :=
    forall c e, apps c gs = Some e -> forall K b0 vc b more, Ctx c b0 vc b ->
      run (tg ++ s_rp :: more) (P (None :: vc :: K) b MExpr) =
      bind (build e b0) (fun r => run more (P (Some (fst r) :: K) (snd r) MExpr)).

  Lemma plug_args c gs l : plug c (map SArg gs ++ l) = plug (apps c gs) l.
  Proof. revert c. induction gs as [|g r IH]; intros c; cbn [map app plug apps]; auto. Qed.

  Lemma apps_some c gs : gs <> [] -> exists e, apps c gs = Some e.
  Proof.
    revert c. induction gs as [|g r IH]; intros c H; [congruence|]. cbn [apps].
    destruct r as [|g' r']; [cbn; eauto | apply IH; discriminate].
  Qed.

  Lemma apps_fail gs : forall e' b0 x e, build e' b0 = Err x -> apps (Some e') gs = Some e ->
    build e b0 = Err x.
  Proof.
    induction gs as [|g r IH]; intros e' b0 x e Hb Hp; cbn [apps] in Hp.
    - now injection Hp as <-.
    - eapply IH; [|exact Hp]. cbn [app_opt ExSpec.build]. now rewrite Hb.
  Qed.

  (* `)` or `,` after a finished group, inside brackets opened on top of vc *)
  Lemma step_close_rp y vc K b :
    step_tok (P (Some y :: vc :: K) b MExpr) s_rp =
    bind (join vc b y) (fun r => Ok (P (Some (fst r) :: K) (snd r) MExpr)).
  Proof.
    change (step_tok (P (Some y :: vc :: K) b MExpr) s_rp)
      with (bind (close_step St step (P (Some y :: vc :: K) b MExpr)) (fun p1 =>
              match stk St p1 with [] => Err EBracket | _ => Ok p1 end)).
    rewrite close_P. now destruct (join vc b y) as [[v b']| |].
  Qed.

  Lemma step_close_comma y vc K b :
    step_tok (P (Some y :: vc :: K) b MExpr) s_comma =
    bind (join vc b y) (fun r => Ok (P (None :: Some (fst r) :: K) (snd r) MExpr)).
  Proof.
    change (step_tok (P (Some y :: vc :: K) b MExpr) s_comma)
      with (bind (close_step St step (P (Some y :: vc :: K) b MExpr)) (fun p1 => Ok (push St p1 None))).
    rewrite close_P. now destruct (join vc b y) as [[v b']| |].
  Qed.

  Lemma Seq_Groups_sound :
    (forall l toks, Seq l toks -> PS l toks) /\ (forall gs tg, Groups gs tg -> PG gs tg).
  Proof.
    apply Seq_Groups_ind.
    - (* nothing more at this level *)
      intros c e Hp K b0 vc b more HC. cbn [plug] in Hp. subst c.
      destruct HC as (v & -> & Hb). cbn [app]. rewrite Hb. reflexivity.
    - (* an atom *)
      intros a t l ts HA _ IH c e Hp K b0 vc b more HC. cbn [plug] in Hp. cbn [app].
      rewrite run_cons by (apply atom_tok_nonempty; eapply Atom_tok; eauto).
      change (step_tok (P (vc :: K) b MExpr) t)
        with (ex_tok lookup_op decval St step ninputs (P (vc :: K) b MExpr) t).
      rewrite ex_tok_atom by (eapply Atom_tok; eauto).
      rewrite (atom_step_P a t vc K b HA), <- (build_app_opt c b0 vc b a HC), bind_assoc.
      cbn [bind].
      pose proof (build_no_crash (app_opt c a) b0) as NC.
      destruct (build (app_opt c a) b0) as [[v1 b1]| |] eqn:E; cbn [bind fst snd].
      + apply (IH (Some (app_opt c a)) e Hp K b0 (Some v1) b1 more). exists v1. auto.
      + now rewrite (plug_fail l _ _ _ _ E Hp).
      + elim NC.
    - (* ( g1, ..., gk ) *)
      intros gs tg l ts HG IHG _ IH c e Hp K b0 vc b more HC.
      rewrite plug_args in Hp. cbn [app]. rewrite <- app_assoc. cbn [app].
      rewrite run_cons by apply s_lp_ne.
      change (step_tok (P (vc :: K) b MExpr) s_lp) with (Ok (P (None :: vc :: K) b MExpr)).
      cbn [bind].
      destruct (apps c gs) as [e1|] eqn:Ea.
      2:{ exfalso. destruct gs as [|g r]; [inversion HG|].
          destruct (apps_some c (g :: r)) as (e1 & F); [discriminate | congruence]. }
      rewrite (IHG c e1 Ea K b0 vc b (ts ++ more) HC).
      pose proof (build_no_crash e1 b0) as NC.
      destruct (build e1 b0) as [[v1 b1]| |] eqn:E; cbn [bind fst snd].
      + apply (IH (Some e1) e Hp K b0 (Some v1) b1 more). exists v1. auto.
      + now rewrite (plug_fail l _ _ _ _ E Hp).
      + elim NC.
    - (* : T *)
      intros T tt l ts HT _ IH c e Hp K b0 vc b more HC. cbn [plug] in Hp.
      destruct c as [f|]; [|discriminate]. destruct HC as (v & -> & Hb).
      cbn [app]. rewrite <- app_assoc.
      rewrite run_cons by apply s_colon_ne.
      change (step_tok (P (Some v :: K) b MExpr) s_colon) with (Ok (TS (Some v :: K) b v [TNone] 0)).
      cbn [bind]. rewrite (TyR_sound T tt HT).
      rewrite (is_untyped_build f b0 v b Hb).
      assert (E : build (XAnn f T) b0 =
                  bind (b_annot (is_dash f) b v T) (fun b' => Ok (v, b'))).
      { cbn [ExSpec.build]. rewrite Hb. reflexivity. }
      pose proof (build_no_crash (XAnn f T) b0) as NC.
      destruct (b_annot (is_dash f) b v T) as [b1| |] eqn:E1; cbn [bind] in *.
      + apply (IH (Some (XAnn f T)) e Hp K b0 (Some v) b1 more). exists v. auto.
      + now rewrite (plug_fail l _ _ _ _ E Hp).
      + rewrite E in NC. elim NC.
    - (* last group *)
      intros l e1 t _ IH Hp1 c e Ha K b0 vc b more HC. cbn [apps] in Ha. injection Ha as <-.
      rewrite (IH None e1 Hp1 (vc :: K) b None b (s_rp :: more)) by (split; reflexivity).
      rewrite (build_app_opt c b0 vc b e1 HC), bind_assoc.
      apply bind_ext. intros [v1 b1] _. cbn [fst snd].
      rewrite run_cons by apply s_rp_ne. rewrite step_close_rp, bind_assoc. reflexivity.
    - (* group, comma, more groups *)
      intros l e1 t gs ts _ IH Hp1 _ IHG c e Ha K b0 vc b more HC. cbn [apps] in Ha.
      rewrite <- app_assoc. cbn [app].
      rewrite (IH None e1 Hp1 (vc :: K) b None b (s_comma :: ts ++ s_rp :: more)) by (split; reflexivity).
      pose proof (build_app_opt c b0 vc b e1 HC) as E.
      pose proof (build_no_crash (app_opt c e1) b0) as NC.
      destruct (build e1 b) as [[v1 b1]| |] eqn:E1; cbn [bind fst snd] in *.
      + rewrite run_cons by apply s_comma_ne. rewrite step_close_comma, bind_assoc.
        destruct (join vc b1 v1) as [[v2 b2]| |] eqn:E2; cbn [bind fst snd].
        * apply (IHG (Some (app_opt c e1)) e Ha K b0 (Some v2) b2 more). exists v2. auto.
        * now rewrite (apps_fail gs _ _ _ _ E Ha).
        * rewrite E in NC. elim NC.
      + now rewrite (apps_fail gs _ _ _ _ E Ha).
      + rewrite E in NC. elim NC.
  Qed.

  (* ---------------------------------------------------------------- *)
  (* the theorems *)

  Definition built (e : ex) (n0 : nat) (s0 : St) : outcome (val * St) :=
    bind (build e (mkB St n0 [] s0)) (fun r => Ok (fst r, ba St (snd r))).

  Theorem run_render e toks : Renders e toks -> forall n0 s0,
    run toks (init St n0 s0) = built e n0 s0.
  Proof.
    intros (l & HS & Hp) n0 s0. destruct Seq_Groups_sound as [H _].
    specialize (H l toks HS None e Hp [] (mkB St n0 [] s0) None (mkB St n0 [] s0) []).
    rewrite app_nil_r in H. change (init St n0 s0) with (P [None] (mkB St n0 [] s0) MExpr).
    rewrite H by (split; reflexivity). unfold built. apply bind_ext. now intros [v b] _.
  Qed.

  (* tokens with newlines and comments anywhere, also inside annotations *)
  Theorem parse_toks_render e core ts : Renders e core -> Junked core ts -> forall n0 s0,
    parse_toks lookup_op lookup_ty decval St step ninputs ts n0 s0 = built e n0 s0.
  Proof.
    intros HR HJ n0 s0. unfold parse_toks. rewrite (strip_junked _ _ HJ). now apply run_render.
  Qed.

  (* characters, with blanks anywhere between tokens *)
  Theorem parse_str_render e core ts s : Renders e core -> Junked core ts ->
    Layout ex_specials ts s -> forall n0 s0,
    parse_str lookup_op lookup_ty decval St step ninputs s n0 s0 = built e n0 s0.
  Proof.
    intros HR HJ HL n0 s0. unfold parse_str. rewrite (tokenize_layout _ _ _ HL).
    now apply parse_toks_render with core.
  Qed.

  (* any two ways of writing the same tree are interchangeable *)
  Corollary renderings_agree e c1 t1 s1 c2 t2 s2 :
    Renders e c1 -> Junked c1 t1 -> Layout ex_specials t1 s1 ->
    Renders e c2 -> Junked c2 t2 -> Layout ex_specials t2 s2 -> forall n0 s0,
    parse_str lookup_op lookup_ty decval St step ninputs s1 n0 s0 =
    parse_str lookup_op lookup_ty decval St step ninputs s2 n0 s0.
  Proof.
    intros. rewrite (parse_str_render e c1 t1 s1), (parse_str_render e c2 t2 s2); auto.
  Qed.
End Render.
