(* Printing and parsing of concrete types in type notation.
   text        = TypeInstance.text                 transforge/type.py:326-392
   parse_type  = Language.parse_type (string input) transforge/lang.py:365-439
   The parser model describes the code WITH the repair proposed in
   proposed_fixes/C14.diff (left operand of `*`); [star_pinned], [parse_type_pinned]
   describe the pinned code. *)
From Coq Require Import List Arith Bool Lia.
Import ListNotations.
From TF Require Import Base.Hier Base.Ty Parse.Lang Parse.Tok.

(* str.join *)
Fixpoint join {A} (sep : list A) (l : list (list A)) : list A :=
  match l with
  | [] => []
  | x :: r => match r with [] => x | _ => x ++ sep ++ join sep r end
  end.

Definition is_nil {A} (l : list A) : bool := match l with [] => true | _ => false end.

(* ------------------------------------------------------------------ *)
(* TypeInstance.text on a concrete type (no variables, hence nothing is added
   by with_constraints); the keyword arguments are parameters. *)
Section Text.
  Variable L : lang.
  Variables sep lparen rparen arrow prod : list nat.

  Fixpoint text (t : ty) : list nat :=
    match t with
    | TOp o args =>
        if o =? Function then                                   (* type.py:341-347 *)
          match args with
          | [i; r] => if ty_op i =? Function
                      then lparen ++ text i ++ rparen ++ arrow ++ text r
                      else text i ++ arrow ++ text r
          | _ => []
          end
        else if (o =? Product) && negb (is_nil prod) then       (* type.py:348-351 *)
          match args with
          | [a; b] => lparen ++ text a ++ prod ++ text b ++ rparen
          | _ => []
          end
        else match args with                                    (* type.py:352-358 *)
             | [] => op_name L o
             | _ => op_name L o ++ lparen ++ join sep (map text args) ++ rparen
             end
    end.
End Text.

(* str(t): sep=", " lparen="(" rparen=")" arrow=" ** " prod=" * " *)
Definition text_std (L : lang) : ty -> list nat :=
  text L [44; 32] [40] [41] [32; 42; 42; 32] [32; 42; 32].

(* ------------------------------------------------------------------ *)
(* Type text as a user writes it: operators applied to arguments, products in
   parentheses, and synonyms (plain: bare name; parameterised: applied). *)
Inductive sty : Type :=
| STy (o : nat) (args : list sty)
| SAl (k : nat) (args : list sty).

Section sty_ind'.
  Variable P : sty -> Prop.
  Hypothesis HTy : forall o args, Forall P args -> P (STy o args).
  Hypothesis HAl : forall k args, Forall P args -> P (SAl k args).
  Fixpoint sty_ind' (s : sty) : P s :=
    let go := fix go (l : list sty) : Forall P l :=
                match l with
                | [] => Forall_nil P
                | x :: r => Forall_cons x (sty_ind' x) (go r)
                end in
    match s with
    | STy o args => HTy o args (go args)
    | SAl k args => HAl k args (go args)
    end.
End sty_ind'.

Fixpoint embed (t : ty) : sty := match t with TOp o args => STy o (map embed args) end.

Definition syn_body (L : lang) (k : nat) : abody :=
  match nth_error (l_syns L) k with Some (_, (_, b)) => b | None => AOp Top [] end.

(* what the text denotes: synonyms replaced by their definitions *)
Fixpoint expand (L : lang) (s : sty) : ty :=
  match s with
  | STy o args => TOp o (map (expand L) args)
  | SAl k args => subst (map (expand L) args) (syn_body L k)
  end.

Definition app_text (nm : name) (args : list (list nat)) : list nat :=
  match args with
  | [] => nm
  | _ => nm ++ [40] ++ join [44; 32] args ++ [41]
  end.

Fixpoint stext (L : lang) (s : sty) : list nat :=
  match s with
  | STy o args =>
      if o =? Product then
        match args with
        | [a; b] => [40] ++ stext L a ++ [32; 42; 32] ++ stext L b ++ [41]
        | _ => []
        end
      else app_text (op_name L o) (map (stext L) args)
  | SAl k args => app_text (syn_name L k) (map (stext L) args)
  end.

Definition app_toks (nm : name) (args : list (list tok)) : list tok :=
  match args with
  | [] => [TkId nm]
  | _ => TkId nm :: TkL :: join [TkC] args ++ [TkR]
  end.

Fixpoint stoks (L : lang) (s : sty) : list tok :=
  match s with
  | STy o args =>
      if o =? Product then
        match args with
        | [a; b] => TkL :: stoks L a ++ TkStar :: stoks L b ++ [TkR]
        | _ => []
        end
      else app_toks (op_name L o) (map (stoks L) args)
  | SAl k args => app_toks (syn_name L k) (map (stoks L) args)
  end.

(* well-formed surface type over L: Top, Bottom, products, the language's
   operators and synonyms, each with as many arguments as its arity *)
Fixpoint swfb (L : lang) (s : sty) : bool :=
  match s with
  | STy o args =>
      ( ((o =? Top) || (o =? Bottom)) && (length args =? 0)
        || (o =? Product) && (length args =? 2)
        || (5 <=? o) && match nth_error (l_types L) (o - 5) with
                        | Some (_, a) => length args =? a
                        | None => false
                        end )
      && forallb (swfb L) args
  | SAl k args =>
      match nth_error (l_syns L) k with
      | Some (_, (a, _)) => length args =? a
      | None => false
      end && forallb (swfb L) args
  end.

(* concrete types printable and parseable in type notation: Top, Bottom,
   products and the language's operators, no Function and no Unit *)
Definition text_domb (L : lang) (t : ty) : bool := swfb L (embed t).

(* ------------------------------------------------------------------ *)
(* Language.parse_type, consume_all = True *)

Inductive item := INone | IInst (t : ty) | IOp (o : nat) | IAlias (k : nat).

Inductive perr :=
| EBracket        (* BracketMismatch *)
| EParse          (* ParseError *)
| EUndefined      (* UndefinedTokenError *)
| ETypeParam      (* TypeParameterError *)
| EAssert         (* AssertionError in the `*` branch *)
| EIndex          (* pop from empty list *)
| EWildcard.      (* `_`: a type variable, outside this model *)

Inductive res (A : Type) := Ok (a : A) | Err (e : perr).
Arguments Ok {A} a.
Arguments Err {A} e.

Section Parser.
  Variable L : lang.

  (* TypeOperator.__call__ -> TypeOperation.__init__ (type.py:685-694) *)
  Definition apply_op (o : nat) (args : list ty) : res ty :=
    if length args =? op_arity L o then Ok (TOp o args) else Err ETypeParam.

  (* TypeAlias.__call__ of a parameterised alias (type.py:919-928) *)
  Definition apply_alias (k : nat) (args : list ty) : res ty :=
    match nth_error (l_syns L) k with
    | Some (_, (a, b)) => if length args =? a then Ok (subst args b) else Err ETypeParam
    | None => Err ETypeParam
    end.

  (* backtrack(), lang.py:375-390.  The stack's top is the head of the list;
     [args] holds the popped instances already in left-to-right order (the
     code appends and then passes reversed(args)). *)
  Fixpoint bt (st : list item) (args : list ty) : res (list item) :=
    match st with
    | [] => Err EBracket
    | INone :: r => match args with [a] => Ok (IInst a :: r) | _ => Err EParse end
    | IInst a :: r => bt r (a :: args)
    | IOp o :: r => match apply_op o args with Ok t => bt r [t] | Err e => Err e end
    | IAlias k :: r => match apply_alias k args with Ok t => bt r [t] | Err e => Err e end
    end.

  (* lang.py:411-426 *)
  Definition resolve_tok (n : name) : res item :=
    if name_eqb n n_us then Err EWildcard
    else if name_eqb n n_Top then Ok (IInst (TOp Top []))
    else if name_eqb n n_Bottom then Ok (IInst (TOp Bottom []))
    else match find_idx n (l_types L) 5 with
         | Some (o, a) => Ok (if a =? 0 then IInst (TOp o []) else IOp o)
         | None =>
             match find_idx n (l_syns L) 0 with
             | Some (k, (a, b)) => Ok (if a =? 0 then IInst (subst [] b) else IAlias k)
             | None => Err EUndefined
             end
         end.

  (* pinned `*` branch, lang.py:405-409: only the top of the stack is taken *)
  Definition star_pinned (st : list item) : res (list item) :=
    match st with
    | [] => Err EIndex
    | IInst t :: r => Ok (IInst t :: IOp Product :: r)
    | _ :: _ => Err EAssert
    end.

  (* instances on top of the stack, returned in left-to-right order *)
  Fixpoint take_insts (st : list item) (acc : list ty) : list ty * list item :=
    match st with
    | IInst t :: r => take_insts r (t :: acc)
    | _ => (acc, st)
    end.

  (* repaired `*` branch: if the instances on top of the stack are the
     parameters of an operator or alias that has not been applied yet
     (`F(A) * B`), apply it first; then proceed as before *)
  Definition star (st : list item) : res (list item) :=
    match take_insts st [] with
    | ((_ :: _) as args, IOp o :: r) =>
        if o =? Product then star_pinned st
        else match apply_op o args with
             | Ok t => Ok (IInst t :: IOp Product :: r)
             | Err e => Err e
             end
    | ((_ :: _) as args, IAlias k :: r) =>
        match apply_alias k args with
        | Ok t => Ok (IInst t :: IOp Product :: r)
        | Err e => Err e
        end
    | _ => star_pinned st
    end.

  Section Loop.
    Variable star_f : list item -> res (list item).

    (* one iteration of the token loop, lang.py:393-426 *)
    Definition step (st : list item) (tk : tok) : res (list item) :=
      match tk with
      | TkL => Ok (INone :: st)
      | TkR => bt st []
      | TkC => match bt st [] with Ok st' => Ok (INone :: st') | Err e => Err e end
      | TkStar => star_f st
      | TkId n => match resolve_tok n with Ok it => Ok (it :: st) | Err e => Err e end
      end.

    Fixpoint run (st : list item) (tks : list tok) : res (list item) :=
      match tks with
      | [] => Ok st
      | tk :: r => match step st tk with Ok st' => run st' r | Err e => Err e end
      end.

    (* lang.py:373, 434-439 *)
    Definition parse_tokens (tks : list tok) : res ty :=
      match run [INone] tks with
      | Ok st => match bt st [] with
                 | Ok [IInst t] => Ok t
                 | Ok _ => Err EParse
                 | Err e => Err e
                 end
      | Err e => Err e
      end.
  End Loop.

  Definition parse_type (s : list nat) : res ty := parse_tokens star (tokenize s).
  Definition parse_type_pinned (s : list nat) : res ty := parse_tokens star_pinned (tokenize s).
End Parser.

(* ------------------------------------------------------------------ *)
(* conditions on the names of a language under which type text is unambiguous:
   type and synonym names are pairwise distinct (Language.add), are plain
   identifiers for the tokenizer, and none is "_", "Top" or "Bottom" *)
Fixpoint nodupb (l : list name) : bool :=
  match l with
  | [] => true
  | x :: r => negb (existsb (name_eqb x) r) && nodupb r
  end.

Lemma nodupb_NoDup l : nodupb l = true -> NoDup l.
Proof.
  induction l as [|x r IH]; intros H; [constructor|].
  cbn [nodupb] in H. apply andb_true_iff in H as [H1 H2].
  constructor; [|auto]. apply negb_true_iff in H1. now apply existsb_name_notIn.
Qed.

Definition text_nameb (n : name) : bool :=
  plainb n && negb (name_eqb n n_us) && negb (name_eqb n n_Top) && negb (name_eqb n n_Bottom).

Definition lang_text_okb (L : lang) : bool :=
  nodupb (tsnames L) && forallb text_nameb (tsnames L).
