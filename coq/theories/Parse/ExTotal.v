(* C17 (parser part): the fixed expression/type parser never leaves through an
   undeclared exception, for ALL token lists (also ones `tokenize` cannot
   produce) and whatever the type checker answers.  Termination is by
   construction: [run] and [ty_run] are structurally recursive on the tokens. *)
From Coq Require Import List Arith Bool Lia NArith ZArith.
Import ListNotations.
From TF Require Import Parse.ExTok Parse.ExParser.

Definition no_crash {A} (o : outcome A) : Prop :=
  match o with Crash _ => False | _ => True end.

Lemma no_crash_neq {A} (o : outcome A) : no_crash o -> forall s, o <> Crash s.
Proof. intros H s ->. exact H. Qed.

Lemma no_crash_bind {A B} (x : outcome A) (f : A -> outcome B) :
  no_crash x -> (forall a, x = Ok a -> no_crash (f a)) -> no_crash (bind x f).
Proof. destruct x; cbn; auto. Qed.

Lemma mk_tapp_no_crash c args : no_crash (mk_tapp c args).
Proof. unfold mk_tapp. now destruct (Nat.eqb _ _). Qed.

Lemma backtrack_no_crash s : forall args, no_crash (backtrack s args).
Proof.
  induction s as [|x r IH]; intros args; cbn [backtrack]; [exact I|].
  destruct x as [|t|c].
  - destruct args as [|a [|b l]]; exact I.
  - apply IH.
  - pose proof (mk_tapp_no_crash c args) as H. destruct (mk_tapp c args); [apply IH | exact I | exact H].
Qed.

Lemma ty_final_no_crash s : no_crash (ty_final s).
Proof.
  unfold ty_final. apply no_crash_bind; [apply backtrack_no_crash|].
  intros [|[|t|c] [|y l]] _; exact I.
Qed.

(* ------------------------------------------------------------------ *)
(* shape of a successful backtrack: it removes everything down to and
   including the topmost None and leaves one instance *)

Fixpoint count_none (l : list titem) : nat :=
  match l with [] => 0 | TNone :: r => S (count_none r) | _ :: r => count_none r end.

Lemma count_none_app a b : count_none (a ++ b) = count_none a + count_none b.
Proof. induction a as [|[|t|c] a IH]; cbn [app count_none]; lia. Qed.

Lemma backtrack_shape s : forall args s', backtrack s args = Ok s' ->
  exists pre post a, s = pre ++ TNone :: post /\ count_none pre = 0 /\ s' = TInst a :: post.
Proof.
  induction s as [|x r IH]; intros args s' H; cbn [backtrack] in H; [discriminate|].
  destruct x as [|t|c].
  - destruct args as [|a [|b l]]; try discriminate. injection H as <-.
    exists [], r, a. auto.
  - apply IH in H as (pre & post & a & -> & Hc & ->).
    exists (TInst t :: pre), post, a. auto.
  - destruct (mk_tapp c args) as [t| |]; try discriminate.
    apply IH in H as (pre & post & a & -> & Hc & ->).
    exists (TCon c :: pre), post, a. auto.
Qed.

Lemma backtrack_nonempty s args s' : backtrack s args = Ok s' -> s' <> [].
Proof. intros H. apply backtrack_shape in H as (? & ? & ? & _ & _ & ->). discriminate. Qed.

(* splitting  pre ++ None :: post = up ++ [None]  *)
Lemma split_bottom (pre post up : list titem) :
  pre ++ TNone :: post = up ++ [TNone] ->
  (post = [] /\ pre = up) \/ (exists post', post = post' ++ [TNone] /\ up = pre ++ TNone :: post').
Proof.
  intros E. destruct post as [|z post] using rev_ind.
  - left. split; [reflexivity|]. now apply app_inj_tail in E as [E _].
  - right. clear IHpost. exists post.
    change (pre ++ TNone :: post ++ [z]) with (pre ++ (TNone :: post) ++ [z]) in E.
    rewrite app_assoc in E. apply app_inj_tail in E as [E ->]. auto.
Qed.

(* ------------------------------------------------------------------ *)
(* the type parser reading parse_expr's tokens: invariant of the states in
   which the loop continues.  [up] is the stack above the bottom None. *)

Definition second_ok (up : list titem) (lvl : Z) : Prop :=
  up = [] \/
  exists more x, up = more ++ [x] /\
    (x = TNone \/ exists c, x = TCon c /\ snd c <> 0 /\ (more = [] \/ lvl <> 0%Z)).

Definition TInv (ts : list titem) (lvl : Z) : Prop :=
  exists up, ts = up ++ [TNone] /\ lvl = Z.of_nat (count_none up) /\ second_ok up lvl.

Lemma TInv_init : TInv [TNone] 0.
Proof. exists []. repeat split. now left. Qed.

(* what the break test sees *)
Lemma brk_two up x lvl :
  brk (up ++ [x; TNone]) lvl =
  Ok (match x with
      | TInst _ => true
      | TCon _ => Z.eqb lvl 0 && Nat.ltb 2 (length (up ++ [x; TNone]))
      | TNone => false
      end).
Proof. unfold brk. rewrite rev_app_distr. reflexivity. Qed.

(* pushing one item on a continuing state: no crash, and if the loop goes on
   the invariant holds again *)
Lemma push_step ts lvl y : TInv ts lvl ->
  (y = TNone -> False) -> (forall c, y = TCon c -> snd c <> 0) ->
  exists b, brk (y :: ts) lvl = Ok b /\ (b = false -> TInv (y :: ts) lvl).
Proof.
  intros (up & -> & Hl & Hs) HyN HyC.
  destruct Hs as [-> | (more & x & -> & Hx)].
  - (* stack was [None]: y becomes stack[1] *)
    cbn [app]. change [y; TNone] with ([] ++ [y; TNone]). rewrite brk_two.
    eexists. split; [reflexivity|]. intros Hb.
    exists [y]. cbn [app]. split; [reflexivity|]. split.
    + destruct y; cbn in *; try congruence; tauto.
    + right. exists [], y. split; [reflexivity|]. destruct y as [|t|c]; try tauto; try discriminate.
      right. exists c. split; [reflexivity|]. split; [now apply HyC | now left].
  - rewrite <- app_assoc. cbn [app].
    change (y :: more ++ [x; TNone]) with ((y :: more) ++ [x; TNone]). rewrite brk_two.
    eexists. split; [reflexivity|]. intros Hb.
    exists ((y :: more) ++ [x]). split; [now rewrite <- app_assoc|]. split.
    + rewrite Hl. f_equal. cbn [app]. destruct y; cbn [count_none]; try reflexivity. tauto.
    + right. exists (y :: more), x. split; [reflexivity|].
      destruct Hx as [-> | (c & -> & Hc & Hm)]; [now left|].
      right. exists c. split; [reflexivity|]. split; [assumption|]. right.
      (* loop continues with a constructor at stack[1] and length > 2: level is not 0 *)
      destruct (Z.eqb lvl 0) eqn:E; [|now apply Z.eqb_neq in E].
      exfalso. cbn [andb] in Hb. rewrite app_length in Hb. cbn [length] in Hb.
      apply Nat.ltb_ge in Hb. lia.
Qed.

Lemma open_step ts lvl : TInv ts lvl ->
  exists b, brk (TNone :: ts) (lvl + 1) = Ok b /\ (b = false -> TInv (TNone :: ts) (lvl + 1)).
Proof.
  intros (up & -> & Hl & Hs).
  destruct Hs as [-> | (more & x & -> & Hx)].
  - cbn [app]. change [TNone; TNone] with ([] ++ [TNone; TNone]). rewrite brk_two.
    eexists. split; [reflexivity|]. intros _.
    exists [TNone]. split; [reflexivity|]. split; [cbn in *; lia|].
    right. exists [], TNone. auto.
  - rewrite <- app_assoc. cbn [app].
    change (TNone :: more ++ [x; TNone]) with ((TNone :: more) ++ [x; TNone]). rewrite brk_two.
    eexists. split; [reflexivity|]. intros Hb.
    exists ((TNone :: more) ++ [x]). split; [now rewrite <- app_assoc|]. split.
    + rewrite Hl. cbn [app count_none]. lia.
    + right. exists (TNone :: more), x. split; [reflexivity|].
      destruct Hx as [-> | (c & -> & Hc & Hm)]; [now left|].
      right. exists c. split; [reflexivity|]. split; [assumption|]. right. rewrite Hl. lia.
Qed.

(* `)` and `,` *)
Lemma close_step_ty ts lvl ts' (comma : bool) : TInv ts lvl -> backtrack ts [] = Ok ts' ->
  let st := if comma then (TNone :: ts', lvl) else (ts', (lvl - 1)%Z) in
  exists b, brk (fst st) (snd st) = Ok b /\ (b = false -> TInv (fst st) (snd st)).
Proof.
  intros (up & -> & Hl & Hs) Hb.
  pose proof Hb as Hb0.
  apply backtrack_shape in Hb as (pre & post & a & E & Hc & ->).
  symmetry in E. apply split_bottom in E as [[-> ->] | (post' & -> & ->)].
  - (* the bottom None would be consumed: then the backtrack cannot have succeeded *)
    exfalso. destruct Hs as [-> | (more & x & -> & Hx)].
    + cbn in Hb0. discriminate.
    + rewrite count_none_app in Hc. cbn [count_none] in Hc.
      destruct Hx as [-> | (c & -> & Hn & Hm)]; [cbn in Hc; lia|].
      cbn [count_none] in Hc. assert (lvl = 0%Z) by (rewrite Hl, count_none_app; cbn [count_none]; lia).
      destruct Hm as [-> | Hm]; [|congruence].
      cbn [app backtrack] in Hb0. unfold mk_tapp in Hb0. cbn [length] in Hb0.
      destruct (snd c); [congruence|]. cbn in Hb0. discriminate.
  - rewrite count_none_app in Hl. cbn [count_none] in Hl. rewrite Hc in Hl. cbn [Nat.add] in Hl.
    (* new stack above the bottom: TInst a :: post' *)
    destruct post' as [|z post'] using rev_ind.
    + (* the consumed None was stack[1]: an instance is there now, the loop breaks *)
      destruct comma; cbn [fst snd app].
      * change [TNone; TInst a; TNone] with ([TNone] ++ [TInst a; TNone]). rewrite brk_two.
        eexists. split; [reflexivity|]. discriminate.
      * change [TInst a; TNone] with ([] ++ [TInst a; TNone]). rewrite brk_two.
        eexists. split; [reflexivity|]. discriminate.
    + clear IHpost'.
      (* x = z stays at stack[1] *)
      assert (Hx : z = TNone \/ exists c, z = TCon c /\ snd c <> 0).
      { destruct Hs as [Hs | (more & x & Hs & Hx)].
        - exfalso. now destruct pre.
        - change (pre ++ TNone :: post' ++ [z]) with (pre ++ (TNone :: post') ++ [z]) in Hs.
          rewrite app_assoc in Hs. apply app_inj_tail in Hs as [_ ->].
          destruct Hx as [-> | (c & -> & Hn & _)]; [now left | right; eauto]. }
      rewrite count_none_app in Hl.
      destruct comma; cbn [fst snd].
      * replace (TNone :: TInst a :: (post' ++ [z]) ++ [TNone])
          with ((TNone :: TInst a :: post') ++ [z; TNone]) by (cbn [app]; now rewrite <- !app_assoc).
        rewrite brk_two. eexists. split; [reflexivity|]. intros Hbk.
        exists ((TNone :: TInst a :: post') ++ [z]). split; [now rewrite <- app_assoc|]. split.
        -- rewrite Hl, count_none_app. cbn [app count_none]. lia.
        -- right. exists (TNone :: TInst a :: post'), z. split; [reflexivity|].
           destruct Hx as [-> | (c & -> & Hn)]; [now left|].
           right. exists c. split; [reflexivity|]. split; [assumption|]. right.
           destruct (Z.eqb lvl 0) eqn:E; [|now apply Z.eqb_neq in E].
           exfalso. cbn [andb] in Hbk. rewrite app_length in Hbk. cbn [length] in Hbk.
           apply Nat.ltb_ge in Hbk. lia.
      * replace (TInst a :: (post' ++ [z]) ++ [TNone])
          with ((TInst a :: post') ++ [z; TNone]) by (cbn [app]; now rewrite <- !app_assoc).
        rewrite brk_two. eexists. split; [reflexivity|]. intros Hbk.
        exists ((TInst a :: post') ++ [z]). split; [now rewrite <- app_assoc|]. split.
        -- rewrite Hl, count_none_app. cbn [app count_none]. lia.
        -- right. exists (TInst a :: post'), z. split; [reflexivity|].
           destruct Hx as [-> | (c & -> & Hn)]; [now left|].
           right. exists c. split; [reflexivity|]. split; [assumption|]. right.
           destruct (Z.eqb (lvl - 1) 0) eqn:E; [|now apply Z.eqb_neq in E].
           exfalso. cbn [andb] in Hbk. rewrite app_length in Hbk. cbn [length] in Hbk.
           apply Nat.ltb_ge in Hbk. lia.
Qed.

(* `*` *)
Lemma star_step ts lvl t1 r : TInv ts lvl -> ts = TInst t1 :: r ->
  exists b, brk (TInst t1 :: TCon c_product :: r) lvl = Ok b /\
            (b = false -> TInv (TInst t1 :: TCon c_product :: r) lvl).
Proof.
  intros (up & E & Hl & Hs) ->.
  destruct Hs as [-> | (more & x & -> & Hx)]; [discriminate|].
  destruct more as [|m more].
  - (* the instance would be stack[1]: impossible in a continuing state *)
    cbn [app] in E. injection E as E1 _. exfalso.
    destruct Hx as [F | (c & F & _)]; congruence.
  - cbn [app] in E. injection E as <- ->.
    rewrite <- app_assoc. cbn [app].
    change (TInst t1 :: TCon c_product :: more ++ [x; TNone])
      with ((TInst t1 :: TCon c_product :: more) ++ [x; TNone]).
    rewrite brk_two. eexists. split; [reflexivity|]. intros Hbk.
    exists ((TInst t1 :: TCon c_product :: more) ++ [x]). split; [now rewrite <- app_assoc|]. split.
    + rewrite Hl. reflexivity.
    + right. exists (TInst t1 :: TCon c_product :: more), x. split; [reflexivity|].
      destruct Hx as [-> | (c & -> & Hn & Hm)]; [now left|].
      right. exists c. split; [reflexivity|]. split; [assumption|]. right.
      destruct Hm as [F | Hm]; [discriminate | assumption].
Qed.

(* the `*` branch's look below the instances on top of the stack *)
Lemma split_insts_spec s : forall acc, exists I rest,
  split_insts s acc = (rev I ++ acc, rest) /\ s = map TInst I ++ rest /\
  (forall t r, rest <> TInst t :: r).
Proof.
  induction s as [|x s IH]; intros acc.
  - exists [], []. repeat split. discriminate.
  - destruct x as [|t|c].
    + exists [], (TNone :: s). repeat split. discriminate.
    + destruct (IH (t :: acc)) as (I & rest & E & -> & Hr). exists (t :: I), rest.
      cbn [split_insts rev map app]. rewrite E, <- app_assoc. repeat split. exact Hr.
    + exists [], (TCon c :: s). repeat split. discriminate.
Qed.

Lemma star_collapse_cases s : 
  match star_collapse s with
  | Ok s1 => s1 = s \/ exists I c r t, I <> [] /\ s = map TInst I ++ TCon c :: r /\ s1 = TInst t :: r
  | Err _ => True
  | Crash _ => False
  end.
Proof.
  unfold star_collapse. destruct (split_insts_spec s []) as (Is & rest & E & Hs & _).
  rewrite E, app_nil_r.
  destruct rest as [|[|t|c] r]; try (now left).
  remember (rev Is) as args eqn:ER.
  destruct args as [|a l]; [now left|].
  destruct (Nat.eqb (fst c) (fst c_product)); [now left|].
  pose proof (mk_tapp_no_crash c (a :: l)) as NC.
  destruct (mk_tapp c (a :: l)) as [t| |]; cbn [bind].
  - right. exists Is, c, r, t. split; [|split; [assumption | reflexivity]].
    intros ->. discriminate.
  - exact I.
  - exact NC.
Qed.

Lemma count_none_insts I : count_none (map TInst I) = 0.
Proof. induction I; cbn; auto. Qed.

Lemma TInv_collapse I c r t lvl : I <> [] ->
  TInv (map TInst I ++ TCon c :: r) lvl -> TInv (TInst t :: r) lvl.
Proof.
  intros HI (up & E & Hl & Hs).
  (* the bottom None lies in r *)
  destruct r as [|z r'] using rev_ind.
  { exfalso. change (map TInst I ++ [TCon c]) with (map TInst I ++ [TCon c]) in E.
    apply app_inj_tail in E as [_ F]. discriminate. }
  clear IHr'.
  change (map TInst I ++ TCon c :: r' ++ [z]) with (map TInst I ++ (TCon c :: r') ++ [z]) in E.
  rewrite app_assoc in E. apply app_inj_tail in E as [<- ->].
  destruct Hs as [F | (more & x & Hm & Hx)].
  { exfalso. destruct I; [congruence | discriminate]. }
  destruct r' as [|y r''] using rev_ind.
  - (* the operator would be stack[1] with instances above it at level 0 *)
    exfalso. apply app_inj_tail in Hm as [<- <-].
    rewrite count_none_app, count_none_insts in Hl. cbn in Hl.
    destruct Hx as [F | (c' & _ & _ & [F | F])]; [discriminate | | congruence].
    destruct I; [congruence | discriminate].
  - clear IHr''.
    change (map TInst I ++ TCon c :: r'' ++ [y]) with (map TInst I ++ (TCon c :: r'') ++ [y]) in Hm.
    rewrite app_assoc in Hm. apply app_inj_tail in Hm as [<- <-].
    exists (TInst t :: r'' ++ [y]). split; [cbn [app]; now rewrite <- app_assoc|]. split.
    + rewrite Hl, !count_none_app, count_none_insts. cbn [count_none app]. rewrite count_none_app. lia.
    + right. exists (TInst t :: r''), y. split; [reflexivity|].
      destruct Hx as [-> | (c' & -> & Hn & Hm)]; [now left|].
      right. exists c'. split; [reflexivity|]. split; [assumption|]. right.
      destruct Hm as [F | Hm]; [|assumption]. exfalso. destruct I; [congruence | discriminate].
Qed.

Section Total.
  Variable lookup_op : str -> option nat.
  Variable lookup_ty : str -> option (nat * nat).
  Variable decval : N -> option nat.
  Variable St : Type.
  Variable step : St -> event -> St + perr.
  Variable ninputs : nat.

  Notation pst := (pst St).
  Notation ty_tok := (ty_tok lookup_ty).
  Notation step_tok := (step_tok lookup_op lookup_ty decval St step ninputs).
  Notation run := (run lookup_op lookup_ty decval St step ninputs).

  (* one token of the type parser in stream mode *)
  Lemma ty_tok_stream ts lvl t : TInv ts lvl ->
    match ty_tok (ts, lvl) t with
    | Ok st => exists b, brk (fst st) (snd st) = Ok b /\ (b = false -> TInv (fst st) (snd st))
    | Err _ => True
    | Crash _ => False
    end.
  Proof.
    intros HI. unfold ExParser.ty_tok.
    destruct (str_eqb t s_lp); [now apply open_step|].
    destruct (sub_of t s_rc).
    { pose proof (backtrack_no_crash ts []) as NC.
      destruct (backtrack ts []) as [ts'| |] eqn:Hb; cbn [bind]; [|exact I|exact NC].
      destruct (str_eqb t s_rp).
      - exact (close_step_ty ts lvl ts' false HI Hb).
      - exact (close_step_ty ts lvl ts' true HI Hb). }
    destruct (str_eqb t s_us).
    { unfold ty_push. cbn [fst snd]. apply push_step; [assumption|discriminate|discriminate]. }
    destruct (str_eqb t s_star).
    { pose proof (star_collapse_cases ts) as HC.
      destruct (star_collapse ts) as [s1| |]; cbn [bind]; [|exact I|exact HC].
      assert (HI1 : TInv s1 lvl).
      { destruct HC as [-> | (I0 & c & r & t0 & Hne & -> & ->)]; [assumption|].
        eapply TInv_collapse; eauto. }
      destruct s1 as [|[|t1|c] r] eqn:E; try exact I.
      - destruct HI1 as (up & F & _). now destruct up.
      - cbn [fst snd]. now apply (star_step (TInst t1 :: r) lvl t1 r). }
    destruct (str_eqb t s_Top).
    { unfold ty_push. cbn [fst snd]. apply push_step; [assumption|discriminate|discriminate]. }
    destruct (str_eqb t s_Bottom).
    { unfold ty_push. cbn [fst snd]. apply push_step; [assumption|discriminate|discriminate]. }
    destruct (lookup_ty t) as [c|]; [|exact I].
    unfold ty_push. cbn [fst snd]. apply push_step; [assumption| |].
    - destruct (Nat.eqb (snd c) 0); discriminate.
    - intros c' E. destruct (Nat.eqb (snd c) 0) eqn:E0; [discriminate|].
      injection E as <-. now apply Nat.eqb_neq in E0.
  Qed.

  (* ----- parse_expr ----- *)
  Definition Inv (p : pst) : Prop :=
    stk St p <> [] /\ match md St p with MExpr => True | MType _ ts lvl => TInv ts lvl end.

  Lemma emit_ok p e p' : emit St step p e = Ok p' ->
    stk St p' = stk St p /\ md St p' = md St p.
  Proof. unfold emit. destruct (step _ _); [intros [= <-]; auto | discriminate]. Qed.

  Lemma emit_no_crash p e : no_crash (emit St step p e).
  Proof. unfold emit. now destruct (step _ _). Qed.

  Lemma mk_app_ok p f x v p' : mk_app St step p f x = Ok (v, p') ->
    stk St p' = stk St p /\ md St p' = md St p.
  Proof.
    unfold mk_app. destruct (emit St step (fresh St p) _) as [q| |] eqn:E; cbn [bind]; try discriminate.
    intros [= _ <-]. apply emit_ok in E. exact E.
  Qed.

  Lemma mk_app_no_crash p f x : no_crash (mk_app St step p f x).
  Proof.
    unfold mk_app. pose proof (emit_no_crash (fresh St p) (EvApp (VApp (ctr St p) f x))) as H.
    destruct (emit _ _ _ _); cbn [bind]; cbn; auto.
  Qed.

  Lemma annotate_ok p prev t p' : annotate St step p prev t = Ok p' ->
    stk St p' = stk St p /\ md St p' = md St p.
  Proof. unfold annotate. destruct (is_untyped _ _); intros H; apply emit_ok in H; exact H. Qed.

  Lemma annotate_no_crash p prev t : no_crash (annotate St step p prev t).
  Proof. unfold annotate. destruct (is_untyped _ _); apply emit_no_crash. Qed.

  Lemma ty_done_spec p prev ts : stk St p <> [] ->
    match ty_done St step p prev ts with
    | Ok p' => Inv p'
    | Err _ => True
    | Crash _ => False
    end.
  Proof.
    intros Hs. unfold ty_done.
    pose proof (ty_final_no_crash ts) as NC.
    destruct (ty_final ts) as [t| |]; cbn [bind]; [|exact I|exact NC].
    pose proof (annotate_no_crash (set_md St p MExpr) prev t) as NC2.
    destruct (annotate St step (set_md St p MExpr) prev t) as [p'| |] eqn:E; [|exact I|exact NC2].
    apply annotate_ok in E as [E1 E2]. unfold Inv. rewrite E1, E2. cbn. auto.
  Qed.

  Lemma close_step_spec p : stk St p <> [] -> md St p = MExpr ->
    match close_step St step p with
    | Ok p' => md St p' = MExpr
    | Err _ => True
    | Crash _ => False
    end.
  Proof.
    intros Hs Hm. unfold close_step.
    destruct (stk St p) as [|[y|] [|[x|] r]] eqn:E; try exact I; try (cbn; assumption).
    pose proof (mk_app_no_crash (set_stk St p r) x y) as NC.
    destruct (mk_app St step (set_stk St p r) x y) as [[v p']| |] eqn:Ea; cbn [bind]; [|exact I|exact NC].
    apply mk_app_ok in Ea as [_ Ea]. cbn [push set_stk md snd fst] in *. now rewrite Ea.
  Qed.

  Lemma ex_tok_spec p t : Inv p -> md St p = MExpr ->
    match ex_tok lookup_op decval St step ninputs p t with
    | Ok p' => Inv p'
    | Err _ => True
    | Crash _ => False
    end.
  Proof.
    intros [Hs _] Hm. unfold ex_tok.
    destruct (sub_of t s_lcr).
    { (* brackets and commas *)
      unfold paren_step.
      assert (C : match (if sub_of t s_rc then close_step St step p else Ok p) with
                  | Ok p1 => md St p1 = MExpr /\ (sub_of t s_rc = false -> stk St p1 <> [])
                  | Err _ => True | Crash _ => False end).
      { destruct (sub_of t s_rc).
        - pose proof (close_step_spec p Hs Hm) as H.
          destruct (close_step St step p); auto. split; [assumption | discriminate].
        - auto. }
      destruct (if sub_of t s_rc then close_step St step p else Ok p) as [p1| |]; cbn [bind]; auto.
      destruct C as [Hm1 _].
      destruct (sub_of t s_lc).
      - unfold Inv. cbn. rewrite Hm1. split; [discriminate | exact I].
      - destruct (stk St p1) eqn:E; [exact I|]. unfold Inv. rewrite E, Hm1. split; [discriminate | exact I]. }
    destruct (str_eqb t s_colon).
    { unfold colon_step. destruct (stk St p) as [|[v|] r] eqn:E; [congruence| |exact I].
      unfold Inv. cbn. rewrite E. split; [discriminate | apply TInv_init]. }
    destruct (str_eqb t s_semi).
    { unfold Inv. cbn. rewrite Hm. split; [discriminate | exact I]. }
    (* atoms *)
    unfold atom_step.
    assert (A : match atom_value lookup_op decval St step ninputs p t with
                | Ok (cur, p1) => stk St p1 = stk St p /\ md St p1 = MExpr
                | Err _ => True | Crash _ => False end).
    { unfold atom_value. destruct (str_eqb t s_dash).
      - match goal with |- context [emit St step ?q ?e] =>
          pose proof (emit_no_crash q e) as NC; destruct (emit St step q e) as [q'| |] eqn:Ee end;
          cbn [bind]; [|exact I|exact NC].
        apply emit_ok in Ee as [E1 E2]. cbn in E1, E2. rewrite E1, E2. auto.
      - destruct (tok_num decval t) as [n|].
        + destruct (input_ref ninputs n); [auto | exact I].
        + destruct (lookup_op t) as [o|]; [|exact I].
          match goal with |- context [emit St step ?q ?e] =>
            pose proof (emit_no_crash q e) as NC; destruct (emit St step q e) as [q'| |] eqn:Ee end;
            cbn [bind]; [|exact I|exact NC].
          apply emit_ok in Ee as [E1 E2]. cbn in E1, E2. rewrite E1, E2. auto. }
    destruct (atom_value lookup_op decval St step ninputs p t) as [[cur p1]| |]; cbn [bind]; auto.
    destruct A as [E1 E2]. rewrite E1.
    destruct (stk St p) as [|[f|] r] eqn:E; [congruence| |].
    - pose proof (mk_app_no_crash (set_stk St p1 r) f cur) as NC.
      destruct (mk_app St step (set_stk St p1 r) f cur) as [[v p2]| |] eqn:Ea; cbn [bind]; [|exact I|exact NC].
      apply mk_app_ok in Ea as [_ Ea]. unfold Inv. cbn in *. rewrite Ea, E2. split; [discriminate | exact I].
    - unfold Inv. cbn. rewrite E2. split; [discriminate | exact I].
  Qed.

  Lemma step_tok_spec p t : Inv p ->
    match step_tok p t with
    | Ok p' => Inv p'
    | Err _ => True
    | Crash _ => False
    end.
  Proof.
    intros HI. unfold ExParser.step_tok. destruct (md St p) as [|prev ts lvl] eqn:Hm.
    - now apply ex_tok_spec.
    - destruct HI as [Hs HT]. rewrite Hm in HT.
      pose proof (ty_tok_stream ts lvl t HT) as H.
      destruct (ty_tok (ts, lvl) t) as [[ts' lvl']| |]; cbn [bind]; auto.
      cbn [fst snd] in *. destruct H as (b & -> & Hb). cbn [bind].
      destruct b.
      + now apply ty_done_spec.
      + unfold Inv. cbn. split; [assumption | now apply Hb].
  Qed.

  Lemma finish_expr_no_crash p : no_crash (finish_expr St p).
  Proof. unfold finish_expr. destruct (stk St p) as [|[v|] [|y l]]; exact I. Qed.

  Theorem run_no_crash toks : forall p, Inv p -> no_crash (run toks p).
  Proof.
    induction toks as [|t r IH]; intros p HI; cbn [ExParser.run].
    - unfold finish. destruct (md St p) as [|prev ts lvl]; [apply finish_expr_no_crash|].
      pose proof (ty_done_spec p prev ts (proj1 HI)) as H.
      destruct (ty_done St step p prev ts); cbn [bind]; auto. apply finish_expr_no_crash.
    - destruct t as [|c t'].
      + destruct (md St p) as [|prev ts lvl]; [apply finish_expr_no_crash|].
        pose proof (ty_done_spec p prev ts (proj1 HI)) as H.
        destruct (ty_done St step p prev ts); cbn [bind]; auto.
      + pose proof (step_tok_spec p (c :: t') HI) as H.
        destruct (step_tok p (c :: t')); cbn [bind]; auto.
  Qed.

  Lemma Inv_init n0 s0 : Inv (init St n0 s0).
  Proof. split; [discriminate | exact I]. Qed.

  Theorem parse_toks_total toks n0 s0 :
    no_crash (parse_toks lookup_op lookup_ty decval St step ninputs toks n0 s0).
  Proof. apply run_no_crash, Inv_init. Qed.

  Theorem parse_str_total s n0 s0 :
    no_crash (parse_str lookup_op lookup_ty decval St step ninputs s n0 s0).
  Proof. apply parse_toks_total. Qed.

  (* ----- parse_type on a string ----- *)
  Lemma ty_tok_nonempty ts lvl t : ts <> [] ->
    match ty_tok (ts, lvl) t with
    | Ok st => fst st <> []
    | Err _ => True
    | Crash _ => False
    end.
  Proof.
    intros Hn. unfold ExParser.ty_tok.
    destruct (str_eqb t s_lp); [discriminate|].
    destruct (sub_of t s_rc).
    { pose proof (backtrack_no_crash ts []) as NC.
      destruct (backtrack ts []) as [ts'| |] eqn:Hb; cbn [bind]; [|exact I|exact NC].
      apply backtrack_nonempty in Hb. destruct (str_eqb t s_rp); cbn; [assumption | discriminate]. }
    destruct (str_eqb t s_us); [discriminate|].
    destruct (str_eqb t s_star).
    { pose proof (star_collapse_cases ts) as HC.
      destruct (star_collapse ts) as [s1| |]; cbn [bind]; [|exact I|exact HC].
      assert (s1 <> []) by (destruct HC as [-> | (I0 & c & r & t0 & _ & _ & ->)]; [assumption | discriminate]).
      destruct s1 as [|[|t1|c] r]; [congruence|exact I|discriminate|exact I]. }
    destruct (str_eqb t s_Top); [discriminate|].
    destruct (str_eqb t s_Bottom); [discriminate|].
    destruct (lookup_ty t); [discriminate | exact I].
  Qed.

  Lemma ty_run_total toks : forall ts lvl, ts <> [] ->
    no_crash (ty_run lookup_ty toks (ts, lvl)).
  Proof.
    induction toks as [|t r IH]; intros ts lvl Hn; cbn [ty_run]; [exact I|].
    destruct t as [|c t']; [exact I|].
    pose proof (ty_tok_nonempty ts lvl (c :: t') Hn) as H.
    destruct (ty_tok (ts, lvl) (c :: t')) as [[ts' lvl']| |]; cbn [bind]; auto.
  Qed.

  Theorem parse_type_toks_total toks : no_crash (parse_type_toks lookup_ty toks).
  Proof.
    unfold parse_type_toks. apply no_crash_bind.
    - apply ty_run_total. discriminate.
    - intros st _. apply ty_final_no_crash.
  Qed.

  Theorem parse_type_str_total s : no_crash (parse_type_str lookup_ty s).
  Proof. apply parse_type_toks_total. Qed.

  (* the same, spelled out *)
  Theorem parse_toks_never_crashes toks n0 s0 s :
    parse_toks lookup_op lookup_ty decval St step ninputs toks n0 s0 <> Crash s.
  Proof. apply no_crash_neq, parse_toks_total. Qed.

  Theorem parse_str_never_crashes str n0 s0 s :
    parse_str lookup_op lookup_ty decval St step ninputs str n0 s0 <> Crash s.
  Proof. apply no_crash_neq, parse_str_total. Qed.

  Theorem parse_type_toks_never_crashes toks s : parse_type_toks lookup_ty toks <> Crash s.
  Proof. apply no_crash_neq, parse_type_toks_total. Qed.

  Theorem parse_type_str_never_crashes str s : parse_type_str lookup_ty str <> Crash s.
  Proof. apply no_crash_neq, parse_type_str_total. Qed.
End Total.
