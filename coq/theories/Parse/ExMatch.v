(* C13: Expr.match (transforge/expr.py lines 285-308, strict=True) on
   expressions without abstractions: sources carry a concrete type or the
   untouched wildcard variable of Source().  Source types are compared with
   TypeInstance.match (Sub/Match.v, subtype=False). *)
From Coq Require Import List Arith Bool Lia.
Import ListNotations.
From TF Require Import Base.Hier Base.Ty Sub.Match Sub.SubSpec Sub.SubProofs.

(* None = the wildcard variable `_` a fresh Source() has *)
Inductive mx := MSrc (t : option ty) | MOp (o : nat) | MApp (f x : mx).

(* a.type.match(b.type) is True   (lines 298-300 with strict=True; type.py
   496-554: two wildcard variables match, a variable and an operation give
   None when accept_wildcard is off) *)
Definition src_match (H : hier) (s t : option ty) : bool :=
  match s, t with
  | Some a, Some b => match match3 H false a b with Some true => true | _ => false end
  | None, None => true
  | _, _ => false
  end.

Fixpoint ematch (H : hier) (a b : mx) : bool :=
  match a, b with
  | MSrc s, MSrc t => src_match H s t
  | MOp o, MOp o' => Nat.eqb o o'                       (* a.operator == b.operator *)
  | MApp f x, MApp g y => ematch H f g && ematch H x y
  | _, _ => false                                       (* `a == b` on two different objects *)
  end.

Fixpoint wf_mx (H : hier) (a : mx) : Prop :=
  match a with
  | MSrc (Some t) => wf_ty H t
  | MSrc None => True
  | MOp _ => True
  | MApp f x => wf_mx H f /\ wf_mx H x
  end.

(* same shape, same operators, equal source types *)
Inductive Same : mx -> mx -> Prop :=
| Same_src t : Same (MSrc t) (MSrc t)
| Same_op o : Same (MOp o) (MOp o)
| Same_app f g x y : Same f g -> Same x y -> Same (MApp f x) (MApp g y).

Lemma Same_eq a b : Same a b <-> a = b.
Proof.
  split.
  - induction 1; congruence.
  - intros <-. induction a; constructor; auto.
Qed.

Theorem ematch_exact H a : wf_mx H a -> forall b, wf_mx H b ->
  (ematch H a b = true <-> Same a b).
Proof.
  induction a as [s|o|f IHf x IHx]; intros Wa b Wb; destruct b as [t|o'|g y]; cbn [ematch];
    try (split; [discriminate | intros F; inversion F]).
  - destruct s as [s|], t as [t|]; cbn [src_match wf_mx] in *;
      try (split; [discriminate | intros F; inversion F]).
    + unfold match3. destruct (m_eq_decides H s Wa true t Wb) as [[E P]|[E P]]; rewrite E.
      * subst. split; [constructor | reflexivity].
      * split; [discriminate | intros F; inversion F; congruence].
    + split; [constructor | reflexivity].
  - rewrite Nat.eqb_eq. split; [intros ->; constructor | intros F; now inversion F].
  - cbn [wf_mx] in Wa, Wb. destruct Wa as [Wf Wx], Wb as [Wg Wy].
    rewrite andb_true_iff, (IHf Wf g Wg), (IHx Wx y Wy).
    split; [intros [A B]; now constructor | intros F; now inversion F].
Qed.

Corollary ematch_refl H a : wf_mx H a -> ematch H a a = true.
Proof. intros W. apply (ematch_exact H a W a W), Same_eq. reflexivity. Qed.

Corollary ematch_sym H a b : wf_mx H a -> wf_mx H b -> ematch H a b = ematch H b a.
Proof.
  intros Wa Wb. destruct (ematch H a b) eqn:E1, (ematch H b a) eqn:E2; auto.
  - apply (ematch_exact H a Wa b Wb), Same_eq in E1. subst. now rewrite ematch_refl in E2.
  - apply (ematch_exact H b Wb a Wa), Same_eq in E2. subst. now rewrite ematch_refl in E1.
Qed.
