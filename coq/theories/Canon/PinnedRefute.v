(* The pinned Language.successors (one-level look-through) does not generate
   the subtype order: machine-checked witnesses, replayed on the
   implementation by harness/c10.py (FIXED[0], FIXED[1]). *)
From Coq Require Import List Arith Bool Lia.
Import ListNotations.
From TF Require Import Base.Hier Base.Ty Sub.Match Sub.SubSpec Sub.SubProofs.
From TF Require Import Canon.Worklist Canon.Succ Canon.Canon Canon.SuccProofs Canon.CanonProofs.

(* A(5) > B(6) > C(7), covariant unary F(8); canon = {Top, A, F(C)} *)
Definition pH1 : hier := mk_hier [(6, 5); (7, 6)] [(8, [true])].
Definition pOps1 : list nat := [5; 6; 7; 8].
Definition pListed1 : list ty := [TOp 5 []; TOp 8 [TOp 7 []]].

Lemma pH1_wf : wf_hier pH1.
Proof.
  split.
  - intros o p. cbn. repeat (destruct o as [|o]; try discriminate; cbn); intros [= <-]; auto with arith.
  - intros o p. cbn. repeat (destruct o as [|o]; try discriminate; cbn); intros [= <-]; cbn; repeat split; discriminate.
  - split; reflexivity.
  - split; reflexivity.
  - reflexivity.
Qed.

(* reachability through the pinned direct-subtype links *)
Definition preach H ops top bot c (t : ty) (fuel : nat) : option (list ty) :=
  wl ty_eqb (fun x seen => filter (fun s => negb (tmem s seen))
                             (lang_succ_pinned H ops top bot c DOWN x)) fuel [t] [].

Lemma preach_spec H ops top bot c t fuel r : preach H ops top bot c t fuel = Some r ->
  forall s, In s r <-> Clo (lang_succ_pinned H ops top bot c DOWN) [t] s.
Proof.
  intros E. unfold preach in E.
  apply (wl_correct ty_eqb ty_eqb_eq (lang_succ_pinned H ops top bot c DOWN)
           (fun x seen => filter (fun s => negb (tmem s seen))
                            (lang_succ_pinned H ops top bot c DOWN x))) with (fuel := fuel) (seen0 := []); auto.
  - intros x seen y Hy. apply filter_In in Hy. tauto.
  - intros x seen y Hy. destruct (tmem y seen) eqn:M; [right; now apply tmem_In|left].
    apply filter_In. rewrite M. auto.
  - intros x [].
Qed.

(* F(C) is a canonical strict subtype of the canonical Top, but no chain of
   reported direct-subtype links leads from Top to it *)
Theorem pinned_reach_refuted : exists H ops top bot listed c t s,
  wf_hier H /\ (forall o p, parent H o = Some p -> In o ops) /\
  Forall (wf_ty H) listed /\ Forall plain listed /\
  expand_canon H ops top bot 100 (rev listed) listed = Some c /\
  In t c /\ In s c /\ Sub H s t /\ s <> t /\
  ~ Clo (lang_succ_pinned H ops top bot c DOWN) [t] s.
Proof.
  exists pH1, pOps1, true, false, pListed1.
  destruct (expand_canon pH1 pOps1 true false 100 (rev pListed1) pListed1) as [c|] eqn:E;
    [|vm_compute in E; discriminate].
  exists c, tTop, (TOp 8 [TOp 7 []]).
  split; [exact pH1_wf|]. split.
  { intros o p. cbn. repeat (destruct o as [|o]; try discriminate; cbn); intros _; cbn; tauto. }
  split; [repeat constructor|]. split; [cbn; repeat constructor; discriminate|].
  split; [reflexivity|].
  vm_compute in E. injection E as <-.
  split; [cbn; tauto|]. split; [cbn; tauto|]. split; [constructor|]. split; [discriminate|].
  intros C.
  match type of C with Clo (lang_succ_pinned _ _ _ _ ?c _) _ _ =>
    destruct (preach pH1 pOps1 true false c tTop 100) as [r|] eqn:P;
      [|vm_compute in P; discriminate]
  end.
  apply (preach_spec _ _ _ _ _ _ _ _ P) in C.
  vm_compute in P. injection P as <-.
  cbn in C. repeat (destruct C as [C|C]; [discriminate|]). exact C.
Qed.

(* A(5) > B(6), contravariant unary K(7); canon = {Top, A, K(A)}: Top is
   reported as a direct supertype of K(A), K(A) is not reported as a direct
   subtype of Top *)
Definition pH2 : hier := mk_hier [(6, 5)] [(7, [false])].

Theorem pinned_mirror_refuted : exists H ops top bot c t s,
  In t c /\ In s c /\
  In t (lang_succ_pinned H ops top bot c UP s) /\
  ~ In s (lang_succ_pinned H ops top bot c DOWN t).
Proof.
  exists pH2, [5; 6; 7], true, false.
  exists [TOp 0 []; TOp 5 []; TOp 6 []; TOp 7 [TOp 5 []]; TOp 7 [TOp 0 []]].
  exists tTop, (TOp 7 [TOp 5 []]).
  split; [cbn; tauto|]. split; [cbn; tauto|]. split.
  - vm_compute. tauto.
  - vm_compute. intros C. repeat (destruct C as [C|C]; [discriminate|]). exact C.
Qed.
