(* Model of the canonical-type machinery:
   Language.expand_canon                      transforge/lang.py:108-130
   Language.successors/subtypes/supertypes    transforge/lang.py:132-166
   TransformationGraph.add_taxonomy & co.     transforge/graph.py:120-158
   [lang_succ] describes Language.successors as repaired by
   proposed_fixes/C10.diff; [lang_succ_pinned] is the pinned code (one-level
   look-through over TypeOperation.successors). *)
From Coq Require Import List Arith Bool Lia.
Import ListNotations.
From TF Require Import Base.Hier Base.Ty Sub.Match Canon.Worklist Canon.Succ.

Definition tmem (x : ty) (l : list ty) : bool := mem ty_eqb x l.

(* ---------- Language.expand_canon ---------- *)
Section Expand.
  Variable H : hier.
  Variable ops : list nat.
  Variables (top bot : bool).   (* include_top, include_bottom *)

  (* lang.py:120-123: UP, include_custom=False, no universe *)
  Definition gen_up (x : ty) : list ty := succ H ops false top bot [] UP x.
  (* lang.py:126-128: DOWN, include_custom=True (default), no universe *)
  Definition gen_down (x : ty) : list ty := succ H ops true top bot [] DOWN x.

  Definition can_step (x : ty) : list ty := gen_up x ++ gen_down x.

  (* successors not yet canonical are appended to the stack, UP ones first;
     the stack is popped from the end, so its top is the last DOWN successor *)
  Definition can_push (x : ty) (canon : list ty) : list ty :=
    rev (filter (fun s => negb (tmem s canon)) (gen_down x)) ++
    rev (filter (fun s => negb (tmem s canon)) (gen_up x)).

  (* [stack0] is list(self.canon) in whatever order the set iterates *)
  Definition expand_canon (fuel : nat) (stack0 listed : list ty) : option (list ty) :=
    wl ty_eqb can_push fuel stack0 listed.
End Expand.

(* ---------- Language.successors (repaired) ---------- *)
Section Links.
  Variable H : hier.
  Variable canon : list ty.

  (* Type.is_subtype(.., strict=True) answering True *)
  Definition ltb (s t : ty) : bool :=
    match is_subtype H true s t with Some true => true | _ => false end.
  Definition leb (s t : ty) : bool :=
    match is_subtype H false s t with Some true => true | _ => false end.

  (* below d a b: a lies strictly past b when travelling in direction d *)
  Definition below (d : bool) (a b : ty) : bool := if d then ltb a b else ltb b a.

  Definition related (d : bool) (t : ty) : list ty := filter (fun s => below d s t) canon.

  Definition lang_succ (d : bool) (t : ty) (transitive : bool) : list ty :=
    let rel := related d t in
    filter (fun s => transitive || negb (existsb (fun u => below d s u) rel)) rel.

  Definition subtypes (t : ty) : list ty := lang_succ DOWN t false.
  Definition supertypes (t : ty) : list ty := lang_succ UP t false.

  (* add_taxonomy without closure, graph.py:147-151: (sub, super) pairs *)
  Definition taxonomy : list (ty * ty) :=
    flat_map (fun t => map (fun s => (s, t)) (subtypes t) ++
                       map (fun s => (t, s)) (supertypes t)) canon.
End Links.

(* ---------- Language.successors (pinned) ---------- *)
Section Pinned.
  Variable H : hier.
  Variable ops : list nat.
  Variables (top bot : bool).
  Variable canon : list ty.

  (* universe = self.types.values() *)
  Definition nb (d : bool) (t : ty) : list ty := succ H ops true top bot ops d t.

  Definition lang_succ_pinned (d : bool) (t : ty) : list ty :=
    flat_map (fun s => if tmem s canon then [s]
                       else filter (fun u => tmem u canon) (nb d s)) (nb d t).
End Pinned.

(* ---------- transitive closure in add_taxonomy, graph.py:153-158 ---------- *)
Section Closure.
  Variable links : list (ty * ty).

  (* Graph.subjects(RDFS.subClassOf, t) *)
  Definition subjects (t : ty) : list ty :=
    map fst (filter (fun p => ty_eqb (snd p) t) links).

  (* Graph.transitive_subjects: depth-first, remembering visited nodes *)
  Definition trans_subjects (fuel : nat) (t : ty) : option (list ty) :=
    wl ty_eqb (fun x seen => filter (fun s => negb (tmem s seen)) (subjects x)) fuel [t] [].

  Fixpoint closure_of (fuel : nat) (canon : list ty) : option (list (ty * ty)) :=
    match canon with
    | [] => Some []
    | t :: r =>
        match trans_subjects fuel t, closure_of fuel r with
        | Some subs, Some rest => Some (map (fun s => (s, t)) subs ++ rest)
        | _, _ => None
        end
    end.
End Closure.

(* ---------- what the vocabulary describes ---------- *)
(* add_type with with_type_parameters, graph.py:176-213: a type node and,
   recursively, a node for each of its parameters *)
Fixpoint described (t : ty) : list ty :=
  match t with TOp o args => t :: flat_map described args end.

Definition vocab_types (canon : list ty) : list ty := flat_map described canon.
