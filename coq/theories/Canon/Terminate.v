(* Canon/Terminate.v -- termination of Language.expand_canon
   (transforge/lang.py:108-130) with an explicit fuel bound.

   1. a generic bound for the stack-driven closure loop of Canon/Worklist.v:
      if every element that can ever be on the stack lies in a finite list [U]
      closed under [step], the loop completes within
          length stack0 + sum over U of (bound on the pushes of one pop)
      iterations.  Argument: an element is EXPANDED when it has been popped once;
      because the stack is LIFO, when a second copy of an expanded element is
      popped all its successors have been seen, so that pop pushes nothing; a pop
      of an unexpanded element pushes at most [w x] elements and there are at
      most |U| of those.
   2. a finite universe for expand_canon: the listed types with their base-type
      leaves relabelled (by operators of the language, Top, Bottom), compound
      sub-terms possibly collapsed to a leaf; closed under
      TypeOperation.successors in both directions, with or without custom types.
   3. expand_canon terminates, for the code's own push order and for every
      schedule of Det/CanonSched.v that does not push more often than the
      successor generators yield.
   Stdlib only, no axioms.  No well-formedness of the hierarchy is needed for
   termination, only that every operator with a declared parent belongs to the
   language ([Wops], as in the C10 theorems). *)
From Coq Require Import List Arith Bool Lia Permutation.
Import ListNotations.
From TF Require Import Base.Hier Base.Ty Sub.Match Sub.SubSpec Sub.SubProofs.
From TF Require Import Canon.Worklist Canon.Succ Canon.Canon Canon.SuccProofs Canon.CanonProofs.
From TF Require Import Det.Perm Det.CanonSched.

Lemma filter_len_le {A} (f : A -> bool) l : length (filter f l) <= length l.
Proof. induction l as [|a l IH]; cbn [filter length]; auto. destruct (f a); cbn [length]; lia. Qed.

Lemma list_sum_cons a l : list_sum (a :: l) = a + list_sum l.
Proof. reflexivity. Qed.

(* ------------------------------------------------------------------------ *)
(* 1. the worklist terminates on a finite closed universe *)

Section WlTerm.
  Context {A : Type}.
  Variable eqb : A -> A -> bool.
  Hypothesis eqb_ok : forall a b, eqb a b = true <-> a = b.
  Variable step : A -> list A.
  Variable push : A -> list A -> list A.
  Hypothesis push_sound : forall x seen y, In y (push x seen) -> In y (step x).
  Hypothesis push_complete : forall x seen y, In y (step x) -> In y (push x seen) \/ In y seen.
  (* `if s not in self.canon` *)
  Hypothesis push_fresh : forall x seen y, In y (push x seen) -> ~ In y seen.
  (* how many elements one pop can push *)
  Variable w : A -> nat.
  Hypothesis push_len : forall x seen, length (push x seen) <= w x.
  Variable U : list A.
  Hypothesis U_closed : forall x, In x U -> forall y, In y (step x) -> In y U.

  (* pushes still to come: the weights of the unexpanded elements *)
  Definition pot (E : list A) : nat :=
    list_sum (map (fun u => if mem eqb u E then 0 else w u) U).

  Definition wl_fuel (stack0 : list A) : nat := length stack0 + list_sum (map w U).

  Lemma pot_nil : pot [] = list_sum (map w U).
  Proof. reflexivity. Qed.

  Lemma pot_expand x E : In x U -> mem eqb x E = false -> pot (x :: E) + w x <= pot E.
  Proof.
    unfold pot. intros Hx M.
    assert (Mono : forall l, list_sum (map (fun u => if mem eqb u (x :: E) then 0 else w u) l)
                          <= list_sum (map (fun u => if mem eqb u E then 0 else w u) l)).
    { induction l as [|u l IH]; cbn [map]; [cbn; lia|]. rewrite !list_sum_cons.
      unfold mem at 1. cbn [existsb]. fold (mem eqb u E).
      destruct (eqb u x); cbn [orb]; [lia|]. destruct (mem eqb u E); lia. }
    revert Hx. generalize U as l. clear U_closed.
    induction l as [|u l IH]; intros Hx; [contradiction|]. cbn [map]. rewrite !list_sum_cons.
    destruct Hx as [->|Hx].
    - rewrite M. unfold mem at 1. cbn [existsb].
      assert (Ex : eqb x x = true) by now apply eqb_ok.
      rewrite Ex. cbn [orb]. specialize (Mono l). lia.
    - specialize (IH Hx).
      unfold mem at 1. cbn [existsb]. fold (mem eqb u E).
      destruct (eqb u x); cbn [orb]; [lia|]. destruct (mem eqb u E); lia.
  Qed.

  (* every expanded element on the stack has all its successors seen or above it *)
  Definition SInv (seen E stack : list A) : Prop :=
    forall a z b, stack = a ++ z :: b -> In z E ->
      forall y, In y (step z) -> In y seen \/ In y a.

  Lemma split_app (P st a : list A) z b : P ++ st = a ++ z :: b ->
    (exists l, P = a ++ z :: l /\ b = l ++ st) \/ (exists a', a = P ++ a' /\ st = a' ++ z :: b).
  Proof.
    revert a. induction P as [|p P IH]; intros a E.
    - right. exists a. auto.
    - destruct a as [|p' a]; cbn in E.
      + injection E as -> <-. left. exists P. auto.
      + injection E as -> E. destruct (IH a E) as [(l & -> & ->)|(a' & -> & ->)].
        * left. exists l. auto.
        * right. exists a'. auto.
  Qed.

  Lemma wl_terminates_inv : forall fuel stack seen E,
    (forall x, In x stack -> In x U) ->
    (forall x, In x E -> In x seen) ->
    SInv seen E stack ->
    length stack + pot E <= fuel ->
    exists r, wl eqb push fuel stack seen = Some r.
  Proof.
    induction fuel as [|f IH]; intros stack seen E HU HE HS HF.
    - destruct stack as [|x st]; [exists seen; reflexivity|cbn in HF; lia].
    - destruct stack as [|x st]; [exists seen; reflexivity|].
      cbn [wl]. cbn [length] in HF.
      set (seen' := add eqb x seen).
      assert (Sub' : forall y, In y seen -> In y seen').
      { intros y Hy. apply (add_In eqb eqb_ok). now right. }
      assert (Xs : In x seen') by (apply (add_In eqb eqb_ok); now left).
      destruct (mem eqb x E) eqn:M.
      + (* x was expanded before: nothing is pushed *)
        apply (mem_In eqb eqb_ok) in M.
        assert (PN : push x seen' = []).
        { destruct (push x seen') as [|y l] eqn:EP; auto. exfalso.
          assert (Hy : In y (push x seen')) by (rewrite EP; now left).
          apply (push_fresh x seen' y Hy).
          destruct (HS [] x st eq_refl M y (push_sound _ _ _ Hy)) as [Hs|[]]. auto. }
        rewrite PN. cbn [app]. apply (IH st seen' E).
        * intros y Hy. apply HU. now right.
        * intros y Hy. auto.
        * intros a z b -> Hz y Hy.
          destruct (HS (x :: a) z b eq_refl Hz y Hy) as [Hs|[->|Ha]]; auto.
        * lia.
      + (* first pop of x *)
        assert (XU : In x U) by (apply HU; now left).
        pose proof (pot_expand x E XU M) as HP.
        pose proof (push_len x seen') as HL.
        apply (IH (push x seen' ++ st) seen' (x :: E)).
        * intros y Hy. apply in_app_or in Hy. destruct Hy as [Hy|Hy].
          -- apply (U_closed x XU). eapply push_sound; eauto.
          -- apply HU. now right.
        * intros y [<-|Hy]; auto.
        * intros a z b Eq Hz y Hy.
          destruct (split_app _ _ _ _ _ Eq) as [(l & EP & ->)|(a' & -> & ->)].
          -- exfalso. assert (Hzp : In z (push x seen')).
             { rewrite EP. apply in_or_app. right. now left. }
             apply (push_fresh _ _ _ Hzp). destruct Hz as [<-|Hz]; auto.
          -- destruct Hz as [<-|Hz].
             ++ destruct (push_complete x seen' y Hy) as [Hp|Hs]; auto.
                right. apply in_or_app. now left.
             ++ destruct (HS (x :: a') z b eq_refl Hz y Hy) as [Hs|[->|Ha]]; auto.
                right. apply in_or_app. now right.
        * rewrite app_length. lia.
  Qed.

  (* the loop completes within [wl_fuel] iterations, from any seen-set *)
  Theorem wl_terminates fuel stack0 seen0 :
    (forall x, In x stack0 -> In x U) ->
    wl_fuel stack0 <= fuel ->
    exists r, wl eqb push fuel stack0 seen0 = Some r.
  Proof.
    intros HU HF. apply (wl_terminates_inv fuel stack0 seen0 []); auto.
    - intros x [].
    - intros a z b _ [].
  Qed.
End WlTerm.

(* ------------------------------------------------------------------------ *)
(* 2. a finite universe closed under TypeOperation.successors *)

Fixpoint product {A} (ls : list (list A)) : list (list A) :=
  match ls with
  | [] => [[]]
  | l :: r => flat_map (fun x => map (cons x) (product r)) l
  end.

Lemma product_In {A} : forall (ls : list (list A)) zs,
  In zs (product ls) <-> Forall2 (fun z l => In z l) zs ls.
Proof.
  induction ls as [|l r IH]; intros zs; cbn [product].
  - split.
    + intros [<-|[]]. constructor.
    + intros F. inversion F. now left.
  - rewrite in_flat_map. split.
    + intros (x & Hx & Hz). apply in_map_iff in Hz. destruct Hz as (zs' & <- & Hz').
      constructor; auto. now apply IH.
    + intros F. inversion F as [|z l' zs' r' Hz F']; subst.
      exists z. split; auto. apply in_map. now apply IH.
  Qed.

Lemma product_map_In {A B} (f : B -> list A) : forall (bs : list B) zs,
  In zs (product (map f bs)) <-> Forall2 (fun z b => In z (f b)) zs bs.
Proof.
  intros bs zs. rewrite product_In. revert zs.
  induction bs as [|b bs IH]; intros zs; cbn [map]; split; intros F; inversion F; subst; constructor; auto;
    now apply IH.
Qed.

Lemma product_length_cons {A} (l : list A) r :
  length (product (l :: r)) = length l * length (product r).
Proof.
  cbn [product]. induction l as [|x l IH]; cbn [flat_map length]; auto.
  rewrite app_length, map_length, IH. lia.
Qed.

Fixpoint ty_size (t : ty) : nat :=
  match t with TOp _ args => S (list_sum (map ty_size args)) end.

Section Universe.
  Variable H : hier.
  Variable ops : list nat.

  (* the operators a base-type leaf can be relabelled with: the language's
     operators and their declared parents (Top and Bottom are added below) *)
  Definition alphabet : list nat :=
    ops ++ flat_map (fun o => match parent H o with Some p => [p] | None => [] end) ops.

  Definition leafs : list ty := map (fun q => TOp q []) alphabet.

  (* Top(), Bottom(), a single leaf, or the same skeleton with every parameter
     replaced by one of its variants *)
  Fixpoint variants (t : ty) : list ty :=
    match t with
    | TOp o args =>
        tTop :: tBot :: leafs ++
        (if Nat.eqb (arity H o) 0 then [TOp o args]
         else map (TOp o) (product (map variants args)))
    end.

  Definition universe (listed : list ty) : list ty := flat_map variants listed.

  Definition base (s : ty) : Prop := s = tTop \/ s = tBot \/ In s leafs.

  Lemma variants_In o args s : In s (variants (TOp o args)) <->
    base s \/
    (Nat.eqb (arity H o) 0 = true /\ s = TOp o args) \/
    (Nat.eqb (arity H o) 0 = false /\
     exists zs, s = TOp o zs /\ Forall2 (fun z a => In z (variants a)) zs args).
  Proof.
    cbn [variants]. unfold base. cbn [In]. rewrite in_app_iff.
    destruct (Nat.eqb (arity H o) 0).
    - cbn [In]. split.
      + intros [E|[E|[E|[E|[]]]]]; auto.
      + intros [[E|[E|E]]|[[_ E]|[E _]]]; auto; discriminate.
    - rewrite in_map_iff. split.
      + intros [E|[E|[E|(zs & E & Hz)]]]; auto.
        right. right. split; auto. exists zs. split; auto. now apply product_map_In.
      + intros [[E|[E|E]]|[[E _]|[_ (zs & E & Hz)]]]; auto; try discriminate.
        right. right. right. exists zs. split; auto. now apply product_map_In.
  Qed.

  Lemma variants_base t s : base s -> In s (variants t).
  Proof. destruct t as [o args]. intros B. apply variants_In. now left. Qed.

  Lemma variants_self t : In t (variants t).
  Proof.
    induction t as [o args IH] using ty_ind'. apply variants_In. right.
    destruct (Nat.eqb (arity H o) 0); [left; auto|right]. split; auto.
    exists args. split; auto. induction IH; constructor; auto.
  Qed.

  Theorem universe_listed listed t : In t listed -> In t (universe listed).
  Proof. intros Ht. unfold universe. apply in_flat_map. exists t. split; auto. apply variants_self. Qed.

  (* every base element is a leaf TOp q [] *)
  Lemma base_leaf s : base s -> exists q, s = TOp q [].
  Proof.
    intros [->|[->|Hs]]; [exists Top; reflexivity|exists Bottom; reflexivity|].
    unfold leafs in Hs. apply in_map_iff in Hs. destruct Hs as (q & <- & _). eauto.
  Qed.

  Hypothesis Wops : forall o p, parent H o = Some p -> In o ops.

  Lemma alphabet_ops o : In o ops -> In (TOp o []) leafs.
  Proof. intros Ho. unfold leafs, alphabet. apply (in_map (fun q => TOp q [])). apply in_or_app. now left. Qed.

  Lemma alphabet_parent o p : parent H o = Some p -> In (TOp p []) leafs.
  Proof.
    intros E. unfold leafs, alphabet. apply (in_map (fun q => TOp q [])). apply in_or_app. right.
    apply in_flat_map. exists o. split; [eapply Wops; eauto|]. rewrite E. now left.
  Qed.

  Variables (top bot : bool).

  Lemma succ_base_base custom d o s : In s (succ_base H ops custom top bot [] d o) -> base s.
  Proof.
    unfold succ_base, base. destruct d.
    - destruct (Nat.eqb o Top).
      + destruct bot; [|contradiction]. intros [<-|[]]. auto.
      + destruct (if custom then children H ops o else []) as [|c cs] eqn:E.
        * destruct (bot && negb (Nat.eqb o Bottom)); [|contradiction]. intros [<-|[]]. auto.
        * intros Hs. apply in_map_iff in Hs. destruct Hs as (c' & <- & Hc).
          destruct custom; [|discriminate]. rewrite <- E in Hc.
          unfold children in Hc. apply filter_In in Hc. destruct Hc as [Hc _].
          right. right. now apply alphabet_ops.
    - destruct (Nat.eqb o Bottom).
      + destruct top; [|contradiction]. intros [<-|[]]. auto.
      + destruct (if custom then parent H o else None) as [p|] eqn:E.
        * intros [<-|[]]. destruct custom; [|discriminate].
          right. right. eapply alphabet_parent; eauto.
        * destruct (top && negb (Nat.eqb o Top)); [|contradiction]. intros [<-|[]]. auto.
  Qed.

  Lemma fallback_base d s : In s (fallback top bot d) -> base s.
  Proof.
    unfold fallback, base. destruct d.
    - destruct bot; [|contradiction]. intros [<-|[]]. auto.
    - destruct top; [|contradiction]. intros [<-|[]]. auto.
  Qed.

  (* successors of a leaf are leaves *)
  Lemma succ_leaf_base custom d q s : In s (succ H ops custom top bot [] d (TOp q [])) -> base s.
  Proof.
    cbn [succ]. destruct (Nat.eqb (arity H q) 0); [apply succ_base_base|].
    destruct (variance H q); cbn [succ_args map]; apply fallback_base.
  Qed.

  (* the variants of a type are closed under TypeOperation.successors, in both
     directions, with and without custom types *)
  Theorem variants_closed : forall t t', In t' (variants t) ->
    forall custom d s, In s (succ H ops custom top bot [] d t') -> In s (variants t).
  Proof.
    induction t as [o args IH] using ty_ind'. intros t' Ht' custom d s Hs.
    apply variants_In in Ht'. destruct Ht' as [B|[[A0 ->]|[A0 (zs & -> & F)]]].
    - apply base_leaf in B. destruct B as [q ->].
      apply variants_base. eapply succ_leaf_base; eauto.
    - cbn [succ] in Hs. rewrite A0 in Hs. apply variants_base. eapply succ_base_base; eauto.
    - cbn [succ] in Hs. rewrite A0 in Hs.
      apply In_match_nil in Hs. destruct Hs as [Hs|[_ Hs]].
      2:{ apply variants_base. eapply fallback_base; eauto. }
      apply in_map_iff in Hs. destruct Hs as (zs' & <- & Hz).
      apply succ_args_In in Hz.
      destruct Hz as (pre & x & post & vpre & v & vpost & q & -> & EV & L & Hq & ->).
      apply Forall2_app_inv_l in F. destruct F as (apre & arest & F1 & F2 & ->).
      inversion F2 as [|x' a post' apost Hx F3]; subst.
      apply variants_In. right. right. split; auto.
      exists (pre ++ q :: post). split; auto.
      apply Forall2_app; auto. constructor; auto.
      rewrite Forall_forall in IH.
      assert (Ia : In a (apre ++ a :: apost)) by (apply in_or_app; right; now left).
      apply (IH a Ia x Hx custom (dirv d v) q Hq).
  Qed.

  Theorem universe_closed listed : forall x, In x (universe listed) ->
    forall y, In y (can_step H ops top bot x) -> In y (universe listed).
  Proof.
    intros x Hx y Hy. unfold universe in *. apply in_flat_map in Hx.
    destruct Hx as (t & Ht & Hx). apply in_flat_map. exists t. split; auto.
    unfold can_step, gen_up, gen_down in Hy. apply in_app_or in Hy.
    destruct Hy as [Hy|Hy]; eapply variants_closed; eauto.
  Qed.

  (* ---------- cardinality ---------- *)
  Lemma alphabet_length : length alphabet <= 2 * length ops.
  Proof.
    unfold alphabet. rewrite app_length.
    assert (E : forall l, length (flat_map (fun o => match parent H o with Some p => [p] | None => [] end) l)
                <= length l).
    { induction l as [|o l IHl]; cbn [flat_map length]; auto.
      rewrite app_length. destruct (parent H o); cbn [length]; lia. }
    specialize (E ops). lia.
  Qed.

  Lemma pow_ge1 n k : 1 <= n -> 1 <= n ^ k.
  Proof. intros Hn. induction k as [|k IHk]; cbn [Nat.pow]; nia. Qed.

  Lemma variants_length t : length (variants t) <= (length alphabet + 3) ^ ty_size t.
  Proof.
    set (n := length alphabet + 3).
    induction t as [o args IH] using ty_ind'.
    cbn [variants ty_size length]. rewrite app_length. unfold leafs at 1. rewrite map_length.
    fold n. cbn [Nat.pow].
    assert (P1 : 1 <= n ^ list_sum (map ty_size args)) by (apply pow_ge1; unfold n; lia).
    destruct (Nat.eqb (arity H o) 0).
    - cbn [length]. unfold n in *. nia.
    - rewrite map_length.
      assert (PL : length (product (map variants args)) <= n ^ list_sum (map ty_size args)).
      { clear P1. induction IH as [|a l Ha _ IHl]; cbn [map].
        - cbn. lia.
        - rewrite list_sum_cons, product_length_cons, Nat.pow_add_r. apply Nat.mul_le_mono; auto. }
      unfold n in *. nia.
  Qed.

  (* the cardinality bound: (2 |ops| + 3) ^ (number of nodes), summed over the listed types *)
  Theorem universe_card listed :
    length (universe listed) <= list_sum (map (fun t => (2 * length ops + 3) ^ ty_size t) listed).
  Proof.
    unfold universe. induction listed as [|t l IHl]; cbn [flat_map map length]; auto.
    rewrite list_sum_cons, app_length. pose proof (variants_length t) as Hv. pose proof alphabet_length as Ha.
    assert (Hp : (length alphabet + 3) ^ ty_size t <= (2 * length ops + 3) ^ ty_size t).
    { apply Nat.pow_le_mono_l. lia. }
    lia.
  Qed.
End Universe.

(* ------------------------------------------------------------------------ *)
(* 3. expand_canon terminates *)

Section Terminates.
  Variable H : hier.
  Variable ops : list nat.
  Hypothesis Wops : forall o p, parent H o = Some p -> In o ops.
  Variables (top bot : bool).

  Notation step := (can_step H ops top bot).

  (* iterations that always suffice: one per initial stack entry plus, for every
     element of the universe, one per successor its generators yield *)
  Definition canon_fuel (stack0 listed : list ty) : nat :=
    length stack0 + list_sum (map (fun x => length (step x)) (universe H ops listed)).

  Lemma can_push_fresh x seen y : In y (can_push H ops top bot x seen) -> ~ In y seen.
  Proof.
    unfold can_push. intros Hy Hs. apply tmem_In in Hs.
    apply in_app_or in Hy. destruct Hy as [Hy|Hy]; apply in_rev in Hy; apply filter_In in Hy;
      destruct Hy as [_ Hy]; rewrite Hs in Hy; discriminate.
  Qed.

  Lemma can_push_len x seen : length (can_push H ops top bot x seen) <= length (step x).
  Proof.
    unfold can_push, can_step. rewrite !app_length, !rev_length.
    pose proof (filter_len_le (fun s => negb (tmem s seen)) (gen_down H ops top bot x)).
    pose proof (filter_len_le (fun s => negb (tmem s seen)) (gen_up H ops top bot x)).
    lia.
  Qed.

  (* any schedule of Det/CanonSched.v ([push_ok]: the pushed elements are, as a
     set, the unseen successors) that pushes no more often than the two
     generators yield *)
  Theorem expand_canon_s_terminates push listed stack0 fuel :
    push_ok H top bot ops push ->
    (forall x seen, length (push x seen) <= length (step x)) ->
    (forall x, In x stack0 -> In x listed) ->
    canon_fuel stack0 listed <= fuel ->
    exists c, expand_canon_s push fuel stack0 listed = Some c.
  Proof.
    intros K L S F. unfold expand_canon_s.
    apply (wl_terminates ty_eqb ty_eqb_eq step push) with
      (w := fun x => length (step x)) (U := universe H ops listed); auto.
    - intros x seen y Hy. apply (K x seen) in Hy. apply filter_In in Hy. tauto.
    - intros x seen y Hy. destruct (tmem y seen) eqn:M; [right; apply tmem_In, M|].
      left. apply (K x seen). apply filter_In. rewrite M. auto.
    - intros x seen y Hy Hs. apply (K x seen) in Hy. apply filter_In in Hy.
      apply tmem_In in Hs. destruct Hy as [_ Hy]. rewrite Hs in Hy. discriminate.
    - apply universe_closed; auto.
    - intros x Hx. apply universe_listed. auto.
  Qed.

  (* the code's own discipline *)
  Theorem expand_canon_terminates listed stack0 fuel :
    (forall x, In x stack0 -> In x listed) ->
    canon_fuel stack0 listed <= fuel ->
    exists c, expand_canon H ops top bot fuel stack0 listed = Some c.
  Proof.
    intros S F. rewrite <- expand_canon_s_can_push.
    apply expand_canon_s_terminates with (listed := listed); auto.
    - apply can_push_ok.
    - apply can_push_len.
  Qed.
End Terminates.

(* ------------------------------------------------------------------------ *)
(* 4. a closed form for the fuel: it depends only on the number of operators,
      the sizes of the listed types and the length of the initial stack *)

Lemma list_sum_le_const {A} (f : A -> nat) c l :
  (forall x, In x l -> f x <= c) -> list_sum (map f l) <= length l * c.
Proof.
  induction l as [|a l IH]; intros Hf; cbn [map length]; [cbn; lia|].
  rewrite list_sum_cons. pose proof (Hf a (or_introl eq_refl)).
  assert (list_sum (map f l) <= length l * c) by (apply IH; intros; apply Hf; now right).
  lia.
Qed.

Lemma list_max_In k l : In k l -> k <= list_max l.
Proof.
  intros Hk. pose proof (proj1 (list_max_le l (list_max l)) (le_n _)) as F.
  rewrite Forall_forall in F. auto.
Qed.

Lemma succ_args_length f g d : forall vs xs,
  Forall (fun x => forall d', length (f d' x) <= g x) xs ->
  length (succ_args f d vs xs) <= list_sum (map g xs).
Proof.
  intros vs xs. revert vs. induction xs as [|x xs IH]; intros vs F; [destruct vs; cbn; lia|].
  destruct vs as [|v vs]; [cbn [succ_args length]; lia|]. cbn [succ_args map].
  inversion F as [|? ? Fx Fr]; subst.
  rewrite list_sum_cons, app_length, !map_length. specialize (IH vs Fr). specialize (Fx (dirv d v)). lia.
Qed.

Section Closed.
  Variable H : hier.
  Variable ops : list nat.
  Variables (top bot : bool).

  Lemma succ_base_length custom d o :
    length (succ_base H ops custom top bot [] d o) <= S (length ops).
  Proof.
    unfold succ_base. destruct d.
    - destruct (Nat.eqb o Top).
      + destruct bot; cbn; lia.
      + destruct (if custom then children H ops o else []) as [|c cs] eqn:E.
        * destruct (bot && negb (Nat.eqb o Bottom)); cbn; lia.
        * rewrite map_length, <- E. destruct custom; [|cbn; lia].
          unfold children. pose proof (filter_len_le (fun c => match parent H c with Some p => Nat.eqb p o | None => false end) ops). lia.
    - destruct (Nat.eqb o Bottom).
      + destruct top; cbn; lia.
      + destruct (if custom then parent H o else None).
        * cbn; lia.
        * destruct (top && negb (Nat.eqb o Top)); cbn; lia.
  Qed.

  (* a type has at most (number of nodes) * (|ops| + 1) successors *)
  Lemma succ_length custom : forall t d,
    length (succ H ops custom top bot [] d t) <= ty_size t * S (length ops).
  Proof.
    induction t as [o args IH] using ty_ind'. intros d. cbn [succ ty_size].
    destruct (Nat.eqb (arity H o) 0).
    - pose proof (succ_base_length custom d o). nia.
    - pose proof (succ_args_length (fun d' x => succ H ops custom top bot [] d' x)
                    (fun x => ty_size x * S (length ops)) d (variance H o) args IH) as L.
      assert (E : list_sum (map (fun x => ty_size x * S (length ops)) args)
                  = list_sum (map ty_size args) * S (length ops)).
      { clear. induction args as [|a l IHl]; cbn [map]; [reflexivity|].
        rewrite !list_sum_cons, IHl. lia. }
      rewrite E in L. clear E.
      destruct (map (TOp o) (succ_args _ d (variance H o) args)) as [|z r] eqn:EM.
      + unfold fallback. destruct d; [destruct bot|destruct top]; cbn [length]; nia.
      + rewrite <- EM, map_length. nia.
  Qed.

  Lemma can_step_length x : length (can_step H ops top bot x) <= 2 * ty_size x * S (length ops).
  Proof.
    unfold can_step, gen_up, gen_down. rewrite app_length.
    pose proof (succ_length false x UP). pose proof (succ_length true x DOWN). lia.
  Qed.

  Lemma variants_size : forall t s, In s (variants H ops t) -> ty_size s <= ty_size t.
  Proof.
    induction t as [o args IH] using ty_ind'. intros s Hs.
    apply variants_In in Hs. destruct Hs as [B|[[_ ->]|[_ (zs & -> & F)]]].
    - apply base_leaf in B. destruct B as [q ->]. cbn. lia.
    - lia.
    - cbn [ty_size]. apply le_n_S. induction F as [|z a zs' args' Hz F IHF]; [lia|].
      cbn [map]. rewrite !list_sum_cons. inversion IH as [|? ? Ha IH']; subst.
      specialize (Ha z Hz). specialize (IHF IH'). lia.
  Qed.

  Lemma universe_size listed x : In x (universe H ops listed) ->
    ty_size x <= list_max (map ty_size listed).
  Proof.
    intros Hx. unfold universe in Hx. apply in_flat_map in Hx. destruct Hx as (t & Ht & Hx).
    apply variants_size in Hx. pose proof (list_max_In (ty_size t) (map ty_size listed) (in_map _ _ _ Ht)). lia.
  Qed.

  Definition canon_fuel_closed (stack0 listed : list ty) : nat :=
    length stack0 +
    list_sum (map (fun t => (2 * length ops + 3) ^ ty_size t) listed) *
    (2 * list_max (map ty_size listed) * S (length ops)).

  Theorem canon_fuel_le_closed stack0 listed :
    canon_fuel H ops top bot stack0 listed <= canon_fuel_closed stack0 listed.
  Proof.
    unfold canon_fuel, canon_fuel_closed. apply Nat.add_le_mono_l.
    etransitivity.
    - apply list_sum_le_const with (c := 2 * list_max (map ty_size listed) * S (length ops)).
      intros x Hx. pose proof (can_step_length x). pose proof (universe_size listed x Hx). nia.
    - apply Nat.mul_le_mono_r. apply universe_card.
  Qed.
End Closed.

(* ------------------------------------------------------------------------ *)
(* 5. the C10 theorems without the `completed run' hypothesis *)

Section Total.
  Variable H : hier.
  Variable ops : list nat.
  Hypothesis Wops : forall o p, parent H o = Some p -> In o ops.
  Variables (top bot : bool).
  Variable listed : list ty.

  Notation step := (can_step H ops top bot).

  Lemma Clo_universe s : Clo step listed s -> In s (universe H ops listed).
  Proof.
    induction 1 as [x Hx|x y _ IH Hy]; [now apply universe_listed|].
    eapply universe_closed; eauto.
  Qed.

  (* the run exists and computes the least closed set; it stays inside the universe *)
  Theorem expand_canon_total_closure fuel stack0 :
    (forall x, In x stack0 <-> In x listed) ->
    canon_fuel H ops top bot stack0 listed <= fuel ->
    exists c, expand_canon H ops top bot fuel stack0 listed = Some c /\
      (forall s, In s c <-> Clo step listed s) /\
      (forall s, In s c -> In s (universe H ops listed)) /\
      (NoDup listed -> NoDup c /\ length c <= length (universe H ops listed)).
  Proof.
    intros S F.
    destruct (expand_canon_terminates H ops Wops top bot listed stack0 fuel) as [c R]; auto.
    { intros x Hx. now apply S. }
    pose proof (expand_canon_closure H ops top bot listed fuel stack0 c S R) as C.
    assert (CU : forall s, In s c -> In s (universe H ops listed)).
    { intros s Hs. apply Clo_universe. now apply C. }
    exists c. repeat split; auto; try (now apply C).
    - eapply canon_nodup; eauto.
    - apply NoDup_incl_length; [eapply canon_nodup; eauto|exact CU].
  Qed.

  Hypothesis W : wf_hier H.
  Hypothesis listed_wf : Forall (wf_ty H) listed.
  Hypothesis listed_plain : Forall plain listed.

  Theorem expand_canon_total fuel stack0 :
    (forall x, In x stack0 <-> In x listed) ->
    canon_fuel H ops top bot stack0 listed <= fuel ->
    exists c, expand_canon H ops top bot fuel stack0 listed = Some c /\
      (forall s, In s c <-> Clo step listed s) /\
      (forall t s, In t listed -> wf_ty H s -> allowed top bot s -> Sub H s t -> In s c) /\
      (forall s, In s c -> wf_ty H s /\ allowed top bot s).
  Proof.
    intros S F.
    destruct (expand_canon_terminates H ops Wops top bot listed stack0 fuel) as [c R]; auto.
    { intros x Hx. now apply S. }
    exists c. split; [exact R|]. split; [|split].
    - apply (expand_canon_closure H ops top bot listed fuel stack0 c S R).
    - apply (canon_complete H W ops Wops top bot listed listed_wf listed_plain fuel stack0 c S R).
    - apply (canon_good H W ops Wops top bot listed listed_wf listed_plain fuel stack0 c S R).
  Qed.
End Total.

(* termination stated with the closed-form fuel *)
Theorem expand_canon_terminates_closed H ops :
  (forall o p, parent H o = Some p -> In o ops) ->
  forall top bot listed stack0 fuel,
  (forall x, In x stack0 -> In x listed) ->
  canon_fuel_closed ops stack0 listed <= fuel ->
  exists c, expand_canon H ops top bot fuel stack0 listed = Some c.
Proof.
  intros Wops top bot listed stack0 fuel S F.
  apply expand_canon_terminates; auto.
  pose proof (canon_fuel_le_closed H ops top bot stack0 listed). lia.
Qed.
