(* Faithful model of the one-step neighbour enumeration:
   TypeOperator.floor / ceiling          transforge/type.py:261-282
   TypeOperation.successors              transforge/type.py:712-773
   Directions are booleans: true = Direction.DOWN, false = Direction.UP.
   A language is a hierarchy [H] plus the list [ops] of its declared type
   operators (Language.types.values(), declaration order; the built-ins are
   never in it, lang.py:181).  TypeOperator.children is modelled from [ops]:
   every operator with a declared parent belongs to the language. *)
From Coq Require Import List Arith Bool Lia.
Import ListNotations.
From TF Require Import Base.Hier Base.Ty.

Definition DOWN : bool := true.
Definition UP : bool := false.

(* Direction.variant, type.py:21-27 *)
Definition dirv (d v : bool) : bool := if v then d else negb d.

Definition tTop : ty := TOp Top [].
Definition tBot : ty := TOp Bottom [].

Definition children (H : hier) (ops : list nat) (o : nat) : list nat :=
  filter (fun c => match parent H c with Some p => Nat.eqb p o | None => false end) ops.

(* TypeOperator.ceiling, type.py:272-281: the root of a base type's chain, or
   the operator applied to Top (covariant) / Bottom (contravariant) *)
Fixpoint root (H : hier) (fuel o : nat) : nat :=
  match fuel with
  | 0 => o
  | S f => match parent H o with Some p => root H f p | None => o end
  end.

Definition ceiling (H : hier) (o : nat) : list ty :=
  if Nat.eqb (arity H o) 0 then [TOp (root H o o) []]
  else [TOp o (map (fun v : bool => if v then tTop else tBot) (variance H o))].

(* TypeOperator.floor, type.py:261-270: the leaves below a base type *)
Fixpoint leaves (H : hier) (ops : list nat) (fuel o : nat) : list nat :=
  match fuel with
  | 0 => [o]
  | S f => match children H ops o with
           | [] => [o]
           | cs => flat_map (leaves H ops f) cs
           end
  end.

Definition floor (H : hier) (ops : list nat) (o : nat) : list ty :=
  if Nat.eqb (arity H o) 0 then map (fun b => TOp b []) (leaves H ops (length ops) o)
  else [TOp o (map (fun v : bool => if v then tBot else tTop) (variance H o))].

(* the loop over zip(count(), op.variance, self.params), type.py:752-761:
   every successor of the i-th parameter (in the variant direction), put back
   in its place *)
Section SuccArgs.
  Variable f : bool -> ty -> list ty.
  Fixpoint succ_args (d : bool) (vs : list bool) (xs : list ty) {struct xs} : list (list ty) :=
    match xs, vs with
    | x :: xs', v :: vs' =>
        map (fun q => q :: xs') (f (dirv d v) x) ++ map (cons x) (succ_args d vs' xs')
    | _, _ => []
    end.
End SuccArgs.

Section Succ.
  Variable H : hier.
  Variable ops : list nat.
  (* include_custom, include_top, include_bottom, universe *)
  Variables (custom top bot : bool) (univ : list nat).

  (* the arity-0 branch, type.py:728-750 *)
  Definition succ_base (d : bool) (o : nat) : list ty :=
    if d then
      if Nat.eqb o Top then
        match univ with
        | [] => if bot then [tBot] else []
        | _ => flat_map (ceiling H) univ
        end
      else match (if custom then children H ops o else []) with
           | [] => if bot && negb (Nat.eqb o Bottom) then [tBot] else []
           | cs => map (fun c => TOp c []) cs
           end
    else
      if Nat.eqb o Bottom then
        match univ with
        | [] => if top then [tTop] else []
        | _ => flat_map (floor H ops) univ
        end
      else match (if custom then parent H o else None) with
           | Some p => [TOp p []]
           | None => if top && negb (Nat.eqb o Top) then [tTop] else []
           end.

  (* the `empty` fallback, type.py:768-772 *)
  Definition fallback (d : bool) : list ty :=
    if d then (if bot then [tBot] else []) else (if top then [tTop] else []).

  Fixpoint succ (d : bool) (t : ty) {struct t} : list ty :=
    match t with
    | TOp o args =>
        if Nat.eqb (arity H o) 0 then succ_base d o
        else match map (TOp o) (succ_args (fun d' x => succ d' x) d (variance H o) args) with
             | [] => fallback d
             | r => r
             end
    end.
End Succ.
