(* Properties of the one-step enumeration without universe (as used by
   Language.expand_canon): it preserves well-formedness and the Top/Bottom
   flags, and every allowed subtype (supertype) of a Top/Bottom-free type is
   reached by a chain of one-step successors. *)
From Coq Require Import List Arith Bool Lia.
Import ListNotations.
From TF Require Import Base.Hier Base.Ty Sub.SubSpec Sub.SubProofs Canon.Succ.

(* Bottom occurs only if requested, Top occurs only if requested *)
Fixpoint allowed (top bot : bool) (t : ty) : Prop :=
  match t with
  | TOp o args => (o = Bottom -> bot = true) /\ (o = Top -> top = true) /\ All (allowed top bot) args
  end.

(* mentions neither Top nor Bottom: what a language author lists *)
Fixpoint plain (t : ty) : Prop :=
  match t with
  | TOp o args => o <> Top /\ o <> Bottom /\ All plain args
  end.

Lemma allowed_unfold top bot o args : allowed top bot (TOp o args) <->
  (o = Bottom -> bot = true) /\ (o = Top -> top = true) /\ Forall (allowed top bot) args.
Proof. cbn [allowed]. now rewrite All_Forall. Qed.

Lemma plain_unfold o args : plain (TOp o args) <-> o <> Top /\ o <> Bottom /\ Forall plain args.
Proof. cbn [plain]. now rewrite All_Forall. Qed.

Lemma plain_allowed top bot t : plain t -> allowed top bot t.
Proof.
  induction t as [o args IH] using ty_ind'. rewrite plain_unfold, allowed_unfold.
  intros (NT & NB & F). repeat split; try congruence.
  rewrite Forall_forall in *. auto.
Qed.

(* one position of a list changed *)
Lemma succ_args_In f d : forall vs xs zs, In zs (succ_args f d vs xs) ->
  exists pre x post vpre v vpost q, xs = pre ++ x :: post /\ vs = vpre ++ v :: vpost /\
    length vpre = length pre /\ In q (f (dirv d v) x) /\ zs = pre ++ q :: post.
Proof.
  intros vs xs. revert vs. induction xs as [|x xs IH]; intros [|v vs] zs Hz; cbn in Hz; try contradiction.
  apply in_app_or in Hz. destruct Hz as [Hz|Hz]; apply in_map_iff in Hz.
  - destruct Hz as (q & <- & Hq). exists [], x, xs, [], v, vs, q. repeat split; auto.
  - destruct Hz as (zs' & <- & Hz'). apply IH in Hz'.
    destruct Hz' as (pre & x' & post & vpre & v' & vpost & q & -> & -> & L & Hq & ->).
    exists (x :: pre), x', post, (v :: vpre), v', vpost, q. repeat split; cbn; auto.
Qed.

Lemma succ_args_intro f d : forall vpre pre v vpost x post q,
  length vpre = length pre -> In q (f (dirv d v) x) ->
  In (pre ++ q :: post) (succ_args f d (vpre ++ v :: vpost) (pre ++ x :: post)).
Proof.
  induction vpre as [|w vpre IH]; intros [|p pre] v vpost x post q L Hq; cbn in L; try discriminate.
  - cbn. apply in_or_app. left. apply in_map_iff. eauto.
  - cbn. apply in_or_app. right. apply in_map_iff. exists (pre ++ q :: post). split; auto.
Qed.

Lemma In_match_nil {A} (l fb : list A) x :
  In x (match l with [] => fb | y :: r => y :: r end) -> In x l \/ (l = [] /\ In x fb).
Proof. destruct l; auto. Qed.

Lemma In_match_cons {A} (l fb : list A) x : In x l -> In x (match l with [] => fb | y :: r => y :: r end).
Proof. destruct l; [intros []|auto]. Qed.

Section SuccProofs.
  Variable H : hier.
  Hypothesis W : wf_hier H.
  Variable ops : list nat.
  (* every operator with a declared parent belongs to the language *)
  Hypothesis Wops : forall o p, parent H o = Some p -> In o ops.
  Variables (top bot : bool).

  Definition gen (custom d : bool) (t : ty) : list ty := succ H ops custom top bot [] d t.

  Definition good (t : ty) : Prop := wf_ty H t /\ allowed top bot t.

  Lemma good_bot : bot = true -> good tBot.
  Proof.
    intros B. split.
    - apply wf_ty_unfold. split; auto. now rewrite (var_bot H W).
    - apply allowed_unfold. repeat split; auto. discriminate.
  Qed.

  Lemma good_top : top = true -> good tTop.
  Proof.
    intros B. split.
    - apply wf_ty_unfold. split; auto. now rewrite (var_top H W).
    - apply allowed_unfold. repeat split; auto. discriminate.
  Qed.

  Lemma children_spec o c : In c (children H ops o) <-> parent H c = Some o.
  Proof.
    unfold children. rewrite filter_In. split.
    - intros [_ E]. destruct (parent H c) as [p|]; [|discriminate]. apply Nat.eqb_eq in E. now subst.
    - intros E. split; [eapply Wops; eauto|]. rewrite E. apply Nat.eqb_refl.
  Qed.

  Lemma good_child o c : parent H c = Some o -> good (TOp c []).
  Proof.
    intros E. pose proof (wf_parent_base H W _ _ E) as (Vc & _).
    destruct (wf_top H W) as [PT _]. destruct (wf_bot H W) as [PB _].
    split.
    - apply wf_ty_unfold. rewrite Vc. auto.
    - apply allowed_unfold. repeat split; auto; intros ->; congruence.
  Qed.

  Lemma good_parent o p : parent H o = Some p -> good (TOp p []).
  Proof.
    intros E. pose proof (wf_parent_base H W _ _ E) as (_ & Vp & NT & NB).
    split.
    - apply wf_ty_unfold. rewrite Vp. auto.
    - apply allowed_unfold. repeat split; auto; intros ->; congruence.
  Qed.

  Lemma gen_base_good custom d o s : In s (succ_base H ops custom top bot [] d o) -> good s.
  Proof.
    unfold succ_base. destruct d.
    - destruct (Nat.eqb o Top).
      + destruct bot eqn:B; [|contradiction]. intros [<-|[]]. now apply good_bot.
      + destruct (if custom then children H ops o else []) as [|c cs] eqn:E.
        * destruct (bot && negb (Nat.eqb o Bottom)) eqn:B; [|contradiction].
          intros [<-|[]]. apply good_bot. now apply andb_true_iff in B.
        * intros Hs. apply in_map_iff in Hs. destruct Hs as (c' & <- & Hc).
          destruct custom; [|discriminate]. rewrite <- E in Hc.
          apply children_spec in Hc. eapply good_child; eauto.
    - destruct (Nat.eqb o Bottom).
      + destruct top eqn:B; [|contradiction]. intros [<-|[]]. now apply good_top.
      + destruct (if custom then parent H o else None) as [p|] eqn:E.
        * intros [<-|[]]. destruct custom; [|discriminate]. eapply good_parent; eauto.
        * destruct (top && negb (Nat.eqb o Top)) eqn:B; [|contradiction].
          intros [<-|[]]. apply good_top. now apply andb_true_iff in B.
  Qed.

  (* successors stay well-formed and respect the flags *)
  Theorem gen_good custom t : good t -> forall d s, In s (gen custom d t) -> good s.
  Proof.
    induction t as [o args IH] using ty_ind'. intros [Wt At] d s Hs.
    unfold gen in Hs. cbn [succ] in Hs.
    destruct (Nat.eqb (arity H o) 0); [eapply gen_base_good; eauto|].
    apply In_match_nil in Hs. destruct Hs as [Hs|[_ Hs]].
    2:{ unfold fallback in Hs. destruct d.
        - destruct bot eqn:B; [|contradiction]. destruct Hs as [<-|[]]. now apply good_bot.
        - destruct top eqn:B; [|contradiction]. destruct Hs as [<-|[]]. now apply good_top. }
    apply in_map_iff in Hs. destruct Hs as (zs & <- & Hz).
    apply succ_args_In in Hz.
    destruct Hz as (pre & x & post & vpre & v & vpost & q & -> & EV & L & Hq & ->).
    apply wf_ty_unfold in Wt. destruct Wt as [Len Fw].
    apply allowed_unfold in At. destruct At as (AB & AT & Fa).
    rewrite Forall_forall in IH.
    assert (Gq : good q).
    { apply (IH x) with (d := dirv d v); [apply in_or_app; right; now left| |exact Hq].
      rewrite Forall_forall in Fw, Fa. split; [apply Fw|apply Fa]; apply in_or_app; right; now left. }
    destruct Gq as [Wq Aq]. split.
    - apply wf_ty_unfold. split.
      + rewrite <- Len. rewrite !app_length. reflexivity.
      + apply Forall_app in Fw. destruct Fw as [F1 F2]. inversion F2; subst.
        apply Forall_app. split; auto.
    - apply allowed_unfold. repeat split; auto.
      apply Forall_app in Fa. destruct Fa as [F1 F2]. inversion F2; subst.
      apply Forall_app. split; auto.
  Qed.

  (* ---------- chains of one-step successors ---------- *)
  Inductive Reach (custom d : bool) : ty -> ty -> Prop :=
  | reach_refl t : Reach custom d t t
  | reach_step t u s : In u (gen custom d t) -> Reach custom d u s -> Reach custom d t s.

  Lemma Reach_trans c d a b e : Reach c d a b -> Reach c d b e -> Reach c d a e.
  Proof. induction 1; intros; eauto using Reach. Qed.

  Lemma Reach_snoc c d a b e : Reach c d a b -> In e (gen c d b) -> Reach c d a e.
  Proof. intros R I. eapply Reach_trans; eauto using Reach. Qed.

  Lemma Reach_good c d a b : good a -> Reach c d a b -> good b.
  Proof. intros G R. induction R; auto. apply IHR. eapply gen_good; eauto. Qed.

  Lemma gen_lift c d o pre x post vpre v vpost q :
    variance H o = vpre ++ v :: vpost -> length vpre = length pre ->
    In q (gen c (dirv d v) x) ->
    In (TOp o (pre ++ q :: post)) (gen c d (TOp o (pre ++ x :: post))).
  Proof.
    intros EV L Hq. unfold gen. cbn [succ].
    assert (A0 : Nat.eqb (arity H o) 0 = false).
    { apply Nat.eqb_neq. unfold arity. rewrite EV, app_length. cbn. lia. }
    rewrite A0. apply In_match_cons. apply in_map. rewrite EV.
    now apply succ_args_intro.
  Qed.

  Lemma Reach_lift c d o pre x x' post vpre v vpost :
    variance H o = vpre ++ v :: vpost -> length vpre = length pre ->
    Reach c (dirv d v) x x' ->
    Reach c d (TOp o (pre ++ x :: post)) (TOp o (pre ++ x' :: post)).
  Proof.
    intros EV L R. induction R as [t|t u s Hu _ IH]; [constructor|].
    eapply reach_step; [|exact IH]. eapply gen_lift; eauto.
  Qed.

  (* parameters related pointwise, each in its variant direction *)
  Inductive Args3 (R : bool -> ty -> ty -> Prop) : list bool -> list ty -> list ty -> Prop :=
  | A3_nil : Args3 R [] [] []
  | A3_cons v vs y ys x xs : R v y x -> Args3 R vs ys xs -> Args3 R (v :: vs) (y :: ys) (x :: xs).

  Lemma Reach_args c d o : forall vs ys xs vpre pre,
    variance H o = vpre ++ vs -> length vpre = length pre ->
    Args3 (fun v y x => Reach c (dirv d v) y x) vs ys xs ->
    Reach c d (TOp o (pre ++ ys)) (TOp o (pre ++ xs)).
  Proof.
    intros vs ys xs vpre pre EV L A. revert vpre pre EV L.
    induction A as [|v vs y ys x xs R A IH]; intros vpre pre EV L; [constructor|].
    eapply Reach_trans.
    - eapply Reach_lift; eauto.
    - specialize (IH (vpre ++ [v]) (pre ++ [x])).
      rewrite <- !app_assoc in IH. cbn in IH. apply IH; auto.
      rewrite !app_length. cbn. lia.
  Qed.

  Corollary Reach_params c d o ys xs :
    Args3 (fun v y x => Reach c (dirv d v) y x) (variance H o) ys xs ->
    Reach c d (TOp o ys) (TOp o xs).
  Proof. intros A. apply (Reach_args c d o (variance H o) ys xs [] []); auto. Qed.

  (* ---------- base types: walking the declared chain ---------- *)
  Lemma gen_base c d o : variance H o = [] -> gen c d (TOp o []) = succ_base H ops c top bot [] d o.
  Proof. intros V. unfold gen. cbn [succ]. unfold arity. now rewrite V. Qed.

  Lemma step_child o c : parent H c = Some o -> In (TOp c []) (gen true DOWN (TOp o [])).
  Proof.
    intros E. pose proof (wf_parent_base H W _ _ E) as (_ & Vp & NT & _).
    rewrite gen_base; auto. unfold succ_base, DOWN.
    apply Nat.eqb_neq in NT. rewrite NT.
    assert (Hc : In c (children H ops o)) by now apply children_spec.
    destruct (children H ops o) as [|c' cs]; [contradiction|].
    apply in_map_iff. eauto.
  Qed.

  Lemma step_parent o p : parent H o = Some p -> In (TOp p []) (gen true UP (TOp o [])).
  Proof.
    intros E. pose proof (wf_parent_base H W _ _ E) as (Vo & _).
    rewrite gen_base; auto. unfold succ_base, UP.
    assert (NB : Nat.eqb o Bottom = false).
    { apply Nat.eqb_neq. intros ->. destruct (wf_bot H W). congruence. }
    rewrite NB, E. now left.
  Qed.

  Lemma reach_down_anc a b : Anc H a b -> Reach true DOWN (TOp b []) (TOp a []).
  Proof.
    induction 1 as [a|a p b Hp _ IH]; [constructor|].
    eapply Reach_snoc; [exact IH|]. now apply step_child.
  Qed.

  Lemma reach_up_anc a b : Anc H a b -> Reach true UP (TOp a []) (TOp b []).
  Proof.
    induction 1 as [a|a p b Hp _ IH]; [constructor|].
    eapply reach_step; [|exact IH]. now apply step_parent.
  Qed.

  (* ---------- every type reaches a type without successors ---------- *)
  Definition stuck (c d : bool) (e : ty) : Prop := gen c d e = [].

  Lemma no_child_of_bot c : ~ In c (children H ops Bottom).
  Proof.
    intros Hc. apply children_spec in Hc.
    now pose proof (wf_parent_base H W _ _ Hc) as (_ & _ & _ & NB).
  Qed.

  Lemma stuck_bot c : stuck c DOWN tBot.
  Proof.
    unfold stuck, tBot. rewrite gen_base by apply (var_bot H W).
    unfold succ_base, DOWN. cbn [Nat.eqb Bottom Top].
    assert (E : (if c then children H ops Bottom else []) = []).
    { destruct c; auto. destruct (children H ops Bottom) as [|x l] eqn:E; auto.
      exfalso. apply (no_child_of_bot x). rewrite E. now left. }
    rewrite E. now rewrite andb_false_r.
  Qed.

  Lemma stuck_top c : stuck c UP tTop.
  Proof.
    unfold stuck, tTop. rewrite gen_base by apply (var_top H W).
    unfold succ_base, UP. cbn [Nat.eqb Bottom Top].
    destruct (wf_top H W) as [PT _].
    assert (E : (if c then parent H Top else None) = None) by (destruct c; auto).
    rewrite E. now rewrite andb_false_r.
  Qed.

  Lemma ext_base_up c : forall n o, o <= n -> variance H o = [] ->
    exists e, Reach c UP (TOp o []) e /\ stuck c UP e.
  Proof.
    induction n as [|n IH]; intros o L V.
    - assert (o = Top) by (unfold Top; lia). subst o. exists tTop. split; [constructor|apply stuck_top].
    - destruct (Nat.eqb o Bottom) eqn:EB.
      { apply Nat.eqb_eq in EB. subst o. destruct top eqn:T.
        - exists tTop. split; [|apply stuck_top].
          eapply reach_step; [|constructor]. rewrite gen_base by auto.
          unfold succ_base, UP. cbn. rewrite T. now left.
        - exists tBot. split; [constructor|]. unfold stuck, tBot. rewrite gen_base by auto.
          unfold succ_base, UP. cbn. now rewrite T. }
      destruct (if c then parent H o else None) as [p|] eqn:EP.
      + destruct c; [|discriminate].
        pose proof (wf_parent_lt H W _ _ EP) as Lt.
        pose proof (wf_parent_base H W _ _ EP) as (_ & Vp & _).
        destruct (IH p) as (e & R & S); auto; [lia|].
        exists e. split; auto. eapply reach_step; [|exact R]. now apply step_parent.
      + destruct (top && negb (Nat.eqb o Top)) eqn:T.
        * exists tTop. split; [|apply stuck_top].
          eapply reach_step; [|constructor]. rewrite gen_base by auto.
          unfold succ_base, UP. rewrite EB, EP, T. now left.
        * exists (TOp o []). split; [constructor|]. unfold stuck. rewrite gen_base by auto.
          unfold succ_base, UP. now rewrite EB, EP, T.
  Qed.

  Lemma ext_base_down c : forall k o, S (list_max ops) - o <= k -> variance H o = [] ->
    exists e, Reach c DOWN (TOp o []) e /\ stuck c DOWN e.
  Proof.
    induction k as [|k IH]; intros o L V.
    - (* o is above every declared operator: no children *)
      assert (NC : children H ops o = []).
      { destruct (children H ops o) as [|x l] eqn:E; auto. exfalso.
        assert (Hx : In x (children H ops o)) by (rewrite E; now left).
        pose proof Hx as Hx'. apply children_spec in Hx'. apply (wf_parent_lt H W) in Hx'.
        unfold children in Hx. apply filter_In in Hx. destruct Hx as [Hx _].
        pose proof (proj1 (list_max_le ops (list_max ops)) (le_n _)) as F.
        rewrite Forall_forall in F. apply F in Hx. lia. }
      destruct (Nat.eqb o Top) eqn:ET.
      { apply Nat.eqb_eq in ET. subst o. destruct bot eqn:B.
        - exists tBot. split; [|apply stuck_bot].
          eapply reach_step; [|constructor]. rewrite gen_base by auto.
          unfold succ_base, DOWN. cbn. rewrite B. now left.
        - exists tTop. split; [constructor|]. unfold stuck, tTop. rewrite gen_base by auto.
          unfold succ_base, DOWN. cbn. now rewrite B. }
      destruct (bot && negb (Nat.eqb o Bottom)) eqn:B.
      + exists tBot. split; [|apply stuck_bot].
        eapply reach_step; [|constructor]. rewrite gen_base by auto.
        unfold succ_base, DOWN. rewrite ET, NC, B. destruct c; now left.
      + exists (TOp o []). split; [constructor|]. unfold stuck. rewrite gen_base by auto.
        unfold succ_base, DOWN. rewrite ET, NC, B. now destruct c.
    - destruct (Nat.eqb o Top) eqn:ET.
      { apply Nat.eqb_eq in ET. subst o. destruct bot eqn:B.
        - exists tBot. split; [|apply stuck_bot].
          eapply reach_step; [|constructor]. rewrite gen_base by auto.
          unfold succ_base, DOWN. cbn. rewrite B. now left.
        - exists tTop. split; [constructor|]. unfold stuck, tTop. rewrite gen_base by auto.
          unfold succ_base, DOWN. cbn. now rewrite B. }
      destruct (if c then children H ops o else []) as [|x l] eqn:EC.
      + destruct (bot && negb (Nat.eqb o Bottom)) eqn:B.
        * exists tBot. split; [|apply stuck_bot].
          eapply reach_step; [|constructor]. rewrite gen_base by auto.
          unfold succ_base, DOWN. rewrite ET, EC, B. now left.
        * exists (TOp o []). split; [constructor|]. unfold stuck. rewrite gen_base by auto.
          unfold succ_base, DOWN. now rewrite ET, EC, B.
      + destruct c; [|discriminate].
        assert (Hx : In x (children H ops o)) by (rewrite EC; now left).
        pose proof Hx as Hp. apply children_spec in Hp.
        pose proof (wf_parent_lt H W _ _ Hp) as Lt.
        pose proof (wf_parent_base H W _ _ Hp) as (Vx & _).
        destruct (IH x) as (e & R & S); auto; [lia|].
        exists e. split; auto. eapply reach_step; [|exact R]. now apply step_child.
  Qed.

  Lemma nil_len0 {A} (l : list A) : length l = 0 -> l = [].
  Proof. destruct l; [auto|discriminate]. Qed.

  Lemma succ_args_stuck c d : forall vs es,
    Args3 (fun v e _ => stuck c (dirv d v) e) vs es es ->
    succ_args (fun d' x => succ H ops c top bot [] d' x) d vs es = [].
  Proof.
    intros vs es A. remember es as es' in A at 2.
    assert (True) by exact I. clear Heqes'.
    induction A as [|v vs e es x xs S A IH]; auto.
    cbn [succ_args]. unfold stuck, gen in S. rewrite S. cbn. now rewrite IH.
  Qed.

  Theorem ext c t : wf_ty H t -> forall d, exists e, Reach c d t e /\ stuck c d e.
  Proof.
    induction t as [o args IH] using ty_ind'. intros Wt d.
    apply wf_ty_unfold in Wt. destruct Wt as [Len Fw].
    destruct (variance H o) as [|v0 vs0] eqn:V.
    - apply nil_len0 in Len. subst args.
      destruct d; [eapply ext_base_down|eapply ext_base_up]; eauto.
    - (* move every parameter to a stuck one *)
      assert (E : exists es, Args3 (fun v y x => Reach c (dirv d v) y x) (variance H o) args es /\
                             Args3 (fun v e _ => stuck c (dirv d v) e) (variance H o) es es).
      { rewrite V. clear V. revert Len. generalize (v0 :: vs0) as vs. intros vs.
        revert vs. induction args as [|a args IHa]; intros [|v vs] Len; cbn in Len; try discriminate.
        - exists []. split; constructor.
        - inversion IH as [|? ? Ha IH']; subst. inversion Fw as [|? ? Wa Fw']; subst.
          destruct (IHa IH' Fw' vs) as (es & A1 & A2); [lia|].
          destruct (Ha Wa (dirv d v)) as (e & R & S).
          exists (e :: es). split; constructor; auto. }
      destruct E as (es & A1 & A2).
      pose proof (Reach_params c d o args es A1) as R.
      assert (G : gen c d (TOp o es) = fallback top bot d).
      { unfold gen. cbn [succ]. unfold arity. rewrite V. cbn [length Nat.eqb].
        rewrite <- V. rewrite (succ_args_stuck c d _ _ A2). reflexivity. }
      unfold fallback in G. destruct d.
      + destruct bot eqn:B.
        * exists tBot. split; [|apply stuck_bot]. eapply Reach_snoc; [exact R|]. rewrite G. now left.
        * exists (TOp o es). split; auto.
      + destruct top eqn:T.
        * exists tTop. split; [|apply stuck_top]. eapply Reach_snoc; [exact R|]. rewrite G. now left.
        * exists (TOp o es). split; auto.
  Qed.

  (* with Bottom requested the only type without DOWN successors is Bottom *)
  Lemma stuck_down_is_bot c e : bot = true -> wf_ty H e -> stuck c DOWN e -> e = tBot.
  Proof.
    intros B We S. destruct e as [o args]. unfold stuck, gen in S. cbn [succ] in S.
    apply wf_ty_unfold in We. destruct We as [Len _].
    destruct (Nat.eqb (arity H o) 0) eqn:A0.
    - apply Nat.eqb_eq in A0. unfold arity in A0. rewrite A0 in Len. apply nil_len0 in Len. subst args.
      unfold succ_base, DOWN in S. rewrite B in S. destruct (Nat.eqb o Top); [discriminate|].
      destruct (if c then children H ops o else []); [|discriminate].
      cbn in S. destruct (Nat.eqb o Bottom) eqn:EB; [|discriminate].
      apply Nat.eqb_eq in EB. now subst.
    - unfold fallback, DOWN in S. rewrite B in S.
      destruct (map (TOp o) _); discriminate.
  Qed.

  Lemma stuck_up_is_top c e : top = true -> wf_ty H e -> stuck c UP e -> e = tTop.
  Proof.
    intros B We S. destruct e as [o args]. unfold stuck, gen in S. cbn [succ] in S.
    apply wf_ty_unfold in We. destruct We as [Len _].
    destruct (Nat.eqb (arity H o) 0) eqn:A0.
    - apply Nat.eqb_eq in A0. unfold arity in A0. rewrite A0 in Len. apply nil_len0 in Len. subst args.
      unfold succ_base, UP in S. rewrite B in S. destruct (Nat.eqb o Bottom); [discriminate|].
      destruct (if c then parent H o else None); [discriminate|].
      cbn in S. destruct (Nat.eqb o Top) eqn:EB; [|discriminate].
      apply Nat.eqb_eq in EB. now subst.
    - unfold fallback, UP in S. rewrite B in S.
      destruct (map (TOp o) _); discriminate.
  Qed.

  Corollary reach_bottom c t : bot = true -> good t -> Reach c DOWN t tBot.
  Proof.
    intros B G. destruct (ext c t (proj1 G) DOWN) as (e & R & S).
    pose proof (Reach_good _ _ _ _ G R) as [We _].
    now rewrite <- (stuck_down_is_bot c e B We S).
  Qed.

  Corollary reach_top c t : top = true -> good t -> Reach c UP t tTop.
  Proof.
    intros B G. destruct (ext c t (proj1 G) UP) as (e & R & S).
    pose proof (Reach_good _ _ _ _ G R) as [We _].
    now rewrite <- (stuck_up_is_top c e B We S).
  Qed.

  (* ---------- the chain theorem ---------- *)
  Lemma chain_args d vs : forall ys xs,
    Forall (fun y => plain y -> wf_ty H y -> forall d' s, wf_ty H s -> allowed top bot s ->
                     dirSub H d' s y -> Reach true d' y s) ys ->
    Forall plain ys -> Forall (wf_ty H) ys -> Forall (wf_ty H) xs -> Forall (allowed top bot) xs ->
    dirArgs H d vs xs ys ->
    Args3 (fun v y x => Reach true (dirv d v) y x) vs ys xs.
  Proof.
    induction vs as [|v vs IH]; intros ys xs F Fp Fwy Fwx Fax A.
    - destruct d; inversion A; subst; constructor.
    - assert (E : exists x xs' y ys', xs = x :: xs' /\ ys = y :: ys' /\
                 dirSub H (dirv d v) x y /\
                 dirArgs H d vs xs' ys').
      { destruct d; cbn [dirArgs] in A; apply AR_cons_inv in A.
        - destruct A as (x & y & xs' & ys' & -> & -> & R & A'). exists x, xs', y, ys'.
          repeat split; auto. destruct v; exact R.
        - destruct A as (y & x & ys' & xs' & -> & -> & R & A'). exists x, xs', y, ys'.
          repeat split; auto. destruct v; exact R. }
      destruct E as (x & xs' & y & ys' & -> & -> & R & A').
      inversion F; subst. inversion Fp; subst. inversion Fwy; subst.
      inversion Fwx; subst. inversion Fax; subst.
      constructor; auto.
  Qed.

  Theorem chain t : plain t -> wf_ty H t -> forall d s, wf_ty H s -> allowed top bot s ->
    dirSub H d s t -> Reach true d t s.
  Proof.
    induction t as [o ys IH] using ty_ind'. intros Pt Wt d s Ws As S.
    pose proof Pt as Pt'. apply plain_unfold in Pt'. destruct Pt' as (NT & NB & Fp).
    pose proof Wt as Wt'. apply wf_ty_unfold in Wt'. destruct Wt' as [Len Fw].
    assert (Gt : good (TOp o ys)) by (split; auto; now apply plain_allowed).
    destruct d; cbn [dirSub] in S.
    - inversion S as [t'|t'|a b Va A|o' xs ys' Vo AR]; subst.
      + apply reach_bottom; auto. apply allowed_unfold in As. now apply As.
      + congruence.
      + now apply reach_down_anc.
      + apply Reach_params. apply wf_ty_unfold in Ws. apply allowed_unfold in As.
        eapply chain_args with (d := true); eauto; tauto.
    - inversion S as [t'|t'|a b Va A|o' xs' ys' Vo AR]; subst.
      + congruence.
      + apply reach_top; auto. apply allowed_unfold in As. now apply As.
      + now apply reach_up_anc.
      + apply Reach_params. apply wf_ty_unfold in Ws. apply allowed_unfold in As.
        eapply chain_args with (d := false); eauto; tauto.
  Qed.
End SuccProofs.
