(* A generic stack-driven closure computation, as used by
   Language.expand_canon (transforge/lang.py:116-130) and by rdflib's
   Graph.transitive_subjects (used in graph.py:153-158).

   [wl fuel stack seen]: pop the top of the stack, add it to [seen], push
   those one-step successors that are not yet in [seen]; stop when the stack
   is empty.  Which successors are pushed, and in which order, is a parameter
   ([push]) constrained only by soundness and completeness w.r.t. [step], so
   the theorem holds for every iteration order of Python's sets. *)
From Coq Require Import List Arith Bool Lia.
Import ListNotations.

Section Worklist.
  Context {A : Type}.
  Variable eqb : A -> A -> bool.
  Hypothesis eqb_ok : forall a b, eqb a b = true <-> a = b.

  Definition mem (x : A) (l : list A) : bool := existsb (eqb x) l.

  Lemma mem_In x l : mem x l = true <-> In x l.
  Proof.
    unfold mem. rewrite existsb_exists. split.
    - intros (y & Hy & E). apply eqb_ok in E. now subst.
    - intros Hx. exists x. split; auto. now apply eqb_ok.
  Qed.

  Variable step : A -> list A.
  Variable push : A -> list A -> list A.
  Hypothesis push_sound : forall x seen y, In y (push x seen) -> In y (step x).
  Hypothesis push_complete : forall x seen y, In y (step x) -> In y (push x seen) \/ In y seen.

  Definition add (x : A) (seen : list A) : list A := if mem x seen then seen else x :: seen.

  Lemma add_In x seen y : In y (add x seen) <-> y = x \/ In y seen.
  Proof.
    unfold add. destruct (mem x seen) eqn:E; cbn.
    - apply mem_In in E. split; auto. intros [->|Hy]; auto.
    - split; intros [Hy|Hy]; auto.
  Qed.

  Fixpoint wl (fuel : nat) (stack seen : list A) : option (list A) :=
    match stack with
    | [] => Some seen
    | x :: st =>
        match fuel with
        | 0 => None
        | S f => let seen' := add x seen in wl f (push x seen' ++ st) seen'
        end
    end.

  (* least set containing [init] and closed under [step] *)
  Inductive Clo (init : list A) : A -> Prop :=
  | clo_init x : In x init -> Clo init x
  | clo_step x y : Clo init x -> In y (step x) -> Clo init y.

  Definition Inv (init stack seen : list A) : Prop :=
    (forall x, In x stack \/ In x seen -> Clo init x) /\
    (forall x, In x init -> In x stack \/ In x seen) /\
    (forall x, In x seen -> In x stack \/ forall y, In y (step x) -> In y stack \/ In y seen).

  Lemma wl_inv init : forall fuel stack seen r,
    Inv init stack seen -> wl fuel stack seen = Some r ->
    forall x, In x r <-> Clo init x.
  Proof.
    induction fuel as [|f IH]; intros stack seen r (I1 & I2 & I3) E.
    - destruct stack as [|x st]; [|discriminate]. injection E as <-.
      intros x. split.
      + intros Hx. apply I1. now right.
      + intros C. induction C as [x Hx|x y _ IHx Hy].
        * destruct (I2 x Hx) as [[]|]; auto.
        * destruct (I3 x IHx) as [[]|P]. destruct (P y Hy) as [[]|]; auto.
    - destruct stack as [|x st].
      { apply (IH [] seen r); [repeat split; auto|]. destruct f; exact E. }
      cbn [wl] in E. eapply IH; [|exact E]. clear IH E.
      assert (Cx : Clo init x) by (apply I1; left; now left).
      repeat split.
      + intros y [Hy|Hy].
        * apply in_app_or in Hy. destruct Hy as [Hy|Hy].
          -- apply push_sound in Hy. eapply clo_step; eauto.
          -- apply I1. left. now right.
        * apply add_In in Hy. destruct Hy as [->|Hy]; auto.
      + intros y Hy. destruct (I2 y Hy) as [[->|Hy']|Hy'].
        * right. apply add_In. now left.
        * left. apply in_or_app. now right.
        * right. apply add_In. now right.
      + intros z Hz. apply add_In in Hz.
        assert (Px : forall y, In y (step x) ->
                  In y (push x (add x seen) ++ st) \/ In y (add x seen)).
        { intros y Hy. destruct (push_complete x (add x seen) y Hy); auto.
          left. apply in_or_app. now left. }
        destruct Hz as [->|Hz]; [now right|].
        destruct (I3 z Hz) as [[->|Hz']|P].
        * now right.
        * left. apply in_or_app. now right.
        * right. intros y Hy. destruct (P y Hy) as [[->|Hy']|Hy'].
          -- right. apply add_In. now left.
          -- left. apply in_or_app. now right.
          -- right. apply add_In. now right.
  Qed.

  (* Language.expand_canon starts with stack = list(canon) and canon itself *)
  Theorem wl_correct fuel stack0 seen0 r :
    (forall x, In x seen0 -> In x stack0) ->
    wl fuel stack0 seen0 = Some r ->
    forall x, In x r <-> Clo stack0 x.
  Proof.
    intros Hs. apply wl_inv. repeat split.
    - intros x [Hx|Hx]; apply clo_init; auto.
    - intros x Hx. now left.
    - intros x Hx. left. auto.
  Qed.

  (* more fuel never changes a completed run *)
  Lemma wl_mono : forall fuel stack seen r, wl fuel stack seen = Some r ->
    forall fuel', fuel <= fuel' -> wl fuel' stack seen = Some r.
  Proof.
    induction fuel as [|f IH]; intros stack seen r E fuel' L.
    - destruct stack; [|discriminate]. destruct fuel'; exact E.
    - destruct stack as [|x st]; [destruct fuel'; exact E|].
      destruct fuel' as [|f']; [lia|]. cbn [wl] in *. apply IH with (fuel' := f') in E; auto. lia.
  Qed.

  (* a completed run never lists an element twice *)
  Lemma wl_nodup : forall fuel stack seen r, NoDup seen ->
    wl fuel stack seen = Some r -> NoDup r.
  Proof.
    induction fuel as [|f IH]; intros stack seen r N E.
    - destruct stack; [|discriminate]. now injection E as <-.
    - destruct stack as [|x st]; [now injection E as <-|].
      cbn [wl] in E. apply IH in E; auto.
      unfold add. destruct (mem x seen) eqn:M; auto.
      constructor; auto. intros Hx. apply mem_In in Hx. congruence.
  Qed.
End Worklist.
