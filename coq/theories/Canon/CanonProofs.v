(* Theorems about the canonical set and the taxonomy read off it. *)
From Coq Require Import List Arith Bool Lia.
Import ListNotations.
From TF Require Import Base.Hier Base.Ty Sub.Match Sub.SubSpec Sub.SubProofs.
From TF Require Import Canon.Worklist Canon.Succ Canon.Canon Canon.SuccProofs.

Lemma tmem_In x l : tmem x l = true <-> In x l.
Proof. apply mem_In. apply ty_eqb_eq. Qed.

Lemma nonempty_In {A} (l : list A) : l <> [] -> exists x, In x l.
Proof. destruct l as [|x r]; [congruence|]. intros _. exists x. now left. Qed.

(* ================= the canonical set ================= *)
Section CanonSet.
  Variable H : hier.
  Hypothesis W : wf_hier H.
  Variable ops : list nat.
  Hypothesis Wops : forall o p, parent H o = Some p -> In o ops.
  Variables (top bot : bool).
  Variable listed : list ty.
  Hypothesis listed_wf : Forall (wf_ty H) listed.
  Hypothesis listed_plain : Forall plain listed.

  Notation step := (can_step H ops top bot).
  Notation push := (can_push H ops top bot).

  Lemma push_sound x seen y : In y (push x seen) -> In y (step x).
  Proof.
    unfold can_push, can_step. intros Hy. apply in_app_or in Hy.
    apply in_or_app. destruct Hy as [Hy|Hy]; apply in_rev in Hy; apply filter_In in Hy; tauto.
  Qed.

  Lemma push_complete x seen y : In y (step x) -> In y (push x seen) \/ In y seen.
  Proof.
    unfold can_push, can_step. intros Hy.
    destruct (tmem y seen) eqn:M; [right; now apply tmem_In|left].
    apply in_app_or in Hy. apply in_or_app.
    destruct Hy as [Hy|Hy]; [right|left]; apply -> in_rev; apply filter_In; rewrite M; auto.
  Qed.

  (* the canonical set is the least set that contains the listed types and is
     closed under the two one-step enumerations, whatever the stack order *)
  Theorem expand_canon_closure fuel stack0 c :
    (forall x, In x stack0 <-> In x listed) ->
    expand_canon H ops top bot fuel stack0 listed = Some c ->
    forall s, In s c <-> Clo step listed s.
  Proof.
    intros E R s. unfold expand_canon in R.
    rewrite (wl_correct ty_eqb ty_eqb_eq step push push_sound push_complete fuel stack0 listed c);
      [|intros x Hx; now apply E|exact R].
    split; intros C; induction C as [x Hx|x y _ IH Hy]; try (apply clo_init; now apply E);
      eapply clo_step; eauto.
  Qed.

  Lemma good_listed t : In t listed -> good H top bot t.
  Proof.
    intros Ht. pose proof (proj1 (Forall_forall _ _) listed_wf) as Fw.
    pose proof (proj1 (Forall_forall _ _) listed_plain) as Fp.
    split; auto. apply plain_allowed. auto.
  Qed.

  Lemma Clo_good s : Clo step listed s -> good H top bot s.
  Proof.
    induction 1 as [x Hx|x y _ IH Hy]; [now apply good_listed|].
    unfold can_step in Hy. apply in_app_or in Hy.
    destruct Hy as [Hy|Hy]; eapply (gen_good H W ops Wops top bot); eauto.
  Qed.

  Lemma Reach_Clo (d : bool) t s : Clo step listed t ->
    Reach H ops top bot d d t s -> Clo step listed s.
  Proof.
    intros C R. induction R as [t|t u s Hu _ IH]; auto.
    apply IH. eapply clo_step; eauto. unfold can_step, gen_up, gen_down, gen in *.
    apply in_or_app. destruct d; auto.
  Qed.

  Section Result.
    Variables (fuel : nat) (stack0 c : list ty).
    Hypothesis stack_ok : forall x, In x stack0 <-> In x listed.
    Hypothesis run : expand_canon H ops top bot fuel stack0 listed = Some c.

    (* every subtype of a listed type that mentions Bottom/Top only if
       requested is canonical *)
    Theorem canon_complete t s : In t listed -> wf_ty H s -> allowed top bot s ->
      Sub H s t -> In s c.
    Proof.
      intros Ht Ws As S. apply (expand_canon_closure fuel stack0 c stack_ok run).
      apply (Reach_Clo DOWN t s); [now apply clo_init|].
      pose proof (proj1 (Forall_forall _ _) listed_wf) as Fw.
      pose proof (proj1 (Forall_forall _ _) listed_plain) as Fp.
      apply (chain H W ops Wops top bot t); auto.
    Qed.

    Theorem canon_listed t : In t listed -> In t c.
    Proof.
      intros Ht. apply (expand_canon_closure fuel stack0 c stack_ok run). now apply clo_init.
    Qed.

    (* canonical types are well-formed and respect the flags *)
    Theorem canon_good s : In s c -> wf_ty H s /\ allowed top bot s.
    Proof.
      intros Hs. apply (expand_canon_closure fuel stack0 c stack_ok run) in Hs.
      now apply Clo_good.
    Qed.

    Theorem canon_has_bottom : bot = true -> listed <> [] -> In tBot c.
    Proof.
      intros B NE. destruct (nonempty_In _ NE) as [t Ht].
      apply (canon_complete t); [exact Ht| | |constructor].
      - apply (good_bot H W top bot B).
      - apply (good_bot H W top bot B).
    Qed.

    Theorem canon_has_top : top = true -> listed <> [] -> In tTop c.
    Proof.
      intros B NE. destruct (nonempty_In _ NE) as [t Ht].
      apply (expand_canon_closure fuel stack0 c stack_ok run).
      apply (Reach_Clo UP t tTop); [now apply clo_init|].
      apply reach_top; auto. now apply good_listed.
    Qed.

    Theorem canon_nodup : NoDup listed -> NoDup c.
    Proof. intros N. unfold expand_canon in run. eapply wl_nodup; eauto. apply ty_eqb_eq. Qed.
  End Result.
End CanonSet.

(* ================= the taxonomy ================= *)
Lemma filter_length_lt {A} (f g : A -> bool) (l : list A) :
  (forall x, In x l -> f x = true -> g x = true) ->
  (exists x, In x l /\ g x = true /\ f x = false) ->
  length (filter f l) < length (filter g l).
Proof.
  induction l as [|a l IH]; intros Himp (x & Hx & Gx & Fx); [contradiction|].
  assert (Le : forall l', (forall x, In x l' -> f x = true -> g x = true) ->
                length (filter f l') <= length (filter g l')).
  { induction l' as [|b l' IH']; intros Hi; cbn; auto.
    destruct (f b) eqn:Fb.
    - rewrite (Hi b (or_introl eq_refl) Fb). cbn. apply le_n_S. apply IH'. intros; apply Hi; auto. now right.
    - destruct (g b); cbn; [apply le_S|]; apply IH'; intros; apply Hi; auto; now right. }
  cbn. destruct Hx as [->|Hx].
  - rewrite Fx, Gx. cbn. apply le_n_S. apply Le. intros; apply Himp; auto. now right.
  - assert (IH' : length (filter f l) < length (filter g l)).
    { apply IH; [intros; apply Himp; auto; now right|eauto]. }
    destruct (f a) eqn:Fa.
    + rewrite (Himp a (or_introl eq_refl) Fa). cbn. lia.
    + destruct (g a); cbn; lia.
Qed.

Section Taxonomy.
  Variable H : hier.
  Hypothesis W : wf_hier H.
  Variable canon : list ty.
  Hypothesis canon_wf : Forall (wf_ty H) canon.

  Notation ltb := (ltb H).
  Notation below := (below H).
  Notation lang_succ := (lang_succ H canon).

  (* strict subtype in the declarative order *)
  Definition Lt (s t : ty) : Prop := Sub H s t /\ s <> t.

  Lemma ltb_spec s t : wf_ty H s -> wf_ty H t -> (ltb s t = true <-> Lt s t).
  Proof.
    intros Ws Wt. unfold Canon.ltb, Lt.
    pose proof (is_subtype_spec H W true s t Ws Wt) as S.
    destruct (is_subtype H true s t) as [[|]|].
    - split; auto. intros _. destruct S as [S _]. destruct (S eq_refl). split; auto.
    - split; [discriminate|]. intros [A B]. destruct S as [_ S].
      specialize (S (conj A (fun _ => B))). discriminate.
    - split; [discriminate|]. intros [A B]. destruct S as [_ S].
      specialize (S (conj A (fun _ => B))). discriminate.
  Qed.

  Lemma wfc x : In x canon -> wf_ty H x.
  Proof. rewrite Forall_forall in canon_wf. auto. Qed.

  Lemma ltb_irrefl t : wf_ty H t -> ltb t t = false.
  Proof.
    intros Wt. destruct (ltb t t) eqn:E; auto. apply ltb_spec in E; auto. destruct E. congruence.
  Qed.

  Lemma ltb_trans a b c : wf_ty H a -> wf_ty H b -> wf_ty H c ->
    ltb a b = true -> ltb b c = true -> ltb a c = true.
  Proof.
    intros Wa Wb Wc E1 E2. apply ltb_spec in E1, E2; auto. apply ltb_spec; auto.
    destruct E1 as [S1 N1], E2 as [S2 N2]. split.
    - eapply Sub_trans; eauto.
    - intros ->. apply N1. eapply Sub_antisym; eauto.
  Qed.

  Lemma below_irrefl d t : wf_ty H t -> below d t t = false.
  Proof. destruct d; apply ltb_irrefl. Qed.

  Lemma below_trans d a b c : wf_ty H a -> wf_ty H b -> wf_ty H c ->
    below d a b = true -> below d b c = true -> below d a c = true.
  Proof. destruct d; cbn; intros; eauto using ltb_trans. Qed.

  Lemma below_flip d a b : below d a b = below (negb d) b a.
  Proof. now destruct d. Qed.

  (* what Language.successors yields *)
  Lemma lang_succ_direct d t s : In s (lang_succ d t false) <->
    In s canon /\ below d s t = true /\
    forall u, In u canon -> below d u t = true -> below d s u = false.
  Proof.
    unfold Canon.lang_succ, related. rewrite !filter_In. cbn [orb]. split.
    - intros [[Hs B] N]. repeat split; auto. intros u Hu Bu.
      apply negb_true_iff in N. destruct (below d s u) eqn:E; auto.
      assert (X : existsb (fun u => below d s u) (filter (fun s0 => below d s0 t) canon) = true).
      { apply existsb_exists. exists u. split; auto. apply filter_In. auto. }
      congruence.
    - intros (Hs & B & N). repeat split; auto. apply negb_true_iff.
      destruct (existsb _ _) eqn:E; auto. apply existsb_exists in E.
      destruct E as (u & Hu & Bu). apply filter_In in Hu. destruct Hu as [Hu Bt].
      rewrite (N u Hu Bt) in Bu. discriminate.
  Qed.

  Lemma lang_succ_trans d t s : In s (lang_succ d t true) <-> In s canon /\ below d s t = true.
  Proof. unfold Canon.lang_succ, related. rewrite !filter_In. cbn [orb]. tauto. Qed.

  (* transitive=True yields exactly the canonical strict subtypes / supertypes *)
  Theorem transitive_exact t s : wf_ty H t ->
    (In s (lang_succ DOWN t true) <-> In s canon /\ Lt s t) /\
    (In s (lang_succ UP t true) <-> In s canon /\ Lt t s).
  Proof.
    intros Wt. rewrite !lang_succ_trans. unfold DOWN, UP. cbn [Canon.below].
    split; split; intros [Hs B]; split; auto; (apply ltb_spec in B || apply ltb_spec); auto using wfc.
  Qed.

  (* every reported direct link is a strict subtype pair of canonical types *)
  Theorem links_sound t s : wf_ty H t ->
    (In s (subtypes H canon t) -> In s canon /\ Lt s t) /\
    (In s (supertypes H canon t) -> In s canon /\ Lt t s).
  Proof.
    intros Wt. unfold subtypes, supertypes. rewrite !lang_succ_direct.
    split; intros (Hs & B & _); split; auto; apply ltb_spec in B; auto using wfc.
  Qed.

  (* direct subtype and supertype links mirror each other *)
  Theorem mirror s t : In s canon -> In t canon ->
    (In s (subtypes H canon t) <-> In t (supertypes H canon s)).
  Proof.
    intros Hs Ht. unfold subtypes, supertypes. rewrite !lang_succ_direct.
    unfold DOWN, UP. cbn [Canon.below]. split.
    - intros (_ & B & N). repeat split; auto. intros u Hu Bu.
      destruct (ltb u t) eqn:E; auto. rewrite (N u Hu E) in Bu. discriminate.
    - intros (_ & B & N). repeat split; auto. intros u Hu Bu.
      destruct (ltb s u) eqn:E; auto. rewrite (N u Hu E) in Bu. discriminate.
  Qed.

  (* reachability through the direct links (at least one step) *)
  Inductive LReach (d : bool) : ty -> ty -> Prop :=
  | lr_one t s : In s (lang_succ d t false) -> LReach d t s
  | lr_step t u s : In u (lang_succ d t false) -> LReach d u s -> LReach d t s.

  Lemma LReach_trans d a b c : LReach d a b -> LReach d b c -> LReach d a c.
  Proof. induction 1; intros; eauto using LReach. Qed.

  Lemma LReach_sound d t s : wf_ty H t -> LReach d t s -> In s canon /\ below d s t = true.
  Proof.
    intros Wt R. induction R as [t s Hs|t u s Hu R IH].
    - apply lang_succ_direct in Hs. tauto.
    - apply lang_succ_direct in Hu. destruct Hu as (Hu & Bu & _).
      destruct (IH (wfc u Hu)) as [Hs Bs]. split; auto.
      apply (below_trans d s u t); auto using wfc.
  Qed.

  Lemma LReach_complete d : forall n t s, wf_ty H t -> In s canon -> below d s t = true ->
    length (filter (fun u => below d s u && below d u t) canon) <= n -> LReach d t s.
  Proof.
    induction n as [|n IH]; intros t s Wt Hs B L.
    - (* nothing in between: s is a direct link *)
      apply lr_one. apply lang_succ_direct. repeat split; auto. intros u Hu Bu.
      destruct (below d s u) eqn:E; auto. exfalso.
      assert (X : In u (filter (fun u => below d s u && below d u t) canon)).
      { apply filter_In. split; auto. now rewrite E, Bu. }
      destruct (filter _ canon); [contradiction|cbn in L; lia].
    - destruct (existsb (fun u => below d s u) (related H canon d t)) eqn:E.
      + apply existsb_exists in E. destruct E as (u & Hu & Bsu).
        apply filter_In in Hu. destruct Hu as [Hu But].
        pose proof (wfc s Hs) as Ws. pose proof (wfc u Hu) as Wu.
        apply LReach_trans with (b := u); apply IH; auto.
        * (* between u and t: fewer than between s and t, u itself is dropped *)
          apply Nat.lt_succ_r. eapply Nat.lt_le_trans; [|exact L].
          apply filter_length_lt.
          -- intros x Hx Bx. apply andb_true_iff in Bx. destruct Bx as [B1 B2].
             rewrite B2, andb_true_r. apply (below_trans d s u x); auto using wfc.
          -- exists u. repeat split; auto; [now rewrite Bsu, But|].
             now rewrite below_irrefl.
        * apply Nat.lt_succ_r. eapply Nat.lt_le_trans; [|exact L].
          apply filter_length_lt.
          -- intros x Hx Bx. apply andb_true_iff in Bx. destruct Bx as [B1 B2].
             rewrite B1. cbn. apply (below_trans d x u t); auto using wfc.
          -- exists u. repeat split; auto; [now rewrite Bsu, But|].
             rewrite below_irrefl; auto. apply andb_false_r.
      + apply lr_one. apply lang_succ_direct. repeat split; auto. intros u Hu Bu.
        destruct (below d s u) eqn:E'; auto.
        assert (X : existsb (fun u => below d s u) (related H canon d t) = true).
        { apply existsb_exists. exists u. split; auto. apply filter_In. auto. }
        congruence.
  Qed.

  (* among canonical types, s is reachable from t through the direct-subtype
     links iff s is a strict subtype of t (and dually upwards) *)
  Theorem reach_exact t s : wf_ty H t ->
    (LReach DOWN t s <-> In s canon /\ Lt s t) /\
    (LReach UP t s <-> In s canon /\ Lt t s).
  Proof.
    intros Wt. split; split.
    - intros R. apply LReach_sound in R; auto. destruct R as [Hs B]. split; auto.
      apply ltb_spec in B; auto using wfc.
    - intros [Hs L]. eapply (LReach_complete DOWN); [exact Wt|exact Hs| |apply le_n].
      apply ltb_spec; auto using wfc.
    - intros R. apply LReach_sound in R; auto. destruct R as [Hs B]. split; auto.
      apply ltb_spec in B; auto using wfc.
    - intros [Hs L]. eapply (LReach_complete UP); [exact Wt|exact Hs| |apply le_n].
      apply ltb_spec; auto using wfc.
  Qed.

  (* the rdfs:subClassOf triples of add_taxonomy are exactly the links *)
  Theorem taxonomy_exact s t : In (s, t) (taxonomy H canon) <->
    In s canon /\ In t canon /\ In s (subtypes H canon t).
  Proof.
    unfold taxonomy. rewrite in_flat_map. split.
    - intros (x & Hx & Hp). apply in_app_or in Hp. destruct Hp as [Hp|Hp]; apply in_map_iff in Hp.
      + destruct Hp as (y & E & Hy). injection E as -> ->. repeat split; auto.
        apply lang_succ_direct in Hy. tauto.
      + destruct Hp as (y & E & Hy). injection E as -> ->.
        assert (Ht : In t canon) by (apply lang_succ_direct in Hy; tauto).
        repeat split; auto. now apply mirror.
    - intros (Hs & Ht & L). exists t. split; auto. apply in_or_app. left.
      apply in_map_iff. eauto.
  Qed.

  (* ----- closure ----- *)
  Notation links := (taxonomy H canon).

  Lemma subjects_spec x y : In y (subjects links x) <-> In (y, x) links.
  Proof.
    unfold subjects. rewrite in_map_iff. split.
    - intros ([a b] & <- & Hp). apply filter_In in Hp. destruct Hp as [Hp E].
      cbn in *. apply ty_eqb_eq in E. now subst.
    - intros Hp. exists (y, x). split; auto. apply filter_In. split; auto.
      cbn. now apply ty_eqb_eq.
  Qed.

  Lemma trans_subjects_spec fuel t r : trans_subjects links fuel t = Some r ->
    forall s, In s r <-> Clo (subjects links) [t] s.
  Proof.
    intros E. unfold trans_subjects in E.
    apply (wl_correct ty_eqb ty_eqb_eq (subjects links)
             (fun x seen => filter (fun s => negb (tmem s seen)) (subjects links x)) ) with (fuel := fuel) (seen0 := []); auto.
    - intros x seen y Hy. apply filter_In in Hy. tauto.
    - intros x seen y Hy. destruct (tmem y seen) eqn:M; [right; now apply tmem_In|left].
      apply filter_In. rewrite M. auto.
    - intros x [].
  Qed.

  Lemma Clo_subjects t s : In t canon ->
    (Clo (subjects links) [t] s <-> s = t \/ LReach DOWN t s).
  Proof.
    intros Ht. split.
    - induction 1 as [x [<-|[]]|x y _ IH Hy]; [now left|right].
      apply subjects_spec, taxonomy_exact in Hy. destruct Hy as (_ & _ & Hy).
      destruct IH as [->|R]; [now apply lr_one|].
      eapply LReach_trans; [exact R|now apply lr_one].
    - intros [->|R]; [apply clo_init; now left|].
      assert (G : forall t, In t canon -> forall s, LReach DOWN t s -> forall r,
                    Clo (subjects links) [r] t -> Clo (subjects links) [r] s).
      { clear. intros t Ht s R. induction R as [t s Hs|t u s Hu R IH]; intros r C.
        - eapply clo_step; [exact C|]. apply subjects_spec, taxonomy_exact.
          repeat split; auto. apply lang_succ_direct in Hs. tauto.
        - assert (Hu' : In u canon) by (apply lang_succ_direct in Hu; tauto).
          apply IH; auto. eapply clo_step; [exact C|]. apply subjects_spec, taxonomy_exact.
          repeat split; auto. }
      apply (G t Ht s R t). apply clo_init. now left.
  Qed.

  (* with the closure requested the triples are the non-strict subtype order
     on the canonical types *)
  Theorem closure_exact fuel : forall cl, closure_of links fuel canon = Some cl ->
    forall s t, In (s, t) cl <-> In s canon /\ In t canon /\ Sub H s t.
  Proof.
    assert (G : forall l, (forall x, In x l -> In x canon) ->
              forall cl, closure_of links fuel l = Some cl ->
              forall s t, In (s, t) cl <-> In s canon /\ In t l /\ Sub H s t).
    { induction l as [|a l IH]; intros Hl cl E s t; cbn [closure_of] in E.
      - injection E as <-. cbn. tauto.
      - destruct (trans_subjects links fuel a) as [subs|] eqn:E1; [|discriminate].
        destruct (closure_of links fuel l) as [rest|] eqn:E2; [|discriminate].
        injection E as <-. rewrite in_app_iff, in_map_iff.
        rewrite (IH (fun x Hx => Hl x (or_intror Hx)) rest eq_refl s t).
        pose proof (Hl a (or_introl eq_refl)) as Ha. pose proof (wfc a Ha) as Wa.
        split.
        + intros [(y & [= <- <-] & Hy)|(Hs & Ht & S)]; [|repeat split; auto; now right].
          apply (trans_subjects_spec fuel a subs E1) in Hy. apply Clo_subjects in Hy; auto.
          destruct Hy as [->|R].
          * repeat split; auto; [now left|now apply Sub_refl].
          * apply reach_exact in R; auto. destruct R as [Hs [S _]]. repeat split; auto. now left.
        + intros (Hs & [<-|Ht] & S); [left|right; auto].
          exists s. split; auto. apply (trans_subjects_spec fuel a subs E1). apply Clo_subjects; auto.
          destruct (ty_eq_dec s a) as [->|N]; [now left|right].
          apply reach_exact; auto. split; auto. split; auto. }
    intros cl E s t. apply (G canon (fun x Hx => Hx) cl E).
  Qed.
End Taxonomy.

(* ================= the vocabulary ================= *)
Inductive Subterm : ty -> ty -> Prop :=
| st_refl t : Subterm t t
| st_arg s o args a : In a args -> Subterm s a -> Subterm s (TOp o args).

Lemma described_spec t s : In s (described t) <-> Subterm s t.
Proof.
  induction t as [o args IH] using ty_ind'. cbn [described]. split.
  - intros [<-|Hs]; [constructor|]. apply in_flat_map in Hs. destruct Hs as (a & Ha & Hs).
    rewrite Forall_forall in IH. apply IH in Hs; auto. econstructor; eauto.
  - intros S. inversion S as [|s' o' args' a Ha S']; subst; [now left|right].
    apply in_flat_map. exists a. split; auto. rewrite Forall_forall in IH. now apply IH.
Qed.

(* the type nodes of the vocabulary: every canonical type, and nothing but
   canonical types and the parameters that describe them *)
Theorem vocab_types_exact canon :
  (forall t, In t canon -> In t (vocab_types canon)) /\
  (forall s, In s (vocab_types canon) -> exists t, In t canon /\ Subterm s t).
Proof.
  unfold vocab_types. split.
  - intros t Ht. apply in_flat_map. exists t. split; auto. apply described_spec. constructor.
  - intros s Hs. apply in_flat_map in Hs. destruct Hs as (t & Ht & Hs). exists t. split; auto.
    now apply described_spec.
Qed.

(* ================= both halves together ================= *)
(* On the canonical set computed by any completed run of expand_canon, the
   reported links generate exactly the strict subtype order. *)
Theorem canon_order_exact H (W : wf_hier H) ops
  (Wops : forall o p, parent H o = Some p -> In o ops) top bot listed
  (Lw : Forall (wf_ty H) listed) (Lp : Forall plain listed) fuel stack0 c :
  (forall x, In x stack0 <-> In x listed) ->
  expand_canon H ops top bot fuel stack0 listed = Some c ->
  forall s t, In s c -> In t c ->
    (LReach H c DOWN t s <-> Sub H s t /\ s <> t) /\
    (LReach H c UP s t <-> Sub H s t /\ s <> t) /\
    (In s (subtypes H c t) <-> In t (supertypes H c s)).
Proof.
  intros E R s t Hs Ht.
  assert (Cw : Forall (wf_ty H) c).
  { apply Forall_forall. intros x Hx.
    now apply (canon_good H W ops Wops top bot listed Lw Lp fuel stack0 c E R x). }
  pose proof (proj1 (Forall_forall _ _) Cw) as Cw'.
  destruct (reach_exact H W c Cw t s (Cw' t Ht)) as [R1 _].
  destruct (reach_exact H W c Cw s t (Cw' s Hs)) as [_ R2].
  split; [|split].
  - rewrite R1. unfold Lt. tauto.
  - rewrite R2. unfold Lt. tauto.
  - now apply mirror.
Qed.
