(* Declarative subtype order on concrete types and its order properties. *)
From Coq Require Import List Arith Bool Lia.
Import ListNotations.
From TF Require Import Base.Hier Base.Ty.

(* parameters related pointwise, flipped at contravariant positions *)
Inductive ArgsRel (R : ty -> ty -> Prop) : list bool -> list ty -> list ty -> Prop :=
| AR_nil : ArgsRel R [] [] []
| AR_co vs x y xs ys :
    R x y -> ArgsRel R vs xs ys -> ArgsRel R (true :: vs) (x :: xs) (y :: ys)
| AR_contra vs x y xs ys :
    R y x -> ArgsRel R vs xs ys -> ArgsRel R (false :: vs) (x :: xs) (y :: ys).

Lemma AR_cons (R : ty -> ty -> Prop) (v : bool) vs x y xs ys :
  (if v then R x y else R y x) -> ArgsRel R vs xs ys ->
  ArgsRel R (v :: vs) (x :: xs) (y :: ys).
Proof. destruct v; constructor; auto. Qed.

Lemma AR_cons_inv (R : ty -> ty -> Prop) (v : bool) vs xs0 ys0 :
  ArgsRel R (v :: vs) xs0 ys0 -> exists x y xs ys, xs0 = x :: xs /\ ys0 = y :: ys /\
    (if v then R x y else R y x) /\ ArgsRel R vs xs ys.
Proof. intros A. inversion A; subst; eauto 10. Qed.

(* "t arises from s by replacing base types with declared ancestors in
   covariant positions and with descendants in contravariant positions, with
   Top above and Bottom below every type" *)
Inductive Sub (H : hier) : ty -> ty -> Prop :=
| SubBot t : Sub H (TOp Bottom []) t
| SubTop t : Sub H t (TOp Top [])
| SubBase a b : variance H a = [] -> Anc H a b -> Sub H (TOp a []) (TOp b [])
| SubComp o xs ys : variance H o <> [] ->
    ArgsRel (Sub H) (variance H o) xs ys -> Sub H (TOp o xs) (TOp o ys).

Lemma ArgsRel_length R vs xs ys : ArgsRel R vs xs ys -> length xs = length vs /\ length ys = length vs.
Proof. induction 1; cbn; lia. Qed.

Section Order.
  Variable H : hier.
  Hypothesis W : wf_hier H.

  Lemma var_top : variance H Top = []. Proof. apply (wf_top H W). Qed.
  Lemma var_bot : variance H Bottom = []. Proof. apply (wf_bot H W). Qed.

  Lemma Anc_top b : Anc H Top b -> b = Top.
  Proof. intros A. apply (Anc_le H W) in A. unfold Top in *. lia. Qed.

  Lemma Anc_to_bot a : Anc H a Bottom -> a = Bottom.
  Proof. intros A. destruct (Anc_inv H W _ _ A) as [E|(_&_&_&N&_)]; congruence. Qed.

  Lemma Anc_to_top a : Anc H a Top -> a = Top.
  Proof. intros A. destruct (Anc_inv H W _ _ A) as [E|(_&_&N&_&_)]; congruence. Qed.

  Lemma Anc_bot b : Anc H Bottom b -> b = Bottom.
  Proof.
    intros A. inversion A as [|a p b' Hp]; subst; auto.
    destruct (wf_bot H W) as [E _]. congruence.
  Qed.

  Lemma Sub_top_inv xs c : Sub H (TOp Top xs) c -> c = TOp Top [].
  Proof.
    intros S. inversion S as [t|t|a b Va A|o xs' ys Vo AR]; subst; auto.
    - apply Anc_top in A. now subst.
    - now rewrite var_top in Vo.
  Qed.

  Lemma Sub_bot_inv t ys : Sub H t (TOp Bottom ys) -> t = TOp Bottom [].
  Proof.
    intros S. inversion S as [t'|t'|a b Va A|o xs ys' Vo AR]; subst; auto.
    - apply Anc_to_bot in A. now subst.
    - now rewrite var_bot in Vo.
  Qed.

  Lemma ArgsRel_refl vs : forall xs, length xs = length vs ->
    Forall (fun x => Sub H x x) xs -> ArgsRel (Sub H) vs xs xs.
  Proof.
    induction vs as [|v vs IH]; intros [|x xs] L F; cbn in L; try discriminate.
    - constructor.
    - inversion F; subst. apply AR_cons; [destruct v; auto | apply IH; auto].
  Qed.

  Theorem Sub_refl t : wf_ty H t -> Sub H t t.
  Proof.
    induction t as [o args IH] using ty_ind'. intros Wt.
    apply wf_ty_unfold in Wt. destruct Wt as [L F].
    destruct (variance H o) as [|v vs] eqn:V.
    - destruct args; [|discriminate]. apply SubBase; auto using anc_refl.
    - apply SubComp; [congruence|]. rewrite V. apply ArgsRel_refl; auto.
      rewrite Forall_forall in *. intros x Hx. apply IH; auto.
  Qed.

  Lemma ArgsRel_trans vs : forall xs ys zs,
    Forall (fun y => forall a c, Sub H a y -> Sub H y c -> Sub H a c) ys ->
    ArgsRel (Sub H) vs xs ys -> ArgsRel (Sub H) vs ys zs -> ArgsRel (Sub H) vs xs zs.
  Proof.
    induction vs as [|v vs IH]; intros xs ys zs F A1 A2.
    - inversion A1; subst. inversion A2; subst. constructor.
    - apply AR_cons_inv in A1. destruct A1 as (x & y & xs' & ys' & -> & -> & R1 & A1').
      apply AR_cons_inv in A2. destruct A2 as (y' & z & ys'' & zs' & E & -> & R2 & A2').
      injection E as <- <-.
      inversion F as [|? ? Fy F']; subst.
      apply AR_cons; [|eapply IH; eauto].
      destruct v; eauto.
  Qed.

  Theorem Sub_trans b : forall a c, Sub H a b -> Sub H b c -> Sub H a c.
  Proof.
    induction b as [ob ys IH] using ty_ind'. intros a c S1 S2.
    inversion S1 as [t|t|a' b' Va A|o xs ys' Vo AR]; subst.
    - constructor.
    - apply Sub_top_inv in S2. subst. constructor.
    - inversion S2 as [t|t|a'' c' Vb A2|o xs ys' Vo AR]; subst.
      + apply Anc_to_bot in A. subst. constructor.
      + constructor.
      + constructor; auto. eapply Anc_trans; eauto.
      + exfalso. apply ArgsRel_length in AR. destruct AR as [L _].
        destruct (variance H ob); [congruence|discriminate].
    - inversion S2 as [t|t|a'' c' Vb A2|o' xs' zs Vo' AR2]; subst.
      + now rewrite var_bot in Vo.
      + constructor.
      + congruence.
      + apply SubComp; auto. eapply ArgsRel_trans; eauto.
  Qed.

  Lemma ArgsRel_antisym vs : forall xs ys,
    Forall (fun x => forall b, Sub H x b -> Sub H b x -> x = b) xs ->
    ArgsRel (Sub H) vs xs ys -> ArgsRel (Sub H) vs ys xs -> xs = ys.
  Proof.
    induction vs as [|v vs IH]; intros xs ys F A1 A2.
    - inversion A1; subst. reflexivity.
    - apply AR_cons_inv in A1. destruct A1 as (x & y & xs' & ys' & -> & -> & R1 & A1').
      apply AR_cons_inv in A2. destruct A2 as (y' & x' & ys'' & xs'' & E1 & E2 & R2 & A2').
      injection E1 as <- <-. injection E2 as <- <-.
      inversion F as [|? ? Fx F']; subst.
      f_equal; [|eapply IH; eauto].
      destruct v; auto.
  Qed.

  Theorem Sub_antisym a : forall b, Sub H a b -> Sub H b a -> a = b.
  Proof.
    induction a as [oa xs IH] using ty_ind'. intros b S1 S2.
    inversion S1 as [t|t|a' b' Va A|o xs' ys Vo AR]; subst.
    - apply Sub_bot_inv in S2. now subst.
    - apply Sub_top_inv in S2. congruence.
    - inversion S2 as [t|t|a'' c' Vb A2|o xs' ys' Vo AR]; subst.
      + apply Anc_to_bot in A. now subst.
      + apply Anc_top in A. now subst.
      + f_equal. eapply Anc_antisym; eauto.
      + congruence.
    - inversion S2 as [t|t|a'' c' Vb A2|o' xs' zs Vo' AR2]; subst.
      + now rewrite var_bot in Vo.
      + now rewrite var_top in Vo.
      + congruence.
      + f_equal. eapply ArgsRel_antisym; eauto.
  Qed.
End Order.
