(* Faithful model of TypeInstance.match / Type.is_subtype / TypeInstance.unify /
   Type.apply restricted to concrete (variable-free) types.
   transforge/type.py lines 125-157, 496-524, 556-591. *)
From Coq Require Import List Arith Bool Lia.
Import ListNotations.
From TF Require Import Base.Hier Base.Ty.

(* the loop of match: `False` returns at once, `None` taints the result *)
Definition tri_and (r acc : option bool) : option bool :=
  match r, acc with
  | Some false, _ => Some false
  | _, Some false => Some false
  | None, _ => None
  | _, None => None
  | Some true, Some true => Some true
  end.

Section MArgs.
  Variable f : bool -> ty -> ty -> option bool.
  Fixpoint margs (d : bool) (vs : list bool) (xs ys : list ty) {struct xs} : option bool :=
    match xs, vs, ys with
    | x :: xs', v :: vs', y :: ys' =>
        tri_and (f (if v then d else negb d) x y) (margs d vs' xs' ys')
    | _, _, _ => Some true
    end.
End MArgs.

(* [m H sub d a b]: with d = true this is a.match(b, subtype=sub), with
   d = false it is b.match(a, subtype=sub).  The code swaps its arguments at
   contravariant positions; the flag makes the recursion structural in [a]. *)
Fixpoint m (H : hier) (sub d : bool) (a b : ty) {struct a} : option bool :=
  match a, b with
  | TOp oa xs, TOp ob ys =>
      let l := if d then oa else ob in
      let r := if d then ob else oa in
      if sub && (Nat.eqb l Bottom || Nat.eqb r Top) then Some true
      else if Nat.eqb (arity H l) 0 then
        Some (Nat.eqb l r || (sub && op_subtype H false l r))
      else if negb (Nat.eqb l r) then Some false
      else margs (fun d' x y => m H sub d' x y) d (variance H oa) xs ys
  end.

Definition match3 (H : hier) (sub : bool) (a b : ty) : option bool := m H sub true a b.

(* Type.is_subtype(self, other, strict): `m and (not strict or not a.match(b))` *)
Definition is_subtype (H : hier) (strict : bool) (a b : ty) : option bool :=
  match match3 H true a b with
  | Some true =>
      Some (negb strict || negb (match match3 H false a b with Some true => true | _ => false end))
  | r => r
  end.

(* ---------- unify on concrete types ---------- *)

Inductive terr := ESubtypeMismatch | ETypeMismatch | EFunctionApplication.

(* error family: all three are TypeMismatch subclasses (class hierarchy) *)
Definition is_type_mismatch_family (e : terr) : bool := true.

Definition seq_res (r acc : option terr) : option terr :=
  match r with Some e => Some e | None => acc end.

Section UArgs.
  Variable f : bool -> ty -> ty -> option terr.
  Fixpoint uargs (d : bool) (vs : list bool) (xs ys : list ty) {struct xs} : option terr :=
    match xs, vs, ys with
    | x :: xs', v :: vs', y :: ys' =>
        seq_res (f (if v then d else negb d) x y) (uargs d vs' xs' ys')
    | _, _, _ => None
    end.
End UArgs.

(* [u H sub d a b] = a.unify(b, subtype=sub) if d else b.unify(a, subtype=sub);
   None = returns normally, Some e = raises e (first error in parameter order) *)
Fixpoint u (H : hier) (sub d : bool) (a b : ty) {struct a} : option terr :=
  match a, b with
  | TOp oa xs, TOp ob ys =>
      let l := if d then oa else ob in
      let r := if d then ob else oa in
      if Nat.eqb l Bottom || Nat.eqb r Top then None
      else if Nat.eqb (arity H l) 0 then
        if sub then (if op_subtype H false l r then None else Some ESubtypeMismatch)
        else (if Nat.eqb l r then None else Some ETypeMismatch)
      else if Nat.eqb l r then
        uargs (fun d' x y => u H sub d' x y) d (variance H oa) xs ys
      else Some ETypeMismatch
  end.

Inductive apply_res := AOk (t : ty) | AErr (e : terr).

(* Type.apply for a concrete function type and concrete argument;
   fixing a concrete type is the identity. *)
Definition apply_c (H : hier) (f x : ty) : apply_res :=
  match f with
  | TOp o args =>
      if Nat.eqb o Function then
        match args with
        | [a; b] =>
            match u H true true x a with
            | None => AOk b
            | Some e => AErr e
            end
        | _ => AErr EFunctionApplication (* unreachable: arity is checked at construction *)
        end
      else if Nat.eqb o Top then AOk (TOp Top [])
      else AErr EFunctionApplication
  end.
