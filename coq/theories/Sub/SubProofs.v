(* The code's match / unify / apply on concrete types compute exactly the
   declarative order Sub. *)
From Coq Require Import List Arith Bool Lia.
Import ListNotations.
From TF Require Import Base.Hier Base.Ty Sub.Match Sub.SubSpec.

Section Exact.
  Variable H : hier.
  Hypothesis W : wf_hier H.

  Definition dirSub (d : bool) (a b : ty) : Prop := if d then Sub H a b else Sub H b a.
  Definition dirArgs (d : bool) vs xs ys : Prop :=
    if d then ArgsRel (Sub H) vs xs ys else ArgsRel (Sub H) vs ys xs.

  Definition decides (r : option bool) (P : Prop) : Prop :=
    (r = Some true /\ P) \/ (r = Some false /\ ~ P).

  Lemma margs_decides (f : bool -> ty -> ty -> option bool) d vs :
    forall xs ys, length xs = length vs -> length ys = length vs ->
    Forall (fun x => forall d' y, In y ys -> decides (f d' x y) (dirSub d' x y)) xs ->
    decides (margs f d vs xs ys) (dirArgs d vs xs ys).
  Proof.
    induction vs as [|v vs IH]; intros [|x xs] [|y ys] Lx Ly F; cbn in Lx, Ly; try discriminate.
    - left. split; auto. destruct d; constructor.
    - cbn [margs]. inversion F as [|? ? Fx F']; subst.
      assert (IH' : decides (margs f d vs xs ys) (dirArgs d vs xs ys)).
      { apply IH; try lia. eapply Forall_impl; [|exact F'].
        cbn. intros a Ha d' y' Hy'. apply Ha. now right. }
      specialize (Fx (if v then d else negb d) y (or_introl eq_refl)).
      destruct Fx as [[E P]|[E P]], IH' as [[E' P']|[E' P']]; rewrite E, E'; cbn.
      + left. split; auto. destruct d, v; cbn in *; constructor; auto.
      + right. split; auto. intros A. apply P'. destruct d; cbn in *; inversion A; subst; auto.
      + right. split; auto. intros A. apply P. destruct d, v; cbn in *; inversion A; subst; auto.
      + right. split; auto. intros A. apply P'. destruct d; cbn in *; inversion A; subst; auto.
  Qed.

  (* head cases shared by both directions: l is the candidate subtype's
     operator, r the candidate supertype's *)
  Lemma nil_of_len0 {A} (l : list A) : length l = 0 -> l = [].
  Proof. destruct l; [auto|discriminate]. Qed.

  Theorem m_decides a : wf_ty H a -> forall d b, wf_ty H b ->
    decides (m H true d a b) (dirSub d a b).
  Proof.
    induction a as [oa xs IH] using ty_ind'. intros Wa d [ob ys] Wb.
    apply wf_ty_unfold in Wa. destruct Wa as [La Fa].
    apply wf_ty_unfold in Wb. destruct Wb as [Lb Fb].
    cbn [m]. cbn [andb].
    set (l := if d then oa else ob). set (r := if d then ob else oa).
    set (ls := if d then xs else ys). set (rs := if d then ys else xs).
    assert (DS : dirSub d (TOp oa xs) (TOp ob ys) = Sub H (TOp l ls) (TOp r rs)) by (destruct d; reflexivity).
    assert (Ll : length ls = length (variance H l)) by (destruct d; auto).
    assert (Lr : length rs = length (variance H r)) by (destruct d; auto).
    rewrite DS.
    destruct (Nat.eqb l Bottom || Nat.eqb r Top) eqn:E1.
    { left. split; auto. apply orb_true_iff in E1. destruct E1 as [E|E]; apply Nat.eqb_eq in E.
      - rewrite E in *. rewrite (var_bot H W) in Ll. apply nil_of_len0 in Ll. rewrite Ll. constructor.
      - rewrite E in *. rewrite (var_top H W) in Lr. apply nil_of_len0 in Lr. rewrite Lr. constructor. }
    apply orb_false_iff in E1. destruct E1 as [NB NT].
    apply Nat.eqb_neq in NB, NT.
    unfold arity.
    destruct (Nat.eqb (length (variance H l)) 0) eqn:E2.
    { apply Nat.eqb_eq in E2. assert (Vl : variance H l = []) by now apply nil_of_len0.
      rewrite E2 in Ll. apply nil_of_len0 in Ll. rewrite Ll.
      destruct (Nat.eqb l r || op_subtype H false l r) eqn:E3.
      - left. split; auto.
        assert (A : Anc H l r).
        { apply orb_true_iff in E3. destruct E3 as [E|E].
          - apply Nat.eqb_eq in E. rewrite E. constructor.
          - apply op_subtype_ns_spec in E; auto. destruct E as [E|[E|E]]; auto; contradiction. }
        assert (Vr : variance H r = []).
        { destruct (Anc_inv H W _ _ A) as [<-|(_&V&_)]; auto. }
        rewrite Vr in Lr. apply nil_of_len0 in Lr. rewrite Lr. now constructor.
      - right. split; auto. intros S. apply orb_false_iff in E3. destruct E3 as [E3 E4].
        inversion S as [t|t|a' b' Va A|o xs' ys' Vo AR]; subst; try congruence.
        assert (op_subtype H false l r = true) by (apply op_subtype_ns_spec; auto).
        congruence. }
    apply Nat.eqb_neq in E2.
    destruct (Nat.eqb l r) eqn:E3; cbn [negb].
    2:{ right. split; auto. apply Nat.eqb_neq in E3. intros S.
        inversion S as [t|t|a' b' Va A|o xs' ys' Vo AR]; subst; try congruence.
        rewrite Va in E2. now cbn in E2. }
    apply Nat.eqb_eq in E3.
    assert (Eo : oa = ob) by (destruct d; subst l r; auto).
    subst ob. assert (Hl : l = oa) by (destruct d; reflexivity).
    assert (Hr : r = oa) by (destruct d; reflexivity).
    clearbody l r. subst l r.
    assert (D : decides (margs (fun d' x y => m H true d' x y) d (variance H oa) xs ys)
                        (dirArgs d (variance H oa) xs ys)).
    { apply margs_decides; auto.
      rewrite Forall_forall in *. intros x Hx d' y Hy. apply IH; auto. }
    destruct D as [[E P]|[E P]]; rewrite E.
    - left. split; auto. apply SubComp.
      + intros V. rewrite V in E2. now cbn in E2.
      + destruct d; exact P.
    - right. split; auto. intros S. apply P.
      inversion S as [t|t|a' b' Va A|o xs' ys' Vo AR]; subst; try congruence.
      + rewrite Va in E2. now cbn in E2.
      + destruct d; exact AR.
  Qed.

  Corollary match3_exact s t : wf_ty H s -> wf_ty H t ->
    (match3 H true s t = Some true <-> Sub H s t).
  Proof.
    intros Ws Wt. unfold match3.
    destruct (m_decides s Ws true t Wt) as [[E P]|[E P]]; rewrite E; cbn in P; split; auto; try discriminate.
    intros S. contradiction.
  Qed.

  Corollary match3_total s t : wf_ty H s -> wf_ty H t ->
    exists b, match3 H true s t = Some b.
  Proof.
    intros Ws Wt. unfold match3.
    destruct (m_decides s Ws true t Wt) as [[E P]|[E P]]; rewrite E; eauto.
  Qed.

  (* ----- the equality match (subtype=False) ----- *)
  Definition decides_eq (r : option bool) (P : Prop) : Prop :=
    (r = Some true /\ P) \/ (r = Some false /\ ~ P).

  Lemma margs_eq (f : bool -> ty -> ty -> option bool) d vs :
    forall xs ys, length xs = length vs -> length ys = length vs ->
    Forall (fun x => forall d' y, In y ys -> decides (f d' x y) (x = y)) xs ->
    decides (margs f d vs xs ys) (xs = ys).
  Proof.
    induction vs as [|v vs IH]; intros [|x xs] [|y ys] Lx Ly F; cbn in Lx, Ly; try discriminate.
    - left. auto.
    - cbn [margs]. inversion F as [|? ? Fx F']; subst.
      assert (IH' : decides (margs f d vs xs ys) (xs = ys)).
      { apply IH; try lia. eapply Forall_impl; [|exact F'].
        cbn. intros a Ha d' y' Hy'. apply Ha. now right. }
      specialize (Fx (if v then d else negb d) y (or_introl eq_refl)).
      destruct Fx as [[E P]|[E P]], IH' as [[E' P']|[E' P']]; rewrite E, E'; cbn.
      + left. split; congruence.
      + right. split; congruence.
      + right. split; congruence.
      + right. split; congruence.
  Qed.

  Theorem m_eq_decides a : wf_ty H a -> forall d b, wf_ty H b ->
    decides (m H false d a b) (a = b).
  Proof.
    induction a as [oa xs IH] using ty_ind'. intros Wa d [ob ys] Wb.
    apply wf_ty_unfold in Wa. destruct Wa as [La Fa].
    apply wf_ty_unfold in Wb. destruct Wb as [Lb Fb].
    cbn [m]. cbn [andb].
    set (l := if d then oa else ob). set (r := if d then ob else oa).
    assert (El : Nat.eqb l r = Nat.eqb oa ob) by (destruct d; subst l r; auto using Nat.eqb_sym).
    unfold arity.
    destruct (Nat.eqb oa ob) eqn:E.
    2:{ apply Nat.eqb_neq in E.
        assert (R : forall X, (if Nat.eqb (length (variance H l)) 0 then Some (Nat.eqb l r || false)
                     else if negb (Nat.eqb l r) then Some false else X) = Some false).
        { intros X. rewrite El. cbn. now destruct (Nat.eqb _ 0). }
        rewrite R. right. split; congruence. }
    apply Nat.eqb_eq in E. subst ob. rewrite El. cbn [negb orb].
    assert (Vl : variance H l = variance H oa) by (destruct d; auto).
    rewrite Vl.
    destruct (Nat.eqb (length (variance H oa)) 0) eqn:E2.
    - apply Nat.eqb_eq in E2. rewrite E2 in *. apply nil_of_len0 in La, Lb. subst. left. auto.
    - assert (D : decides (margs (fun d' x y => m H false d' x y) d (variance H oa) xs ys) (xs = ys)).
      { apply margs_eq; auto. rewrite Forall_forall in *. intros x Hx d' y Hy. apply IH; auto. }
      destruct D as [[E P]|[E P]]; rewrite E; [left|right]; split; congruence.
  Qed.

  Theorem is_subtype_spec strict s t : wf_ty H s -> wf_ty H t ->
    is_subtype H strict s t = Some true <-> (Sub H s t /\ (strict = true -> s <> t)).
  Proof.
    intros Ws Wt. unfold is_subtype, match3.
    destruct (m_decides s Ws true t Wt) as [[E P]|[E P]]; rewrite E; cbn in P.
    - destruct (m_eq_decides s Ws true t Wt) as [[E' P']|[E' P']]; rewrite E';
        destruct strict; cbn;
        (split; [intros E0; first [discriminate | split; [exact P|intros E1; first [discriminate|auto]]]
                |intros [_ N]; try reflexivity; exfalso; apply (N eq_refl); exact P']).
    - split; [discriminate|]. intros [S _]. contradiction.
  Qed.

  Theorem is_subtype_total strict s t : wf_ty H s -> wf_ty H t ->
    exists b, is_subtype H strict s t = Some b.
  Proof.
    intros Ws Wt. unfold is_subtype, match3.
    destruct (m_decides s Ws true t Wt) as [[E P]|[E P]]; rewrite E; eauto.
  Qed.

  (* ----- unify: a separately coded recursion, equivalent to match ----- *)
  Lemma uargs_margs d vs : forall xs ys,
    Forall (fun x => forall d' y, In y ys ->
       (u H true d' x y = None <-> m H true d' x y = Some true) /\
       (forall e, u H true d' x y = Some e -> m H true d' x y = Some false)) xs ->
    Forall (fun x => forall d' y, In y ys -> m H true d' x y <> None) xs ->
    (uargs (fun d' x y => u H true d' x y) d vs xs ys = None <->
     margs (fun d' x y => m H true d' x y) d vs xs ys = Some true) /\
    (forall e, uargs (fun d' x y => u H true d' x y) d vs xs ys = Some e ->
     margs (fun d' x y => m H true d' x y) d vs xs ys = Some false).
  Proof.
    induction vs as [|v vs IH]; intros xs ys F T.
    - destruct xs; cbn; split; try tauto; discriminate.
    - destruct xs as [|x xs]; [cbn; split; [tauto|discriminate]|].
      destruct ys as [|y ys]; [cbn; split; [tauto|discriminate]|].
      cbn [uargs margs].
      inversion F as [|? ? Fx F']; subst. inversion T as [|? ? Tx T']; subst.
      destruct (Fx (if v then d else negb d) y (or_introl eq_refl)) as [Fx1 Fx2].
      specialize (Tx (if v then d else negb d) y (or_introl eq_refl)).
      assert (IH' := IH xs ys).
      destruct IH' as [I1 I2].
      { eapply Forall_impl; [|exact F']. cbn. intros a Ha d' y' Hy'. apply Ha. now right. }
      { eapply Forall_impl; [|exact T']. cbn. intros a Ha d' y' Hy'. apply Ha. now right. }
      destruct (u H true (if v then d else negb d) x y) as [e|] eqn:U; cbn [seq_res].
      + rewrite (Fx2 e eq_refl). cbn. split; [split; discriminate|auto].
      + destruct Fx1 as [Fx1 _]. rewrite (Fx1 eq_refl).
        destruct (uargs _ d vs xs ys) as [e'|] eqn:U'.
        * rewrite (I2 e' eq_refl). cbn. split; [split; discriminate|auto].
        * destruct I1 as [I1 _]. rewrite (I1 eq_refl). cbn. split; [tauto|discriminate].
  Qed.

  Theorem u_m a : wf_ty H a -> forall d b, wf_ty H b ->
    (u H true d a b = None <-> m H true d a b = Some true) /\
    (forall e, u H true d a b = Some e -> m H true d a b = Some false).
  Proof.
    induction a as [oa xs IH] using ty_ind'. intros Wa d [ob ys] Wb.
    pose proof Wa as Wa'. pose proof Wb as Wb'.
    apply wf_ty_unfold in Wa. destruct Wa as [La Fa].
    apply wf_ty_unfold in Wb. destruct Wb as [Lb Fb].
    cbn [m u andb].
    set (l := if d then oa else ob). set (r := if d then ob else oa).
    destruct (Nat.eqb l Bottom || Nat.eqb r Top); [split; [tauto|discriminate]|].
    destruct (Nat.eqb (arity H l) 0) eqn:E2.
    { assert (X : Nat.eqb l r = true -> op_subtype H false l r = true).
      { intros E. apply Nat.eqb_eq in E. rewrite E. apply op_subtype_ns_spec; auto using anc_refl. }
      destruct (op_subtype H false l r) eqn:E3.
      - rewrite orb_true_r. split; [tauto|discriminate].
      - destruct (Nat.eqb l r); [now specialize (X eq_refl)|]. cbn.
        split; [split; discriminate|auto]. }
    destruct (Nat.eqb l r) eqn:E3; cbn [negb].
    2:{ split; [split; discriminate|auto]. }
    apply uargs_margs.
    - rewrite Forall_forall in *. intros x Hx d' y Hy. apply IH; auto.
    - rewrite Forall_forall in *. intros x Hx d' y Hy.
      destruct (m_decides x (Fa x Hx) d' y (Fb y Hy)) as [[E _]|[E _]]; rewrite E; discriminate.
  Qed.

  Theorem unify_c_iff x a : wf_ty H x -> wf_ty H a ->
    (u H true true x a = None <-> Sub H x a).
  Proof.
    intros Wx Wa. destruct (u_m x Wx true a Wa) as [U _]. rewrite U.
    now apply match3_exact.
  Qed.

  (* C02 *)
  Theorem apply_c_iff a b x : wf_ty H a -> wf_ty H x ->
    (apply_c H (TOp Function [a; b]) x = AOk b <-> Sub H x a) /\
    (~ Sub H x a -> exists e, apply_c H (TOp Function [a; b]) x = AErr e /\
                              (e = ESubtypeMismatch \/ e = ETypeMismatch)).
  Proof.
    intros Wa Wx. unfold apply_c. cbn [Nat.eqb Function].
    pose proof (unify_c_iff x a Wx Wa) as U.
    destruct (u H true true x a) as [e|] eqn:E.
    - split.
      + split; [discriminate|]. intros S. apply U in S. discriminate.
      + intros _. exists e. split; auto.
        (* the error is never FunctionApplication: u raises only the two mismatch kinds *)
        clear U. revert E. generalize true at 2.
        revert e a Wa. induction x as [ox xs IH] using ty_ind'. intros e [oa ys] Wa d.
        cbn [u]. repeat match goal with |- context [if ?c then _ else _] => destruct c end;
          try discriminate; try (intros [= <-]; auto).
        apply wf_ty_unfold in Wx, Wa. destruct Wx as [_ Fx], Wa as [_ Fa].
        generalize (variance H ox) as vs. revert ys Fa.
        induction xs as [|x xs IHxs]; intros ys Fa vs; [destruct vs; discriminate|].
        destruct vs as [|v vs]; [discriminate|]. destruct ys as [|y ys]; [discriminate|].
        cbn [uargs]. inversion IH; subst. inversion Fx; subst. inversion Fa; subst.
        destruct (u H true (if v then d else negb d) x y) eqn:U; cbn [seq_res].
        * intros [= <-]. eapply H2; eauto.
        * apply IHxs; auto.
    - split; [split; auto; intros _; now apply U|].
      intros N. exfalso. apply N. now apply U.
  Qed.

  Theorem apply_c_top x : apply_c H (TOp Top []) x = AOk (TOp Top []).
  Proof. reflexivity. Qed.

  Theorem apply_c_nonfun o args x : o <> Function -> o <> Top ->
    apply_c H (TOp o args) x = AErr EFunctionApplication.
  Proof.
    intros NF NT. unfold apply_c.
    apply Nat.eqb_neq in NF, NT. now rewrite NF, NT.
  Qed.
End Exact.
