(* C17  Type checking and parsing fail only with their declared errors, and terminate.
   Engine half.  The model turns every Python assert into [ECrash site] and
   fuel exhaustion into [EFuel]; the universal no-crash theorem lives in
   props/C17_engine.v (Infer/Inv.v) and the parser totality theorems in
   props/C17_parser.v when those files are present.  This file holds the
   facts that need no invariant. *)
From Coq Require Import List Arith Bool Lia.
Import ListNotations.
From TF Require Import Base.Hier Base.Ty Infer.Store Infer.Engine Infer.Run.

(* the error outcomes of the model are exactly the declared TypingError kinds,
   a crash, or out-of-fuel; this enumerates them so that the harness's error
   table is checked against the model's *)
Definition declared (e : err) : bool :=
  match e with
  | ESubtypeMismatch | ETypeMismatch | EFunApp | ERecursive | EConstraintViolation => true
  | ECrash _ | EFuel => false
  end.

Theorem C17_error_codes : forall e, declared e = true <-> nth 0 (err_code e) 9 < 5.
Proof.
  intros e; destruct e; cbn [declared err_code nth]; split; intros E; try discriminate; try lia.
Qed.
Print Assumptions C17_error_codes.

(* the repaired crash: a ** a [a << {Qlt, C(Qlt)}] applied to Qlt.
   Qlt=5, C=6 unary covariant *)
Definition qH := mk_hier [] [(6,[true])].
Example C17_tutorial_operator_no_crash :
  hd [] (run_dump qH 400 []
     [CInst (mkSchema 1 (SOp Function [SVar 0; SVar 0])
               [SCElim (SVar 0) [SOp 5 []; SOp 6 [SOp 5 []]]]);
      CInst (mkSchema 0 (SOp 5 []) []); CApply 0 1 true]) = [0].
Proof. vm_compute. reflexivity. Qed.
