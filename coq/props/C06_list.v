(* C06, engine link for a LIST of base-type alternatives (strengthens
   C06_engine_single of props/C06.v from one alternative to n >= 1).

   On the faithful fuelled model of the inference engine (Infer/Engine.v), for
   EVERY well-formed hierarchy H, every non-empty list bs of user base operators
   (nullary, not Top/Bottom; NO distinctness or incomparability assumption:
   duplicates and comparable alternatives are allowed), every user base operator
   a and every fuel with 9 <= fuel and length bs + 2 <= fuel, the program

       f = TypeSchema(lambda x: x ** x [x << {B1, ..., Bn}]).instance()
       v = A.instance()
       f.apply(v, fix=True)

   run from the empty store (any schedule sc: no choice point is reached) ends
   without error  iff  a is a subtype of some alternative
                  iff  accept_spec H (TOp a []) alts = true
                  iff  a Fits some alternative (specification of Infer/Fits.v);
   when it fails it fails at the apply (command 2) with a declared error,
   EConstraintViolation or ESubtypeMismatch, never a crash / fuel exhaustion.

   The exact error and the exact result are given by C06_engine_bases_exact in
   terms of [mins_of H bs], the pure description of what
   EliminationConstraint.minimize leaves of bs (proved equal to the model's
   minimize by [minimize_bases]): if a single alternative m is left, instance()
   resolves the variable to m, a misfit is ESubtypeMismatch and the accepted
   result is m; otherwise a misfit is EConstraintViolation and the accepted
   result is the argument a itself.  In both cases the result r satisfies
   a <= r <= some fitting alternative (C06_engine_result).

   Not covered (still only checked per generated case by the harness):
   alternatives with parameters, variables or wildcards, and arguments /
   alternatives Top and Bottom in the list case. *)
From Coq Require Import List Arith Bool.
Import ListNotations.
From TF Require Import Base.Hier Base.Ty Sub.Match Sub.SubSpec Sub.SubProofs
  Infer.Store Infer.Engine Infer.Run Infer.Fits Infer.FitsEngine Infer.FitsEngineList.

Theorem C06_engine_bases : forall H, wf_hier H -> forall a bs fuel sc,
  (variance H a = [] /\ a <> Top /\ a <> Bottom) ->
  Forall (fun b => variance H b = [] /\ b <> Top /\ b <> Bottom) bs -> bs <> [] ->
  9 <= fuel -> length bs + 2 <= fuel ->
  let outcome := fst (fst (run_cmds H fuel
        [CInst (mkSchema 1 (SOp Function [SVar 0; SVar 0])
                         [SCElim (SVar 0) (map (fun b => SOp b []) bs)]);
         CInst (mkSchema 0 (SOp a []) []);
         CApply 0 1 true] 0 [] (empty_store sc))) in
  (outcome = None <-> existsb (fun b => op_subtype H false a b) bs = true) /\
  (outcome = None <-> accept_spec H (TOp a []) (map (fun b => SOp b []) bs) = true) /\
  (outcome = None <-> exists b, In b bs /\ Fits H (TOp a []) (SOp b [])) /\
  (outcome <> None ->
     outcome = Some (EConstraintViolation, 2) \/ outcome = Some (ESubtypeMismatch, 2)).
Proof. exact engine_bases_accept. Qed.
Print Assumptions C06_engine_bases.

(* exact observation: error (with command index) and pushed values resolved in
   the final store *)
Theorem C06_engine_bases_exact : forall H, wf_hier H -> forall a bs fuel sc,
  (variance H a = [] /\ a <> Top /\ a <> Bottom) ->
  Forall (fun b => variance H b = [] /\ b <> Top /\ b <> Bottom) bs -> bs <> [] ->
  9 <= fuel -> length bs + 2 <= fuel ->
  let r := run_cmds H fuel
        [CInst (mkSchema 1 (SOp Function [SVar 0; SVar 0])
                         [SCElim (SVar 0) (map (fun b => SOp b []) bs)]);
         CInst (mkSchema 0 (SOp a []) []);
         CApply 0 1 true] 0 [] (empty_store sc) in
  (fst (fst r), map (follow (snd r)) (snd (fst r))) =
  if existsb (fun b => op_subtype H false a b) bs
  then (None, [O Function [V 0; V 0]; O a [];
               O (match mins_of H bs with [m] => m | _ => a end) []])
  else (Some (match mins_of H bs with [m] => ESubtypeMismatch | _ => EConstraintViolation end, 2),
        [O Function [V 0; V 0]; O a []]).
Proof. exact engine_bases. Qed.
Print Assumptions C06_engine_bases_exact.

(* the accepted result lies between the argument and a fitting alternative *)
Theorem C06_engine_result : forall H, wf_hier H -> forall a bs fuel sc,
  (variance H a = [] /\ a <> Top /\ a <> Bottom) ->
  Forall (fun b => variance H b = [] /\ b <> Top /\ b <> Bottom) bs -> bs <> [] ->
  9 <= fuel -> length bs + 2 <= fuel ->
  existsb (fun b => op_subtype H false a b) bs = true ->
  let r := run_cmds H fuel
        [CInst (mkSchema 1 (SOp Function [SVar 0; SVar 0])
                         [SCElim (SVar 0) (map (fun b => SOp b []) bs)]);
         CInst (mkSchema 0 (SOp a []) []);
         CApply 0 1 true] 0 [] (empty_store sc) in
  exists res,
    (fst (fst r), map (follow (snd r)) (snd (fst r))) =
      (None, [O Function [V 0; V 0]; O a []; O res []]) /\
    res = match mins_of H bs with [m] => m | _ => a end /\
    op_subtype H false a res = true /\
    exists b, In b bs /\ op_subtype H false a b = true /\ op_subtype H false res b = true.
Proof. exact engine_bases_result. Qed.
Print Assumptions C06_engine_result.

(* ---------- what minimize does on base alternatives ---------- *)

(* the model's minimize rewrites the alternatives obs l to obs (mins_of H l) *)
Theorem C06_minimize_bases : forall H f c s l,
  Forall (fun b => variance H b = [] /\ b <> Top /\ b <> Bottom) l ->
  k_alts (constr_of s c) = map (fun b => O b []) l ->
  minimize H (S (S (S f))) c s =
  MOk tt (set_constr s c
            (mkConstr (k_elim (constr_of s c)) (follow s (k_ref (constr_of s c)))
                      (map (fun b => O b []) (mins_of H l))
                      (k_strict (constr_of s c)) (k_done (constr_of s c)))).
Proof. exact minimize_bases. Qed.
Print Assumptions C06_minimize_bases.

(* kept alternatives are given ones, every given one is below a kept one, hence
   the kept ones accept exactly what the given ones accept *)
Theorem C06_mins_of_sound : forall H l x, In x (mins_of H l) -> In x l.
Proof. exact mins_of_in. Qed.
Print Assumptions C06_mins_of_sound.

Theorem C06_mins_of_cover : forall H, wf_hier H -> forall l x,
  Forall (fun b => variance H b = [] /\ b <> Top /\ b <> Bottom) l -> In x l ->
  exists m, In m (mins_of H l) /\ op_subtype H false x m = true.
Proof. exact mins_of_cover. Qed.
Print Assumptions C06_mins_of_cover.

Theorem C06_mins_of_exists : forall H, wf_hier H -> forall a l,
  (variance H a = [] /\ a <> Top /\ a <> Bottom) ->
  Forall (fun b => variance H b = [] /\ b <> Top /\ b <> Bottom) l ->
  existsb (fun b => op_subtype H false a b) (mins_of H l) =
  existsb (fun b => op_subtype H false a b) l.
Proof. exact mins_of_exists. Qed.
Print Assumptions C06_mins_of_exists.

(* pairwise incomparable alternatives are all kept *)
Theorem C06_mins_of_incomparable : forall H l,
  ForallOrdPairs (fun x y => op_subtype H false x y = false /\ op_subtype H false y x = false) l ->
  mins_of H l = l.
Proof. exact mins_of_incomp. Qed.
Print Assumptions C06_mins_of_incomparable.

(* ---------- non-vacuity ---------- *)
(* Ord=5, Obj=6 unrelated; Nom=7 < Ord; Bin=8 < Nom; Thing=9 < Obj; Cnt=10 < Ord *)
Definition exL : hier := mk_hier [(7,5); (8,7); (9,6); (10,5)] [].
Example exL_wf : wf_hier exL.
Proof.
  split.
  - intros o p. cbn. repeat (destruct o as [|o]; try discriminate; cbn); intros [= <-]; auto with arith.
  - intros o p. cbn. repeat (destruct o as [|o]; try discriminate; cbn); intros [= <-]; cbn; repeat split; discriminate.
  - split; reflexivity.
  - split; reflexivity.
  - reflexivity.
Qed.

Example C06_list_hyps :
  (variance exL 8 = [] /\ 8 <> Top /\ 8 <> Bottom) /\
  Forall (fun b => variance exL b = [] /\ b <> Top /\ b <> Bottom) [7; 10; 5; 6] /\
  [7; 10; 5; 6] <> [] /\ 9 <= 9 /\ length [7; 10; 5; 6] + 2 <= 9.
Proof.
  split; [repeat split; discriminate|]. split.
  - repeat constructor; discriminate.
  - split; [discriminate|]. split; auto with arith.
Qed.

(* minimize: comparable alternatives are merged into the more general one
   (twice here: a duplicate arises), incomparable ones are kept *)
Example C06_list_mins :
  mins_of exL [7; 10; 5; 6] = [5; 5; 6] /\ mins_of exL [7; 5] = [5] /\
  mins_of exL [5; 7] = [5] /\ mins_of exL [7; 6] = [7; 6] /\ mins_of exL [8; 8] = [8].
Proof. repeat split; reflexivity. Qed.

(* the engine model itself on these instances (fuel 9), both outcomes, both
   error kinds and both kinds of result *)
Definition ex_obs (a : nat) (bs : list nat) :=
  let r := run_cmds exL 9 (bases_prog a bs) 0 [] (empty_store []) in
  (fst (fst r), map (follow (snd r)) (snd (fst r))).
Example C06_list_engine :
  ex_obs 8 [7; 10; 5; 6] = (None, [O Function [V 0; V 0]; O 8 []; O 8 []]) /\
  ex_obs 8 [7; 5]        = (None, [O Function [V 0; V 0]; O 8 []; O 5 []]) /\
  ex_obs 8 [7; 6]        = (None, [O Function [V 0; V 0]; O 8 []; O 8 []]) /\
  ex_obs 5 [8; 6]        = (Some (EConstraintViolation, 2), [O Function [V 0; V 0]; O 5 []]) /\
  ex_obs 5 [8; 7]        = (Some (ESubtypeMismatch, 2), [O Function [V 0; V 0]; O 5 []]) /\
  (* mins_of exL [7; 10; 5] = [5; 5]: two entries, so the misfit is a constraint violation *)
  ex_obs 9 [7; 10; 5]    = (Some (EConstraintViolation, 2), [O Function [V 0; V 0]; O 9 []]) /\
  ex_obs 7 [8; 5; 6]     = (None, [O Function [V 0; V 0]; O 7 []; O 7 []]).
Proof. vm_compute. repeat split; reflexivity. Qed.

(* the fuel bound length bs + 2 is needed: 8 alternatives, fuel 9 runs out *)
Example C06_list_fuel :
  fst (ex_obs 8 [5; 6; 5; 6; 5; 6; 5; 6]) = Some (EFuel, 0) /\
  fst (fst (run_cmds exL 10 (bases_prog 8 [5; 6; 5; 6; 5; 6; 5; 6]) 0 [] (empty_store []))) = None.
Proof. vm_compute. split; reflexivity. Qed.
