(* C15  Expanding composite operators is beta-reduction and preserves types.
   Property theorems only; each is closed by [exact] of a library lemma.

   Model: Lam/Term.v (expression trees as de Bruijn terms), Lam/Primitive.v
   (δβ-reduction [step]; [primitive] = unfold every definition, then the
   recursive normalize), Lam/Confluence.v, Lam/Typing.v.  [primitive L n e] is
   fuel-indexed; every theorem holds for all fuels, all languages, all terms.
   Termination for well-typed terms is NOT proved (it needs strong
   normalisation with the subtype order); the harness evaluates the model with
   ample fuel and reports any exhaustion. *)
From Coq Require Import List Arith Bool Lia.
Import ListNotations.
From TF Require Import Base.Hier Base.Ty Sub.SubSpec Lam.Term Lam.Primitive Lam.Confluence Lam.Typing Lam.TypingPinned.

(* the result is reached by replacing composite operators by their definitions
   and contracting applications of abstractions, and contains no composite
   operator and no reducible application *)
Theorem C15_normal : forall (L : lang) n e e', primitive L n e = Some e' ->
  steps L e e' /\ no_comp L e' = true /\ no_redex e' = true /\ normal L e'.
Proof. exact primitive_result. Qed.
Print Assumptions C15_normal.

(* "no composite operator and no reducible application" is exactly "no further
   step possible" *)
Theorem C15_normal_iff : forall (L : lang) t, nfb L t = true <-> normal L t.
Proof. exact nfb_spec. Qed.
Print Assumptions C15_normal_iff.

(* it equals the independently computed normal form: ANY sequence of
   unfoldings and contractions that ends in a normal term ends in the same
   term (confluence), ... *)
Theorem C15_normal_form : forall (L : lang), closed_lang L ->
  forall n t u, primitive L n t = Some u ->
  forall v, steps L t v -> normal L v -> u = v.
Proof. exact primitive_is_normal_form. Qed.
Print Assumptions C15_normal_form.

(* ... in particular the leftmost-outermost evaluator [lo] *)
Theorem C15_independent : forall (L : lang), closed_lang L ->
  forall n m t u v, primitive L n t = Some u -> lo L m t = Some v -> u = v.
Proof. exact primitive_agrees_lo. Qed.
Print Assumptions C15_independent.

Theorem C15_confluent : forall (L : lang), closed_lang L ->
  forall t u v, steps L t u -> steps L t v -> exists w, steps L u w /\ steps L v w.
Proof. exact steps_confluent. Qed.
Print Assumptions C15_confluent.

(* expanding a partially expanded / partially reduced expression gives the
   same result *)
Theorem C15_of_reduct : forall (L : lang), closed_lang L ->
  forall n m t t' u u', steps L t t' ->
  primitive L n t = Some u -> primitive L m t' = Some u' -> u = u'.
Proof. exact primitive_of_reduct. Qed.
Print Assumptions C15_of_reduct.

(* expanding again changes nothing *)
Theorem C15_idempotent : forall (L : lang) n t u, primitive L n t = Some u ->
  forall m, depth u < m -> primitive L m u = Some u.
Proof. exact primitive_idem. Qed.
Print Assumptions C15_idempotent.

(* the result does not depend on the fuel *)
Theorem C15_fuel : forall (L : lang) n m t u v,
  primitive L n t = Some u -> primitive L m t = Some v -> u = v.
Proof. exact primitive_fuel_indep. Qed.
Print Assumptions C15_fuel.

(* typed half, for the declarative discipline (simple types, subsumption along
   the C01 order; operators typed by the instances of their declared type):
   in a language that validates, every type of the expression is a type of its
   expansion ... *)
Theorem C15_type_preserved : forall H, wf_hier H ->
  forall (L : lang) (opty srcty : nat -> ty -> Prop), validates H L opty srcty ->
  forall n G e e' T, primitive L n e = Some e' ->
  has_ty H opty srcty G e T -> has_ty H opty srcty G e' T.
Proof. exact primitive_typed. Qed.
Print Assumptions C15_type_preserved.

(* ... so the least type of the expansion is the same or more specific ... *)
Theorem C15_more_specific : forall H, wf_hier H ->
  forall (L : lang) (opty srcty : nat -> ty -> Prop), validates H L opty srcty ->
  forall n G e e' T T', primitive L n e = Some e' ->
  least_ty H opty srcty G e T -> least_ty H opty srcty G e' T' -> Sub' H T' T.
Proof. exact primitive_least_ty. Qed.
Print Assumptions C15_more_specific.

(* ... and a well-typed use of a composite operator can be replaced by its
   definition at the type of the use (no type error when expanding) *)
Theorem C15_expands_typed : forall H, wf_hier H ->
  forall (L : lang) (opty srcty : nat -> ty -> Prop), validates H L opty srcty ->
  forall G o b T, L o = Some b -> has_ty H opty srcty G (Op o) T -> has_ty H opty srcty G b T.
Proof. exact delta_typed. Qed.
Print Assumptions C15_expands_typed.

Theorem C15_step_typed : forall H, wf_hier H ->
  forall (L : lang) (opty srcty : nat -> ty -> Prop), validates H L opty srcty ->
  forall G e T, has_ty H opty srcty G e T -> forall e', step L e e' -> has_ty H opty srcty G e' T.
Proof. exact step_typed. Qed.
Print Assumptions C15_step_typed.

(* a validated language has closed definitions, so the hypotheses of the
   untyped theorems follow from validation *)
Theorem C15_validated_closed : forall H (L : lang) (opty srcty : nat -> ty -> Prop),
  validates H L opty srcty -> (forall o b, L o = Some b -> exists T, opty o T) -> closed_lang L.
Proof. exact validates_closed. Qed.
Print Assumptions C15_validated_closed.

(* About the PINNED code (before proposed_fixes/C15.diff), separately named:
   Operator.validate compared the declared type with the inferred one the
   other way round (declared <= inferred, [validates_pinned]).  That discipline
   does not preserve types: wide : B0 ** B1 = λx. low x  with  low : B1 ** B1,
   B1 <= B0  passes it, the bare use  wide : B0 ** B1  is well-typed, and its
   expansion  λx. low x  does not have that type.  (Replayed on the
   implementation by the corpus expressions `wide`, `wide s0` of harness/c15.py.) *)
Theorem C15_pinned_validate_refuted :
  exists (H : hier) (L : lang) (opty srcty : nat -> ty -> Prop) (e e' : tm) (T : ty),
    wf_hier H /\ validates_pinned H L opty srcty /\
    has_ty H opty srcty [] e T /\ step L e e' /\ ~ has_ty H opty srcty [] e' T.
Proof. exact pinned_validate_refuted. Qed.
Print Assumptions C15_pinned_validate_refuted.

(* ---- Non-vacuity ------------------------------------------------------
   Language: primitive add(0), f(1); composite add1(2) = λx. add x one,
   compose(3) = λf g x. f (g x), twice(4) = λf x. f (f x), ident(5) = λx. x,
   flip(6) = λf x y. f y x, const(7) = λx y. x, inc2(8) = compose add1 add1
   (a definition nested in definitions, without parameters).  Source one = 0. *)
Definition exl : list (nat * tm) :=
  [ (2, Lam (App (App (Op 0) (Var 0)) (Src 0)));
    (3, Lam (Lam (Lam (App (Var 2) (App (Var 1) (Var 0))))));
    (4, Lam (Lam (App (Var 1) (App (Var 1) (Var 0)))));
    (5, Lam (Var 0));
    (6, Lam (Lam (Lam (App (App (Var 2) (Var 0)) (Var 1)))));
    (7, Lam (Lam (Var 1)));
    (8, App (App (Op 3) (Op 2)) (Op 2)) ].
Definition exL : lang := mk_lang exl.

Example exL_closed : closed_lang exL.
Proof. apply closed_langb_spec. reflexivity. Qed.

Definition add' a b := App (App (Op 0) a) b.
Definition one := Src 0.

(* twice add1 one: the parameter f is used twice and bound to an abstraction *)
Example ex_twice_add1 :
  primitive exL 20 (App (App (Op 4) (Op 2)) one) = Some (add' (add' one one) one).
Proof. vm_compute. reflexivity. Qed.

(* twice twice inc2 one = ((+1)^2)^4 one *)
Example ex_twice_twice :
  primitive exL 60 (App (App (App (Op 4) (Op 4)) (Op 8)) one)
  = Some (add' (add' (add' (add' (add' (add' (add' (add' one one) one) one) one) one) one) one) one).
Proof. vm_compute. reflexivity. Qed.

(* partial application leaves an abstraction; flip/const/compose/ident *)
Example ex_partial :
  primitive exL 30 (App (Op 6) (App (Op 3) (Op 7))) (* flip (compose const) *)
  = Some (Lam (Lam (Lam (App (Var 1) (Var 2))))).
Proof. vm_compute. reflexivity. Qed.

Example ex_lo_agrees :
  lo exL 60 (App (App (App (Op 4) (Op 4)) (Op 8)) one)
  = primitive exL 60 (App (App (App (Op 4) (Op 4)) (Op 8)) one).
Proof. vm_compute. reflexivity. Qed.

Example ex_idem : primitive exL 10 (add' (add' one one) one) = Some (add' (add' one one) one).
Proof. vm_compute. reflexivity. Qed.

(* typed: one base type A(5); add : A**A**A, f, add1, inc2 : A**A, one : A,
   the combinators at every instance of their schemas *)
Definition exH : hier := mk_hier [] [].
Example exH_wf : wf_hier exH.
Proof.
  split.
  - intros o p. cbn. discriminate.
  - intros o p. cbn. discriminate.
  - split; reflexivity.
  - split; reflexivity.
  - reflexivity.
Qed.
Definition tA := TOp 5 [].
Definition ex_opty (o : nat) (T : ty) : Prop :=
  match o with
  | 0 => T = arrow tA (arrow tA tA)
  | 1 | 2 | 8 => T = arrow tA tA
  | 3 => exists a b c, T = arrow (arrow b c) (arrow (arrow a b) (arrow a c))
  | 4 => exists a, T = arrow (arrow a a) (arrow a a)
  | 5 => exists a, T = arrow a a
  | 6 => exists a b c, T = arrow (arrow a (arrow b c)) (arrow b (arrow a c))
  | 7 => exists a b, T = arrow a (arrow b a)
  | _ => False
  end.
Definition ex_srcty (s : nat) (T : ty) : Prop := s = 0 /\ T = tA.

Ltac tyvar := apply T_Var; reflexivity.
Example ex_validates : validates exH exL ex_opty ex_srcty.
Proof.
  intros o b Lo T O. unfold exL, mk_lang in Lo.
  destruct o as [|[|[|[|[|[|[|[|[|o]]]]]]]]]; cbn in Lo; try discriminate;
    injection Lo as <-; cbn in O.
  - subst T. apply T_Lam. eapply T_App; [eapply T_App; [apply T_Op; reflexivity | tyvar]|].
    apply T_Src. split; reflexivity.
  - destruct O as (a & b & c & ->). repeat apply T_Lam.
    eapply T_App; [tyvar|]. eapply T_App; tyvar.
  - destruct O as (a & ->). repeat apply T_Lam.
    eapply T_App; [tyvar|]. eapply T_App; tyvar.
  - destruct O as (a & ->). apply T_Lam. tyvar.
  - destruct O as (a & b & c & ->). repeat apply T_Lam.
    eapply T_App; [eapply T_App; tyvar | tyvar].
  - destruct O as (a & b & ->). repeat apply T_Lam. tyvar.
  - subst T. eapply T_App; [eapply T_App|].
    + apply T_Op. exists tA, tA, tA. reflexivity.
    + apply T_Op. reflexivity.
    + apply T_Op. reflexivity.
Qed.

Example ex_typed : has_ty exH ex_opty ex_srcty [] (App (App (App (Op 4) (Op 4)) (Op 8)) one) tA.
Proof.
  eapply T_App; [eapply T_App; [eapply T_App|]|].
  - apply T_Op. exists (arrow tA tA). reflexivity.
  - apply T_Op. exists tA. reflexivity.
  - apply T_Op. reflexivity.
  - apply T_Src. split; reflexivity.
Qed.
