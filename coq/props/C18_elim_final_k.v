(* C18 for the class progE: the whole-program theorem with [eqk]
   (Infer/SchedIndepElimK.v).  In the success case the two final stores agree on all
   cells, all constraint sets and all constraint records up to the RAW reference of
   fulfilled elimination constraints, and the FOLLOWED references of all constraints
   agree (C18_elim_eqk_unfold; C18_elim_final_follow states the latter as a list
   equation).  The raw reference itself does depend on the order (C18_elim_ref_refuted).

   How: the raw references of constraint c in the two runs have a common origin
   ([org]): at creation the schematic variable of the declared constraint
   (instance_allocE of Infer/ExprSoundElim.v; same variable in both runs, the stores
   agree on all cells at every command boundary by C18_elim_final_RelCmd), later only
   replaced by something reachable from it through bindings that are kept
   (run_cmd_kfr); reachable terms follow to the same type (reach_follow_eq). *)
From Coq Require Import List Arith Bool.
Import ListNotations.
From TF Require Import Base.Hier Base.Ty Infer.Store Infer.Engine Infer.Run Infer.Inv Infer.Sound
  Infer.SchedIndep Infer.SoundElimS Infer.TermElim Infer.ExprSoundElim Infer.SchedIndepElimA
  Infer.SchedIndepElimR Infer.SchedIndepElim Infer.SchedIndepElimP Infer.SchedIndepElimI
  Infer.SchedIndepElimQ Infer.SchedIndepElimW Infer.SchedIndepElimR2 Infer.SchedIndepElimK.

Theorem C18_elim_final_k : forall H, wf_hier H -> forall fuel prog sc1 sc2,
  progE H 0 prog -> prog_fuelE prog <= fuel ->
  match run_cmds H fuel prog 0 [] (empty_store sc1), run_cmds H fuel prog 0 [] (empty_store sc2) with
  | (None, v1, t1), (None, v2, t2) => v1 = v2 /\ eqk t1 t2
  | (Some (e1, i1), _, _), (Some (e2, i2), _, _) => i1 = i2 /\ e1 <> EFuel /\ e2 <> EFuel
  | _, _ => False
  end.
Proof. exact final_k. Qed.
Print Assumptions C18_elim_final_k.

Theorem C18_elim_final_follow : forall H, wf_hier H -> forall fuel prog sc1 sc2 v1 t1 v2 t2,
  progE H 0 prog -> prog_fuelE prog <= fuel ->
  run_cmds H fuel prog 0 [] (empty_store sc1) = (None, v1, t1) ->
  run_cmds H fuel prog 0 [] (empty_store sc2) = (None, v2, t2) ->
  map (fun k => follow t1 (k_ref k)) (constrs t1) = map (fun k => follow t2 (k_ref k)) (constrs t2).
Proof. exact final_follow. Qed.
Print Assumptions C18_elim_final_follow.

Example C18_elim_final_k_org_unfold : forall s1 s2,
  org s1 s2 <->
  forall c, c < length (constrs s1) ->
    exists r, reach s1 r (k_ref (constr_of s1 c)) /\ reach s2 r (k_ref (constr_of s2 c)).
Proof. intros. reflexivity. Qed.

Theorem C18_elim_final_k_step : forall H fuel c vals s1 s2 v1 t1 v2 t2, cmdE H (length vals) c ->
  eqr s1 s2 -> org s1 s2 ->
  run_cmd H fuel c vals s1 = MOk v1 t1 -> run_cmd H fuel c vals s2 = MOk v2 t2 -> org t1 t2.
Proof. exact org_step. Qed.
Print Assumptions C18_elim_final_k_step.

Theorem C18_elim_final_k_eqk : forall t1 t2, core t1 -> core t2 -> eqr t1 t2 -> org t1 t2 -> eqk t1 t2.
Proof. exact eqr_org_eqk. Qed.
Print Assumptions C18_elim_final_k_eqk.

(* rprog under any two schedules: same values, eqk stores *)
Example C18_elim_final_k_ex : forall sc1 sc2,
  match run_cmds rH 200 rprog 0 [] (empty_store sc1), run_cmds rH 200 rprog 0 [] (empty_store sc2) with
  | (None, v1, t1), (None, v2, t2) => v1 = v2 /\ eqk t1 t2
  | (Some (e1, i1), _, _), (Some (e2, i2), _, _) => i1 = i2 /\ e1 <> EFuel /\ e2 <> EFuel
  | _, _ => False
  end.
Proof.
  intros sc1 sc2. apply (final_k rH rH_wf 200 rprog sc1 sc2 rprog_progE). vm_compute. auto 300 with arith.
Qed.
