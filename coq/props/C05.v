(* C05  On comparable arguments the inferred type is the least one, in any order.

   Statements are about the engine model Infer/Engine.v (faithful, fuelled model
   of transforge/type.py: unify / above / below / bind / fix / instance / apply)
   run through the command interpreter Infer/Run.v with the default schedule [].

   Program (Lub.chain_prog args, for args = [a1; ..; an]):
     [CInst (x ** x ** .. ** x);            -- n parameters, result x (sig_id n)
      CInst a1; CApply 0 1 true; CInst a2; CApply 2 3 true; ...]
   i.e. the signature is applied to a1, then the result to a2, ... with fix=True.
   chain_prog_c fs args is the same with every parameter and every argument
   wrapped in the covariant unary context F1(F2(..)) for fs = [F1; F2; ..]
   (the result stays x); chain_prog args = chain_prog_c [] args.

   Proved for EVERY well-formed hierarchy, every number n >= 1 of arguments and
   every fuel >= |fs| + n + 3:
     C05_lub / C05_lub_top_bottom / C05_lub_ctx   success + result is the maximum
     C05_perm / .._top_bottom / .._ctx            any permutation gives the same result
     C05_mono / C05_mono_one / .._top_bottom / .._ctx
                                                  specialising arguments keeps success,
                                                  result can only go down
     C05_glb / C05_glb_fix / C05_glb_perm / C05_glb_top_bottom
                                                  contravariant reading, fuel >= n + 4:
                                                  (x ** b) ** .. ** (x ** b) ** x applied to
                                                  (a_i ** b) leaves x with the minimum as its
                                                  upper bound, in any order
     C05_above_eval, C05_above_pure_spec, C05_below_eval, C05_below_pure_spec
                                                  exact behaviour of TypeVariable.above /
                                                  below on a variable with no constraints
   Not covered: contexts other than nests of covariant unary operators and the
   single contravariant function-argument position (e.g. mixed variance,
   several parameters, a context around the result), and the last sentence of
   the property (fix of arbitrary single-polarity types). *)
From Coq Require Import List Arith Bool Lia Permutation.
Import ListNotations.
From TF Require Import Base.Hier Base.Ty Infer.Store Infer.Engine Infer.Run Infer.Lub.

(* ---------- 1. the result is the least upper bound ---------- *)

Theorem C05_lub : forall H, wf_hier H -> forall (args : list nat) (m fuel : nat),
  (forall a, In a args -> variance H a = [] /\ a <> Top /\ a <> Bottom) ->
  (forall a b, In a args -> In b args -> Anc H a b \/ Anc H b a) ->
  In m args -> (forall a, In a args -> Anc H a m) ->
  length args + 3 <= fuel ->
  exists vals s,
    run_cmds H fuel (chain_prog args) 0 [] (empty_store []) = (None, vals, s) /\
    follow s (last vals (V 0)) = O m [].
Proof. exact lub_stmt. Qed.
Print Assumptions C05_lub.

(* a non-empty chain has a maximum, so C05_lub always applies *)
Theorem C05_max_exists : forall H, wf_hier H -> forall (args : list nat),
  args <> [] ->
  (forall a, In a args -> variance H a = [] /\ a <> Top /\ a <> Bottom) ->
  (forall a b, In a args -> In b args -> Anc H a b \/ Anc H b a) ->
  exists m, In m args /\ forall a, In a args -> Anc H a m.
Proof. exact max_exists_stmt. Qed.
Print Assumptions C05_max_exists.

(* Top and Bottom among the arguments: the order is the operator order
   (a = Bottom \/ b = Top \/ Anc a b).  Bottom is ignored, Top resolves the
   variable at once; when every argument is Bottom the result stays the
   (unresolved) variable V 0. *)
Theorem C05_lub_top_bottom : forall H, wf_hier H -> forall (args : list nat) (m fuel : nat),
  (forall a, In a args -> variance H a = []) ->
  (forall a b, In a args -> In b args ->
     (a = Bottom \/ b = Top \/ Anc H a b) \/ (b = Bottom \/ a = Top \/ Anc H b a)) ->
  In m args -> (forall a, In a args -> a = Bottom \/ m = Top \/ Anc H a m) ->
  length args + 3 <= fuel ->
  exists vals s,
    run_cmds H fuel (chain_prog args) 0 [] (empty_store []) = (None, vals, s) /\
    follow s (last vals (V 0)) = if Nat.eqb m Bottom then V 0 else O m [].
Proof. exact lub_top_bottom_stmt. Qed.
Print Assumptions C05_lub_top_bottom.

(* ---------- 2. order independence ---------- *)

Theorem C05_perm : forall H, wf_hier H -> forall (args args' : list nat) (fuel : nat),
  args <> [] ->
  (forall a, In a args -> variance H a = [] /\ a <> Top /\ a <> Bottom) ->
  (forall a b, In a args -> In b args -> Anc H a b \/ Anc H b a) ->
  Permutation args args' ->
  length args + 3 <= fuel ->
  exists m vals s vals' s',
    In m args /\ (forall a, In a args -> Anc H a m) /\
    run_cmds H fuel (chain_prog args) 0 [] (empty_store []) = (None, vals, s) /\
    follow s (last vals (V 0)) = O m [] /\
    run_cmds H fuel (chain_prog args') 0 [] (empty_store []) = (None, vals', s') /\
    follow s' (last vals' (V 0)) = O m [].
Proof. exact perm_stmt. Qed.
Print Assumptions C05_perm.

Theorem C05_perm_top_bottom : forall H, wf_hier H -> forall (args args' : list nat) (fuel : nat),
  args <> [] ->
  (forall a, In a args -> variance H a = []) ->
  (forall a b, In a args -> In b args ->
     (a = Bottom \/ b = Top \/ Anc H a b) \/ (b = Bottom \/ a = Top \/ Anc H b a)) ->
  Permutation args args' ->
  length args + 3 <= fuel ->
  exists vals s vals' s',
    run_cmds H fuel (chain_prog args) 0 [] (empty_store []) = (None, vals, s) /\
    run_cmds H fuel (chain_prog args') 0 [] (empty_store []) = (None, vals', s') /\
    follow s (last vals (V 0)) = follow s' (last vals' (V 0)).
Proof. exact perm_top_bottom_stmt. Qed.
Print Assumptions C05_perm_top_bottom.

(* ---------- 3. specialising arguments ---------- *)

(* any number of arguments replaced pointwise by subtypes (both tuples chains) *)
Theorem C05_mono : forall H, wf_hier H -> forall (args args' : list nat) (fuel : nat),
  args <> [] ->
  (forall a, In a args -> variance H a = [] /\ a <> Top /\ a <> Bottom) ->
  (forall a b, In a args -> In b args -> Anc H a b \/ Anc H b a) ->
  (forall a, In a args' -> variance H a = [] /\ a <> Top /\ a <> Bottom) ->
  (forall a b, In a args' -> In b args' -> Anc H a b \/ Anc H b a) ->
  Forall2 (fun x' x => Anc H x' x) args' args ->
  length args + 3 <= fuel ->
  exists m m' vals s vals' s',
    run_cmds H fuel (chain_prog args) 0 [] (empty_store []) = (None, vals, s) /\
    follow s (last vals (V 0)) = O m [] /\
    run_cmds H fuel (chain_prog args') 0 [] (empty_store []) = (None, vals', s') /\
    follow s' (last vals' (V 0)) = O m' [] /\
    Anc H m' m.
Proof. exact mono_stmt. Qed.
Print Assumptions C05_mono.

(* one argument replaced *)
Theorem C05_mono_one : forall H, wf_hier H -> forall (l1 l2 : list nat) (a a' fuel : nat),
  (forall x, In x (l1 ++ a :: l2) -> variance H x = [] /\ x <> Top /\ x <> Bottom) ->
  (forall x y, In x (l1 ++ a :: l2) -> In y (l1 ++ a :: l2) -> Anc H x y \/ Anc H y x) ->
  (forall x, In x (l1 ++ a' :: l2) -> variance H x = [] /\ x <> Top /\ x <> Bottom) ->
  (forall x y, In x (l1 ++ a' :: l2) -> In y (l1 ++ a' :: l2) -> Anc H x y \/ Anc H y x) ->
  Anc H a' a ->
  length (l1 ++ a :: l2) + 3 <= fuel ->
  exists m m' vals s vals' s',
    run_cmds H fuel (chain_prog (l1 ++ a :: l2)) 0 [] (empty_store []) = (None, vals, s) /\
    follow s (last vals (V 0)) = O m [] /\
    run_cmds H fuel (chain_prog (l1 ++ a' :: l2)) 0 [] (empty_store []) = (None, vals', s') /\
    follow s' (last vals' (V 0)) = O m' [] /\
    Anc H m' m.
Proof. exact mono_one_stmt. Qed.
Print Assumptions C05_mono_one.

Theorem C05_mono_top_bottom : forall H, wf_hier H -> forall (args args' : list nat) (fuel : nat),
  args <> [] ->
  (forall a, In a args -> variance H a = []) ->
  (forall a b, In a args -> In b args ->
     (a = Bottom \/ b = Top \/ Anc H a b) \/ (b = Bottom \/ a = Top \/ Anc H b a)) ->
  (forall a, In a args' -> variance H a = []) ->
  (forall a b, In a args' -> In b args' ->
     (a = Bottom \/ b = Top \/ Anc H a b) \/ (b = Bottom \/ a = Top \/ Anc H b a)) ->
  Forall2 (fun x' x => x' = Bottom \/ x = Top \/ Anc H x' x) args' args ->
  length args + 3 <= fuel ->
  exists vals s vals' s',
    run_cmds H fuel (chain_prog args) 0 [] (empty_store []) = (None, vals, s) /\
    run_cmds H fuel (chain_prog args') 0 [] (empty_store []) = (None, vals', s') /\
    (follow s' (last vals' (V 0)) = V 0 \/
     exists m m', follow s (last vals (V 0)) = O m [] /\
                  follow s' (last vals' (V 0)) = O m' [] /\
                  (m' = Bottom \/ m = Top \/ Anc H m' m)).
Proof. exact mono_top_bottom_stmt. Qed.
Print Assumptions C05_mono_top_bottom.

(* ---------- 4. covariant unary contexts c(x) ** ... ** c(x) ** x ---------- *)

Theorem C05_lub_ctx : forall H, wf_hier H -> forall (fs args : list nat) (m fuel : nat),
  (forall g, In g fs -> variance H g = [true]) ->
  (forall a, In a args -> variance H a = []) ->
  (forall a b, In a args -> In b args ->
     (a = Bottom \/ b = Top \/ Anc H a b) \/ (b = Bottom \/ a = Top \/ Anc H b a)) ->
  In m args -> (forall a, In a args -> a = Bottom \/ m = Top \/ Anc H a m) ->
  length fs + length args + 3 <= fuel ->
  exists vals s,
    run_cmds H fuel (chain_prog_c fs args) 0 [] (empty_store []) = (None, vals, s) /\
    follow s (last vals (V 0)) = if Nat.eqb m Bottom then V 0 else O m [].
Proof. exact lub_ctx_stmt. Qed.
Print Assumptions C05_lub_ctx.

Theorem C05_perm_ctx : forall H, wf_hier H -> forall (fs args args' : list nat) (fuel : nat),
  (forall g, In g fs -> variance H g = [true]) ->
  args <> [] ->
  (forall a, In a args -> variance H a = []) ->
  (forall a b, In a args -> In b args ->
     (a = Bottom \/ b = Top \/ Anc H a b) \/ (b = Bottom \/ a = Top \/ Anc H b a)) ->
  Permutation args args' ->
  length fs + length args + 3 <= fuel ->
  exists vals s vals' s',
    run_cmds H fuel (chain_prog_c fs args) 0 [] (empty_store []) = (None, vals, s) /\
    run_cmds H fuel (chain_prog_c fs args') 0 [] (empty_store []) = (None, vals', s') /\
    follow s (last vals (V 0)) = follow s' (last vals' (V 0)).
Proof. exact perm_ctx_stmt. Qed.
Print Assumptions C05_perm_ctx.

Theorem C05_mono_ctx : forall H, wf_hier H -> forall (fs args args' : list nat) (fuel : nat),
  (forall g, In g fs -> variance H g = [true]) ->
  args <> [] ->
  (forall a, In a args -> variance H a = []) ->
  (forall a b, In a args -> In b args ->
     (a = Bottom \/ b = Top \/ Anc H a b) \/ (b = Bottom \/ a = Top \/ Anc H b a)) ->
  (forall a, In a args' -> variance H a = []) ->
  (forall a b, In a args' -> In b args' ->
     (a = Bottom \/ b = Top \/ Anc H a b) \/ (b = Bottom \/ a = Top \/ Anc H b a)) ->
  Forall2 (fun x' x => x' = Bottom \/ x = Top \/ Anc H x' x) args' args ->
  length fs + length args + 3 <= fuel ->
  exists vals s vals' s',
    run_cmds H fuel (chain_prog_c fs args) 0 [] (empty_store []) = (None, vals, s) /\
    run_cmds H fuel (chain_prog_c fs args') 0 [] (empty_store []) = (None, vals', s') /\
    (follow s' (last vals' (V 0)) = V 0 \/
     exists m m', follow s (last vals (V 0)) = O m [] /\
                  follow s' (last vals' (V 0)) = O m' [] /\
                  (m' = Bottom \/ m = Top \/ Anc H m' m)).
Proof. exact mono_ctx_stmt. Qed.
Print Assumptions C05_mono_ctx.

(* ---------- 4b. contravariant reading: upper bound = minimum ---------- *)

(* chain_prog_d b args:
     [CInst ((x ** b) ** ... ** (x ** b) ** x);  CInst (a1 ** b); CApply 0 1 true; ...]
   x occurs only in argument position of the parameters, so every a_i becomes an
   upper bound of x; the final fix (prefer_lower) leaves x unresolved with
   upper bound the minimum m of the arguments. *)
Theorem C05_glb : forall H, wf_hier H -> forall (b : nat) (args : list nat) (m fuel : nat),
  variance H b = [] ->
  (forall a, In a args -> variance H a = [] /\ a <> Top /\ a <> Bottom) ->
  (forall a b, In a args -> In b args -> Anc H a b \/ Anc H b a) ->
  In m args -> (forall a, In a args -> Anc H m a) ->
  length args + 4 <= fuel ->
  exists vals s,
    run_cmds H fuel (chain_prog_d b args) 0 [] (empty_store []) = (None, vals, s) /\
    follow s (last vals (V 0)) = V 0 /\
    cell_of s 0 = mkCell false None None (Some m) 0.
Proof. exact glb_stmt. Qed.
Print Assumptions C05_glb.

(* the same followed by fix(prefer_lower=False) on the result: x := m *)
Theorem C05_glb_fix : forall H, wf_hier H -> forall (b : nat) (args : list nat) (m fuel : nat),
  variance H b = [] ->
  (forall a, In a args -> variance H a = [] /\ a <> Top /\ a <> Bottom) ->
  (forall a b, In a args -> In b args -> Anc H a b \/ Anc H b a) ->
  In m args -> (forall a, In a args -> Anc H m a) ->
  length args + 4 <= fuel ->
  exists vals s,
    run_cmds H fuel (chain_prog_d b args ++ [CFix (2 * length args) false]) 0 []
             (empty_store []) = (None, vals, s) /\
    follow s (last vals (V 0)) = O m [].
Proof. exact glb_fix_stmt. Qed.
Print Assumptions C05_glb_fix.

Theorem C05_min_exists : forall H, wf_hier H -> forall (args : list nat),
  args <> [] ->
  (forall a, In a args -> variance H a = [] /\ a <> Top /\ a <> Bottom) ->
  (forall a b, In a args -> In b args -> Anc H a b \/ Anc H b a) ->
  exists m, In m args /\ forall a, In a args -> Anc H m a.
Proof. exact min_exists_stmt. Qed.
Print Assumptions C05_min_exists.

Theorem C05_glb_perm : forall H, wf_hier H -> forall (b : nat) (args args' : list nat) (fuel : nat),
  variance H b = [] -> args <> [] ->
  (forall a, In a args -> variance H a = [] /\ a <> Top /\ a <> Bottom) ->
  (forall a b, In a args -> In b args -> Anc H a b \/ Anc H b a) ->
  Permutation args args' ->
  length args + 4 <= fuel ->
  exists m vals s vals' s',
    In m args /\ (forall a, In a args -> Anc H m a) /\
    run_cmds H fuel (chain_prog_d b args) 0 [] (empty_store []) = (None, vals, s) /\
    follow s (last vals (V 0)) = V 0 /\
    cell_of s 0 = mkCell false None None (Some m) 0 /\
    run_cmds H fuel (chain_prog_d b args') 0 [] (empty_store []) = (None, vals', s') /\
    follow s' (last vals' (V 0)) = V 0 /\
    cell_of s' 0 = mkCell false None None (Some m) 0.
Proof. exact glb_perm_stmt. Qed.
Print Assumptions C05_glb_perm.

(* Top is ignored, Bottom resolves the variable to Bottom at once *)
Theorem C05_glb_top_bottom : forall H, wf_hier H ->
  forall (b : nat) (args : list nat) (m fuel : nat),
  variance H b = [] ->
  (forall a, In a args -> variance H a = []) ->
  (forall a b, In a args -> In b args ->
     (a = Bottom \/ b = Top \/ Anc H a b) \/ (b = Bottom \/ a = Top \/ Anc H b a)) ->
  In m args -> (forall a, In a args -> m = Bottom \/ a = Top \/ Anc H m a) ->
  length args + 4 <= fuel ->
  exists vals s,
    run_cmds H fuel (chain_prog_d b args) 0 [] (empty_store []) = (None, vals, s) /\
    if Nat.eqb m Top
    then follow s (last vals (V 0)) = V 0 /\ cell_of s 0 = mkCell false None None None 0
    else if Nat.eqb m Bottom
    then follow s (last vals (V 0)) = O Bottom []
    else follow s (last vals (V 0)) = V 0 /\ cell_of s 0 = mkCell false None None (Some m) 0.
Proof. exact glb_top_bottom_stmt. Qed.
Print Assumptions C05_glb_top_bottom.

(* ---------- 5. TypeVariable.above / below without pending constraints ---------- *)

(* exact evaluation, any store: v is an unbound variable with bounds lo/up whose
   constraint set i is empty.  above_pure H lo up new = None is SubtypeMismatch,
   Some lo' is the new lower bound; above_tail is the closing
   `if lower == upper: bind` (a no-op unless the bounds meet, above_tail_open) *)
Theorem C05_above_eval : forall H f v new s w lo up i,
  v < length (vars s) -> cell_of s v = mkCell w None lo up i -> cset_of s i = [] ->
  Nat.eqb new Top = false ->
  above H (S (S f)) v new s =
    match above_pure H lo up new with
    | Some lo' => above_tail H (S f) v (set_cell s v (mkCell false None lo' up i))
    | None => MEr ESubtypeMismatch (set_cell s v (mkCell false None lo up i))
    end.
Proof. exact above_eval. Qed.
Print Assumptions C05_above_eval.

Theorem C05_above_tail_open : forall H f v s w b lo up i,
  cell_of s v = mkCell w b lo up i ->
  (match lo, up with Some l, Some u => Nat.eqb l u = false | _, _ => True end) ->
  above_tail H f v s = MOk tt s.
Proof. exact above_tail_open. Qed.
Print Assumptions C05_above_tail_open.

(* failure exactly when the new type is not below the upper bound or is
   incomparable with the lower bound; otherwise new lower bound = maximum *)
Theorem C05_above_pure_spec : forall H, wf_hier H -> forall lo up new,
  user H new -> obounds_user H lo -> obounds_user H up ->
  match above_pure H lo up new with
  | None => (exists u, up = Some u /\ ~ Anc H new u) \/
            (exists l, lo = Some l /\ ~ Anc H new l /\ ~ Anc H l new)
  | Some lo' => (forall u, up = Some u -> Anc H new u) /\
                exists m, lo' = Some m /\ Anc H new m /\
                          (forall l, lo = Some l -> Anc H l m) /\ (m = new \/ lo = Some m)
  end.
Proof. exact above_pure_spec. Qed.
Print Assumptions C05_above_pure_spec.

Theorem C05_below_eval : forall H f v new s w lo up i,
  v < length (vars s) -> cell_of s v = mkCell w None lo up i -> cset_of s i = [] ->
  Nat.eqb new Bottom = false ->
  below H (S (S f)) v new s =
    match below_pure H lo up new with
    | Some up' => below_tail H (S f) v (set_cell s v (mkCell false None lo up' i))
    | None => MEr ESubtypeMismatch (set_cell s v (mkCell false None lo up i))
    end.
Proof. exact below_eval. Qed.
Print Assumptions C05_below_eval.

Theorem C05_below_pure_spec : forall H, wf_hier H -> forall lo up new,
  user H new -> obounds_user H lo -> obounds_user H up ->
  match below_pure H lo up new with
  | None => (exists l, lo = Some l /\ ~ Anc H l new) \/
            (exists u, up = Some u /\ ~ Anc H new u /\ ~ Anc H u new)
  | Some up' => (forall l, lo = Some l -> Anc H l new) /\
                exists m, up' = Some m /\ Anc H m new /\
                          (forall u, up = Some u -> Anc H m u) /\ (m = new \/ up = Some m)
  end.
Proof. exact below_pure_spec. Qed.
Print Assumptions C05_below_pure_spec.

(* ---------- non-vacuity ---------- *)

(* A(5) > B(6) > C(7), D(8) < A a sibling of B, F(9) unary covariant *)
Definition exH : hier := mk_hier [(6,5); (7,6); (8,5)] [(9, [true])].
Example exH_wf : wf_hier exH.
Proof.
  split.
  - intros o p. cbn. repeat (destruct o as [|o]; try discriminate; cbn); intros [= <-]; auto with arith.
  - intros o p. cbn. repeat (destruct o as [|o]; try discriminate; cbn); intros [= <-]; cbn; repeat split; discriminate.
  - split; reflexivity.
  - split; reflexivity.
  - reflexivity.
Qed.

Example ex_sig : sig_id 3 =
  mkSchema 1 (SOp Function [SVar 0; SOp Function [SVar 0; SOp Function [SVar 0; SVar 0]]]) [].
Proof. reflexivity. Qed.

Example ex_prog : chain_prog [7; 5; 6] =
  [CInst (sig_id 3);
   CInst (mkSchema 0 (SOp 7 []) []); CApply 0 1 true;
   CInst (mkSchema 0 (SOp 5 []) []); CApply 2 3 true;
   CInst (mkSchema 0 (SOp 6 []) []); CApply 4 5 true].
Proof. reflexivity. Qed.

Example ex_prog_ctx : chain_prog_c [9; 9] [7; 6] =
  [CInst (mkSchema 1 (SOp Function [SOp 9 [SOp 9 [SVar 0]];
                       SOp Function [SOp 9 [SOp 9 [SVar 0]]; SVar 0]]) []);
   CInst (mkSchema 0 (SOp 9 [SOp 9 [SOp 7 []]]) []); CApply 0 1 true;
   CInst (mkSchema 0 (SOp 9 [SOp 9 [SOp 6 []]]) []); CApply 2 3 true].
Proof. reflexivity. Qed.

Lemma exAnc65 : Anc exH 6 5. Proof. econstructor; [reflexivity|constructor]. Qed.
Lemma exAnc76 : Anc exH 7 6. Proof. econstructor; [reflexivity|constructor]. Qed.
Lemma exAnc75 : Anc exH 7 5. Proof. econstructor; [reflexivity|apply exAnc65]. Qed.

(* the hypotheses of C05_lub hold for (C, A, B) with maximum A ... *)
Example ex_hyps :
  (forall a, In a [7; 5; 6] -> variance exH a = [] /\ a <> Top /\ a <> Bottom) /\
  (forall a b, In a [7; 5; 6] -> In b [7; 5; 6] -> Anc exH a b \/ Anc exH b a) /\
  In 5 [7; 5; 6] /\ (forall a, In a [7; 5; 6] -> Anc exH a 5).
Proof.
  split; [|split; [|split]].
  - intros a Ha. cbn in Ha.
    destruct Ha as [<-|[<-|[<-|[]]]]; repeat split; discriminate || reflexivity.
  - intros a b Ha Hb. cbn in Ha, Hb.
    destruct Ha as [<-|[<-|[<-|[]]]]; destruct Hb as [<-|[<-|[<-|[]]]];
      auto using anc_refl, exAnc65, exAnc76, exAnc75.
  - cbn; auto.
  - intros a Ha. cbn in Ha.
    destruct Ha as [<-|[<-|[<-|[]]]]; auto using anc_refl, exAnc65, exAnc75.
Qed.

(* ... and the model computes what the theorem says, at the stated fuel bound *)
Example ex_run :
  (let '(e, vals, s) := run_cmds exH 6 (chain_prog [7; 5; 6]) 0 [] (empty_store []) in
   (e, follow s (last vals (V 0)))) = (None, O 5 []).
Proof. vm_compute. reflexivity. Qed.

Example ex_run_top_bottom :
  (let '(e, vals, s) := run_cmds exH 7 (chain_prog [Bottom; 7; Top; 6]) 0 [] (empty_store []) in
   (e, follow s (last vals (V 0)))) = (None, O Top []) /\
  (let '(e, vals, s) := run_cmds exH 5 (chain_prog [Bottom; Bottom]) 0 [] (empty_store []) in
   (e, follow s (last vals (V 0)))) = (None, V 0).
Proof. split; vm_compute; reflexivity. Qed.

Example ex_run_ctx :
  (let '(e, vals, s) := run_cmds exH 8 (chain_prog_c [9; 9] [7; 6; Bottom]) 0 [] (empty_store []) in
   (e, follow s (last vals (V 0)))) = (None, O 6 []).
Proof. vm_compute. reflexivity. Qed.

Example ex_prog_contra : chain_prog_d 8 [5; 7] =
  [CInst (mkSchema 1 (SOp Function [SOp Function [SVar 0; SOp 8 []];
                       SOp Function [SOp Function [SVar 0; SOp 8 []]; SVar 0]]) []);
   CInst (mkSchema 0 (SOp Function [SOp 5 []; SOp 8 []]) []); CApply 0 1 true;
   CInst (mkSchema 0 (SOp Function [SOp 7 []; SOp 8 []]) []); CApply 2 3 true].
Proof. reflexivity. Qed.

Example ex_run_contra :
  (let '(e, vals, s) := run_cmds exH 7 (chain_prog_d 8 [6; 7; 5]) 0 [] (empty_store []) in
   (e, follow s (last vals (V 0)), cell_of s 0))
    = (None, V 0, mkCell false None None (Some 7) 0) /\
  (let '(e, vals, s) := run_cmds exH 7 (chain_prog_d 8 [6; 7; 5] ++ [CFix 6 false]) 0 []
                                 (empty_store []) in
   (e, follow s (last vals (V 0)))) = (None, O 7 []).
Proof. split; vm_compute; reflexivity. Qed.

(* The chain hypothesis cannot be dropped: with the incomparable siblings B, D
   below A the outcome depends on the order (only the current lower bound is
   remembered): (A, B, D) is accepted with result A, (B, D, A) is rejected.
   The implementation behaves the same. *)
Example ex_non_chain_is_order_dependent :
  (let '(e, vals, s) := run_cmds exH 10 (chain_prog [5; 6; 8]) 0 [] (empty_store []) in
   (e, follow s (last vals (V 0)))) = (None, O 5 []) /\
  fst (fst (run_cmds exH 10 (chain_prog [6; 8; 5]) 0 [] (empty_store [])))
    = Some (ESubtypeMismatch, 4).
Proof. split; vm_compute; reflexivity. Qed.
