(* C05 for mixed signatures c_1[x] ** .. ** c_n[x] ** r[x] (props/C05_mixed.v) when
   the argument list may contain Bottom in covariant and Top in contravariant
   positions.  PARTIAL with respect to "Top and Bottom anywhere": see below.

   effC H cas = the pairs of cas except those the engine ignores (C05_mixed_effC:
   Bottom supplied in a covariant, Top in a contravariant position).  Proved for
   every well-formed hierarchy, all contexts, every n >= 1:
     C05_mixed_iff_tb / C05_mixed_fail_tb / C05_mixed_success_tb / C05_mixed_perm_tb
   are C05_mixed_iff / _fail / _success / _perm with the cross condition, the
   extremal arguments lo / up and the chain hypothesis read on effC H cas: ignored
   arguments change neither success, nor the cell of x, nor the result (command
   indices 2j+2 still count every argument).  In terms of the order
   ole a b := a = Bottom \/ b = Top \/ Anc a b this is "success iff every
   covariant argument is ole every contravariant one".

   NOT proved (names ..._tb are therefore partial): Top in a covariant and Bottom
   in a contravariant position.  What the model does there (Examples mxtb_corner,
   checked by vm_compute, all consistent with the ole reading of success):
     Top covariant:  x := Top at once (bind); fails if an upper bound is already
       present; afterwards every covariant argument is accepted and every
       contravariant argument other than Top is rejected (SubtypeMismatch) -- so
       "Top covariant then contravariant user type" fails, in both orders;
     Bottom contravariant: dually x := Bottom; fails if a lower bound is present;
       afterwards covariant arguments other than Bottom are rejected;
     Top covariant with Bottom contravariant: rejected in both orders;
     c_bound and the result are order-independent, but c_lower (resp. c_upper) of
       the cell keeps whatever bound had been recorded BEFORE Top (Bottom) arrived:
       [A1; Top] leaves c_lower = Some A1, [Top; A1] leaves c_lower = None.  A
       permutation theorem for these cases can only claim c_bound and the result.
   Missing for a proof: two more abstract states (resolved to Top with a stale
   lower bound / to Bottom with a stale upper bound) in LubMixed.xst and a
   representation predicate that is insensitive to the stale bound. *)
From Coq Require Import List Arith Bool Lia Permutation.
Import ListNotations.
From TF Require Import Base.Hier Base.Ty Infer.Store Infer.Engine Infer.Run Infer.Lub
  Infer.LubCtx Infer.LubMixed Infer.LubMixedTB.

Theorem C05_mixed_effC : forall H (cas : list (octx * nat)) c a,
  In (c, a) (effC H cas) <->
  In (c, a) cas /\ (if pol H c then a <> Bottom else a <> Top).
Proof. exact effC_stmt. Qed.
Print Assumptions C05_mixed_effC.

Theorem C05_mixed_iff_tb : forall H, wf_hier H ->
  forall (cas : list (octx * nat)) (r : octx) (d fuel : nat),
  wf_octx H r -> octx_depth r + octx_sib r <= d ->
  (forall c a, In (c, a) cas ->
     wf_octx H c /\ octx_depth c + octx_sib c <= d /\
     ((if pol H c then a = Bottom else a = Top) \/
      (variance H a = [] /\ a <> Top /\ a <> Bottom))) ->
  (forall c a c' b, In (c, a) (effC H cas) -> In (c', b) (effC H cas) ->
     Anc H a b \/ Anc H b a) ->
  cas <> [] ->
  d + length cas + 3 <= fuel ->
  ((exists vals s,
      run_cmds H fuel (mixed_prog_p cas r) 0 [] (empty_store []) = (None, vals, s)) <->
   (forall c a c' b, In (c, a) (effC H cas) -> In (c', b) (effC H cas) ->
      pol H c = true -> pol H c' = false -> Anc H a b)).
Proof. exact mixed_iff_tb_stmt. Qed.
Print Assumptions C05_mixed_iff_tb.

Theorem C05_mixed_fail_tb : forall H, wf_hier H ->
  forall (cas : list (octx * nat)) (r : octx) (d fuel : nat),
  wf_octx H r -> octx_depth r + octx_sib r <= d ->
  (forall c a, In (c, a) cas ->
     wf_octx H c /\ octx_depth c + octx_sib c <= d /\
     ((if pol H c then a = Bottom else a = Top) \/
      (variance H a = [] /\ a <> Top /\ a <> Bottom))) ->
  (forall c a c' b, In (c, a) (effC H cas) -> In (c', b) (effC H cas) ->
     Anc H a b \/ Anc H b a) ->
  cas <> [] ->
  d + length cas + 3 <= fuel ->
  ~ (forall c a c' b, In (c, a) (effC H cas) -> In (c', b) (effC H cas) ->
       pol H c = true -> pol H c' = false -> Anc H a b) ->
  exists j vals s,
    run_cmds H fuel (mixed_prog_p cas r) 0 [] (empty_store [])
      = (Some (ESubtypeMismatch, 2 * j + 2), vals, s) /\
    j < length cas /\
    (forall c a c' b, In (c, a) (effC H (firstn j cas)) -> In (c', b) (effC H (firstn j cas)) ->
       pol H c = true -> pol H c' = false -> Anc H a b) /\
    ~ (forall c a c' b, In (c, a) (effC H (firstn (S j) cas)) ->
         In (c', b) (effC H (firstn (S j) cas)) ->
         pol H c = true -> pol H c' = false -> Anc H a b).
Proof. exact mixed_fail_tb_stmt. Qed.
Print Assumptions C05_mixed_fail_tb.

Theorem C05_mixed_success_tb : forall H, wf_hier H ->
  forall (cas : list (octx * nat)) (r : octx) (d fuel : nat) (lo up : option nat),
  wf_octx H r -> octx_depth r + octx_sib r <= d ->
  (forall c a, In (c, a) cas ->
     wf_octx H c /\ octx_depth c + octx_sib c <= d /\
     ((if pol H c then a = Bottom else a = Top) \/
      (variance H a = [] /\ a <> Top /\ a <> Bottom))) ->
  (forall c a c' b, In (c, a) (effC H cas) -> In (c', b) (effC H cas) ->
     Anc H a b \/ Anc H b a) ->
  cas <> [] ->
  match lo with
  | Some L => (exists c, In (c, L) (effC H cas) /\ pol H c = true) /\
              (forall c a, In (c, a) (effC H cas) -> pol H c = true -> Anc H a L)
  | None => forall c a, In (c, a) (effC H cas) -> pol H c = false
  end ->
  match up with
  | Some U => (exists c, In (c, U) (effC H cas) /\ pol H c = false) /\
              (forall c a, In (c, a) (effC H cas) -> pol H c = false -> Anc H U a)
  | None => forall c a, In (c, a) (effC H cas) -> pol H c = true
  end ->
  (forall L U, lo = Some L -> up = Some U -> Anc H L U) ->
  d + length cas + 3 <= fuel ->
  exists vals s,
    run_cmds H fuel (mixed_prog_p cas r) 0 [] (empty_store []) = (None, vals, s) /\
    let fb := if top_fun r
              then match lo, up with
                   | Some l, Some u => if Nat.eqb l u then Some l else None
                   | _, _ => None
                   end
              else if pol H r then lo else up in
    cell_of s 0 = mkCell false (match fb with Some m => Some (O m []) | None => None end) lo up 0 /\
    zonk s (last vals (V 0)) = tplug r (match fb with Some m => O m [] | None => V 0 end).
Proof. exact mixed_success_tb_stmt. Qed.
Print Assumptions C05_mixed_success_tb.

Theorem C05_mixed_perm_tb : forall H, wf_hier H ->
  forall (cas cas' : list (octx * nat)) (r : octx) (d fuel : nat),
  wf_octx H r -> octx_depth r + octx_sib r <= d ->
  (forall c a, In (c, a) cas ->
     wf_octx H c /\ octx_depth c + octx_sib c <= d /\
     ((if pol H c then a = Bottom else a = Top) \/
      (variance H a = [] /\ a <> Top /\ a <> Bottom))) ->
  (forall c a c' b, In (c, a) (effC H cas) -> In (c', b) (effC H cas) ->
     Anc H a b \/ Anc H b a) ->
  cas <> [] ->
  d + length cas + 3 <= fuel ->
  Permutation cas cas' ->
  (exists vals s vals' s',
     run_cmds H fuel (mixed_prog_p cas r) 0 [] (empty_store []) = (None, vals, s) /\
     run_cmds H fuel (mixed_prog_p cas' r) 0 [] (empty_store []) = (None, vals', s') /\
     cell_of s 0 = cell_of s' 0 /\
     zonk s (last vals (V 0)) = zonk s' (last vals' (V 0))) \/
  (exists j j' vals s vals' s',
     run_cmds H fuel (mixed_prog_p cas r) 0 [] (empty_store [])
       = (Some (ESubtypeMismatch, 2 * j + 2), vals, s) /\
     run_cmds H fuel (mixed_prog_p cas' r) 0 [] (empty_store [])
       = (Some (ESubtypeMismatch, 2 * j' + 2), vals', s')).
Proof. exact mixed_perm_tb_stmt. Qed.
Print Assumptions C05_mixed_perm_tb.

(* ---------- non-vacuity and corner cases ---------- *)

(* A(5) > A1(6) > A2(7), R(8), F(9) unary covariant *)
Definition tbH : hier := mk_hier [(6,5); (7,6)] [(9, [true]); (10, [true])].
Definition tbR := TOp 8 [].
Definition cId : octx := Hole.
Definition cArg : octx := Node Function [] Hole [tbR].
Definition cF : octx := Node 9 [] Hole [].

Definition tb_obs (r : option (err * nat) * list tyv * store) :=
  let '(e, vals, s) := r in (e, zonk s (last vals (V 0)), cell_of s 0).
Definition tb_go cs args :=
  tb_obs (run_cmds tbH 9 (mixed_prog cs Hole args) 0 [] (empty_store [])).

Example mxtb_effC :
  effC tbH [(cId, 6); (cArg, 5); (cF, Bottom); (cArg, Top)] = [(cId, 6); (cArg, 5)].
Proof. reflexivity. Qed.

(* ignored arguments: same cell and result as without them, in any order
   (fuel 9 = d + n + 3 with d = 2, n = 4) *)
Example mxtb_ignored :
  tb_go [cId; cArg; cF; cArg] [6; 5; Bottom; Top]
    = (None, O 6 [], mkCell false (Some (O 6 [])) (Some 6) (Some 5) 0) /\
  tb_go [cF; cArg; cId; cArg] [Bottom; Top; 6; 5]
    = (None, O 6 [], mkCell false (Some (O 6 [])) (Some 6) (Some 5) 0) /\
  tb_go [cId; cArg] [6; 5]
    = (None, O 6 [], mkCell false (Some (O 6 [])) (Some 6) (Some 5) 0) /\
  fst (fst (tb_go [cId; cF; cArg; cArg] [5; Bottom; Top; 6])) = Some (ESubtypeMismatch, 8).
Proof. repeat split; vm_compute; reflexivity. Qed.

(* the corners that are NOT covered by the theorems *)
Example mxtb_corner :
  (* A1 then Top, Top then A1 (covariant): x = Top, stale lower bound differs *)
  tb_go [cId; cF] [6; Top] = (None, O Top [], mkCell false (Some (O Top [])) (Some 6) None 0) /\
  tb_go [cF; cId] [Top; 6] = (None, O Top [], mkCell false (Some (O Top [])) None None 0) /\
  (* Top covariant and a contravariant user type: rejected in both orders *)
  fst (fst (tb_go [cId; cArg] [Top; 5])) = Some (ESubtypeMismatch, 4) /\
  fst (fst (tb_go [cArg; cId] [5; Top])) = Some (ESubtypeMismatch, 4) /\
  (* Top covariant, Top contravariant: accepted *)
  tb_go [cId; cArg] [Top; Top] = (None, O Top [], mkCell false (Some (O Top [])) None None 0) /\
  (* Bottom contravariant and a covariant user type: rejected in both orders *)
  fst (fst (tb_go [cArg; cId] [Bottom; 6])) = Some (ESubtypeMismatch, 4) /\
  fst (fst (tb_go [cId; cArg] [6; Bottom])) = Some (ESubtypeMismatch, 4) /\
  (* contravariant A and Bottom: x = Bottom, stale upper bound differs *)
  tb_go [cArg; cArg] [5; Bottom]
    = (None, O Bottom [], mkCell false (Some (O Bottom [])) None (Some 5) 0) /\
  tb_go [cArg; cArg] [Bottom; 5]
    = (None, O Bottom [], mkCell false (Some (O Bottom [])) None None 0) /\
  (* Top covariant with Bottom contravariant: rejected in both orders *)
  fst (fst (tb_go [cId; cArg] [Top; Bottom])) = Some (ESubtypeMismatch, 4) /\
  fst (fst (tb_go [cArg; cId] [Bottom; Top])) = Some (ESubtypeMismatch, 4).
Proof. repeat split; vm_compute; reflexivity. Qed.
