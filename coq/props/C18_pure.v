(* C18, positive half.  "Inference is independent of the order pending
   constraints are re-examined" is refuted in general (props/C18.v: the kind of
   failure, and even the result, can depend on the order when elimination
   constraints interact).  It HOLDS for the class of constraints

        x <= A      x < A        (SCSub (SVar i) (SOp a []) strict, a a base type)

   i.e. subtype constraints of a bare schematic variable against a concrete
   base type.  Re-checking such a constraint (SubtypeConstraint.fulfill:
   unify(ref, target, subtype, skip_basic=True) then match) only READS the
   store: the verdict is a function of the variable cells and of the
   constraint's own ref/target/strictness, and the only write is the
   constraint's own `fulfilled` flag.  Hence re-checks commute.

   Proved here, for every hierarchy, fuel, store / program:
     C18_pure_fulfill_readonly, C18_pure_fulfill_vars   one re-check (item 2)
     C18_pure_check_constraints_perm                    one re-check point, any two
                                                        schedule entries (item 3)
     C18_pure_check_constraints_perm_pure               same, variable possibly bound
                                                        to a compound type meanwhile
     C18_pure_check_constraints_perm_kind               same kind (up to fuel) when all
                                                        pending constraints resolve alike
     C18_pure_checks_partial                            whole programs (item 4)

   Full statement aimed at (program level):
       forall H fuel prog sc1 sc2, pure_prog H prog ->
         the two runs agree on None / Some (error kind, command index), and on
         success on vals and on vars/csets/constrs of the final store.
   What is proved (C18_pure_checks_partial): all of that, EXCEPT that when both
   runs fail (always at the same command) the two error kinds are only shown
   to be equal OR both in {TypeMismatch, ConstraintViolation, fuel exhaustion}
   - the errors a violated pure constraint is reported with.  A re-check round
   stops at the first violated constraint it meets; if one pending constraint's
   variable is bound to a compound type (reported as TypeMismatch by the
   skip_basic unification) and another one's bounds contradict its target
   (reported as ConstraintViolation), the kind depends on the order.
   For the fuelled model this really happens with fuel exhaustion as one of
   the kinds: C18_pure_kind_low_fuel.  For sufficient fuel I believe the two
   kinds always coincide on reachable stores (every constraint is re-checked
   as soon as its variable changes, so at most the constraints of ONE variable
   are violated at a re-check point), but that needs a global invariant
   "no constraint is violated outside the window between a cell update and its
   check_constraints" threaded through bind/above/below together with the
   acyclicity invariant of Infer/Inv.v; it is not proved.  At a single re-check
   point the kinds do coincide when every pending constraint's variable is
   unbound or bound to a base type: C18_pure_check_constraints_perm. *)
From Coq Require Import List Arith Bool Lia Permutation.
Import ListNotations.
From TF Require Import Base.Hier Base.Ty Infer.Store Infer.Engine Infer.Run Infer.Sched Infer.SchedIndep.

(* ---- item 2: re-checking a readonly constraint ---- *)
(* readonly_constr H s c (item 1): k_elim = false, the single target is a base
   operation O a [] of arity 0, k_ref follows to a variable or a base operation *)
Theorem C18_pure_fulfill_readonly : forall H n c s, readonly_constr H s c ->
  match fulfill H n c s with
  | MOk b s' => (b = k_done (constr_of s c) /\ s' = s) \/ (b = true /\ s' = markd c s)
  | MEr e s' => s' = s /\ (e = EConstraintViolation \/ e = EFuel) /\
                (4 <= n -> e = EConstraintViolation)
  end.
Proof. exact fulfill_readonly. Qed.
Print Assumptions C18_pure_fulfill_readonly.

(* markd c s differs from s at most in k_done of c *)
Theorem C18_pure_markd : forall c s,
  vars (markd c s) = vars s /\ csets (markd c s) = csets s /\ sched (markd c s) = sched s /\
  forall c', constr_of (markd c s) c' = constr_of s c' \/
             (c' = c /\ constr_of (markd c s) c' =
                        mkConstr false (k_ref (constr_of s c)) (k_alts (constr_of s c))
                                 (k_strict (constr_of s c)) true).
Proof. exact markd_spec. Qed.
Print Assumptions C18_pure_markd.

(* whether (and how) it errs depends only on the variable cells and on the
   constraint's own ref/target/strictness - not on any k_done flag, constraint
   set or schedule *)
Theorem C18_pure_fulfill_vars : forall H n c s s2, pureK H (constr_of s c) ->
  vars s2 = vars s ->
  k_elim (constr_of s2 c) = false ->
  k_ref (constr_of s2 c) = k_ref (constr_of s c) ->
  k_alts (constr_of s2 c) = k_alts (constr_of s c) ->
  k_strict (constr_of s2 c) = k_strict (constr_of s c) ->
  forall e, (exists s', fulfill H n c s = MEr e s') <-> (exists s', fulfill H n c s2 = MEr e s').
Proof. exact fulfill_readonly_vars. Qed.
Print Assumptions C18_pure_fulfill_vars.

(* ---- item 3: one re-check point, any two schedule entries ---- *)
Theorem C18_pure_check_constraints_perm : forall H f v s r1 r2 rest,
  (forall c, In c (cset_of s (c_cs (cell_of s v))) -> readonly_constr H s c) ->
  match check_constraints H (S f) v (with_sched s (r1 :: rest)),
        check_constraints H (S f) v (with_sched s (r2 :: rest)) with
  | MOk _ s1, MOk _ s2 =>
      (vars s1 = vars s2 /\ csets s1 = csets s2 /\ constrs s1 = constrs s2) /\ vars s1 = vars s
  | MEr e1 _, MEr e2 _ =>
      (e1 = EConstraintViolation \/ e1 = EFuel) /\ (e2 = EConstraintViolation \/ e2 = EFuel) /\
      (4 <= f -> e1 = EConstraintViolation /\ e2 = EConstraintViolation)
  | _, _ => False
  end.
Proof. exact check_constraints_perm. Qed.
Print Assumptions C18_pure_check_constraints_perm.

Theorem C18_pure_check_constraints_perm_pure : forall H f v s r1 r2 rest,
  (forall c, In c (cset_of s (c_cs (cell_of s v))) -> pureK H (constr_of s c)) ->
  match check_constraints H (S f) v (with_sched s (r1 :: rest)),
        check_constraints H (S f) v (with_sched s (r2 :: rest)) with
  | MOk _ s1, MOk _ s2 =>
      (vars s1 = vars s2 /\ csets s1 = csets s2 /\ constrs s1 = constrs s2) /\ vars s1 = vars s
  | MEr e1 _, MEr e2 _ =>
      (e1 = ETypeMismatch \/ e1 = EConstraintViolation \/ e1 = EFuel \/ e1 = ECrash site_arity) /\
      (e2 = ETypeMismatch \/ e2 = EConstraintViolation \/ e2 = EFuel \/ e2 = ECrash site_arity)
  | _, _ => False
  end.
Proof. exact check_constraints_perm_pure. Qed.
Print Assumptions C18_pure_check_constraints_perm_pure.

(* at one re-check point the kinds differ only if the pending constraints'
   variables are resolved to different things *)
Theorem C18_pure_check_constraints_perm_kind : forall H f v s r1 r2 rest,
  (forall c, In c (cset_of s (c_cs (cell_of s v))) ->
     k_elim (constr_of s c) = false /\
     exists a, k_alts (constr_of s c) = [O a []] /\ basic H a = true) ->
  (forall c c', In c (cset_of s (c_cs (cell_of s v))) -> In c' (cset_of s (c_cs (cell_of s v))) ->
     follow s (k_ref (constr_of s c)) = follow s (k_ref (constr_of s c'))) ->
  match check_constraints H (S f) v (with_sched s (r1 :: rest)),
        check_constraints H (S f) v (with_sched s (r2 :: rest)) with
  | MOk _ s1, MOk _ s2 => vars s1 = vars s2 /\ csets s1 = csets s2 /\ constrs s1 = constrs s2
  | MEr e1 _, MEr e2 _ => e1 = e2 \/ e1 = EFuel \/ e2 = EFuel
  | _, _ => False
  end.
Proof. exact check_constraints_perm_kind. Qed.
Print Assumptions C18_pure_check_constraints_perm_kind.

(* ---- item 4: whole programs ---- *)
(* pure_prog H prog: every CInst schema has only constraints
   SCSub (SVar i) (SOp a []) strict with variance H a = []; CApply, CUnify and
   CFix are unrestricted *)
Theorem C18_pure_checks_partial : forall H fuel prog sc1 sc2, pure_prog H prog ->
  let r1 := run_cmds H fuel prog 0 [] (empty_store sc1) in
  let r2 := run_cmds H fuel prog 0 [] (empty_store sc2) in
  match fst (fst r1), fst (fst r2) with
  | None, None =>
      snd (fst r1) = snd (fst r2) /\
      vars (snd r1) = vars (snd r2) /\ csets (snd r1) = csets (snd r2) /\
      constrs (snd r1) = constrs (snd r2)
  | Some (e1, i1), Some (e2, i2) =>
      i1 = i2 /\
      (e1 = e2 \/
       ((e1 = ETypeMismatch \/ e1 = EConstraintViolation \/ e1 = EFuel) /\
        (e2 = ETypeMismatch \/ e2 = EConstraintViolation \/ e2 = EFuel)))
  | _, _ => False
  end.
Proof. exact run_cmds_pure. Qed.
Print Assumptions C18_pure_checks_partial.

(* consequently the whole dump of a successful run is schedule-independent *)
Theorem C18_pure_dump : forall H fuel prog sc1 sc2, pure_prog H prog ->
  fst (fst (run_cmds H fuel prog 0 [] (empty_store sc1))) = None ->
  run_dump H fuel sc1 prog = run_dump H fuel sc2 prog.
Proof. exact run_dump_pure. Qed.
Print Assumptions C18_pure_dump.

(* ---- item 5 and satisfiability of the hypotheses ---- *)
(* A=5, B=6 < A, C=7 < B.   f : x -> x [x <= A, x <= B, x < Top]  applied to C.
   Two re-check points with three pending constraints each (x bounded below
   by C; then x fixed to C): 6 x 6 schedules. *)
Definition pH := mk_hier [(6,5);(7,6)] [(8,[true]);(10,[true])].
Definition psig := mkSchema 1 (SOp Function [SVar 0; SVar 0])
  [SCSub (SVar 0) (SOp 5 []) false; SCSub (SVar 0) (SOp 6 []) false; SCSub (SVar 0) (SOp 0 []) true].
Definition pprog := [CInst psig; CInst (mkSchema 0 (SOp 7 []) []); CApply 0 1 true].

Example C18_pure_prog_ok : pure_prog pH pprog.
Proof. repeat constructor. Qed.

(* all 6 entries at the first choice point (and all 6 at the second) give the
   same dump; the run succeeds with result C and all three constraints done *)
Example C18_pure_six_orders :
  forallb (fun r => forallb (fun r' =>
     if list_eq_dec (list_eq_dec Nat.eq_dec) (run_dump pH 60 [r; r'] pprog) (run_dump pH 60 [] pprog)
     then true else false) (seq 0 6)) (seq 0 6) = true /\
  hd [] (run_dump pH 60 [] pprog) = [0] /\
  last (snd (fst (run_cmds pH 60 pprog 0 [] (empty_store [])))) (V 0) = O 7 [] /\
  map k_done (constrs (snd (run_cmds pH 60 pprog 0 [] (empty_store [])))) = [true; true; true].
Proof. vm_compute. repeat split; reflexivity. Qed.

(* both entries of a schedule are really consumed: two choice points *)
Example C18_pure_two_choice_points :
  map (fun r => sched (snd (run_cmds pH 60 pprog 0 [] (empty_store [r; 77; 88])))) (seq 0 6)
  = repeat [88] 6.
Proof. vm_compute. reflexivity. Qed.

(* a violated instance: applied to A, x <= B fails in every order with the same kind *)
Definition pprog_bad := [CInst psig; CInst (mkSchema 0 (SOp 5 []) []); CApply 0 1 true].
Example C18_pure_six_orders_fail :
  map (fun r => fst (fst (run_cmds pH 60 pprog_bad 0 [] (empty_store [r])))) (seq 0 6)
  = repeat (Some (EConstraintViolation, 2)) 6.
Proof. vm_compute. reflexivity. Qed.

(* the hypothesis of C18_pure_check_constraints_perm holds at that re-check
   point: after the two instantiations variable 0 has the three constraints
   pending and each is readonly *)
Definition pstore := snd (run_cmds pH 60 [CInst psig; CInst (mkSchema 0 (SOp 7 []) [])] 0 [] (empty_store [])).
Example C18_pure_readonly_ok :
  cset_of pstore (c_cs (cell_of pstore 0)) = [0; 1; 2] /\
  forall c, In c (cset_of pstore (c_cs (cell_of pstore 0))) -> readonly_constr pH pstore c.
Proof.
  split; [vm_compute; reflexivity|].
  intros c Hc. vm_compute in Hc.
  destruct Hc as [<-|[<-|[<-|[]]]]; (split; [reflexivity|split; [eexists; split; reflexivity|exact I]]).
Qed.

(* the weakening of the error kind is necessary for the fuelled model:
   (G(y) -> K(K(x))) -> R [x <= A, y <= B]  applied to  w -> K(K(w)):
   x is bound to G(y); with 8 units of fuel re-checking x <= A first reports
   TypeMismatch, re-checking y <= B first runs out of fuel *)
Definition ksig := mkSchema 2
  (SOp Function [SOp Function [SOp 8 [SVar 1]; SOp 10 [SOp 10 [SVar 0]]]; SOp 9 []])
  [SCSub (SVar 0) (SOp 5 []) false; SCSub (SVar 1) (SOp 6 []) false].
Definition kprog :=
  [CInst ksig; CInst (mkSchema 1 (SOp Function [SVar 0; SOp 10 [SOp 10 [SVar 0]]]) []); CApply 0 1 true].

Theorem C18_pure_kind_low_fuel : exists H fuel prog sc1 sc2, pure_prog H prog /\
  fst (fst (run_cmds H fuel prog 0 [] (empty_store sc1))) = Some (ETypeMismatch, 2) /\
  fst (fst (run_cmds H fuel prog 0 [] (empty_store sc2))) = Some (EFuel, 2).
Proof.
  exists pH, 8, kprog, [0], [1]. split; [repeat constructor|]. vm_compute. split; reflexivity.
Qed.
Print Assumptions C18_pure_kind_low_fuel.

(* with enough fuel both orders report the same kind here *)
Example C18_pure_kind_enough_fuel :
  map (fun fuel => (fst (fst (run_cmds pH fuel kprog 0 [] (empty_store [0]))),
                    fst (fst (run_cmds pH fuel kprog 0 [] (empty_store [1]))))) [10; 20; 40]
  = repeat (Some (ETypeMismatch, 2), Some (ETypeMismatch, 2)) 3.
Proof. vm_compute. reflexivity. Qed.
