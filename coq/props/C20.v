(* C20  Type unions and bags reduce without changing meaning, in any insertion
   order.  Property theorems only; each is closed by [exact] of a library
   lemma.  [ty_bag_add] is Bag.add as repaired by proposed_fixes/C20.diff;
   the [_pinned] statements are about the code of the pinned tree. *)
From Coq Require Import List Arith Bool Permutation.
Import ListNotations.
From TF Require Import Base.Hier Base.Ty Sub.Match Sub.SubSpec Sub.SubProofs.
From TF Require Import Bag.Union Bag.Bag Bag.BagTy.

(* A union holds exactly the minimal (specific=True) / maximal (specific=False)
   elements of what was inserted, for every insertion sequence ... *)
Theorem C20_union_min : forall H, wf_hier H -> forall specific h, Forall (wf_ty H) h ->
  forall x, In x (ty_union_of H specific h) <->
    (In x h /\ forall y, In y h -> (if specific then Sub H y x else Sub H x y) -> y = x).
Proof. exact ty_union_min. Qed.
Print Assumptions C20_union_min.

(* ... without duplicates (it models a Python set) ... *)
Theorem C20_union_nodup : forall H, wf_hier H -> forall specific h, Forall (wf_ty H) h ->
  NoDup (ty_union_of H specific h).
Proof. exact ty_union_nodup. Qed.
Print Assumptions C20_union_nodup.

(* ... whatever the insertion order. *)
Theorem C20_union_perm : forall H, wf_hier H -> forall specific h h', Forall (wf_ty H) h ->
  Permutation h h' ->
  forall x, In x (ty_union_of H specific h) <-> In x (ty_union_of H specific h').
Proof. exact ty_union_perm. Qed.
Print Assumptions C20_union_perm.

(* For every insertion history and every set P of present types closed under
   supertypes: the reduced bag is satisfied by P exactly when every inserted
   requirement is (an insertion without types is no requirement). *)
Theorem C20_bag_sem : forall H, wf_hier H -> forall h (P : ty -> Prop),
  Forall (Forall (wf_ty H)) h ->
  (forall a b, wf_ty H a -> wf_ty H b -> P a -> Sub H a b -> P b) ->
  (Forall (fun c => Exists P c) (ty_bag_of H h) <->
   Forall (fun news => news <> [] -> Exists P news) h).
Proof. exact ty_bag_sem. Qed.
Print Assumptions C20_bag_sem.

Theorem C20_bag_perm : forall H, wf_hier H -> forall h h' (P : ty -> Prop),
  Forall (Forall (wf_ty H)) h ->
  (forall a b, wf_ty H a -> wf_ty H b -> P a -> Sub H a b -> P b) ->
  Permutation h h' ->
  (Forall (fun c => Exists P c) (ty_bag_of H h) <->
   Forall (fun c => Exists P c) (ty_bag_of H h')).
Proof. exact ty_bag_perm. Qed.
Print Assumptions C20_bag_perm.

(* clauses of a reduced bag are non-empty, duplicate-free *)
Theorem C20_bag_clauses : forall H, wf_hier H -> forall h, Forall (Forall (wf_ty H)) h ->
  Forall (fun c => c <> [] /\ NoDup c /\ Forall (wf_ty H) c) (ty_bag_of H h).
Proof. exact ty_bag_ok. Qed.
Print Assumptions C20_bag_clauses.

(* The `containsType` clauses generated from the bag (query.py:262-271), read
   as SPARQL, pass a workflow with present types p iff every inserted
   requirement is satisfied: the reduction never changes the pre-filter. *)
Theorem C20_prefilter : forall H, wf_hier H -> forall h (p : ty -> bool),
  Forall (Forall (wf_ty H)) h ->
  (forall a b, wf_ty H a -> wf_ty H b -> p a = true -> Sub H a b -> p b = true) ->
  (eval_lines ty p (emit ty (ty_bag_of H h)) true None = Some true <->
   Forall (fun news => news <> [] -> Exists (fun t => p t = true) news) h).
Proof. exact ty_prefilter_sem. Qed.
Print Assumptions C20_prefilter.

(* the sets the harness enumerates (supertypes of up to three present types)
   are instances of P *)
Theorem C20_upsets_closed : forall H, wf_hier H -> forall present, Forall (wf_ty H) present ->
  forall a b, wf_ty H a -> wf_ty H b -> up_of H present a = true -> Sub H a b ->
  up_of H present b = true.
Proof. exact up_of_closed. Qed.
Print Assumptions C20_upsets_closed.

(* The code of the pinned tree (bag.py:76-87) violates the property, in two
   independent ways; the witnesses are replayed on the implementation by the
   harness.  add(B); add(A, D) with B < A, present {B}: *)
Theorem C20_bag_pinned_refuted_covered :
  exists H h present,
    wf_hier H /\ Forall (Forall (wf_ty H)) h /\ Forall (wf_ty H) present /\
    let p := up_of H present in
    forallb (fun c => is_nil c || existsb p c) h = true /\
    satb ty p (ty_bag_of_pinned H h) = false.
Proof. exact pinned_refuted_covered. Qed.
Print Assumptions C20_bag_pinned_refuted_covered.

(* add(A, B) with B < A, present {A}: *)
Theorem C20_bag_pinned_refuted_specific :
  exists H h present,
    wf_hier H /\ Forall (Forall (wf_ty H)) h /\ Forall (wf_ty H) present /\
    let p := up_of H present in
    forallb (fun c => is_nil c || existsb p c) h = true /\
    satb ty p (ty_bag_of_pinned H h) = false.
Proof. exact pinned_refuted_specific. Qed.
Print Assumptions C20_bag_pinned_refuted_specific.

(* Non-vacuity.  A(5) > B(6) > C(7), unrelated D(8), F(9) covariant unary. *)
Definition c20H : hier := mk_hier [(6,5); (7,6)] [(9, [true])].
Example c20H_wf : wf_hier c20H.
Proof.
  split.
  - intros o p. cbn. repeat (destruct o as [|o]; try discriminate; cbn); intros [= <-]; auto with arith.
  - intros o p. cbn. repeat (destruct o as [|o]; try discriminate; cbn); intros [= <-]; cbn; repeat split; discriminate.
  - split; reflexivity.
  - split; reflexivity.
  - reflexivity.
Qed.
Definition cA := TOp 5 []. Definition cB := TOp 6 []. Definition cC := TOp 7 [].
Definition cD := TOp 8 []. Definition cF (t : ty) := TOp 9 [t].

(* a union that really reduces, differently in the two modes *)
Example c20_union :
  ty_union_of c20H true [cF cA; cB; cD; cF cC; cA; cF cB; cC] = [cD; cF cC; cC] /\
  ty_union_of c20H false [cF cC; cB; cD; cF cA; cC; cF cB; cA] = [cD; cF cA; cA].
Proof. split; vm_compute; reflexivity. Qed.

(* a history that exercises every branch of Bag.add: an implied clause is
   skipped, an obsoleted clause is removed, a clause is generalised, an empty
   insertion is ignored; its hypotheses hold *)
Definition c20_hist := [[cA]; [cF cB; cF cA; cD]; []; [cB]; [cA; cF cC]; [cC]].
Example c20_hist_wf : Forall (Forall (wf_ty c20H)) c20_hist.
Proof. repeat constructor. Qed.
Example c20_bag :
  ty_bag_of c20H c20_hist = [[cF cA; cD]; [cC]] /\
  ty_bag_of_pinned c20H c20_hist = [[cF cB; cD]; [cF cC]; [cC]].
Proof. split; vm_compute; reflexivity. Qed.
(* present = {C, F(A)}: every requirement is met; the repaired bag passes and
   the pinned one does not.  present = {F(A)}: requirement [C] is not met and
   the bag fails. *)
Example c20_sat :
  satb ty (up_of c20H [cC; cF cA]) (ty_bag_of c20H c20_hist) = true /\
  satb ty (up_of c20H [cC; cF cA]) (ty_bag_of_pinned c20H c20_hist) = false /\
  satb ty (up_of c20H [cF cA]) (ty_bag_of c20H c20_hist) = false /\
  eval_lines ty (up_of c20H [cC; cF cA]) (emit ty (ty_bag_of c20H c20_hist)) true None = Some true.
Proof. repeat split; vm_compute; reflexivity. Qed.
