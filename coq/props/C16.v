(* C16  Using an operator or type never changes what it means later.

   On the engine model (Infer/Engine.v, command programs of Infer/Run.v): the
   result of running a program does not depend on what the store already
   contains from earlier, unrelated use.

   Proof: Infer/Frame.v.  [glue s0 s] is s0 extended by the image of s under the
   index shift (variables by |vars s0|, constraint sets by |csets s0|,
   constraint ids by |constrs s0|); [Ext s0 s1 s2] says s1 = glue s0 s2.  Every
   engine operation commutes with [glue s0] (simulation logic [sim] = the
   program logic [ok] of Infer/Inv.v + the commutation equation), by one
   induction on fuel over the conjunction of the simulation statements for
   unify / bind / above / below / check_constraints / fulfill / minimize /
   fix_ty (C16_sim_ops), then instance, apply, run_cmd, run_cmds.

   s0 is ANY store - no invariant on it is used, so it covers in particular
   every store left by an earlier history, including one that ended in an
   error (a failed command keeps its partial mutations: MEr keeps the store).
   The program itself must be well-scoped (prog_wf: value indices and schematic
   variables in range), because the small run has to satisfy the invariant
   [inv] of Infer/Inv.v: [follow] uses a fuel that depends on the size of the
   store, and an out-of-range index reads a default cell whose c_cs does not
   shift.  Same fuel, same schedule in both runs. *)
From Coq Require Import List Arith Bool.
Import ListNotations.
From TF Require Import Base.Hier Base.Ty Infer.Store Infer.Engine Infer.Run Infer.Inv Infer.Frame.

(* ---- the main theorem: same success / same error kind and command index,
   same values up to the index shift, and the final store is the old store s0
   extended by the shifted image of the store of the run from empty ---- *)
Theorem C16_history : forall H fuel s0 sc prog r vals s2, prog_wf 0 prog ->
  run_cmds H fuel prog 0 [] (empty_store sc) = (r, vals, s2) ->
  exists s1,
    run_cmds H fuel prog 0 [] (mkStore (vars s0) (csets s0) (constrs s0) sc)
      = (r, map (shift_tyv (length (vars s0))) vals, s1) /\
    Ext s0 s1 s2.
Proof. exact history. Qed.
Print Assumptions C16_history.

(* [Ext s0 s1 s2] unfolded: the old cells, constraint sets and constraints of
   s0 are literally unchanged in s1, everything new sits behind them ... *)
Theorem C16_Ext_frame : forall s0 s1 s2, Ext s0 s1 s2 ->
  (forall v, v < length (vars s0) -> cell_of s1 v = cell_of s0 v) /\
  (forall i, i < length (csets s0) -> cset_of s1 i = cset_of s0 i) /\
  (forall c, c < length (constrs s0) -> constr_of s1 c = constr_of s0 c) /\
  length (vars s1) = length (vars s0) + length (vars s2) /\
  length (csets s1) = length (csets s0) + length (csets s2) /\
  length (constrs s1) = length (constrs s0) + length (constrs s2).
Proof. exact Ext_frame. Qed.
Print Assumptions C16_Ext_frame.

(* ... and the new part is the shifted image of s2 *)
Theorem C16_Ext_new : forall s0 s1 s2, Ext s0 s1 s2 ->
  (forall v, v < length (vars s2) ->
     cell_of s1 (length (vars s0) + v) = shift_cell (length (vars s0)) (length (csets s0)) (cell_of s2 v)) /\
  (forall i, cset_of s1 (length (csets s0) + i) = map (Nat.add (length (constrs s0))) (cset_of s2 i)) /\
  (forall c, c < length (constrs s2) ->
     constr_of s1 (length (constrs s0) + c) = shift_constr (length (vars s0)) (constr_of s2 c)).
Proof. exact Ext_new. Qed.
Print Assumptions C16_Ext_new.

(* ---- the frame property, stated on the run itself: running a well-scoped
   program in a store that already contains s0 leaves every cell, constraint
   set and constraint of s0 untouched ---- *)
Theorem C16_frame : forall H fuel s0 sc prog r vals s2, prog_wf 0 prog ->
  run_cmds H fuel prog 0 [] (empty_store sc) = (r, vals, s2) ->
  forall r1 vals1 s1,
  run_cmds H fuel prog 0 [] (mkStore (vars s0) (csets s0) (constrs s0) sc) = (r1, vals1, s1) ->
  (forall v, v < length (vars s0) -> cell_of s1 v = cell_of s0 v) /\
  (forall i, i < length (csets s0) -> cset_of s1 i = cset_of s0 i) /\
  (forall c, c < length (constrs s0) -> constr_of s1 c = constr_of s0 c).
Proof. exact frame. Qed.
Print Assumptions C16_frame.

(* ---- freshness (from Infer/Inv.v): instance and apply only allocate at the
   end of the store and never overwrite an existing binding, on success and
   on failure alike ---- *)
Theorem C16_fresh : forall H fuel s, core s ->
  (forall sc, let s' := mstore (instance H fuel sc s) in
     length (vars s) <= length (vars s') /\ length (csets s) <= length (csets s') /\
     length (constrs s) <= length (constrs s') /\
     forall v t, c_bound (cell_of s v) = Some t -> c_bound (cell_of s' v) = Some t) /\
  (forall f x fixb, let s' := mstore (apply H fuel f x fixb s) in
     length (vars s) <= length (vars s') /\ length (csets s) <= length (csets s') /\
     length (constrs s) <= length (constrs s') /\
     forall v t, c_bound (cell_of s v) = Some t -> c_bound (cell_of s' v) = Some t).
Proof. exact fresh_alloc. Qed.
Print Assumptions C16_fresh.

(* ---- the property on the model: a history h was run from the empty store
   (with any fuel and schedule, successfully or ending in an error rh) and left
   s0; the probe p run in s0 behaves exactly as p run alone in an empty store
   with the schedule that is left: same error or success, values equal up to
   the shift by |vars s0|, and s0 is framed.  (inv s0 is a consequence, not a
   hypothesis.) ---- *)
Theorem C16_probe_after_history : forall H fuelh fuel sch h p rh vh s0 r vals s2,
  prog_wf 0 h -> prog_wf 0 p ->
  run_cmds H fuelh h 0 [] (empty_store sch) = (rh, vh, s0) ->
  run_cmds H fuel p 0 [] (empty_store (sched s0)) = (r, vals, s2) ->
  exists s1,
    run_cmds H fuel p 0 [] s0 = (r, map (shift_tyv (length (vars s0))) vals, s1) /\
    Ext s0 s1 s2 /\ inv s0.
Proof. exact probe_after_history. Qed.
Print Assumptions C16_probe_after_history.

(* the same inside ONE program: a successful history h followed by the probe
   p, whose value indices are moved past the values of h ([shift_cmd]) *)
Theorem C16_probe_in_program : forall H fuel sch h p vh s0 r vals s2,
  prog_wf 0 h -> prog_wf 0 p ->
  run_cmds H fuel h 0 [] (empty_store sch) = (None, vh, s0) ->
  run_cmds H fuel p 0 [] (empty_store (sched s0)) = (r, vals, s2) ->
  exists s1,
    run_cmds H fuel (h ++ map (shift_cmd (length vh)) p) 0 [] (empty_store sch)
      = (option_map (fun e : err * nat => (fst e, length h + snd e)) r,
         vh ++ map (shift_tyv (length (vars s0))) vals, s1) /\
    Ext s0 s1 s2.
Proof. exact probe_in_program. Qed.
Print Assumptions C16_probe_in_program.

(* ---- the general simulation for command programs: from any small store s
   satisfying the invariant, with values in scope, and with any values [pre]
   already on the big side ---- *)
Theorem C16_run_cmds_sim : forall s0 H pre fuel cs i vals s, inv s ->
  Forall (sct true s) vals -> prog_wf (length vals) cs ->
  run_cmds H fuel (map (shift_cmd (length pre)) cs) i
           (pre ++ map (shift_tyv (length (vars s0))) vals) (glue s0 s)
  = (let '(e, vals', s') := run_cmds H fuel cs i vals s in
     (e, pre ++ map (shift_tyv (length (vars s0))) vals', glue s0 s')).
Proof. exact run_cmds_sim. Qed.
Print Assumptions C16_run_cmds_sim.

(* ---- the simulation statements of the mutually recursive core.
   [sim s0 f sb m m' Q s] unfolds to
     match m s with
     | MOk a s' => inv s' /\ ext sb s' /\ Q a s' /\ m' (glue s0 s) = MOk (f a) (glue s0 s')
     | MEr e s' => inv s' /\ ext sb s' /\ m' (glue s0 s) = MEr e (glue s0 s')
     end ---- *)
Theorem C16_sim_ops : forall s0 H fuel, sspecs s0 H fuel.
Proof. exact sspecs_all. Qed.
Print Assumptions C16_sim_ops.

Theorem C16_sim_unify : forall s0 H fuel sub skb skw a b s, inv s -> sct true s a -> sct true s b ->
  sim s0 (fun x => x) s (unify H fuel sub skb skw a b)
      (unify H fuel sub skb skw (shift_tyv (length (vars s0)) a) (shift_tyv (length (vars s0)) b))
      (fun _ _ => True) s.
Proof. exact unify_sim. Qed.

Theorem C16_sim_instance : forall s0 H fuel sc s, inv s -> schema_wf sc ->
  sim s0 (shift_tyv (length (vars s0))) s (instance H fuel sc) (instance H fuel sc)
      (fun r s1 => sct true s1 r) s.
Proof. exact instance_sim. Qed.

Theorem C16_sim_apply : forall s0 H fuel f x fixb s, inv s -> sct true s f -> sct true s x ->
  sim s0 (shift_tyv (length (vars s0))) s (apply H fuel f x fixb)
      (apply H fuel (shift_tyv (length (vars s0)) f) (shift_tyv (length (vars s0)) x) fixb)
      (fun r s1 => sct true s1 r) s.
Proof. exact apply_sim. Qed.
Print Assumptions C16_sim_apply.

(* the pure readers give shift-related results *)
Theorem C16_readers : forall s0 H s, inv s ->
  (forall t, follow (glue s0 s) (shift_tyv (length (vars s0)) t) = shift_tyv (length (vars s0)) (follow s t)) /\
  (forall fuel sub aw a b,
     match_f H fuel (glue s0 s) sub aw (shift_tyv (length (vars s0)) a) (shift_tyv (length (vars s0)) b)
     = match_f H fuel s sub aw a b) /\
  (forall fuel a b,
     occurs_f H fuel (glue s0 s) (shift_tyv (length (vars s0)) a) (shift_tyv (length (vars s0)) b)
     = occurs_f H fuel s a b) /\
  (forall fuel t acc,
     vars_f fuel (glue s0 s) (shift_tyv (length (vars s0)) t) (map (Nat.add (length (vars s0))) acc)
     = rmap (map (Nat.add (length (vars s0)))) (vars_f fuel s t acc)) /\
  (forall fuel todo seen, Forall (tsc (length (vars s))) todo ->
     closure_f fuel (glue s0 s) (map (shift_tyv (length (vars s0))) todo) (map (Nat.add (length (vars s0))) seen)
     = rmap (map (Nat.add (length (vars s0)))) (closure_f fuel s todo seen)).
Proof. exact readers_G. Qed.
Print Assumptions C16_readers.

(* ---- non-vacuity ---- *)
(* Qlt=5, C=6 unary covariant *)
Definition qH := mk_hier [] [(6,[true])].
(* the tutorial operator  a ** a [a << {Qlt, C(Qlt)}]  applied to Qlt, then a
   failing unification of Qlt with the operator's type: a history that
   allocates a variable, a constraint and a binding and ENDS IN AN ERROR *)
Definition hist : list cmd :=
  [CInst (mkSchema 1 (SOp Function [SVar 0; SVar 0])
            [SCElim (SVar 0) [SOp 5 []; SOp 6 [SOp 5 []]]]);
   CInst (mkSchema 0 (SOp 5 []) []); CApply 0 1 true; CUnify 1 0 false].
(* a probe with two schematic variables, a subtype constraint, an elimination
   constraint with a wildcard, and an application *)
Definition probe : list cmd :=
  [CInst (mkSchema 2 (SOp Function [SVar 0; SOp Function [SVar 1; SOp 6 [SVar 0]]])
            [SCSub (SVar 0) (SOp 5 []) false; SCElim (SVar 1) [SOp 5 []; SOp 6 [SWild]]]);
   CInst (mkSchema 0 (SOp 5 []) []); CApply 0 1 false].
Example C16_hist_wf : prog_wf 0 hist.
Proof. repeat (constructor; try (cbn; auto)). Qed.
Example C16_probe_wf : prog_wf 0 probe.
Proof. repeat (constructor; try (cbn; auto)). Qed.

(* the history fails at its last command and leaves a non-empty store; the
   probe alone succeeds with values that mention variables 0 and 1 and leaves
   three cells and two live constraints *)
Example C16_hist_runs :
  let '(rh, vh, s0) := run_cmds qH 400 hist 0 [] (empty_store []) in
  (rh, length (vars s0), length (csets s0), length (constrs s0)) = (Some (ETypeMismatch, 3), 1, 1, 1).
Proof. vm_compute. reflexivity. Qed.
Example C16_probe_runs :
  let '(r, vals, s2) := run_cmds qH 400 probe 0 [] (empty_store []) in
  (r, vals, length (vars s2), csets s2) =
  (None, [O 3 [V 0; O 3 [V 1; O 6 [V 0]]]; O 5 []; O 3 [V 1; O 6 [V 0]]], 3, [[0]; [1]; [1]]).
Proof. vm_compute. reflexivity. Qed.
(* the conclusion of C16_probe_after_history computed on this instance: after
   the failed history every variable of the probe's values is shifted by one,
   and the store is the glued one *)
Example C16_probe_after_failed_history :
  let '(rh, vh, s0) := run_cmds qH 400 hist 0 [] (empty_store []) in
  let '(r, vals, s2) := run_cmds qH 400 probe 0 [] (empty_store (sched s0)) in
  run_cmds qH 400 probe 0 [] s0 =
    (None, [O 3 [V 1; O 3 [V 2; O 6 [V 1]]]; O 5 []; O 3 [V 2; O 6 [V 1]]], glue s0 s2) /\
  map (shift_tyv (length (vars s0))) vals = [O 3 [V 1; O 3 [V 2; O 6 [V 1]]]; O 5 []; O 3 [V 2; O 6 [V 1]]].
Proof. vm_compute. split; reflexivity. Qed.
(* an error in the probe is reproduced after a history too (same kind, same index) *)
Example C16_probe_error_after_history :
  let '(rh, vh, s0) := run_cmds qH 400 hist 0 [] (empty_store []) in
  (fst (fst (run_cmds qH 400 [CInst (mkSchema 0 (SOp 5 []) []); CInst (mkSchema 1 (SOp 6 [SVar 0]) []);
                              CUnify 0 1 false] 0 [] (empty_store []))),
   fst (fst (run_cmds qH 400 [CInst (mkSchema 0 (SOp 5 []) []); CInst (mkSchema 1 (SOp 6 [SVar 0]) []);
                              CUnify 0 1 false] 0 [] s0)))
  = (Some (ETypeMismatch, 2), Some (ETypeMismatch, 2)).
Proof. vm_compute. reflexivity. Qed.
