(* C18 for the class progE: THE WHOLE-PROGRAM THEOREM (Infer/SchedIndepElimR2.v).

   C18_elim_final: for every well-formed hierarchy, every program of the class progE
   (pure subtype constraints  x <= A / x < A  and elimination constraints over base
   alternatives on schematic variables), every fuel >= prog_fuelE prog and ANY two
   schedules: both runs fail at the same command (neither by fuel) or both succeed
   with the same values and stores that agree on all cells, all constraint sets and
   all constraint records except for the raw reference of fulfilled elimination
   constraints ([eqr], C18_elim_whole_eqr_unfold).  The error KIND and the raw
   reference of a fulfilled elimination constraint do depend on the order
   (C18_elim_kind_refuted, C18_elim_ref_refuted), so this is the strongest statement
   of the property for this class up to the clause below.

   How: the relational triple [T2 m s Q] (m started in s and in s with any other
   schedule gives related outcomes; C18_elim_final_T2_unfold) has rules of the shape
   of the unary triple of Infer/Sound.v, the rule for sequencing using the lockstep
   congruence of the continuation (C18_elim_whole_lockstep) and the rule for a round
   the one-round theorem (C18_elim_round); the proofs of the invariant
   (Infer/SchedIndepElimP.v, ...I.v) are replayed in it:
     C18_elim_final_cc / _bind_base / _above / _below / _bind_var / _bind_compound /
     _unify / _fix / _apply            one operation from a GI store, two schedules;
     C18_elim_final_new_constraint / _instance
                                       two [eqr]-related GI stores, two schedules
                                       (the closure at the creation of a constraint
                                       needs the invariant on both sides);
     C18_elim_final_RelCmd             the hypothesis of C18_elim_whole_partial.

   NOT proved: agreement of the FOLLOWED reference of fulfilled elimination
   constraints in the two final stores ([eqk] instead of [eqr]).  One round gives it
   (C18_elim_round); the lockstep congruence is proved for [eqr] only (keeping the
   followed references equal through arbitrary later bindings needs the write-once /
   chain invariants inside the congruence, which is invariant-free). *)
From Coq Require Import List Arith Bool.
Import ListNotations.
From TF Require Import Base.Hier Base.Ty Infer.Store Infer.Engine Infer.Run Infer.Inv Infer.Sound
  Infer.SchedIndep Infer.SoundElimS Infer.TermElim Infer.SchedIndepElimA Infer.SchedIndepElimR
  Infer.SchedIndepElim Infer.SchedIndepElimP Infer.SchedIndepElimI Infer.SchedIndepElimQ
  Infer.SchedIndepElimW Infer.SchedIndepElimR2.
From TF Require Infer.FitsEngineList.

Theorem C18_elim_final : forall H, wf_hier H -> forall fuel prog sc1 sc2,
  progE H 0 prog -> prog_fuelE prog <= fuel ->
  match run_cmds H fuel prog 0 [] (empty_store sc1), run_cmds H fuel prog 0 [] (empty_store sc2) with
  | (None, v1, t1), (None, v2, t2) => v1 = v2 /\ eqr t1 t2
  | (Some (e1, i1), _, _), (Some (e2, i2), _, _) => i1 = i2 /\ e1 <> EFuel /\ e2 <> EFuel
  | _, _ => False
  end.
Proof. exact final. Qed.
Print Assumptions C18_elim_final.

Theorem C18_elim_final_RelCmd : forall H, wf_hier H -> RelCmd H.
Proof. exact RelCmd_all. Qed.
Print Assumptions C18_elim_final_RelCmd.

Example C18_elim_final_T2_unfold : forall A (m : M A) s (Q : A -> store -> Prop),
  T2 m s Q <->
  forall tau,
    match m s, m (with_sched s tau) with
    | MOk a t1, MOk b t2 => a = b /\ eqr t1 t2 /\ Q a t1
    | MOk _ _, MEr e _ => e = EFuel
    | MEr e _, MOk _ _ => e = EFuel
    | MEr _ _, MEr _ _ => True
    end.
Proof. intros. reflexivity. Qed.

Theorem C18_elim_final_cc : forall H, wf_hier H -> forall pend f v s, GI H pend s -> share s pend v ->
  T2 (check_constraints H f v) s (fun _ s' => GI H nop s' /\ FrB s s').
Proof. exact T2_cc. Qed.
Print Assumptions C18_elim_final_cc.

Theorem C18_elim_final_bind_base : forall H, wf_hier H -> forall f pend v o s, GI H pend s -> share s pend v ->
  v < length (vars s) -> c_bound (cell_of s v) = None -> variance H o = [] ->
  T2 (bind H f v (O o [])) s (fun _ _ => True).
Proof. exact R_bindb. Qed.
Print Assumptions C18_elim_final_bind_base.

Theorem C18_elim_final_above : forall H, wf_hier H -> forall f pend v new s, GI H pend s -> share s pend v ->
  v < length (vars s) -> base_or_unb s v -> variance H new = [] -> new <> Bottom ->
  T2 (above H f v new) s (fun _ s' => PostG H pend s s').
Proof. exact R_above_post. Qed.
Print Assumptions C18_elim_final_above.

Theorem C18_elim_final_below : forall H, wf_hier H -> forall f pend v new s, GI H pend s -> share s pend v ->
  v < length (vars s) -> base_or_unb s v -> variance H new = [] -> new <> Top ->
  T2 (below H f v new) s (fun _ s' => PostG H pend s s').
Proof. exact R_below_post. Qed.
Print Assumptions C18_elim_final_below.

Theorem C18_elim_final_bind_var : forall H, wf_hier H -> forall f v w s, GI H nop s ->
  v < length (vars s) -> w < length (vars s) ->
  c_bound (cell_of s v) = None -> c_bound (cell_of s w) = None ->
  T2 (bind H f v (V w)) s (fun _ _ => True).
Proof. exact R_bindV. Qed.
Print Assumptions C18_elim_final_bind_var.

Theorem C18_elim_final_bind_compound : forall H, wf_hier H -> forall f v o args s, GI H nop s ->
  v < length (vars s) -> c_bound (cell_of s v) = None ->
  tg H (length (vars s)) (O o args) -> nocc s v (O o args) -> basic H o = false ->
  T2 (bind H f v (O o args)) s (fun _ _ => True).
Proof. exact R_bindC. Qed.
Print Assumptions C18_elim_final_bind_compound.

Theorem C18_elim_final_unify : forall H, wf_hier H -> forall f a b s, GI H nop s ->
  tg H (length (vars s)) a -> tg H (length (vars s)) b ->
  T2 (unify H f true false false a b) s (fun _ _ => True).
Proof. exact R_unify_all. Qed.
Print Assumptions C18_elim_final_unify.

Theorem C18_elim_final_fix : forall H, wf_hier H -> forall f pl t s, GI H nop s -> tg H (length (vars s)) t ->
  T2 (fix_ty H f pl t) s (fun _ _ => True).
Proof. exact R_fix_all. Qed.
Print Assumptions C18_elim_final_fix.

Theorem C18_elim_final_apply : forall H, wf_hier H -> forall fuel f0 x0 fixb s, GI H nop s ->
  tg H (length (vars s)) f0 -> tg H (length (vars s)) x0 ->
  T2 (apply H fuel f0 x0 fixb) s (fun _ _ => True).
Proof. exact R_apply. Qed.
Print Assumptions C18_elim_final_apply.

Theorem C18_elim_final_two_sided : forall B (m : M B) s1 s2, eqr s1 s2 -> cong m ->
  T2 m s2 (fun _ _ => True) ->
  match m s1, m s2 with
  | MOk a t1, MOk b t2 => a = b /\ eqr t1 t2
  | MOk _ _, MEr e _ => e = EFuel
  | MEr e _, MOk _ _ => e = EFuel
  | MEr _ _, MEr _ _ => True
  end.
Proof. exact @two_sided. Qed.

Theorem C18_elim_final_new_constraint : forall H, wf_hier H -> forall x i0 A own F k s1 s2,
  eqr s1 s2 -> NCpre H x i0 A own s1 k -> NCpre H x i0 A own s2 k ->
  outr (new_constraint H F k s1) (new_constraint H F k s2).
Proof. exact R_new_constraint. Qed.
Print Assumptions C18_elim_final_new_constraint.

Theorem C18_elim_final_instance : forall H, wf_hier H -> forall F sc s1 s2,
  eqr s1 s2 -> GI H nop s1 -> GI H nop s2 ->
  styg H (s_n sc) (s_body sc) -> Forall (pscE H (s_n sc)) (s_constrs sc) ->
  outr (instance H F sc s1) (instance H F sc s2).
Proof. exact R_instance. Qed.
Print Assumptions C18_elim_final_instance.

(* instances: the three example programs of C18_elim_prog, now by the theorem (all schedules) *)
Example C18_elim_final_ex : forall sc1 sc2,
  match run_cmds rH 200 rprog 0 [] (empty_store sc1), run_cmds rH 200 rprog 0 [] (empty_store sc2) with
  | (None, v1, t1), (None, v2, t2) => v1 = v2 /\ eqr t1 t2
  | (Some (e1, i1), _, _), (Some (e2, i2), _, _) => i1 = i2 /\ e1 <> EFuel /\ e2 <> EFuel
  | _, _ => False
  end.
Proof.
  intros sc1 sc2. apply (final rH rH_wf 200 rprog sc1 sc2 rprog_progE). vm_compute. auto 300 with arith.
Qed.
