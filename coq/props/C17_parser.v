(* C17 (parser part)  Expression and type parsing fail only with declared errors, and
   terminate.

   Model: Parse/ExParser.v = transforge/lang.py parse_expr / parse_type with
   proposed_fixes/C13_C17_parser.diff (and C13.diff) applied.  Every Python statement
   that can raise something outside ParseError / TypingError / ApplicationError --
   `stack[-1]`, `stack.pop()`, `stack[1]`, the asserts, int() -- is a [Crash site]
   outcome of the model; the type checker is a parameter that can only answer with a
   state or a declared error.  Termination: [run] and [ty_run] are structurally
   recursive on the token list, [backtrack] on the stack.
   On the pinned tree the statement is false: `: A` and `- : *` hit asserts, `) f`
   pops an empty list, a superscript digit makes int() raise ValueError (reproduced on
   the implementation by harness/c13.py parser_fuzz). *)
From Coq Require Import List Arith Bool NArith ZArith.
Import ListNotations.
From TF Require Import Parse.ExTok Parse.ExParser Parse.ExTotal.

(* for ALL token lists (also ones tokenize cannot produce), all languages, whatever the
   type checker answers: parse_expr returns an expression or a declared error *)
Theorem C17_parse_total :
  forall (lookup_op : str -> option nat) (lookup_ty : str -> option (nat * nat))
         (decval : N -> option nat) (St : Type) (step : St -> event -> St + perr)
         (ninputs : nat) (toks : list str) (n0 : nat) (s0 : St) (s : site),
  parse_toks lookup_op lookup_ty decval St step ninputs toks n0 s0 <> Crash s.
Proof. exact parse_toks_never_crashes. Qed.
Print Assumptions C17_parse_total.

(* ... in particular for all strings *)
Theorem C17_parse_str_total :
  forall (lookup_op : str -> option nat) (lookup_ty : str -> option (nat * nat))
         (decval : N -> option nat) (St : Type) (step : St -> event -> St + perr)
         (ninputs : nat) (str : str) (n0 : nat) (s0 : St) (s : site),
  parse_str lookup_op lookup_ty decval St step ninputs str n0 s0 <> Crash s.
Proof. exact parse_str_never_crashes. Qed.
Print Assumptions C17_parse_str_total.

(* parse_type on its own (the whole input is the type) *)
Theorem C17_parse_type_total :
  forall (lookup_ty : str -> option (nat * nat)) (toks : list str) (s : site),
  parse_type_toks lookup_ty toks <> Crash s.
Proof. exact parse_type_toks_never_crashes. Qed.
Print Assumptions C17_parse_type_total.

Theorem C17_parse_type_str_total :
  forall (lookup_ty : str -> option (nat * nat)) (str : str) (s : site),
  parse_type_str lookup_ty str <> Crash s.
Proof. exact parse_type_str_never_crashes. Qed.
Print Assumptions C17_parse_type_str_total.

(* ------------------------------------------------------------------------------ *)
(* Non-vacuity.  The crash sites are real branches of the model (reached from states
   the parser never gets into) ... *)
Definition y_op (t : str) : option nat := if str_eqb t [102]%N then Some 0 else None.     (* f *)
Definition y_ty (t : str) : option (nat * nat) :=
  if str_eqb t [65]%N then Some (5, 0) else if str_eqb t [70]%N then Some (6, 1)
  else if str_eqb t [66]%N then Some (7, 0) else None.                                   (* A, F/1, B *)
Definition y_dec (c : N) : option nat :=
  if (N.leb 48 c && N.leb c 57)%N then Some (N.to_nat (c - 48)) else None.
Definition y_step (s : list event) (e : event) : list event + perr := inl (e :: s).

Example y_sites :
  step_tok y_op y_ty y_dec _ y_step 0 (mkP _ [] 0 [] [] MExpr) [102]%N = Crash SExprPop /\
  step_tok y_op y_ty y_dec _ y_step 0 (mkP _ [] 0 [] [] MExpr) [58]%N = Crash SExprTop /\
  step_tok y_op y_ty y_dec _ y_step 0 (mkP _ [None] 0 [] [] (MType (VSrc 0) [] 0)) [42]%N = Crash STypePop /\
  step_tok y_op y_ty y_dec _ y_step 0 (mkP _ [None] 0 [] [] (MType (VSrc 0) [] 0)) [65]%N = Crash STypeIdx1.
Proof. repeat split; reflexivity. Qed.

(* ... and the inputs that crash the pinned parser get declared errors:
   ": A"   "- : (* A)" written with a space   "- : *"   ") f"   ") : A"   "f " ++ superscript two *)
Example y_probes :
  let p s := parse_str y_op y_ty y_dec _ y_step 0 s 0 [] in
  p [58; 32; 65]%N = Err EParse /\
  p [45; 32; 58; 32; 40; 42; 32; 65; 41]%N = Err EParse /\
  p [45; 32; 58; 32; 42]%N = Err EParse /\
  p [41; 32; 102]%N = Err EBracket /\
  p [41; 32; 58; 32; 65]%N = Err EBracket /\
  p [102; 32; 178]%N = Err EUndefined /\
  parse_type_str y_ty [42; 32; 65]%N = Err EParse.
Proof. repeat split; vm_compute; reflexivity. Qed.

(* `*` after an unmatched `)` consumed the bottom of the stack: the scan for a pending
   operator ends at the bottom, the outcome is BracketMismatch.
   "A) * B"   "F(A)) * B"   "(A * B)) * A"   "A, B) * A"   "_ ) * _" *)
Example y_star_scan :
  let p := parse_type_str y_ty in
  p [65; 41; 32; 42; 32; 66]%N = Err EBracket /\
  p [70; 40; 65; 41; 41; 32; 42; 32; 66]%N = Err EBracket /\
  p [40; 65; 32; 42; 32; 66; 41; 41; 32; 42; 32; 65]%N = Err EBracket /\
  p [65; 44; 32; 66; 41; 32; 42; 32; 65]%N = Err EBracket /\
  p [95; 32; 41; 32; 42; 32; 95]%N = Err EBracket /\
  star_collapse [TInst (PApp 5 []); TInst (PApp 7 [])] = Ok [TInst (PApp 5 []); TInst (PApp 7 [])].
Proof. repeat split; vm_compute; reflexivity. Qed.
