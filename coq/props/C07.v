(* C07  Each concept node carries its inferred type and all canonical supertypes.
   Property theorems only; each is closed by [exact] of a library lemma.

   Model: Graph/Annot.v -- the annotation half of TransformationGraph.add_expr
   (graph.py:240-316) and add_type (graph.py:174-213) with the type_nodes memo,
   under the nine with_* switches that steer it ([switches]); WITH the repairs
   proposed_fixes/C11_containsOperation.diff and proposed_fixes/C07.diff.
     [concepts]/[concepts_seq]  add_expr's / add_workflow's traversal: which
                  Source and Operation objects are annotated, on which node,
                  with which [intermediate] flag (events, in visiting order)
     [run]        the annotation of a list of events into one graph
     [annot_exprs]  both, on a fresh graph
   Language.supertypes(t, transitive=True) is [csup] = Canon/Canon.v's
   [lang_succ] (property C10); Language.uri is Uri/Uri.v's [uri] (property C14).

   All statements quantify over every switch combination, every language
   (names, namespace), every canon and every list of events, i.e. every
   insertion history into one graph; [typed] says when the switches enable the
   type annotation of a concept. *)
From Coq Require Import List Arith Bool.
Import ListNotations.
From TF Require Import Base.Hier Base.Ty Sub.SubSpec Parse.Lang Uri.Uri.
From TF Require Import Canon.Succ Canon.Canon.
From TF Require Import Graph.AddExpr Graph.Annot Graph.AnnotProofs Graph.AnnotNodes Graph.AnnotCanon
  Graph.AnnotPinned.

(* ---- expressions and workflows added to a fresh graph, end to end ---- *)

(* every annotated source / operation sits on its own expression node; when the
   switches enable it, that node has exactly one tf:type, the node of the type
   inference assigned (its language URI when canonical, a blank node when
   Language.uri has none); its tf:subtypeOf objects are exactly the URIs of the
   canonical supertypes of a canonical type, itself included, and there are none
   for a non-canonical type *)
Theorem C07_expressions : forall sw L ns H canon, wf_hier H -> Forall (wf_ty H) canon ->
  forall es g st, annot_exprs sw L ns canon (csup H canon) es = Some (g, st) ->
  exists evs,
    concepts_seq es g_empty = Some (g, evs) /\
    run sw L ns canon (csup H canon) TRoot evs (tinit sw L ns canon) = Some st /\
    NoDup (map ev_cur evs) /\
    (forall e, In e evs -> exists k, ev_cur e = TEn k /\ k < g_next g) /\
    forall e, In e evs -> typed sw canon e = true ->
      (exists n, tfind (ev_ty e) (t_memo st) = Some n /\
         (forall o, In (ev_cur e, PType, o) (t_tr st) <-> o = n) /\
         (In (ev_ty e) canon -> exists u, uri L ns canon (ev_ty e) = Some u /\ n = TUri u) /\
         (uri L ns canon (ev_ty e) = None -> exists k, n = TBn k)) /\
      (w_supertypes sw = true -> In (ev_ty e) canon ->
         forall o, In (ev_cur e, PSubtypeOf, o) (t_tr st) <->
           exists s u, In s canon /\ Sub H (ev_ty e) s /\ uri L ns canon s = Some u /\ o = TUri u) /\
      (~ In (ev_ty e) canon -> forall o, ~ In (ev_cur e, PSubtypeOf, o) (t_tr st)).
Proof. exact exprs_annotation. Qed.
Print Assumptions C07_expressions.

(* the traversal allocates exactly the nodes of the add_expr model that
   property C08 is proved about: the annotated nodes are the nodes the
   from-edges connect *)
Theorem C07_nodes_agree : forall add_from pinned e cur im g n g' evs,
  concepts e cur im g = Some (n, g', evs) ->
  forall h, geq g h ->
  exists h', add_expr add_from pinned (erase e) cur h = Some (n, h') /\ geq g' h'.
Proof. exact concepts_sim. Qed.
Print Assumptions C07_nodes_agree.

Theorem C07_one_node_per_concept : forall es g g' evs, concepts_seq es g = Some (g', evs) ->
  g_next g <= g_next g' /\
  (forall v, In v evs -> exists k, ev_cur v = TEn k /\ g_next g <= k < g_next g') /\
  NoDup (map ev_cur evs).
Proof. exact concepts_seq_nodes. Qed.
Print Assumptions C07_one_node_per_concept.

(* what is annotated is a Source / Operation of the expression, with the type
   (output type) that expression node carries *)
Theorem C07_annotated_are_leaves : forall es g g' evs, concepts_seq es g = Some (g', evs) ->
  forall v, In v evs -> exists e l, In e es /\ In l (cleaves e) /\ ev_of_leaf v l.
Proof. exact concepts_seq_leaves. Qed.
Print Assumptions C07_annotated_are_leaves.

(* ---- every insertion history, every supertype enumeration ---- *)

(* the annotation triples are exactly those prescribed event by event *)
Theorem C07_triples_exact : forall sw L ns canon sup root evs st,
  run sw L ns canon sup root evs (tinit sw L ns canon) = Some st ->
  forall x, is_descr x = false ->
    (In x (t_tr st) <-> exists e, In e evs /\ EvSpec sw L ns canon sup root e (t_memo st) x).
Proof. exact run_annot_exact. Qed.
Print Assumptions C07_triples_exact.

(* type: exactly one, the node of the assigned type *)
Theorem C07_type : forall sw L ns canon sup root evs st,
  run sw L ns canon sup root evs (tinit sw L ns canon) = Some st ->
  forall e, In e evs -> typed sw canon e = true ->
  (forall e', In e' evs -> ev_cur e' = ev_cur e -> typed sw canon e' = true -> ev_ty e' = ev_ty e) ->
  exists n, tfind (ev_ty e) (t_memo st) = Some n /\
    (forall o, In (ev_cur e, PType, o) (t_tr st) <-> o = n) /\
    match uri L ns canon (ev_ty e) with Some u => n = TUri u | None => exists k, n = TBn k end.
Proof. exact node_type. Qed.
Print Assumptions C07_type.

(* no type and no supertypes on a node whose annotation the switches disable *)
Theorem C07_untyped : forall sw L ns canon sup root evs st,
  run sw L ns canon sup root evs (tinit sw L ns canon) = Some st ->
  forall c, (forall e, In e evs -> ev_cur e = c -> typed sw canon e = false) ->
  forall o, ~ In (c, PType, o) (t_tr st) /\ ~ In (c, PSubtypeOf, o) (t_tr st).
Proof. exact node_untyped. Qed.
Print Assumptions C07_untyped.

(* via: the operator's URI, for operations only *)
Theorem C07_via : forall sw L ns canon sup root evs st,
  run sw L ns canon sup root evs (tinit sw L ns canon) = Some st ->
  forall c o, In (c, PVia, o) (t_tr st) <->
    w_operators sw = true /\
    exists j out im, In (EvOp c j out im) evs /\ o = TUri (uri_op L ns (OOp j)).
Proof. exact node_via. Qed.
Print Assumptions C07_via.

(* subtypeOf: exactly the canonical supertypes in the declared subtype order *)
Theorem C07_subtypeOf : forall sw L ns H canon, wf_hier H -> Forall (wf_ty H) canon ->
  forall root evs st,
  run sw L ns canon (csup H canon) root evs (tinit sw L ns canon) = Some st ->
  forall e, In e evs -> typed sw canon e = true -> w_supertypes sw = true -> In (ev_ty e) canon ->
  (forall e', In e' evs -> ev_cur e' = ev_cur e -> typed sw canon e' = true -> ev_ty e' = ev_ty e) ->
  forall o, In (ev_cur e, PSubtypeOf, o) (t_tr st) <->
    exists s u, In s canon /\ Sub H (ev_ty e) s /\ uri L ns canon s = Some u /\ o = TUri u.
Proof. exact subtypeOf_exact. Qed.
Print Assumptions C07_subtypeOf.

(* ---- membership ---- *)

(* containsType: on the root only; the type nodes of the typed concepts
   (with_membership) and the URIs of the strict canonical supertypes of their
   canonical types (with_membership_supertypes) -- for each of the four
   combinations of the two switches *)
Theorem C07_containsType : forall sw L ns H canon, wf_hier H -> Forall (wf_ty H) canon ->
  forall root evs st,
  run sw L ns canon (csup H canon) root evs (tinit sw L ns canon) = Some st ->
  forall r o, In (r, PContainsType, o) (t_tr st) <->
    r = root /\ exists e, In e evs /\ typed sw canon e = true /\
      ((w_membership sw = true /\ tfind (ev_ty e) (t_memo st) = Some o) \/
       (w_membership_super sw = true /\ In (ev_ty e) canon /\
        exists s u, In s canon /\ Sub H (ev_ty e) s /\ s <> ev_ty e /\
                    uri L ns canon s = Some u /\ o = TUri u)).
Proof. exact containsType_exact. Qed.
Print Assumptions C07_containsType.

(* containsOperation: on the root only, exactly the via objects of the nodes *)
Theorem C07_containsOperation : forall sw L ns canon sup root evs st,
  run sw L ns canon sup root evs (tinit sw L ns canon) = Some st ->
  forall r o, In (r, PContainsOperation, o) (t_tr st) <->
    r = root /\ w_membership sw = true /\ exists c, In (c, PVia, o) (t_tr st).
Proof. exact membership_ops. Qed.
Print Assumptions C07_containsOperation.

(* "exactly the unions of these over its nodes", literally *)
Theorem C07_membership_union : forall sw L ns canon sup root evs st,
  run sw L ns canon sup root evs (tinit sw L ns canon) = Some st ->
  w_membership sw = true -> w_membership_super sw = true -> w_supertypes sw = true ->
  forall o, In (root, PContainsType, o) (t_tr st) <->
    exists c, In (c, PType, o) (t_tr st) \/ In (c, PSubtypeOf, o) (t_tr st).
Proof. exact membership_union_all. Qed.
Print Assumptions C07_membership_union.

Theorem C07_membership_union_types_only : forall sw L ns canon sup root evs st,
  run sw L ns canon sup root evs (tinit sw L ns canon) = Some st ->
  w_membership sw = true -> w_membership_super sw = false ->
  forall o, In (root, PContainsType, o) (t_tr st) <-> exists c, In (c, PType, o) (t_tr st).
Proof. exact membership_union_types. Qed.
Print Assumptions C07_membership_union_types_only.

(* ---- several transformations (roots) in one graph ---- *)

(* [runr]: every event carries the root of its add_expr call; type nodes and
   triples are shared.  The membership sets of a root are exactly the unions
   over the concepts added under THAT root -- whatever types the other
   transformations in the graph already have *)
Theorem C07_containsType_per_root : forall sw L ns H canon, wf_hier H -> Forall (wf_ty H) canon ->
  forall res st,
  runr sw L ns canon (csup H canon) res (tinit sw L ns canon) = Some st ->
  forall r o, In (r, PContainsType, o) (t_tr st) <->
    exists e, In (r, e) res /\ typed sw canon e = true /\
      ((w_membership sw = true /\ tfind (ev_ty e) (t_memo st) = Some o) \/
       (w_membership_super sw = true /\ In (ev_ty e) canon /\
        exists s u, In s canon /\ Sub H (ev_ty e) s /\ s <> ev_ty e /\
                    uri L ns canon s = Some u /\ o = TUri u)).
Proof. exact containsType_per_root. Qed.
Print Assumptions C07_containsType_per_root.

Theorem C07_containsOperation_per_root : forall sw L ns canon sup res st,
  runr sw L ns canon sup res (tinit sw L ns canon) = Some st ->
  forall r o, In (r, PContainsOperation, o) (t_tr st) <->
    w_operators sw = true /\ w_membership sw = true /\
    exists c j out im, In (r, EvOp c j out im) res /\ o = TUri (uri_op L ns (OOp j)).
Proof. exact runr_membership_ops. Qed.
Print Assumptions C07_containsOperation_per_root.

(* all annotation triples, per event and its root *)
Theorem C07_triples_exact_per_root : forall sw L ns canon sup res st,
  runr sw L ns canon sup res (tinit sw L ns canon) = Some st ->
  forall x, is_descr x = false ->
    (In x (t_tr st) <-> exists r e, In (r, e) res /\ EvSpec sw L ns canon sup r e (t_memo st) x).
Proof. exact runr_annot_exact. Qed.
Print Assumptions C07_triples_exact_per_root.

(* one root is the special case *)
Theorem C07_run_is_runr : forall sw L ns canon sup root evs st,
  run sw L ns canon sup root evs st = runr sw L ns canon sup (map (pair root) evs) st.
Proof. exact run_runr. Qed.
Print Assumptions C07_run_is_runr.

(* add_expr once per transformation: distinct nodes across all of them, and
   every event carries the root of the call that visited its expression *)
Theorem C07_roots_nodes : forall res g g' evs, concepts_roots res g = Some (g', evs) ->
  g_next g <= g_next g' /\
  (forall r v, In (r, v) evs -> exists k, ev_cur v = TEn k /\ g_next g <= k < g_next g') /\
  NoDup (map (fun p => ev_cur (snd p)) evs) /\
  (forall r v, In (r, v) evs -> exists e l, In (r, e) res /\ In l (cleaves e) /\ ev_of_leaf v l).
Proof. exact concepts_roots_nodes. Qed.
Print Assumptions C07_roots_nodes.

(* ---- type nodes ---- *)

(* a type gets a URI exactly when Language.uri has one for it (canonical
   compound types and base types, whose URI is that of their operator);
   a compound type outside the canon gets a blank node, never a language URI *)
Theorem C07_type_node_uri : forall sw L ns canon sup root evs st,
  run sw L ns canon sup root evs (tinit sw L ns canon) = Some st ->
  forall t n, tfind t (t_memo st) = Some n ->
    match uri L ns canon t with Some u => n = TUri u | None => exists k, n = TBn k end.
Proof. exact run_memo_shape. Qed.
Print Assumptions C07_type_node_uri.

(* once per distinct type *)
Theorem C07_type_node_once : forall sw L ns H canon root evs st,
  run sw L ns canon (csup H canon) root evs (tinit sw L ns canon) = Some st ->
  lang_uri_okb L = true -> wf_nsb ns = true ->
  Forall (fun t => uri_domb L t = true) canon ->
  (forall e, In e evs -> uri_domb L (ev_ty e) = true) ->
  forall t1 t2 n, tfind t1 (t_memo st) = Some n -> tfind t2 (t_memo st) = Some n -> t1 = t2.
Proof. exact type_node_once. Qed.
Print Assumptions C07_type_node_once.

(* a compound type's own node records its operator and its parameters in order,
   each position exactly once *)
Theorem C07_type_node_params : forall sw L ns H canon root evs st,
  run sw L ns canon (csup H canon) root evs (tinit sw L ns canon) = Some st ->
  lang_uri_okb L = true -> wf_nsb ns = true ->
  Forall (fun t => uri_domb L t = true) canon ->
  (forall e, In e evs -> uri_domb L (ev_ty e) = true) ->
  forall o args n,
  tfind (TOp o args) (init_memo sw L ns canon) = None ->
  tfind (TOp o args) (t_memo st) = Some n ->
  (0 <? op_arity L o) && w_type_params sw = true ->
  (forall x, In (n, PSubClassOf, x) (t_tr st) <-> x = TUri (uri_op L ns (OTy o))) /\
  (forall i x, In (n, PParam i, x) (t_tr st) <->
     exists j a, i = S j /\ nth_error args j = Some a /\ tfind a (t_memo st) = Some x) /\
  (forall j a, nth_error args j = Some a -> exists x, tfind a (t_memo st) = Some x).
Proof. exact type_node_params. Qed.
Print Assumptions C07_type_node_params.

(* nothing else is ever described: the rdfs:subClassOf / rdf:_i triples are
   exactly the descriptions of the types that got their node in this graph *)
Theorem C07_descriptions_exact : forall sw L ns canon sup root evs st,
  run sw L ns canon sup root evs (tinit sw L ns canon) = Some st ->
  forall x, is_descr x = true ->
    (In x (t_tr st) <-> DescrOf sw L ns (init_memo sw L ns canon) (t_memo st) x).
Proof. exact run_descr_exact. Qed.
Print Assumptions C07_descriptions_exact.

(* ---- predicate names ---- *)

(* vocabulary agreement is the decidable statement the check evaluates on the
   name tables it reads from the running code and vocab/transforge.ttl *)
Theorem C07_vocab_agree_spec : forall emitted queried declared,
  vocab_agree emitted queried declared = true <->
  (forall n, In n queried -> In n emitted) /\ (forall n, In n emitted -> In n declared).
Proof. exact vocab_agree_spec. Qed.
Print Assumptions C07_vocab_agree_spec.

Theorem C07_vocab_model : forall declared,
  (forall p, In p tf_preds -> In (pred_name p) declared) ->
  vocab_agree (map pred_name tf_preds) (map pred_name membership_preds) declared = true.
Proof. exact model_vocab_ok. Qed.
Print Assumptions C07_vocab_model.

(* ---- the pinned code violates the property in two places ---- *)

(* graph.py:290 emits containsOperator: a query testing containsOperation tests
   a predicate no graph contains, whatever the vocabulary declares *)
Theorem C07_vocab_pinned_refuted : forall declared queried,
  In (pred_name PContainsOperation) queried ->
  vocab_agree (map pred_name_pinned tf_preds) queried declared = false.
Proof. exact vocab_pinned_refuted. Qed.
Print Assumptions C07_vocab_pinned_refuted.

(* graph.py:247 looks the source's type up without following variables: a
   source whose (canonical) type is held through a bound variable gets its
   tf:type but no tf:subtypeOf *)
Theorem C07_source_pinned_refuted :
  exists st st',
    annot_src_pinned pSw pL pNs pCanon (csup pH pCanon) TRoot (TEn 0) pA true
      (tinit pSw pL pNs pCanon) = Some st /\
    annot_src pSw pL pNs pCanon (csup pH pCanon) TRoot (TEn 0) pA
      (tinit pSw pL pNs pCanon) = Some st' /\
    In pA pCanon /\
    In (TEn 0, PType, TUri [101; 58; 65]) (t_tr st) /\
    (forall o, ~ In (TEn 0, PSubtypeOf, o) (t_tr st)) /\
    In (TEn 0, PSubtypeOf, TUri [101; 58; 65]) (t_tr st').
Proof. exact source_pinned_refuted. Qed.
Print Assumptions C07_source_pinned_refuted.

(* ---- non-vacuity: A(5) > B(6) > C(7), D(8), covariant unary F(9);
   canon {Top, A, B, C, F(Top), F(A), F(B), F(C)}; operators f0 : A ** B,
   f1 : x ** F(x); the expression  f1 (f1 (f0 s))  with s : C -- its outer
   type F(F(B)) is not canonical ---- *)
Definition exH : hier := mk_hier [(6, 5); (7, 6)] [(9, [true])].
Definition exL : lang :=
  mkLang [([65], 0); ([66], 0); ([67], 0); ([68], 0); ([70], 1)] [] [[102; 48]; [102; 49]].
Definition exNs : list nat := [101; 120; 58; 47; 47; 97; 35].      (* "ex://a#" *)
Definition exCanon : list ty :=
  [TOp 0 []; TOp 5 []; TOp 6 []; TOp 7 []; TOp 9 [TOp 0 []]; TOp 9 [TOp 5 []]; TOp 9 [TOp 6 []];
   TOp 9 [TOp 7 []]].
Definition exSw : switches := mkSw true true true true true true true true false.
Definition exE : cexpr :=
  CApp 0 (COp 1 1 (TOp 9 [TOp 9 [TOp 6 []]]))
    (CApp 2 (COp 3 1 (TOp 9 [TOp 6 []]))
       (CApp 4 (COp 5 0 (TOp 6 [])) (CSrc 6 (TOp 7 [])) false) false) false.

Example ex_hyps : wf_hier exH /\ Forall (wf_ty exH) exCanon /\ lang_uri_okb exL = true /\
  wf_nsb exNs = true /\ Forall (fun t => uri_domb exL t = true) exCanon.
Proof.
  split; [|split; [|split; [|split]]].
  - split.
    + intros o p. cbn. repeat (destruct o as [|o]; try discriminate; cbn); intros [= <-]; auto with arith.
    + intros o p. cbn. repeat (destruct o as [|o]; try discriminate; cbn); intros [= <-]; cbn; repeat split; discriminate.
    + split; reflexivity.
    + split; reflexivity.
    + reflexivity.
  - repeat constructor.
  - reflexivity.
  - reflexivity.
  - repeat constructor.
Qed.

(* the run succeeds: 4 annotated concepts on 4 different nodes, one blank type
   node (for F(F(B)); F(B) is canonical).  [tr_has] is membership (tr_has_In). *)
Example ex_run : exists g st, annot_exprs exSw exL exNs exCanon (csup exH exCanon) [exE] = Some (g, st) /\
  g_next g = 4 /\ t_next st = 1 /\
  forallb (tr_has (t_tr st))
    [ (* the source of type C is below C, B, A and Top *)
      (TEn 3, PSubtypeOf, TUri (exNs ++ [65]));
      (TEn 3, PSubtypeOf, TUri (TFns ++ [84; 111; 112]));
      (* the middle step has the canonical type F(B) and with it F(A) and F(Top) *)
      (TEn 1, PType, TUri (exNs ++ [70; 45; 66]));
      (TEn 1, PSubtypeOf, TUri (exNs ++ [70; 45; 65]));
      (TEn 1, PSubtypeOf, TUri (exNs ++ [70; 45; 84; 111; 112]));
      (* the outer step has a blank type node described by its operator and parameter *)
      (TEn 0, PType, TBn 0);
      (TBn 0, PSubClassOf, TUri (exNs ++ [70]));
      (TBn 0, PParam 1, TUri (exNs ++ [70; 45; 66]));
      (TEn 0, PVia, TUri (exNs ++ [102; 49]));
      (TRoot, PContainsOperation, TUri (exNs ++ [102; 49]));
      (TRoot, PContainsOperation, TUri (exNs ++ [102; 48]));
      (TRoot, PContainsType, TBn 0);
      (TRoot, PContainsType, TUri (exNs ++ [66])) ] = true /\
  (* ... and no supertypes on the outer step, whose type is not canonical *)
  existsb (fun x => term_eqb (fst (fst x)) (TEn 0) && apred_eqb (snd (fst x)) PSubtypeOf) (t_tr st) = false.
Proof.
  eexists. eexists. split; [vm_compute; reflexivity|]. vm_compute. repeat split.
Qed.

Theorem C07_example_membership_is_In : forall tr x, tr_has tr x = true <-> In x tr.
Proof. exact tr_has_In. Qed.
Print Assumptions C07_example_membership_is_In.

(* two transformations with different roots and the same types in one graph:
   the second root has the supertype members too *)
Definition exR1 : term := TUri [114; 49].
Definition exR2 : term := TUri [114; 50].
Definition exE2 : cexpr := CApp 10 (COp 11 0 (TOp 6 [])) (CSrc 12 (TOp 7 [])) false.
Example ex_two_roots : exists g st,
  annot_roots exSw exL exNs exCanon (csup exH exCanon) [(exR1, exE2); (exR2, exE2)] = Some (g, st) /\
  g_next g = 4 /\
  forallb (tr_has (t_tr st))
    [ (exR1, PContainsType, TUri (exNs ++ [65])); (exR2, PContainsType, TUri (exNs ++ [65]));
      (exR1, PContainsType, TUri (TFns ++ [84; 111; 112])); (exR2, PContainsType, TUri (TFns ++ [84; 111; 112]));
      (exR1, PContainsOperation, TUri (exNs ++ [102; 48])); (exR2, PContainsOperation, TUri (exNs ++ [102; 48])) ] = true.
Proof. eexists. eexists. split; [vm_compute; reflexivity|]. vm_compute. repeat split. Qed.
