(* C05 for signatures with MIXED parameter contexts and a result context

       c_1[x] ** c_2[x] ** ... ** c_n[x] ** r[x]

   ("all signatures `c(x) ** ... ** c(x) ** r(x)`" of the property's quantifier,
   generalised: every parameter has its OWN one-hole context, of either polarity).

   Statements are about the engine model Infer/Engine.v run through the command
   interpreter Infer/Run.v with the default schedule [] (as in props/C05.v,
   props/C05_ctx.v).  Contexts are the one-hole contexts octx of Infer/LubCtx.v
   (any arity, variance and depth, concrete siblings; wf_octx, pol, octx_depth,
   octx_sib, tplug as in props/C05_ctx.v).

   Program (Infer/LubMixed.v), on a list cas = [(c_1,a_1); ..; (c_n,a_n)] of
   (context, base type) pairs and a result context r:
     mixed_prog_p cas r =
       [CInst (c_1[x] ** .. ** c_n[x] ** r[x]);
        CInst c_1[a_1]; CApply 0 1 true; CInst c_2[a_2]; CApply 2 3 true; ...]
     mixed_prog cs r args = mixed_prog_p (combine cs args) r     (C05_mixed_prog)
   so the application of the j-th argument (j from 0) is command 2j+2.
   chain_prog_o c args of props/C05_ctx.v is mixed_prog (repeat c n) Hole args.

   Observations:
     cell_of s 0                     the final cell of the schematic variable x
     zonk s t                        t with every variable replaced by what it
                                     is bound to in s (what the returned type
                                     denotes); last vals = the value returned by
                                     the last application (after its fix)
     top_fun r                       r[x] is itself a function type: Type.apply
                                     does NOT fix its result then

   Hypotheses (as in the .._user theorems): every a_i is a base type other than
   Top/Bottom, the a_i are pairwise comparable (one chain); every context is
   well-formed and depth + sibling height <= d; n >= 1; fuel >= d + n + 3.

   Proved for EVERY well-formed hierarchy, all such cas, r:
     C05_mixed_iff      the run succeeds  iff  every argument supplied in covariant
                        position is a subtype of every argument supplied in
                        contravariant position;
     C05_mixed_iff_LU   with L = greatest covariant, U = least contravariant
                        argument: succeeds iff L <= U  (clause (i));
     C05_mixed_fail     otherwise it stops with SubtypeMismatch at command 2j+2
                        where j is the first argument that crosses an earlier one
                        (no crossing among the first j, one among the first j+1);
     C05_mixed_success  on success, with lo/up the greatest covariant / least
                        contravariant argument (None when there is none):
                        the cell of x has c_lower = lo, c_upper = up and is bound to
                          fb = lo  when r's hole is covariant      (fix picks the lower)
                          fb = up  when r's hole is contravariant  (fix picks the upper)
                        (fb = None: x stays open, e.g. covariant result with only
                        contravariant arguments), and the returned value denotes
                        r[fb] (r[x] when fb = None).  When r[x] is a function type
                        nothing is fixed: x is bound only if lo = up.   Note that
                        lo = up = Some A gives fb = Some A in every case: the
                        variable was resolved when the bounds met  (clause (ii));
     C05_mixed_perm     permuting the (context, argument) pairs: both runs succeed
                        with the same cell of x and the same denoted result, or
                        both fail with SubtypeMismatch (clause (iii));
     C05_mixed_mono     replacing arguments c_i[a_i] by subtypes (a_i' <= a_i in
                        covariant, a_i' >= a_i in contravariant position): success
                        is preserved, the lower bound can only go down, the upper
                        bound only up, and a concrete result r[M] becomes r[M'] with
                        M' <= M for covariant r, M <= M' for contravariant r, i.e. a
                        subtype of r[M].

   Not covered: Top/Bottom among the arguments of a mixed signature (covered for
   a single context in props/C05_ctx.v), siblings containing variables, several
   holes in one parameter. *)
From Coq Require Import List Arith Bool Lia Permutation.
Import ListNotations.
From TF Require Import Base.Hier Base.Ty Infer.Store Infer.Engine Infer.Run Infer.Lub
  Infer.LubCtx Infer.LubMixed.

Theorem C05_mixed_prog : forall (cas : list (octx * nat)) (r : octx),
  mixed_prog (map fst cas) r (map snd cas) = mixed_prog_p cas r.
Proof. exact mixed_prog_pairs. Qed.
Print Assumptions C05_mixed_prog.

(* ---------- (i) success / failure ---------- *)

Theorem C05_mixed_iff : forall H, wf_hier H ->
  forall (cas : list (octx * nat)) (r : octx) (d fuel : nat),
  wf_octx H r -> octx_depth r + octx_sib r <= d ->
  (forall c a, In (c, a) cas ->
     wf_octx H c /\ octx_depth c + octx_sib c <= d /\
     variance H a = [] /\ a <> Top /\ a <> Bottom) ->
  (forall c a c' b, In (c, a) cas -> In (c', b) cas -> Anc H a b \/ Anc H b a) ->
  cas <> [] ->
  d + length cas + 3 <= fuel ->
  ((exists vals s,
      run_cmds H fuel (mixed_prog_p cas r) 0 [] (empty_store []) = (None, vals, s)) <->
   (forall c a c' b, In (c, a) cas -> In (c', b) cas ->
      pol H c = true -> pol H c' = false -> Anc H a b)).
Proof. exact mixed_iff_stmt. Qed.
Print Assumptions C05_mixed_iff.

Theorem C05_mixed_iff_LU : forall H, wf_hier H ->
  forall (cas : list (octx * nat)) (r : octx) (d fuel L U : nat),
  wf_octx H r -> octx_depth r + octx_sib r <= d ->
  (forall c a, In (c, a) cas ->
     wf_octx H c /\ octx_depth c + octx_sib c <= d /\
     variance H a = [] /\ a <> Top /\ a <> Bottom) ->
  (forall c a c' b, In (c, a) cas -> In (c', b) cas -> Anc H a b \/ Anc H b a) ->
  cas <> [] ->
  d + length cas + 3 <= fuel ->
  (exists c, In (c, L) cas /\ pol H c = true) ->
  (forall c a, In (c, a) cas -> pol H c = true -> Anc H a L) ->
  (exists c, In (c, U) cas /\ pol H c = false) ->
  (forall c a, In (c, a) cas -> pol H c = false -> Anc H U a) ->
  ((exists vals s,
      run_cmds H fuel (mixed_prog_p cas r) 0 [] (empty_store []) = (None, vals, s)) <->
   Anc H L U).
Proof. exact mixed_iff_LU_stmt. Qed.
Print Assumptions C05_mixed_iff_LU.

Theorem C05_mixed_fail : forall H, wf_hier H ->
  forall (cas : list (octx * nat)) (r : octx) (d fuel : nat),
  wf_octx H r -> octx_depth r + octx_sib r <= d ->
  (forall c a, In (c, a) cas ->
     wf_octx H c /\ octx_depth c + octx_sib c <= d /\
     variance H a = [] /\ a <> Top /\ a <> Bottom) ->
  (forall c a c' b, In (c, a) cas -> In (c', b) cas -> Anc H a b \/ Anc H b a) ->
  cas <> [] ->
  d + length cas + 3 <= fuel ->
  ~ (forall c a c' b, In (c, a) cas -> In (c', b) cas ->
       pol H c = true -> pol H c' = false -> Anc H a b) ->
  exists j vals s,
    run_cmds H fuel (mixed_prog_p cas r) 0 [] (empty_store [])
      = (Some (ESubtypeMismatch, 2 * j + 2), vals, s) /\
    j < length cas /\
    (forall c a c' b, In (c, a) (firstn j cas) -> In (c', b) (firstn j cas) ->
       pol H c = true -> pol H c' = false -> Anc H a b) /\
    ~ (forall c a c' b, In (c, a) (firstn (S j) cas) -> In (c', b) (firstn (S j) cas) ->
         pol H c = true -> pol H c' = false -> Anc H a b).
Proof. exact mixed_fail_stmt. Qed.
Print Assumptions C05_mixed_fail.

(* ---------- (ii) bounds, binding and result on success ---------- *)

Theorem C05_mixed_success : forall H, wf_hier H ->
  forall (cas : list (octx * nat)) (r : octx) (d fuel : nat) (lo up : option nat),
  wf_octx H r -> octx_depth r + octx_sib r <= d ->
  (forall c a, In (c, a) cas ->
     wf_octx H c /\ octx_depth c + octx_sib c <= d /\
     variance H a = [] /\ a <> Top /\ a <> Bottom) ->
  (forall c a c' b, In (c, a) cas -> In (c', b) cas -> Anc H a b \/ Anc H b a) ->
  cas <> [] ->
  match lo with
  | Some L => (exists c, In (c, L) cas /\ pol H c = true) /\
              (forall c a, In (c, a) cas -> pol H c = true -> Anc H a L)
  | None => forall c a, In (c, a) cas -> pol H c = false
  end ->
  match up with
  | Some U => (exists c, In (c, U) cas /\ pol H c = false) /\
              (forall c a, In (c, a) cas -> pol H c = false -> Anc H U a)
  | None => forall c a, In (c, a) cas -> pol H c = true
  end ->
  (forall L U, lo = Some L -> up = Some U -> Anc H L U) ->
  d + length cas + 3 <= fuel ->
  exists vals s,
    run_cmds H fuel (mixed_prog_p cas r) 0 [] (empty_store []) = (None, vals, s) /\
    let fb := if top_fun r
              then match lo, up with
                   | Some l, Some u => if Nat.eqb l u then Some l else None
                   | _, _ => None
                   end
              else if pol H r then lo else up in
    cell_of s 0 = mkCell false (match fb with Some m => Some (O m []) | None => None end) lo up 0 /\
    zonk s (last vals (V 0)) = tplug r (match fb with Some m => O m [] | None => V 0 end).
Proof. exact mixed_success_stmt. Qed.
Print Assumptions C05_mixed_success.

(* ---------- (iii) order independence ---------- *)

Theorem C05_mixed_perm : forall H, wf_hier H ->
  forall (cas cas' : list (octx * nat)) (r : octx) (d fuel : nat),
  wf_octx H r -> octx_depth r + octx_sib r <= d ->
  (forall c a, In (c, a) cas ->
     wf_octx H c /\ octx_depth c + octx_sib c <= d /\
     variance H a = [] /\ a <> Top /\ a <> Bottom) ->
  (forall c a c' b, In (c, a) cas -> In (c', b) cas -> Anc H a b \/ Anc H b a) ->
  cas <> [] ->
  d + length cas + 3 <= fuel ->
  Permutation cas cas' ->
  (exists vals s vals' s',
     run_cmds H fuel (mixed_prog_p cas r) 0 [] (empty_store []) = (None, vals, s) /\
     run_cmds H fuel (mixed_prog_p cas' r) 0 [] (empty_store []) = (None, vals', s') /\
     cell_of s 0 = cell_of s' 0 /\
     zonk s (last vals (V 0)) = zonk s' (last vals' (V 0))) \/
  (exists j j' vals s vals' s',
     run_cmds H fuel (mixed_prog_p cas r) 0 [] (empty_store [])
       = (Some (ESubtypeMismatch, 2 * j + 2), vals, s) /\
     run_cmds H fuel (mixed_prog_p cas' r) 0 [] (empty_store [])
       = (Some (ESubtypeMismatch, 2 * j' + 2), vals', s')).
Proof. exact mixed_perm_stmt. Qed.
Print Assumptions C05_mixed_perm.

(* ---------- specialising arguments ---------- *)

Theorem C05_mixed_mono : forall H, wf_hier H ->
  forall (cas cas' : list (octx * nat)) (r : octx) (d fuel : nat),
  wf_octx H r -> octx_depth r + octx_sib r <= d ->
  (forall c a, In (c, a) cas ->
     wf_octx H c /\ octx_depth c + octx_sib c <= d /\
     variance H a = [] /\ a <> Top /\ a <> Bottom) ->
  (forall c a c' b, In (c, a) cas -> In (c', b) cas -> Anc H a b \/ Anc H b a) ->
  (forall c a, In (c, a) cas' ->
     wf_octx H c /\ octx_depth c + octx_sib c <= d /\
     variance H a = [] /\ a <> Top /\ a <> Bottom) ->
  (forall c a c' b, In (c, a) cas' -> In (c', b) cas' -> Anc H a b \/ Anc H b a) ->
  cas <> [] ->
  d + length cas + 3 <= fuel ->
  Forall2 (fun ca' ca => fst ca' = fst ca /\
             if pol H (fst ca) then Anc H (snd ca') (snd ca) else Anc H (snd ca) (snd ca'))
          cas' cas ->
  forall vals s,
  run_cmds H fuel (mixed_prog_p cas r) 0 [] (empty_store []) = (None, vals, s) ->
  exists vals' s',
    run_cmds H fuel (mixed_prog_p cas' r) 0 [] (empty_store []) = (None, vals', s') /\
    (forall L, c_lower (cell_of s 0) = Some L ->
       exists L', c_lower (cell_of s' 0) = Some L' /\ Anc H L' L) /\
    (forall U, c_upper (cell_of s 0) = Some U ->
       exists U', c_upper (cell_of s' 0) = Some U' /\ Anc H U U') /\
    (top_fun r = false -> forall M, c_bound (cell_of s 0) = Some (O M []) ->
       exists M', c_bound (cell_of s' 0) = Some (O M' []) /\
                  (if pol H r then Anc H M' M else Anc H M M') /\
                  zonk s (last vals (V 0)) = tplug r (O M []) /\
                  zonk s' (last vals' (V 0)) = tplug r (O M' [])).
Proof. exact mixed_mono_stmt. Qed.
Print Assumptions C05_mixed_mono.

(* ---------- non-vacuity ---------- *)

(* A(5) > A1(6) > A2(7), R(8) an unrelated base type, F(9) and K(10) unary covariant *)
Definition mxH : hier := mk_hier [(6,5); (7,6)] [(9, [true]); (10, [true])].
Example mxH_wf : wf_hier mxH.
Proof.
  split.
  - intros o p. cbn. repeat (destruct o as [|o]; try discriminate; cbn); intros [= <-]; auto with arith.
  - intros o p. cbn. repeat (destruct o as [|o]; try discriminate; cbn); intros [= <-]; cbn; repeat split; discriminate.
  - split; reflexivity.
  - split; reflexivity.
  - reflexivity.
Qed.

Definition tR := TOp 8 [].
Definition cId : octx := Hole.                          (* x          covariant     *)
Definition cArg : octx := Node Function [] Hole [tR].   (* x ** R     contravariant *)
Definition cF : octx := Node 9 [] Hole [].              (* F(x)       covariant     *)
Definition rK : octx := Node 10 [] (Node Function [] Hole [tR]) [].   (* K(x ** R), contravariant *)

Example mx_pol : pol mxH cId = true /\ pol mxH cArg = false /\ pol mxH cF = true /\
                 pol mxH rK = false /\ top_fun rK = false /\ top_fun cArg = true.
Proof. repeat split. Qed.

(* x ** (x ** R) ** F(x) ** x   applied to   A1, A ** R, F(A2) *)
Definition mx_cas : list (octx * nat) := [(cId, 6); (cArg, 5); (cF, 7)].

Example mx_prog : mixed_prog [cId; cArg; cF] Hole [6; 5; 7] =
  [CInst (mkSchema 1 (SOp Function [SVar 0;
            SOp Function [SOp Function [SVar 0; SOp 8 []];
            SOp Function [SOp 9 [SVar 0]; SVar 0]]]) []);
   CInst (mkSchema 0 (SOp 6 []) []); CApply 0 1 true;
   CInst (mkSchema 0 (SOp Function [SOp 5 []; SOp 8 []]) []); CApply 2 3 true;
   CInst (mkSchema 0 (SOp 9 [SOp 7 []]) []); CApply 4 5 true].
Proof. reflexivity. Qed.

Lemma mxAnc65 : Anc mxH 6 5. Proof. econstructor; [reflexivity|constructor]. Qed.
Lemma mxAnc76 : Anc mxH 7 6. Proof. econstructor; [reflexivity|constructor]. Qed.
Lemma mxAnc75 : Anc mxH 7 5. Proof. econstructor; [reflexivity|apply mxAnc65]. Qed.

(* the hypotheses of C05_mixed_success hold for this instance with d = 2,
   lo = Some A1 (greatest of A1, A2), up = Some A *)
Example mx_hyps :
  (forall c a, In (c, a) mx_cas ->
     wf_octx mxH c /\ octx_depth c + octx_sib c <= 2 /\
     variance mxH a = [] /\ a <> Top /\ a <> Bottom) /\
  (forall c a c' b, In (c, a) mx_cas -> In (c', b) mx_cas -> Anc mxH a b \/ Anc mxH b a) /\
  ((exists c, In (c, 6) mx_cas /\ pol mxH c = true) /\
   (forall c a, In (c, a) mx_cas -> pol mxH c = true -> Anc mxH a 6)) /\
  ((exists c, In (c, 5) mx_cas /\ pol mxH c = false) /\
   (forall c a, In (c, a) mx_cas -> pol mxH c = false -> Anc mxH 5 a)) /\
  Anc mxH 6 5.
Proof.
  split; [|split; [|split; [|split]]].
  - intros c a Hin. cbn in Hin.
    destruct Hin as [[= <- <-]|[[= <- <-]|[[= <- <-]|[]]]]; cbn;
      repeat (split || constructor); try lia; discriminate.
  - intros c a c' b Ha Hb. cbn in Ha, Hb.
    destruct Ha as [[= <- <-]|[[= <- <-]|[[= <- <-]|[]]]];
      destruct Hb as [[= <- <-]|[[= <- <-]|[[= <- <-]|[]]]];
      auto using anc_refl, mxAnc65, mxAnc76, mxAnc75.
  - split; [exists cId; cbn; auto|].
    intros c a Hin. cbn in Hin.
    destruct Hin as [[= <- <-]|[[= <- <-]|[[= <- <-]|[]]]]; cbn; intros Hp;
      try discriminate; auto using anc_refl, mxAnc76.
  - split; [exists cArg; cbn; auto|].
    intros c a Hin. cbn in Hin.
    destruct Hin as [[= <- <-]|[[= <- <-]|[[= <- <-]|[]]]]; cbn; intros Hp;
      try discriminate; auto using anc_refl.
  - apply mxAnc65.
Qed.

Definition mx_obs (r : option (err * nat) * list tyv * store) :=
  let '(e, vals, s) := r in (e, zonk s (last vals (V 0)), cell_of s 0).

(* accepted, result A1; at the fuel bound of the theorems: d + n + 3 = 2 + 3 + 3 *)
Example mx_run_ok :
  mx_obs (run_cmds mxH 8 (mixed_prog [cId; cArg; cF] Hole [6; 5; 7]) 0 [] (empty_store []))
  = (None, O 6 [], mkCell false (Some (O 6 [])) (Some 6) (Some 5) 0).
Proof. vm_compute. reflexivity. Qed.

(* a permutation of it: the same cell, the same result *)
Example mx_run_perm :
  mx_obs (run_cmds mxH 8 (mixed_prog [cF; cArg; cId] Hole [7; 5; 6]) 0 [] (empty_store []))
  = (None, O 6 [], mkCell false (Some (O 6 [])) (Some 6) (Some 5) 0) /\
  mx_obs (run_cmds mxH 8 (mixed_prog [cArg; cF; cId] Hole [5; 7; 6]) 0 [] (empty_store []))
  = (None, O 6 [], mkCell false (Some (O 6 [])) (Some 6) (Some 5) 0).
Proof. split; vm_compute; reflexivity. Qed.

(* crossing bounds: A, A1 ** R, F(A2)  --  L = A is not below U = A1: rejected at the
   second application (command 4); in another order at the third (command 6) *)
Example mx_run_cross :
  fst (fst (run_cmds mxH 8 (mixed_prog [cId; cArg; cF] Hole [5; 6; 7]) 0 [] (empty_store [])))
  = Some (ESubtypeMismatch, 4) /\
  fst (fst (run_cmds mxH 8 (mixed_prog [cArg; cF; cId] Hole [6; 7; 5]) 0 [] (empty_store [])))
  = Some (ESubtypeMismatch, 6).
Proof. split; vm_compute; reflexivity. Qed.

(* result context K(x ** R) (contravariant hole): fix picks the upper bound A,
   the result denotes K(A ** R) *)
Example mx_run_K :
  (let '(e, vals, s) :=
     run_cmds mxH 8 (mixed_prog [cId; cArg; cF] rK [6; 5; 7]) 0 [] (empty_store []) in
   (e, last vals (V 0), zonk s (last vals (V 0)), cell_of s 0))
  = (None, O 10 [O Function [V 0; O 8 []]], O 10 [O Function [O 5 []; O 8 []]],
     mkCell false (Some (O 5 [])) (Some 6) (Some 5) 0).
Proof. vm_compute. reflexivity. Qed.

(* corner cases: contravariant result with only covariant arguments: x stays
   open with its lower bound; bounds that meet resolve x; a function-typed
   result x ** R is not fixed *)
Example mx_run_corner :
  mx_obs (run_cmds mxH 8 (mixed_prog [cF; cId] rK [6; 7]) 0 [] (empty_store []))
  = (None, O 10 [O Function [V 0; O 8 []]], mkCell false None (Some 6) None 0) /\
  mx_obs (run_cmds mxH 8 (mixed_prog [cF; cArg] rK [6; 6]) 0 [] (empty_store []))
  = (None, O 10 [O Function [O 6 []; O 8 []]], mkCell false (Some (O 6 [])) (Some 6) (Some 6) 0) /\
  mx_obs (run_cmds mxH 8 (mixed_prog [cF; cArg] cArg [6; 5]) 0 [] (empty_store []))
  = (None, O Function [V 0; O 8 []], mkCell false None (Some 6) (Some 5) 0).
Proof. repeat split; vm_compute; reflexivity. Qed.

(* the program of props/C05_ctx.v is an instance *)
Example mx_instance :
  mixed_prog [cArg; cArg; cArg] Hole [6; 7; 5] = chain_prog_o cArg [6; 7; 5].
Proof. reflexivity. Qed.
