(* C12 (extension)  Workflows in which a tool simply hands one of its inputs on.

   props/C12.v (C12_plugged) speaks about the class [wf_okb]: every tool expression is an
   operator application or a single anonymous source.  The model Graph/Workflow.v also
   covers tools whose whole expression is a numbered input ([TIn k] at the top: the
   expression text `1`, `2 : T`, ...).  parse_expr then returns the input expression object
   itself (lang.py:306-311), so the tool's output resource is mapped to the SAME concept
   node as that object and the returned resource -> node dict is no longer injective.

   Model      Graph/Workflow.v          add_workflow with pinned = false: graph.py as repaired
                                        (commits 5e78fd2, 1f88f3e): right after the target every
                                        resource goes through wfnode2tfmnode, so the inputs a
                                        hand-on tool declares but does not hand on are visited
                                        before the stand-in sources are connected and before the
                                        dict is built
   Spec       Graph/WorkflowHandOn.v    wf_okb2  = wf_okb with [ttop2] (also TIn at the top),
                                        hand_on wf pt r = Some q: r is the output of a tool
                                          that hands input q on and q's own expression object
                                          is what the parser gets (passthrough on, or q is a
                                          workflow source),
                                        hroot wf pt r r0: r0 is the start of the chain of
                                          such hand-on steps that ends in r
              Graph/WorkflowSpec.v      tshape, feed, rho (as for C12_plugged)
   Proofs     Graph/WorkflowHandOn.v
   Property theorems only; each is closed by [exact] of a library lemma. *)
From Coq Require Import List Arith Bool.
Import ListNotations.
From TF Require Import Graph.AddExpr Graph.AddExprSpec Graph.AddExprProofs.
From TF Require Import Graph.Workflow Graph.WorkflowSpec Graph.WorkflowProofs Graph.WorkflowHandOn.

(* the new class contains the old one *)
Theorem C12_handon_class : forall wf, wf_okb wf = true -> wf_okb2 wf = true.
Proof. exact wf_okb_okb2. Qed.
Print Assumptions C12_handon_class.

(* For every well-formed workflow, hand-on tools allowed (any number of applications, any
   sharing, any listing order, passthrough on or off) add_workflow succeeds and every
   clause of C12_plugged holds, with "different resources have different nodes" replaced by
   - two resources have the same node EXACTLY when they are at the end of hand-on chains
     with the same start (hroot);
   - the output r of a tool that hands its input q on has the node of q when passthrough
     is on or q is a workflow source; otherwise (passthrough off, q produced by a tool) it
     has a source node of its own (the node of the stand-in Source object made for that
     input), which is fed (tf:from) by q's node;
   - an input that a hand-on tool declares but does not hand on is a resource like any
     other: it has its node and T has its tree, plugged as usual (it is visited, at the
     latest, in the pass over all resources that follows the target);
   - T gives every resource its tree as before; the tree of a hand-on tool is the leaf
     that feeds it (tshape's ts_in at the top), which introduces no node and no triple. *)
Theorem C12_handon_plugged : forall add_from add_from_r,
  add_from_ok add_from -> add_from_ok add_from_r ->
  forall pt wf, wf_okb2 wf = true ->
  exists res T sg tg,
    add_workflow add_from add_from_r false pt wf = Some res /\
    target wf = Some tg /\
    (forall r, In r (map fst (r_map res)) <-> In r (w_srcs wf) \/ In r (outs wf)) /\
    NoDup (map fst (r_map res)) /\
    (forall r r', In r (w_srcs wf) \/ In r (outs wf) -> In r' (w_srcs wf) \/ In r' (outs wf) ->
       (rho res r = rho res r' <-> exists r0, hroot wf pt r r0 /\ hroot wf pt r' r0)) /\
    (forall a k q, In a (w_apps wf) -> a_tx a = TIn k -> nth_error (a_ins a) k = Some q ->
       if pt || memb q (w_srcs wf)
       then rho res (a_out a) = rho res q /\ (exists n, rho res q = Some n)
       else exists sn rn, rho res (a_out a) = Some sn /\ sg (nth k (a_ind a) 0) = Some sn /\
                          rho res q = Some rn /\ In (sn, p_from, rn) (r_tr res)) /\
    (forall r, In r (map fst T) <-> In r (w_srcs wf) \/ In r (outs wf)) /\
    NoDup (map fst T) /\
    (forall r L, In (r, L) T -> rho res r = Some (lnode L)) /\
    (forall s L, In (s, L) T -> In s (w_srcs wf) -> exists n, L = LLeaf n) /\
    (forall a L, In a (w_apps wf) -> In (a_out a, L) T ->
       tshape (feed wf pt res sg a) sg (a_tx a) L) /\
    NoDup (namesT T) /\
    (forall i n, sg i = Some n -> ~ In n (namesT T)) /\
    (forall s, In s (w_srcs wf) -> sg s = rho res s) /\
    (forall t, vis t ->
       (In t (r_tr res) <-> In t (flowT T) \/
          (pt = false /\ exists a k q sn rn, In a (w_apps wf) /\ nth_error (a_ins a) k = Some q /\
             ~ In q (w_srcs wf) /\ sg (nth k (a_ind a) 0) = Some sn /\ rho res q = Some rn /\
             t = (sn, p_from, rn)))) /\
    Forall2 (fun s n => rho res s = Some n) (w_srcs wf) (r_inputs res) /\
    rho res tg = Some (r_output res).
Proof. exact add_workflow_handon. Qed.
Print Assumptions C12_handon_plugged.

(* reading the sharing clause: resources that are not handed on (hand_on = None; in
   particular every source and every output of an operator application) have pairwise
   different nodes ... *)
Theorem C12_handon_roots_distinct : forall wf pt r r',
  hand_on wf pt r = None -> hand_on wf pt r' = None ->
  (exists r0, hroot wf pt r r0 /\ hroot wf pt r' r0) -> r = r'.
Proof. exact hroot_roots_eq. Qed.
Print Assumptions C12_handon_roots_distinct.

(* ... and in the class of C12_plugged nothing is handed on, so that the clause is
   C12_plugged's injectivity there *)
Theorem C12_handon_none_in_old_class : forall wf pt,
  wf_okb wf = true -> forall r, hand_on wf pt r = None.
Proof. exact wf_okb_no_hand_on. Qed.
Print Assumptions C12_handon_none_in_old_class.

(* As pinned (pinned = true: before commits 5e78fd2, 1f88f3e) the property fails in this class.
   (1) passthrough on: a hand-on tool with a second input that is another tool's output (which
   its expression does not use).  sources {s0}; r1 := `f 1` [s0]; r2 := `g 1` [s0];
   r3 := `1` [r1, r2]; r4 := `h 1 2` [r1, r3].  The unused input r2 is never visited because
   r3's expression object (that of r1) already has a node when r3 is visited: the dict
   comprehension graph.py:506-507 raises KeyError (confirmed on the implementation); the
   faithful model returns None.  As repaired add_workflow succeeds for both settings. *)
Theorem C12_handon_unused_input_pinned_refuted :
  exists wf, wf_okb2 wf = true /\
    add_workflow add_from_plain add_from_plain true true wf = None /\
    (forall pt, exists res, add_workflow add_from_plain add_from_plain false pt wf = Some res).
Proof. exact handon_unused_pinned_fails. Qed.
Print Assumptions C12_handon_unused_input_pinned_refuted.

(* (2) passthrough off: r3 := `1` [s0, r2] hands the SOURCE s0 on and declares the tool output
   r2.  The indirection loop (graph.py:487-490) looks the node of r2's expression up before r2
   has been visited: KeyError (confirmed on the implementation at 5e78fd2, where only the dict
   had been repaired); the model returns None. *)
Theorem C12_handon_src_unused_input_pinned_refuted :
  exists wf, wf_okb2 wf = true /\
    add_workflow add_from_plain add_from_plain true false wf = None /\
    (forall pt, exists res, add_workflow add_from_plain add_from_plain false pt wf = Some res).
Proof. exact handon_src_unused_pinned_fails. Qed.
Print Assumptions C12_handon_src_unused_input_pinned_refuted.

(* ------------------------------------------------------------------------ *)
(* Non-vacuity: a hand-on tool in the middle of a chain
     source 0;   1 := f 1 on [0];   2 := `1` on [1]  (hands resource 1 on);   3 := g 1 on [2]
   listed out of order *)
Definition ho_a1 : tapp := mkApp 1 (TApp 11 (TOp 10 0) (TIn 0) false) [0] [12].
Definition ho_a2 : tapp := mkApp 2 (TIn 0) [1] [22].
Definition ho_a3 : tapp := mkApp 3 (TApp 31 (TOp 30 1) (TIn 0) false) [2] [32].
Definition ho_wf : wflow := mkWf [0] [ho_a3; ho_a1; ho_a2].

Example C12_handon_ex_wf :
  wf_okb2 ho_wf = true /\ wf_okb ho_wf = false /\ target ho_wf = Some 3.
Proof. repeat split; reflexivity. Qed.

(* passthrough on: resources 1 and 2 share node 1; g's node 3 is fed by it *)
Example C12_handon_ex_run :
  add_workflow add_from_plain add_from_plain false true ho_wf =
  Some (mkRes [(3, p_from, 1); (3, p_via, 1); (1, p_from, 0); (1, p_via, 0)]
              [0] 3 [(0, 0); (1, 1); (2, 1); (3, 3)]).
Proof. vm_compute. reflexivity. Qed.

Example C12_handon_ex_chain : hroot ho_wf true 2 1 /\ hroot ho_wf true 1 1 /\ hroot ho_wf false 2 2.
Proof.
  split; [|split].
  - apply (hr_step ho_wf true 2 1 1); [reflexivity|]. apply hr_self. reflexivity.
  - apply hr_self. reflexivity.
  - apply hr_self. reflexivity.
Qed.

(* passthrough off: resource 2 is the stand-in source node 3, fed by node 1 of resource 1;
   g's input is the stand-in source node 5, fed by node 3 *)
Example C12_handon_ex_run_nopass :
  add_workflow add_from_plain add_from_plain false false ho_wf =
  Some (mkRes [(5, p_from, 3); (3, p_from, 1); (4, p_from, 5); (4, p_via, 1);
               (1, p_from, 0); (1, p_via, 0)]
              [0] 4 [(0, 0); (1, 1); (2, 3); (3, 4)]).
Proof. vm_compute. reflexivity. Qed.

(* a workflow source handed on keeps its node also with passthrough off *)
Example C12_handon_ex_source :
  let wf := mkWf [0] [mkApp 1 (TIn 0) [0] [12]; mkApp 2 (TApp 21 (TOp 20 1) (TIn 0) false) [1] [22]] in
  wf_okb2 wf = true /\
  add_workflow add_from_plain add_from_plain false false wf =
  Some (mkRes [(2, p_from, 0); (1, p_from, 2); (1, p_via, 1)] [0] 1 [(0, 0); (1, 0); (2, 1)]).
Proof. cbv zeta. repeat split; vm_compute; reflexivity. Qed.

(* the theorem applied to the example, both passthrough settings *)
Example C12_handon_ex_apply : forall pt,
  exists res, add_workflow add_from_plain add_from_plain false pt ho_wf = Some res /\
    (rho res 2 = rho res 1 <-> exists r0, hroot ho_wf pt 2 r0 /\ hroot ho_wf pt 1 r0) /\
    (if pt then rho res 2 = rho res 1
     else exists sn rn, rho res 2 = Some sn /\ rho res 1 = Some rn /\ In (sn, p_from, rn) (r_tr res)).
Proof.
  intros pt.
  destruct (C12_handon_plugged add_from_plain add_from_plain add_from_plain_ok add_from_plain_ok
              pt ho_wf eq_refl)
    as [res [T [sg [tg [Hrun [_ [_ [_ [Hshare [Hhand _]]]]]]]]]].
  exists res. split; [exact Hrun|]. split.
  - apply Hshare; cbn; auto.
  - specialize (Hhand ho_a2 0 1). cbn in Hhand.
    assert (H := Hhand (or_intror (or_intror (or_introl eq_refl))) eq_refl eq_refl).
    destruct pt; cbn in H.
    + apply H.
    + destruct H as [sn [rn [A [_ [B D]]]]]. exists sn, rn. auto.
Qed.

(* a hand-on tool with an unused tool-produced input, passthrough on:
     source 0;  1 := f 1 on [0];  2 := g 1 on [0];  3 := `1` on [1; 2];  4 := h 1 2 on [1; 3]
   resource 2 is visited in the pass over all resources: node 6 with its tree g(source) *)
Example C12_handon_ex_unused :
  wf_okb2 unused_wf = true /\
  add_workflow add_from_plain add_from_plain false true unused_wf =
  Some (mkRes [(6, p_from, 0); (6, p_via, 1); (3, p_from, 1); (3, p_from, 1); (3, p_via, 2);
               (1, p_from, 0); (1, p_via, 0)]
              [0] 3 [(0, 0); (1, 1); (2, 6); (3, 1); (4, 3)]).
Proof. repeat split; vm_compute; reflexivity. Qed.

Example C12_handon_ex_unused_apply :
  let a2 := mkApp 2 (TApp 21 (TOp 20 1) (TIn 0) false) [0] [22] in
  exists res T sg, add_workflow add_from_plain add_from_plain false true unused_wf = Some res /\
    (exists L, In (2, L) T /\ rho res 2 = Some (lnode L) /\
               tshape (feed unused_wf true res sg a2) sg (a_tx a2) L) /\
    (forall t, vis t -> (In t (r_tr res) <-> In t (flowT T))).
Proof.
  intros a2.
  destruct (C12_handon_plugged add_from_plain add_from_plain add_from_plain_ok add_from_plain_ok
              true unused_wf eq_refl)
    as [res [T [sg [tg [Hrun [_ [_ [_ [_ [_ [HdT [_ [Hrho [_ [Hts [_ [_ [_ [Hg _]]]]]]]]]]]]]]]]]]].
  exists res, T, sg. split; [exact Hrun|]. split.
  - assert (H2 : In 2 (map fst T)) by (apply HdT; right; cbn; auto).
    apply in_map_iff in H2. destruct H2 as [[r L] [E HT]]. cbn in E. subst r.
    exists L. split; [exact HT|]. split; [apply Hrho, HT|].
    apply (Hts a2 L); [cbn; auto | exact HT].
  - intros t Hv. rewrite (Hg t Hv). split; [intros [H | [H _]]; [exact H | discriminate H] | auto].
Qed.

(* the same with passthrough off and a SOURCE handed on (the second witness):
     source 0;  1 := f 1 on [0];  2 := g 1 on [0];  3 := `1` on [0; 2];  4 := h 1 2 on [1; 3]
   resource 3 shares node 0 with the source; resource 2 has node 6 and its tree; the stand-in
   source 8 of tool 3's unused input is fed by node 6 *)
Example C12_handon_ex_src_unused :
  wf_okb2 src_unused_wf = true /\
  add_workflow add_from_plain add_from_plain false false src_unused_wf =
  Some (mkRes [(5, p_from, 0); (4, p_from, 1); (8, p_from, 6); (6, p_from, 0); (6, p_via, 1);
               (3, p_from, 5); (3, p_from, 4); (3, p_via, 2); (1, p_from, 0); (1, p_via, 0)]
              [0] 3 [(0, 0); (1, 1); (2, 6); (3, 0); (4, 3)]).
Proof. split; vm_compute; reflexivity. Qed.
