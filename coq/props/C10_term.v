(* C10 (termination)  Language.expand_canon always completes, with an explicit
   bound on the number of loop iterations; hence the C10 theorems about "every
   completed run" hold for every run given that much fuel.
   Property theorems only; each is closed by [exact] of a library lemma from
   Canon/Terminate.v.

   Model: Canon/Worklist.v ([wl], the loop `while stack: pop; add; push unseen
   successors`), Canon/Canon.v ([expand_canon], [can_step] = successors UP
   without custom types ++ successors DOWN), Canon/Succ.v.
   [universe H ops listed]: Top(), Bottom(), every leaf TOp q [] with q a
   language operator or a declared parent of one, and every type obtained from a
   listed type by replacing sub-terms by such leaves / Top() / Bottom() while
   keeping the compound skeleton above them.
   [canon_fuel] = |stack0| + sum over the universe of the number of successors
   the two generators yield; [canon_fuel_closed] bounds it by a closed formula.
   Hypothesis [forall o p, parent H o = Some p -> In o ops] (every operator with a
   declared parent belongs to the language) is the one used throughout C10;
   well-formedness of the hierarchy is NOT needed for termination. *)
From Coq Require Import List Arith Bool.
Import ListNotations.
From TF Require Import Base.Hier Base.Ty Sub.Match Sub.SubSpec Sub.SubProofs.
From TF Require Import Canon.Worklist Canon.Succ Canon.Canon Canon.SuccProofs Canon.CanonProofs.
From TF Require Import Det.Perm Det.CanonSched Canon.Terminate.

(* ---- the generic loop ---- *)

(* a LIFO closure loop whose pushes are unseen successors, at most [w x] per pop
   of x, over a finite [step]-closed list U, completes within
   |stack0| + sum_{u in U} w u iterations, whatever the initial seen-set *)
Theorem C10_worklist_terminates : forall (A : Type) (eqb : A -> A -> bool),
  (forall a b, eqb a b = true <-> a = b) ->
  forall (step : A -> list A) (push : A -> list A -> list A),
  (forall x seen y, In y (push x seen) -> In y (step x)) ->
  (forall x seen y, In y (step x) -> In y (push x seen) \/ In y seen) ->
  (forall x seen y, In y (push x seen) -> ~ In y seen) ->
  forall w : A -> nat, (forall x seen, length (push x seen) <= w x) ->
  forall U : list A, (forall x, In x U -> forall y, In y (step x) -> In y U) ->
  forall fuel stack0 seen0, (forall x, In x stack0 -> In x U) ->
  length stack0 + list_sum (map w U) <= fuel ->
  exists r, wl eqb push fuel stack0 seen0 = Some r.
Proof. exact (@wl_terminates). Qed.
Print Assumptions C10_worklist_terminates.

(* ---- the finite universe ---- *)

Theorem C10_universe_listed : forall H ops listed t,
  In t listed -> In t (universe H ops listed).
Proof. exact universe_listed. Qed.
Print Assumptions C10_universe_listed.

(* closed under both one-step enumerations of expand_canon *)
Theorem C10_universe_closed : forall H ops,
  (forall o p, parent H o = Some p -> In o ops) ->
  forall top bot listed x, In x (universe H ops listed) ->
  forall y, In y (can_step H ops top bot x) -> In y (universe H ops listed).
Proof. exact universe_closed. Qed.
Print Assumptions C10_universe_closed.

(* in fact under TypeOperation.successors in either direction, with or without
   custom types (no universe argument), type by type *)
Theorem C10_variants_closed : forall H ops,
  (forall o p, parent H o = Some p -> In o ops) ->
  forall top bot t t', In t' (variants H ops t) ->
  forall custom d s, In s (succ H ops custom top bot [] d t') -> In s (variants H ops t).
Proof. exact variants_closed. Qed.
Print Assumptions C10_variants_closed.

(* cardinality: at most (2|ops|+3)^(number of nodes of t) per listed type t *)
Theorem C10_universe_card : forall H ops listed,
  length (universe H ops listed) <=
  list_sum (map (fun t => (2 * length ops + 3) ^ ty_size t) listed).
Proof. exact universe_card. Qed.
Print Assumptions C10_universe_card.

(* ---- termination ---- *)

(* the code's own discipline (DOWN successors on top of UP successors, popped
   from the end), any initial stack made of listed types *)
Theorem C10_expand_canon_terminates : forall H ops,
  (forall o p, parent H o = Some p -> In o ops) ->
  forall top bot listed stack0 fuel,
  (forall x, In x stack0 -> In x listed) ->
  canon_fuel H ops top bot stack0 listed <= fuel ->
  exists c, expand_canon H ops top bot fuel stack0 listed = Some c.
Proof. exact expand_canon_terminates. Qed.
Print Assumptions C10_expand_canon_terminates.

(* every schedule of Det/CanonSched.v (any order of the pushed successors) that
   pushes at most as many elements as the generators yield *)
Theorem C10_expand_canon_terminates_any_schedule : forall H ops,
  (forall o p, parent H o = Some p -> In o ops) ->
  forall top bot push listed stack0 fuel,
  push_ok H top bot ops push ->
  (forall x seen, length (push x seen) <= length (can_step H ops top bot x)) ->
  (forall x, In x stack0 -> In x listed) ->
  canon_fuel H ops top bot stack0 listed <= fuel ->
  exists c, expand_canon_s push fuel stack0 listed = Some c.
Proof. exact expand_canon_s_terminates. Qed.
Print Assumptions C10_expand_canon_terminates_any_schedule.

(* the fuel in closed form: it depends only on the number of operators, the
   sizes of the listed types and the length of the initial stack *)
Theorem C10_canon_fuel_closed_form : forall H ops top bot stack0 listed,
  canon_fuel H ops top bot stack0 listed <=
  length stack0 +
  list_sum (map (fun t => (2 * length ops + 3) ^ ty_size t) listed) *
  (2 * list_max (map ty_size listed) * S (length ops)).
Proof. exact canon_fuel_le_closed. Qed.
Print Assumptions C10_canon_fuel_closed_form.

Theorem C10_expand_canon_terminates_closed : forall H ops,
  (forall o p, parent H o = Some p -> In o ops) ->
  forall top bot listed stack0 fuel,
  (forall x, In x stack0 -> In x listed) ->
  canon_fuel_closed ops stack0 listed <= fuel ->
  exists c, expand_canon H ops top bot fuel stack0 listed = Some c.
Proof. exact expand_canon_terminates_closed. Qed.
Print Assumptions C10_expand_canon_terminates_closed.

(* ---- the C10 theorems without the `completed run' hypothesis ---- *)

(* given canon_fuel the result exists, is the least set containing the listed
   types and closed under the two steps, lies inside the universe, and (listed
   types pairwise distinct) has no more elements than the universe *)
Theorem C10_total_closure : forall H ops,
  (forall o p, parent H o = Some p -> In o ops) ->
  forall top bot listed fuel stack0,
  (forall x, In x stack0 <-> In x listed) ->
  canon_fuel H ops top bot stack0 listed <= fuel ->
  exists c, expand_canon H ops top bot fuel stack0 listed = Some c /\
    (forall s, In s c <-> Clo (can_step H ops top bot) listed s) /\
    (forall s, In s c -> In s (universe H ops listed)) /\
    (NoDup listed -> NoDup c /\ length c <= length (universe H ops listed)).
Proof. exact expand_canon_total_closure. Qed.
Print Assumptions C10_total_closure.

(* with C10_canon_closure / C10_canon_complete / C10_canon_flags *)
Theorem C10_total : forall H, wf_hier H ->
  forall ops, (forall o p, parent H o = Some p -> In o ops) ->
  forall top bot listed, Forall (wf_ty H) listed -> Forall plain listed ->
  forall fuel stack0, (forall x, In x stack0 <-> In x listed) ->
  canon_fuel H ops top bot stack0 listed <= fuel ->
  exists c, expand_canon H ops top bot fuel stack0 listed = Some c /\
    (forall s, In s c <-> Clo (can_step H ops top bot) listed s) /\
    (forall t s, In t listed -> wf_ty H s -> allowed top bot s -> Sub H s t -> In s c) /\
    (forall s, In s c -> wf_ty H s /\ allowed top bot s).
Proof.
  intros H W ops Wops top bot listed Lw Lp.
  exact (expand_canon_total H ops Wops top bot listed W Lw Lp).
Qed.
Print Assumptions C10_total.

(* ---- non-vacuity: the language of props/C10.v: chain A(5) > B(6) > C(7),
   unrelated D(8), covariant unary F(9), K(10) with variance (co, contra);
   listed = {A, K(F(B), C)}, Top and Bottom requested ---- *)
Definition exH : hier := mk_hier [(6, 5); (7, 6)] [(9, [true]); (10, [true; false])].
Definition exOps : list nat := [5; 6; 7; 8; 9; 10].
Definition exListed : list ty := [TOp 5 []; TOp 10 [TOp 9 [TOp 6 []]; TOp 7 []]].

Example ex_ops : forall o p, parent exH o = Some p -> In o exOps.
Proof.
  intros o p. cbn. repeat (destruct o as [|o]; try discriminate; cbn); intros _; cbn; tauto.
Qed.

(* 252 universe elements, fuel 902 *)
Example ex_fuel : length (universe exH exOps exListed) = 252 /\
  canon_fuel exH exOps true true (rev exListed) exListed = 902.
Proof. split; vm_compute; reflexivity. Qed.

(* the run given exactly canon_fuel completes with the 35 canonical types; fuel
   matters: 47 iterations are not enough, 48 are *)
Example ex_run :
  option_map (@length ty)
    (expand_canon exH exOps true true (canon_fuel exH exOps true true (rev exListed) exListed)
       (rev exListed) exListed) = Some 35 /\
  expand_canon exH exOps true true 47 (rev exListed) exListed = None /\
  option_map (@length ty) (expand_canon exH exOps true true 48 (rev exListed) exListed) = Some 35.
Proof. repeat split; vm_compute; reflexivity. Qed.

(* the universe contains the deep canonical type K(F(Bottom), Top) and the
   collapse K(Top, Bottom); it does not contain types with another skeleton *)
Example ex_universe :
  tmem (TOp 10 [TOp 9 [TOp 1 []]; TOp 0 []]) (universe exH exOps exListed) = true /\
  tmem (TOp 10 [TOp 0 []; TOp 1 []]) (universe exH exOps exListed) = true /\
  tmem (TOp 9 [TOp 10 [TOp 5 []; TOp 5 []]]) (universe exH exOps exListed) = false.
Proof. repeat split; vm_compute; reflexivity. Qed.
