(* C03 (constraints with CONCRETE targets / alternatives of any shape)  Every
   accepted polymorphic application has a witnessing instantiation, and every
   subtype or elimination constraint whose variables were all resolved holds -
   the UNCONDITIONAL statement for the engine model (Infer/Engine.v) on
   programs of CInst / CApply commands whose schemas carry

        x <= T     x < T      SCSub (SVar i) (sconc T) strict
        x << [T1, ..., Tn]    SCElim (SVar i) [sconc T1; ...; sconc Tn]

   with i a schematic variable of the schema and T, T1..Tn ANY well-formed
   concrete (variable-free, wildcard-free) types: base types, F(A), G(A, B),
   function types, nested ones; n >= 0; no distinctness or incomparability
   assumption; any number and mixture of constraints per schema.
   Class [progC H 0 prog] (Infer/SoundElimCS.v; unfolded in C03_conc_class);
   it contains the class progE of C03_elim (C03_conc_progE) and is contained in
   the class progG of C03_gen (C03_conc_progG), so C03_gen_sound / _bounded /
   _extend / _satisfiable apply to it.

   This closes clause (iii) of C03 - "every subtype or elimination constraint
   whose variables were all resolved holds under that replacement" - for
   compound targets / alternatives; C03_elim proved it for base operators only.
   New with respect to C03_elim: the reference of a PENDING constraint may be
   partially resolved (x := F(y)); the attachment invariant therefore speaks
   about every unbound variable REACHABLE from the reference ([reach]), the
   subtype constraint writes variables (skip_basic unification binds
   x := F(fresh)), and "resolved" means FULLY resolved ([grd s t T]: following
   bindings and parameters from t meets no unbound variable; T is the value).

   C03_conc_constraints_hold, for every wf_hier H, fuel, schedule, accepted
   progC program, constraint c of the final store and T with
   [grd s (k_ref (constr_of s c)) T]:
     elimination  there is a DECLARED alternative B (B in [nth c (declsC prog) []],
                  the c-th constraint the program creates: C03_conc_decls) that
                  is still among the current alternatives, with Sub H T B;
     subtype      the target is the declared B, Sub H T B, and T <> B if strict.
   C03_conc_constraints_hold_den: the same under EVERY satisfying grounding
   (den th (k_ref ..) instead of T; C03_conc_resolved_den: they coincide).
   C03_conc_sound: all clauses of C03 together.
   C03_conc_constraints: the whole constraint invariant on the final store
   (shape; fulfilled => one alternative B left and EVERY satisfying grounding
   puts the reference below B - and makes it different from B for a strict
   subtype constraint; pending => ATTACHED to the constraint set of every
   unbound variable reachable from the reference, and a fully resolved
   reference is below every remaining alternative (elimination) / does not
   occur (subtype)).
   Proofs: Infer/ConcMatch.v (concrete types, verdicts of match),
   Infer/SoundElimCS.v (forward soundness, done clauses),
   Infer/SoundElimCK.v (constraint invariant), Infer/SoundElimC.v (assembly).

   Not covered (still missing for full C03): alternatives / targets that mention
   variables or wildcards (there minimize's fix can bind variables and match of
   the reference against an alternative depends on other variables), references
   that are not a bare schematic variable, CUnify / CFix commands. *)
From Coq Require Import List Arith Bool.
Import ListNotations.
From TF Require Import Base.Hier Base.Ty Sub.SubSpec Infer.Store Infer.Engine Infer.Run
  Infer.Witness Infer.Check Infer.Inv Infer.Sound Infer.SchedIndep Infer.SoundSub Infer.Fits
  Infer.ConcMatch Infer.SoundElimCS Infer.SoundElimCK Infer.SoundElimC.
From TF Require Infer.Lub Infer.SoundElimS Infer.SoundGen.

(* ---- clause (iii) ---- *)
Theorem C03_conc_constraints_hold : forall H, wf_hier H ->
  forall fuel sc prog vals s, progC H 0 prog ->
  run_cmds H fuel prog 0 [] (empty_store sc) = (None, vals, s) ->
  forall c, c < length (constrs s) ->
  forall T, grd s (k_ref (constr_of s c)) T ->
  if k_elim (constr_of s c)
  then exists B, In B (nth c (declsC prog) []) /\ In (inj B) (k_alts (constr_of s c)) /\ Sub H T B
  else exists B, In B (nth c (declsC prog) []) /\ k_alts (constr_of s c) = [inj B] /\ Sub H T B /\
                 (k_strict (constr_of s c) = true -> T <> B).
Proof. exact conc_constraints_hold. Qed.
Print Assumptions C03_conc_constraints_hold.

(* [grd s t T]: t is fully resolved in s, T its value *)
Theorem C03_conc_grd_unfold : forall s t T,
  grd s t T <->
  match t with
  | V v => exists t', c_bound (cell_of s v) = Some t' /\ grd s t' T
  | O o args => exists Ts, T = TOp o Ts /\ Forall2 (grd s) args Ts
  end.
Proof.
  intros s t T. split.
  - intros G. inversion G; subst; eauto.
  - destruct t as [v|o args].
    + intros (t' & Hb & G). econstructor; eauto.
    + intros (Ts & -> & F). constructor. exact F.
Qed.

(* under every satisfying grounding a fully resolved term denotes its value; in
   particular two satisfying groundings agree on it *)
Theorem C03_conc_resolved_den : forall H, wf_hier H -> forall s t T, grd s t T ->
  forall th, sat H th s -> den th t = T.
Proof. intros H W. exact (conc_resolved_den H). Qed.

Theorem C03_conc_resolved_agree : forall H, wf_hier H -> forall s t T, grd s t T ->
  forall th th', sat H th s -> sat H th' s -> den th t = den th' t.
Proof.
  intros H W s t T G th th' S S'. rewrite (conc_resolved_den H s t T G th S), (conc_resolved_den H s t T G th' S'). reflexivity.
Qed.

(* clause (iii) under EVERY satisfying grounding *)
Theorem C03_conc_constraints_hold_den : forall H, wf_hier H ->
  forall fuel sc prog vals s, progC H 0 prog ->
  run_cmds H fuel prog 0 [] (empty_store sc) = (None, vals, s) ->
  forall c, c < length (constrs s) ->
  forall T, grd s (k_ref (constr_of s c)) T ->
  forall th, sat H th s ->
  exists B, In B (nth c (declsC prog) []) /\ In (inj B) (k_alts (constr_of s c)) /\
            Sub H (den th (k_ref (constr_of s c))) B /\
            (k_elim (constr_of s c) = false -> k_strict (constr_of s c) = true ->
             den th (k_ref (constr_of s c)) <> B).
Proof. exact conc_constraints_hold_den. Qed.
Print Assumptions C03_conc_constraints_hold_den.

(* ---- all clauses ---- *)
Theorem C03_conc_sound : forall H, wf_hier H ->
  forall fuel sc prog vals s, progC H 0 prog ->
  run_cmds H fuel prog 0 [] (empty_store sc) = (None, vals, s) ->
  (* (i)+(ii) *)
  (forall th, sat H th s -> forall f x r, In (f, x, r) (steps_of prog 0) ->
     (exists a b, den th (val vals f) = TOp Function [a; b] /\
                  Sub H (den th (val vals x)) a /\ den th (val vals r) = b) \/
     (den th (val vals f) = TOp Top [] /\ den th (val vals r) = TOp Top [])) /\
  (* (iii) *)
  (forall c, c < length (constrs s) ->
   forall T, grd s (k_ref (constr_of s c)) T ->
   if k_elim (constr_of s c)
   then exists B, In B (nth c (declsC prog) []) /\ In (inj B) (k_alts (constr_of s c)) /\ Sub H T B
   else exists B, In B (nth c (declsC prog) []) /\ k_alts (constr_of s c) = [inj B] /\ Sub H T B /\
                  (k_strict (constr_of s c) = true -> T <> B)) /\
  (* (iv) *)
  (forall v t o args, c_bound (cell_of s v) = Some t ->
     (c_lower (cell_of s v) <> None \/ c_upper (cell_of s v) <> None) ->
     follow s t = O o args -> args = []).
Proof. exact conc_sound. Qed.
Print Assumptions C03_conc_sound.

(* ---- the program class, unfolded ---- *)
Theorem C03_conc_class : forall H n c,
  cmdC H n c <->
  match c with
  | CInst sc =>
      styg H (s_n sc) (s_body sc) /\
      Forall (fun k =>
        match k with
        | SCSub (SVar i) t _ => i < s_n sc /\ exists B, wf_ty H B /\ t = sconc B
        | SCElim (SVar i) alts => i < s_n sc /\ exists l, Forall (wf_ty H) l /\ alts = map sconc l
        | _ => False
        end) (s_constrs sc)
  | CApply f x _ => f < n /\ x < n
  | _ => False
  end.
Proof.
  intros H n c. split.
  - intros [sc Sb Pc|f x b Lf Lx]; [|auto]. split; [exact Sb|].
    eapply Forall_impl; [|exact Pc]. intros k Pk. destruct k as [r t st|r alts]; exact Pk.
  - destruct c as [sc|f x b|a b sub|a pl]; try tauto.
    + intros (Sb & Pc). constructor; [exact Sb|].
      eapply Forall_impl; [|exact Pc]. intros k Pk. destruct k as [r t st|r alts]; exact Pk.
    + intros (Lf & Lx). constructor; auto.
Qed.
Print Assumptions C03_conc_class.

Theorem C03_conc_prog_unfold : forall H n c r, progC H n (c :: r) <-> cmdC H n c /\ progC H (S n) r.
Proof. intros. reflexivity. Qed.

(* [sconc T]: the concrete type T as a (variable-free) schematic type *)
Theorem C03_conc_sconc_unfold : forall o args, sconc (TOp o args) = SOp o (map sconc args).
Proof. reflexivity. Qed.

(* the class sits between those of C03_elim and C03_gen *)
Theorem C03_conc_progE : forall H n prog, SoundElimS.progE H n prog -> progC H n prog.
Proof. intros H n prog. apply progE_progC. Qed.

Theorem C03_conc_progG : forall H, wf_hier H -> forall n prog, progC H n prog -> SoundGen.progG H n prog.
Proof. intros H W n prog. apply progC_progG. Qed.
Print Assumptions C03_conc_progG.

(* the DECLARED alternatives: [declsC prog] lists, in creation order, the
   concrete types each schema constraint of the program declares; constraint
   number c of the final store was created from entry c (C03_conc_constraints
   gives length (constrs s) = ncons prog = length (declsC prog)) *)
Theorem C03_conc_decls : forall sc r i l b T st,
  declsC (CInst sc :: r) = map declC (s_constrs sc) ++ declsC r /\
  (forall f x fb, declsC (CApply f x fb :: r) = declsC r) /\
  declC (SCElim (SVar i) (map sconc l)) = l /\
  declC (SCSub b (sconc T) st) = [T].
Proof.
  intros. split; [reflexivity|split; [reflexivity|split]].
  - apply map_unconc_sconc.
  - cbn [declC]. rewrite unconc_sconc. reflexivity.
Qed.

Theorem C03_conc_decls_length : forall prog, length (declsC prog) = ncons prog.
Proof. exact declsC_length. Qed.

(* ---- the whole constraint invariant on the final store ---- *)
Theorem C03_conc_constraints : forall H, wf_hier H ->
  forall fuel sc prog vals s, progC H 0 prog ->
  run_cmds H fuel prog 0 [] (empty_store sc) = (None, vals, s) ->
  length (constrs s) = ncons prog /\
  forall c, c < length (constrs s) ->
  let k := constr_of s c in
  tg H (length (vars s)) (k_ref k) /\
  (* shape: concrete alternatives, all among the declared ones *)
  (exists l, k_alts k = map inj l /\ incl l (nth c (declsC prog) []) /\ Forall (wf_ty H) l /\
             (k_elim k = false -> length l = 1)) /\
  (* fulfilled: one alternative left, the reference is below it under every grounding *)
  (k_done k = true ->
     exists B, k_alts k = [inj B] /\
       forall th, sat H th s -> Sub H (den th (k_ref k)) B /\
         (k_elim k = false -> k_strict k = true -> den th (k_ref k) <> B)) /\
  (* pending *)
  (k_done k = false ->
     (forall u, reach s (k_ref k) u -> In c (cset_of s (c_cs (cell_of s u)))) /\
     (forall T, grd s (k_ref k) T ->
        k_elim k = true /\ k_alts k <> [] /\ forall B, In (inj B) (k_alts k) -> Sub H T B)).
Proof. exact conc_constraints. Qed.
Print Assumptions C03_conc_constraints.

(* [reach s t u]: u is an unbound variable met when following bindings and
   parameters from t *)
Theorem C03_conc_reach_unfold : forall s t u,
  reach s t u <->
  match t with
  | V v => (c_bound (cell_of s v) = None /\ u = v) \/
           exists t', c_bound (cell_of s v) = Some t' /\ reach s t' u
  | O o args => exists x, In x args /\ reach s x u
  end.
Proof.
  intros s t u. split.
  - intros R. inversion R; subst; eauto.
  - destruct t as [v|o args].
    + intros [(Hv & ->)|(t' & Hv & R)]; [constructor; exact Hv|econstructor; eauto].
    + intros (x & Hx & R). econstructor; eauto.
Qed.

Theorem C03_conc_satisfiable : forall H, wf_hier H ->
  forall fuel sc prog vals s, progC H 0 prog ->
  run_cmds H fuel prog 0 [] (empty_store sc) = (None, vals, s) ->
  exists th, sat H th s /\
    forall v, c_bound (cell_of s v) = None ->
      th v = match c_lower (cell_of s v), c_upper (cell_of s v) with
             | Some l, _ => TOp l []
             | None, Some u => TOp u []
             | None, None => TOp Top []
             end.
Proof. exact conc_satisfiable. Qed.
Print Assumptions C03_conc_satisfiable.

(* ---- the verdicts of match against a concrete type ---- *)
(* match(a, b, subtype) = True with one side concrete is sound for EVERY
   grounding that satisfies the store *)
Theorem C03_conc_match_true_sound : forall H, wf_hier H -> forall f s th a b,
  sat H th s -> wf_ty H (den th a) -> wf_ty H (den th b) ->
  ((exists A, a = inj A) \/ (exists B, b = inj B)) ->
  match_f H f s true false a b = Ok (Some true) -> Sub H (den th a) (den th b).
Proof. exact match_true_sound. Qed.
Print Assumptions C03_conc_match_true_sound.

(* the strict check of SubtypeConstraint.fulfill *)
Theorem C03_conc_match_strict_sound : forall H, wf_hier H -> forall f s th a b,
  sat H th s -> (forall v, chain s (V v)) ->
  wf_ty H (den th a) -> wf_ty H (den th b) ->
  ((exists A, a = inj A) \/ (exists B, b = inj B)) ->
  match_f H f s true false a b = Ok (Some true) ->
  match_f H f s false false a b = Ok (Some false) -> den th a <> den th b.
Proof. exact match_strict_sound. Qed.
Print Assumptions C03_conc_match_strict_sound.

(* matching two fully resolved types is decided, and a positive verdict in
   subtype mode is sound *)
Theorem C03_conc_match_ground : forall H, wf_hier H -> forall s f sub aw a b Ta Tb r,
  (forall v, chain s (V v)) -> grd s a Ta -> grd s b Tb -> wf_ty H Ta -> wf_ty H Tb ->
  match_f H f s sub aw a b = Ok r ->
  exists bb, r = Some bb /\ (sub = true -> bb = true -> Sub H Ta Tb).
Proof. exact match_ground. Qed.
Print Assumptions C03_conc_match_ground.

(* minimize and the filter loop on concrete alternatives: only the constraint
   object changes, the alternatives shrink *)
Theorem C03_conc_fulfill_form : forall H f c s l b s',
  k_elim (constr_of s c) = true -> k_done (constr_of s c) = false ->
  k_alts (constr_of s c) = map inj l -> c < length (constrs s) ->
  fulfill H (S f) c s = MOk b s' ->
  let k := constr_of s c in
  let r0 := follow s (k_ref k) in
  exists l1 l2, incl l1 l /\ incl l2 l1 /\
    (forall B, In B l2 -> exists x,
       match_f H f (set_constr s c (set_altsC k r0 (map inj l1) false)) true true r0 (inj B) = Ok x /\ x <> Some false) /\
    ((exists m1 m2 rest, l2 = m1 :: m2 :: rest /\
        s' = set_constr s c (set_altsC k r0 (map inj l2) false) /\ b = false) \/
     (exists m u, l2 = [m] /\
        unify H f true false false r0 (inj m) (set_constr s c (set_altsC k r0 [inj m] true)) = MOk u s' /\
        b = k_done (constr_of s' c))).
Proof. exact fulfill_elim_conc. Qed.
Print Assumptions C03_conc_fulfill_form.

(* ---- the invariants, per operation ---- *)
Theorem C03_conc_JC_unfold : forall H s,
  JC H s <->
  Jv H s /\
  (forall c, c < length (constrs s) ->
     tg H (length (vars s)) (k_ref (constr_of s c)) /\
     exists l, k_alts (constr_of s c) = map inj l /\ Forall (wf_ty H) l /\
               (k_elim (constr_of s c) = false -> length l = 1)) /\
  (forall v, chain s (V v)).
Proof. intros H s. reflexivity. Qed.

Theorem C03_conc_goodC_unfold : forall H s R s',
  goodC H s R s' <->
  JC H s' /\ le H s s' /\ fr H s s' /\
  ((cfr s s' /\
    (forall c, k_done (constr_of s' c) = true -> k_done (constr_of s c) = false ->
       exists B, k_alts (constr_of s' c) = [inj B] /\
         forall th, sat H th s' ->
           Sub H (den th (k_ref (constr_of s' c))) B /\
           (k_elim (constr_of s' c) = false -> k_strict (constr_of s' c) = true ->
            den th (k_ref (constr_of s' c)) <> B))) /\
   length (constrs s') = length (constrs s)) /\
  forall th, sat H th s' -> R th.
Proof. intros. reflexivity. Qed.

Theorem C03_conc_K_unfold : forall H D pend s,
  Kc H D pend s <->
  forall c, c < length (constrs s) ->
    let k := constr_of s c in
    (exists l, k_alts k = map inj l /\ incl l (nth c (fst D) []) /\ Forall (wf_ty H) l /\
       (k_elim k = false -> length l = 1 /\ k_ref k = nth c (snd D) (V 0))) /\
    (k_done k = false -> forall u, reach s (k_ref k) u -> In c (cset_of s (c_cs (cell_of s u)))) /\
    (forall T, grd s (k_ref k) T -> wf_ty H T ->
       (if k_elim k
        then k_done k = true \/ (k_alts k <> [] /\ forall B, In (inj B) (k_alts k) -> Sub H T B)
        else k_done k = true)
       \/ (k_done k = false /\ pend c)).
Proof. intros. reflexivity. Qed.

(* forward soundness of every engine operation on stores with constraints over
   concrete types: one induction on fuel *)
Theorem C03_conc_ops : forall H, wf_hier H -> forall f, SoundElimCS.specs H f.
Proof. exact SoundElimCS.specs_all. Qed.
Print Assumptions C03_conc_ops.

Theorem C03_conc_unify_sound : forall H, wf_hier H -> forall fuel skb a b s s',
  JC H s -> tg H (length (vars s)) a -> tg H (length (vars s)) b ->
  unify H fuel true skb false a b s = MOk tt s' ->
  goodC H s (fun th => skb = false -> Sub H (den th a) (den th b)) s'.
Proof. intros H W fuel skb a b s s' I Ta Tb E. exact (unify_soundC H W fuel skb a b s I Ta Tb tt s' E). Qed.

Theorem C03_conc_fulfill_sound : forall H, wf_hier H -> forall fuel c s b s',
  JC H s -> fulfill H fuel c s = MOk b s' -> goodC H s (fun _ => True) s'.
Proof. intros H W fuel c s b s' I E. exact (fulfill_soundC H W fuel c s I b s' E). Qed.
Print Assumptions C03_conc_fulfill_sound.

(* the constraint invariant is preserved by every engine operation, for every
   set of constraints pending in enclosing re-check rounds: one induction on fuel *)
Theorem C03_conc_K_ops : forall H, wf_hier H -> forall f, SoundElimCK.specsK H f.
Proof. exact SoundElimCK.specsK_all. Qed.
Print Assumptions C03_conc_K_ops.

(* fulfilling constraint c discharges it from the pending set *)
Theorem C03_conc_fulfill_K : forall H, wf_hier H -> forall fuel D pend c s,
  invb true s -> Kc H D pend s -> c < length (constrs s) ->
  match fulfill H fuel c s with
  | MOk b s' => invb true s' /\ ext s s' /\
                Kc H D (fun x => pend x /\ x <> c) s' /\ (b = true -> k_done (constr_of s' c) = true)
  | MEr e s' => invb true s' /\ ext s s' /\ forall n, e <> ECrash n
  end.
Proof. intros H W fuel D pend c s I Kk Lc. exact (SoundElimCK.fulfillK H W fuel D pend c s I Kk Lc). Qed.
Print Assumptions C03_conc_fulfill_K.

(* the hypotheses of the per-operation statements hold of every reachable store *)
Theorem C03_conc_final : forall H, wf_hier H ->
  forall fuel sc prog vals s, progC H 0 prog ->
  run_cmds H fuel prog 0 [] (empty_store sc) = (None, vals, s) ->
  invb true s /\ JC H s /\ dn H s /\ Forall (tg H (length (vars s))) vals /\
  exists R, length R = length (declsC prog) /\ Kc H (declsC prog, R) (@none) s.
Proof. exact conc_final. Qed.
Print Assumptions C03_conc_final.

(* ---------- non-vacuity ---------- *)
(* A = 5, B' = 6 < A, B = 7, C = 8, C' = 9 < C; F = 10 unary, G = 11 binary,
   Hh = 12 unary (all covariant) *)
Definition exH := mk_hier [(6,5);(9,8)] [(10,[true]);(11,[true;true]);(12,[true])].
Example exH_wf : wf_hier exH.
Proof.
  split.
  - intros o p. cbn. repeat (destruct o as [|o]; try discriminate; cbn); intros [= <-]; auto with arith.
  - intros o p. cbn. repeat (destruct o as [|o]; try discriminate; cbn); intros [= <-]; cbn; repeat split; discriminate.
  - split; reflexivity.
  - split; reflexivity.
  - reflexivity.
Qed.

Definition tA := TOp 5 []. Definition tB' := TOp 6 []. Definition tB := TOp 7 [].
Definition tC := TOp 8 []. Definition tC' := TOp 9 []. Definition tTop := TOp Top [].
Definition tF x := TOp 10 [x]. Definition tG x y := TOp 11 [x; y]. Definition tH x := TOp 12 [x].

Ltac wf := cbn; repeat split.

Definition conc (t : ty) := mkSchema 0 (sconc t) [].
Example conc_ok : forall n t, wf_ty exH t -> cmdC exH n (CInst (conc t)).
Proof. intros n t Wt. constructor; [apply styg_sconc; exact Wt|constructor]. Qed.

(* a ** a [a << [F(A), G(B, C)]] *)
Definition sig := mkSchema 1 (SOp Function [SVar 0; SVar 0])
  [SCElim (SVar 0) (map sconc [tF tA; tG tB tC])].
Example sig_ok : forall n, cmdC exH n (CInst sig).
Proof.
  intros n. constructor.
  - cbn [s_n s_body sig]. repeat (constructor; cbn; auto with arith).
  - constructor; [|constructor]. cbn. split; [auto with arith|]. exists [tF tA; tG tB tC].
    split; [|reflexivity]. repeat constructor.
Qed.

Ltac progc := cbn [progC]; repeat split; try (constructor; auto with arith; fail);
  try apply sig_ok; try (apply conc_ok; wf).

(* (a) applied to F(B') with B' < A: accepted; the filter leaves [F(A)], the constraint
   is fulfilled; the reference is fully resolved to F(B') and F(B') <= F(A) *)
Definition ex_a := [CInst sig; CInst (conc (tF tB')); CApply 0 1 true].
Definition ex_a_run := Eval vm_compute in run_cmds exH 100 ex_a 0 [] (empty_store []).
Definition ex_a_vals := snd (fst ex_a_run).
Definition ex_a_s := snd ex_a_run.
Example ex_a_progC : progC exH 0 ex_a. Proof. progc. Qed.
Example ex_a_accepted : run_cmds exH 100 ex_a 0 [] (empty_store []) = (None, ex_a_vals, ex_a_s).
Proof. vm_compute. reflexivity. Qed.
Example ex_a_decls : declsC ex_a = [[tF tA; tG tB tC]].
Proof. reflexivity. Qed.
Example ex_a_state :
  map (fun k => (k_elim k, follow ex_a_s (k_ref k), k_alts k, k_done k)) (constrs ex_a_s) =
  [(true, inj (tF tB'), [inj (tF tA)], true)].
Proof. vm_compute. reflexivity. Qed.
Example ex_a_grd : grd ex_a_s (k_ref (constr_of ex_a_s 0)) (tF tB').
Proof. apply (grd_inj ex_a_s (tF tB')). Qed.
(* the theorem applied *)
Example ex_a_holds : Sub exH (tF tB') (tF tA).
Proof.
  pose proof (C03_conc_constraints_hold exH exH_wf 100 [] ex_a ex_a_vals ex_a_s ex_a_progC ex_a_accepted 0
                ltac:(cbn; auto with arith) (tF tB') ex_a_grd) as Hc.
  change (k_elim (constr_of ex_a_s 0)) with true in Hc. cbv iota in Hc.
  destruct Hc as (B & _ & Ia & Sb). change (k_alts (constr_of ex_a_s 0)) with [inj (tF tA)] in Ia.
  destruct Ia as [Ea|[]]. apply inj_inj in Ea. subst B. exact Sb.
Qed.

(* (b) applied to G(B, C') with C' < C: accepted by the second alternative *)
Definition ex_b := [CInst sig; CInst (conc (tG tB tC')); CApply 0 1 true].
Definition ex_b_run := Eval vm_compute in run_cmds exH 100 ex_b 0 [] (empty_store []).
Example ex_b_progC : progC exH 0 ex_b. Proof. progc. Qed.
Example ex_b_state :
  fst (fst ex_b_run) = None /\
  map (fun k => (k_elim k, follow (snd ex_b_run) (k_ref k), k_alts k, k_done k)) (constrs (snd ex_b_run)) =
  [(true, inj (tG tB tC'), [inj (tG tB tC)], true)].
Proof. vm_compute. split; reflexivity. Qed.

(* (c) applied to Hh(A): no alternative fits, rejected at the application (command 2) *)
Definition ex_c := [CInst sig; CInst (conc (tH tA)); CApply 0 1 true].
Example ex_c_progC : progC exH 0 ex_c. Proof. progc. Qed.
Example ex_c_rejected : fst (fst (run_cmds exH 100 ex_c 0 [] (empty_store []))) = Some (EConstraintViolation, 2).
Proof. vm_compute. reflexivity. Qed.

(* (d) PENDING and fully resolved: a << [G(A, Top), G(Top, C)] applied to G(B', C'):
   both (incomparable) alternatives stay, the constraint is never fulfilled, and the
   theorem still yields a declared alternative above the resolved reference *)
Definition sig_d := mkSchema 1 (SOp Function [SVar 0; SVar 0])
  [SCElim (SVar 0) (map sconc [tG tA tTop; tG tTop tC])].
Example sig_d_ok : forall n, cmdC exH n (CInst sig_d).
Proof.
  intros n. constructor.
  - cbn [s_n s_body sig_d]. repeat (constructor; cbn; auto with arith).
  - constructor; [|constructor]. cbn. split; [auto with arith|]. exists [tG tA tTop; tG tTop tC].
    split; [|reflexivity]. repeat constructor.
Qed.
Definition ex_d := [CInst sig_d; CInst (conc (tG tB' tC')); CApply 0 1 true].
Definition ex_d_run := Eval vm_compute in run_cmds exH 100 ex_d 0 [] (empty_store []).
Definition ex_d_vals := snd (fst ex_d_run).
Definition ex_d_s := snd ex_d_run.
Example ex_d_progC : progC exH 0 ex_d.
Proof. cbn [progC]. repeat split; try (constructor; auto with arith; fail); [apply sig_d_ok|apply conc_ok; wf]. Qed.
Example ex_d_accepted : run_cmds exH 100 ex_d 0 [] (empty_store []) = (None, ex_d_vals, ex_d_s).
Proof. vm_compute. reflexivity. Qed.
Example ex_d_state :
  map (fun k => (k_elim k, follow ex_d_s (k_ref k), k_alts k, k_done k)) (constrs ex_d_s) =
  [(true, inj (tG tB' tC'), [inj (tG tA tTop); inj (tG tTop tC)], false)].
Proof. vm_compute. reflexivity. Qed.
Example ex_d_holds : exists B, In B [tG tA tTop; tG tTop tC] /\ Sub exH (tG tB' tC') B.
Proof.
  pose proof (C03_conc_constraints_hold exH exH_wf 100 [] ex_d ex_d_vals ex_d_s ex_d_progC ex_d_accepted 0
                ltac:(cbn; auto with arith) (tG tB' tC') (grd_inj ex_d_s (tG tB' tC'))) as Hc.
  change (k_elim (constr_of ex_d_s 0)) with true in Hc. cbv iota in Hc.
  destruct Hc as (B & Ib & _ & Sb). exists B. split; [exact Ib|exact Sb].
Qed.

(* (e) a subtype constraint with a compound target: x ** x [x <= F(A)].  Creating the
   constraint binds x := F(y) (skip_basic unification) and attaches it to y; applying to
   F(B') resolves y := B' and fulfils the constraint *)
Definition sig_e (strict : bool) := mkSchema 1 (SOp Function [SVar 0; SVar 0])
  [SCSub (SVar 0) (sconc (tF tA)) strict].
Example sig_e_ok : forall n st, cmdC exH n (CInst (sig_e st)).
Proof.
  intros n st. constructor.
  - cbn [s_n s_body sig_e]. repeat (constructor; cbn; auto with arith).
  - constructor; [|constructor]. cbn. split; [auto with arith|]. exists (tF tA). split; [wf|reflexivity].
Qed.
Definition ex_e0 := [CInst (sig_e false)].
Example ex_e0_pending :
  let s := snd (run_cmds exH 100 ex_e0 0 [] (empty_store [])) in
  map (fun k => (k_elim k, follow s (k_ref k), k_alts k, k_done k)) (constrs s) =
    [(false, O 10 [V 1], [inj (tF tA)], false)] /\
  map c_bound (vars s) = [Some (O 10 [V 1]); None] /\
  map c_cs (vars s) = [0; 0] /\ csets s = [[0]; []].
Proof. vm_compute. repeat split. Qed.

Definition ex_e := [CInst (sig_e false); CInst (conc (tF tB')); CApply 0 1 true].
Definition ex_e_run := Eval vm_compute in run_cmds exH 100 ex_e 0 [] (empty_store []).
Definition ex_e_vals := snd (fst ex_e_run).
Definition ex_e_s := snd ex_e_run.
Example ex_e_progC : progC exH 0 ex_e.
Proof. cbn [progC]. repeat split; try (constructor; auto with arith; fail); [apply sig_e_ok|apply conc_ok; wf]. Qed.
Example ex_e_accepted : run_cmds exH 100 ex_e 0 [] (empty_store []) = (None, ex_e_vals, ex_e_s).
Proof. vm_compute. reflexivity. Qed.
Example ex_e_state :
  map (fun k => (k_elim k, k_ref k, k_alts k, k_done k)) (constrs ex_e_s) =
    [(false, V 0, [inj (tF tA)], true)] /\
  map c_bound (vars ex_e_s) = [Some (O 10 [V 1]); Some (O 6 [])].
Proof. vm_compute. split; reflexivity. Qed.
Example ex_e_grd : grd ex_e_s (k_ref (constr_of ex_e_s 0)) (tF tB').
Proof.
  change (k_ref (constr_of ex_e_s 0)) with (V 0).
  apply gr_bnd with (t := O 10 [V 1]); [reflexivity|]. unfold tF. constructor.
  constructor; [|constructor]. apply gr_bnd with (t := O 6 []); [reflexivity|]. apply (grd_inj ex_e_s tB').
Qed.
Example ex_e_holds : Sub exH (tF tB') (tF tA).
Proof.
  pose proof (C03_conc_constraints_hold exH exH_wf 100 [] ex_e ex_e_vals ex_e_s ex_e_progC ex_e_accepted 0
                ltac:(cbn; auto with arith) (tF tB') ex_e_grd) as Hc.
  change (k_elim (constr_of ex_e_s 0)) with false in Hc. cbv iota in Hc.
  destruct Hc as (B & Ib & Ea & Sb & _). change (k_alts (constr_of ex_e_s 0)) with [inj (tF tA)] in Ea.
  injection Ea as Ea. change (O 10 [O 5 []]) with (inj (tF tA)) in Ea. apply inj_inj in Ea. subst B. exact Sb.
Qed.

(* (f) the filter of the subtype constraint matters: F(B) with B unrelated to A is rejected;
   the strict constraint x < F(A) rejects F(A) itself and accepts F(B') *)
Example ex_f_rejected :
  fst (fst (run_cmds exH 100 [CInst (sig_e false); CInst (conc (tF tB)); CApply 0 1 true] 0 [] (empty_store []))) =
    Some (EConstraintViolation, 2) /\
  fst (fst (run_cmds exH 100 [CInst (sig_e true); CInst (conc (tF tA)); CApply 0 1 true] 0 [] (empty_store []))) =
    Some (EConstraintViolation, 2) /\
  fst (fst (run_cmds exH 100 [CInst (sig_e true); CInst (conc (tF tB')); CApply 0 1 true] 0 [] (empty_store []))) = None.
Proof. vm_compute. repeat split. Qed.
