(* C14  Type notation and type URIs round-trip, and URIs identify types uniquely.
   Property theorems only; each is closed by [exact] of a library lemma.

   The models of Language.parse_type and Language.parse_type_uri describe the
   code with the repair of proposed_fixes/C14.diff; the *_pinned definitions
   describe the pinned code and are refuted below.

   Conditions on names (boolean deciders, so instances are checked by
   computation):
     lang_text_okb L  type and synonym names pairwise distinct, non-empty, free
                      of " \r\t*(,)", and none is "_", "Top" or "Bottom";
     lang_uri_okb L   all names of the language pairwise distinct, non-empty,
                      free of '-', '#', '/', and none is the name of a built-in
                      type operator;
     wf_nsb ns        the namespace ends in '#', or has no '#' and ends in '/'.
   Distinctness, non-emptiness and not being Unit/Top/Bottom/Product are
   enforced by Language.add (C14_names_from_add); the character conditions and
   "not Function" are assumptions on the language (identifiers in practice). *)
From Coq Require Import List Arith Bool.
Import ListNotations.
From TF Require Import Base.Hier Base.Ty Parse.Lang Parse.Tok Parse.TypeText Parse.TypeTextProofs.
From TF Require Import Uri.Uri Uri.UriProofs.

(* Parsing the printed form of any concrete type built from the language's
   operators, Top, Bottom and products (any depth) yields that type. *)
Theorem C14_text_roundtrip : forall L, lang_text_okb L = true ->
  forall t, text_domb L t = true -> parse_type L (text_std L t) = Ok t.
Proof. exact parse_text_roundtrip. Qed.
Print Assumptions C14_text_roundtrip.

(* A type alias, plain or parameterised, written anywhere in type text denotes
   exactly its definition (instantiated with the denotations of its arguments). *)
Theorem C14_alias : forall L, lang_text_okb L = true ->
  forall s, swfb L s = true -> parse_type L (stext L s) = Ok (expand L s).
Proof. exact parse_stext. Qed.
Print Assumptions C14_alias.

(* every insertion history of Language.add keeps names distinct, non-empty and
   unreserved across operators, types and synonyms *)
Theorem C14_names_from_add : forall L, built L -> names_ok L.
Proof. exact built_names_ok. Qed.
Print Assumptions C14_names_from_add.

(* URI-to-type conversion inverts type-to-URI conversion on every type that
   has a URI (base types, and compound types in the canonical set) *)
Theorem C14_uri_roundtrip : forall L ns canon t u,
  lang_uri_okb L = true -> wf_nsb ns = true -> uri_domb L t = true ->
  uri L ns canon t = Some u -> parse_type_uri L u = UOk t.
Proof. exact uri_roundtrip. Qed.
Print Assumptions C14_uri_roundtrip.

(* two different canonical types never share a URI *)
Theorem C14_uri_inj_types : forall L ns canon t1 t2 u,
  lang_uri_okb L = true -> wf_nsb ns = true ->
  uri_domb L t1 = true -> uri_domb L t2 = true ->
  uri L ns canon t1 = Some u -> uri L ns canon t2 = Some u -> t1 = t2.
Proof. exact uri_inj_types. Qed.
Print Assumptions C14_uri_inj_types.

(* two different operators (type operators, built-in or declared, and
   transformation operators) never share a URI *)
Theorem C14_uri_inj_ops : forall L ns x y,
  lang_uri_okb L = true -> wf_nsb ns = true ->
  opref_okb L x = true -> opref_okb L y = true ->
  uri_op L ns x = uri_op L ns y -> x = y.
Proof. exact uri_inj_ops. Qed.
Print Assumptions C14_uri_inj_ops.

(* The pinned code violates all three parts; the witnesses are replayed on the
   implementation by harness/c14.py. *)
Theorem C14_uri_pinned_refuted :
  exists L ns t u t', lang_uri_okb L = true /\ wf_nsb ns = true /\ uri_domb L t = true /\
    uri L ns [t] t = Some u /\ parse_type_uri_pinned L u = UOk t' /\ t' <> t.
Proof. exact uri_pinned_refuted. Qed.
Print Assumptions C14_uri_pinned_refuted.

Theorem C14_text_pinned_refuted :
  exists L t t', lang_text_okb L = true /\ text_domb L t = true /\
    parse_type_pinned L (text_std L t) = Ok t' /\ t' <> t.
Proof. exact text_pinned_refuted. Qed.
Print Assumptions C14_text_pinned_refuted.

Theorem C14_alias_pinned_refuted :
  exists L s t', lang_text_okb L = true /\ swfb L s = true /\
    parse_type_pinned L (stext L s) = Ok t' /\ t' <> expand L s.
Proof. exact alias_pinned_refuted. Qed.
Print Assumptions C14_alias_pinned_refuted.

(* ------------------------------------------------------------------ *)
(* Non-vacuity: A=5 B=6 (base), F=7 (unary), G=8 (binary), K=9 (ternary);
   synonyms FA = F(A), S(x, y) = G(y, x) * x; one transformation operator f. *)
Definition c14L : lang :=
  mkLang [([65], 0); ([66], 0); ([70], 1); ([71], 2); ([75], 3)]
         [([70; 65], (0, AOp 7 [AOp 5 []]));
          ([83], (2, AOp Product [AOp 8 [AVar 1; AVar 0]; AVar 0]))]
         [[102]].
Definition c14ns : list nat := [104; 116; 116; 112; 58; 47; 47; 120; 47; 35].
Definition tyA := TOp 5 []. Definition tyB := TOp 6 [].

Example c14_conditions :
  lang_text_okb c14L = true /\ lang_uri_okb c14L = true /\ wf_nsb c14ns = true /\ wf_nsb TFns = true.
Proof. repeat split; reflexivity. Qed.

Example c14_built : built c14L.
Proof.
  eapply built_add with (n := [102]) (k := KOp).
  eapply built_add with (n := [83]) (k := KSyn 2 (AOp Product [AOp 8 [AVar 1; AVar 0]; AVar 0])).
  eapply built_add with (n := [70; 65]) (k := KSyn 0 (AOp 7 [AOp 5 []])).
  eapply built_add with (n := [75]) (k := KType 3).
  eapply built_add with (n := [71]) (k := KType 2).
  eapply built_add with (n := [70]) (k := KType 1).
  eapply built_add with (n := [66]) (k := KType 0).
  eapply built_add with (n := [65]) (k := KType 0).
  apply built_empty. all: reflexivity.
Qed.

(* add rejects a second symbol of the same name, whatever its kind *)
Example c14_add_rejects : add c14L [70] KOp = None /\ add c14L n_Top (KType 0) = None.
Proof. split; reflexivity. Qed.

(* depth 3, an inner compound type followed by further parameters, products
   with compound left operands *)
Definition c14T : ty :=
  TOp 9 [TOp 8 [TOp 7 [tyB]; tyA];
         TOp Product [TOp 8 [tyB; TOp Top []]; TOp 7 [TOp Bottom []]];
         tyA].

Example c14_text : text_domb c14L c14T = true /\
  text_std c14L c14T =
    [75; 40; 71; 40; 70; 40; 66; 41; 44; 32; 65; 41; 44; 32; 40; 71; 40; 66; 44; 32; 84; 111; 112; 41;
     32; 42; 32; 70; 40; 66; 111; 116; 116; 111; 109; 41; 41; 44; 32; 65; 41] /\
  parse_type c14L (text_std c14L c14T) = Ok c14T /\
  parse_type_pinned c14L (text_std c14L c14T) <> Ok c14T.
Proof. repeat split; try reflexivity. vm_compute. discriminate. Qed.

(* "S(FA, B)" denotes G(B, F(A)) * F(A) *)
Example c14_alias_ex :
  let s := SAl 1 [SAl 0 []; STy 6 []] in
  swfb c14L s = true /\
  stext c14L s = [83; 40; 70; 65; 44; 32; 66; 41] /\
  parse_type c14L (stext c14L s) = Ok (TOp Product [TOp 8 [tyB; TOp 7 [tyA]]; TOp 7 [tyA]]).
Proof. repeat split; reflexivity. Qed.

Definition c14U : ty := TOp 9 [TOp 8 [TOp 7 [tyB]; tyA]; TOp Product [tyB; TOp Unit []]; tyA].
Example c14_uri :
  uri_domb c14L c14U = true /\
  uri c14L c14ns [c14U] c14U
    = Some (c14ns ++ [75; 45; 71; 45; 70; 45; 66; 45; 65; 45; 80; 114; 111; 100; 117; 99; 116; 45; 66; 45;
                      85; 110; 105; 116; 45; 65]) /\
  (forall u, uri c14L c14ns [c14U] c14U = Some u ->
     parse_type_uri c14L u = UOk c14U /\ parse_type_uri_pinned c14L u <> UOk c14U) /\
  uri c14L c14ns [] c14U = None /\
  uri c14L c14ns [] (TOp Top []) = Some (TFns ++ n_Top).
Proof.
  repeat split; try reflexivity; injection H as <-; vm_compute; [reflexivity | discriminate].
Qed.

Example c14_ops : opref_okb c14L (OTy 9) = true /\ opref_okb c14L (OOp 0) = true /\
  uri_op c14L c14ns (OOp 0) = c14ns ++ [102] /\ uri_op c14L c14ns (OTy Product) = TFns ++ n_Product.
Proof. repeat split; reflexivity. Qed.
