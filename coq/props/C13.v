(* C13  All surface notations denote the same expression as programmatic construction.

   Model: Parse/ExTok.v (tokenize, strip_comments), Parse/ExParser.v (parse_expr and
   parse_type as one token machine), with proposed_fixes/C13.diff and
   C13_C17_parser.diff applied.  Specification: Parse/ExSpec.v ([build] = the calls made
   when the operators are called as Python objects in curried order f(x)(y);
   [Renders]/[Junked]/[Layout] = every way of writing a tree down).
   The type checker is a parameter ([St], [step]): the theorems hold whatever it does,
   including when it rejects.  What they do not say: that Python's f(x, y), which
   evaluates both arguments before f is applied to the first, infers the same types as
   the curried order; that is order-independence of inference (C05/C18) and is checked
   on the implementation by the correspondence run (C13_typed_partial in DESIGN.md). *)
From Coq Require Import List Arith Bool NArith ZArith.
Import ListNotations.
From TF Require Import Base.Hier Base.Ty Sub.Match.
From TF Require Import Parse.ExTok Parse.ExParser Parse.ExSpec Parse.ExRender Parse.ExFacts Parse.ExMatch.

(* blanks anywhere between tokens (needed only between two words) *)
Theorem C13_tokenize : forall sp ts s, Layout sp ts s -> tokenize sp s = ts.
Proof. exact tokenize_layout. Qed.
Print Assumptions C13_tokenize.

(* newlines and `# ...` comments anywhere between tokens *)
Theorem C13_comments : forall core ts, Junked core ts -> strip false ts = core.
Proof. exact strip_junked. Qed.
Print Assumptions C13_comments.

(* every rendering of every tree -- `f x y`, `f(x, y)`, `(f x) y`, redundant brackets
   around expressions and inside type annotations, annotations `e : T`, blanks,
   newlines, comments -- parses to exactly the programmatic construction of the tree:
   same objects in the same order, same calls into the type checker, same result or the
   same error *)
Theorem C13_parse_render :
  forall (lookup_op : str -> option nat) (lookup_ty : str -> option (nat * nat))
         (decval : N -> option nat) (St : Type) (step : St -> event -> St + perr)
         (ninputs : nat) (e : ex) (core ts : list str) (s : str),
  Renders lookup_op lookup_ty decval e core -> Junked core ts -> Layout ex_specials ts s ->
  forall (n0 : nat) (s0 : St),
  parse_str lookup_op lookup_ty decval St step ninputs s n0 s0 = built St step ninputs e n0 s0.
Proof. exact parse_str_render. Qed.
Print Assumptions C13_parse_render.

(* ... hence any two renderings of one tree are interchangeable *)
Theorem C13_notations_agree :
  forall (lookup_op : str -> option nat) (lookup_ty : str -> option (nat * nat))
         (decval : N -> option nat) (St : Type) (step : St -> event -> St + perr)
         (ninputs : nat) (e : ex) (c1 t1 : list str) (s1 : str) (c2 t2 : list str) (s2 : str),
  Renders lookup_op lookup_ty decval e c1 -> Junked c1 t1 -> Layout ex_specials t1 s1 ->
  Renders lookup_op lookup_ty decval e c2 -> Junked c2 t2 -> Layout ex_specials t2 s2 ->
  forall (n0 : nat) (s0 : St),
  parse_str lookup_op lookup_ty decval St step ninputs s1 n0 s0 =
  parse_str lookup_op lookup_ty decval St step ninputs s2 n0 s0.
Proof. exact renderings_agree. Qed.
Print Assumptions C13_notations_agree.

(* a number is the supplied input (always the same object, no new one, nothing asked of
   the type checker); 0 and numbers beyond the inputs are as Python's list index has it *)
Theorem C13_numbers :
  forall (St : Type) (step : St -> event -> St + perr) (ninputs n : nat) (b : bst St),
  build St step ninputs (XNum n) b =
  match input_ref ninputs n with Some k => Ok (VIn k, b) | None => Err EMissingInput end.
Proof. exact build_number. Qed.
Print Assumptions C13_numbers.

(* parse(..., defaults=True): a number without a supplied input is a made-up source that
   is remembered (args_map as a dict extended on first use).  Whatever numbers are looked
   up in whatever order, with any other objects created in between: every occurrence of a
   number denotes the same object, different numbers denote different objects, a supplied
   number is the supplied object. *)
Theorem C13_defaults_same_object : forall (ninputs : nat) (ops : list dop) (c0 n : nat) (v1 v2 : val),
  In (n, v1) (drun ninputs ops [] c0) -> In (n, v2) (drun ninputs ops [] c0) -> v1 = v2.
Proof. exact defaults_same_object. Qed.
Print Assumptions C13_defaults_same_object.

Theorem C13_defaults_distinct : forall (ninputs : nat) (ops : list dop) (c0 n1 n2 : nat) (v1 v2 : val),
  In (n1, v1) (drun ninputs ops [] c0) -> In (n2, v2) (drun ninputs ops [] c0) -> n1 <> n2 -> v1 <> v2.
Proof. exact defaults_distinct. Qed.
Print Assumptions C13_defaults_distinct.

Theorem C13_defaults_supplied : forall (ninputs : nat) (ops : list dop) (c0 n : nat) (v : val) (k : nat),
  In (n, v) (drun ninputs ops [] c0) -> supplied ninputs n = Some k -> v = VIn k.
Proof. exact defaults_supplied. Qed.
Print Assumptions C13_defaults_supplied.

(* `-` is a fresh anonymous source: the sources in a constructed tree are pairwise
   different objects that did not exist before *)
Theorem C13_dash_fresh :
  forall (St : Type) (step : St -> event -> St + perr) (ninputs : nat) (e : ex)
         (b : bst St) (v : val) (b' : bst St),
  build St step ninputs e b = Ok (v, b') ->
  NoDup (src_ids v) /\ (forall i, In i (src_ids v) -> bc St b <= i).
Proof. exact build_sources_fresh. Qed.
Print Assumptions C13_dash_fresh.

(* `e : T` does not change the tree: it yields the object that e yields ... *)
Theorem C13_annot_same_object :
  forall (St : Type) (step : St -> event -> St + perr) (ninputs : nat) (e : ex) (T : pty)
         (b : bst St) (v : val) (b' : bst St),
  build St step ninputs (XAnn e T) b = Ok (v, b') ->
  exists b1, build St step ninputs e b = Ok (v, b1).
Proof. exact build_ann_same. Qed.
Print Assumptions C13_annot_same_object.

(* ... and the shape of the result is that of the expression without its annotations *)
Theorem C13_annot_tree :
  forall (St : Type) (step : St -> event -> St + perr) (ninputs : nat) (e : ex)
         (b : bst St) (v : val) (b' : bst St),
  build St step ninputs e b = Ok (v, b') -> ex_sk ninputs (strip_ann e) = Some (val_sk v).
Proof. exact build_skeleton. Qed.
Print Assumptions C13_annot_tree.

(* Expr.match (strict) relates two expressions exactly when they have the same shape,
   the same operators and equal source types *)
Theorem C13_match_equiv : forall (H : hier) (a : mx), wf_mx H a -> forall b : mx, wf_mx H b ->
  (ematch H a b = true <-> Same a b).
Proof. exact ematch_exact. Qed.
Print Assumptions C13_match_equiv.

(* ------------------------------------------------------------------------------ *)
(* Non-vacuity: a language with operators f, g, types A and F/1; the type checker
   replaced by a log.  The tree  f (- : F(A)) 1  written in two ways. *)
Definition x_op (t : str) : option nat :=
  if str_eqb t [102]%N then Some 0 else if str_eqb t [103]%N then Some 1 else None.
Definition x_ty (t : str) : option (nat * nat) :=
  if str_eqb t [65]%N then Some (5, 0) else if str_eqb t [70]%N then Some (6, 1) else None.
Definition x_dec (c : N) : option nat :=
  if (N.leb 48 c && N.leb c 57)%N then Some (N.to_nat (c - 48)) else None.
Definition x_step (s : list event) (e : event) : list event + perr := inl (e :: s).

Definition x_FA : pty := PApp 6 [PApp 5 []].
Definition x_e : ex := XApp (XApp (XOp 0) (XAnn XDash x_FA)) (XNum 1).

(*  f ( - : F ( A ) ) 1  *)
Definition x_core1 : list str :=
  [[102]; [40]; [45]; [58]; [70]; [40]; [65]; [41]; [41]; [49]]%N.
(*  f ( ( - ) : ( F ( ( A ) ) ) , 1 )  *)
Definition x_core2 : list str :=
  [[102]; [40]; [40]; [45]; [41]; [58]; [40]; [70]; [40]; [40]; [65]; [41]; [41]; [41]; [44]; [49]; [41]]%N.

Lemma x_name_A : ty_name [65]%N. Proof. repeat split; discriminate. Qed.
Lemma x_name_F : ty_name [70]%N. Proof. repeat split; discriminate. Qed.
Lemma x_atom_A : TyAtom x_ty (PApp 5 []) [65]%N.
Proof. apply TA_name; [apply x_name_A | reflexivity]. Qed.

Example x_renders1 : Renders x_op x_ty x_dec x_e x_core1.
Proof.
  exists [SArg (XOp 0); SArg (XAnn XDash x_FA); SArg (XNum 1)]. split; [|reflexivity].
  apply Q_atom; [apply At_op; repeat split|].
  apply (Q_group x_op x_ty x_dec [XAnn XDash x_FA] [[45]; [58]; [70]; [40]; [65]; [41]]%N
           [SArg (XNum 1)] [[49]%N]).
  - apply (G_last x_op x_ty x_dec [SArg XDash; SAnn x_FA]); [|reflexivity].
    apply Q_atom; [apply At_dash|].
    apply (Q_ann x_op x_ty x_dec x_FA [[70]; [40]; [65]; [41]]%N [] []); [|apply Q_nil].
    apply (TR_con x_ty [70]%N 6 1 [PApp 5 []] [[65]%N]); auto using x_name_F.
    apply TAr_one, TI_atom, x_atom_A.
  - apply Q_atom; [apply At_num; repeat split | apply Q_nil].
Qed.

Example x_renders2 : Renders x_op x_ty x_dec x_e x_core2.
Proof.
  exists [SArg (XOp 0); SArg (XAnn XDash x_FA); SArg (XNum 1)]. split; [|reflexivity].
  apply Q_atom; [apply At_op; repeat split|].
  apply (Q_group x_op x_ty x_dec [XAnn XDash x_FA; XNum 1]
           [[40]; [45]; [41]; [58]; [40]; [70]; [40]; [40]; [65]; [41]; [41]; [41]; [44]; [49]]%N [] []);
    [|apply Q_nil].
  apply (G_cons x_op x_ty x_dec [SArg XDash; SAnn x_FA] (XAnn XDash x_FA)
           [[40]; [45]; [41]; [58]; [40]; [70]; [40]; [40]; [65]; [41]; [41]; [41]]%N [XNum 1] [[49]%N]);
    [|reflexivity|].
  - apply (Q_group x_op x_ty x_dec [XDash] [[45]%N] [SAnn x_FA]
             [[58]; [40]; [70]; [40]; [40]; [65]; [41]; [41]; [41]]%N).
    + apply (G_last x_op x_ty x_dec [SArg XDash]); [|reflexivity].
      apply Q_atom; [apply At_dash | apply Q_nil].
    + apply (Q_ann x_op x_ty x_dec x_FA [[40]; [70]; [40]; [40]; [65]; [41]; [41]; [41]]%N [] []); [|apply Q_nil].
      apply (TR_paren x_ty x_FA [[70]; [40]; [40]; [65]; [41]; [41]]%N).
      apply (TI_con x_ty [70]%N 6 1 [PApp 5 []] [[40]; [65]; [41]]%N); auto using x_name_F.
      apply TAr_one. apply (TI_paren x_ty (PApp 5 []) [[65]%N]). apply TI_atom, x_atom_A.
  - apply (G_last x_op x_ty x_dec [SArg (XNum 1)]); [|reflexivity].
    apply Q_atom; [apply At_num; repeat split | apply Q_nil].
Qed.

(* newline after `(`, a comment after the comma *)
Definition x_toks2 : list str :=
  [[102]; [40]; [10]; [40]; [45]; [41]; [58]; [40]; [70]; [40]; [40]; [65]; [41]; [41]; [41]; [44];
   [35]; [115; 114; 99]; [10]; [49]; [41]; [10]]%N.

Example x_junked2 : Junked x_core2 x_toks2.
Proof.
  unfold x_core2, x_toks2.
  apply (JK_cons [] [102]%N); [constructor | split; discriminate |].
  apply (JK_cons [] [40]%N); [constructor | split; discriminate |].
  apply (JK_cons [[10]%N] [40]%N); [repeat constructor | split; discriminate |].
  apply (JK_cons [] [45]%N); [constructor | split; discriminate |].
  apply (JK_cons [] [41]%N); [constructor | split; discriminate |].
  apply (JK_cons [] [58]%N); [constructor | split; discriminate |].
  apply (JK_cons [] [40]%N); [constructor | split; discriminate |].
  apply (JK_cons [] [70]%N); [constructor | split; discriminate |].
  apply (JK_cons [] [40]%N); [constructor | split; discriminate |].
  apply (JK_cons [] [40]%N); [constructor | split; discriminate |].
  apply (JK_cons [] [65]%N); [constructor | split; discriminate |].
  apply (JK_cons [] [41]%N); [constructor | split; discriminate |].
  apply (JK_cons [] [41]%N); [constructor | split; discriminate |].
  apply (JK_cons [] [41]%N); [constructor | split; discriminate |].
  apply (JK_cons [] [44]%N); [constructor | split; discriminate |].
  apply (JK_cons [[35]; [115; 114; 99]; [10]]%N [49]%N).
  - apply (J_comment [[115; 114; 99]%N] []); [repeat constructor; discriminate | constructor].
  - split; discriminate.
  - apply (JK_cons [] [41]%N); [constructor | split; discriminate |].
    apply JK_end. repeat constructor.
Qed.

(* a layout of the tokens  f ( - : A , 1 )  as the string "f( -:A ,1)" *)
Example x_layout :
  Layout ex_specials [[102]; [40]; [45]; [58]; [65]; [44]; [49]; [41]]%N
                     [102; 40; 32; 45; 58; 65; 32; 44; 49; 41]%N.
Proof.
  apply (L_word ex_specials [] [102]%N _ [40; 32; 45; 58; 65; 32; 44; 49; 41]%N);
    [constructor | split; [discriminate | repeat constructor] | | discriminate].
  apply (L_special ex_specials [] 40%N _ [32; 45; 58; 65; 32; 44; 49; 41]%N); [constructor | reflexivity |].
  apply (L_word ex_specials [32]%N [45]%N _ [58; 65; 32; 44; 49; 41]%N);
    [repeat constructor | split; [discriminate | repeat constructor] | | discriminate].
  apply (L_special ex_specials [] 58%N _ [65; 32; 44; 49; 41]%N); [constructor | reflexivity |].
  apply (L_word ex_specials [] [65]%N _ [32; 44; 49; 41]%N);
    [constructor | split; [discriminate | repeat constructor] | | discriminate].
  apply (L_special ex_specials [32]%N 44%N _ [49; 41]%N); [repeat constructor | reflexivity |].
  apply (L_word ex_specials [] [49]%N _ [41]%N);
    [constructor | split; [discriminate | repeat constructor] | | discriminate].
  apply (L_special ex_specials [] 41%N _ []); [constructor | reflexivity |].
  apply L_nil. constructor.
Qed.

(* the two renderings and the construction, computed: f, the source typed exactly
   F(A), applied; then the input; five events *)
Example x_computed :
  run x_op x_ty x_dec (list event) x_step 1 x_core1 (init _ 0 []) = built _ x_step 1 x_e 0 [] /\
  parse_toks x_op x_ty x_dec (list event) x_step 1 x_toks2 0 [] = built _ x_step 1 x_e 0 [] /\
  built _ x_step 1 x_e 0 [] =
    Ok (VApp 3 (VApp 2 (VOp 0 0) (VSrc 1)) (VIn 0),
        [EvApp (VApp 3 (VApp 2 (VOp 0 0) (VSrc 1)) (VIn 0));
         EvApp (VApp 2 (VOp 0 0) (VSrc 1));
         EvExact (VSrc 1) x_FA; EvSrc (VSrc 1); EvOp (VOp 0 0)]).
Proof. repeat split; vm_compute; reflexivity. Qed.

(* defaults: one supplied input; `g (g 2 1) (g 1 2)` looks up 2 1 1 2 with operator
   instances and applications created in between *)
Example x_defaults :
  drun 1 [DOther; DOther; DNum 2; DNum 1; DOther; DOther; DNum 1; DNum 2; DOther] [] 0 =
  [(2, VSrc 2); (1, VIn 0); (1, VIn 0); (2, VSrc 2)].
Proof. reflexivity. Qed.

(* Expr.match: hierarchy A(5) > B(6); sources typed A and B differ, equal trees match *)
Definition x_H : hier := mk_hier [(6, 5)] [].
Example x_match :
  let a := MApp (MApp (MOp 0) (MSrc (Some (TOp 5 [])))) (MSrc None) in
  let b := MApp (MApp (MOp 0) (MSrc (Some (TOp 6 [])))) (MSrc None) in
  wf_mx x_H a /\ wf_mx x_H b /\ ematch x_H a a = true /\ ematch x_H a b = false.
Proof. cbn. repeat split; reflexivity. Qed.
