(* C10  The canonical taxonomy is exactly the subtype order on canonical types.
   Property theorems only; each is closed by [exact] of a library lemma.

   Model: Canon/Succ.v (TypeOperation.successors, floor, ceiling),
   Canon/Canon.v (expand_canon; Language.successors as repaired by
   proposed_fixes/C10.diff = [lang_succ]; the pinned one = [lang_succ_pinned];
   add_taxonomy with and without closure; the vocabulary's type nodes).
   expand_canon is modelled with fuel: the theorems speak about every
   completed run, for every stack order ([stack0] is any list with the listed
   types as elements). *)
From Coq Require Import List Arith Bool.
Import ListNotations.
From TF Require Import Base.Hier Base.Ty Sub.Match Sub.SubSpec Sub.SubProofs.
From TF Require Import Canon.Worklist Canon.Succ Canon.Canon Canon.SuccProofs Canon.CanonProofs Canon.PinnedRefute.

(* ---- the canonical set ---- *)

(* it is the least set containing the listed types and closed under the
   Top/Bottom-generalisation step and the direct-subtype step, independently of
   the order in which Python's sets are iterated *)
Theorem C10_canon_closure : forall H ops top bot listed fuel stack0 c,
  (forall x, In x stack0 <-> In x listed) ->
  expand_canon H ops top bot fuel stack0 listed = Some c ->
  forall s, In s c <-> Clo (can_step H ops top bot) listed s.
Proof. exact expand_canon_closure. Qed.
Print Assumptions C10_canon_closure.

(* it contains every subtype of each listed type, of any depth, that mentions
   Bottom only if Bottom was requested and Top only if Top was requested *)
Theorem C10_canon_complete : forall H, wf_hier H ->
  forall ops, (forall o p, parent H o = Some p -> In o ops) ->
  forall top bot listed, Forall (wf_ty H) listed -> Forall plain listed ->
  forall fuel stack0 c, (forall x, In x stack0 <-> In x listed) ->
  expand_canon H ops top bot fuel stack0 listed = Some c ->
  forall t s, In t listed -> wf_ty H s -> allowed top bot s -> Sub H s t -> In s c.
Proof. exact canon_complete. Qed.
Print Assumptions C10_canon_complete.

(* Bottom-variants and Top-generalisations only when requested; everything
   canonical is a well-formed type *)
Theorem C10_canon_flags : forall H, wf_hier H ->
  forall ops, (forall o p, parent H o = Some p -> In o ops) ->
  forall top bot listed, Forall (wf_ty H) listed -> Forall plain listed ->
  forall fuel stack0 c, (forall x, In x stack0 <-> In x listed) ->
  expand_canon H ops top bot fuel stack0 listed = Some c ->
  forall s, In s c -> wf_ty H s /\ allowed top bot s.
Proof. exact canon_good. Qed.
Print Assumptions C10_canon_flags.

Theorem C10_canon_has_top : forall H, wf_hier H ->
  forall ops, (forall o p, parent H o = Some p -> In o ops) ->
  forall top bot listed, Forall (wf_ty H) listed -> Forall plain listed ->
  forall fuel stack0 c, (forall x, In x stack0 <-> In x listed) ->
  expand_canon H ops top bot fuel stack0 listed = Some c ->
  top = true -> listed <> [] -> In tTop c.
Proof. exact canon_has_top. Qed.
Print Assumptions C10_canon_has_top.

Theorem C10_canon_has_bottom : forall H, wf_hier H ->
  forall ops, (forall o p, parent H o = Some p -> In o ops) ->
  forall top bot listed, Forall (wf_ty H) listed -> Forall plain listed ->
  forall fuel stack0 c, (forall x, In x stack0 <-> In x listed) ->
  expand_canon H ops top bot fuel stack0 listed = Some c ->
  bot = true -> listed <> [] -> In tBot c.
Proof. exact canon_has_bottom. Qed.
Print Assumptions C10_canon_has_bottom.

(* the engine of completeness: every allowed subtype (d = true) or supertype
   (d = false) of a Top/Bottom-free type is reached by a chain of one-step
   successors of TypeOperation.successors *)
Theorem C10_chain : forall H, wf_hier H ->
  forall ops, (forall o p, parent H o = Some p -> In o ops) ->
  forall top bot t, plain t -> wf_ty H t ->
  forall d s, wf_ty H s -> allowed top bot s -> dirSub H d s t ->
  Reach H ops top bot true d t s.
Proof. exact chain. Qed.
Print Assumptions C10_chain.

(* ---- the taxonomy on an arbitrary set of well-formed canonical types ---- *)

(* every reported direct link is a strict subtype pair of canonical types *)
Theorem C10_links_sound : forall H, wf_hier H -> forall canon, Forall (wf_ty H) canon ->
  forall t s, wf_ty H t ->
  (In s (subtypes H canon t) -> In s canon /\ Lt H s t) /\
  (In s (supertypes H canon t) -> In s canon /\ Lt H t s).
Proof. exact links_sound. Qed.
Print Assumptions C10_links_sound.

(* direct subtype and supertype links mirror each other *)
Theorem C10_mirror : forall H canon s t, In s canon -> In t canon ->
  (In s (subtypes H canon t) <-> In t (supertypes H canon s)).
Proof. exact mirror. Qed.
Print Assumptions C10_mirror.

(* s is reachable from t through the direct-subtype links iff s is a canonical
   strict subtype of t; dually through the direct-supertype links *)
Theorem C10_reach_exact : forall H, wf_hier H -> forall canon, Forall (wf_ty H) canon ->
  forall t s, wf_ty H t ->
  (LReach H canon DOWN t s <-> In s canon /\ Lt H s t) /\
  (LReach H canon UP t s <-> In s canon /\ Lt H t s).
Proof. exact reach_exact. Qed.
Print Assumptions C10_reach_exact.

(* subtypes(t, transitive=True) / supertypes(t, transitive=True) *)
Theorem C10_transitive_exact : forall H, wf_hier H -> forall canon, Forall (wf_ty H) canon ->
  forall t s, wf_ty H t ->
  (In s (lang_succ H canon DOWN t true) <-> In s canon /\ Lt H s t) /\
  (In s (lang_succ H canon UP t true) <-> In s canon /\ Lt H t s).
Proof. exact transitive_exact. Qed.
Print Assumptions C10_transitive_exact.

(* the rdfs:subClassOf triples of add_taxonomy() are exactly the links ... *)
Theorem C10_taxonomy_exact : forall H canon s t,
  In (s, t) (taxonomy H canon) <-> In s canon /\ In t canon /\ In s (subtypes H canon t).
Proof. exact taxonomy_exact. Qed.
Print Assumptions C10_taxonomy_exact.

(* ... and with the closure requested, exactly the reflexive-transitive
   closure, i.e. the subtype order restricted to the canonical types *)
Theorem C10_closure_exact : forall H, wf_hier H -> forall canon, Forall (wf_ty H) canon ->
  forall fuel cl, closure_of (taxonomy H canon) fuel canon = Some cl ->
  forall s t, In (s, t) cl <-> In s canon /\ In t canon /\ Sub H s t.
Proof. exact closure_exact. Qed.
Print Assumptions C10_closure_exact.

(* both halves together, on the set expand_canon computes *)
Theorem C10_canon_order_exact : forall H, wf_hier H ->
  forall ops, (forall o p, parent H o = Some p -> In o ops) ->
  forall top bot listed, Forall (wf_ty H) listed -> Forall plain listed ->
  forall fuel stack0 c, (forall x, In x stack0 <-> In x listed) ->
  expand_canon H ops top bot fuel stack0 listed = Some c ->
  forall s t, In s c -> In t c ->
    (LReach H c DOWN t s <-> Sub H s t /\ s <> t) /\
    (LReach H c UP s t <-> Sub H s t /\ s <> t) /\
    (In s (subtypes H c t) <-> In t (supertypes H c s)).
Proof. exact canon_order_exact. Qed.
Print Assumptions C10_canon_order_exact.

(* the vocabulary's type nodes: every canonical type, and nothing but canonical
   types and the parameters describing them *)
Theorem C10_vocab_types : forall canon,
  (forall t, In t canon -> In t (vocab_types canon)) /\
  (forall s, In s (vocab_types canon) -> exists t, In t canon /\ Subterm s t).
Proof. exact vocab_types_exact. Qed.
Print Assumptions C10_vocab_types.

(* ---- the pinned Language.successors violates the property ---- *)

(* canon {Top, A, F(C)} over A > B > C: F(C) is a canonical strict subtype of
   Top that no chain of reported direct-subtype links reaches *)
Theorem C10_reach_pinned_refuted : exists H ops top bot listed c t s,
  wf_hier H /\ (forall o p, parent H o = Some p -> In o ops) /\
  Forall (wf_ty H) listed /\ Forall plain listed /\
  expand_canon H ops top bot 100 (rev listed) listed = Some c /\
  In t c /\ In s c /\ Sub H s t /\ s <> t /\
  ~ Clo (lang_succ_pinned H ops top bot c DOWN) [t] s.
Proof. exact pinned_reach_refuted. Qed.
Print Assumptions C10_reach_pinned_refuted.

(* canon {Top, A, K(A)} with contravariant K: Top in supertypes(K(A)) but
   K(A) not in subtypes(Top) *)
Theorem C10_mirror_pinned_refuted : exists H ops top bot c t s,
  In t c /\ In s c /\
  In t (lang_succ_pinned H ops top bot c UP s) /\
  ~ In s (lang_succ_pinned H ops top bot c DOWN t).
Proof. exact pinned_mirror_refuted. Qed.
Print Assumptions C10_mirror_pinned_refuted.

(* ---- non-vacuity: a language with a three-level chain A(5) > B(6) > C(7),
   an unrelated D(8), covariant unary F(9), K(10) with variance (co, contra);
   listed = {A, K(F(B), C)}, Top and Bottom requested ---- *)
Definition exH : hier := mk_hier [(6, 5); (7, 6)] [(9, [true]); (10, [true; false])].
Definition exOps : list nat := [5; 6; 7; 8; 9; 10].
Definition exListed : list ty := [TOp 5 []; TOp 10 [TOp 9 [TOp 6 []]; TOp 7 []]].
Definition exCanon : list ty :=
  match expand_canon exH exOps true true 2000 (rev exListed) exListed with Some c => c | None => [] end.

Example ex_hyps : wf_hier exH /\ (forall o p, parent exH o = Some p -> In o exOps) /\
  Forall (wf_ty exH) exListed /\ Forall plain exListed.
Proof.
  split; [|split; [|split]].
  - split.
    + intros o p. cbn. repeat (destruct o as [|o]; try discriminate; cbn); intros [= <-]; auto with arith.
    + intros o p. cbn. repeat (destruct o as [|o]; try discriminate; cbn); intros [= <-]; cbn; repeat split; discriminate.
    + split; reflexivity.
    + split; reflexivity.
    + reflexivity.
  - intros o p. cbn. repeat (destruct o as [|o]; try discriminate; cbn); intros _; cbn; tauto.
  - repeat constructor.
  - cbn. repeat constructor; discriminate.
Qed.

(* the run completes; 35 canonical types *)
Example ex_run : expand_canon exH exOps true true 2000 (rev exListed) exListed = Some exCanon /\
  length exCanon = 35.
Proof. split; vm_compute; reflexivity. Qed.

(* K(F(Bottom), Top) is canonical (two generalisations below the listed type),
   K(F(A), C) is not (it is a supertype of the listed type) *)
Example ex_members :
  tmem (TOp 10 [TOp 9 [TOp 1 []]; TOp 0 []]) exCanon = true /\
  tmem (TOp 10 [TOp 9 [TOp 5 []]; TOp 7 []]) exCanon = false.
Proof. split; vm_compute; reflexivity. Qed.

(* direct links are covers: Top's direct subtypes, and a two-step chain *)
Example ex_links :
  subtypes exH exCanon tTop = [TOp 10 [TOp 0 []; TOp 1 []]; TOp 5 []] /\
  tmem (TOp 10 [TOp 9 [TOp 6 []]; TOp 7 []])
       (lang_succ exH exCanon DOWN tTop true) = true /\
  tmem (TOp 10 [TOp 9 [TOp 6 []]; TOp 7 []]) (subtypes exH exCanon tTop) = false.
Proof. repeat split; vm_compute; reflexivity. Qed.
