(* C04 (operators with pure subtype constraints)  Every expression that parses
   is well-typed at every application node, every leaf is an instance of its
   declared signature, and every declared constraint of an operator whose
   variable got resolved HOLDS of that leaf's instantiation - the
   UNCONDITIONAL statement for expressions whose operator signatures carry
   pure subtype constraints on their schematic variables

        lambda x: x ** x ** x [x <= Ord]        (SCSub (SVar i) (SOp a []) strict,
                                                 i < s_n, a a base operator: [psc])

   the common case in real transformation languages.  Lifts props/C04_core.v
   (constraint-free signatures) with props/C03_sub.v (engine soundness for
   pure constraints).  Proofs: Infer/ExprSoundSub.v.

   Expression trees [expr], [compile], [prog_of], [nodes], [leaves], [occ]: as
   in props/C04_core.v.  [leaves_okS H e]: every operator leaf has a
   well-scoped arity-correct body and constraints satisfying [psc]; every
   source type is arity-correct ([leaves_ok] is the special case s_constrs = []:
   C04_sub_generalises).

   C04_sub_compile_wf   the compiled program lies in class [progS] of C03_sub
                        and is well-scoped.
   C04_sub              for every accepted expression:
     (a) under EVERY grounding th satisfying the final store every application
         node has den f = Function [a; b], Sub (den x) a, den node = b (or
         den f = Top = den node)                       - as C04_core;
     (b) for every leaf (k, sch) there is n0 - the number of the first fresh
         variable of the leaf's own instantiation, listed for k in
         [prog_vars] (a function of k: C04_sub_vars_fun; computed by running
         the program, see the examples) - such that, with
         env = [V n0; ...; V (n0 + s_n sch - 1)] and sigma i = den th (env_i):
         (b1) under EVERY satisfying grounding the leaf's value denotes an
              instance of its declared body under sigma ([sinst]; = [ssubst]
              sigma body when the body has no wildcard)   - C04_leaf_instance
              with the substitution made explicit;
         (b2) every declared constraint  x_i <= a  (x_i < a)  of the leaf whose
              variable env_i is RESOLVED in the final store (follows to a
              concrete operation O o args) holds: Sub (TOp o []) (TOp a []),
              o <> a when strict, args = [] unless a = Top; and, read with a
              grounding, Sub (sigma i) (TOp a []) and sigma i <> TOp a [] when
              strict.
   C04_sub_leaf_objects the link behind (b2): the m declared constraints of the
                        leaf are the constraint objects c0 .. c0+m-1 of the
                        final store, in declaration order, with k_ref = env_i,
                        k_alts = [O a []], k_strict as declared (so the whole
                        invariant C03_sub_constraints / C04_sub_constraints
                        applies to them: an UNRESOLVED constraint that is not
                        fulfilled is attached to the set of the unbound
                        variable its reference follows to).
   C04_sub_alloc        per operation: an instance of a schema with m pure
                        constraints allocates exactly m constraint objects, in
                        order, on its own fresh variables.
   C04_sub_frame        no engine operation changes the reference, target or
                        strictness of an existing constraint object, and only
                        instance allocates ([cfr 0]).
   C04_sub_satisfiable  an accepted expression has a satisfying grounding.

   Part 2 (the C04_sub_full theorems): the whole program harness/c04.py compiles - numbered
   inputs, annotations, typed-source self-unification, data operators, the fix
   traversal ([xexpr], [xprog] of props/C04_core.v) over operators with pure
   constraints ([xokS]); class [progSQ] = CInst (pure constraints) / CApply /
   CUnify (subtype mode) / CFix.
   C04_sub_prog_sound   C04_prog_sound for [progSQ] + the leaf clause (b) for
                        every CInst.
   C04_sub_constraints  C03_sub_constraints for [progSQ] (now with CUnify/CFix).
   C04_sub_full         C04_full for [xokS] + the leaf clause (b) for every
                        operator leaf ([xleaves]) of the tree.

   Why (b2) is conditional on resolution: [sat] reads the variable cells only;
   a pending constraint on an unresolved variable restricts nothing yet
   (example ex_pending: y >= A and y < A both pending is accepted by the
   engine; the constraint is attached and re-checked when y gets bound).
   Not covered: elimination constraints and subtype constraints whose target
   is not a base type or whose reference is not a bare variable (the gap of
   C03_sub).  The statements are about the model of the construction sequence,
   tied to Language.parse_expr / Expr.fix by the correspondence check. *)
From Coq Require Import List Arith Bool.
Import ListNotations.
From TF Require Import Base.Hier Base.Ty Sub.SubSpec Infer.Store Infer.Engine Infer.Run
  Infer.Witness Infer.Check Infer.Inv Infer.Sound Infer.SchedIndep Infer.SoundSub
  Infer.ExprSound Infer.ExprSoundSub.

(* ---- the classes, by unfolding ---- *)
Example C04_sub_reading : forall H,
  (forall sc, leaves_okS H (EOp sc) =
     (styg H (s_n sc) (s_body sc) /\ Forall (psc H (s_n sc)) (s_constrs sc))) /\
  (forall t, leaves_okS H (ESrc t) = styg H (sbound t) t) /\
  (forall f x, leaves_okS H (EApp f x) = (leaves_okS H f /\ leaves_okS H x)) /\
  (forall n i a st, psc H n (SCSub (SVar i) (SOp a []) st) = (i < n /\ variance H a = [])) /\
  (forall th env i, sig_of th env i = den th (nth i env (V 0))) /\
  (forall fuel sc prog, prog_vars H fuel sc prog = inst_trace H fuel prog [] (empty_store sc)).
Proof. intros. repeat split. Qed.

Theorem C04_sub_generalises : forall H e, leaves_ok H e -> leaves_okS H e.
Proof. exact leaves_ok_okS. Qed.
Print Assumptions C04_sub_generalises.

(* ---- (2) the compiled program is in the class ---- *)
Theorem C04_sub_compile_wf : forall H e, leaves_okS H e -> forall n,
  let '(cs, v, n') := compile e n in
  progS H n cs /\ prog_wf n cs /\ length cs = size e /\ v = n + size e - 1 /\ n' = n + size e.
Proof. exact compile_wfS. Qed.
Print Assumptions C04_sub_compile_wf.

Theorem C04_sub_compile_progS : forall H e, leaves_okS H e -> progS H 0 (prog_of e) /\ prog_wf 0 (prog_of e).
Proof.
  intros H e L. rewrite prog_of_code. pose proof (code_progS H e L 0) as P.
  split; [exact P|apply (progSQ_wf H); apply progS_SQ; exact P].
Qed.
Print Assumptions C04_sub_compile_progS.

(* ---- (3) the main theorem ---- *)
Theorem C04_sub : forall H, wf_hier H ->
  forall e fuel sc vals s, leaves_okS H e ->
  run_cmds H fuel (prog_of e) 0 [] (empty_store sc) = (None, vals, s) ->
  (* (a) application nodes *)
  (forall th, sat H th s -> forall f x r, In (f, x, r) (nodes e 0) ->
     (exists a b, den th (val vals f) = TOp Function [a; b] /\
                  Sub H (den th (val vals x)) a /\ den th (val vals r) = b) \/
     (den th (val vals f) = TOp Top [] /\ den th (val vals r) = TOp Top [])) /\
  (* (b) leaves *)
  (forall k sch, In (k, sch) (leaves e 0) ->
     exists n0, In (k, n0) (prog_vars H fuel sc (prog_of e)) /\
       let env := map V (seq n0 (s_n sch)) in
       (* (b1) the leaf is the instance of its signature under its own variables *)
       (forall th, sat H th s ->
          (forall i, wf_ty H (den th (nth i env (V 0)))) /\
          sinst H (fun i => den th (nth i env (V 0))) (s_body sch) (den th (val vals k)) /\
          (nowild (s_body sch) = true ->
             den th (val vals k) = ssubst (fun i => den th (nth i env (V 0))) (s_body sch))) /\
       (* (b2) every declared constraint whose variable is resolved holds *)
       (forall i a st, In (SCSub (SVar i) (SOp a []) st) (s_constrs sch) ->
          forall o args, follow s (nth i env (V 0)) = O o args ->
            (Sub H (TOp o []) (TOp a []) /\ (st = true -> o <> a) /\ (args = [] \/ a = Top)) /\
            forall th, sat H th s ->
              Sub H (den th (nth i env (V 0))) (TOp a []) /\
              (st = true -> den th (nth i env (V 0)) <> TOp a []))).
Proof. exact expr_sub. Qed.
Print Assumptions C04_sub.

(* the same, quantified over the sub-expression occurrences *)
Theorem C04_sub_occ : forall H, wf_hier H ->
  forall e fuel sc vals s, leaves_okS H e ->
  run_cmds H fuel (prog_of e) 0 [] (empty_store sc) = (None, vals, s) ->
  (forall th, sat H th s -> forall f x m, occ e 0 (EApp f x) m ->
     let tf := den th (val vals (vidx f m)) in
     let tx := den th (val vals (vidx x (m + size f))) in
     let tr := den th (val vals (vidx (EApp f x) m)) in
     (exists a b, tf = TOp Function [a; b] /\ Sub H tx a /\ tr = b) \/
     (tf = TOp Top [] /\ tr = TOp Top [])) /\
  (forall g m sch, occ e 0 g m -> leaf_schema g = Some sch ->
     exists n0, In (m, n0) (prog_vars H fuel sc (prog_of e)) /\ leaf_sem H n0 s vals m sch).
Proof.
  intros H W e fuel sc vals s L R. destruct (expr_sub H W e fuel sc vals s L R) as (A & B). split.
  - intros th S f x m Oc. cbv zeta. apply (A th S). apply nodes_occ. exists f, x, m. auto.
  - intros g m sch Oc E. apply B. apply leaves_occ. exists g. auto.
Qed.
Print Assumptions C04_sub_occ.

(* the value index determines n0 *)
Theorem C04_sub_vars_fun : forall H e fuel sc, leaves_okS H e ->
  forall k n0 n0', In (k, n0) (prog_vars H fuel sc (prog_of e)) ->
    In (k, n0') (prog_vars H fuel sc (prog_of e)) -> n0 = n0'.
Proof.
  intros H e fuel sc L. rewrite prog_of_code.
  apply (inst_trace_fun H fuel (code e 0) [] (empty_store sc)). apply progS_SQ. apply code_progS. exact L.
Qed.
Print Assumptions C04_sub_vars_fun.

(* the constraint objects of a leaf *)
Theorem C04_sub_leaf_objects : forall H, wf_hier H ->
  forall e fuel sc vals s, leaves_okS H e ->
  run_cmds H fuel (prog_of e) 0 [] (empty_store sc) = (None, vals, s) ->
  forall k sch, In (k, sch) (leaves e 0) ->
  exists n0 c0, In (k, n0) (prog_vars H fuel sc (prog_of e)) /\
    c0 + length (s_constrs sch) <= length (constrs s) /\
    forall j i a st, nth_error (s_constrs sch) j = Some (SCSub (SVar i) (SOp a []) st) ->
      k_ref (constr_of s (c0 + j)) = nth i (map V (seq n0 (s_n sch))) (V 0) /\
      k_alts (constr_of s (c0 + j)) = [O a []] /\
      k_strict (constr_of s (c0 + j)) = st.
Proof.
  intros H W e fuel sc vals s L R k sch Hin. rewrite prog_of_code in *. rewrite <- insts_code0 in Hin.
  destruct (run_cmds_leaves H W fuel (code e 0) 0 [] (empty_store sc) vals s (Jv_empty H sc)
              (allpure_empty H sc) (Forall_nil _) (progS_SQ H _ _ (code_progS H e L 0)) R k sch Hin)
    as (n0 & Hn0 & c0 & Lc & Hj & _).
  exists n0, c0. split; [exact Hn0|split; [exact Lc|exact Hj]].
Qed.
Print Assumptions C04_sub_leaf_objects.

(* per operation: the constraints an instance allocates
   ([cfr H m s s'] = s' has exactly m more constraint objects than s, the old
   ones with unchanged reference, target and strictness; every object pure) *)
Theorem C04_sub_alloc : forall H fuel sc s r s', allpure H s ->
  Forall (psc H (s_n sc)) (s_constrs sc) ->
  instance H fuel sc s = MOk r s' ->
  (allpure H s' /\ length (constrs s') = length (s_constrs sc) + length (constrs s) /\
   forall c, c < length (constrs s) ->
     k_ref (constr_of s' c) = k_ref (constr_of s c) /\ k_alts (constr_of s' c) = k_alts (constr_of s c) /\
     k_strict (constr_of s' c) = k_strict (constr_of s c)) /\
  forall j i a st, nth_error (s_constrs sc) j = Some (SCSub (SVar i) (SOp a []) st) ->
    k_ref (constr_of s' (length (constrs s) + j)) = nth i (map V (seq (length (vars s)) (s_n sc))) (V 0) /\
    k_alts (constr_of s' (length (constrs s) + j)) = [O a []] /\
    k_strict (constr_of s' (length (constrs s) + j)) = st.
Proof. exact instance_alloc. Qed.
Print Assumptions C04_sub_alloc.

Theorem C04_sub_frame : forall H f,
  (forall sub skb skw a b s u s', allpure H s -> unify H f sub skb skw a b s = MOk u s' -> cfr H 0 s s') /\
  (forall pl t s r s', allpure H s -> fix_ty H f pl t s = MOk r s' -> cfr H 0 s s') /\
  (forall g x fixb s r s', allpure H s -> apply H f g x fixb s = MOk r s' -> cfr H 0 s s').
Proof.
  intros H f. split; [|split].
  - intros sub skb skw a b s u s' P E. exact (stb_unify H f sub skb skw a b s P u s' E).
  - intros pl t s r s' P E. exact (stb_fix_ty H f pl t s P r s' E).
  - intros g x fixb s r s' P E. exact (stb_apply H f g x fixb s P r s' E).
Qed.
Print Assumptions C04_sub_frame.

Theorem C04_sub_satisfiable : forall H, wf_hier H ->
  forall e fuel sc vals s, leaves_okS H e ->
  run_cmds H fuel (prog_of e) 0 [] (empty_store sc) = (None, vals, s) ->
  exists th, sat H th s.
Proof. exact expr_sub_satisfiable. Qed.
Print Assumptions C04_sub_satisfiable.

(* ---------- part 2: inputs, annotations, fix traversal ---------- *)
Example C04_sub_full_reading : forall H k,
  (forall sc d, xokS H k (XOp sc d) =
     (styg H (s_n sc) (s_body sc) /\ Forall (psc H (s_n sc)) (s_constrs sc))) /\
  (forall t, xokS H k (XSrc t) = styg H (sbound t) t) /\
  (forall i, xokS H k (XIn i) = (i < k)) /\
  (forall f x, xokS H k (XApp f x) = (xokS H k f /\ xokS H k x)) /\
  (forall e T, xokS H k (XAnn e T) = (xokS H k e /\ styg H (sbound T) T)) /\
  (forall sc d n, xleaves (XOp sc d) n = [(n, sc)]) /\
  (forall f x n, xleaves (XApp f x) n = xleaves f n ++ xleaves x (snd (xcompile f n))) /\
  (forall e T n, xleaves (XAnn e T) n = xleaves e n) /\
  (forall n0 s vals k sch, leaf_sem H n0 s vals k sch =
     let env := map V (seq n0 (s_n sch)) in
     (forall th, sat H th s ->
        (forall i, wf_ty H (sig_of th env i)) /\
        sinst H (sig_of th env) (s_body sch) (den th (val vals k)) /\
        (nowild (s_body sch) = true -> den th (val vals k) = ssubst (sig_of th env) (s_body sch))) /\
     (forall i a st, In (SCSub (SVar i) (SOp a []) st) (s_constrs sch) ->
        forall o args, follow s (nth i env (V 0)) = O o args ->
          (Sub H (TOp o []) (TOp a []) /\ (st = true -> o <> a) /\ (args = [] \/ a = Top)) /\
          forall th, sat H th s ->
            Sub H (sig_of th env i) (TOp a []) /\ (st = true -> sig_of th env i <> TOp a []))).
Proof. intros. repeat split. Qed.

(* the command class, by unfolding *)
Example C04_sub_progSQ_reading : forall H n,
  (forall sc, styg H (s_n sc) (s_body sc) -> Forall (psc H (s_n sc)) (s_constrs sc) -> cmdSQ H n (CInst sc)) /\
  (forall f x b, f < n -> x < n -> cmdSQ H n (CApply f x b)) /\
  (forall a b, a < n -> b < n -> cmdSQ H n (CUnify a b true)) /\
  (forall a pl, a < n -> cmdSQ H n (CFix a pl)) /\
  (forall c r, progSQ H n (c :: r) = (cmdSQ H n c /\ progSQ H (nxt c n) r)) /\
  (forall cs, progS H n cs -> progSQ H n cs).
Proof.
  intros H n. repeat apply conj; try (intros; constructor; auto; fail).
  intros cs. apply progS_SQ.
Qed.

Theorem C04_sub_prog_sound : forall H, wf_hier H ->
  forall fuel sc prog vals s, progSQ H 0 prog ->
  run_cmds H fuel prog 0 [] (empty_store sc) = (None, vals, s) ->
  (forall th, sat H th s ->
     (forall f x r, In (f, x, r) (steps_of prog 0) ->
        (exists a b, den th (val vals f) = TOp Function [a; b] /\
                     Sub H (den th (val vals x)) a /\ den th (val vals r) = b) \/
        (den th (val vals f) = TOp Top [] /\ den th (val vals r) = TOp Top [])) /\
     (forall a b, In (a, b) (unifs_of prog) -> Sub H (den th (val vals a)) (den th (val vals b))) /\
     (forall a r, In (a, r) (fixes_of prog 0) -> den th (val vals r) = den th (val vals a))) /\
  (forall k sch, In (k, sch) (insts_of prog 0) ->
     exists n0, In (k, n0) (prog_vars H fuel sc prog) /\ leaf_sem H n0 s vals k sch).
Proof.
  intros H W fuel sc prog vals s P R. split.
  - intros th S. exact (prog_sem_sub H W fuel sc prog vals s P R th S).
  - exact (prog_leaves_sub H W fuel sc prog vals s P R).
Qed.
Print Assumptions C04_sub_prog_sound.

Theorem C04_sub_constraints : forall H, wf_hier H ->
  forall fuel sc prog vals s, progSQ H 0 prog ->
  run_cmds H fuel prog 0 [] (empty_store sc) = (None, vals, s) ->
  forall c, c < length (constrs s) ->
  let k := constr_of s c in
  k_elim k = false /\ (exists x, k_ref k = V x) /\
  exists a, k_alts k = [O a []] /\ variance H a = [] /\
    (forall o args, follow s (k_ref k) = O o args ->
       Sub H (TOp o []) (TOp a []) /\ (k_strict k = true -> o <> a) /\ (args = [] \/ a = Top)) /\
    (forall u, follow s (k_ref k) = V u ->
       if k_done k then a = Top /\ k_strict k = false
       else In c (cset_of s (c_cs (cell_of s u)))).
Proof. exact constraints_holdQ. Qed.
Print Assumptions C04_sub_constraints.

Theorem C04_sub_full_compile_wf : forall H inputs e,
  Forall (fun t => styg H (sbound t) t) inputs -> xokS H (length inputs) e ->
  progSQ H 0 (xprog inputs e) /\ prog_wf 0 (xprog inputs e).
Proof.
  intros H inputs e Fi K. pose proof (xprog_okS H inputs e Fi K) as P.
  split; [exact P|apply (progSQ_wf H); exact P].
Qed.
Print Assumptions C04_sub_full_compile_wf.

Theorem C04_sub_full : forall H, wf_hier H ->
  forall inputs e fuel sc vals s,
  Forall (fun t => styg H (sbound t) t) inputs -> xokS H (length inputs) e ->
  run_cmds H fuel (xprog inputs e) 0 [] (empty_store sc) = (None, vals, s) ->
  (* as C04_full *)
  (forall th, sat H th s ->
     let k := length inputs in
     let '(cs, nd, n1) := xcompile e k in
     (forall i t, nth_error inputs i = Some t -> is_inst H th (src_schema t) (val vals i)) /\
     xsem H th vals e k /\ nsem H th vals nd /\
     nsem H th vals (fst (fixed nd n1)) /\
     den th (val vals (nval (fst (fixed nd n1)))) = den th (val vals (nval nd))) /\
  (* every CInst of the program (inputs, sources, annotations, operators) *)
  (forall k sch, In (k, sch) (insts_of (xprog inputs e) 0) ->
     exists n0, In (k, n0) (prog_vars H fuel sc (xprog inputs e)) /\ leaf_sem H n0 s vals k sch) /\
  (* in particular every operator leaf of the tree, with its declared constraints *)
  (forall k sch, In (k, sch) (xleaves e (length inputs)) ->
     exists n0, In (k, n0) (prog_vars H fuel sc (xprog inputs e)) /\ leaf_sem H n0 s vals k sch).
Proof. exact xexpr_sub. Qed.
Print Assumptions C04_sub_full.

Theorem C04_sub_full_satisfiable : forall H, wf_hier H ->
  forall inputs e fuel sc vals s,
  Forall (fun t => styg H (sbound t) t) inputs -> xokS H (length inputs) e ->
  run_cmds H fuel (xprog inputs e) 0 [] (empty_store sc) = (None, vals, s) ->
  exists th, sat H th s.
Proof. exact xexpr_sub_satisfiable. Qed.
Print Assumptions C04_sub_full_satisfiable.

(* ---------- non-vacuity ---------- *)
(* A = 5, B = 6 < A, F = 7 unary covariant *)
Definition exH := mk_hier [(6,5)] [(7,[true])].
Example exH_wf : wf_hier exH.
Proof.
  split.
  - intros o p. cbn. repeat (destruct o as [|o]; try discriminate; cbn); intros [= <-]; auto with arith.
  - intros o p. cbn. repeat (destruct o as [|o]; try discriminate; cbn); intros [= <-]; cbn; repeat split; discriminate.
  - split; reflexivity.
  - split; reflexivity.
  - reflexivity.
Qed.

(* min : x ** x ** x [x <= A]          sel : F(x) ** y ** x [x <= A, y < A] *)
Definition s_min := mkSchema 1 (SOp Function [SVar 0; SOp Function [SVar 0; SVar 0]])
  [SCSub (SVar 0) (SOp 5 []) false].
Definition s_sel := mkSchema 2 (SOp Function [SOp 7 [SVar 0]; SOp Function [SVar 1; SVar 0]])
  [SCSub (SVar 0) (SOp 5 []) false; SCSub (SVar 1) (SOp 5 []) true].

(* sel (- : F(B)) (min (- : B) -) *)
Definition e_ok := EApp (EApp (EOp s_sel) (ESrc (SOp 7 [SOp 6 []])))
                        (EApp (EApp (EOp s_min) (ESrc (SOp 6 []))) (ESrc SWild)).

Example e_ok_leaves_okS : leaves_okS exH e_ok.
Proof. cbn. repeat split; repeat (constructor; cbn; auto with arith). Qed.

Example e_ok_prog : prog_of e_ok =
  [CInst s_sel; CInst (mkSchema 0 (SOp 7 [SOp 6 []]) []); CApply 0 1 true;
   CInst s_min; CInst (mkSchema 0 (SOp 6 []) []); CApply 3 4 true;
   CInst (mkSchema 0 SWild []); CApply 5 6 true; CApply 2 7 true].
Proof. reflexivity. Qed.

Example e_ok_leaves : leaves e_ok 0 =
  [(0, s_sel); (1, mkSchema 0 (SOp 7 [SOp 6 []]) []); (3, s_min); (4, mkSchema 0 (SOp 6 []) []);
   (6, mkSchema 0 SWild [])].
Proof. reflexivity. Qed.

Definition ok_run := Eval vm_compute in run_cmds exH 400 (prog_of e_ok) 0 [] (empty_store []).
Definition ok_vals := snd (fst ok_run).
Definition ok_s := snd ok_run.

Example e_ok_accepted : run_cmds exH 400 (prog_of e_ok) 0 [] (empty_store []) = (None, ok_vals, ok_s).
Proof. vm_compute. reflexivity. Qed.

(* sel's variables are V 0, V 1; min's is V 2; the untyped source's is V 3 *)
Example e_ok_vars : prog_vars exH 400 [] (prog_of e_ok) = [(0, 0); (1, 2); (3, 2); (4, 3); (6, 3)].
Proof. vm_compute. reflexivity. Qed.

(* the final store: x of sel := B, y of sel unresolved with lower bound B and
   its constraint y < A pending and attached, x of min := B *)
Example e_ok_store :
  map (fun c => (c_bound c, c_lower c, c_upper c)) (vars ok_s) =
    [(Some (O 6 []), Some 6, None); (None, Some 6, None); (Some (O 6 []), Some 6, None); (Some (V 2), None, None)] /\
  map (fun k => (k_ref k, k_alts k, k_strict k, k_done k)) (constrs ok_s) =
    [(V 0, [O 5 []], false, true); (V 1, [O 5 []], true, false); (V 2, [O 5 []], false, true)] /\
  csets ok_s = [[]; [1]; []; []].
Proof. vm_compute. repeat split. Qed.

(* the theorem applied to the leaf sel (value 0): its instantiation has x := th 0
   with  th 0 <= A  under every satisfying grounding, because x is resolved *)
Example e_ok_sel_constraint : forall th, sat exH th ok_s ->
  den th (val ok_vals 0) = TOp Function [TOp 7 [th 0]; TOp Function [th 1; th 0]] /\
  Sub exH (th 0) (TOp 5 []).
Proof.
  intros th S.
  destruct (C04_sub exH exH_wf e_ok 400 [] ok_vals ok_s e_ok_leaves_okS e_ok_accepted) as (_ & B).
  destruct (B 0 s_sel) as (n0 & Hn0 & B1 & B2); [left; reflexivity|].
  rewrite e_ok_vars in Hn0.
  assert (n0 = 0) as ->.
  { destruct Hn0 as [E|[E|[E|[E|[E|[]]]]]]; inversion E; reflexivity. }
  split.
  - destruct (B1 th S) as (_ & _ & E). apply E. reflexivity.
  - destruct (B2 0 5 false) with (o := 6) (args := @nil tyv) as (_ & Sem); [left; reflexivity|reflexivity|].
    apply (Sem th S).
Qed.

(* ... and to the leaf min (value 3): x := th 2 <= A *)
Example e_ok_min_constraint : forall th, sat exH th ok_s -> Sub exH (th 2) (TOp 5 []).
Proof.
  intros th S.
  destruct (C04_sub exH exH_wf e_ok 400 [] ok_vals ok_s e_ok_leaves_okS e_ok_accepted) as (_ & B).
  destruct (B 3 s_min) as (n0 & Hn0 & _ & B2); [right; right; left; reflexivity|].
  rewrite e_ok_vars in Hn0.
  assert (n0 = 2) as ->.
  { destruct Hn0 as [E|[E|[E|[E|[E|[]]]]]]; inversion E; reflexivity. }
  destruct (B2 0 5 false) with (o := 6) (args := @nil tyv) as (_ & Sem); [left; reflexivity|reflexivity|].
  apply (Sem th S).
Qed.

(* the re-check matters: lt : x ** x [x < A] applied to (- : A) resolves x := A - rejected;
   without the constraint the same expression is accepted *)
Definition s_lt := mkSchema 1 (SOp Function [SVar 0; SVar 0]) [SCSub (SVar 0) (SOp 5 []) true].
Definition e_bad := EApp (EOp s_lt) (ESrc (SOp 5 [])).
Example e_bad_leaves_okS : leaves_okS exH e_bad.
Proof. cbn. repeat split; repeat (constructor; cbn; auto with arith). Qed.
Example e_bad_rejected :
  fst (fst (run_cmds exH 400 (prog_of e_bad) 0 [] (empty_store []))) = Some (EConstraintViolation, 2).
Proof. vm_compute. reflexivity. Qed.
Example e_bad_erased_accepted :
  fst (fst (run_cmds exH 400 (map erase_cmd (prog_of e_bad)) 0 [] (empty_store []))) = None.
Proof. vm_compute. reflexivity. Qed.

(* why (b2) is conditional: sel (- : F(B)) (- : A) leaves y unresolved with lower
   bound A and the constraint y < A pending - accepted by the engine *)
Definition e_pending := EApp (EApp (EOp s_sel) (ESrc (SOp 7 [SOp 6 []]))) (ESrc (SOp 5 [])).
Example ex_pending :
  let r := run_cmds exH 400 (prog_of e_pending) 0 [] (empty_store []) in
  fst (fst r) = None /\
  map (fun c => (c_bound c, c_lower c)) (vars (snd r)) = [(Some (O 6 []), Some 6); (None, Some 5)] /\
  map (fun k => (k_ref k, k_strict k, k_done k)) (constrs (snd r)) = [(V 0, false, true); (V 1, true, false)] /\
  csets (snd r) = [[]; [1]].
Proof. vm_compute. repeat split. Qed.

(* ---------- part 2 example ---------- *)
(* input 1 : B;   (min 1 (- : B)) : A    through the full compiler *)
Definition x_ok := XAnn (XApp (XApp (XOp s_min false) (XIn 0)) (XSrc (SOp 6 []))) (SOp 5 []).

Example x_ok_okS : Forall (fun t => styg exH (sbound t) t) [SOp 6 []] /\ xokS exH 1 x_ok.
Proof. cbn. repeat split; repeat (constructor; cbn; auto with arith). Qed.

Example x_ok_prog : xprog [SOp 6 []] x_ok =
  [CInst (mkSchema 0 (SOp 6 []) []); CInst s_min; CApply 1 0 true;
   CInst (mkSchema 0 (SOp 6 []) []); CUnify 3 3 true; CApply 2 3 true;
   CInst (mkSchema 0 (SOp 5 []) []); CUnify 4 5 true;
   CFix 0 false; CFix 2 true; CFix 3 false; CFix 4 true].
Proof. reflexivity. Qed.

Example x_ok_leaves : xleaves x_ok 1 = [(1, s_min)].
Proof. reflexivity. Qed.

Definition xok_run := Eval vm_compute in run_cmds exH 400 (xprog [SOp 6 []] x_ok) 0 [] (empty_store []).
Definition xok_vals := snd (fst xok_run).
Definition xok_s := snd xok_run.

Example x_ok_accepted :
  run_cmds exH 400 (xprog [SOp 6 []] x_ok) 0 [] (empty_store []) = (None, xok_vals, xok_s).
Proof. vm_compute. reflexivity. Qed.

Example x_ok_store :
  prog_vars exH 400 [] (xprog [SOp 6 []] x_ok) = [(0, 0); (1, 0); (3, 1); (5, 1)] /\
  map (fun c => (c_bound c, c_lower c, c_upper c)) (vars xok_s) = [(Some (O 6 []), Some 6, None)] /\
  map (fun k => (k_ref k, k_alts k, k_strict k, k_done k)) (constrs xok_s) = [(V 0, [O 5 []], false, true)].
Proof. vm_compute. repeat split. Qed.

Example x_ok_min_constraint : forall th, sat exH th xok_s -> Sub exH (th 0) (TOp 5 []).
Proof.
  intros th S.
  destruct (C04_sub_full exH exH_wf [SOp 6 []] x_ok 400 [] xok_vals xok_s (proj1 x_ok_okS) (proj2 x_ok_okS)
              x_ok_accepted) as (_ & _ & B).
  destruct (B 1 s_min) as (n0 & Hn0 & _ & B2); [left; reflexivity|].
  rewrite (proj1 x_ok_store) in Hn0.
  assert (n0 = 0) as ->.
  { destruct Hn0 as [E|[E|[E|[E|[]]]]]; inversion E; reflexivity. }
  destruct (B2 0 5 false) with (o := 6) (args := @nil tyv) as (_ & Sem); [left; reflexivity|reflexivity|].
  apply (Sem th S).
Qed.
