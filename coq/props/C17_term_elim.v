(* C17 (termination half, engine WITH elimination constraints)
   "type inference ... terminates with a result or a declared error" for the
   engine model Infer/Engine.v on stores / programs that carry pure subtype
   constraints  x <= A / x < A  AND elimination constraints  x << [A1..An]
   (x a bare schematic variable, Ai user base operators): class [progE] of
   Infer/SoundElimS.v, invariants [JE] (cells well-scoped, bounds proper,
   constraint objects of the class) and [inv] (Infer/Inv.v: acyclic, in range),
   which hold of every store reached by a progE program (C03_elim_final; ex_hyps).
   The model runs on fuel; "terminates" = an explicit fuel bound above which the
   answer is never [EFuel].  Proofs: Infer/TermElim.v.

   What is new against C17_term.v (pure subtype constraints).  Fulfilling an
   elimination constraint WRITES cells: when one alternative is left, fulfill
   marks the constraint fulfilled and calls unify(ref, alt) = below(ref, alt),
   which bounds (possibly binds) the reference and RE-ENTERS check_constraints on
   the pending set of that variable.  check_constraints hands every pending
   constraint the same fuel, so neither the number of pending constraints nor the
   number of alternatives matters (minimize and the filter need 3 units whatever
   the list) - what matters is the NESTING DEPTH of re-check rounds.

   Measure:  und s = number of elimination constraints of the store not yet marked
   fulfilled.  The mark is set before the nested unify and never reset, the engine
   creates constraints only in TypeSchema.instance, so a nested round always runs
   with a strictly smaller und.  The nesting path
        fulfill -> unify -> below -> bind -> check_constraints -> fulfill
   costs five units:
        C17_term_elim_fulfill   5 * und s + 4   (= ff_fuel (und s))
        C17_term_elim_cc        5 * und s + 5   (= cc_fuel (und s)); und does not grow
        C17_term_elim_below / _above   5 * und s + 9
   With und s = 0 these are the constants 4 / 5 of C17_term_sub_fulfill, C17_term_sub_cc.  The growth is
   real (ex_nest: und = 4, below needs 19 units, the bound gives 29; per level the
   engine spends 4 units, 5 when the variable also gets bound).

   Fuel shift.  A run-to-run simulation with the constraint-free run (as in
   C17_term_sub_shift_unify etc.) does not exist here: the constrained run writes cells the
   erased run does not, so the two runs branch differently.  Instead Infer/TermP.v's
   induction on fuel is redone with check_constraints no longer a no-op; the
   result is an ADDITIVE shift of the constraint-free BOUNDS by nest s = cc_fuel (und s):
        C17_term_elim_unify     fuel > unify_bound s a b + nest s
        C17_term_elim_apply     fuel > apply_bound s f x + nest s
        C17_term_elim_fix       fuel > fix_bound s t + nest s
        C17_term_elim_instance  fuel > inst_boundE s sc
          = max (m + (|vars s| + s_n + #wildcards) * m + cc_fuel (und s + #elim constraints of sc) + 2)
                (#constraints * (1 + most alternatives) + most alternatives + 1)
          (second term: Constraint.variables(indirect=True) walks every term of
           every constraint already attached to the schematic variable)
        C17_term_elim_prog      fuel >= prog_fuelE prog
          = max (D * (N + 1) + cc_fuel E + 8) K,  D, N as in C17_term_sub_prog,
            E = number of elimination constraints of all schemas of the program,
            K = largest closure term of a schema:
          the run of a progE program from the empty store ends with all commands
          executed or with one of the five declared typing errors - never EFuel,
          never an internal assertion (C17_engine_nocrash).

   Not covered: elimination constraints with compound alternatives or references,
   subtype constraints with compound targets, CUnify / CFix commands. *)
From Coq Require Import List Arith Bool Lia.
Import ListNotations.
From TF Require Import Base.Hier Base.Ty Sub.SubSpec Infer.Store Infer.Engine Infer.Run
  Infer.Inv Infer.Sound Infer.FixLeast Infer.TermP Infer.SchedIndep Infer.SoundSub Infer.TermSub
  Infer.SoundElimS Infer.SoundElimK Infer.SoundElim Infer.TermElim.
From TF Require Infer.FitsEngineList.

(* ---------- 1. one re-check / one round: fuel linear in the nesting measure ---------- *)
(* KW H s: every constraint object is a subtype constraint with one base target or an
   elimination constraint whose alternatives are user base operators (FL.good);
   chain s (V v): the binding chain from v is finite.  Both follow from JE / inv (ex_hyps). *)
Theorem C17_term_elim_fulfill : forall H f c s,
  (forall v, chain s (V v)) -> KW H s -> 5 * und s + 4 <= f ->
  forall s', fulfill H f c s <> MEr EFuel s'.
Proof. exact fulfill_nofuel_elim. Qed.
Print Assumptions C17_term_elim_fulfill.

Theorem C17_term_elim_cc : forall H f v s,
  (forall v, chain s (V v)) -> KW H s -> 5 * und s + 5 <= f ->
  match check_constraints H f v s with
  | MOk _ s' => und s' <= und s /\ KW H s' /\ forall v, chain s' (V v)
  | MEr e _ => e <> EFuel
  end.
Proof. exact cc_nofuel_elim. Qed.
Print Assumptions C17_term_elim_cc.

Theorem C17_term_elim_below : forall H f v a s,
  (forall v, chain s (V v)) -> KW H s -> 5 * und s + 5 + 4 <= f ->
  forall s', below H f v a s <> MEr EFuel s'.
Proof. exact below_nofuel_elim. Qed.
Print Assumptions C17_term_elim_below.

Theorem C17_term_elim_above : forall H f v a s,
  (forall v, chain s (V v)) -> KW H s -> 5 * und s + 5 + 4 <= f ->
  forall s', above H f v a s <> MEr EFuel s'.
Proof. exact above_nofuel_elim. Qed.
Print Assumptions C17_term_elim_above.

Example measures_def : forall H s u k,
  und s = length (filter (fun k => k_elim k && negb (k_done k)) (constrs s)) /\
  cc_fuel u = 5 * u + 5 /\ ff_fuel u = 5 * u + 4 /\ nest s = cc_fuel (und s) /\
  (shape H k <-> if k_elim k then exists l, Forall (FL.good H) l /\ k_alts k = FL.obs l
                 else exists a, k_alts k = [O a []] /\ basic H a = true) /\
  (KW H s <-> forall c, c < length (constrs s) -> shape H (constr_of s c)).
Proof. intros. repeat split; auto. Qed.

(* ---------- 2. unify / apply / fix: the constraint-free bounds shifted by nest s ---------- *)
Theorem C17_term_elim_unify : forall H, wf_hier H -> forall fuel a b s,
  JE H s -> inv s ->
  tg H (length (vars s)) a -> tg H (length (vars s)) b ->
  unify_bound s a b + nest s < fuel ->
  (exists s', unify H fuel true false false a b s = MOk tt s') \/
  (exists e s', unify H fuel true false false a b s = MEr e s' /\ e <> EFuel /\
                forall site, e <> ECrash site).
Proof. exact unify_term_elim. Qed.
Print Assumptions C17_term_elim_unify.

Theorem C17_term_elim_apply : forall H, wf_hier H -> forall fuel f x fixb s,
  JE H s -> inv s ->
  tg H (length (vars s)) f -> tg H (length (vars s)) x ->
  apply_bound s f x + nest s < fuel ->
  forall s', apply H fuel f x fixb s <> MEr EFuel s'.
Proof. exact apply_term_elim. Qed.
Print Assumptions C17_term_elim_apply.

Theorem C17_term_elim_fix : forall H, wf_hier H -> forall fuel pl t s,
  JE H s -> inv s -> tg H (length (vars s)) t ->
  fix_bound s t + nest s < fuel ->
  forall s', fix_ty H fuel pl t s <> MEr EFuel s'.
Proof. exact fix_term_elim. Qed.
Print Assumptions C17_term_elim_fix.

Example fix_bound_def : forall s t,
  fix_bound s t = mdep s t t + length (vars s) * mdep s t t + 2.
Proof. reflexivity. Qed.

(* ---------- 3. TypeSchema.instance with pscE constraints ---------- *)
(* pscE H n sc: SCSub (SVar i) (SOp a []) _ with a basic, or
               SCElim (SVar i) (map FL.sb l) with Forall (FL.good H) l; i < n *)
Theorem C17_term_elim_instance : forall H, wf_hier H -> forall fuel sc s,
  JE H s -> inv s ->
  styg H (s_n sc) (s_body sc) -> Forall (pscE H (s_n sc)) (s_constrs sc) ->
  inst_boundE s sc < fuel ->
  forall s', instance H fuel sc s <> MEr EFuel s'.
Proof. exact instance_term_elim. Qed.
Print Assumptions C17_term_elim_instance.

Example inst_boundE_def : forall s sc,
  inst_boundE s sc =
    let m := Nat.max 1 (Nat.max (mdepth s) (sdepth (s_body sc))) in
    let cs := s_constrs sc in
    Nat.max (m + (length (vars s) + (s_n sc + wilds (s_body sc))) * m + cc_fuel (und s + ecnt cs) + 2)
            (length cs * S (amax cs) + amax cs + 1).
Proof. reflexivity. Qed.
Example schema_measures : forall r alts t st,
  (iselim (SCElim r alts), nalts (SCElim r alts)) = (true, length alts) /\
  (iselim (SCSub r t st), nalts (SCSub r t st)) = (false, 1) /\
  (forall cs, ecnt cs = length (filter iselim cs) /\ amax cs = list_max (map nalts cs)).
Proof. intros. repeat split. Qed.

(* ---------- 4. whole programs ---------- *)
Theorem C17_term_elim_prog : forall H, wf_hier H -> forall prog sc fuel,
  progE H 0 prog -> prog_fuelE prog <= fuel ->
  match fst (fst (run_cmds H fuel prog 0 [] (empty_store sc))) with
  | None => True
  | Some (e, _) =>
      e = ESubtypeMismatch \/ e = ETypeMismatch \/ e = EFunApp \/ e = ERecursive \/
      e = EConstraintViolation
  end.
Proof. exact prog_term_elim. Qed.
Print Assumptions C17_term_elim_prog.

Example prog_fuelE_def : forall prog,
  prog_fuelE prog =
    Nat.max (Nat.max 1 (list_max (map cmd_depth prog)) * (list_sum (map cmd_vars prog) + 1)
             + cc_fuel (list_sum (map cmd_elim prog)) + 8)
            (list_max (map cmd_clos prog)).
Proof. reflexivity. Qed.
Example cmd_measuresE : forall sc f x b,
  (cmd_elim (CInst sc), cmd_clos (CInst sc)) =
    (ecnt (s_constrs sc),
     length (s_constrs sc) * S (amax (s_constrs sc)) + amax (s_constrs sc) + 2) /\
  (cmd_elim (CApply f x b), cmd_clos (CApply f x b)) = (0, 0).
Proof. intros. split; reflexivity. Qed.

(* ---------- non-vacuity ---------- *)
(* A = 5, B = 6 < A, C = 7, D = 8 (unrelated), F = 9 unary covariant *)
Definition exH := mk_hier [(6,5)] [(9,[true])].
Example exH_wf : wf_hier exH.
Proof.
  split.
  - intros o p. cbn. repeat (destruct o as [|o]; try discriminate; cbn); intros [= <-]; auto with arith.
  - intros o p. cbn. repeat (destruct o as [|o]; try discriminate; cbn); intros [= <-]; cbn; repeat split; discriminate.
  - split; reflexivity.
  - split; reflexivity.
  - reflexivity.
Qed.

Example good5 : FL.good exH 5. Proof. repeat split; discriminate. Qed.
Example good7 : FL.good exH 7. Proof. repeat split; discriminate. Qed.
Example good8 : FL.good exH 8. Proof. repeat split; discriminate. Qed.

Definition conc (t : sty) := mkSchema 0 t [].
Example conc_ok : forall n b, variance exH b = [] -> cmdE exH n (CInst (conc (SOp b []))).
Proof.
  intros n b Vb. constructor; [|constructor]. cbn. constructor; [rewrite Vb; reflexivity|constructor].
Qed.

(* pick : x ** x ** x   with  x << [A; C] *)
Definition pick := mkSchema 1 (SOp Function [SVar 0; SOp Function [SVar 0; SVar 0]])
  [SCElim (SVar 0) [SOp 5 []; SOp 7 []]].
Example pick_ok : forall n, cmdE exH n (CInst pick).
Proof.
  intros n. constructor.
  - cbn [s_n s_body pick]. repeat (constructor; cbn; auto with arith).
  - cbn [s_n s_constrs pick]. constructor; [|constructor].
    right. cbn. split; [auto with arith|]. exists [5; 7]. split; [|reflexivity].
    constructor; [exact good5|constructor; [exact good7|constructor]].
Qed.

(* (a) pick B B, result fixed: accepted; the bound, and fuel matters (7 units are not enough) *)
Definition ex_acc := [CInst pick; CInst (conc (SOp 6 [])); CApply 0 1 false; CApply 2 1 true].
Example ex_acc_progE : progE exH 0 ex_acc.
Proof.
  cbn [progE ex_acc]. repeat split; try (constructor; auto with arith; fail).
  - apply pick_ok.
  - apply conc_ok. reflexivity.
Qed.
Example ex_acc_bound :
  prog_fuelE ex_acc = 30 /\
  fst (run_cmds exH 30 ex_acc 0 [] (empty_store [])) =
    (None, [O 3 [V 0; O 3 [V 0; V 0]]; O 6 []; O 3 [V 0; V 0]; O 6 []]) /\
  fst (fst (run_cmds exH 7 ex_acc 0 [] (empty_store []))) = Some (EFuel, 2).
Proof. split; [|split]; vm_compute; reflexivity. Qed.

Example ex_acc_term : forall sc fuel, 30 <= fuel ->
  match fst (fst (run_cmds exH fuel ex_acc 0 [] (empty_store sc))) with
  | None => True
  | Some (e, _) => e <> EFuel
  end.
Proof.
  intros sc fuel L. pose proof (C17_term_elim_prog exH exH_wf ex_acc sc fuel ex_acc_progE) as K.
  destruct (fst (fst (run_cmds exH fuel ex_acc 0 [] (empty_store sc)))) as [[e i]|]; [|exact I].
  destruct K as [->|[->|[->|[->| ->]]]]; [exact L|..]; discriminate.
Qed.

(* (b) pick D: no alternative is left - the declared error at the bound *)
Definition ex_rej := [CInst pick; CInst (conc (SOp 8 [])); CApply 0 1 false].
Example ex_rej_progE : progE exH 0 ex_rej.
Proof.
  cbn [progE ex_rej]. repeat split; try (constructor; auto with arith; fail).
  - apply pick_ok.
  - apply conc_ok. reflexivity.
Qed.
Example ex_rej_rejected :
  prog_fuelE ex_rej = 26 /\
  fst (fst (run_cmds exH 26 ex_rej 0 [] (empty_store []))) = Some (EConstraintViolation, 2).
Proof. split; vm_compute; reflexivity. Qed.

(* (c) pick B C: the first application leaves [A], x <= A; C is not below A *)
Definition ex_rej2 := [CInst pick; CInst (conc (SOp 6 [])); CInst (conc (SOp 7 []));
                       CApply 0 1 false; CApply 3 2 true].
Example ex_rej2_rejected :
  prog_fuelE ex_rej2 = 30 /\
  fst (fst (run_cmds exH 30 ex_rej2 0 [] (empty_store []))) = Some (ESubtypeMismatch, 4).
Proof. split; vm_compute; reflexivity. Qed.

(* (d) two elimination constraints on two variables that get unified:
   k : (x ** y) ** x ** x  with  x << [A; C],  y << [C; D];   k id  unifies x and y
   (one pending set [0; 1]); applying the result to C fulfils x << [A; C] with C,
   below(x, C) binds x := C, the nested round fulfils y << [C; D] *)
Definition kk := mkSchema 2 (SOp Function [SOp Function [SVar 0; SVar 1]; SOp Function [SVar 0; SVar 0]])
  [SCElim (SVar 0) [SOp 5 []; SOp 7 []]; SCElim (SVar 1) [SOp 7 []; SOp 8 []]].
Definition idz := mkSchema 1 (SOp Function [SVar 0; SVar 0]) [].
Example kk_ok : forall n, cmdE exH n (CInst kk).
Proof.
  intros n. constructor.
  - cbn [s_n s_body kk]. repeat (constructor; cbn; auto with arith).
  - cbn [s_n s_constrs kk]. constructor; [|constructor; [|constructor]].
    + right. cbn. split; [auto with arith|]. exists [5; 7]. split; [|reflexivity].
      constructor; [exact good5|constructor; [exact good7|constructor]].
    + right. cbn. split; [auto with arith|]. exists [7; 8]. split; [|reflexivity].
      constructor; [exact good7|constructor; [exact good8|constructor]].
Qed.
Example idz_ok : forall n, cmdE exH n (CInst idz).
Proof. intros n. constructor; [|constructor]. cbn. repeat (constructor; cbn; auto with arith). Qed.

Definition ex_two := [CInst kk; CInst idz; CApply 0 1 false; CInst (conc (SOp 7 [])); CApply 2 3 true].
Example ex_two_progE : progE exH 0 ex_two.
Proof.
  cbn [progE ex_two]. repeat split; try (constructor; auto with arith; fail).
  - apply kk_ok.
  - apply idz_ok.
  - apply conc_ok. reflexivity.
Qed.
Example ex_two_bound :
  prog_fuelE ex_two = 39 /\
  (let r := run_cmds exH 39 ex_two 0 [] (empty_store []) in
   fst (fst r) = None /\ nth 4 (snd (fst r)) (V 0) = O 7 [] /\
   map k_done (constrs (snd r)) = [true; true]) /\
  fst (fst (run_cmds exH 11 ex_two 0 [] (empty_store []))) = Some (EFuel, 4).
Proof. split; [|split]; vm_compute; auto. Qed.

(* the store in which the last application runs: both constraints pending on one variable *)
Definition ex_pre := [CInst kk; CInst idz; CApply 0 1 false; CInst (conc (SOp 7 []))].
Definition ex_run := Eval vm_compute in run_cmds exH 39 ex_pre 0 [] (empty_store []).
Definition ex_vals := snd (fst ex_run).
Definition ex_s := snd ex_run.
Example ex_pre_progE : progE exH 0 ex_pre.
Proof.
  cbn [progE ex_pre]. repeat split; try (constructor; auto with arith; fail).
  - apply kk_ok.
  - apply idz_ok.
  - apply conc_ok. reflexivity.
Qed.

Example ex_hyps : JE exH ex_s /\ inv ex_s /\ KW exH ex_s /\ (forall v, chain ex_s (V v)) /\
  Forall (tg exH (length (vars ex_s))) ex_vals /\
  und ex_s = 2 /\ cset_of ex_s (c_cs (cell_of ex_s 1)) = [0; 1].
Proof.
  assert (R : run_cmds exH 39 ex_pre 0 [] (empty_store []) = (None, ex_vals, ex_s)) by (vm_compute; reflexivity).
  destruct (elim_final exH exH_wf 39 [] ex_pre ex_vals ex_s ex_pre_progE R) as (Iv & _ & I & _ & Fv).
  split; [exact I|split; [exact Iv|split; [apply CW_KW; exact I|split; [apply JE_inv_chain; exact Iv|]]]].
  split; [exact Fv|split; vm_compute; reflexivity].
Qed.

(* the last application in that store: bound (13 constraint-free + 15 nesting), success above it,
   exhaustion with 11 units *)
Example ex_apply :
  apply_bound ex_s (val ex_vals 2) (val ex_vals 3) + nest ex_s = 28 /\
  (exists r s', apply exH 29 (val ex_vals 2) (val ex_vals 3) true ex_s = MOk r s') /\
  (exists s', apply exH 11 (val ex_vals 2) (val ex_vals 3) true ex_s = MEr EFuel s').
Proof. split; [|split]; [vm_compute; reflexivity|eexists; eexists|eexists]; vm_compute; reflexivity. Qed.

Example ex_apply_term : forall fuel fixb, 28 < fuel ->
  forall s', apply exH fuel (val ex_vals 2) (val ex_vals 3) fixb ex_s <> MEr EFuel s'.
Proof.
  intros fuel fixb L. destruct ex_hyps as (I & Iv & _ & _ & Fv & _).
  apply (C17_term_elim_apply exH exH_wf fuel _ _ fixb ex_s I Iv).
  - rewrite Forall_forall in Fv. apply Fv. vm_compute. auto.
  - rewrite Forall_forall in Fv. apply Fv. vm_compute. auto.
  - destruct ex_apply as (E & _). lia.
Qed.

(* a re-check round in that store: und = 2, 15 units are enough by the theorem *)
Example ex_cc_term : forall f v, 15 <= f -> forall s', check_constraints exH f v ex_s <> MEr EFuel s'.
Proof.
  intros f v L s' E. destruct ex_hyps as (_ & _ & K & C & _ & U & _).
  pose proof (C17_term_elim_cc exH f v ex_s C K) as N. rewrite U in N. rewrite E in N.
  apply N; [exact L|reflexivity].
Qed.

(* ---------- the nesting is real ---------- *)
(* m1 = 5;  z2 = 6;  m2 = 7 < m1;  z3 = 8 < m1;  m3 = 9 < m2;  z4 = 10 < m2;  m4 = 11 < m3;
   z5 = 12 < m3;  m5 = 13 < m4.   x << [m2; z2], x << [m3; z3], x << [m4; z4], x << [m5; z5]:
   below(x, m1) drops z2 (unrelated to m1), fulfils the first constraint with m2, the nested
   below(x, m2) drops z3 (unrelated to m2) and so on: four rounds nested in one another *)
Definition nH := mk_hier [(7,5);(8,5);(9,7);(10,7);(11,9);(12,9);(13,11)] [].
Definition b (o : nat) := SOp o [].
Definition pre4 := mkSchema 1 (SVar 0)
  [SCElim (SVar 0) [b 7; b 6]; SCElim (SVar 0) [b 9; b 8]; SCElim (SVar 0) [b 11; b 10]; SCElim (SVar 0) [b 13; b 12]].
Definition s4 := Eval vm_compute in
  match instance nH 40 pre4 (empty_store []) with MOk _ s => s | MEr _ s => s end.
Example ex_nest :
  und s4 = 4 /\ cset_of s4 (c_cs (cell_of s4 0)) = [0; 1; 2; 3] /\
  (exists s', below nH 19 0 5 s4 = MOk tt s' /\ und s' = 0 /\ c_upper (cell_of s' 0) = Some 13) /\
  (exists s', below nH 18 0 5 s4 = MEr EFuel s') /\
  cc_fuel (und s4) + 4 = 29.
Proof.
  split; [|split; [|split; [|split]]]; try (vm_compute; reflexivity).
  - eexists. split; [vm_compute; reflexivity|split; vm_compute; reflexivity].
  - eexists. vm_compute. reflexivity.
Qed.
(* one level less costs four units less *)
Definition pre3 := mkSchema 1 (SVar 0)
  [SCElim (SVar 0) [b 7; b 6]; SCElim (SVar 0) [b 9; b 8]; SCElim (SVar 0) [b 11; b 10]].
Definition s3 := Eval vm_compute in
  match instance nH 40 pre3 (empty_store []) with MOk _ s => s | MEr _ s => s end.
Example ex_nest3 :
  und s3 = 3 /\ (exists s', below nH 15 0 5 s3 = MOk tt s') /\ (exists s', below nH 14 0 5 s3 = MEr EFuel s').
Proof. split; [|split]; [vm_compute; reflexivity|eexists|eexists]; vm_compute; reflexivity. Qed.

(* the schema that ends with the triggering constraint x << [m1]: instance at its bound *)
Definition nest5 := mkSchema 1 (SVar 0)
  [SCElim (SVar 0) [b 7; b 6]; SCElim (SVar 0) [b 9; b 8]; SCElim (SVar 0) [b 11; b 10];
   SCElim (SVar 0) [b 13; b 12]; SCElim (SVar 0) [b 5]].
Example ex_nest_inst :
  inst_boundE (empty_store []) nest5 = 34 /\
  (exists r s', instance nH 35 nest5 (empty_store []) = MOk r s' /\ und s' = 0) /\
  (exists s', instance nH 20 nest5 (empty_store []) = MEr EFuel s').
Proof.
  split; [vm_compute; reflexivity|split].
  - eexists. eexists. split; vm_compute; reflexivity.
  - eexists. vm_compute. reflexivity.
Qed.
