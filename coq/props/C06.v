(* C06  Elimination constraints select exactly the alternatives the argument fits.

   Specification (Infer/Fits.v): an alternative is a schematic type [sty]
   (SVar i = another variable of the signature, SWild = `_`); the concrete
   argument x FITS it when some well-formed instantiation of the variables
   (sigma) and of every wildcard occurrence (omega, left to right) makes x a
   subtype of the instantiated alternative:
       Fits H x alt := exists sigma omega, (forall i, wf_ty H (sigma i)) /\
                         Forall (wf_ty H) omega /\ Sub H x (subst sigma omega alt).
   [fitsb] is the executable one-way matcher that follows the filter of
   EliminationConstraint.fulfill (ref.match(alt, subtype=True,
   accept_wildcard=True) is not False); [accept_spec H x alts] = some alternative
   passes it.  The harness compares the implementation's accept/reject of
   `a ** r(b) [a << alts]` applied to x with [accept_spec].

   Full statement served: accepted  <->  exists alt in alts, Fits H x alt.
   Proved here: the matcher decides Fits exactly on LINEAR alternatives (each
   variable at most once; all alternatives of the property's quantifier are
   linear), it over-approximates on non-linear ones (C06_nonlinear_refuted gives
   the witness: the filter keeps (b -> b) for the argument (A -> B) with A, B
   unrelated; the later unification then fails), fitting is downward closed in the
   argument, and for variable-free alternatives it is the subtype order.  The
   link to the engine model is proved for the simplest family
   (C06_engine_single*, all hierarchies / base operators / sufficient fuel);
   for general alternative lists the correspondence engine <-> accept_spec is
   checked per generated case by the harness, not proved. *)
From Coq Require Import List Arith Bool.
Import ListNotations.
From TF Require Import Base.Hier Base.Ty Sub.Match Sub.SubSpec Sub.SubProofs
  Infer.Store Infer.Engine Infer.Run Infer.Fits Infer.FitsEngine.

Theorem C06_fits_spec : forall H, wf_hier H -> forall x alt,
  wf_ty H x -> wf_sty H alt -> linear alt ->
  (fitsb H x alt = true <-> Fits H x alt).
Proof. exact fitsb_spec. Qed.
Print Assumptions C06_fits_spec.

(* no linearity, no well-formedness: whatever fits passes the matcher *)
Theorem C06_fits_overapprox : forall H, wf_hier H -> forall x alt,
  Fits H x alt -> fitsb H x alt = true.
Proof. exact fitsb_complete. Qed.
Print Assumptions C06_fits_overapprox.

Theorem C06_accept_spec : forall H, wf_hier H -> forall x alts, wf_ty H x ->
  Forall (wf_sty H) alts -> Forall linear alts ->
  (accept_spec H x alts = true <-> exists alt, In alt alts /\ Fits H x alt).
Proof. exact accept_spec_iff. Qed.
Print Assumptions C06_accept_spec.

(* the converse of C06_fits_overapprox fails for non-linear alternatives *)
Theorem C06_nonlinear_refuted : exists H x alt,
  wf_hier H /\ wf_ty H x /\ wf_sty H alt /\ ~ linear alt /\
  fitsb H x alt = true /\ ~ Fits H x alt.
Proof. exists nlH, nl_x, nl_alt. exact nonlinear_overapprox. Qed.
Print Assumptions C06_nonlinear_refuted.

Theorem C06_fits_mono : forall H, wf_hier H -> forall x x' alt,
  Sub H x' x -> Fits H x alt -> Fits H x' alt.
Proof. exact Fits_mono. Qed.
Print Assumptions C06_fits_mono.

Theorem C06_concrete : forall H, wf_hier H -> forall x t,
  Fits H x (sconc t) <-> Sub H x t.
Proof. exact Fits_concrete. Qed.
Print Assumptions C06_concrete.

(* every alternative without variables and wildcards is such a [sconc t] *)
Theorem C06_concrete_closed : forall H, wf_hier H -> forall x alt,
  svars alt = [] -> nwild alt = 0 ->
  exists t, alt = sconc t /\ (Fits H x alt <-> Sub H x t).
Proof. exact Fits_closed. Qed.
Print Assumptions C06_concrete_closed.

(* the engine model on `a ** a [a << {B}]` applied to the base type A *)
Theorem C06_engine_single : forall H, wf_hier H -> forall a b fuel sc,
  variance H a = [] -> variance H b = [] -> 9 <= fuel ->
  fst (fst (run_cmds H fuel
              [CInst (mkSchema 1 (SOp Function [SVar 0; SVar 0]) [SCElim (SVar 0) [SOp b []]]);
               CInst (mkSchema 0 (SOp a []) []);
               CApply 0 1 true] 0 [] (empty_store sc)))
  = if op_subtype H false a b then None else Some (ESubtypeMismatch, 2).
Proof. exact engine_single. Qed.
Print Assumptions C06_engine_single.

Theorem C06_engine_single_fits : forall H, wf_hier H -> forall a b fuel sc,
  variance H a = [] -> variance H b = [] -> 9 <= fuel ->
  let outcome := fst (fst (run_cmds H fuel
              [CInst (mkSchema 1 (SOp Function [SVar 0; SVar 0]) [SCElim (SVar 0) [SOp b []]]);
               CInst (mkSchema 0 (SOp a []) []);
               CApply 0 1 true] 0 [] (empty_store sc))) in
  (outcome = None <-> Fits H (TOp a []) (SOp b [])) /\
  (outcome = None <-> accept_spec H (TOp a []) [SOp b []] = true) /\
  (outcome <> None -> outcome = Some (ESubtypeMismatch, 2)).
Proof. exact engine_single_fits. Qed.
Print Assumptions C06_engine_single_fits.

(* ---------- non-vacuity ---------- *)
(* base types Ord=5, Obj=6 (unrelated), Nom=7 < Ord;
   C=8 unary covariant, R=9 binary covariant. *)
Definition exH : hier := mk_hier [(7,5)] [(8,[true]); (9,[true;true])].
Example exH_wf : wf_hier exH.
Proof.
  split.
  - intros o p. cbn. repeat (destruct o as [|o]; try discriminate; cbn); intros [= <-]; auto with arith.
  - intros o p. cbn. repeat (destruct o as [|o]; try discriminate; cbn); intros [= <-]; cbn; repeat split; discriminate.
  - split; reflexivity.
  - split; reflexivity.
  - reflexivity.
Qed.

(* keys : a ** C(b) [a << {C(b), R(b, _)}] applied to R(Nom, Obj) *)
Definition altC : sty := SOp 8 [SVar 1].
Definition altR : sty := SOp 9 [SVar 1; SWild].
Definition argR : ty := TOp 9 [TOp 7 []; TOp 6 []].
Example C06_ex_hyps :
  wf_ty exH argR /\ Forall (wf_sty exH) [altC; altR] /\ Forall linear [altC; altR].
Proof.
  split; [apply wf_tyb_spec; reflexivity|]. split.
  - constructor; [|constructor; [|constructor]]; apply wf_styb_spec; reflexivity.
  - constructor; [|constructor; [|constructor]]; apply linearb_spec; reflexivity.
Qed.
Example C06_ex_keys :
  fitsb exH argR altC = false /\ fitsb exH argR altR = true /\
  accept_spec exH argR [altC; altR] = true /\
  (* the instantiation b := Ord, _ := Obj witnesses the fit (Nom <= Ord) *)
  subst (fun _ => TOp 5 []) [TOp 6 []] altR = TOp 9 [TOp 5 []; TOp 6 []] /\
  match3 exH true argR (TOp 9 [TOp 5 []; TOp 6 []]) = Some true.
Proof. repeat split; reflexivity. Qed.

(* contravariant position with a pattern variable and a concrete part:
   (Ord -> b) fits-test against the argument (Nom -> Obj): needs Ord <= Nom, fails;
   (Nom -> b) accepts the argument (Ord -> Obj) *)
Example C06_ex_contra :
  fitsb exH (TOp Function [TOp 7 []; TOp 6 []]) (SOp Function [SOp 5 []; SVar 0]) = false /\
  fitsb exH (TOp Function [TOp 5 []; TOp 6 []]) (SOp Function [SOp 7 []; SVar 0]) = true /\
  fitsb exH (TOp Function [TOp 5 []; TOp 6 []]) (SOp Function [SVar 1; SOp Top []]) = true.
Proof. repeat split; reflexivity. Qed.

(* the engine model agrees on the single-alternative family (fuel 9) *)
Example C06_ex_engine :
  map (fun ab => fst (fst (run_cmds exH 9 (single_prog (fst ab) (snd ab)) 0 [] (empty_store []))))
      [(7,5); (5,7); (6,5); (Bottom,6); (6,Top)]
  = [None; Some (ESubtypeMismatch, 2); Some (ESubtypeMismatch, 2); None; None].
Proof. vm_compute. reflexivity. Qed.
