(* C01  Subtyping of concrete types is exactly the declared partial order.
   Property theorems only; each is closed by [exact] of a library lemma. *)
From Coq Require Import List Arith Bool.
Import ListNotations.
From TF Require Import Base.Hier Base.Ty Sub.Match Sub.SubSpec Sub.SubProofs.

(* match(subtype=True) answers True exactly on the declarative order *)
Theorem C01_exact : forall H, wf_hier H -> forall s t, wf_ty H s -> wf_ty H t ->
  (match3 H true s t = Some true <-> Sub H s t).
Proof. exact match3_exact. Qed.
Print Assumptions C01_exact.

(* ... and is never 'unknown' on concrete types *)
Theorem C01_total : forall H, wf_hier H -> forall s t, wf_ty H s -> wf_ty H t ->
  exists b, match3 H true s t = Some b.
Proof. exact match3_total. Qed.
Print Assumptions C01_total.

Theorem C01_is_subtype : forall H, wf_hier H -> forall strict s t, wf_ty H s -> wf_ty H t ->
  (is_subtype H strict s t = Some true <-> (Sub H s t /\ (strict = true -> s <> t))).
Proof. exact is_subtype_spec. Qed.
Print Assumptions C01_is_subtype.

Theorem C01_is_subtype_total : forall H, wf_hier H -> forall strict s t, wf_ty H s -> wf_ty H t ->
  exists b, is_subtype H strict s t = Some b.
Proof. exact is_subtype_total. Qed.
Print Assumptions C01_is_subtype_total.

Theorem C01_refl : forall H t, wf_ty H t -> Sub H t t.
Proof. exact Sub_refl. Qed.
Print Assumptions C01_refl.

Theorem C01_trans : forall H, wf_hier H -> forall b a c, Sub H a b -> Sub H b c -> Sub H a c.
Proof. exact Sub_trans. Qed.
Print Assumptions C01_trans.

Theorem C01_antisym : forall H, wf_hier H -> forall a b, Sub H a b -> Sub H b a -> a = b.
Proof. exact Sub_antisym. Qed.
Print Assumptions C01_antisym.

(* the operator-level test walks exactly the declared ancestor chain *)
Theorem C01_op_subtype : forall H, wf_hier H -> forall a b,
  op_subtype H false a b = true <-> (a = Bottom \/ b = Top \/ Anc H a b).
Proof. exact op_subtype_ns_spec. Qed.
Print Assumptions C01_op_subtype.

(* Non-vacuity: a three-level hierarchy A(5) > B(6) > C(7), unrelated D(8), and a
   ternary operator G(9) with variance (co, contra, co). *)
Definition exH : hier := mk_hier [(6,5); (7,6)] [(9, [true; false; true])].
Example exH_wf : wf_hier exH.
Proof.
  split.
  - intros o p. cbn. repeat (destruct o as [|o]; try discriminate; cbn); intros [= <-]; auto with arith.
  - intros o p. cbn. repeat (destruct o as [|o]; try discriminate; cbn); intros [= <-]; cbn; repeat split; discriminate.
  - split; reflexivity.
  - split; reflexivity.
  - reflexivity.
Qed.
Definition tA := TOp 5 []. Definition tB := TOp 6 []. Definition tC := TOp 7 [].
Definition exS := TOp 9 [tC; TOp Function [tB; tB]; TOp Product [tB; TOp Bottom []]].
Definition exT := TOp 9 [tA; TOp Function [tA; tC]; TOp Product [tA; tB]].
Example ex_wf : wf_ty exH exS /\ wf_ty exH exT.
Proof. split; apply wf_tyb_spec; reflexivity. Qed.
Example ex_sub : match3 exH true exS exT = Some true /\ match3 exH true exT exS = Some false.
Proof. split; reflexivity. Qed.
