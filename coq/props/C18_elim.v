(* C18 for the class progE: pure subtype constraints  x <= A / x < A  and
   elimination constraints  x << [A1..An]  over user base operators (class of
   C03_elim / C17_term_elim).

   Question: do success/failure, the resulting type, the bounds and the residual
   constraints depend on the order in which pending constraints are re-checked?

   Search (harness/c18.explore on the implementation, all schedules, ~20000
   generated progE programs, ~115000 runs; the model on 166 of them): success vs
   failure, the failing command, the values, the cells, the constraint sets,
   the alternatives and the fulfilled flags never differed.  Two things DO
   depend on the order, both witnessed here by computation on the model:

   C18_elim_kind_refuted   (a) the error KIND when every order fails;
   C18_elim_ref_refuted    the raw [reference] field of a FULFILLED elimination
                           constraint (variable vs. the operation it was bound
                           to) - invisible after follow(). *)
From Coq Require Import List Arith Bool.
Import ListNotations.
From TF Require Import Base.Hier Base.Ty Infer.Store Infer.Engine Infer.Run Infer.SoundElimS
  Infer.SchedIndepElim.

Theorem C18_elim_kind_refuted : exists H prog sc1 sc2, progE H 0 prog /\
  fst (fst (run_cmds H 100 prog 0 [] (empty_store sc1))) = Some (ETypeMismatch, 2) /\
  fst (fst (run_cmds H 100 prog 0 [] (empty_store sc2))) = Some (EConstraintViolation, 2).
Proof. exact kind_refuted. Qed.
Print Assumptions C18_elim_kind_refuted.

Theorem C18_elim_ref_refuted : exists H prog sc1 sc2, progE H 0 prog /\
  let r1 := run_cmds H 200 prog 0 [] (empty_store sc1) in
  let r2 := run_cmds H 200 prog 0 [] (empty_store sc2) in
  fst (fst r1) = None /\ fst (fst r2) = None /\ snd (fst r1) = snd (fst r2) /\
  vars (snd r1) = vars (snd r2) /\ csets (snd r1) = csets (snd r2) /\
  map (fun k => (k_elim k, k_alts k, k_strict k, k_done k)) (constrs (snd r1)) =
  map (fun k => (k_elim k, k_alts k, k_strict k, k_done k)) (constrs (snd r2)) /\
  map (fun k => follow (snd r1) (k_ref k)) (constrs (snd r1)) =
  map (fun k => follow (snd r2) (k_ref k)) (constrs (snd r2)) /\
  map k_ref (constrs (snd r1)) = [V 0; V 0; O 7 []] /\
  map k_ref (constrs (snd r2)) = [V 0; V 0; V 0].
Proof. exact ref_refuted. Qed.
Print Assumptions C18_elim_ref_refuted.
