(* C18 for the class progE: pure subtype constraints  x <= A / x < A  and
   elimination constraints  x << [A1..An]  over user base operators (class of
   C03_elim / C17_term_elim).

   Question: do success/failure, the resulting type, the bounds and the residual
   constraints depend on the order in which pending constraints are re-checked?

   Search (harness/c18.explore on the implementation, all schedules, ~20000
   generated progE programs, ~115000 runs; the model on 166 of them): success vs
   failure, the failing command, the values, the cells, the constraint sets,
   the alternatives and the fulfilled flags never differed.  Two things DO
   depend on the order, both witnessed here by computation on the model:

   C18_elim_kind_refuted   (a) the error KIND when every order fails;
   C18_elim_ref_refuted    the raw [reference] field of a FULFILLED elimination
                           constraint (variable vs. the operation it was bound
                           to) - invisible after follow().

   Proved (Infer/SchedIndepElimA.v, SchedIndepElimR.v, SchedIndepElim.v), for
   every well-formed hierarchy, all fuels and ALL schedules (the entries used by
   the rounds nested in the round included):

   C18_elim_round          ONE re-check round check_constraints(v) - with every
                           round nested in it - started in a store s with
                           [RoundPre H s v] under two schedules: both succeed and
                           the final stores agree on all cells (bindings, bounds,
                           wildcard flags), all constraint sets and all constraint
                           records except the raw reference of fulfilled elimination
                           constraints ([eqk]: same alternatives IN THE SAME ORDER,
                           same fulfilled flags, references equal after follow);
                           or both fail; or one of the two ran out of fuel.
   C18_elim_round_fuel     with 5 * und s + 5 units of fuel (C17_term_elim_cc): both
                           succeed ([eqk]) or both fail with a declared error.
   C18_elim_round_hyp      the hypothesis in elementary terms: JE, inv (C03_elim_final),
                           the alternatives of every elimination constraint pairwise
                           equal-or-incomparable (what minimize leaves), every pending
                           elimination constraint of the set of v refers to an unbound
                           variable pointing to this set or is settled (re-checking it
                           is a no-op), a fulfilled subtype constraint of the set holds.
   C18_elim_round_example  the hypothesis holds of a reachable store (three interacting
                           constraints on one variable, rounds nested three deep).

   How it is proved: the filter of fulfill is MONOTONE in the bounds on a forest
   (an alternative kept under tighter bounds is kept under looser ones), every
   complete round ends with all constraints of the set settled, and a run that
   starts above the end t of another run stays above t and cannot fail; two ends
   dominate each other, so the cells coincide, and the records and the set are
   functions of the cells and of the starting store.

   PARTIAL / missing for whole programs (full statement aimed at:
     forall H prog sc1 sc2 fuel, wf_hier H -> progE H 0 prog -> prog_fuelE prog <= fuel ->
       the two runs fail at the same command, or both succeed with the same values
       and [eqk] stores):
   what is missing is the invariant that every store in which the engine starts a
   round satisfies [RoundPre] (in particular: a pending elimination constraint that
   sits in the set of v but refers to a variable of ANOTHER set - this happens after
   a variable was bound to a compound type and one of its variables was unified
   later - is settled), threaded through unify / bind / above / below / fix /
   instance as C03_elim_K_ops does for the weaker invariant Kp, plus the relational
   lifting of Infer/SchedIndep.v redone modulo [eqk].  Without that invariant the
   statement for arbitrary stores is false (a constraint fulfilled in a nested round
   on another set stays in the outer set or not, depending on the order). *)
From Coq Require Import List Arith Bool.
Import ListNotations.
From TF Require Import Base.Hier Base.Ty Infer.Store Infer.Engine Infer.Run Infer.Inv Infer.SchedIndep
  Infer.SoundElimS Infer.TermElim Infer.SchedIndepElimA Infer.SchedIndepElimR Infer.SchedIndepElim.
From TF Require Infer.FitsEngineList.

Theorem C18_elim_kind_refuted : exists H prog sc1 sc2, progE H 0 prog /\
  fst (fst (run_cmds H 100 prog 0 [] (empty_store sc1))) = Some (ETypeMismatch, 2) /\
  fst (fst (run_cmds H 100 prog 0 [] (empty_store sc2))) = Some (EConstraintViolation, 2).
Proof. exact kind_refuted. Qed.
Print Assumptions C18_elim_kind_refuted.

Theorem C18_elim_ref_refuted : exists H prog sc1 sc2, progE H 0 prog /\
  let r1 := run_cmds H 200 prog 0 [] (empty_store sc1) in
  let r2 := run_cmds H 200 prog 0 [] (empty_store sc2) in
  fst (fst r1) = None /\ fst (fst r2) = None /\ snd (fst r1) = snd (fst r2) /\
  vars (snd r1) = vars (snd r2) /\ csets (snd r1) = csets (snd r2) /\
  map (fun k => (k_elim k, k_alts k, k_strict k, k_done k)) (constrs (snd r1)) =
  map (fun k => (k_elim k, k_alts k, k_strict k, k_done k)) (constrs (snd r2)) /\
  map (fun k => follow (snd r1) (k_ref k)) (constrs (snd r1)) =
  map (fun k => follow (snd r2) (k_ref k)) (constrs (snd r2)) /\
  map k_ref (constrs (snd r1)) = [V 0; V 0; O 7 []] /\
  map k_ref (constrs (snd r2)) = [V 0; V 0; V 0].
Proof. exact ref_refuted. Qed.
Print Assumptions C18_elim_ref_refuted.

(* ---- one re-check round, any two schedules ---- *)
Theorem C18_elim_round : forall H, wf_hier H -> forall f1 f2 v s sc1 sc2, RoundPre H s v ->
  match check_constraints H f1 v (with_sched s sc1), check_constraints H f2 v (with_sched s sc2) with
  | MOk _ t1, MOk _ t2 => eqk t1 t2
  | MOk _ _, MEr e _ => e = EFuel
  | MEr e _, MOk _ _ => e = EFuel
  | MEr _ _, MEr _ _ => True
  end.
Proof. exact round_indep. Qed.
Print Assumptions C18_elim_round.

Theorem C18_elim_round_fuel : forall H, wf_hier H -> forall f1 f2 v s sc1 sc2, RoundPre H s v ->
  5 * und s + 5 <= f1 -> 5 * und s + 5 <= f2 ->
  match check_constraints H f1 v (with_sched s sc1), check_constraints H f2 v (with_sched s sc2) with
  | MOk _ t1, MOk _ t2 => eqk t1 t2
  | MEr e1 _, MEr e2 _ => e1 <> EFuel /\ e2 <> EFuel
  | _, _ => False
  end.
Proof. exact round_indep_fuel. Qed.
Print Assumptions C18_elim_round_fuel.

(* what "the same store" means: everything but the raw reference of a fulfilled
   elimination constraint *)
Example C18_elim_eqk_unfold : forall t1 t2,
  eqk t1 t2 <->
  vars t1 = vars t2 /\ csets t1 = csets t2 /\ length (constrs t1) = length (constrs t2) /\
  forall c, let k1 := constr_of t1 c in let k2 := constr_of t2 c in
    k_elim k1 = k_elim k2 /\ k_alts k1 = k_alts k2 /\ k_strict k1 = k_strict k2 /\ k_done k1 = k_done k2 /\
    follow t1 (k_ref k1) = follow t2 (k_ref k2) /\
    (k_ref k1 = k_ref k2 \/ (k_elim k1 = true /\ k_done k1 = true)).
Proof. intros. reflexivity. Qed.

(* the hypothesis *)
Theorem C18_elim_round_hyp : forall H s v, JE H s -> invb true s ->
  (forall c l, c < length (constrs s) -> k_elim (constr_of s c) = true ->
     k_alts (constr_of s c) = FL.obs l -> PI H l) ->
  (forall c w, In c (cset_of s (c_cs (cell_of s v))) -> k_elim (constr_of s c) = true ->
     k_done (constr_of s c) = false -> follow s (k_ref (constr_of s c)) = V w ->
     (w < length (vars s) /\ c_bound (cell_of s w) = None /\ c_cs (cell_of s w) = c_cs (cell_of s v)) \/
     stlE H s c) ->
  (forall c, In c (cset_of s (c_cs (cell_of s v))) -> k_elim (constr_of s c) = false ->
     k_done (constr_of s c) = true -> pfc H 4 s (constr_of s c) = PDone) ->
  RoundPre H s v.
Proof. exact RoundPre_intro. Qed.
Print Assumptions C18_elim_round_hyp.

Example C18_elim_hyp_defs : forall H s c l,
  (PI H l <-> forall x y, In x l -> In y l -> FL.le H x y = true -> x = y) /\
  (stlE H s c <->
   let k := constr_of s c in
   k_done k = false /\ follow s (k_ref k) = k_ref k /\
   exists l, k_alts k = FL.obs l /\ ForallOrdPairs (FL.incomp H) l /\ 2 <= length l /\
             forall m, In m l -> kp H s (k_ref k) m = true) /\
  (forall r m, kp H s r m =
     match follow s r with
     | V w => kpc H (cell_of s w) m
     | O o _ => (o =? Bottom) || (basic H o && ((o =? m) || osub H false o m))
     end) /\
  (forall cl m, kpc H cl m =
     (match c_lower cl with Some lo => osub H false lo m | None => true end) &&
     (match c_upper cl with Some u => osub H false u m || osub H false m u | None => true end)).
Proof.
  intros. split; [reflexivity|split; [reflexivity|split; intros; reflexivity]].
Qed.

(* the filter of fulfill really is kp, and kp is monotone in the bounds *)
Theorem C18_elim_filter_closed_form : forall H f s r m, FL.good H m -> keep H (S f) s r m = kp H s r m.
Proof. exact keep_kp. Qed.

Theorem C18_elim_filter_monotone : forall H, wf_hier H -> forall c c' m, Sound.bok H c' ->
  c_lower c' = c_lower c ->
  (forall u, c_upper c = Some u -> exists u', c_upper c' = Some u' /\ Lub.ole H u' u) ->
  kpc H c' m = true -> kpc H c m = true.
Proof. exact kpc_mono. Qed.
Print Assumptions C18_elim_filter_monotone.

(* non-vacuity: A = 5, M = 6 < A, B1 = 7 < M, B2..B4 = 8..10 < A;
   x << [B1, B2], x << [M, B3], x << [M, B4] with x <= A; the store in which
   above(x, B1) starts its round *)
Example C18_elim_round_example :
  RoundPre rH rse 0 /\
  (forall f1 f2 sc1 sc2, 20 <= f1 -> 20 <= f2 ->
     match check_constraints rH f1 0 (with_sched rse sc1), check_constraints rH f2 0 (with_sched rse sc2) with
     | MOk _ t1, MOk _ t2 => eqk t1 t2
     | MEr e1 _, MEr e2 _ => e1 <> EFuel /\ e2 <> EFuel
     | _, _ => False
     end) /\
  und rse = 3 /\ cset_of rse (c_cs (cell_of rse 0)) = [0; 1; 2] /\
  (exists t1 t2, check_constraints rH 20 0 (with_sched rse []) = MOk tt t1 /\
                 check_constraints rH 20 0 (with_sched rse [1]) = MOk tt t2 /\
                 map k_ref (constrs t1) = [V 0; V 0; O 7 []] /\ map k_ref (constrs t2) = [V 0; V 0; V 0] /\
                 map k_done (constrs t1) = [true; true; true] /\
                 c_bound (cell_of t1 0) = Some (O 7 [])).
Proof. split; [exact rse_pre|exact rse_round]. Qed.
