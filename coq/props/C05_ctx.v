(* C05 for ARBITRARY one-hole contexts ("contexts c (identity, nested compound,
   function result/argument)" of the property's quantifier).

   Statements are about the engine model Infer/Engine.v run through the command
   interpreter Infer/Run.v with the default schedule [] (as in props/C05.v).

   Contexts (Infer/LubCtx.v):
     octx := Hole | Node o before c after
       a path through operators of ANY arity and variance; [before] / [after]
       are the fixed concrete sibling parameters (type [ty], variable-free)
     splug c t  / tplug c x / cplug c t   plugging into schema expressions,
                                          type instances, concrete types
       c[x] = o(before.., c'[x], after..)
     wf_octx H c    at every step |before| + 1 + |after| = arity of o and the
                    siblings are well-formed (wf_ty)
     pol H c        polarity of the hole: xor of the contravariant steps
     octx_depth c   length of the path
     octx_sib c     height of the highest sibling along the path (a base type
                    has height 1; 0 when there are no siblings)

   Program chain_prog_o c [a1; ..; an]:
     [CInst (c[x] ** c[x] ** .. ** c[x] ** x);      -- n parameters, result x
      CInst c[a1]; CApply 0 1 true; CInst c[a2]; CApply 2 3 true; ...]
   (conc_o c a is the schema of the concrete type cplug c (TOp a []), see
   C05_ctx_conc).  chain_prog_o Hole = Lub.chain_prog; nests of covariant unary
   operators (Lub.chain_prog_c) and the function-argument position
   (Lub.chain_prog_d) are instances.

   Proved for EVERY well-formed hierarchy, EVERY well-formed context, every
   n >= 1 and every fuel >= octx_depth c + octx_sib c + n + 3:
     pol c = true  (covariant hole)
       C05_lub_octx / C05_lub_octx_user     success, result = maximum of the a_i
       C05_perm_octx / .._user              the same in every order
       C05_mono_octx / .._user              pointwise smaller arguments: success,
                                            result can only go down
     pol c = false (contravariant hole)
       C05_glb_octx / .._top_bottom         success, x unresolved, upper limit =
                                            minimum of the a_i
       C05_glb_fix_octx                     then fix(prefer_lower=False) gives it
       C05_glb_perm_octx / .._top_bottom    the same in every order
       C05_glb_mono_octx                    pointwise smaller arguments: success,
                                            upper limit can only go down
   The versions without _user / with _top_bottom allow Top and Bottom among the
   arguments (order: a = Bottom \/ b = Top \/ Anc a b).
   Key lemmas: C05_unify_concrete_refl (a concrete type unifies with itself in
   subtype mode without touching the store), C05_unify_octx (unification of
   c[x] with c[y] is unification of x with y, swapped when pol c = false).

   Not covered here: contexts whose siblings contain variables, several holes
   for the same variable with different polarity, a context around the result
   (r(x) other than x). *)
From Coq Require Import List Arith Bool Lia Permutation.
Import ListNotations.
From TF Require Import Base.Hier Base.Ty Infer.Store Infer.Engine Infer.Run Infer.Lub Infer.LubCtx.

(* ---------- 0. key lemmas ---------- *)

Theorem C05_unify_concrete_refl : forall H (t : ty) (fuel : nat) (s : store),
  ty_height t <= fuel -> unify H fuel true false false (inj t) (inj t) s = MOk tt s.
Proof. exact unify_concrete_refl_stmt. Qed.
Print Assumptions C05_unify_concrete_refl.

Theorem C05_unify_octx : forall H, wf_hier H -> forall (c : octx),
  wf_octx H c ->
  forall (fuel : nat) (x y : tyv) (s : store), octx_depth c + octx_sib c <= fuel ->
    unify H fuel true false false (tplug c x) (tplug c y) s =
      (if pol H c
       then unify H (fuel - octx_depth c) true false false x y s
       else unify H (fuel - octx_depth c) true false false y x s).
Proof. exact unify_octx_stmt. Qed.
Print Assumptions C05_unify_octx.

(* the arguments of the program are the concrete types c[a_i] *)
Theorem C05_ctx_conc : forall (c : octx) (a : nat),
  conc_o c a = mkSchema 0 (sinj (cplug c (TOp a []))) [] /\
  inj (cplug c (TOp a [])) = tplug c (O a []).
Proof. exact ctx_conc_stmt. Qed.
Print Assumptions C05_ctx_conc.

Theorem C05_ctx_conc_wf : forall H (c : octx) (a : nat),
  wf_octx H c -> variance H a = [] -> wf_ty H (cplug c (TOp a [])).
Proof. exact ctx_conc_wf_stmt. Qed.
Print Assumptions C05_ctx_conc_wf.

(* ---------- 1. covariant hole: least upper bound ---------- *)

Theorem C05_lub_octx : forall H, wf_hier H ->
  forall (c : octx) (args : list nat) (m fuel : nat),
  wf_octx H c -> pol H c = true ->
  (forall a, In a args -> variance H a = []) ->
  (forall a b, In a args -> In b args ->
     (a = Bottom \/ b = Top \/ Anc H a b) \/ (b = Bottom \/ a = Top \/ Anc H b a)) ->
  In m args -> (forall a, In a args -> a = Bottom \/ m = Top \/ Anc H a m) ->
  octx_depth c + octx_sib c + length args + 3 <= fuel ->
  exists vals s,
    run_cmds H fuel (chain_prog_o c args) 0 [] (empty_store []) = (None, vals, s) /\
    follow s (last vals (V 0)) = if Nat.eqb m Bottom then V 0 else O m [].
Proof. exact lub_octx_stmt. Qed.
Print Assumptions C05_lub_octx.

Theorem C05_lub_octx_user : forall H, wf_hier H ->
  forall (c : octx) (args : list nat) (m fuel : nat),
  wf_octx H c -> pol H c = true ->
  (forall a, In a args -> variance H a = [] /\ a <> Top /\ a <> Bottom) ->
  (forall a b, In a args -> In b args -> Anc H a b \/ Anc H b a) ->
  In m args -> (forall a, In a args -> Anc H a m) ->
  octx_depth c + octx_sib c + length args + 3 <= fuel ->
  exists vals s,
    run_cmds H fuel (chain_prog_o c args) 0 [] (empty_store []) = (None, vals, s) /\
    follow s (last vals (V 0)) = O m [].
Proof. exact lub_octx_user_stmt. Qed.
Print Assumptions C05_lub_octx_user.

(* ---------- 2. contravariant hole: greatest lower bound as upper limit ---------- *)

Theorem C05_glb_octx : forall H, wf_hier H ->
  forall (c : octx) (args : list nat) (m fuel : nat),
  wf_octx H c -> pol H c = false ->
  (forall a, In a args -> variance H a = [] /\ a <> Top /\ a <> Bottom) ->
  (forall a b, In a args -> In b args -> Anc H a b \/ Anc H b a) ->
  In m args -> (forall a, In a args -> Anc H m a) ->
  octx_depth c + octx_sib c + length args + 3 <= fuel ->
  exists vals s,
    run_cmds H fuel (chain_prog_o c args) 0 [] (empty_store []) = (None, vals, s) /\
    follow s (last vals (V 0)) = V 0 /\
    cell_of s 0 = mkCell false None None (Some m) 0.
Proof. exact glb_octx_stmt. Qed.
Print Assumptions C05_glb_octx.

(* the same followed by fix(prefer_lower=False) on the result: x := m *)
Theorem C05_glb_fix_octx : forall H, wf_hier H ->
  forall (c : octx) (args : list nat) (m fuel : nat),
  wf_octx H c -> pol H c = false ->
  (forall a, In a args -> variance H a = [] /\ a <> Top /\ a <> Bottom) ->
  (forall a b, In a args -> In b args -> Anc H a b \/ Anc H b a) ->
  In m args -> (forall a, In a args -> Anc H m a) ->
  octx_depth c + octx_sib c + length args + 3 <= fuel ->
  exists vals s,
    run_cmds H fuel (chain_prog_o c args ++ [CFix (2 * length args) false]) 0 []
             (empty_store []) = (None, vals, s) /\
    follow s (last vals (V 0)) = O m [].
Proof. exact glb_fix_octx_stmt. Qed.
Print Assumptions C05_glb_fix_octx.

(* Top is ignored, Bottom resolves the variable to Bottom at once *)
Theorem C05_glb_octx_top_bottom : forall H, wf_hier H ->
  forall (c : octx) (args : list nat) (m fuel : nat),
  wf_octx H c -> pol H c = false ->
  (forall a, In a args -> variance H a = []) ->
  (forall a b, In a args -> In b args ->
     (a = Bottom \/ b = Top \/ Anc H a b) \/ (b = Bottom \/ a = Top \/ Anc H b a)) ->
  In m args -> (forall a, In a args -> m = Bottom \/ a = Top \/ Anc H m a) ->
  octx_depth c + octx_sib c + length args + 3 <= fuel ->
  exists vals s,
    run_cmds H fuel (chain_prog_o c args) 0 [] (empty_store []) = (None, vals, s) /\
    if Nat.eqb m Top
    then follow s (last vals (V 0)) = V 0 /\ cell_of s 0 = mkCell false None None None 0
    else if Nat.eqb m Bottom
    then follow s (last vals (V 0)) = O Bottom []
    else follow s (last vals (V 0)) = V 0 /\ cell_of s 0 = mkCell false None None (Some m) 0.
Proof. exact glb_octx_top_bottom_stmt. Qed.
Print Assumptions C05_glb_octx_top_bottom.

(* ---------- 3. order independence ---------- *)

Theorem C05_perm_octx : forall H, wf_hier H ->
  forall (c : octx) (args args' : list nat) (fuel : nat),
  wf_octx H c -> pol H c = true ->
  args <> [] ->
  (forall a, In a args -> variance H a = []) ->
  (forall a b, In a args -> In b args ->
     (a = Bottom \/ b = Top \/ Anc H a b) \/ (b = Bottom \/ a = Top \/ Anc H b a)) ->
  Permutation args args' ->
  octx_depth c + octx_sib c + length args + 3 <= fuel ->
  exists vals s vals' s',
    run_cmds H fuel (chain_prog_o c args) 0 [] (empty_store []) = (None, vals, s) /\
    run_cmds H fuel (chain_prog_o c args') 0 [] (empty_store []) = (None, vals', s') /\
    follow s (last vals (V 0)) = follow s' (last vals' (V 0)).
Proof. exact perm_octx_stmt. Qed.
Print Assumptions C05_perm_octx.

Theorem C05_perm_octx_user : forall H, wf_hier H ->
  forall (c : octx) (args args' : list nat) (fuel : nat),
  wf_octx H c -> pol H c = true ->
  args <> [] ->
  (forall a, In a args -> variance H a = [] /\ a <> Top /\ a <> Bottom) ->
  (forall a b, In a args -> In b args -> Anc H a b \/ Anc H b a) ->
  Permutation args args' ->
  octx_depth c + octx_sib c + length args + 3 <= fuel ->
  exists m vals s vals' s',
    In m args /\ (forall a, In a args -> Anc H a m) /\
    run_cmds H fuel (chain_prog_o c args) 0 [] (empty_store []) = (None, vals, s) /\
    follow s (last vals (V 0)) = O m [] /\
    run_cmds H fuel (chain_prog_o c args') 0 [] (empty_store []) = (None, vals', s') /\
    follow s' (last vals' (V 0)) = O m [].
Proof. exact perm_octx_user_stmt. Qed.
Print Assumptions C05_perm_octx_user.

Theorem C05_glb_perm_octx : forall H, wf_hier H ->
  forall (c : octx) (args args' : list nat) (fuel : nat),
  wf_octx H c -> pol H c = false ->
  args <> [] ->
  (forall a, In a args -> variance H a = [] /\ a <> Top /\ a <> Bottom) ->
  (forall a b, In a args -> In b args -> Anc H a b \/ Anc H b a) ->
  Permutation args args' ->
  octx_depth c + octx_sib c + length args + 3 <= fuel ->
  exists m vals s vals' s',
    In m args /\ (forall a, In a args -> Anc H m a) /\
    run_cmds H fuel (chain_prog_o c args) 0 [] (empty_store []) = (None, vals, s) /\
    follow s (last vals (V 0)) = V 0 /\
    cell_of s 0 = mkCell false None None (Some m) 0 /\
    run_cmds H fuel (chain_prog_o c args') 0 [] (empty_store []) = (None, vals', s') /\
    follow s' (last vals' (V 0)) = V 0 /\
    cell_of s' 0 = mkCell false None None (Some m) 0.
Proof. exact glb_perm_octx_stmt. Qed.
Print Assumptions C05_glb_perm_octx.

(* with Top and Bottom: the same result in any order; when the variable stays
   unresolved its whole cell (upper limit included) is the same *)
Theorem C05_glb_perm_octx_top_bottom : forall H, wf_hier H ->
  forall (c : octx) (args args' : list nat) (fuel : nat),
  wf_octx H c -> pol H c = false ->
  args <> [] ->
  (forall a, In a args -> variance H a = []) ->
  (forall a b, In a args -> In b args ->
     (a = Bottom \/ b = Top \/ Anc H a b) \/ (b = Bottom \/ a = Top \/ Anc H b a)) ->
  Permutation args args' ->
  octx_depth c + octx_sib c + length args + 3 <= fuel ->
  exists vals s vals' s',
    run_cmds H fuel (chain_prog_o c args) 0 [] (empty_store []) = (None, vals, s) /\
    run_cmds H fuel (chain_prog_o c args') 0 [] (empty_store []) = (None, vals', s') /\
    follow s (last vals (V 0)) = follow s' (last vals' (V 0)) /\
    (follow s (last vals (V 0)) = V 0 -> cell_of s 0 = cell_of s' 0).
Proof. exact glb_perm_octx_top_bottom_stmt. Qed.
Print Assumptions C05_glb_perm_octx_top_bottom.

(* ---------- 4. specialising arguments ---------- *)

Theorem C05_mono_octx : forall H, wf_hier H ->
  forall (c : octx) (args args' : list nat) (fuel : nat),
  wf_octx H c -> pol H c = true ->
  args <> [] ->
  (forall a, In a args -> variance H a = []) ->
  (forall a b, In a args -> In b args ->
     (a = Bottom \/ b = Top \/ Anc H a b) \/ (b = Bottom \/ a = Top \/ Anc H b a)) ->
  (forall a, In a args' -> variance H a = []) ->
  (forall a b, In a args' -> In b args' ->
     (a = Bottom \/ b = Top \/ Anc H a b) \/ (b = Bottom \/ a = Top \/ Anc H b a)) ->
  Forall2 (fun x' x => x' = Bottom \/ x = Top \/ Anc H x' x) args' args ->
  octx_depth c + octx_sib c + length args + 3 <= fuel ->
  exists vals s vals' s',
    run_cmds H fuel (chain_prog_o c args) 0 [] (empty_store []) = (None, vals, s) /\
    run_cmds H fuel (chain_prog_o c args') 0 [] (empty_store []) = (None, vals', s') /\
    (follow s' (last vals' (V 0)) = V 0 \/
     exists m m', follow s (last vals (V 0)) = O m [] /\
                  follow s' (last vals' (V 0)) = O m' [] /\
                  (m' = Bottom \/ m = Top \/ Anc H m' m)).
Proof. exact mono_octx_stmt. Qed.
Print Assumptions C05_mono_octx.

Theorem C05_mono_octx_user : forall H, wf_hier H ->
  forall (c : octx) (args args' : list nat) (fuel : nat),
  wf_octx H c -> pol H c = true ->
  args <> [] ->
  (forall a, In a args -> variance H a = [] /\ a <> Top /\ a <> Bottom) ->
  (forall a b, In a args -> In b args -> Anc H a b \/ Anc H b a) ->
  (forall a, In a args' -> variance H a = [] /\ a <> Top /\ a <> Bottom) ->
  (forall a b, In a args' -> In b args' -> Anc H a b \/ Anc H b a) ->
  Forall2 (fun x' x => Anc H x' x) args' args ->
  octx_depth c + octx_sib c + length args + 3 <= fuel ->
  exists m m' vals s vals' s',
    run_cmds H fuel (chain_prog_o c args) 0 [] (empty_store []) = (None, vals, s) /\
    follow s (last vals (V 0)) = O m [] /\
    run_cmds H fuel (chain_prog_o c args') 0 [] (empty_store []) = (None, vals', s') /\
    follow s' (last vals' (V 0)) = O m' [] /\
    Anc H m' m.
Proof. exact mono_octx_user_stmt. Qed.
Print Assumptions C05_mono_octx_user.

Theorem C05_glb_mono_octx : forall H, wf_hier H ->
  forall (c : octx) (args args' : list nat) (fuel : nat),
  wf_octx H c -> pol H c = false ->
  args <> [] ->
  (forall a, In a args -> variance H a = [] /\ a <> Top /\ a <> Bottom) ->
  (forall a b, In a args -> In b args -> Anc H a b \/ Anc H b a) ->
  (forall a, In a args' -> variance H a = [] /\ a <> Top /\ a <> Bottom) ->
  (forall a b, In a args' -> In b args' -> Anc H a b \/ Anc H b a) ->
  Forall2 (fun x' x => Anc H x' x) args' args ->
  octx_depth c + octx_sib c + length args + 3 <= fuel ->
  exists m m' vals s vals' s',
    run_cmds H fuel (chain_prog_o c args) 0 [] (empty_store []) = (None, vals, s) /\
    follow s (last vals (V 0)) = V 0 /\
    cell_of s 0 = mkCell false None None (Some m) 0 /\
    run_cmds H fuel (chain_prog_o c args') 0 [] (empty_store []) = (None, vals', s') /\
    follow s' (last vals' (V 0)) = V 0 /\
    cell_of s' 0 = mkCell false None None (Some m') 0 /\
    Anc H m' m.
Proof. exact glb_mono_octx_stmt. Qed.
Print Assumptions C05_glb_mono_octx.

(* ---------- non-vacuity ---------- *)

(* A(5) > B(6) > C(7), D(8) < A a sibling of B, F(9) unary covariant,
   G(10) ternary with variance (co, contra, co) *)
Definition exH : hier :=
  mk_hier [(6,5); (7,6); (8,5)] [(9, [true]); (10, [true; false; true])].
Example exH_wf : wf_hier exH.
Proof.
  split.
  - intros o p. cbn. repeat (destruct o as [|o]; try discriminate; cbn); intros [= <-]; auto with arith.
  - intros o p. cbn. repeat (destruct o as [|o]; try discriminate; cbn); intros [= <-]; cbn; repeat split; discriminate.
  - split; reflexivity.
  - split; reflexivity.
  - reflexivity.
Qed.

Definition tA := TOp 5 []. Definition tB := TOp 6 []. Definition tC := TOp 7 [].
Definition tD := TOp 8 [].

(* G(F(B), _, A ** C) ** D : two contravariant steps, the hole is covariant *)
Definition c_pos : octx :=
  Node Function [] (Node 10 [TOp 9 [tB]] Hole [TOp Function [tA; tC]]) [tD].
(* D * G(F(B), _, A) : one contravariant step *)
Definition c_neg : octx := Node Product [tD] (Node 10 [TOp 9 [tB]] Hole [tA]) [].
(* (A * D) ** F(_) : function result *)
Definition c_res : octx := Node Function [TOp Product [tA; tD]] (Node 9 [] Hole []) [].

Example ex_wf_octx : wf_octx exH c_pos /\ wf_octx exH c_neg /\ wf_octx exH c_res.
Proof. cbn. repeat (split || constructor). Qed.

Example ex_pol : pol exH c_pos = true /\ pol exH c_neg = false /\ pol exH c_res = true.
Proof. repeat split. Qed.

Example ex_bound :
  octx_depth c_pos + octx_sib c_pos = 4 /\ octx_depth c_neg + octx_sib c_neg = 4 /\
  octx_depth c_res + octx_sib c_res = 4.
Proof. repeat split. Qed.

Example ex_prog_pos : chain_prog_o c_pos [7; 5] =
  let cx x := SOp Function [SOp 10 [SOp 9 [SOp 6 []]; x; SOp Function [SOp 5 []; SOp 7 []]];
                            SOp 8 []] in
  [CInst (mkSchema 1 (SOp Function [cx (SVar 0); SOp Function [cx (SVar 0); SVar 0]]) []);
   CInst (mkSchema 0 (cx (SOp 7 [])) []); CApply 0 1 true;
   CInst (mkSchema 0 (cx (SOp 5 [])) []); CApply 2 3 true].
Proof. reflexivity. Qed.

Lemma exAnc65 : Anc exH 6 5. Proof. econstructor; [reflexivity|constructor]. Qed.
Lemma exAnc76 : Anc exH 7 6. Proof. econstructor; [reflexivity|constructor]. Qed.
Lemma exAnc75 : Anc exH 7 5. Proof. econstructor; [reflexivity|apply exAnc65]. Qed.

(* the hypotheses on the arguments hold for (C, A, B): maximum A, minimum C *)
Example ex_hyps :
  (forall a, In a [7; 5; 6] -> variance exH a = [] /\ a <> Top /\ a <> Bottom) /\
  (forall a b, In a [7; 5; 6] -> In b [7; 5; 6] -> Anc exH a b \/ Anc exH b a) /\
  In 5 [7; 5; 6] /\ (forall a, In a [7; 5; 6] -> Anc exH a 5) /\
  In 7 [7; 5; 6] /\ (forall a, In a [7; 5; 6] -> Anc exH 7 a).
Proof.
  split; [|split; [|split; [|split; [|split]]]].
  - intros a Ha. cbn in Ha.
    destruct Ha as [<-|[<-|[<-|[]]]]; repeat split; discriminate || reflexivity.
  - intros a b Ha Hb. cbn in Ha, Hb.
    destruct Ha as [<-|[<-|[<-|[]]]]; destruct Hb as [<-|[<-|[<-|[]]]];
      auto using anc_refl, exAnc65, exAnc76, exAnc75.
  - cbn; auto.
  - intros a Ha. cbn in Ha.
    destruct Ha as [<-|[<-|[<-|[]]]]; auto using anc_refl, exAnc65, exAnc75.
  - cbn; auto.
  - intros a Ha. cbn in Ha.
    destruct Ha as [<-|[<-|[<-|[]]]]; auto using anc_refl, exAnc76, exAnc75.
Qed.

(* the model computes what the theorems say, at the stated fuel bound 4 + 3 + 3 *)
Example ex_run_pos :
  (let '(e, vals, s) := run_cmds exH 10 (chain_prog_o c_pos [7; 5; 6]) 0 [] (empty_store []) in
   (e, follow s (last vals (V 0)))) = (None, O 5 []).
Proof. vm_compute. reflexivity. Qed.

Example ex_run_res :
  (let '(e, vals, s) := run_cmds exH 10 (chain_prog_o c_res [6; Bottom; 7]) 0 [] (empty_store []) in
   (e, follow s (last vals (V 0)))) = (None, O 6 []).
Proof. vm_compute. reflexivity. Qed.

Example ex_run_neg :
  (let '(e, vals, s) := run_cmds exH 10 (chain_prog_o c_neg [6; 7; 5]) 0 [] (empty_store []) in
   (e, follow s (last vals (V 0)), cell_of s 0))
    = (None, V 0, mkCell false None None (Some 7) 0) /\
  (let '(e, vals, s) := run_cmds exH 10 (chain_prog_o c_neg [6; 7; 5] ++ [CFix 6 false]) 0 []
                                 (empty_store []) in
   (e, follow s (last vals (V 0)))) = (None, O 7 []).
Proof. split; vm_compute; reflexivity. Qed.

(* the earlier programs are instances *)
Example ex_instances :
  chain_prog_o Hole [7; 5; 6] = chain_prog [7; 5; 6] /\
  chain_prog_o (Node 9 [] (Node 9 [] Hole []) []) [7; 6] = chain_prog_c [9; 9] [7; 6] /\
  chain_prog_o (Node Function [] Hole [tD]) [5; 7] = chain_prog_d 8 [5; 7].
Proof. repeat split. Qed.
