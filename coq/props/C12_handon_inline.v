(* C12 (extension)  C12_inline for workflows with hand-on tools.

   props/C12.v (C12_inline) is about the class [wf_okb] (every tool an operator application).
   Here: the class [wf_okb2] of props/C12_handon.v, in which a tool may simply hand its input
   on ([TIn k] at the top of the tool expression).

   The inlined expression is the EXISTING function [inline] (Graph/WorkflowSpec.v): for a tool
   with a_tx a = TIn k, [inst es (TIn k)] is [nth_error es k], i.e. the inlined expression of
   the k-th input - a hand-on tool inlines to the inlined expression of what it hands on.
   No new inline function is needed.

   Side condition [inl_okb2] (decidable; analogue of inl_okb, which implies it): every tool
   mentions every input it declares ([uses_all]; inputs that are not mentioned are not part of
   the inlined expression) and is an operator application or a hand-on tool (which then has
   exactly one input).

   Model      Graph/Workflow.v            add_workflow (pinned = false: graph.py as repaired)
   Spec       Graph/WorkflowSpec.v        inline, uses_all;  Graph/AddExprSpec.v  shape, flow
              Graph/WorkflowHandOn.v      wf_okb2;  Graph/WorkflowHandOnInline.v  inl_okb2
   Proofs     Graph/WorkflowHandOnInline.v (on top of C12_handon_plugged)
   Property theorems only; each is closed by [exact] of a library lemma. *)
From Coq Require Import List Arith Bool.
Import ListNotations.
From TF Require Import Graph.AddExpr Graph.AddExprSpec Graph.AddExprProofs.
From TF Require Import Graph.Workflow Graph.WorkflowSpec Graph.WorkflowProofs Graph.WorkflowInline.
From TF Require Import Graph.WorkflowHandOn Graph.WorkflowHandOnInline.

(* the new side condition contains the old one *)
Theorem C12_handon_inline_class : forall wf,
  wf_okb wf = true -> inl_okb wf = true -> wf_okb2 wf = true /\ inl_okb2 wf = true.
Proof. intros wf H1 H2. split; [exact (wf_okb_okb2 wf H1) | exact (inl_okb_okb2 wf H2)]. Qed.
Print Assumptions C12_handon_inline_class.

(* Passthrough on, hand-on tools allowed, every tool mentions all its inputs: the workflow graph
   is the graph of the single expression [inline] in which every tool input is replaced by the
   expression of the tool that produced it and a hand-on tool by what it hands on -
   add_workflow on the workflow and add_expr on that expression both produce exactly the
   triples [flow] prescribes for an application tree ([shape], C08) of that one expression; the
   node of the final application is the root of the tree.  (As in C12_inline the two trees
   differ in the names of their positions, and the workflow's tree gives the copies of a shared
   intermediate result the same names.) *)
Theorem C12_handon_inline : forall add_from add_from_r,
  add_from_ok add_from -> add_from_ok add_from_r ->
  forall wf, wf_okb2 wf = true -> inl_okb2 wf = true ->
  exists res tg e U sm0 L st',
    add_workflow add_from add_from_r false true wf = Some res /\
    target wf = Some tg /\ inline wf (wf_fuel wf) tg = Some e /\
    shape sm0 [] e U /\ lnode U = r_output res /\
    (forall t, vis t -> (In t (r_tr res) <-> In t (flow U))) /\
    add_expr add_from false e None g_empty = Some (lnode L, st') /\
    shape (srcmap (g_memo st')) [] e L /\
    (forall t, vis t -> (In t (g_tr st') <-> In t (flow L))).
Proof. exact add_workflow_handon_vs_add_expr. Qed.
Print Assumptions C12_handon_inline.

(* ------------------------------------------------------------------------ *)
(* Non-vacuity *)

(* source 0;  1 := f 1 on [0];  2 := `1` on [1];  3 := g 1 on [2]:  inlines to g (f s0) *)
Definition hi_wf : wflow :=
  mkWf [0] [mkApp 3 (TApp 31 (TOp 30 1) (TIn 0) false) [2] [32];
            mkApp 1 (TApp 11 (TOp 10 0) (TIn 0) false) [0] [12];
            mkApp 2 (TIn 0) [1] [22]].

Example C12_handon_inline_ex_chain :
  wf_okb2 hi_wf = true /\ inl_okb2 hi_wf = true /\ inl_okb hi_wf = false /\
  inline hi_wf (wf_fuel hi_wf) 3 =
    Some (EApp 31 (EOp 30 1) (EApp 11 (EOp 10 0) (ESrc 0) false) false) /\
  add_workflow add_from_plain add_from_plain false true hi_wf =
    Some (mkRes [(3, p_from, 1); (3, p_via, 1); (1, p_from, 0); (1, p_via, 0)]
                [0] 3 [(0, 0); (1, 1); (2, 1); (3, 3)]).
Proof. repeat split; vm_compute; reflexivity. Qed.

(* the handed-on resource 2 is shared by two consumers, and the resource 1 it hands on is also
   used directly:
     source 0;  1 := f 1 [0];  2 := `1` [1];  3 := g 1 [2];  4 := h 1 2 [3; 2];  5 := h 1 2 [4; 1]
   inlines to  h (h (g (f s0)) (f s0)) (f s0),  the three copies of f s0 being one object; in the
   workflow graph they are the one node 1 *)
Definition hs_wf : wflow := mkWf [0]
  [mkApp 5 (TApp 52 (TApp 51 (TOp 50 2) (TIn 0) false) (TIn 1) false) [4; 1] [53; 54];
   mkApp 1 (TApp 11 (TOp 10 0) (TIn 0) false) [0] [12];
   mkApp 2 (TIn 0) [1] [22];
   mkApp 3 (TApp 31 (TOp 30 1) (TIn 0) false) [2] [32];
   mkApp 4 (TApp 42 (TApp 41 (TOp 40 2) (TIn 0) false) (TIn 1) false) [3; 2] [43; 44]].

Example C12_handon_inline_ex_shared :
  wf_okb2 hs_wf = true /\ inl_okb2 hs_wf = true /\ target hs_wf = Some 5 /\
  inline hs_wf (wf_fuel hs_wf) 5 =
    Some (EApp 52 (EApp 51 (EOp 50 2)
            (EApp 42 (EApp 41 (EOp 40 2)
                        (EApp 31 (EOp 30 1) (EApp 11 (EOp 10 0) (ESrc 0) false) false) false)
                     (EApp 11 (EOp 10 0) (ESrc 0) false) false) false)
            (EApp 11 (EOp 10 0) (ESrc 0) false) false) /\
  add_workflow add_from_plain add_from_plain false true hs_wf =
    Some (mkRes [(8, p_from, 1); (8, p_from, 5); (8, p_via, 2); (5, p_from, 1); (5, p_from, 3);
                 (5, p_via, 2); (3, p_from, 1); (3, p_via, 1); (1, p_from, 0); (1, p_via, 0)]
                [0] 8 [(0, 0); (1, 1); (2, 1); (3, 3); (4, 5); (5, 8)]).
Proof. repeat split; vm_compute; reflexivity. Qed.

(* the theorem applied to it *)
Example C12_handon_inline_ex_apply :
  exists res e U sm0,
    add_workflow add_from_plain add_from_plain false true hs_wf = Some res /\
    inline hs_wf (wf_fuel hs_wf) 5 = Some e /\ shape sm0 [] e U /\ lnode U = r_output res /\
    (forall t, vis t -> (In t (r_tr res) <-> In t (flow U))).
Proof.
  destruct (C12_handon_inline add_from_plain add_from_plain add_from_plain_ok add_from_plain_ok
              hs_wf eq_refl eq_refl)
    as [res [tg [e [U [sm0 [L [st' [Hrun [Htg [Hi [Hs [Hn [Hg _]]]]]]]]]]]]].
  assert (tg = 5) by (vm_compute in Htg; congruence). subst tg.
  exists res, e, U, sm0. auto.
Qed.

(* the side condition is about unmentioned inputs: the workflow of C12_handon_ex_unused
   (r3 := `1` on [r1, r2]) is in wf_okb2 but not in inl_okb2 *)
Example C12_handon_inline_ex_unmentioned : wf_okb2 unused_wf = true /\ inl_okb2 unused_wf = false.
Proof. split; reflexivity. Qed.
